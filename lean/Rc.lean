import Rc.Base
