/-
"Well-formed capability" written from the documents that define the capabilities, not from the
decoder: `RfcCap code value` says that `value` has the form the defining RFC / draft gives for
capability `code`.  `rfcCap_wf`: every such capability (value ≤ 255 octets) is one the decoder's
content rules accept (`WfCap`), for every code routecore knows and every unknown code.  With it
`open_decode_encode` speaks about RFC-formed OPENs (C03, audit finding H1).

Sources: 1 RFC 4760 §8; 2 RFC 2918; 3/130 RFC 5291 §4 (one or more AFI/SAFI blocks); 5 RFC 8950 §3
(6-octet triples); 6 RFC 8654; 8 RFC 8277 §2.1 (4-octet tuples); 9 RFC 9234 §4.1; 64 RFC 4724 §3
(2 octets + 4-octet tuples); 65 RFC 6793; 66/67 draft-ietf-idr-dynamic-cap (a list of capability
codes, any length); 68/131 draft-ietf-idr-bgp-multisession (flags octet + session identifiers);
69 RFC 7911 §4 (one or more 4-octet tuples, Send/Receive 1..3); 70 RFC 7313; 71 RFC 9494 §3.1
(7-octet tuples); 73 draft-walton-bgp-hostname-capability (length-prefixed host name and domain
name); 75 draft-abraitis-bgp-version-capability (length octet + version string);
76 draft-abraitis-idr-addpath-paths-limit (5-octet tuples AFI, SAFI, Paths Limit);
128 the pre-standard route refresh (empty).  0 (reserved) and unknown codes: any value.
-/
import Rc.Model.Open
import Rc.Lemmas.OpenEnc

namespace Rc.Open
open Rc

/-- RFC 5291: `AFI(2) Reserved(1) SAFI(1) Number-of-ORFs(1) (ORF-Type(1) Send/Receive(1))*`, one
or more such blocks -/
def orfForm : Nat → Bytes → Bool
  | 0, _ => false
  | fuel + 1, _ :: _ :: _ :: _ :: n :: r =>
    decide (2 * n.toNat ≤ r.length) &&
      ((r.drop (2 * n.toNat)).isEmpty || orfForm fuel (r.drop (2 * n.toNat)))
  | _ + 1, _ => false

/-- RFC 7911: tuples `AFI(2) SAFI(1) Send/Receive(1)` with Send/Receive 1, 2 or 3 -/
def apForm : Bytes → Bool
  | [] => true
  | _ :: _ :: _ :: d :: r => decide (1 ≤ d.toNat ∧ d.toNat ≤ 3) && apForm r
  | _ => false

/-- host name and domain name, each preceded by its length octet, and nothing else -/
def fqdnForm (v : Bytes) : Bool :=
  match v with
  | hl :: r =>
    match takeN hl.toNat r with
    | some (_, dl :: r2) => decide (r2.length = dl.toNat)
    | _ => false
  | [] => false

/-- the value has the form its defining document gives for capability `code` -/
def RfcCap (code : Nat) (v : Bytes) : Bool :=
  match code with
  | 1 => v.length == 4
  | 2 | 6 | 70 | 128 => v.length == 0
  | 3 | 130 => orfForm v.length v
  | 5 => v.length % 6 == 0
  | 8 => v.length % 4 == 0
  | 9 => v.length == 1
  | 64 => decide (2 ≤ v.length) && (v.length - 2) % 4 == 0
  | 65 => v.length == 4
  | 68 | 131 => decide (1 ≤ v.length)
  | 69 => !v.isEmpty && apForm v
  | 71 => v.length % 7 == 0
  | 73 => fqdnForm v
  | 75 => match v with | n :: r => r.length == n.toNat | [] => false
  | 76 => v.length % 5 == 0
  | _ => true

private theorem readLoop_ok (k len : Nat) (hk : 0 < k) :
    ∀ (fuel c : Nat) (body : Bytes), k ∣ body.length → body.length + c = len + 2 → 2 ≤ c →
      readLoop k fuel c len body = true := by
  intro fuel
  induction fuel with
  | zero => intro c body _ _ _; simp [readLoop]
  | succ n ih =>
    intro c body hd hinv hc2
    unfold readLoop
    by_cases hc : c < len
    · simp only [hc, if_true]
      have hpos : 0 < body.length := by omega
      have hle : k ≤ body.length := Nat.le_of_dvd hpos hd
      simp only [hle, if_true]
      apply ih
      · rw [List.length_drop]; exact Nat.dvd_sub hd (Nat.dvd_refl k)
      · rw [List.length_drop]; omega
      · omega
    · simp [hc]

private theorem req_ok' {p : Prop} [Decidable p] (h : p) :
    (if p then Outcome.ok () else Outcome.err) = Outcome.ok () := by simp [h]

/-- **every RFC-formed capability is accepted by the decoder's content rules** – for all 21
content-checked codes and all others, any value of at most 255 octets -/
theorem rfcCap_wf (c : Cap) (hl : c.value.length ≤ 255) (h : RfcCap c.code.toNat c.value = true) :
    WfCap c := by
  refine ⟨hl, ?_⟩
  generalize c.code.toNat = code at h
  generalize c.value = v at h hl
  unfold RfcCap at h
  unfold capContent
  split at h
  · -- 1
    simp only [beq_iff_eq] at h; simp [h]
  · simp only [beq_iff_eq] at h; simp [h]
  · simp only [beq_iff_eq] at h; simp [h]
  · simp only [beq_iff_eq] at h; simp [h]
  · simp only [beq_iff_eq] at h; simp [h]
  · -- 3
    cases hv : v.length with
    | zero => rw [hv] at h; simp [orfForm] at h
    | succ m =>
      rw [hv] at h
      match v, h with
      | _ :: _ :: _ :: _ :: n :: r, h =>
        simp only [orfForm, Bool.and_eq_true, decide_eq_true_eq] at h
        simp [h.1]
  · -- 130
    cases hv : v.length with
    | zero => rw [hv] at h; simp [orfForm] at h
    | succ m =>
      rw [hv] at h
      match v, h with
      | _ :: _ :: _ :: _ :: n :: r, h =>
        simp only [orfForm, Bool.and_eq_true, decide_eq_true_eq] at h
        simp [h.1]
  · -- 5
    simp only [beq_iff_eq] at h
    rw [readLoop_ok 6 v.length (by omega) v.length 2 v (Nat.dvd_of_mod_eq_zero h) rfl (by omega)]; rfl
  · -- 8
    simp only [beq_iff_eq] at h
    rw [readLoop_ok 4 v.length (by omega) v.length 2 v (Nat.dvd_of_mod_eq_zero h) rfl (by omega)]; rfl
  · -- 9
    simp only [beq_iff_eq] at h; simp [h]
  · -- 64
    simp only [Bool.and_eq_true, decide_eq_true_eq, beq_iff_eq] at h
    have h2 : readLoop 4 v.length 4 v.length (v.drop 2) = true :=
      readLoop_ok 4 v.length (by omega) v.length 4 (v.drop 2)
        (by rw [List.length_drop]; exact Nat.dvd_of_mod_eq_zero h.2)
        (by rw [List.length_drop]; omega) (by omega)
    simp [h.1, h2]
  · -- 65
    simp only [beq_iff_eq] at h; simp [h]
  · -- 68
    simp only [decide_eq_true_eq] at h
    have : v.length ≠ 0 := by omega
    simp [this]
  · simp only [decide_eq_true_eq] at h
    have : v.length ≠ 0 := by omega
    simp [this]
  · -- 69
    match v, h with
    | _ :: _ :: _ :: d :: r, h =>
      simp only [apForm, Bool.and_eq_true, decide_eq_true_eq] at h
      have : d.toNat ≤ 3 := h.2.1.2
      simp [this]
    | [], h => simp at h
    | [_], h => simp [apForm] at h
    | [_, _], h => simp [apForm] at h
    | [_, _, _], h => simp [apForm] at h
  · -- 71
    simp only [beq_iff_eq] at h
    rw [readLoop_ok 7 v.length (by omega) v.length 2 v (Nat.dvd_of_mod_eq_zero h) rfl (by omega)]; rfl
  · -- 73
    unfold fqdnForm at h
    match v, h with
    | hl :: r, h =>
      simp only at h ⊢
      cases ht : takeN hl.toNat r with
      | none => rw [ht] at h; simp at h
      | some p =>
        obtain ⟨x, y⟩ := p
        rw [ht] at h
        match y, h with
        | dl :: r2, h =>
          simp only [decide_eq_true_eq] at h
          simp [h]
  · -- 75
    match v, h with
    | n :: r, h =>
      simp only [beq_iff_eq] at h
      simp [h]
  · -- 76
    simp
  · -- others
    split <;> first | rfl | (simp; done) | (exfalso; simp_all; done) | (exfalso; omega)

/-- conversely, for the codes whose rule fixes the length the decoder accepts nothing else:
MultiProtocol / 4-octet AS of length ≠ 4, a non-empty RouteRefresh / ExtendedMessage /
EnhancedRouteRefresh / pre-standard RouteRefresh, a Role capability of length ≠ 1 are refused -/
theorem fixed_length_only (c : Cap) (h : WfCap c) :
    (c.code.toNat = 1 ∨ c.code.toNat = 65 → c.value.length = 4) ∧
    (c.code.toNat = 2 ∨ c.code.toNat = 6 ∨ c.code.toNat = 70 ∨ c.code.toNat = 128 → c.value.length = 0) ∧
    (c.code.toNat = 9 → c.value.length = 1) := by
  obtain ⟨_, h⟩ := h
  refine ⟨?_, ?_, ?_⟩
  · rintro (h1 | h1) <;> rw [h1] at h <;> simp [capContent] at h <;>
      (by_cases hq : c.value.length = 4 <;> simp_all)
  · rintro (h1 | h1 | h1 | h1) <;> rw [h1] at h <;> simp [capContent] at h <;>
      (by_cases hq : c.value.length = 0 <;> simp_all)
  · intro h1; rw [h1] at h; simp [capContent] at h
    by_cases hq : c.value.length = 1 <;> simp_all

/-! ### the ADD-PATH family list, end to end -/

/-- RFC 7911 reading of an ADD-PATH capability value: one (AFI, SAFI, Send/Receive) per 4 octets -/
def apEntries : Bytes → List (Nat × Nat × Nat)
  | a :: b :: s :: d :: r => (a.toNat * 256 + b.toNat, s.toNat, d.toNat) :: apEntries r
  | _ => []

/-- every entry of every ADD-PATH capability of a capability list, in wire order -/
def apAll (cs : List Cap) : List (Nat × Nat × Nat) :=
  (cs.filter fun c => c.code.toNat == 69).flatMap fun c => apEntries c.value

private theorem chunks_of_form : ∀ (v : Bytes), apForm v = true → ∀ fuel, v.length ≤ fuel →
    (chunks4 fuel v).mapM apChunk = some (apEntries v)
  | [], _, fuel, _ => by cases fuel <;> simp [chunks4, apEntries]
  | [_], h, _, _ => by simp [apForm] at h
  | [_, _], h, _, _ => by simp [apForm] at h
  | [_, _, _], h, _, _ => by simp [apForm] at h
  | a :: b :: s :: d :: r, h, fuel, hf => by
    simp only [apForm, Bool.and_eq_true, decide_eq_true_eq] at h
    cases fuel with
    | zero => simp at hf
    | succ n =>
      have ih := chunks_of_form r h.2 n (by simp at hf; omega)
      simp only [chunks4, List.take, List.drop, List.mapM_cons, apChunk, apEntries]
      simp [h.1, ih]

theorem apValue_of_form (v : Bytes) (h : apForm v = true) : apValue v = some (apEntries v) :=
  chunks_of_form v h _ (Nat.le_refl _)

theorem apSpec_of_form (cs : List Cap) (h : ∀ c ∈ cs, c.code.toNat = 69 → apForm c.value = true) :
    apSpec cs = some (apAll cs) := by
  induction cs with
  | nil => simp [apSpec, apAll]
  | cons c cs ih =>
    have ih' := ih (fun c' hc' => h c' (by simp [hc']))
    unfold apSpec
    by_cases h69 : c.code.toNat = 69
    · have hv := apValue_of_form c.value (h c (by simp) h69)
      simp [h69, hv, ih', apAll]
    · simp [h69, ih', apAll]

end Rc.Open
