/-
Property C01 on the level of TYPED attributes: the observation a faithful
decoder has to report for an abstract content (`expected`), the
well-formedness predicate of contents, and field by field what the decoder
model reports about the output of the reference encoder `encUpdateT`.
-/
import Rc.Lemmas.UpdateRaw
import Rc.Model.UpdateObs

namespace Rc.Upd
open Rc Rc.Nlri Rc.Attr Rc.AsPath

/-! ### the expected observation, computed from the content alone -/

/-- a typed value as `to_owned()` returns it in a session of the given width:
the segment hops of an AS_PATH are stored in the session's width, those of an
AS4_PATH four octets wide (Rust's `==` on `HopPath` ignores the stored width) -/
def normW (four : Bool) : TypedAttr → TypedAttr
  | .asPath h => .asPath (h.map (Hop.norm four))
  | .as4Path h => .as4Path (h.map (Hop.norm true))
  | a => a

/-- the hops of a segment list read from a wire path of width `w` -/
def hopsOfWire (w : Bool) (ss : List Seg) : HopPath := hopsOfSegs (ss.map (Seg.setFour w))

namespace AttrC

/-- the value octets that were encoded -/
def valueD (cfg : Cfg) (a : AttrC) : Bytes :=
  match a.value cfg with
  | .ok v => v
  | _ => []

/-- flags, type code, value octets as they go on the wire -/
def rawOf (cfg : Cfg) (a : AttrC) : RawAttr := ⟨a.fl, UInt8.ofNat a.code, a.valueD cfg⟩

/-- the typed value `to_owned()` has to return (`none`: not one of the 20 kinds) -/
def ownedT (cfg : Cfg) : AttrC → Option TypedAttr
  | typed _ a => some (normW cfg.four a)
  | path _ false ss => some (.asPath (hopsOfWire cfg.four ss))
  | path _ true ss => some (.as4Path (hopsOfWire true ss))
  | _ => none

/-- the `WireformatPathAttribute` of `path_attributes()`: flags as sent, type
code, value octets; typed variant for the 20 kinds, `Unimplemented` otherwise -/
def wire (cfg : Cfg) (a : AttrC) : Wire :=
  match a.ownedT cfg with
  | some _ => .typed a.fl.toNat a.code (a.valueD cfg)
  | none => .unimplemented a.fl.toNat a.code (a.valueD cfg)

/-- its `to_owned()` -/
def owned (cfg : Cfg) (a : AttrC) : Decoded :=
  match a.ownedT cfg with
  | some t => .typed t
  | none => .unimplemented a.fl.toNat a.code (a.valueD cfg)

/-- the hops `aspath()` / `as4path()` yield for this attribute -/
def hopsT (cfg : Cfg) (a : AttrC) : Option HopPath :=
  match a.ownedT cfg with
  | some (.asPath h) => some h
  | some (.as4Path h) => some h
  | _ => none

end AttrC

/-- the NLRI values as the `Nlri` enum holds them -/
def anyNlris (f : Fam) (ap : Bool) (l : List (Nat × f.Val)) : List AnyNlri :=
  if ap then l.map (fun x => .ap f x.1 x.2) else l.map (fun x => .plain f x.2)

/-- RFC 4760 / 4364 / 4659 / 5549 / 8955 next hop, `none` for a field of illegal length -/
def nhOf (f : Fam) (nh : Bytes) : Outcome NextHop :=
  match nhSpec f nh with
  | some x => .ok x
  | none => .err

namespace TContent

/-- the first attribute of type `k` -/
def find (c : TContent) (k : Nat) : Option AttrC := c.attrs.find? (fun a => a.code == k)

/-- the typed value of the first attribute of type `k` -/
def typedOf (c : TContent) (k : Nat) : Option TypedAttr :=
  match c.find k with
  | some (.typed _ a) => some a
  | _ => none

/-- NLRI type and NLRI of the first MP_UNREACH_NLRI: for one of the 13 families
the family with the session's ADD-PATH setting for it and the withdrawn NLRI;
for an unsupported (AFI, SAFI) the type `Unsupported(afi, safi)` and NO item,
whatever octets the attribute holds (`NlriEnumIter::next` has no rule to read
them by) -/
def unreachOf (cfg : Cfg) (c : TContent) : Option (NlriTy × List AnyNlri) :=
  match c.find 15 with
  | some (.unreach _ f nlri) => some (.known f (cfg.rx (famCode f)), anyNlris f (cfg.rx (famCode f)) nlri)
  | some (.unreachU _ k _) => some (.unsupported k.1 k.2, [])
  | _ => none

/-- the same for the first MP_REACH_NLRI -/
def reachOf (cfg : Cfg) (c : TContent) : Option (NlriTy × List AnyNlri) :=
  match c.find 14 with
  | some (.reach _ f _ _ nlri) => some (.known f (cfg.rx (famCode f)), anyNlris f (cfg.rx (famCode f)) nlri)
  | some (.reachU _ k _ _ _) => some (.unsupported k.1 k.2, [])
  | _ => none

/-- (AFI, SAFI) and next hop of MP_REACH_NLRI; `NextHop::parse` has no rule for
an unsupported (AFI, SAFI): `mp_next_hop()` is an `Err` there, whatever the
next-hop field holds.  The reserved octet plays no role. -/
def reachNh (c : TContent) : Option ((Nat × Nat) × Outcome NextHop) :=
  match c.find 14 with
  | some (.reach _ f nh _ _) => some (famCode f, nhOf f nh)
  | some (.reachU _ k _ _ _) => some (k, .err)
  | _ => none

/-- the first MP_UNREACH_NLRI has no octet after AFI/SAFI (RFC 4724 2: the
End-of-RIB marker's shape) – read off the content, for any family -/
def unreachEmpty (c : TContent) : Bool :=
  match c.find 15 with
  | some (.unreach _ _ nlri) => nlri.isEmpty
  | some (.unreachU _ _ body) => body.isEmpty
  | _ => false

/-- the records of the first community attribute of type `k` -/
def recsOf (c : TContent) (k : Nat) : Option (List Bytes) :=
  match c.typedOf k with
  | some (.communities l) => some (l.cs.map be32)
  | some (.extCommunities cs) => some cs
  | some (.ipv6ExtCommunities cs) => some cs
  | some (.largeCommunities cs) => some cs
  | _ => none

end TContent

def okItems {α : Type} (l : List α) : List (Outcome α) × Bool := (l.map Outcome.ok, true)

def commObs (x : Option (List Bytes)) : Option (List (Outcome Bytes) × Bool) := x.map okItems

def optList {α : Type} (x : Option (List α)) : List α := x.getD []

/-- `typed_withdrawals` / `typed_announcements` for family `f` -/
def typedSpec (conv : List AnyNlri) (mp : Option (NlriTy × List AnyNlri)) (f : Fam) : Outcome (Option Items) :=
  if f = .v4u ∧ conv ≠ [] then .ok (some (okItems conv))
  else
    match mp with
    | some (.known g _, l) => if g = f then .ok (some (okItems l)) else .ok none
    | _ => .ok none

/-- `find_next_hop(k)`: the MP next hop of family `k`; for IPv4 unicast the
conventional NEXT_HOP when the message has no MP_REACH_NLRI of that family -/
def findNextHopSpec (reach : Option ((Nat × Nat) × Outcome NextHop)) (conv : Option NextHop) (k : Nat × Nat) :
    Outcome NextHop :=
  let convOr : Outcome NextHop := match conv with
    | some nh => .ok nh
    | none => .err
  if k = (1, 1) then
    match reach with
    | some (f, .ok nh) => if f = (1, 1) then .ok nh else convOr
    | _ => convOr
  else
    match reach with
    | some (f, .ok nh) => if f = k then .ok nh else .err
    | _ => .err

/-- **What a faithful decoder reports** about the encoding of content `c`
under session configuration `cfg` – a function of the content alone. -/
def expected (cfg : Cfg) (c : TContent) : Observation :=
  let ap1 := cfg.rx (1, 1)
  let cw := anyNlris .v4u ap1 c.wd
  let ca := anyNlris .v4u ap1 c.ann
  let mw := c.unreachOf cfg
  let ma := c.reachOf cfg
  let wl := match encNlris .v4u ap1 c.wd with | .ok b => b.length | _ => 0
  let al := match encNlris .v4u ap1 c.ann with | .ok b => b.length | _ => 0
  let atl := (encRaws (c.attrs.map (AttrC.rawOf cfg))).length
  let convNh : Option NextHop := match c.typedOf 3 with
    | some (.nextHop a) => some (.unicast (be32 a))
    | _ => none
  let comm := c.recsOf 8
  let ext := c.recsOf 16
  let v6 := c.recsOf 25
  let large := c.recsOf 32
  let all := optList comm ++ optList ext ++ optList v6 ++ optList large
  { length := 19 + 2 + wl + 2 + atl + al
    wdLen := wl
    attrLen := atl
    attrs := okItems (c.attrs.map (AttrC.wire cfg))
    owned := c.attrs.map (fun a => .ok (a.owned cfg))
    convWd := okItems cw
    convAnn := okItems ca
    mpWd := .ok (mw.map fun p => (p.1, okItems p.2))
    mpAnn := .ok (ma.map fun p => (p.1, okItems p.2))
    withdrawals := .ok (okItems ((mw.map (·.2)).getD [] ++ cw))
    announcements := .ok (okItems ((ma.map (·.2)).getD [] ++ ca))
    wdVec := .ok (cw ++ (mw.map (·.2)).getD [])
    annVec := .ok (ca ++ (ma.map (·.2)).getD [])
    typedWd := typedSpec cw mw
    typedAnn := typedSpec ca ma
    afiSafis := .ok (if c.wd ≠ [] then some (.known .v4u ap1) else none,
                     if c.ann ≠ [] then some (.known .v4u ap1) else none,
                     mw.map (·.1), ma.map (·.1))
    isEor :=
      if c.wd = [] ∧ c.attrs = [] ∧ c.ann = [] then .ok (some (1, 1))
      else
        match mw with
        | some (ty, _) =>
          if c.unreachEmpty = true ∧ c.wd = [] ∧ c.ann = [] ∧ c.find 14 = none then .ok (some ty.afiSafi) else .ok none
        | none => .ok none
    origin := .ok (match c.typedOf 1 with | some (.origin v) => some v | _ => none)
    aspath := .ok ((c.find 2).bind fun a => (a.hopsT cfg).map fun h => (a.valueD cfg, h))
    as4path := .ok ((c.find 17).bind fun a => (a.hopsT cfg).map fun h => (a.valueD cfg, h))
    convNextHop := .ok convNh
    mpNextHop := match c.reachNh with
      | some (_, .ok nh) => .ok (some nh)
      | some (_, _) => .err
      | none => .ok none
    findNextHop := findNextHopSpec c.reachNh convNh
    med := .ok (match c.typedOf 4 with | some (.med n) => some n | _ => none)
    localPref := .ok (match c.typedOf 5 with | some (.localPref n) => some n | _ => none)
    isAtomicAggregate := (c.find 6).isSome
    aggregator := .ok (match c.typedOf 7 with | some (.aggregator asn addr) => some (asn, be32 addr) | _ => none)
    communities := commObs comm
    extCommunities := commObs ext
    ipv6ExtCommunities := commObs v6
    largeCommunities := commObs large
    allCommunities := if all = [] then .ok none else .ok (some all) }

/-! ### well-formed contents -/

/-- in a two-octet session an AS_PATH / AGGREGATOR cannot carry an AS number above 65535 -/
def narrowOk : TypedAttr → Bool
  | .asPath h => allSmall (asnsOf h)
  | .aggregator asn _ => decide (asn < 65536)
  | _ => true

/-- the kind-specific part of well-formedness -/
def AttrC.kindOk (cfg : Cfg) : AttrC → Prop
  | .typed _ a => WfAttrW a = true ∧ (cfg.four = false → narrowOk a = true)
  | .path _ as4 ss => ∀ s ∈ ss, s.wireOk (as4 || cfg.four) = true
  | .raw _ tc _ => canonicalFlags tc.toNat = none ∧ tc.toNat ≠ 14 ∧ tc.toNat ≠ 15
  | .reach _ f nh _ nlri => NlrisWf f (cfg.rx (famCode f)) nlri ∧ nh.length < 256 ∧ (nhSpec f nh).isSome = true
  | .unreach _ f nlri => NlrisWf f (cfg.rx (famCode f)) nlri
  | .reachU _ k nh _ _ => famOf k = none ∧ k.1 < 65536 ∧ k.2 < 256 ∧ nh.length < 256
  | .unreachU _ k _ => famOf k = none ∧ k.1 < 65536 ∧ k.2 < 256

/-- a well-formed attribute: a value of its kind (C04's `WfAttrW`, C13's
`Seg.wireOk`, C05's `wf` for every NLRI) whose encoding fits the length field
its flags octet announces -/
def WfAttrC (cfg : Cfg) (a : AttrC) : Prop := a.kindOk cfg ∧ (a.rawOf cfg).wf = true

/-- a well-formed content: well-formed conventional NLRI and attributes; an
MP_REACH_NLRI / MP_UNREACH_NLRI that occurs more than once occurs with the same
content (the decoder takes the ADD-PATH flag from the last one and the NLRI from
the first).  Other attribute types may repeat: the getters report the first. -/
def WfContent (cfg : Cfg) (c : TContent) : Prop :=
  NlrisWf .v4u (cfg.rx (1, 1)) c.wd ∧ NlrisWf .v4u (cfg.rx (1, 1)) c.ann ∧
    (∀ a ∈ c.attrs, WfAttrC cfg a) ∧
    (∀ a ∈ c.attrs, ∀ b ∈ c.attrs, a.code = b.code → (a.code = 14 ∨ a.code = 15) → a = b)

end Rc.Upd
