/-
Lemmas about `Rc.Framing.parseFrame` / `drain` / `feed` (the key lemma `drain_append` of the chunking
theorems of C09), shared by `Rc/Thm/C09.lean` and the whole-session lemmas `Rc/Lemmas/Session.lean`.
(Moved here unchanged from `Rc/Thm/C09.lean`, where they were `private`.)
-/
import Rc.Model.Framing

namespace Rc.Framing
open Rc

variable {μ : Type}

/-! ### helper lemmas -/

theorem getD_append_left (a c : Bytes) (i : Nat) (h : i < a.length) :
    (a ++ c).getD i 0 = a.getD i 0 := by
  simp [List.getD, List.getElem?_append_left h]

theorem lenField_append (a c : Bytes) (h : 18 ≤ a.length) :
    lenField (a ++ c) = lenField a := by
  unfold lenField
  rw [getD_append_left a c 16 (by omega), getD_append_left a c 17 (by omega)]

theorem takeN_append_left (n : Nat) (a c : Bytes) (h : n ≤ a.length) :
    takeN n (a ++ c) = some (a.take n, a.drop n ++ c) := by
  unfold takeN
  have h1 : n ≤ a.length + c.length := by omega
  simp [h1, List.take_append_of_le_length h, List.drop_append_of_le_length h]

/-- map the rest buffer of a `parseFrame` result -/
def extend (c : Bytes) : Outcome (Option (Frame μ × Bytes)) → Outcome (Option (Frame μ × Bytes))
  | .ok (some (f, r)) => .ok (some (f, r ++ c))
  | o => o

/-- Once `parse_frame` has decided (frame, error or panic) more bytes do not change the
decision: only the rest buffer grows. -/
theorem parseFrame_append (dec : Bytes → Outcome μ) (buf c : Bytes)
    (h : parseFrame dec buf ≠ .ok none) :
    parseFrame dec (buf ++ c) = extend c (parseFrame dec buf) := by
  unfold parseFrame at h ⊢
  by_cases h18 : buf.length < 18
  · simp [h18] at h
  · have h18' : ¬ (buf ++ c).length < 18 := by simp; omega
    simp only [h18, h18', if_false] at h ⊢
    rw [lenField_append buf c (by omega)]
    by_cases hl : lenField buf < 19
    · simp [hl, extend]
    · simp only [hl, if_false] at h ⊢
      cases hs : checkedSub (lenField buf) 18 with
      | none => simp [extend]
      | some need =>
        simp only [hs] at h ⊢
        have hneed : need = lenField buf - 18 := by
          unfold checkedSub at hs; split at hs <;> simp at hs; omega
        by_cases hn : need ≤ buf.length - 18
        · have hn' : need ≤ (buf ++ c).length - 18 := by simp; omega
          have hle : lenField buf ≤ buf.length := by omega
          simp only [hn, hn', if_true] at h ⊢
          rw [takeN_append_left _ _ _ hle]
          have ht : takeN (lenField buf) buf = some (buf.take (lenField buf), buf.drop (lenField buf)) := by
            simp [takeN, hle]
          rw [ht]
          simp only
          cases dec (buf.take (lenField buf)) <;> simp [extend]
        · simp [hn] at h

theorem drain_none {dec : Bytes → Outcome μ} {buf : Bytes}
    (h : parseFrame dec buf = .ok none) : drain dec buf = ([], .ok buf) := by
  rw [drain]; split <;> simp_all

theorem drain_err {dec : Bytes → Outcome μ} {buf : Bytes}
    (h : parseFrame dec buf = .err) : drain dec buf = ([], .err) := by
  rw [drain]; split <;> simp_all

theorem drain_panic {dec : Bytes → Outcome μ} {buf : Bytes}
    (h : parseFrame dec buf = .panic) : drain dec buf = ([], .panic) := by
  rw [drain]; split <;> simp_all

theorem drain_some {dec : Bytes → Outcome μ} {buf : Bytes} {m : μ} {frame rest : Bytes}
    (h : parseFrame dec buf = .ok (some ((m, frame), rest))) :
    drain dec buf = ((m, frame) :: (drain dec rest).1, (drain dec rest).2) := by
  rw [drain]; split <;> simp_all

/-- continue a run: what `drain` leaves in the buffer gets `c` appended and is drained again -/
def cont (dec : Bytes → Outcome μ) (c : Bytes) (r : Run μ) : Run μ :=
  match r.2 with
  | .ok rest => (r.1 ++ (drain dec (rest ++ c)).1, (drain dec (rest ++ c)).2)
  | _ => r

/-- KEY LEMMA: draining `buf ++ c` = draining `buf`, appending `c` to what is left, draining
again. -/
theorem drain_append (dec : Bytes → Outcome μ) (c : Bytes) :
    ∀ (n : Nat) (buf : Bytes), buf.length ≤ n → drain dec (buf ++ c) = cont dec c (drain dec buf) := by
  intro n
  induction n with
  | zero =>
    intro buf hb
    have : parseFrame dec buf = .ok none := by unfold parseFrame; simp; omega
    rw [drain_none this]; simp [cont]
  | succ n ih =>
    intro buf hb
    cases hp : parseFrame dec buf with
    | err =>
      have := parseFrame_append dec buf c (by simp [hp])
      rw [hp] at this
      rw [drain_err hp, drain_err (by simpa [extend] using this)]; simp [cont]
    | panic =>
      have := parseFrame_append dec buf c (by simp [hp])
      rw [hp] at this
      rw [drain_panic hp, drain_panic (by simpa [extend] using this)]; simp [cont]
    | ok o =>
      cases o with
      | none => rw [drain_none hp]; simp [cont]
      | some fr =>
        obtain ⟨⟨m, frame⟩, rest⟩ := fr
        have hlt := parseFrame_rest_lt hp
        have := parseFrame_append dec buf c (by simp [hp])
        rw [hp] at this
        have h2 : parseFrame dec (buf ++ c) = .ok (some ((m, frame), rest ++ c)) := by
          simpa [extend] using this
        rw [drain_some hp, drain_some h2, ih rest (by omega)]
        generalize drain dec rest = r
        obtain ⟨fs, e⟩ := r
        cases e <;> simp [cont]

/-- what is left after a drain needs more bytes: draining it again yields nothing -/
theorem drain_rest_stuck (dec : Bytes → Outcome μ) :
    ∀ (n : Nat) (buf rest : Bytes), buf.length ≤ n → (drain dec buf).2 = .ok rest →
      drain dec rest = ([], .ok rest) := by
  intro n
  induction n with
  | zero =>
    intro buf rest hb h
    have hp : parseFrame dec buf = .ok none := by unfold parseFrame; simp; omega
    rw [drain_none hp] at h
    simp at h; subst h
    exact drain_none hp
  | succ n ih =>
    intro buf rest hb h
    cases hp : parseFrame dec buf with
    | err => rw [drain_err hp] at h; simp at h
    | panic => rw [drain_panic hp] at h; simp at h
    | ok o =>
      cases o with
      | none =>
        rw [drain_none hp] at h; simp at h; subst h; exact drain_none hp
      | some fr =>
        obtain ⟨⟨m, frame⟩, r⟩ := fr
        have hlt := parseFrame_rest_lt hp
        rw [drain_some hp] at h
        exact ih r rest (by omega) h

theorem foldl_feed_stopped (dec : Bytes → Outcome μ) (fs : List (Frame μ)) (e : Outcome Bytes)
    (he : ∀ b, e ≠ .ok b) (cs : List Bytes) : cs.foldl (feed dec) (fs, e) = (fs, e) := by
  induction cs with
  | nil => rfl
  | cons c cs ih =>
    simp only [List.foldl_cons]
    have : feed dec (fs, e) c = (fs, e) := by
      unfold feed
      cases e with
      | ok b => exact absurd rfl (he b)
      | err => rfl
      | panic => rfl
    rw [this, ih]

/-- generalised chunking invariance: from a buffer that needs more bytes -/
theorem foldl_feed_eq (dec : Bytes → Outcome μ) :
    ∀ (cs : List Bytes) (fs : List (Frame μ)) (b : Bytes), drain dec b = ([], .ok b) →
      cs.foldl (feed dec) (fs, .ok b) =
        (fs ++ (drain dec (b ++ cs.flatten)).1, (drain dec (b ++ cs.flatten)).2) := by
  intro cs
  induction cs with
  | nil => intro fs b hb; simp [hb]
  | cons c cs ih =>
    intro fs b hb
    simp only [List.foldl_cons, List.flatten_cons]
    have hstep : feed dec (fs, .ok b) c = (fs ++ (drain dec (b ++ c)).1, (drain dec (b ++ c)).2) := by
      simp [feed]
    rw [hstep, ← List.append_assoc b c, drain_append dec cs.flatten _ (b ++ c) (Nat.le_refl _)]
    unfold cont
    cases hr : (drain dec (b ++ c)).2 with
    | ok r =>
      have hstuck := drain_rest_stuck dec _ (b ++ c) r (Nat.le_refl _) hr
      rw [ih _ r hstuck]
      simp [List.append_assoc]
    | err =>
      rw [foldl_feed_stopped dec _ _ (by simp) cs]; simp [hr]
    | panic =>
      rw [foldl_feed_stopped dec _ _ (by simp) cs]; simp [hr]

theorem drain_nil (dec : Bytes → Outcome μ) : drain dec [] = ([], .ok []) :=
  drain_none (by simp [parseFrame])


/-- `parse_frame` itself has no reachable panic (statement: `Rc.Thm.C09.parseFrame_ne_panic`) -/
theorem parseFrame_ne_panic' (dec : Bytes → Outcome μ) (hdec : ∀ b, dec b ≠ .panic) (buf : Bytes) :
    parseFrame dec buf ≠ .panic := by
  unfold parseFrame
  by_cases h1 : buf.length < 18
  · simp [h1]
  · simp only [h1, if_false]
    by_cases h2 : lenField buf < 19
    · simp [h2]
    · simp only [h2, if_false]
      have hs : checkedSub (lenField buf) 18 = some (lenField buf - 18) := by simp [checkedSub]; omega
      rw [hs]
      by_cases hn : lenField buf - 18 ≤ buf.length - 18
      · have hle : lenField buf ≤ buf.length := by omega
        have ht : takeN (lenField buf) buf = some (buf.take (lenField buf), buf.drop (lenField buf)) := by
          simp [takeN, hle]
        simp only [hn, if_true, ht]
        cases hd : dec (buf.take (lenField buf)) with
        | ok m => simp
        | err => simp
        | panic => exact absurd hd (hdec _)
      · simp [hn]

end Rc.Framing
