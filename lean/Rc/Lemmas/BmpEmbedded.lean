/-
C15: the OPENs and the UPDATE embedded in BMP messages, through the models and theorems that
own them (C03: `Rc/Model/Open.lean`, `Rc.Thm.C03.open_accessors_total`; C02:
`Rc.Thm.C02.parse_total`), via the bridge `Rc/Lemmas/OpenBridge.lean`
(`OpenMessage::parse` accepts ⇒ `OpenMessage::check` accepts).
-/
import Rc.Model.BmpEmbedded
import Rc.Model.OpenParse
import Rc.Lemmas.OpenBridge
import Rc.Thm.C02
import Rc.Thm.C03

namespace Rc.Bmp
open Rc

/-- an OPEN accepted by `OpenMessage::parse` is an OPEN `OpenMessage::from_octets` accepts -/
theorem parsed_open_from_octets {bs : Bytes} {n : Nat} (h : Rc.OpenParse.openParse bs = .ok n) :
    Open.fromOctets (bs.take n) = .ok (bs.take n) := by
  have := (Rc.OpenBridge.openParse_check bs n h).2
  simp [Open.fromOctets, this]

/-- the configuration accessors do not panic on a checked OPEN -/
theorem openCfg_ne_panic (m : Bytes) (h : Open.fromOctets m = .ok m) : openCfg m ≠ .panic := by
  obtain ⟨_, hv, _, hh, hi, _, hps, hcs, ha, hf, hmp, hap, hsw⟩ := Rc.Thm.C03.open_accessors_total m m h
  unfold openCfg
  cases h1 : Open.myAsn m <;> try simp_all
  cases h2 : Open.fourOctetCapable m <;> try simp_all
  cases h3 : Open.addpathFamiliesVec m <;> try simp_all
  all_goals
    cases h4 : Open.multiprotocolIds m <;> try simp_all
    cases h5 : Open.capabilities m >>= Open.collect <;> try simp_all
    cases h6 : Open.parameters m >>= Open.collect <;> try simp_all
    cases h7 : Open.softwareVersion m <;> try simp_all
    cases h8 : Open.holdtime m <;> try simp_all
    cases h9 : Open.identifier m <;> try simp_all
    cases h10 : Open.version m <;> simp_all

theorem openSent_inv {d : Deps} {bs s : Bytes} (h : openSent d bs = .ok s) :
    ∃ n, d.openParse (bs.drop (COFF + 20)) = .ok n ∧ s = (bs.drop (COFF + 20)).take n := by
  unfold openSent openSentLen at h
  split at h
  · rename_i n hn
    split at hn
    · split at hn
      · rename_i n' hp
        simp at hn h
        exact ⟨n', hp, by rw [← h, hn]⟩
      · simp at hn
    · simp at hn
  · simp at h

theorem openRcvd_inv {d : Deps} {bs r : Bytes} (h : openRcvd d bs = .ok r) :
    ∃ off n, d.openParse (bs.drop off) = .ok n ∧ r = (bs.drop off).take n := by
  unfold openRcvd openRcvdLen at h
  split at h
  · rename_i off n hn
    split at hn
    · dsimp only at hn
      split at hn
      · split at hn
        · rename_i n' hp
          simp at hn h
          exact ⟨_, n', hp, by rw [← h, ← hn.1, ← hn.2]⟩
        · simp at hn
      · simp at hn
    · simp at hn
  · simp at h

end Rc.Bmp

namespace Rc.OpenNoErr
open Rc Rc.Open Rc.Bmp

/-! the accessor models of `Rc/Model/Open.lean` have no error result (the Rust accessors return
plain values), `addpath_families_vec` excepted -/

theorem idx_ne_err (bs : Bytes) (i : Nat) : Open.idx bs i ≠ .err := by
  unfold Open.idx; split <;> simp
theorem slice_ne_err (bs : Bytes) (a b : Nat) : Open.slice bs a b ≠ .err := by
  unfold Open.slice; split <;> simp

theorem bind_ne_err {α β} (x : Outcome α) (f : α → Outcome β) (hx : x ≠ .err) (hf : ∀ a, f a ≠ .err) :
    (x >>= f) ≠ .err := by
  cases x with
  | ok a => exact hf a
  | err => exact absurd rfl hx
  | panic => simp

theorem holdtime_ne_err (m : Bytes) : holdtime m ≠ .err := by
  unfold holdtime
  exact bind_ne_err _ _ (idx_ne_err _ _) fun _ => bind_ne_err _ _ (idx_ne_err _ _) fun _ => by simp
theorem asn2_ne_err (m : Bytes) : asn2 m ≠ .err := by
  unfold asn2
  exact bind_ne_err _ _ (idx_ne_err _ _) fun _ => bind_ne_err _ _ (idx_ne_err _ _) fun _ => by simp
theorem parameters_ne_err (m : Bytes) : parameters m ≠ .err := by
  unfold parameters
  repeat' split
  all_goals simp
theorem capabilities_ne_err (m : Bytes) : capabilities m ≠ .err := by
  unfold capabilities
  have := parameters_ne_err m
  split <;> simp_all
theorem collect_ne_err {α} (l : Lazy α) : collect l ≠ .err := by
  unfold collect; split <;> simp
theorem lazyFind_ne_err {α} (p : α → Bool) (l : Lazy α) : lazyFind p l ≠ .err := by
  unfold lazyFind; repeat' split
  all_goals simp
theorem be32val_ne_err (v : Bytes) : be32val v ≠ .err := by
  unfold be32val; split <;> simp
theorem myAsn_ne_err (m : Bytes) : myAsn m ≠ .err := by
  unfold myAsn
  refine bind_ne_err _ _ (capabilities_ne_err m) fun cs => bind_ne_err _ _ (lazyFind_ne_err _ _) fun o => ?_
  cases o with
  | none => exact asn2_ne_err m
  | some c => exact be32val_ne_err _
theorem fourOctetCapable_ne_err (m : Bytes) : fourOctetCapable m ≠ .err := by
  unfold fourOctetCapable
  refine bind_ne_err _ _ (capabilities_ne_err m) fun cs => bind_ne_err _ _ (lazyFind_ne_err _ _) fun o => ?_
  cases o <;> simp
theorem softwareVersion_ne_err (m : Bytes) : softwareVersion m ≠ .err := by
  unfold softwareVersion
  refine bind_ne_err _ _ (capabilities_ne_err m) fun cs => bind_ne_err _ _ (lazyFind_ne_err _ _) fun o => ?_
  cases o <;> simp
theorem mpLoop_ne_err : ∀ (cs : List Cap) (p : Bool), mpLoop cs p ≠ .err
  | [], p => by unfold mpLoop; split <;> simp
  | c :: cs, p => by
    unfold mpLoop
    have ih := mpLoop_ne_err cs p
    split
    · split
      · split <;> simp_all
      · simp
    · exact ih
theorem multiprotocolIds_ne_err (m : Bytes) : multiprotocolIds m ≠ .err := by
  unfold multiprotocolIds
  have := capabilities_ne_err m
  split
  · exact mpLoop_ne_err _ _
  · simp_all
  · simp

/-- on a checked OPEN the configuration accessors return values -/
theorem openCfg_ok (m : Bytes) (h : Open.fromOctets m = .ok m) : ∃ c, openCfg m = .ok c := by
  have hnp := openCfg_ne_panic m h
  have hne : openCfg m ≠ .err := by
    unfold openCfg
    have h1 := myAsn_ne_err m
    have h2 := fourOctetCapable_ne_err m
    have h4 := multiprotocolIds_ne_err m
    have h5 := bind_ne_err (capabilities m) collect (capabilities_ne_err m) (fun l => collect_ne_err l)
    have h6 := bind_ne_err (parameters m) collect (parameters_ne_err m) (fun l => collect_ne_err l)
    have h7 := softwareVersion_ne_err m
    have h8 := holdtime_ne_err m
    have h9 : identifier m ≠ .err := slice_ne_err _ _ _
    have h10 : version m ≠ .err := idx_ne_err _ _
    cases e1 : myAsn m <;> try simp_all
    cases e2 : fourOctetCapable m <;> try simp_all
    cases e3 : addpathFamiliesVec m <;> try simp_all
    all_goals
      cases e4 : multiprotocolIds m <;> try simp_all
      cases e5 : capabilities m >>= collect <;> try simp_all
      cases e6 : parameters m >>= collect <;> try simp_all
      cases e7 : softwareVersion m <;> try simp_all
      cases e8 : holdtime m <;> try simp_all
      cases e9 : identifier m <;> try simp_all
      cases e10 : version m <;> simp_all
  cases e : openCfg m with
  | ok c => exact ⟨c, rfl⟩
  | err => exact absurd e hne
  | panic => exact absurd e hnp

end Rc.OpenNoErr
