/-
Lemmas for C01: what the decoder model does on the output of the reference
encoder (Rc/Model/UpdateEnc.lean), piece by piece.
-/
import Rc.Lemmas.Update
import Rc.Model.UpdateEnc

namespace Rc.Upd
open Rc Rc.Nlri Rc.Attr

/-! ### NLRI lists -/

theorem decAllFuel_length {α : Type} (c : Codec α) : ∀ (f : Nat) (bs : Bytes) (ns : List α) (e : Bool),
    decAllFuel c f bs = .ok (ns, e) → ns.length ≤ f := by
  intro f
  induction f with
  | zero =>
    intro bs ns e h
    cases bs <;> simp [decAllFuel] at h <;> simp [h.1]
  | succ f ih =>
    intro bs ns e h
    cases bs with
    | nil => simp [decAllFuel] at h; simp [h.1]
    | cons b t =>
      simp only [decAllFuel] at h
      split at h
      · rename_i n r hd
        split at h
        · rename_i ns' e' hr
          simp only [Outcome.ok.injEq, Prod.mk.injEq] at h
          obtain ⟨rfl, _⟩ := h
          have := ih _ _ _ hr
          simp; omega
        · cases h
        · cases h
      · simp only [Outcome.ok.injEq, Prod.mk.injEq] at h; simp [← h.1]
      · cases h

/-- the iterator yields what the validation loop walked over -/
theorem nlri_collect_of_decAll {α : Type} (c : Codec α) : ∀ (f : Nat) (bs : Bytes) (ns : List α),
    decAllFuel c f bs = .ok (ns, true) →
      ∀ f', ns.length ≤ f' → collect (nlriNext c) f' bs = (ns.map Outcome.ok, true) := by
  intro f
  induction f with
  | zero =>
    intro bs ns h f' _
    cases bs with
    | nil =>
      simp only [decAllFuel, Outcome.ok.injEq, Prod.mk.injEq] at h
      obtain ⟨rfl, _⟩ := h
      cases f' <;> simp [collect, nlriNext]
    | cons b t => simp [decAllFuel] at h
  | succ f ih =>
    intro bs ns h f' hf'
    cases bs with
    | nil =>
      simp only [decAllFuel, Outcome.ok.injEq, Prod.mk.injEq] at h
      obtain ⟨rfl, _⟩ := h
      cases f' <;> simp [collect, nlriNext]
    | cons b t =>
      simp only [decAllFuel] at h
      split at h
      · rename_i n r hd
        split at h
        · rename_i ns' e' hr
          simp only [Outcome.ok.injEq, Prod.mk.injEq] at h
          obtain ⟨rfl, rfl⟩ := h
          match f', hf' with
          | g + 1, hf' =>
            have hn : nlriNext c (b :: t) = some (.ok n, r) := by simp only [nlriNext, hd]
            have := ih r ns' hr g (by simp at hf'; omega)
            simp only [collect, hn, this, List.map_cons]
        · cases h
        · cases h
      · simp at h
      · cases h

theorem nlriItems_of_decAll {α : Type} (c : Codec α) (bs : Bytes) (ns : List α)
    (h : Nlri.decAll c bs = .ok (ns, true)) : nlriItems c bs = (ns.map Outcome.ok, true) := by
  have hl := decAllFuel_length c _ _ _ _ h
  exact nlri_collect_of_decAll c _ bs ns h _ (by omega)

/-- **NLRI lists are reported as encoded**, for every family with and without
path identifiers: the iterator over the encoded list yields exactly the list,
every item `Ok`, and ends; the validation loop accepts it. -/
theorem nlris_reported (f : Fam) (ap : Bool) (l : List (Nat × f.Val)) (hw : NlrisWf f ap l) :
    ∃ b, encNlris f ap l = .ok b ∧ famItems f ap b = (reportNlris f ap l, true) ∧
      (if ap then nlriValidate (codecAp f) b else nlriValidate (codec f) b) = .ok () := by
  cases ap with
  | true =>
    simp only [NlrisWf, ↓reduceIte] at hw
    obtain ⟨b, hb, hd⟩ := (codecAp_laws f).list_roundtrip l hw
    refine ⟨b, by simp [encNlris, hb], ?_, by simp [nlriValidate, hd]⟩
    simp only [famItems, ↓reduceIte, nlriItems_of_decAll _ _ _ hd, reportNlris, List.map_map]
    congr 1
  | false =>
    simp only [NlrisWf, Bool.false_eq_true, ↓reduceIte] at hw
    obtain ⟨b, hb, hd⟩ := (codec_laws f).list_roundtrip (l.map (·.2))
      (by intro n hn; simp only [List.mem_map] at hn; obtain ⟨x, hx, rfl⟩ := hn; exact hw x hx)
    refine ⟨b, by simp [encNlris, hb], ?_, by simp [nlriValidate, hd]⟩
    simp only [famItems, Bool.false_eq_true, ↓reduceIte, nlriItems_of_decAll _ _ _ hd, reportNlris, List.map_map]
    congr 1

/-! ### one attribute -/

theorem splitAttr_encRaw (a : RawAttr) (hw : a.wf = true) (rest : Bytes) :
    splitAttr (encRaw a ++ rest) = some (a.fl, a.tc, a.v, rest) := by
  unfold encRaw RawAttr.wf at *
  by_cases hx : extBit a.fl = true
  · simp only [hx, ↓reduceIte, decide_eq_true_eq] at hw ⊢
    simp only [List.cons_append, List.append_assoc, splitAttr, hx, ↓reduceIte, rd16_be16 _ hw, takeN_append]
  · simp only [hx, Bool.false_eq_true, ↓reduceIte, decide_eq_true_eq] at hw ⊢
    have ht : (UInt8.ofNat a.v.length).toNat = a.v.length := by simp [UInt8.toNat_ofNat']; omega
    simp only [List.cons_append, splitAttr, hx, Bool.false_eq_true, ↓reduceIte, rd8, ht, takeN_append]

theorem encRaw_length_ge (a : RawAttr) : 3 ≤ (encRaw a).length := by
  unfold encRaw; split <;> simp <;> omega

theorem paNext_encRaw (four : Bool) (a : RawAttr) (hw : a.wf = true) (rest : Bytes) :
    paNext four (encRaw a ++ rest) = some (.ok (classify four a.fl a.tc a.v), rest) := by
  unfold encRaw RawAttr.wf at *
  by_cases hx : extBit a.fl = true
  · simp only [hx, ↓reduceIte, decide_eq_true_eq] at hw ⊢
    simp only [List.cons_append, List.append_assoc, paNext, hx, ↓reduceIte, rd16_be16 _ hw, takeN_append]
  · simp only [hx, Bool.false_eq_true, ↓reduceIte, decide_eq_true_eq] at hw ⊢
    have ht : (UInt8.ofNat a.v.length).toNat = a.v.length := by simp [UInt8.toNat_ofNat']; omega
    simp only [List.cons_append, paNext, hx, Bool.false_eq_true, ↓reduceIte, ht, takeN_append]

theorem uncheckedNext_encRaw (a : RawAttr) (hw : a.wf = true) (rest : Bytes) :
    uncheckedNext (encRaw a ++ rest) = some (encRaw a, rest) := by
  unfold encRaw RawAttr.wf at *
  by_cases hx : extBit a.fl = true
  · simp only [hx, ↓reduceIte, decide_eq_true_eq] at hw ⊢
    have h16 : be16 a.v.length = [UInt8.ofNat (a.v.length / 256), UInt8.ofNat a.v.length] := rfl
    have e : (UInt8.ofNat (a.v.length / 256)).toNat * 256 + (UInt8.ofNat a.v.length).toNat = a.v.length := by
      simp [UInt8.toNat_ofNat']; omega
    simp only [h16, List.cons_append, List.nil_append, List.append_assoc, uncheckedNext, hx, ↓reduceIte, e,
      takeN_append]
  · simp only [hx, Bool.false_eq_true, ↓reduceIte, decide_eq_true_eq] at hw ⊢
    have ht : (UInt8.ofNat a.v.length).toNat = a.v.length := by simp [UInt8.toNat_ofNat']; omega
    simp only [List.cons_append, uncheckedNext, hx, Bool.false_eq_true, ↓reduceIte, ht, takeN_append]

theorem epa_encRaw (a : RawAttr) (hw : a.wf = true) :
    epaCode (encRaw a) = .ok a.tc ∧ epaLength (encRaw a) = .ok a.v.length ∧ epaValue (encRaw a) = .ok a.v := by
  obtain ⟨fl, tc, v, hs, hbs, _, hc, hl, hv⟩ := uncheckedNext_spec (by simpa using uncheckedNext_encRaw a hw [])
  have := splitAttr_encRaw a hw []
  simp only [List.append_nil] at this hs
  rw [this] at hs
  simp only [Option.some.injEq, Prod.mk.injEq] at hs
  obtain ⟨_, rfl, rfl, _⟩ := hs
  exact ⟨hc, hl, hv⟩

/-! ### the attribute section -/

theorem encRaws_cons (a : RawAttr) (l : List RawAttr) : encRaws (a :: l) = encRaw a ++ encRaws l := by
  simp [encRaws]

theorem encRaws_length_ge (l : List RawAttr) : l.length ≤ (encRaws l).length := by
  induction l with
  | nil => simp [encRaws]
  | cons a r ih =>
    rw [encRaws_cons, List.length_append]
    have := encRaw_length_ge a
    simp; omega

theorem encRaw_ne_nil (a : RawAttr) : encRaw a ≠ [] := by
  intro h; have := encRaw_length_ge a; rw [h] at this; simp at this

/-- the attribute iterator over an encoded sequence yields the sequence -/
theorem pa_collect_enc (four : Bool) : ∀ (l : List RawAttr), (∀ a ∈ l, a.wf = true) →
    ∀ f, l.length ≤ f →
      collect (paNext four) f (encRaws l) = (l.map (fun a => .ok (classify four a.fl a.tc a.v)), true) := by
  intro l
  induction l with
  | nil => intro _ f _; cases f <;> simp [collect, encRaws, paNext]
  | cons a r ih =>
    intro hw f hf
    match f, hf with
    | g + 1, hf =>
      have hn := paNext_encRaw four a (hw a (by simp)) (encRaws r)
      have := ih (fun x hx => hw x (by simp [hx])) g (by simp at hf; omega)
      simp only [collect, encRaws_cons, hn, this, List.map_cons]

theorem attrsWalk_enc : ∀ (l : List RawAttr), (∀ a ∈ l, a.wf = true) →
    ∀ f, l.length ≤ f → attrsWalk f (encRaws l) = .ok () := by
  intro l
  induction l with
  | nil => intro _ f _; cases f <;> simp [attrsWalk, encRaws]
  | cons a r ih =>
    intro hw f hf
    match f, hf with
    | g + 1, hf =>
      have hs := splitAttr_encRaw a (hw a (by simp)) (encRaws r)
      have hne : (encRaws (a :: r)).isEmpty = false := by
        rw [encRaws_cons]
        cases h : encRaw a ++ encRaws r with
        | nil => simp at h; exact absurd h.1 (encRaw_ne_nil a)
        | cons _ _ => rfl
      have := ih (fun x hx => hw x (by simp [hx])) g (by simp at hf; omega)
      unfold attrsWalk
      simp only [hne, Bool.false_eq_true, ↓reduceIte]
      rw [encRaws_cons]
      have hp : ∃ w, parseWire true (encRaw a ++ encRaws r) = .ok (w, encRaws r) := by
        simp only [parseWire, hs]
        split <;> exact ⟨_, rfl⟩
      obtain ⟨w, hwp⟩ := hp
      simp only [hwp]
      exact this

/-- AFI/SAFI of the last attribute of type `code` (each later one overwrites) -/
def lastMp (code : Nat) : List RawAttr → Option (Nat × Nat) → Option (Nat × Nat)
  | [], acc => acc
  | a :: r, acc => lastMp code r (if a.tc.toNat = code then (afiSafi a.v).map (·.1) else acc)

/-- the MP attributes of the sequence have their fixed octets -/
def MpOk (l : List RawAttr) : Prop :=
  ∀ a ∈ l, (a.tc.toNat = 14 → 5 ≤ a.v.length ∧ (afiSafi a.v).isSome = true) ∧
    (a.tc.toNat = 15 → (afiSafi a.v).isSome = true)

theorem mpScan_enc : ∀ (l : List RawAttr), (∀ a ∈ l, a.wf = true) → MpOk l →
    ∀ f r u, l.length ≤ f → mpScan f (encRaws l) r u = .ok (lastMp 14 l r, lastMp 15 l u) := by
  intro l
  induction l with
  | nil => intro _ _ f r u _; cases f <;> simp [mpScan, encRaws, uncheckedNext, lastMp]
  | cons a t ih =>
    intro hw hm f r u hf
    match f, hf with
    | g + 1, hf =>
      have hn := uncheckedNext_encRaw a (hw a (by simp)) (encRaws t)
      obtain ⟨hc, hl, hv⟩ := epa_encRaw a (hw a (by simp))
      have iht := ih (fun x hx => hw x (by simp [hx])) (fun x hx => hm x (by simp [hx])) g
      have hma := hm a (by simp)
      simp only [mpScan, encRaws_cons, hn, hc, hl, hv, lastMp]
      by_cases h14 : a.tc.toNat = 14
      · obtain ⟨h5, hsome⟩ := hma.1 h14
        have hn5 : ¬ (a.v.length < 5) := by omega
        have h15 : ¬ (a.tc.toNat = 15) := by omega
        cases hx : afiSafi a.v with
        | none => simp [hx] at hsome
        | some p =>
          simp only [h14, ↓reduceIte, hn5, h15, hx, Option.map_some]
          exact iht _ _ (by simp at hf; omega)
      · by_cases h15 : a.tc.toNat = 15
        · have hsome := hma.2 h15
          cases hx : afiSafi a.v with
          | none => simp [hx] at hsome
          | some p =>
            simp only [h14, ↓reduceIte, h15, hx, Option.map_some]
            exact iht _ _ (by simp at hf; omega)
        · simp only [h14, ↓reduceIte, h15]
          exact iht _ _ (by simp at hf; omega)

/-- the first attribute of type `code` -/
def firstWith (code : Nat) : List RawAttr → Option RawAttr
  | [] => none
  | a :: r => if a.tc.toNat = code then some a else firstWith code r

theorem findUnchecked_enc (code : Nat) : ∀ (l : List RawAttr), (∀ a ∈ l, a.wf = true) →
    ∀ f, l.length ≤ f → findUnchecked code f (encRaws l) = .ok ((firstWith code l).map encRaw) := by
  intro l
  induction l with
  | nil => intro _ f _; cases f <;> simp [findUnchecked, encRaws, uncheckedNext, firstWith]
  | cons a t ih =>
    intro hw f hf
    match f, hf with
    | g + 1, hf =>
      have hn := uncheckedNext_encRaw a (hw a (by simp)) (encRaws t)
      obtain ⟨hc, _, _⟩ := epa_encRaw a (hw a (by simp))
      simp only [findUnchecked, encRaws_cons, hn, hc, firstWith]
      split
      · simp
      · exact ih (fun x hx => hw x (by simp [hx])) g (by simp at hf; omega)

/-! ### MP attribute values -/

theorem famOf_famCode (f : Fam) : famOf (famCode f) = some f := by cases f <;> rfl

theorem famCode_small (f : Fam) : (famCode f).1 < 65536 ∧ (famCode f).2 < 256 := by cases f <;> decide

theorem afiSafi_reach (f : Fam) (nh nlri : Bytes) :
    afiSafi (reachValue f nh nlri) = some (famCode f, UInt8.ofNat nh.length :: (nh ++ (0 :: nlri))) := by
  obtain ⟨h1, h2⟩ := famCode_small f
  have : (UInt8.ofNat (famCode f).2).toNat = (famCode f).2 := by simp [UInt8.toNat_ofNat']; omega
  simp [afiSafi, reachValue, rd16_be16 _ h1, rd8, this]

theorem afiSafi_unreach (f : Fam) (nlri : Bytes) :
    afiSafi (unreachValue f nlri) = some (famCode f, nlri) := by
  obtain ⟨h1, h2⟩ := famCode_small f
  have : (UInt8.ofNat (famCode f).2).toNat = (famCode f).2 := by simp [UInt8.toNat_ofNat']; omega
  simp [afiSafi, unreachValue, rd16_be16 _ h1, rd8, this]

/-- any (AFI, SAFI) code points, any reserved octet -/
theorem afiSafi_mpReach (k : Nat × Nat) (h1 : k.1 < 65536) (h2 : k.2 < 256) (nh : Bytes) (rsv : UInt8)
    (body : Bytes) :
    afiSafi (mpReachValue k nh rsv body) = some (k, UInt8.ofNat nh.length :: (nh ++ (rsv :: body))) := by
  have : (UInt8.ofNat k.2).toNat = k.2 := by simp [UInt8.toNat_ofNat']; omega
  simp [afiSafi, mpReachValue, rd16_be16 _ h1, rd8, this]

theorem afiSafi_mpUnreach (k : Nat × Nat) (h1 : k.1 < 65536) (h2 : k.2 < 256) (body : Bytes) :
    afiSafi (mpUnreachValue k body) = some (k, body) := by
  have : (UInt8.ofNat k.2).toNat = k.2 := by simp [UInt8.toNat_ofNat']; omega
  simp [afiSafi, mpUnreachValue, rd16_be16 _ h1, rd8, this]

/-- `NextHop::skip` + `advance(1)`: the reserved octet is passed over whatever its value -/
theorem skipNextHop_mp (nh : Bytes) (rsv : UInt8) (body : Bytes) (hn : nh.length < 256) :
    skipNextHop (UInt8.ofNat nh.length :: (nh ++ (rsv :: body))) = some body := by
  have : (UInt8.ofNat nh.length).toNat = nh.length := by simp [UInt8.toNat_ofNat']; omega
  simp only [skipNextHop, this, takeN_append]

theorem skipNextHop_enc (nh nlri : Bytes) (hn : nh.length < 256) :
    skipNextHop (UInt8.ofNat nh.length :: (nh ++ (0 :: nlri))) = some nlri := by
  have : (UInt8.ofNat nh.length).toNat = nh.length := by simp [UInt8.toNat_ofNat']; omega
  simp only [skipNextHop, this, takeN_append]

end Rc.Upd
