/-
Lemmas for `Rc.Thm.C01.decode_encode`, part 3: the sections – conventional and
multiprotocol NLRI, ADD-PATH flags per section, next hops, End-of-RIB.
-/
import Rc.Lemmas.UpdateFields

namespace Rc.Upd
open Rc Rc.Nlri Rc.Attr Rc.AsPath

variable {cfg : Cfg} {c : TContent} {m : Msg}

/-! ### encoded NLRI lists -/

theorem encAll_nil_iff {α : Type} {cd : Codec α} (hl : cd.Laws) (ns : List α)
    (hw : ∀ n ∈ ns, cd.wf n = true) (b : Bytes) (he : Nlri.encAll cd ns = .ok b) : b = [] ↔ ns = [] := by
  cases ns with
  | nil => simp [Nlri.encAll] at he; simp [he]
  | cons n t =>
    obtain ⟨a, ha, hne⟩ := hl.enc_ok n (hw n (by simp))
    obtain ⟨b', hb', _⟩ := hl.list_roundtrip t (fun x hx => hw x (by simp [hx]))
    rw [encAll_cons_ok cd n t a b' ha hb'] at he
    simp only [Outcome.ok.injEq] at he
    subst he
    simp [hne]

theorem encNlris_nil_iff (f : Fam) (ap : Bool) (l : List (Nat × f.Val)) (hw : NlrisWf f ap l) (b : Bytes)
    (he : encNlris f ap l = .ok b) : b = [] ↔ l = [] := by
  cases ap with
  | true =>
    simp only [NlrisWf, ↓reduceIte] at hw
    simp only [encNlris, ↓reduceIte] at he
    exact encAll_nil_iff (codecAp_laws f) l hw b he
  | false =>
    simp only [NlrisWf, Bool.false_eq_true, ↓reduceIte] at hw
    simp only [encNlris, Bool.false_eq_true, ↓reduceIte] at he
    have := encAll_nil_iff (codec_laws f) (l.map (·.2))
      (by intro n hn; simp only [List.mem_map] at hn; obtain ⟨x, hx, rfl⟩ := hn; exact hw x hx) b he
    simpa using this

theorem lastMp_none (code : Nat) : ∀ (l : List RawAttr) (acc : Option (Nat × Nat)),
    (∀ x ∈ l, x.tc.toNat ≠ code) → lastMp code l acc = acc := by
  intro l
  induction l with
  | nil => intro acc _; rfl
  | cons a t ih =>
    intro acc h
    simp only [lastMp, h a (by simp), ↓reduceIte]
    exact ih acc (fun x hx => h x (by simp [hx]))

namespace Ctx

theorem wd_nil (h : Ctx cfg c m) : m.wd = [] ↔ c.wd = [] := encNlris_nil_iff _ _ _ h.wf.1 _ h.wd
theorem ann_nil (h : Ctx cfg c m) : m.ann = [] ↔ c.ann = [] := encNlris_nil_iff _ _ _ h.wf.2.1 _ h.ann

theorem attrs_nil (h : Ctx cfg c m) : m.attrs = [] ↔ c.attrs = [] := by
  rw [h.attrs, TContent.raws]
  cases hc : c.attrs with
  | nil => simp [encRaws]
  | cons a t =>
    simp only [List.map_cons, encRaws_cons, reduceCtorEq, iff_false]
    intro he
    have := encRaw_length_ge (AttrC.rawOf cfg a)
    have hl := congrArg List.length he
    simp only [List.length_append, List.length_nil] at hl
    omega

/-- the first attribute of type 14 is an MP_REACH_NLRI of the content: of one of
the 13 families or of an unsupported (AFI, SAFI) -/
theorem find_reach (h : Ctx cfg c m) {a : AttrC} (hf : c.find 14 = some a) :
    (∃ fl f nh rsv nlri, a = .reach fl f nh rsv nlri) ∨ (∃ fl k nh rsv body, a = .reachU fl k nh rsv body) := by
  obtain ⟨hm, hc⟩ := find_mem hf
  have hkind := h.kind a hm
  cases a with
  | typed fl t => cases t <;> simp [AttrC.code, TypedAttr.code] at hc
  | path fl as4 ss => cases as4 <;> simp [AttrC.code] at hc
  | raw fl tc v => exact absurd hc hkind.2.1
  | reach fl f nh rsv nlri => exact .inl ⟨fl, f, nh, rsv, nlri, rfl⟩
  | unreach fl f nlri => simp [AttrC.code] at hc
  | reachU fl k nh rsv body => exact .inr ⟨fl, k, nh, rsv, body, rfl⟩
  | unreachU fl k body => simp [AttrC.code] at hc

theorem find_unreach (h : Ctx cfg c m) {a : AttrC} (hf : c.find 15 = some a) :
    (∃ fl f nlri, a = .unreach fl f nlri) ∨ (∃ fl k body, a = .unreachU fl k body) := by
  obtain ⟨hm, hc⟩ := find_mem hf
  have hkind := h.kind a hm
  cases a with
  | typed fl t => cases t <;> simp [AttrC.code, TypedAttr.code] at hc
  | path fl as4 ss => cases as4 <;> simp [AttrC.code] at hc
  | raw fl tc v => exact absurd hc hkind.2.2
  | reach fl f nh rsv nlri => simp [AttrC.code] at hc
  | unreach fl f nlri => exact .inl ⟨fl, f, nlri, rfl⟩
  | reachU fl k nh rsv body => simp [AttrC.code] at hc
  | unreachU fl k body => exact .inr ⟨fl, k, body, rfl⟩

/-- the AFI/SAFI that decides a section's ADD-PATH flag (taken from the last
attribute of the type) is the one of the first attribute of that type -/
theorem mpKey (h : Ctx cfg c m) (code : Nat) (hcode : code = 14 ∨ code = 15) :
    lastMp code (c.raws cfg) none = (c.find code).bind fun a => (afiSafi (a.valueD cfg)).map (·.1) := by
  cases hf : c.find code with
  | none =>
    simp only [Option.bind_none]
    apply lastMp_none
    intro x hx
    simp only [TContent.raws, List.mem_map] at hx
    obtain ⟨a, ha, rfl⟩ := hx
    have hne : ¬ (a.code == code) = true := by
      have := List.find?_eq_none.mp hf a ha
      simpa using this
    simp only [AttrC.rawOf, a.code_toNat]
    simpa using hne
  | some a =>
    obtain ⟨hm, hc⟩ := find_mem hf
    have hfirst : firstWith code (c.raws cfg) = some (AttrC.rawOf cfg a) := by rw [h.first, hf]; rfl
    have huniq : ∀ x ∈ c.raws cfg, x.tc.toNat = code → x = AttrC.rawOf cfg a := by
      intro x hx hxc
      simp only [TContent.raws, List.mem_map] at hx
      obtain ⟨b, hb, rfl⟩ := hx
      have hbc : b.code = code := by simpa [AttrC.rawOf, b.code_toNat] using hxc
      have : b = a := h.wf.2.2.2 b hb a hm (by rw [hbc, hc]) (by rw [hbc]; exact hcode)
      rw [this]
    rw [Raw.mp_flag_of_unique code (c.raws cfg) (AttrC.rawOf cfg a) huniq hfirst]
    rfl

/-- value octets and NLRI items of an MP_REACH_NLRI of the content -/
theorem reach_value (_h : Ctx cfg c m) {fl : UInt8} {f : Fam} {nh : Bytes} {rsv : UInt8} {nlri : List (Nat × f.Val)}
    (hk : (AttrC.reach fl f nh rsv nlri).kindOk cfg) :
    ∃ b, encNlris f (cfg.rx (famCode f)) nlri = .ok b ∧
      (AttrC.reach fl f nh rsv nlri).valueD cfg = mpReachValue (famCode f) nh rsv b ∧
      famItems f (cfg.rx (famCode f)) b = (reportNlris f (cfg.rx (famCode f)) nlri, true) := by
  obtain ⟨b, hb, hi, _⟩ := nlris_reported f (cfg.rx (famCode f)) nlri hk.1
  exact ⟨b, hb, by simp [AttrC.valueD, AttrC.value, hb], hi⟩

theorem unreach_value (_h : Ctx cfg c m) {fl : UInt8} {f : Fam} {nlri : List (Nat × f.Val)}
    (hk : (AttrC.unreach fl f nlri).kindOk cfg) :
    ∃ b, encNlris f (cfg.rx (famCode f)) nlri = .ok b ∧
      (AttrC.unreach fl f nlri).valueD cfg = unreachValue f b ∧
      famItems f (cfg.rx (famCode f)) b = (reportNlris f (cfg.rx (famCode f)) nlri, true) := by
  obtain ⟨b, hb, hi, _⟩ := nlris_reported f (cfg.rx (famCode f)) nlri hk
  exact ⟨b, hb, by simp [AttrC.valueD, AttrC.value, hb], hi⟩

/-- the AFI/SAFI split of the value of an MP_REACH_NLRI of one of the 13 families,
whatever its reserved octet -/
theorem afiSafi_reachR (f : Fam) (nh : Bytes) (rsv : UInt8) (b : Bytes) :
    afiSafi (mpReachValue (famCode f) nh rsv b) = some (famCode f, UInt8.ofNat nh.length :: (nh ++ (rsv :: b))) :=
  afiSafi_mpReach (famCode f) (famCode_small f).1 (famCode_small f).2 nh rsv b

theorem reachU_value (fl : UInt8) (k : Nat × Nat) (nh : Bytes) (rsv : UInt8) (body : Bytes) :
    (AttrC.reachU fl k nh rsv body).valueD cfg = mpReachValue k nh rsv body := by
  simp [AttrC.valueD, AttrC.value]

theorem unreachU_value (fl : UInt8) (k : Nat × Nat) (body : Bytes) :
    (AttrC.unreachU fl k body).valueD cfg = mpUnreachValue k body := by
  simp [AttrC.valueD, AttrC.value]

theorem nlriTy_unsupported {k : Nat × Nat} (hk : famOf k = none) (ap : Bool) :
    nlriTy k ap = .unsupported k.1 k.2 := by
  simp [nlriTy, hk]

/-- what the accessors find as the first attribute of type `code` -/
theorem mpAttr_none (h : Ctx cfg c m) (code : Nat) (hf : c.find code = none) : m.mpAttr code = .ok none := by
  simp only [Msg.mpAttr, h.attrs, findUnchecked_enc code (c.raws cfg) h.rawsWf _ (encRaws_length_ge _), h.first, hf,
    Option.map_none]

theorem mpAttr_some (h : Ctx cfg c m) (code : Nat) (a : AttrC) (hf : c.find code = some a)
    (x : (Nat × Nat) × Bytes) (hx : afiSafi (a.valueD cfg) = some x) : m.mpAttr code = .ok (some x) :=
  Raw.mpAttr_enc m (c.raws cfg) h.attrs h.rawsWf code (AttrC.rawOf cfg a) (by rw [h.first, hf]; rfl) x hx

/-- the ADD-PATH flags the accessors use for the two MP sections: the session's
setting for the attribute's (AFI, SAFI) – also for an unsupported one (a session
may have been configured with ADD-PATH for it; no accessor reads items by it) -/
theorem mpReach_flag (h : Ctx cfg c m) :
    m.ppi.mpReach = match c.find 14 with
      | some (.reach _ f _ _ _) => cfg.rx (famCode f)
      | some (.reachU _ k _ _ _) => cfg.rx k
      | _ => false := by
  rw [h.ppi]
  simp only [Ppi.ofCfg, h.mpKey 14 (.inl rfl)]
  cases hf : c.find 14 with
  | none => rfl
  | some a =>
    rcases h.find_reach hf with ⟨fl, f, nh, rsv, nlri, rfl⟩ | ⟨fl, k, nh, rsv, body, rfl⟩
    · obtain ⟨b, _, hv, _⟩ := h.reach_value (h.kind _ (find_mem hf).1)
      simp [hv, afiSafi_reachR]
    · have hk := h.kind _ (find_mem hf).1
      simp [reachU_value, afiSafi_mpReach k hk.2.1 hk.2.2.1]

theorem mpUnreach_flag (h : Ctx cfg c m) :
    m.ppi.mpUnreach = match c.find 15 with
      | some (.unreach _ f _) => cfg.rx (famCode f)
      | some (.unreachU _ k _) => cfg.rx k
      | _ => false := by
  rw [h.ppi]
  simp only [Ppi.ofCfg, h.mpKey 15 (.inr rfl)]
  cases hf : c.find 15 with
  | none => rfl
  | some a =>
    rcases h.find_unreach hf with ⟨fl, f, nlri, rfl⟩ | ⟨fl, k, body, rfl⟩
    · obtain ⟨b, _, hv, _⟩ := h.unreach_value (h.kind _ (find_mem hf).1)
      simp [hv, afiSafi_unreach]
    · have hk := h.kind _ (find_mem hf).1
      simp [unreachU_value, afiSafi_mpUnreach k hk.2.1 hk.2.2]

/-! ### `mp_withdrawals()` / `mp_announcements()` -/

theorem itemsOfOpt_eq (x : Option (NlriTy × Bytes)) :
    itemsOfOpt x = ((x.map fun p => (p.1, enumItems p.1 p.2)).map (·.2)).getD ([], true) := by
  cases x <;> rfl

/-- what `mp_attr(14)` finds for an MP_REACH_NLRI of an unsupported (AFI, SAFI) -/
theorem mpAttr_reachU (h : Ctx cfg c m) {fl : UInt8} {k : Nat × Nat} {nh : Bytes} {rsv : UInt8} {body : Bytes}
    (hf : c.find 14 = some (.reachU fl k nh rsv body)) :
    m.mpAttr 14 = .ok (some (k, UInt8.ofNat nh.length :: (nh ++ (rsv :: body)))) := by
  have hk := h.kind _ (find_mem hf).1
  exact h.mpAttr_some 14 _ hf _ (by rw [reachU_value]; exact afiSafi_mpReach k hk.2.1 hk.2.2.1 nh rsv body)

theorem mpAttr_unreachU (h : Ctx cfg c m) {fl : UInt8} {k : Nat × Nat} {body : Bytes}
    (hf : c.find 15 = some (.unreachU fl k body)) : m.mpAttr 15 = .ok (some (k, body)) := by
  have hk := h.kind _ (find_mem hf).1
  exact h.mpAttr_some 15 _ hf _ (by rw [unreachU_value]; exact afiSafi_mpUnreach k hk.2.1 hk.2.2 body)

theorem mpAnn_spec (h : Ctx cfg c m) : ∃ x, m.mpAnn = .ok x ∧
    (x.map fun p => (p.1, enumItems p.1 p.2)) = (c.reachOf cfg).map fun p => (p.1, okItems p.2) := by
  cases hf : c.find 14 with
  | none =>
    exact ⟨none, by simp [Msg.mpAnn, h.mpAttr_none 14 hf], by simp [TContent.reachOf, hf]⟩
  | some a =>
    rcases h.find_reach hf with ⟨fl, f, nh, rsv, nlri, rfl⟩ | ⟨fl, k, nh, rsv, body, rfl⟩
    · have hk := h.kind _ (find_mem hf).1
      obtain ⟨b, _, hv, hi⟩ := h.reach_value hk
      have hflag : m.ppi.mpReach = cfg.rx (famCode f) := by rw [h.mpReach_flag, hf]
      have hattr := h.mpAttr_some 14 _ hf _ (by rw [hv]; exact afiSafi_reachR f nh rsv b)
      refine ⟨some (.known f (cfg.rx (famCode f)), b), ?_, ?_⟩
      · simp only [Msg.mpAnn, hattr, skipNextHop_mp nh rsv b hk.2.1, Raw.nlriTy_famCode, hflag]
      · simp [TContent.reachOf, hf, enumItems, hi, reportNlris_eq, okItems]
    · have hk := h.kind _ (find_mem hf).1
      refine ⟨some (.unsupported k.1 k.2, body), ?_, ?_⟩
      · simp only [Msg.mpAnn, h.mpAttr_reachU hf, skipNextHop_mp nh rsv body hk.2.2.2, nlriTy_unsupported hk.1]
      · simp [TContent.reachOf, hf, enumItems, okItems]

theorem mpWd_spec (h : Ctx cfg c m) : ∃ x, m.mpWd = .ok x ∧
    (x.map fun p => (p.1, enumItems p.1 p.2)) = (c.unreachOf cfg).map fun p => (p.1, okItems p.2) := by
  cases hf : c.find 15 with
  | none =>
    exact ⟨none, by simp [Msg.mpWd, h.mpAttr_none 15 hf], by simp [TContent.unreachOf, hf]⟩
  | some a =>
    rcases h.find_unreach hf with ⟨fl, f, nlri, rfl⟩ | ⟨fl, k, body, rfl⟩
    · have hk := h.kind _ (find_mem hf).1
      obtain ⟨b, _, hv, hi⟩ := h.unreach_value hk
      have hflag : m.ppi.mpUnreach = cfg.rx (famCode f) := by rw [h.mpUnreach_flag, hf]
      have hattr := h.mpAttr_some 15 _ hf _ (by rw [hv]; exact afiSafi_unreach f b)
      refine ⟨some (.known f (cfg.rx (famCode f)), b), ?_, ?_⟩
      · simp only [Msg.mpWd, hattr, Raw.nlriTy_famCode, hflag]
      · simp [TContent.unreachOf, hf, enumItems, hi, reportNlris_eq, okItems]
    · have hk := h.kind _ (find_mem hf).1
      refine ⟨some (.unsupported k.1 k.2, body), ?_, ?_⟩
      · simp only [Msg.mpWd, h.mpAttr_unreachU hf, nlriTy_unsupported hk.1]
      · simp [TContent.unreachOf, hf, enumItems, okItems]

/-- the octets `mp_withdrawals()` runs over are empty exactly when the content's
first MP_UNREACH_NLRI holds nothing after AFI/SAFI – for every family -/
theorem mpWd_empty (h : Ctx cfg c m) (ty : NlriTy) (b : Bytes) (hm : m.mpWd = .ok (some (ty, b))) :
    b.isEmpty = c.unreachEmpty := by
  cases hf : c.find 15 with
  | none => simp [Msg.mpWd, h.mpAttr_none 15 hf] at hm
  | some a =>
    rcases h.find_unreach hf with ⟨fl, f, nlri, rfl⟩ | ⟨fl, k, body, rfl⟩
    · have hk := h.kind _ (find_mem hf).1
      obtain ⟨b', hb', hv, _⟩ := h.unreach_value hk
      have hattr := h.mpAttr_some 15 _ hf _ (by rw [hv]; exact afiSafi_unreach f b')
      simp only [Msg.mpWd, hattr, Outcome.ok.injEq, Option.some.injEq, Prod.mk.injEq] at hm
      obtain ⟨_, rfl⟩ := hm
      have := encNlris_nil_iff f _ nlri hk b' hb'
      simp only [TContent.unreachEmpty, hf]
      rw [Bool.eq_iff_iff, List.isEmpty_iff, List.isEmpty_iff]
      exact this
    · simp only [Msg.mpWd, h.mpAttr_unreachU hf, Outcome.ok.injEq, Option.some.injEq, Prod.mk.injEq] at hm
      obtain ⟨_, rfl⟩ := hm
      simp [TContent.unreachEmpty, hf]

theorem mpAnn (h : Ctx cfg c m) : withItems m.mpAnn = (expected cfg c).mpAnn := by
  obtain ⟨x, hx, hi⟩ := h.mpAnn_spec
  simp only [expected, withItems, hx, mapO, hi]

theorem mpWd (h : Ctx cfg c m) : withItems m.mpWd = (expected cfg c).mpWd := by
  obtain ⟨x, hx, hi⟩ := h.mpWd_spec
  simp only [expected, withItems, hx, mapO, hi]

theorem convWd' (h : Ctx cfg c m) : m.convWd = (expected cfg c).convWd := by
  simp only [expected, h.convWd, reportNlris_eq, okItems]

theorem convAnn' (h : Ctx cfg c m) : m.convAnn = (expected cfg c).convAnn := by
  simp only [expected, h.convAnn, reportNlris_eq, okItems]

theorem opt_items (o : Option (NlriTy × List AnyNlri)) :
    ((o.map fun p => (p.1, okItems p.2)).map (·.2)).getD ([], true) = okItems ((o.map (·.2)).getD []) := by
  cases o <;> rfl

theorem announcements (h : Ctx cfg c m) : m.announcements = (expected cfg c).announcements := by
  obtain ⟨x, hx, hi⟩ := h.mpAnn_spec
  have hit : itemsOfOpt x = okItems (((c.reachOf cfg).map (·.2)).getD []) := by rw [itemsOfOpt_eq, hi, opt_items]
  simp only [expected, Msg.announcements, hx, hit, h.convAnn, reportNlris_eq, okItems, List.map_append, Bool.and_self]

theorem withdrawals (h : Ctx cfg c m) : m.withdrawals = (expected cfg c).withdrawals := by
  obtain ⟨x, hx, hi⟩ := h.mpWd_spec
  have hit : itemsOfOpt x = okItems (((c.unreachOf cfg).map (·.2)).getD []) := by rw [itemsOfOpt_eq, hi, opt_items]
  simp only [expected, Msg.withdrawals, hx, hit, h.convWd, reportNlris_eq, okItems, List.map_append, Bool.and_self]

theorem annVec (h : Ctx cfg c m) : m.annVec = (expected cfg c).annVec := by
  obtain ⟨x, hx, hi⟩ := h.mpAnn_spec
  have hit : itemsOfOpt x = okItems (((c.reachOf cfg).map (·.2)).getD []) := by rw [itemsOfOpt_eq, hi, opt_items]
  simp only [expected, Msg.annVec, hx, hit, h.convAnn, reportNlris_eq, okItems, ← List.map_append, collectResult_map_ok]

theorem wdVec (h : Ctx cfg c m) : m.wdVec = (expected cfg c).wdVec := by
  obtain ⟨x, hx, hi⟩ := h.mpWd_spec
  have hit : itemsOfOpt x = okItems (((c.unreachOf cfg).map (·.2)).getD []) := by rw [itemsOfOpt_eq, hi, opt_items]
  simp only [expected, Msg.wdVec, hx, hit, h.convWd, reportNlris_eq, okItems, ← List.map_append, collectResult_map_ok]

theorem afiSafis (h : Ctx cfg c m) : m.afiSafis = (expected cfg c).afiSafis := by
  obtain ⟨x, hx, hi⟩ := h.mpAnn_spec
  obtain ⟨y, hy, hj⟩ := h.mpWd_spec
  have e1 : x.map (·.1) = (c.reachOf cfg).map (·.1) := by
    have := congrArg (Option.map (·.1)) hi
    simpa [Option.map_map, Function.comp_def] using this
  have e2 : y.map (·.1) = (c.unreachOf cfg).map (·.1) := by
    have := congrArg (Option.map (·.1)) hj
    simpa [Option.map_map, Function.comp_def] using this
  simp only [expected, Msg.afiSafis, hx, hy, okFlatten, e1, e2, h.conv, ne_eq, h.wd_nil, h.ann_nil]

/-! ### `typed_withdrawals` / `typed_announcements` -/

theorem typedAnn (h : Ctx cfg c m) (g : Fam) :
    m.typedAnn g (m.typeAp true g) = (expected cfg c).typedAnn g := by
  have hnil : anyNlris .v4u (cfg.rx (1, 1)) c.ann ≠ [] ↔ m.ann ≠ [] := by
    rw [ne_eq, ne_eq, anyNlris_nil_iff, h.ann_nil]
  simp only [expected, typedSpec, Msg.typedAnn, Msg.typeAp, ↓reduceIte]
  by_cases hc : g = .v4u ∧ m.ann ≠ []
  · have hc' : g = .v4u ∧ anyNlris .v4u (cfg.rx (1, 1)) c.ann ≠ [] := ⟨hc.1, hnil.mpr hc.2⟩
    rw [if_pos hc, if_pos hc, if_pos hc']
    obtain ⟨rfl, _⟩ := hc
    have := h.convAnn
    simp only [Msg.convAnn] at this
    simp only [this, reportNlris_eq, okItems]
  · have hc' : ¬ (g = .v4u ∧ anyNlris .v4u (cfg.rx (1, 1)) c.ann ≠ []) := fun x => hc ⟨x.1, hnil.mp x.2⟩
    rw [if_neg hc, if_neg hc, if_neg hc']
    cases hf : c.find 14 with
    | none => simp [h.mpAttr_none 14 hf, TContent.reachOf, hf]
    | some a =>
      rcases h.find_reach hf with ⟨fl, f, nh, rsv, nlri, rfl⟩ | ⟨fl, k, nh, rsv, body, rfl⟩
      · have hk := h.kind _ (find_mem hf).1
        obtain ⟨b, _, hv, hi⟩ := h.reach_value hk
        have hflag : m.ppi.mpReach = cfg.rx (famCode f) := by rw [h.mpReach_flag, hf]
        have hattr := h.mpAttr_some 14 _ hf _ (by rw [hv]; exact afiSafi_reachR f nh rsv b)
        simp only [hattr, famOf_famCode, Option.some.injEq, TContent.reachOf, hf]
        by_cases hfg : f = g
        · subst hfg
          simp only [↓reduceIte, skipNextHop_mp nh rsv b hk.2.1, hflag, hi, reportNlris_eq, okItems]
        · simp only [hfg, ↓reduceIte]
      · -- an unsupported (AFI, SAFI) is no family's: `typed_announcements::<T>` is `Ok(None)` for every `T`
        have hk := h.kind _ (find_mem hf).1
        simp [h.mpAttr_reachU hf, hk.1, TContent.reachOf, hf]

theorem typedWd (h : Ctx cfg c m) (g : Fam) :
    m.typedWd g (m.typeAp false g) = (expected cfg c).typedWd g := by
  have hnil : anyNlris .v4u (cfg.rx (1, 1)) c.wd ≠ [] ↔ m.wd ≠ [] := by
    rw [ne_eq, ne_eq, anyNlris_nil_iff, h.wd_nil]
  simp only [expected, typedSpec, Msg.typedWd, Msg.typeAp, Bool.false_eq_true, ↓reduceIte]
  by_cases hc : g = .v4u ∧ m.wd ≠ []
  · have hc' : g = .v4u ∧ anyNlris .v4u (cfg.rx (1, 1)) c.wd ≠ [] := ⟨hc.1, hnil.mpr hc.2⟩
    rw [if_pos hc, if_pos hc, if_pos hc']
    obtain ⟨rfl, _⟩ := hc
    have := h.convWd
    simp only [Msg.convWd] at this
    simp only [this, reportNlris_eq, okItems]
  · have hc' : ¬ (g = .v4u ∧ anyNlris .v4u (cfg.rx (1, 1)) c.wd ≠ []) := fun x => hc ⟨x.1, hnil.mp x.2⟩
    rw [if_neg hc, if_neg hc, if_neg hc']
    cases hf : c.find 15 with
    | none => simp [h.mpAttr_none 15 hf, TContent.unreachOf, hf]
    | some a =>
      rcases h.find_unreach hf with ⟨fl, f, nlri, rfl⟩ | ⟨fl, k, body, rfl⟩
      · have hk := h.kind _ (find_mem hf).1
        obtain ⟨b, _, hv, hi⟩ := h.unreach_value hk
        have hflag : m.ppi.mpUnreach = cfg.rx (famCode f) := by rw [h.mpUnreach_flag, hf]
        have hattr := h.mpAttr_some 15 _ hf _ (by rw [hv]; exact afiSafi_unreach f b)
        simp only [hattr, famOf_famCode, Option.some.injEq, TContent.unreachOf, hf]
        by_cases hfg : f = g
        · subst hfg
          simp only [↓reduceIte, hflag, hi, reportNlris_eq, okItems]
        · simp only [hfg, ↓reduceIte]
      · have hk := h.kind _ (find_mem hf).1
        simp [h.mpAttr_unreachU hf, hk.1, TContent.unreachOf, hf]

/-! ### next hops -/

theorem nextHopTuple (h : Ctx cfg c m) :
    m.mpNextHopTuple = match c.reachNh with
      | some (k, .ok nh) => .ok (some (k, nh))
      | some (_, _) => .err
      | none => .ok none := by
  cases hf : c.find 14 with
  | none => simp [Msg.mpNextHopTuple, h.mpAttr_none 14 hf, TContent.reachNh, hf]
  | some a =>
    rcases h.find_reach hf with ⟨fl, f, nh, rsv, nlri, rfl⟩ | ⟨fl, k, nh, rsv, body, rfl⟩
    · have hk := h.kind _ (find_mem hf).1
      obtain ⟨b, _, hv, _⟩ := h.reach_value hk
      have hattr := h.mpAttr_some 14 _ hf _ (by rw [hv]; exact afiSafi_reachR f nh rsv b)
      obtain ⟨x, hx⟩ := Option.isSome_iff_exists.mp hk.2.2
      have hp := Raw.next_hop_reported f nh (rsv :: b) x hk.2.1 hx
      simp [Msg.mpNextHopTuple, hattr, famOf_famCode, hp, TContent.reachNh, hf, nhOf, hx]
    · -- `NextHop::parse` has no arm for `AfiSafiType::Unsupported`
      have hk := h.kind _ (find_mem hf).1
      simp [Msg.mpNextHopTuple, h.mpAttr_reachU hf, hk.1, nhParse, TContent.reachNh, hf]

theorem mpNextHop (h : Ctx cfg c m) : m.mpNextHop = (expected cfg c).mpNextHop := by
  simp only [expected, Msg.mpNextHop, h.nextHopTuple]
  cases c.reachNh with
  | none => rfl
  | some p =>
    obtain ⟨f, r⟩ := p
    cases r <;> rfl

theorem findNextHop (h : Ctx cfg c m) : m.findNextHop = (expected cfg c).findNextHop := by
  funext k
  have hc := h.convNextHop
  simp only [expected] at hc
  simp only [expected, Msg.findNextHop, findNextHopSpec, h.nextHopTuple, hc]
  cases c.reachNh with
  | none =>
    by_cases hk : k = (1, 1)
    · simp only [hk, ↓reduceIte]
      cases c.typedOf 3 with
      | none => rfl
      | some t => cases t <;> rfl
    · simp only [hk, ↓reduceIte]
  | some p =>
    obtain ⟨f, r⟩ := p
    cases r with
    | ok nh =>
      by_cases hk : k = (1, 1)
      · simp only [hk, ↓reduceIte]
        by_cases hf : f = (1, 1)
        · simp only [hf, ↓reduceIte]
        · simp only [hf, ↓reduceIte]
          cases c.typedOf 3 with
          | none => rfl
          | some t => cases t <;> rfl
      · simp only [hk, ↓reduceIte, ne_eq]
        by_cases hf : f = k
        · simp [hf]
        · simp [hf]
    | err =>
      by_cases hk : k = (1, 1)
      · simp only [hk, ↓reduceIte]
        cases c.typedOf 3 with
        | none => rfl
        | some t => cases t <;> rfl
      · simp only [hk, ↓reduceIte]
    | panic =>
      by_cases hk : k = (1, 1)
      · simp only [hk, ↓reduceIte]
        cases c.typedOf 3 with
        | none => rfl
        | some t => cases t <;> rfl
      · simp only [hk, ↓reduceIte]

/-! ### lengths -/

theorem lengths (h : Ctx cfg c m) : m.length = (expected cfg c).length ∧ m.wdLen = (expected cfg c).wdLen ∧
    m.attrLen = (expected cfg c).attrLen := by
  simp only [expected, Msg.length, Msg.wdLen, Msg.attrLen, h.wd, h.ann, h.attrs, TContent.raws]
  exact ⟨trivial, trivial, trivial⟩

/-! ### End-of-RIB -/

theorem hasMpNlri (h : Ctx cfg c m) : m.hasMpNlri = .ok (c.find 14).isSome := by
  simp only [Msg.hasMpNlri, h.attrs, findUnchecked_enc 14 (c.raws cfg) h.rawsWf _ (encRaws_length_ge _), h.first]
  cases c.find 14 <;> rfl

theorem length23 (h : Ctx cfg c m) : m.length = 23 ↔ (c.wd = [] ∧ c.attrs = [] ∧ c.ann = []) := by
  rw [← h.wd_nil, ← h.attrs_nil, ← h.ann_nil]
  simp only [Msg.length]
  constructor
  · intro he
    refine ⟨List.eq_nil_of_length_eq_zero (by omega), List.eq_nil_of_length_eq_zero (by omega),
      List.eq_nil_of_length_eq_zero (by omega)⟩
  · rintro ⟨h1, h2, h3⟩
    simp [h1, h2, h3]

theorem isEor (h : Ctx cfg c m) : m.isEor = (expected cfg c).isEor := by
  obtain ⟨y, hy, hj⟩ := h.mpWd_spec
  simp only [expected, Msg.isEor]
  by_cases h23 : m.length = 23
  · rw [if_pos h23, if_pos (h.length23.mp h23)]
  · rw [if_neg h23, if_neg (fun x => h23 (h.length23.mpr x)), hy]
    cases ho : c.unreachOf cfg with
    | none =>
      rw [ho] at hj
      cases y with
      | none => rfl
      | some p => simp at hj
    | some q =>
      obtain ⟨ty', l⟩ := q
      rw [ho] at hj
      cases y with
      | none => simp at hj
      | some p =>
        obtain ⟨ty, b⟩ := p
        simp only [Option.map_some, Option.some.injEq, Prod.mk.injEq] at hj
        obtain ⟨hty, _⟩ := hj
        -- "no withdrawn routes" is read off the octets, for the 13 families and for any other
        have hb := h.mpWd_empty ty b hy
        subst hty
        simp only [hb, h.hasMpNlri]
        have e1 : m.wd.isEmpty = true ↔ c.wd = [] := by rw [List.isEmpty_iff]; exact h.wd_nil
        have e2 : m.ann.isEmpty = true ↔ c.ann = [] := by rw [List.isEmpty_iff]; exact h.ann_nil
        cases hu : c.unreachEmpty <;> by_cases hw : c.wd = [] <;> by_cases ha : c.ann = [] <;>
          cases h14 : c.find 14 <;> simp [hw, ha, e1.mpr, e2.mpr, h14] <;>
          simp_all

end Ctx

end Rc.Upd
