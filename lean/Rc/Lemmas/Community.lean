import Rc.Model.Community
open Rc Rc.Community
namespace Rc.Lemmas.Community

/-! chars -/
def isDec (c : Char) : Prop := 48 ≤ c.toNat ∧ c.toNat ≤ 57

theorem decVal_digitChar : ∀ d, d < 10 → decVal (digitChar d) = some d := by decide
theorem isDec_digitChar : ∀ d, d < 10 → isDec (digitChar d) := by unfold isDec; decide
theorem hexVal_U : ∀ d, d < 16 → hexValC (hexDigitU d) = some d := by decide
theorem hexVal_L : ∀ d, d < 16 → hexValC (hexDigitL d) = some d := by decide

theorem isDec_ne {c : Char} (h : isDec c) {d : Char} (hd : d.toNat < 48 ∨ 57 < d.toNat) : c ≠ d := by
  intro e; subst e; unfold isDec at h; omega

/-! parseDigits -/
theorem parseDigits_append (val : Char → Option Nat) (radix : Nat) (s t : Text) (acc : Nat) :
    parseDigits val radix (s ++ t) acc =
      (parseDigits val radix s acc).bind (fun a => parseDigits val radix t a) := by
  induction s generalizing acc with
  | nil => simp [parseDigits]
  | cons c s ih =>
    simp only [List.cons_append, parseDigits]
    cases val c with
    | none => simp
    | some d => simp [ih]

theorem parseDigits_bad (val : Char → Option Nat) (radix : Nat) (s : Text) (acc : Nat)
    (c : Char) (hc : c ∈ s) (hv : val c = none) : parseDigits val radix s acc = none := by
  induction s generalizing acc with
  | nil => simp at hc
  | cons x s ih =>
    simp only [parseDigits]
    cases hx : val x with
    | none => rfl
    | some d =>
      simp only [List.mem_cons] at hc
      rcases hc with rfl | hc
      · rw [hv] at hx; cases hx
      · exact ih _ hc

/-! showDec -/
theorem showDecAux_parse (fuel n : Nat) (acc : Text) (h : n < fuel) :
    parseDigits decVal 10 (showDecAux fuel n acc) 0 = parseDigits decVal 10 acc n := by
  induction fuel generalizing n acc with
  | zero => omega
  | succ fuel ih =>
    unfold showDecAux
    simp only
    split
    · rename_i hlt
      simp [parseDigits, decVal_digitChar (n % 10) (by omega)]
      congr 1; omega
    · rename_i hge
      rw [ih (n / 10) _ (by omega)]
      simp [parseDigits, decVal_digitChar (n % 10) (by omega)]
      congr 1; omega

theorem showDecAux_chars (fuel n : Nat) (acc : Text) :
    ∀ c ∈ showDecAux fuel n acc, isDec c ∨ c ∈ acc := by
  induction fuel generalizing n acc with
  | zero => intro c hc; right; simpa [showDecAux] using hc
  | succ fuel ih =>
    intro c hc
    unfold showDecAux at hc
    simp only at hc
    split at hc
    · simp only [List.mem_cons] at hc
      rcases hc with rfl | hc
      · left; exact isDec_digitChar _ (by omega)
      · right; exact hc
    · rcases ih _ _ c hc with h | h
      · left; exact h
      · simp only [List.mem_cons] at h
        rcases h with rfl | h
        · left; exact isDec_digitChar _ (by omega)
        · right; exact h

theorem showDec_chars (n : Nat) : ∀ c ∈ showDec n, isDec c := by
  intro c hc
  rcases showDecAux_chars _ _ _ c hc with h | h
  · exact h
  · simp at h

theorem showDecAux_ne_nil (fuel n : Nat) (acc : Text) (h : 0 < fuel) : showDecAux fuel n acc ≠ [] := by
  induction fuel generalizing n acc with
  | zero => omega
  | succ fuel ih =>
    unfold showDecAux
    simp only
    split
    · simp
    · rename_i hge
      cases fuel with
      | zero => simp [showDecAux]
      | succ f => exact ih _ _ (by omega)

theorem showDec_ne_nil (n : Nat) : showDec n ≠ [] := showDecAux_ne_nil _ _ _ (by omega)

theorem showDec_cons (n : Nat) : ∃ c r, showDec n = c :: r ∧ isDec c := by
  cases h : showDec n with
  | nil => exact absurd h (showDec_ne_nil n)
  | cons c r => exact ⟨c, r, rfl, showDec_chars n c (by simp [h])⟩

theorem parseDigits_showDec (n : Nat) : parseDigits decVal 10 (showDec n) 0 = some n := by
  unfold showDec
  rw [showDecAux_parse _ _ _ (by omega)]
  simp [parseDigits]

/-! parseUnsigned -/
theorem stripPlus_cons (c : Char) (r : Text) (hc : c ≠ '+') : stripPlus (c :: r) = c :: r := by
  unfold stripPlus
  split
  · rename_i h; simp at h; exact absurd h.1 hc
  · rfl

theorem mem_stripPlus (s : Text) (c : Char) (hc : c ∈ s) (hne : c ≠ '+') : c ∈ stripPlus s := by
  unfold stripPlus
  split
  · simp only [List.mem_cons] at hc; rcases hc with rfl | hc
    · exact absurd rfl hne
    · exact hc
  · exact hc

theorem parseUnsigned_of_digits (val : Char → Option Nat) (radix bound : Nat) (c : Char) (r : Text) (v : Nat)
    (hc : c ≠ '+') (hp : parseDigits val radix (c :: r) 0 = some v) :
    parseUnsigned val radix bound (c :: r) = if v < bound then some v else none := by
  unfold parseUnsigned
  rw [stripPlus_cons c r hc]
  simp only [parseUnsignedBody, hp]

theorem parseUnsigned_bad (val : Char → Option Nat) (radix bound : Nat) (s : Text)
    (c : Char) (hc : c ∈ s) (hne : c ≠ '+') (hv : val c = none) : parseUnsigned val radix bound s = none := by
  unfold parseUnsigned
  have hb := mem_stripPlus s c hc hne
  generalize stripPlus s = body at hb
  cases body with
  | nil => rfl
  | cons x xs => simp only [parseUnsignedBody, parseDigits_bad val radix (x :: xs) 0 c hb hv]

theorem plus_not_dec : ¬ isDec '+' := by unfold isDec; decide

theorem parseDec_showDec (bound n : Nat) :
    parseUnsigned decVal 10 bound (showDec n) = if n < bound then some n else none := by
  obtain ⟨c, r, h, hc⟩ := showDec_cons n
  have hp := parseDigits_showDec n
  rw [h] at hp ⊢
  exact parseUnsigned_of_digits _ _ _ c r n (fun e => plus_not_dec (e ▸ hc)) hp

theorem decVal_none_of_not_dec {c : Char} (h : ¬ isDec c) : decVal c = none := by
  unfold decVal; unfold isDec at h; simp [h]

/-! splitOnce / stripPrefix / stripAs -/
theorem splitOnce_append (sep : Char) (a r : Text) (h : sep ∉ a) :
    splitOnce sep (a ++ sep :: r) = some (a, r) := by
  induction a with
  | nil => simp [splitOnce]
  | cons c a ih =>
    simp only [List.mem_cons, not_or] at h
    simp only [List.cons_append, splitOnce]
    rw [if_neg (fun e => h.1 e.symm), ih h.2]

theorem splitOnce_none (sep : Char) (s : Text) (h : sep ∉ s) : splitOnce sep s = none := by
  induction s with
  | nil => rfl
  | cons c s ih =>
    simp only [List.mem_cons, not_or] at h
    simp only [splitOnce]
    rw [if_neg (fun e => h.1 e.symm), ih h.2]

theorem stripAs_AS (s : Text) : stripAs ('A' :: 'S' :: s) = s := by
  simp [stripAs, stripPrefix]

theorem stripAs_of_head (c : Char) (r : Text) (h1 : c ≠ 'A') (h2 : c ≠ 'a') : stripAs (c :: r) = c :: r := by
  simp [stripAs, stripPrefix, Ne.symm h1, Ne.symm h2]

theorem A_not_dec : ¬ isDec 'A' := by unfold isDec; decide
theorem a_not_dec : ¬ isDec 'a' := by unfold isDec; decide
theorem colon_not_dec : ¬ isDec ':' := by unfold isDec; decide
theorem dot_not_dec : ¬ isDec '.' := by unfold isDec; decide
theorem x_not_dec : ¬ isDec 'x' := by unfold isDec; decide
theorem r_not_dec : ¬ isDec 'r' := by unfold isDec; decide

theorem stripAs_showDec (n : Nat) : stripAs (showDec n) = showDec n := by
  obtain ⟨c, r, h, hc⟩ := showDec_cons n
  rw [h]
  exact stripAs_of_head c r (fun e => A_not_dec (e ▸ hc)) (fun e => a_not_dec (e ▸ hc))

theorem not_mem_showDec {c : Char} (h : ¬ isDec c) (n : Nat) : c ∉ showDec n :=
  fun hc => h (showDec_chars n c hc)

/-! bytes -/
theorem foldl_snoc (bs : Bytes) (x : UInt8) (acc : Nat) :
    (bs ++ [x]).foldl (fun a b => a * 256 + b.toNat) acc = bs.foldl (fun a b => a * 256 + b.toNat) acc * 256 + x.toNat := by
  simp [List.foldl_append]

theorem beVal_snoc (bs : Bytes) (x : UInt8) : beVal (bs ++ [x]) = beVal bs * 256 + x.toNat := by
  simp [beVal, List.foldl_append]

theorem beBytes_beVal (k : Nat) (bs : Bytes) (h : bs.length = k) : beBytes k (beVal bs) = bs := by
  induction k generalizing bs with
  | zero => simp at h; subst h; rfl
  | succ k ih =>
    have hne : bs ≠ [] := by intro e; subst e; simp at h
    have hd := List.dropLast_concat_getLast hne
    have hl : bs.dropLast.length = k := by simp [h]
    rw [← hd, beVal_snoc]
    have hx := (bs.getLast hne).toNat_lt
    simp only [beBytes]
    have h1 : (beVal bs.dropLast * 256 + (bs.getLast hne).toNat) / 256 = beVal bs.dropLast := by omega
    have h2 : (beVal bs.dropLast * 256 + (bs.getLast hne).toNat) % 256 = (bs.getLast hne).toNat := by omega
    rw [h1, h2, ih _ hl]
    simp

theorem foldl_lt (bs : Bytes) (acc : Nat) :
    bs.foldl (fun a b => a * 256 + b.toNat) acc < (acc + 1) * 256 ^ bs.length := by
  induction bs generalizing acc with
  | nil => simp
  | cons x bs ih =>
    simp only [List.foldl_cons, List.length_cons]
    have hx := x.toNat_lt
    calc _ < (acc * 256 + x.toNat + 1) * 256 ^ bs.length := ih _
      _ ≤ ((acc + 1) * 256) * 256 ^ bs.length := Nat.mul_le_mul_right _ (by omega)
      _ = (acc + 1) * 256 ^ (bs.length + 1) := by rw [Nat.pow_succ, Nat.mul_assoc, Nat.mul_comm 256]

theorem beVal_lt (bs : Bytes) : beVal bs < 256 ^ bs.length := by
  have := foldl_lt bs 0; simpa [beVal] using this

/-! hex -/
theorem parseDigits_hex2U (b : UInt8) (r : Text) (acc : Nat) :
    parseDigits hexValC 16 (hex2U b ++ r) acc = parseDigits hexValC 16 r (acc * 256 + b.toNat) := by
  have hb := b.toNat_lt
  simp only [hex2U, List.cons_append, List.nil_append, parseDigits,
    hexVal_U (b.toNat / 16) (by omega), hexVal_U (b.toNat % 16) (by omega)]
  congr 1; omega

theorem parseDigits_hex2L (b : UInt8) (r : Text) (acc : Nat) :
    parseDigits hexValC 16 (hex2L b ++ r) acc = parseDigits hexValC 16 r (acc * 256 + b.toNat) := by
  have hb := b.toNat_lt
  simp only [hex2L, List.cons_append, List.nil_append, parseDigits,
    hexVal_L (b.toNat / 16) (by omega), hexVal_L (b.toNat % 16) (by omega)]
  congr 1; omega

theorem parseDigits_flatMap_hex2U (bs : Bytes) (r : Text) (acc : Nat) :
    parseDigits hexValC 16 (bs.flatMap hex2U ++ r) acc =
      parseDigits hexValC 16 r (bs.foldl (fun a b => a * 256 + b.toNat) acc) := by
  induction bs generalizing acc with
  | nil => simp
  | cons x bs ih => simp only [List.flatMap_cons, List.append_assoc, parseDigits_hex2U, ih, List.foldl_cons]

theorem parseDigits_flatMap_hex2L (bs : Bytes) (r : Text) (acc : Nat) :
    parseDigits hexValC 16 (bs.flatMap hex2L ++ r) acc =
      parseDigits hexValC 16 r (bs.foldl (fun a b => a * 256 + b.toNat) acc) := by
  induction bs generalizing acc with
  | nil => simp
  | cons x bs ih => simp only [List.flatMap_cons, List.append_assoc, parseDigits_hex2L, ih, List.foldl_cons]


theorem slice_length (raw : Bytes) (lo hi : Nat) (h : hi ≤ raw.length) : (slice raw lo hi).length = hi - lo := by
  simp [slice]; omega

theorem slice_append (raw : Bytes) (a b c : Nat) (hab : a ≤ b) (hbc : b ≤ c) :
    slice raw a b ++ slice raw b c = slice raw a c := by
  unfold slice
  have : c - a = (b - a) + (c - b) := by omega
  rw [this, List.take_add, List.drop_drop]
  congr 3; omega

theorem slice_all (raw : Bytes) (n : Nat) (h : raw.length = n) : slice raw 0 n = raw := by
  simp [slice, ← h]

theorem parseDecU32_showDec (n : Nat) (h : n < 4294967296) : parseDecU32 (showDec n) = some n := by
  unfold parseDecU32; rw [parseDec_showDec]; simp [h]
theorem parseDecU16_showDec (n : Nat) (h : n < 65536) : parseDecU16 (showDec n) = some n := by
  unfold parseDecU16; rw [parseDec_showDec]; simp [h]



/-! wellknown table -/
theorem findRowIdx_some {p : WkRow → Bool} {rows : List WkRow} {start i : Nat}
    (h : findRowIdx p rows start = some i) : ∃ row, rows[i - start]? = some row ∧ p row = true ∧ start ≤ i := by
  induction rows generalizing start with
  | nil => simp [findRowIdx] at h
  | cons r rs ih =>
    unfold findRowIdx at h
    split at h
    · rename_i hp; simp at h; subst h; exact ⟨r, by simp, hp, Nat.le_refl _⟩
    · obtain ⟨row, h1, h2, h3⟩ := ih h
      refine ⟨row, ?_, h2, by omega⟩
      have : i - start = (i - (start + 1)) + 1 := by omega
      rw [this]; simpa using h1

theorem findRowIdx_none {p : WkRow → Bool} {rows : List WkRow} {start : Nat}
    (h : ∀ row ∈ rows, p row = false) : findRowIdx p rows start = none := by
  induction rows generalizing start with
  | nil => rfl
  | cons r rs ih =>
    unfold findRowIdx
    rw [h r (by simp)]
    simp
    exact ih (fun row hr => h row (by simp [hr]))

def tableRoundTrip : Bool :=
  wkRows.all fun row => match Wk.parse (row.names.headD []) with
    | some w => w.toU32 == row.value
    | none => false
theorem tableRoundTrip_ok : tableRoundTrip = true := by decide +kernel

def keysOK : Bool :=
  wkRows.all fun row => row.keys.all fun k => !k.contains ':' && k.head? != some '0'
theorem keysOK_ok : keysOK = true := by decide +kernel

theorem wk_parse_none (s : Text) (h : ':' ∈ s ∨ s.head? = some '0') : Wk.parse s = none := by
  unfold Wk.parse
  have hl : ':' ∈ lower s ∨ (lower s).head? = some '0' := by
    rcases h with h | h
    · left; unfold lower; exact List.mem_map.mpr ⟨':', h, by decide⟩
    · right
      cases s with
      | nil => simp at h
      | cons c r => simp at h; subst h; simp [lower]; decide
  have : findRowIdx (fun r => r.keys.contains (lower s)) wkRows 0 = none := by
    apply findRowIdx_none
    intro row hrow
    have hk := keysOK_ok
    unfold keysOK at hk
    rw [List.all_eq_true] at hk
    have hk := hk row hrow
    rw [List.all_eq_true] at hk
    cases hc : row.keys.contains (lower s) with
    | false => rfl
    | true =>
      have hm : lower s ∈ row.keys := by simpa using hc
      have := hk _ hm
      simp at this
      rcases hl with hl | hl
      · exact absurd hl this.1
      · exact absurd hl this.2
  simp only [this]

theorem wk_named_roundtrip (i : Nat) (row : WkRow) (h : wkRows[i]? = some row) :
    ∃ w, Wk.parse (row.names.headD []) = some w ∧ w.toU32 = row.value := by
  have hk := tableRoundTrip_ok
  unfold tableRoundTrip at hk
  rw [List.all_eq_true] at hk
  have := hk row (List.mem_of_getElem? h)
  cases hp : Wk.parse (row.names.headD []) with
  | none => rw [hp] at this; simp at this
  | some w => rw [hp] at this; exact ⟨w, rfl, by simpa using this⟩

theorem hexU_ne_colon : ∀ d, d < 16 → hexDigitU d ≠ ':' := by decide
theorem hexU_ne_plus : ∀ d, d < 16 → hexDigitU d ≠ '+' := by decide
theorem hexL_ne_colon : ∀ d, d < 16 → hexDigitL d ≠ ':' := by decide
theorem hexL_ne_plus : ∀ d, d < 16 → hexDigitL d ≠ '+' := by decide

theorem colon_not_mem_flatMap_hex2U (bs : Bytes) : ':' ∉ bs.flatMap hex2U := by
  intro h
  rw [List.mem_flatMap] at h
  obtain ⟨x, _, hx⟩ := h
  have := x.toNat_lt
  simp [hex2U] at hx
  rcases hx with hx | hx
  · exact hexU_ne_colon _ (by omega) hx.symm
  · exact hexU_ne_colon _ (by omega) hx.symm

theorem colon_not_mem_flatMap_hex2L (bs : Bytes) : ':' ∉ bs.flatMap hex2L := by
  intro h
  rw [List.mem_flatMap] at h
  obtain ⟨x, _, hx⟩ := h
  have := x.toNat_lt
  simp [hex2L] at hx
  rcases hx with hx | hx
  · exact hexL_ne_colon _ (by omega) hx.symm
  · exact hexL_ne_colon _ (by omega) hx.symm

theorem length_flatMap_hex2U (bs : Bytes) : (bs.flatMap hex2U).length = 2 * bs.length := by
  induction bs with
  | nil => rfl
  | cons x bs ih => simp [List.flatMap_cons, hex2U, ih]; omega

theorem length_flatMap_hex2L (bs : Bytes) : (bs.flatMap hex2L).length = 2 * bs.length := by
  induction bs with
  | nil => rfl
  | cons x bs ih => simp [List.flatMap_cons, hex2L, ih]; omega

/-- hex digits of a non-empty byte string parse to its big-endian value -/
theorem parseHex_flatMap_hex2U (bound : Nat) (x : UInt8) (bs : Bytes) :
    parseUnsigned hexValC 16 bound ((x :: bs).flatMap hex2U) =
      if beVal (x :: bs) < bound then some (beVal (x :: bs)) else none := by
  have hx := x.toNat_lt
  have hp := parseDigits_flatMap_hex2U (x :: bs) [] 0
  simp only [List.append_nil, parseDigits] at hp
  have e : (x :: bs).flatMap hex2U = hexDigitU (x.toNat / 16) :: (hexDigitU (x.toNat % 16) :: bs.flatMap hex2U) := by
    simp [List.flatMap_cons, hex2U]
  rw [e] at hp ⊢
  exact parseUnsigned_of_digits _ _ _ _ _ _ (hexU_ne_plus _ (by omega)) hp

theorem parseHex_flatMap_hex2L (bound : Nat) (x : UInt8) (bs : Bytes) :
    parseUnsigned hexValC 16 bound ((x :: bs).flatMap hex2L) =
      if beVal (x :: bs) < bound then some (beVal (x :: bs)) else none := by
  have hx := x.toNat_lt
  have hp := parseDigits_flatMap_hex2L (x :: bs) [] 0
  simp only [List.append_nil, parseDigits] at hp
  have e : (x :: bs).flatMap hex2L = hexDigitL (x.toNat / 16) :: (hexDigitL (x.toNat % 16) :: bs.flatMap hex2L) := by
    simp [List.flatMap_cons, hex2L]
  rw [e] at hp ⊢
  exact parseUnsigned_of_digits _ _ _ _ _ _ (hexL_ne_plus _ (by omega)) hp

theorem u8_eq_iff (x : UInt8) (n : Nat) (hn : n < 256) : (x == UInt8.ofNat n) = decide (x.toNat = n) := by
  rw [Bool.eq_iff_iff]
  simp only [beq_iff_eq, decide_eq_true_eq]
  constructor
  · intro h; subst h; simp [UInt8.toNat_ofNat']; omega
  · intro h; subst h; simp

theorem beBytes2 (x y : UInt8) : beBytes 2 (x.toNat * 256 + y.toNat) = [x, y] := by
  have := beBytes_beVal 2 [x, y] rfl
  simpa [beVal] using this



theorem slice02 (raw : Bytes) (h : 2 ≤ raw.length) : slice raw 0 2 = [byteAt raw 0, byteAt raw 1] := by
  match raw, h with
  | a :: b :: r, _ => simp [slice, byteAt]

theorem u8_of_toNat (x : UInt8) (n : Nat) (h : x.toNat = n) : x = UInt8.ofNat n := by
  subst h; simp

theorem parseExt_rt (tail : Text) : parseExt ('r' :: 't' :: ':' :: tail) = parseExtTagged 2 tail := by
  have h1 : ¬ ('r' = ':') := by decide
  have h2 : ¬ ('t' = ':') := by decide
  simp [parseExt, splitOnce, h1, h2]

theorem parseExt_ro (tail : Text) : parseExt ('r' :: 'o' :: ':' :: tail) = parseExtTagged 3 tail := by
  have h1 : ¬ ('r' = ':') := by decide
  have h2 : ¬ ('o' = ':') := by decide
  have h3 : ¬ ('o' = 't') := by decide
  simp [parseExt, splitOnce, h1, h2, h3]

theorem tagged_as2 (sub a n : Nat) (ha : a < 65536) (hn : n < 4294967296) :
    parseExtTagged sub (asText a ++ ':' :: showDec n) =
      .ok ([0x00, UInt8.ofNat sub] ++ beBytes 2 a ++ beBytes 4 n) := by
  unfold parseExtTagged
  have hcol : ':' ∉ asText a := by
    simp only [asText, List.cons_append, List.nil_append, List.mem_cons, not_or]
    exact ⟨by decide, by decide, not_mem_showDec colon_not_dec _⟩
  rw [splitOnce_append _ _ _ hcol]
  simp only [asText, List.cons_append, List.nil_append, stripAs_AS, parseDecU16_showDec _ ha, parseDecU32_showDec _ hn]

theorem tagged_as4 (sub a n : Nat) (ha : 65536 ≤ a) (ha2 : a < 4294967296) (hn : n < 65536) :
    parseExtTagged sub (asText a ++ ':' :: showDec n) =
      .ok ([0x02, UInt8.ofNat sub] ++ beBytes 4 a ++ beBytes 2 n) := by
  unfold parseExtTagged
  have hcol : ':' ∉ asText a := by
    simp only [asText, List.cons_append, List.nil_append, List.mem_cons, not_or]
    exact ⟨by decide, by decide, not_mem_showDec colon_not_dec _⟩
  rw [splitOnce_append _ _ _ hcol]
  have h16 : parseDecU16 (showDec a) = none := by
    unfold parseDecU16; rw [parseDec_showDec]; simp; omega
  simp only [asText, List.cons_append, List.nil_append, stripAs_AS, h16, parseDecU32_showDec _ ha2, parseDecU16_showDec _ hn]

theorem octets : ∀ x, x < 256 → parseOctet (showDec x) = some x := by decide +kernel

theorem parseIp4_showIp4 (i0 i1 i2 i3 : UInt8) : parseIp4 (showIp4 [i0, i1, i2, i3]) = some [i0, i1, i2, i3] := by
  have e : showIp4 [i0, i1, i2, i3] = showDec i0.toNat ++ '.' :: (showDec i1.toNat ++ '.' :: (showDec i2.toNat ++ '.' :: showDec i3.toNat)) := by
    simp [showIp4, byteAt]
  rw [e]
  unfold parseIp4
  rw [splitOnce_append _ _ _ (not_mem_showDec dot_not_dec _)]
  simp only
  rw [splitOnce_append _ _ _ (not_mem_showDec dot_not_dec _)]
  simp only
  rw [splitOnce_append _ _ _ (not_mem_showDec dot_not_dec _)]
  simp only [octets _ i0.toNat_lt, octets _ i1.toNat_lt, octets _ i2.toNat_lt, octets _ i3.toNat_lt, UInt8.ofNat_toNat]

theorem showIp4_cons (i0 i1 i2 i3 : UInt8) : ∃ c r, showIp4 [i0, i1, i2, i3] = c :: r ∧ isDec c ∧ '.' ∈ r ∧ ':' ∉ c :: r := by
  obtain ⟨c, r, h, hc⟩ := showDec_cons i0.toNat
  refine ⟨c, r ++ '.' :: (showDec i1.toNat ++ '.' :: (showDec i2.toNat ++ '.' :: showDec i3.toNat)), ?_, hc, by simp, ?_⟩
  · simp [showIp4, byteAt, h]
  · have hh : ':' ∉ showDec i0.toNat := not_mem_showDec colon_not_dec _
    rw [h] at hh
    simp only [List.mem_cons, List.mem_append, not_or] at hh ⊢
    have n1 : ':' ∉ showDec i1.toNat := not_mem_showDec colon_not_dec _
    have n2 : ':' ∉ showDec i2.toNat := not_mem_showDec colon_not_dec _
    have n3 : ':' ∉ showDec i3.toNat := not_mem_showDec colon_not_dec _
    have : ¬ (':' = '.') := by decide
    exact ⟨hh.1, hh.2, this, n1, this, n2, this, n3⟩

theorem tagged_ip4 (sub n : Nat) (i0 i1 i2 i3 : UInt8) (hn : n < 65536) :
    parseExtTagged sub (showIp4 [i0, i1, i2, i3] ++ ':' :: showDec n) =
      .ok ([0x01, UInt8.ofNat sub] ++ [i0, i1, i2, i3] ++ beBytes 2 n) := by
  obtain ⟨c, r, h, hc, hdot, hcol⟩ := showIp4_cons i0 i1 i2 i3
  unfold parseExtTagged
  rw [splitOnce_append _ _ _ (h ▸ hcol)]
  have hs : stripAs (showIp4 [i0, i1, i2, i3]) = showIp4 [i0, i1, i2, i3] := by
    rw [h]; exact stripAs_of_head c r (fun e => A_not_dec (e ▸ hc)) (fun e => a_not_dec (e ▸ hc))
  have hdotmem : '.' ∈ showIp4 [i0, i1, i2, i3] := by rw [h]; simp [hdot]
  have h16 : parseDecU16 (showIp4 [i0, i1, i2, i3]) = none :=
    parseUnsigned_bad _ _ _ _ '.' hdotmem (by decide) (decVal_none_of_not_dec dot_not_dec)
  have h32 : parseDecU32 (showIp4 [i0, i1, i2, i3]) = none :=
    parseUnsigned_bad _ _ _ _ '.' hdotmem (by decide) (decVal_none_of_not_dec dot_not_dec)
  simp only [hs, h16, h32, parseIp4_showIp4, parseDecU16_showDec _ hn]

/-- the class of the statement: everything except the non-transitive opaque route target (prints
`rt:` + unpadded hex) and four-octet-AS rt/ro whose AS fits two octets (prints like a two-octet one) -/
def ExtTextClass (raw : Bytes) : Prop :=
  ¬ ((byteAt raw 0).toNat = 0x43 ∧ (byteAt raw 1).toNat = 2) ∧
  ¬ ((byteAt raw 0).toNat = 2 ∧ ((byteAt raw 1).toNat = 2 ∨ (byteAt raw 1).toNat = 3) ∧ beVal (slice raw 2 6) ≤ 65535)

theorem displayExt_hex (raw : Bytes) (s : Nat) (h : (extTypes raw).2 = .otherSubType s) :
    displayExt raw = .ok (['0', 'x'] ++ (raw.take 8).flatMap hex2U) := by
  unfold displayExt
  generalize extTypes raw = p at *
  obtain ⟨ty, sub⟩ := p
  simp only at h
  subst h
  cases ty <;> rfl

theorem extTypes_other (raw : Bytes)
    (h1 : ¬ (((byteAt raw 0).toNat = 0 ∨ (byteAt raw 0).toNat = 1 ∨ (byteAt raw 0).toNat = 2) ∧
      ((byteAt raw 1).toNat = 2 ∨ (byteAt raw 1).toNat = 3)))
    (h2 : ¬ ((byteAt raw 0).toNat = 0x43 ∧ (byteAt raw 1).toNat = 2)) :
    (extTypes raw).2 = .otherSubType (byteAt raw 1).toNat := by
  unfold extTypes
  simp only
  repeat' split
  all_goals first | rfl | (exfalso; omega)

theorem parseExt_hex (raw : Bytes) (h : raw.length = 8) :
    parseExt (['0', 'x'] ++ (raw.take 8).flatMap hex2U) = .ok raw := by
  have ht : raw.take 8 = raw := by rw [List.take_of_length_le (by omega)]
  rw [ht]
  unfold parseExt
  have hcol : ':' ∉ (['0', 'x'] ++ raw.flatMap hex2U) := by
    simp only [List.cons_append, List.nil_append, List.mem_cons, not_or]
    exact ⟨by decide, by decide, colon_not_mem_flatMap_hex2U _⟩
  rw [splitOnce_none _ _ hcol]
  simp only [List.cons_append, List.nil_append, stripPrefix, if_true]
  have hlen : ¬ (raw.flatMap hex2U).length > 16 := by rw [length_flatMap_hex2U]; omega
  rw [if_neg hlen]
  match raw, h with
  | x :: bs, h =>
    unfold parseHexU64
    rw [parseHex_flatMap_hex2U]
    have hlt : beVal (x :: bs) < 18446744073709551616 := by
      have := beVal_lt (x :: bs); rw [h] at this; simpa using this
    rw [if_pos hlt]
    exact congrArg Outcome.ok (beBytes_beVal 8 _ h)

theorem raw8_split (raw : Bytes) (h : raw.length = 8) :
    [byteAt raw 0, byteAt raw 1] ++ slice raw 2 4 ++ slice raw 4 8 = raw ∧
    [byteAt raw 0, byteAt raw 1] ++ slice raw 2 6 ++ slice raw 6 8 = raw := by
  rw [← slice02 raw (by omega)]
  constructor
  · rw [slice_append _ _ _ _ (by omega) (by omega), slice_append _ _ _ _ (by omega) (by omega), slice_all raw 8 h]
  · rw [slice_append _ _ _ _ (by omega) (by omega), slice_append _ _ _ _ (by omega) (by omega), slice_all raw 8 h]

theorem slice_ip (raw : Bytes) (h : raw.length = 8) : ∃ i0 i1 i2 i3, slice raw 2 6 = [i0, i1, i2, i3] := by
  match raw, h with
  | [_, _, a, b, c, d, _, _], _ => exact ⟨a, b, c, d, by simp [slice]⟩

/-- texts `Display for ExtendedCommunity` produces for the class: `rt:`/`ro:` + tail, or `0x` + 16 hex digits -/
def ExtForm (t : Text) : Prop :=
  (∃ c tail, (c = 't' ∨ c = 'o') ∧ t = 'r' :: c :: ':' :: tail) ∨
  (∃ H, t = '0' :: 'x' :: H ∧ ':' ∉ H ∧ H.length = 16)

theorem ext_text_form (raw : Bytes) (h : raw.length = 8) (hc : ExtTextClass raw) :
    ∃ t, displayExt raw = .ok t ∧ parseExt t = .ok raw ∧ ExtForm t := by
  obtain ⟨hc1, hc2⟩ := hc
  have hl24 := slice_length raw 2 4 (by omega)
  have hl48 := slice_length raw 4 8 (by omega)
  have hl26 := slice_length raw 2 6 (by omega)
  have hl68 := slice_length raw 6 8 (by omega)
  have b24 : beVal (slice raw 2 4) < 65536 := by have := beVal_lt (slice raw 2 4); rw [hl24] at this; exact this
  have b48 : beVal (slice raw 4 8) < 4294967296 := by have := beVal_lt (slice raw 4 8); rw [hl48] at this; exact this
  have b26 : beVal (slice raw 2 6) < 4294967296 := by have := beVal_lt (slice raw 2 6); rw [hl26] at this; exact this
  have b68 : beVal (slice raw 6 8) < 65536 := by have := beVal_lt (slice raw 6 8); rw [hl68] at this; exact this
  obtain ⟨sp1, sp2⟩ := raw8_split raw h
  by_cases htag : ((byteAt raw 0).toNat = 0 ∨ (byteAt raw 0).toNat = 1 ∨ (byteAt raw 0).toNat = 2) ∧
      ((byteAt raw 1).toNat = 2 ∨ (byteAt raw 1).toNat = 3)
  · obtain ⟨ht, hs⟩ := htag
    rcases ht with ht | ht | ht
    · -- two-octet AS
      have e0 := u8_of_toNat _ _ ht
      rcases hs with hs | hs
      · have e1 := u8_of_toNat _ _ hs
        have hty : extTypes raw = (.transitiveTwoOctetSpecific, .routeTarget) := by simp [extTypes, ht, hs]
        have hd : displayExt raw = .ok ('r' :: 't' :: ':' :: (asText (beVal (slice raw 2 4)) ++ ':' :: showDec (beVal (slice raw 4 8)))) := by
          simp [displayExt, hty, extAs2, extAn4]
        refine ⟨_, hd, ?_, Or.inl ⟨'t', _, Or.inl rfl, rfl⟩⟩
        rw [parseExt_rt, tagged_as2 2 _ _ b24 b48, beBytes_beVal 2 _ hl24, beBytes_beVal 4 _ hl48]
        rw [e0, e1] at sp1; exact congrArg Outcome.ok sp1
      · have e1 := u8_of_toNat _ _ hs
        have hty : extTypes raw = (.transitiveTwoOctetSpecific, .routeOrigin) := by simp [extTypes, ht, hs]
        have hd : displayExt raw = .ok ('r' :: 'o' :: ':' :: (asText (beVal (slice raw 2 4)) ++ ':' :: showDec (beVal (slice raw 4 8)))) := by
          simp [displayExt, hty, extAs2, extAn4]
        refine ⟨_, hd, ?_, Or.inl ⟨'o', _, Or.inr rfl, rfl⟩⟩
        rw [parseExt_ro, tagged_as2 3 _ _ b24 b48, beBytes_beVal 2 _ hl24, beBytes_beVal 4 _ hl48]
        rw [e0, e1] at sp1; exact congrArg Outcome.ok sp1
    · -- IPv4
      have e0 := u8_of_toNat _ _ ht
      obtain ⟨i0, i1, i2, i3, hip⟩ := slice_ip raw h
      rcases hs with hs | hs
      · have e1 := u8_of_toNat _ _ hs
        have hty : extTypes raw = (.transitiveIp4Specific, .routeTarget) := by simp [extTypes, ht, hs]
        have hd : displayExt raw = .ok ('r' :: 't' :: ':' :: (showIp4 [i0, i1, i2, i3] ++ ':' :: showDec (beVal (slice raw 6 8)))) := by
          simp [displayExt, hty, extIp4, extAn2, hip]
        refine ⟨_, hd, ?_, Or.inl ⟨'t', _, Or.inl rfl, rfl⟩⟩
        rw [parseExt_rt, tagged_ip4 2 _ _ _ _ _ b68, beBytes_beVal 2 _ hl68]
        rw [e0, e1, hip] at sp2; exact congrArg Outcome.ok sp2
      · have e1 := u8_of_toNat _ _ hs
        have hty : extTypes raw = (.transitiveIp4Specific, .routeOrigin) := by simp [extTypes, ht, hs]
        have hd : displayExt raw = .ok ('r' :: 'o' :: ':' :: (showIp4 [i0, i1, i2, i3] ++ ':' :: showDec (beVal (slice raw 6 8)))) := by
          simp [displayExt, hty, extIp4, extAn2, hip]
        refine ⟨_, hd, ?_, Or.inl ⟨'o', _, Or.inr rfl, rfl⟩⟩
        rw [parseExt_ro, tagged_ip4 3 _ _ _ _ _ b68, beBytes_beVal 2 _ hl68]
        rw [e0, e1, hip] at sp2; exact congrArg Outcome.ok sp2
    · -- four-octet AS above 65535
      have e0 := u8_of_toNat _ _ ht
      have hbig : 65536 ≤ beVal (slice raw 2 6) := by
        have := hc2; simp only [ht, true_and, not_and, Nat.not_le] at this; exact this hs
      rcases hs with hs | hs
      · have e1 := u8_of_toNat _ _ hs
        have hty : extTypes raw = (.transitiveFourOctetSpecific, .routeTarget) := by simp [extTypes, ht, hs]
        have hd : displayExt raw = .ok ('r' :: 't' :: ':' :: (asText (beVal (slice raw 2 6)) ++ ':' :: showDec (beVal (slice raw 6 8)))) := by
          simp [displayExt, hty, extAs4, extAn2]
        refine ⟨_, hd, ?_, Or.inl ⟨'t', _, Or.inl rfl, rfl⟩⟩
        rw [parseExt_rt, tagged_as4 2 _ _ hbig b26 b68, beBytes_beVal 4 _ hl26, beBytes_beVal 2 _ hl68]
        rw [e0, e1] at sp2; exact congrArg Outcome.ok sp2
      · have e1 := u8_of_toNat _ _ hs
        have hty : extTypes raw = (.transitiveFourOctetSpecific, .routeOrigin) := by simp [extTypes, ht, hs]
        have hd : displayExt raw = .ok ('r' :: 'o' :: ':' :: (asText (beVal (slice raw 2 6)) ++ ':' :: showDec (beVal (slice raw 6 8)))) := by
          simp [displayExt, hty, extAs4, extAn2]
        refine ⟨_, hd, ?_, Or.inl ⟨'o', _, Or.inr rfl, rfl⟩⟩
        rw [parseExt_ro, tagged_as4 3 _ _ hbig b26 b68, beBytes_beVal 4 _ hl26, beBytes_beVal 2 _ hl68]
        rw [e0, e1] at sp2; exact congrArg Outcome.ok sp2
  · -- everything else prints in hexadecimal
    refine ⟨_, displayExt_hex raw _ (extTypes_other raw htag hc1), parseExt_hex raw h, Or.inr ⟨(raw.take 8).flatMap hex2U, rfl, colon_not_mem_flatMap_hex2U _, ?_⟩⟩
    rw [length_flatMap_hex2U, List.length_take]; omega


theorem hexL_size : ∀ d, d < 16 → (hexDigitL d).utf8Size = 1 := by decide

theorem byteLen_flatMap_hex2L (bs : Bytes) : byteLen (bs.flatMap hex2L) = 2 * bs.length := by
  induction bs with
  | nil => rfl
  | cons x bs ih =>
    have hx := x.toNat_lt
    unfold byteLen at ih ⊢
    simp only [List.flatMap_cons, List.map_append, List.sum_append, ih, hex2L, List.map_cons, List.map_nil,
      List.sum_cons, List.sum_nil, hexL_size _ (show x.toNat / 16 < 16 by omega), hexL_size _ (show x.toNat % 16 < 16 by omega),
      List.length_cons]
    omega

theorem splitAtByte_hex2L (bs : Bytes) (rest : Text) :
    splitAtByte (bs.flatMap hex2L ++ rest) (2 * bs.length) = some (bs.flatMap hex2L, rest) := by
  induction bs with
  | nil => simp [splitAtByte]
  | cons x bs ih =>
    have hx := x.toNat_lt
    have e : 2 * (x :: bs).length = (2 * bs.length + 1) + 1 := by simp; omega
    rw [e]
    simp only [List.flatMap_cons, hex2L, List.cons_append, List.nil_append, splitAtByte,
      hexL_size _ (show x.toNat / 16 < 16 by omega), hexL_size _ (show x.toNat % 16 < 16 by omega)]
    have e1 : 2 * bs.length + 1 + 1 - 1 = (2 * bs.length) + 1 := by omega
    have e2 : 2 * bs.length + 1 - 1 = 2 * bs.length := by omega
    simp only [show (1 : Nat) ≤ 2 * bs.length + 1 + 1 by omega, if_true, e1, splitAtByte,
      hexL_size _ (show x.toNat % 16 < 16 by omega), show (1 : Nat) ≤ 2 * bs.length + 1 by omega, e2, ih]

theorem parseHexL_of_len (bound : Nat) (bs : Bytes) (h : 0 < bs.length) :
    parseUnsigned hexValC 16 bound (bs.flatMap hex2L) = if beVal bs < bound then some (beVal bs) else none := by
  match bs, h with
  | x :: r, _ => exact parseHex_flatMap_hex2L bound x r



/-! rejections needed for the enum's precedence -/
theorem parseDec_bad_head (bound : Nat) (c : Char) (r : Text) (hc : ¬ isDec c) (hp : c ≠ '+') :
    parseUnsigned decVal 10 bound (c :: r) = none :=
  parseUnsigned_bad _ _ _ _ c (by simp) hp (decVal_none_of_not_dec hc)

theorem stripAs_r (c : Char) (tail : Text) : stripAs ('r' :: c :: tail) = 'r' :: c :: tail :=
  stripAs_of_head 'r' _ (by decide) (by decide)

theorem parseStd_tagged (c : Char) (tail : Text) (hc : c ≠ ':') : parseStd ('r' :: c :: ':' :: tail) = .err := by
  unfold parseStd
  rw [wk_parse_none _ (Or.inl (by simp))]
  have : splitOnce ':' ('r' :: c :: ':' :: tail) = some (['r', c], tail) :=
    splitOnce_append ':' ['r', c] tail (by simp only [List.mem_cons, List.not_mem_nil, or_false, not_or]; exact ⟨by decide, Ne.symm hc⟩)
  rw [this]
  simp only [stripAs_r]
  have : parseDecU16 ['r', c] = none := parseDec_bad_head _ 'r' [c] r_not_dec (by decide)
  simp only [this]

theorem parseLarge_tagged (c : Char) (tail : Text) (hc : c ≠ ':') : parseLarge ('r' :: c :: ':' :: tail) = .err := by
  unfold parseLarge
  have : splitOnce ':' ('r' :: c :: ':' :: tail) = some (['r', c], tail) :=
    splitOnce_append ':' ['r', c] tail (by simp only [List.mem_cons, List.not_mem_nil, or_false, not_or]; exact ⟨by decide, Ne.symm hc⟩)
  rw [this]
  simp only [stripAs_r]
  have : parseDecU32 ['r', c] = none := parseDec_bad_head _ 'r' [c] r_not_dec (by decide)
  simp only [this]

theorem parseStd_hex_long (H : Text) (hcol : ':' ∉ H) (hlen : H.length > 8) : parseStd ('0' :: 'x' :: H) = .err := by
  unfold parseStd
  rw [wk_parse_none _ (Or.inr rfl)]
  have : ':' ∉ ('0' :: 'x' :: H) := by
    simp only [List.mem_cons, not_or]; exact ⟨by decide, by decide, hcol⟩
  rw [splitOnce_none _ _ this]
  simp only [stripPrefix, if_true, hlen]

theorem parseLarge_hex (H : Text) (hcol : ':' ∉ H) : parseLarge ('0' :: 'x' :: H) = .err := by
  unfold parseLarge
  have : ':' ∉ ('0' :: 'x' :: H) := by
    simp only [List.mem_cons, not_or]; exact ⟨by decide, by decide, hcol⟩
  rw [splitOnce_none _ _ this]
  simp only
  rw [stripAs_of_head '0' _ (by decide) (by decide)]
  have : parseDecU32 ('0' :: 'x' :: H) = none :=
    parseUnsigned_bad _ _ _ _ 'x' (by simp) (by decide) (decVal_none_of_not_dec x_not_dec)
  simp only [this]

theorem parseExt_hex_long (H : Text) (hcol : ':' ∉ H) (hlen : H.length > 16) : parseExt ('0' :: 'x' :: H) = .err := by
  unfold parseExt
  have : ':' ∉ ('0' :: 'x' :: H) := by
    simp only [List.mem_cons, not_or]; exact ⟨by decide, by decide, hcol⟩
  rw [splitOnce_none _ _ this]
  simp only [stripPrefix, if_true, hlen]

theorem parseStd_large (a b c : Nat) : parseStd (showDec a ++ ':' :: (showDec b ++ ':' :: showDec c)) = .err := by
  unfold parseStd
  rw [wk_parse_none _ (Or.inl (by simp))]
  rw [splitOnce_append _ _ _ (not_mem_showDec colon_not_dec _)]
  simp only
  have : parseDecU16 (showDec b ++ ':' :: showDec c) = none :=
    parseUnsigned_bad _ _ _ _ ':' (by simp) (by decide) (decVal_none_of_not_dec colon_not_dec)
  rw [this]
  cases parseDecU16 (stripAs (showDec a)) <;> rfl


/-! names, aliases, case -/

def namesParse : Bool :=
  wkRows.all fun row => (row.names ++ [row.var]).all fun nm =>
    match Wk.parse nm with
    | some w => w.toU32 == row.value
    | none => false
theorem namesParse_ok : namesParse = true := by decide +kernel

theorem lowerChar_upper : ∀ n, n < 91 → 65 ≤ n → lowerChar (lowerChar (Char.ofNat n)) = lowerChar (Char.ofNat n) := by
  decide +kernel

theorem lowerChar_idem (c : Char) : lowerChar (lowerChar c) = lowerChar c := by
  by_cases h : 65 ≤ c.toNat ∧ c.toNat ≤ 90
  · have := lowerChar_upper c.toNat (by omega) h.1
    rwa [Char.ofNat_toNat] at this
  · by_cases hk : c.toNat = 0x212A
    · have : c = Char.ofNat 0x212A := by rw [← hk, Char.ofNat_toNat]
      subst this; decide
    · have : lowerChar c = c := by unfold lowerChar; rw [if_neg h, if_neg hk]
      rw [this, this]

theorem lower_idem (s : Text) : lower (lower s) = lower s := by
  unfold lower; rw [List.map_map]; apply List.map_congr_left; intro c _; exact lowerChar_idem c


theorem displayExt_no_panic (raw : Bytes) : displayExt raw ≠ .panic := by
  unfold displayExt extAs2 extAs4 extIp4 extAn2 extAn4
  generalize extTypes raw = p
  obtain ⟨ty, sub⟩ := p
  cases ty <;> cases sub <;> simp

end Rc.Lemmas.Community
