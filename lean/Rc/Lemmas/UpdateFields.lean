/-
Lemmas for `Rc.Thm.C01.decode_encode`, part 2: field by field, what the decoder
model reports about a message that is the encoding of a typed content.
-/
import Rc.Lemmas.UpdateTyped

namespace Rc.Upd
open Rc Rc.Nlri Rc.Attr Rc.AsPath

/-- the attributes of the content as they go on the wire -/
def TContent.raws (cfg : Cfg) (c : TContent) : List RawAttr := c.attrs.map (AttrC.rawOf cfg)

/-- what parsing the encoding of `c` yields: the facts of `Raw.decode_encode_partial`,
shared by the field lemmas below -/
structure Ctx (cfg : Cfg) (c : TContent) (m : Msg) : Prop where
  wf : WfContent cfg c
  wd : encNlris .v4u (cfg.rx (1, 1)) c.wd = .ok m.wd
  ann : encNlris .v4u (cfg.rx (1, 1)) c.ann = .ok m.ann
  attrs : m.attrs = encRaws (c.raws cfg)
  pa : m.pathAttributes = ((c.raws cfg).map (reportAttr cfg.four), true)
  ppi : m.ppi = Ppi.ofCfg cfg (lastMp 14 (c.raws cfg) none) (lastMp 15 (c.raws cfg) none)
  convWd : m.convWd = (reportNlris .v4u (cfg.rx (1, 1)) c.wd, true)
  convAnn : m.convAnn = (reportNlris .v4u (cfg.rx (1, 1)) c.ann, true)

variable {cfg : Cfg} {c : TContent} {m : Msg}

theorem reportNlris_eq (f : Fam) (ap : Bool) (l : List (Nat × f.Val)) :
    reportNlris f ap l = (anyNlris f ap l).map Outcome.ok := by
  cases ap <;> simp [reportNlris, anyNlris, List.map_map, Function.comp_def]

theorem anyNlris_nil_iff (f : Fam) (ap : Bool) (l : List (Nat × f.Val)) : anyNlris f ap l = [] ↔ l = [] := by
  cases ap <;> simp [anyNlris]

namespace Ctx

theorem four (h : Ctx cfg c m) : m.ppi.four = cfg.four := by rw [h.ppi]; rfl
theorem conv (h : Ctx cfg c m) : m.ppi.conv = cfg.rx (1, 1) := by rw [h.ppi]; rfl

theorem kind (h : Ctx cfg c m) : ∀ a ∈ c.attrs, a.kindOk cfg := fun a ha => (h.wf.2.2.1 a ha).1

theorem rawsWf (h : Ctx cfg c m) : ∀ r ∈ c.raws cfg, r.wf = true := by
  intro r hr
  simp only [TContent.raws, List.mem_map] at hr
  obtain ⟨a, ha, rfl⟩ := hr
  exact (h.wf.2.2.1 a ha).2

theorem find_mem {k : Nat} {a : AttrC} (hf : c.find k = some a) : a ∈ c.attrs ∧ a.code = k := by
  unfold TContent.find at hf
  have h1 := List.mem_of_find?_eq_some hf
  have h2 := List.find?_some hf
  exact ⟨h1, by simpa using h2⟩

theorem first (_h : Ctx cfg c m) (k : Nat) : firstWith k (c.raws cfg) = (c.find k).map (AttrC.rawOf cfg) :=
  firstWith_map cfg k c.attrs

/-- `path_attributes().get(k)` is the first attribute of type `k` of the content -/
theorem get (h : Ctx cfg c m) (k : Nat) : m.get k = (c.find k).map (AttrC.wire cfg) := by
  simp only [Msg.get, h.pa, Raw.getAttr_report, h.first]
  cases hf : c.find k with
  | none => rfl
  | some a =>
    have := (attr_reported cfg a (h.kind a (find_mem hf).1)).1
    simp [this]

theorem typedValue (h : Ctx cfg c m) (k : Nat) :
    m.typedValue k = (c.find k).bind fun a => if (a.ownedT cfg).isSome then some (a.valueD cfg) else none := by
  simp only [Msg.typedValue, h.get]
  cases hf : c.find k with
  | none => rfl
  | some a =>
    simp only [Option.map_some, AttrC.wire, Option.bind_some]
    cases a.ownedT cfg <;> simp

/-- the first attribute of a typed kind's code (other than the two AS paths) is a typed value of that kind -/
theorem find_typed (h : Ctx cfg c m) {k : Nat} {a : AttrC} (hf : c.find k = some a)
    (hk : (canonicalFlags k).isSome = true) (h2 : k ≠ 2) (h17 : k ≠ 17) :
    ∃ fl t, a = .typed fl t ∧ t.code = k ∧ WfAttrW t = true ∧ (cfg.four = false → narrowOk t = true) := by
  obtain ⟨hm, hc⟩ := find_mem hf
  have hkind := h.kind a hm
  cases a with
  | typed fl t => exact ⟨fl, t, rfl, hc, hkind.1, hkind.2⟩
  | path fl as4 ss => cases as4 <;> simp [AttrC.code] at hc <;> omega
  | raw fl tc v =>
    simp only [AttrC.code] at hc
    have := hkind.1
    rw [hc] at this
    simp [this] at hk
  | reach fl f nh rsv nlri => simp only [AttrC.code] at hc; subst hc; simp [canonicalFlags] at hk
  | unreach fl f nlri => simp only [AttrC.code] at hc; subst hc; simp [canonicalFlags] at hk
  | reachU fl k nh rsv body => simp only [AttrC.code] at hc; subst hc; simp [canonicalFlags] at hk
  | unreachU fl k body => simp only [AttrC.code] at hc; subst hc; simp [canonicalFlags] at hk

theorem typedOf_none (h : Ctx cfg c m) {k : Nat} (hf : c.find k = none) : c.typedOf k = none := by
  simp [TContent.typedOf, hf]

theorem origin (h : Ctx cfg c m) : m.origin = (expected cfg c).origin := by
  simp only [expected, Msg.origin, h.typedValue]
  cases hf : c.find 1 with
  | none => simp [TContent.typedOf, hf]
  | some a =>
    obtain ⟨fl, t, rfl, hc, hw, _⟩ := h.find_typed hf (by decide) (by decide) (by decide)
    cases t with
    | origin v =>
      have hv : v < 256 := by simpa [WfAttrW] using hw
      simp [TContent.typedOf, hf, AttrC.ownedT, AttrC.valueD, AttrC.value, Upd.typedValue, composeValue, rd8,
        UInt8.toNat_ofNat']
      omega
    | _ => simp [TypedAttr.code] at hc

theorem med (h : Ctx cfg c m) : m.med = (expected cfg c).med := by
  simp only [expected, Msg.med, h.typedValue]
  cases hf : c.find 4 with
  | none => simp [TContent.typedOf, hf]
  | some a =>
    obtain ⟨fl, t, rfl, hc, hw, _⟩ := h.find_typed hf (by decide) (by decide) (by decide)
    cases t with
    | med n =>
      have hv : n < 4294967296 := by simpa [WfAttrW, u32ok] using hw
      simp [TContent.typedOf, hf, AttrC.ownedT, AttrC.valueD, AttrC.value, Upd.typedValue, composeValue, u32Value,
        rd32_be32' n hv, mapO]
    | _ => simp [TypedAttr.code] at hc

theorem localPref (h : Ctx cfg c m) : m.localPref = (expected cfg c).localPref := by
  simp only [expected, Msg.localPref, h.typedValue]
  cases hf : c.find 5 with
  | none => simp [TContent.typedOf, hf]
  | some a =>
    obtain ⟨fl, t, rfl, hc, hw, _⟩ := h.find_typed hf (by decide) (by decide) (by decide)
    cases t with
    | localPref n =>
      have hv : n < 4294967296 := by simpa [WfAttrW, u32ok] using hw
      simp [TContent.typedOf, hf, AttrC.ownedT, AttrC.valueD, AttrC.value, Upd.typedValue, composeValue, u32Value,
        rd32_be32' n hv, mapO]
    | _ => simp [TypedAttr.code] at hc

theorem convNextHop (h : Ctx cfg c m) : m.convNextHop = (expected cfg c).convNextHop := by
  simp only [expected, Msg.convNextHop, h.typedValue]
  cases hf : c.find 3 with
  | none => simp [TContent.typedOf, hf]
  | some a =>
    obtain ⟨fl, t, rfl, hc, hw, _⟩ := h.find_typed hf (by decide) (by decide) (by decide)
    cases t with
    | nextHop n =>
      have ht : takeN 4 (be32 n) = some (be32 n, []) := by simpa using takeN_append (be32 n) []
      simp [TContent.typedOf, hf, AttrC.ownedT, AttrC.valueD, AttrC.value, Upd.typedValue, composeValue, ht]
    | _ => simp [TypedAttr.code] at hc

theorem aggregator (h : Ctx cfg c m) : m.aggregator = (expected cfg c).aggregator := by
  simp only [expected, Msg.aggregator, h.typedValue, h.four]
  cases hf : c.find 7 with
  | none => simp [TContent.typedOf, hf]
  | some a =>
    obtain ⟨fl, t, rfl, hc, hw, hn⟩ := h.find_typed hf (by decide) (by decide) (by decide)
    cases t with
    | aggregator asn addr =>
      have hv : asn < 4294967296 ∧ addr < 4294967296 := by simpa [WfAttrW, u32ok] using hw
      have ht : takeN 4 (be32 addr) = some (be32 addr, []) := by simpa using takeN_append (be32 addr) []
      cases h4 : cfg.four with
      | true =>
        simp [TContent.typedOf, hf, AttrC.ownedT, AttrC.valueD, AttrC.value, Upd.typedValue, h4, aggrOf,
          rd32_be32 asn hv.1, ht]
      | false =>
        have hs : asn < 65536 := by simpa [narrowOk] using hn h4
        simp [TContent.typedOf, hf, AttrC.ownedT, AttrC.valueD, AttrC.value, Upd.typedValue, h4, aggrOf,
          rd16_be16 asn hs, ht]
    | _ => simp [TypedAttr.code] at hc

theorem isAtomicAggregate (h : Ctx cfg c m) : m.isAtomicAggregate = (expected cfg c).isAtomicAggregate := by
  simp only [expected, Msg.isAtomicAggregate, h.get]
  cases c.find 6 <;> rfl

/-! ### communities -/

theorem recs_length_le (k : Nat) (hk : 0 < k) : ∀ (recs : List Bytes), (∀ r ∈ recs, r.length = k) →
    recs.length ≤ recs.flatten.length := by
  intro recs
  induction recs with
  | nil => intro _; simp
  | cons r t ih =>
    intro hl
    have := ih (fun x hx => hl x (by simp [hx]))
    have := hl r (by simp)
    simp only [List.length_cons, List.flatten_cons, List.length_append]
    omega

theorem commItems_recs (k : Nat) (hk : 0 < k) (recs : List Bytes) (hl : ∀ r ∈ recs, r.length = k) :
    commItems k recs.flatten = okItems recs := by
  have := recs_length_le k hk recs hl
  exact Raw.comm_records k hk recs hl _ (by omega)

theorem recsOk_iff (k : Nat) (cs : List Bytes) : recsOk k cs = true ↔ ∀ r ∈ cs, r.length = k := by
  simp [recsOk]

theorem communities (h : Ctx cfg c m) : m.communities = (expected cfg c).communities := by
  simp only [expected, Msg.communities, Msg.comms, h.typedValue]
  cases hf : c.find 8 with
  | none => simp [TContent.recsOf, TContent.typedOf, hf, commObs]
  | some a =>
    obtain ⟨fl, t, rfl, hc, hw, _⟩ := h.find_typed hf (by decide) (by decide) (by decide)
    cases t with
    | communities l =>
      have hv : enc32 l.cs = (l.cs.map be32).flatten := by simp [enc32, List.flatMap_def]
      have hr := commItems_recs 4 (by omega) (l.cs.map be32) (by simp)
      simp [TContent.recsOf, TContent.typedOf, hf, AttrC.ownedT, AttrC.valueD, AttrC.value, Upd.typedValue,
        composeValue, commObs, hv, hr]
    | _ => simp [TypedAttr.code] at hc

theorem extCommunities (h : Ctx cfg c m) : m.extCommunities = (expected cfg c).extCommunities := by
  simp only [expected, Msg.extCommunities, Msg.comms, h.typedValue]
  cases hf : c.find 16 with
  | none => simp [TContent.recsOf, TContent.typedOf, hf, commObs]
  | some a =>
    obtain ⟨fl, t, rfl, hc, hw, _⟩ := h.find_typed hf (by decide) (by decide) (by decide)
    cases t with
    | extCommunities cs =>
      have hr := commItems_recs 8 (by omega) cs ((recsOk_iff 8 cs).mp (by simpa [WfAttrW] using hw))
      simp [TContent.recsOf, TContent.typedOf, hf, AttrC.ownedT, AttrC.valueD, AttrC.value, Upd.typedValue,
        composeValue, commObs, hr]
    | _ => simp [TypedAttr.code] at hc

theorem ipv6ExtCommunities (h : Ctx cfg c m) : m.ipv6ExtCommunities = (expected cfg c).ipv6ExtCommunities := by
  simp only [expected, Msg.ipv6ExtCommunities, Msg.comms, h.typedValue]
  cases hf : c.find 25 with
  | none => simp [TContent.recsOf, TContent.typedOf, hf, commObs]
  | some a =>
    obtain ⟨fl, t, rfl, hc, hw, _⟩ := h.find_typed hf (by decide) (by decide) (by decide)
    cases t with
    | ipv6ExtCommunities cs =>
      have hr := commItems_recs 20 (by omega) cs ((recsOk_iff 20 cs).mp (by simpa [WfAttrW] using hw))
      simp [TContent.recsOf, TContent.typedOf, hf, AttrC.ownedT, AttrC.valueD, AttrC.value, Upd.typedValue,
        composeValue, commObs, hr]
    | _ => simp [TypedAttr.code] at hc

theorem largeCommunities (h : Ctx cfg c m) : m.largeCommunities = (expected cfg c).largeCommunities := by
  simp only [expected, Msg.largeCommunities, Msg.comms, h.typedValue]
  cases hf : c.find 32 with
  | none => simp [TContent.recsOf, TContent.typedOf, hf, commObs]
  | some a =>
    obtain ⟨fl, t, rfl, hc, hw, _⟩ := h.find_typed hf (by decide) (by decide) (by decide)
    cases t with
    | largeCommunities cs =>
      have hr := commItems_recs 12 (by omega) cs ((recsOk_iff 12 cs).mp (by simpa [WfAttrW] using hw))
      simp [TContent.recsOf, TContent.typedOf, hf, AttrC.ownedT, AttrC.valueD, AttrC.value, Upd.typedValue,
        composeValue, commObs, hr]
    | _ => simp [TypedAttr.code] at hc

theorem collectResult_map_ok {α : Type} (l : List α) : collectResult (l.map Outcome.ok) = .ok l :=
  (collectResult_ok _ l).mpr rfl

theorem commPart_obs (x : Option (List Bytes)) : commPart (commObs x) = (optList x).map Outcome.ok := by
  cases x <;> simp [commPart, commObs, optList, okItems]

/-- `all_communities()`: standard, extended, IPv6 extended, large – in this order -/
theorem allCommunities (h : Ctx cfg c m) : m.allCommunities = (expected cfg c).allCommunities := by
  have e1 := h.communities
  have e2 := h.extCommunities
  have e3 := h.ipv6ExtCommunities
  have e4 := h.largeCommunities
  simp only [expected] at e1 e2 e3 e4
  simp only [expected, Msg.allCommunities, Msg.allItems, e1, e2, e3, e4, commPart_obs, ← List.map_append,
    collectResult_map_ok]
  generalize optList (c.recsOf 8) ++ optList (c.recsOf 16) ++ optList (c.recsOf 25) ++ optList (c.recsOf 32) = all
  cases all <;> simp

/-! ### AS paths -/

theorem check_of_pathValid {w : Bool} {v : Bytes} (h : pathValid w v = true) : check w v = .ok () := by
  unfold pathValid at h
  cases hcv : check w v with
  | ok u => cases u; rfl
  | err => simp [hcv] at h
  | panic => simp [hcv] at h

theorem asPathOf_of_parsePath {w : Bool} {v : Bytes} {H : HopPath} (hc : check w v = .ok ())
    (hp : parsePath w v = .ok H) : asPathOf w v = .ok (v, H) := by
  simp only [parsePath, hc] at hp
  simp [asPathOf, hc, hp]

theorem aspath (h : Ctx cfg c m) : m.aspath = (expected cfg c).aspath := by
  simp only [expected, Msg.aspath, h.typedValue, h.four]
  cases hf : c.find 2 with
  | none => simp
  | some a =>
    obtain ⟨hm, hc⟩ := find_mem hf
    have hs := (attr_spec cfg a (h.kind a hm)).2
    rw [hc] at hs
    cases ho : a.ownedT cfg with
    | none => simp [ho, validate] at hs
    | some T =>
      simp only [ho] at hs
      obtain ⟨hv, hp⟩ := hs
      have hchk := check_of_pathValid (w := cfg.four) (v := a.valueD cfg) (by simpa [validate] using hv)
      simp only [parseValue] at hp
      simp only [show (2 : Nat) ≠ 1 by decide, ↓reduceIte] at hp
      cases hpp : parsePath cfg.four (a.valueD cfg) with
      | ok H =>
        simp only [hpp, Outcome.ok.injEq] at hp
        subst hp
        simp [ho, AttrC.hopsT, asPathOf_of_parsePath hchk hpp, mapO]
      | err => simp [hpp] at hp
      | panic => simp [hpp] at hp

theorem as4path (h : Ctx cfg c m) : m.as4path = (expected cfg c).as4path := by
  simp only [expected, Msg.as4path, h.typedValue]
  cases hf : c.find 17 with
  | none => simp
  | some a =>
    obtain ⟨hm, hc⟩ := find_mem hf
    have hs := (attr_spec cfg a (h.kind a hm)).2
    rw [hc] at hs
    cases ho : a.ownedT cfg with
    | none => simp [ho, validate] at hs
    | some T =>
      simp only [ho] at hs
      obtain ⟨hv, hp⟩ := hs
      have hchk := check_of_pathValid (w := true) (v := a.valueD cfg) (by simpa [validate] using hv)
      simp only [parseValue] at hp
      simp only [show (17 : Nat) ≠ 1 by decide, show (17 : Nat) ≠ 2 by decide, show (17 : Nat) ≠ 3 by decide,
        show (17 : Nat) ≠ 4 by decide, show (17 : Nat) ≠ 5 by decide, show (17 : Nat) ≠ 6 by decide,
        show (17 : Nat) ≠ 7 by decide, show (17 : Nat) ≠ 8 by decide, show (17 : Nat) ≠ 9 by decide,
        show (17 : Nat) ≠ 10 by decide, show (17 : Nat) ≠ 16 by decide, ↓reduceIte] at hp
      cases hpp : parsePath true (a.valueD cfg) with
      | ok H =>
        simp only [hpp, Outcome.ok.injEq] at hp
        subst hp
        simp [ho, AttrC.hopsT, asPathOf_of_parsePath hchk hpp, mapO]
      | err => simp [hpp] at hp
      | panic => simp [hpp] at hp

/-! ### the attribute sequence and `to_owned()` -/

theorem pathAttrs (h : Ctx cfg c m) : m.pathAttributes = (expected cfg c).attrs := by
  simp only [expected, h.pa, okItems, TContent.raws, List.map_map, Prod.mk.injEq, and_true]
  apply List.map_congr_left
  intro a ha
  simp [reportAttr, (attr_reported cfg a (h.kind a ha)).1]

theorem owned (h : Ctx cfg c m) :
    m.pathAttributes.1.map (ownedOf m.ppi.four) = (expected cfg c).owned := by
  rw [h.pathAttrs]
  simp only [expected, okItems, List.map_map, h.four]
  apply List.map_congr_left
  intro a ha
  simp [ownedOf, (attr_reported cfg a (h.kind a ha)).2]

end Ctx

end Rc.Upd
