/-
Lemmas about the AS path model (Rc/Model/AsPath.lean): wire encoders of
segment lists, parse-of-encode and encode-of-parse, the segment list the
compose loop emits.  Reused by C13 and by the AS_PATH / AS4_PATH attributes
(C04) and the UPDATE-level properties.
-/
import Rc.Model.AsPath

namespace Rc.AsPath
open Rc

/-! ### ASN lists on the wire -/

theorem be32_eq (a b c d : UInt8) :
    be32 (a.toNat * 16777216 + b.toNat * 65536 + c.toNat * 256 + d.toNat) = [a, b, c, d] := by
  have := a.toNat_lt; have := b.toNat_lt; have := c.toNat_lt; have := d.toNat_lt
  simp only [be32, List.cons.injEq, and_true]
  refine ⟨?_, ?_, ?_, ?_⟩ <;> apply UInt8.toNat_inj.mp <;> simp [UInt8.toNat_ofNat'] <;> omega

theorem be16_eq (a b : UInt8) : be16 (a.toNat * 256 + b.toNat) = [a, b] := by
  have := a.toNat_lt; have := b.toNat_lt
  simp only [be16, List.cons.injEq, and_true]
  refine ⟨?_, ?_⟩ <;> apply UInt8.toNat_inj.mp <;> simp [UInt8.toNat_ofNat'] <;> omega

@[simp] theorem enc32_nil : enc32 [] = [] := rfl
@[simp] theorem enc16_nil : enc16 [] = [] := rfl
@[simp] theorem enc32_cons (a : Nat) (r : List Nat) : enc32 (a :: r) = be32 a ++ enc32 r := by
  simp [enc32]
@[simp] theorem enc16_cons (a : Nat) (r : List Nat) : enc16 (a :: r) = be16 a ++ enc16 r := by
  simp [enc16]
theorem enc32_append (a b : List Nat) : enc32 (a ++ b) = enc32 a ++ enc32 b := by simp [enc32]
theorem enc16_append (a b : List Nat) : enc16 (a ++ b) = enc16 a ++ enc16 b := by simp [enc16]

@[simp] theorem enc32_length (as : List Nat) : (enc32 as).length = as.length * 4 := by
  induction as with
  | nil => rfl
  | cons a r ih => simp [ih]; omega

@[simp] theorem enc16_length (as : List Nat) : (enc16 as).length = as.length * 2 := by
  induction as with
  | nil => rfl
  | cons a r ih => simp [ih]; omega

theorem dec32_enc32 (as : List Nat) (h : ∀ a ∈ as, a < 4294967296) : dec32 (enc32 as) = as := by
  induction as with
  | nil => rfl
  | cons a r ih =>
    have ha := h a (by simp)
    have := ih (fun x hx => h x (by simp [hx]))
    simp only [enc32_cons, be32, List.cons_append, List.nil_append, dec32, this, List.cons.injEq, and_true]
    simp [UInt8.toNat_ofNat']; omega

theorem dec16_enc16 (as : List Nat) (h : ∀ a ∈ as, a < 65536) : dec16 (enc16 as) = as := by
  induction as with
  | nil => rfl
  | cons a r ih =>
    have ha := h a (by simp)
    have := ih (fun x hx => h x (by simp [hx]))
    simp only [enc16_cons, be16, List.cons_append, List.nil_append, dec16, this, List.cons.injEq, and_true]
    simp [UInt8.toNat_ofNat']; omega

theorem enc32_dec32 : ∀ (n : Nat) (v : Bytes), v.length = n * 4 →
    enc32 (dec32 v) = v ∧ (dec32 v).length = n ∧ ∀ a ∈ dec32 v, a < 4294967296
  | 0, v, h => by
    have : v = [] := List.eq_nil_of_length_eq_zero (by omega)
    subst this; simp [dec32]
  | n + 1, v, h => by
    match v, h with
    | a :: b :: c :: d :: r, h =>
      have hr : r.length = n * 4 := by simp at h; omega
      obtain ⟨h1, h2, h3⟩ := enc32_dec32 n r hr
      have := a.toNat_lt; have := b.toNat_lt; have := c.toNat_lt; have := d.toNat_lt
      refine ⟨?_, ?_, ?_⟩
      · simp only [dec32, enc32_cons, be32_eq, h1]; rfl
      · simp [dec32, h2]
      · intro x hx
        simp only [dec32, List.mem_cons] at hx
        rcases hx with rfl | hx
        · omega
        · exact h3 x hx
    | [], h | [_], h | [_, _], h | [_, _, _], h =>
      exact absurd h (by simp only [List.length_cons, List.length_nil]; omega)

theorem enc16_dec16 : ∀ (n : Nat) (v : Bytes), v.length = n * 2 →
    enc16 (dec16 v) = v ∧ (dec16 v).length = n ∧ ∀ a ∈ dec16 v, a < 65536
  | 0, v, h => by
    have : v = [] := List.eq_nil_of_length_eq_zero (by omega)
    subst this; simp [dec16]
  | n + 1, v, h => by
    match v, h with
    | a :: b :: r, h =>
      have hr : r.length = n * 2 := by simp at h; omega
      obtain ⟨h1, h2, h3⟩ := enc16_dec16 n r hr
      have := a.toNat_lt; have := b.toNat_lt
      refine ⟨?_, ?_, ?_⟩
      · simp only [dec16, enc16_cons, be16_eq, h1]; rfl
      · simp [dec16, h2]
      · intro x hx
        simp only [dec16, List.mem_cons] at hx
        rcases hx with rfl | hx
        · omega
        · exact h3 x hx
    | [], h | [_], h =>
      exact absurd h (by simp only [List.length_cons, List.length_nil]; omega)

/-! ### segment lists on the wire -/

def asnBound (four : Bool) : Nat := if four then 4294967296 else 65536

def encAsnsW (four : Bool) (as : List Nat) : Bytes := if four then enc32 as else enc16 as

/-- RFC 4271 4.3 path segment: type, count, ASNs of the given width -/
def encSeg (four : Bool) (s : Seg) : Bytes :=
  UInt8.ofNat s.ty :: UInt8.ofNat s.asns.length :: encAsnsW four s.asns

def encSegs (four : Bool) (ss : List Seg) : Bytes := ss.flatMap (encSeg four)

/-- a segment that has a wire form in the given width -/
def Seg.wireOk (four : Bool) (s : Seg) : Bool :=
  decide (1 ≤ s.ty) && decide (s.ty ≤ 4) && decide (s.asns.length ≤ 255) &&
    s.asns.all (fun a => decide (a < asnBound four))

def Seg.setFour (four : Bool) (s : Seg) : Seg := { s with four := four }

theorem Seg.wireOk_iff {four : Bool} {s : Seg} : s.wireOk four = true ↔
    1 ≤ s.ty ∧ s.ty ≤ 4 ∧ s.asns.length ≤ 255 ∧ ∀ a ∈ s.asns, a < asnBound four := by
  simp [Seg.wireOk, and_assoc]

@[simp] theorem encSegs_nil (four : Bool) : encSegs four [] = [] := rfl
@[simp] theorem encSegs_cons (four : Bool) (s : Seg) (ss : List Seg) :
    encSegs four (s :: ss) = encSeg four s ++ encSegs four ss := by simp [encSegs]
theorem encSegs_append (four : Bool) (a b : List Seg) :
    encSegs four (a ++ b) = encSegs four a ++ encSegs four b := by simp [encSegs]

theorem encAsnsW_length (four : Bool) (as : List Nat) :
    (encAsnsW four as).length = as.length * asnSize four := by
  cases four <;> simp [encAsnsW, asnSize]

theorem decAsns_encAsnsW (four : Bool) (as : List Nat) (h : ∀ a ∈ as, a < asnBound four) :
    decAsns four (encAsnsW four as) = as := by
  cases four
  · simpa [decAsns, encAsnsW] using dec16_enc16 as (by simpa [asnBound] using h)
  · simpa [decAsns, encAsnsW] using dec32_enc32 as (by simpa [asnBound] using h)

theorem encAsnsW_decAsns (four : Bool) (n : Nat) (v : Bytes) (h : v.length = n * asnSize four) :
    encAsnsW four (decAsns four v) = v ∧ (decAsns four v).length = n ∧
      ∀ a ∈ decAsns four v, a < asnBound four := by
  cases four
  · simpa [decAsns, encAsnsW, asnBound] using enc16_dec16 n v (by simpa [asnSize] using h)
  · simpa [decAsns, encAsnsW, asnBound] using enc32_dec32 n v (by simpa [asnSize] using h)

theorem ofNat_toNat_small {n : Nat} (h : n ≤ 255) : (UInt8.ofNat n).toNat = n := by
  simp [UInt8.toNat_ofNat']; omega

theorem segTypeOk_ofNat {t : Nat} (h1 : 1 ≤ t) (h4 : t ≤ 4) : segTypeOk (UInt8.ofNat t) = true := by
  simp [segTypeOk, ofNat_toNat_small (show t ≤ 255 by omega), h1, h4]

/-- parse of encode: `segments` reads back exactly the segment list. -/
theorem segmentsF_enc (four : Bool) : ∀ (ss : List Seg) (f : Nat),
    (∀ s ∈ ss, s.wireOk four = true) → (encSegs four ss).length ≤ f →
    segmentsF four f (encSegs four ss) = .ok (ss.map (Seg.setFour four))
  | [], f, _, _ => by cases f <;> simp [segmentsF]
  | s :: ss, f, hw, hf => by
    obtain ⟨h1, h4, hl, ha⟩ := Seg.wireOk_iff.mp (hw s (by simp))
    have hlen : (encSegs four (s :: ss)).length =
        2 + s.asns.length * asnSize four + (encSegs four ss).length := by
      simp [encSeg, encAsnsW_length]; omega
    match f, hf with
    | f + 1, hf =>
      have ih := segmentsF_enc four ss f (fun x hx => hw x (by simp [hx])) (by omega)
      have ht : takeN ((UInt8.ofNat s.asns.length).toNat * asnSize four)
          (encAsnsW four s.asns ++ encSegs four ss) = some (encAsnsW four s.asns, encSegs four ss) := by
        rw [ofNat_toNat_small hl, ← encAsnsW_length]; exact takeN_append _ _
      simp only [encSegs_cons, encSeg, List.cons_append, segmentsF, segTypeOk_ofNat h1 h4,
        Bool.not_true, Bool.false_eq_true, if_false, ht, ih, decAsns_encAsnsW four _ ha,
        ofNat_toNat_small (show s.ty ≤ 255 by omega), List.map_cons, Seg.setFour]

theorem checkF_enc (four : Bool) : ∀ (ss : List Seg) (f : Nat),
    (∀ s ∈ ss, s.wireOk four = true) → (encSegs four ss).length ≤ f →
    checkF four f (encSegs four ss) = .ok ()
  | [], f, _, _ => by cases f <;> simp [checkF]
  | s :: ss, f, hw, hf => by
    obtain ⟨h1, h4, hl, ha⟩ := Seg.wireOk_iff.mp (hw s (by simp))
    have hlen : (encSegs four (s :: ss)).length =
        2 + s.asns.length * asnSize four + (encSegs four ss).length := by
      simp [encSeg, encAsnsW_length]; omega
    match f, hf with
    | f + 1, hf =>
      have ih := checkF_enc four ss f (fun x hx => hw x (by simp [hx])) (by omega)
      have ht : takeN ((UInt8.ofNat s.asns.length).toNat * asnSize four)
          (encAsnsW four s.asns ++ encSegs four ss) = some (encAsnsW four s.asns, encSegs four ss) := by
        rw [ofNat_toNat_small hl, ← encAsnsW_length]; exact takeN_append _ _
      simp only [encSegs_cons, encSeg, List.cons_append, checkF, segTypeOk_ofNat h1 h4,
        Bool.not_true, Bool.false_eq_true, if_false, ht, ih]

theorem segments_enc (four : Bool) (ss : List Seg) (hw : ∀ s ∈ ss, s.wireOk four = true) :
    segments four (encSegs four ss) = .ok (ss.map (Seg.setFour four)) :=
  segmentsF_enc four ss _ hw (Nat.le_refl _)

theorem check_enc (four : Bool) (ss : List Seg) (hw : ∀ s ∈ ss, s.wireOk four = true) :
    check four (encSegs four ss) = .ok () :=
  checkF_enc four ss _ hw (Nat.le_refl _)

/-- encode of parse: every byte string `check` accepts is the encoding of a
list of wire-valid segments of that width. -/
theorem checkF_sound (four : Bool) : ∀ (f : Nat) (bs : Bytes), bs.length ≤ f →
    checkF four f bs = .ok () →
    ∃ ss : List Seg, (∀ s ∈ ss, s.wireOk four = true ∧ s.four = four) ∧ bs = encSegs four ss
  | 0, bs, hf, _ => by
    have : bs = [] := List.eq_nil_of_length_eq_zero (by omega)
    exact ⟨[], by simp, by simp [this]⟩
  | f + 1, [], _, _ => ⟨[], by simp, by simp⟩
  | f + 1, [t], _, h => by
    simp only [checkF] at h
    split at h <;> simp at h
  | f + 1, t :: n :: bs, hf, h => by
    simp only [checkF] at h
    split at h
    · simp at h
    · rename_i hty
      cases ht : takeN (n.toNat * asnSize four) bs with
      | none => simp [ht] at h
      | some p =>
        obtain ⟨v, r⟩ := p
        simp only [ht] at h
        obtain ⟨hvl, hbs⟩ := takeN_length ht
        have hrl : r.length ≤ f := by
          have : bs.length = v.length + r.length := by rw [hbs]; simp
          simp at hf; omega
        obtain ⟨ss, hss, hr⟩ := checkF_sound four f r hrl h
        obtain ⟨e1, e2, e3⟩ := encAsnsW_decAsns four n.toNat v hvl
        have hn := n.toNat_lt
        have htn := t.toNat_lt
        simp [segTypeOk] at hty
        refine ⟨⟨t.toNat, four, decAsns four v⟩ :: ss, ?_, ?_⟩
        · intro s hs
          simp only [List.mem_cons] at hs
          rcases hs with rfl | hs
          · refine ⟨Seg.wireOk_iff.mpr ⟨by have := hty.1; show 1 ≤ t.toNat; omega, hty.2, by simp only [e2]; omega, e3⟩, rfl⟩
          · exact hss s hs
        · simp only [encSegs_cons, encSeg, e1, e2, ← hr, hbs, List.cons_append]
          simp

theorem check_sound (four : Bool) (bs : Bytes) (h : check four bs = .ok ()) :
    ∃ ss : List Seg, (∀ s ∈ ss, s.wireOk four = true ∧ s.four = four) ∧ bs = encSegs four ss :=
  checkF_sound four _ bs (Nat.le_refl _) h

/-! ### the segment list the compose loop emits -/

/-- sequential composition of two fallible writes -/
def app (a b : Outcome Bytes) : Outcome Bytes :=
  match a with
  | .ok x =>
    match b with
    | .ok y => .ok (x ++ y)
    | .err => .err
    | .panic => .panic
  | .err => .err
  | .panic => .panic

@[simp] theorem app_ok_ok (x y : Bytes) : app (.ok x) (.ok y) = .ok (x ++ y) := rfl
@[simp] theorem app_nil (b : Outcome Bytes) : app (.ok []) b = b := by cases b <;> rfl
@[simp] theorem app_nil_right (a : Outcome Bytes) : app a (.ok []) = a := by cases a <;> simp [app]
theorem app_assoc (a b c : Outcome Bytes) : app (app a b) c = app a (app b c) := by
  cases a <;> cases b <;> cases c <;> simp [app]

/-- `Segment::compose` / `compose_16` of each segment in order -/
def composeSegs (wide : Bool) : List Seg → Outcome Bytes
  | [] => .ok []
  | s :: r => app (s.compose wide) (composeSegs wide r)

theorem composeSegs_append (wide : Bool) (a b : List Seg) :
    composeSegs wide (a ++ b) = app (composeSegs wide a) (composeSegs wide b) := by
  induction a with
  | nil => simp [composeSegs]
  | cons s r ih => simp [composeSegs, ih, app_assoc]

def mkSeq (c : List Nat) : Seg := ⟨2, true, c⟩

/-- the AS_SEQUENCE segments written for one run of `Hop::Asn`s -/
def runSegs (run : List Nat) : List Seg :=
  if run.isEmpty then [] else
    (if (run.take (run.length % 255)).isEmpty then [] else [mkSeq (run.take (run.length % 255))]) ++
      (chunksF (run.drop (run.length % 255)).length (run.drop (run.length % 255))).map mkSeq

/-- the segments written by `composeLoop`, in order -/
def segsLoop : Nat → List Hop → List Seg
  | 0, _ => []
  | f + 1, hops =>
    if hops.isEmpty then [] else
      runSegs (spanAsns hops).1 ++
        match (spanAsns hops).2 with
        | [] => []
        | .asn _ :: _ => []
        | .seg s :: rest => s :: segsLoop f rest

theorem seqChunk_eq (wide : Bool) (c : List Nat) : seqChunk wide c = (mkSeq c).compose wide := by
  simp only [seqChunk, Seg.compose, mkSeq, Bool.not_true, Bool.and_false, Bool.false_eq_true,
    if_false]
  cases u8Expect c.length <;> rfl

theorem emitChunks_eq (wide : Bool) (cs : List (List Nat)) :
    emitChunks wide cs = composeSegs wide (cs.map mkSeq) := by
  induction cs with
  | nil => rfl
  | cons c r ih =>
    simp only [emitChunks, List.map_cons, composeSegs, ← ih, seqChunk_eq]
    cases (mkSeq c).compose wide <;> cases emitChunks wide r <;> rfl

theorem emitRun_eq (wide : Bool) (run : List Nat) :
    emitRun wide run = composeSegs wide (runSegs run) := by
  unfold emitRun runSegs
  by_cases he : run.isEmpty = true
  · simp [he, composeSegs]
  · simp only [he, Bool.false_eq_true, if_false, composeSegs_append, ← emitChunks_eq]
    generalize emitChunks wide _ = e
    by_cases hh : (run.take (run.length % 255)).isEmpty = true
    · simp only [hh, if_true, composeSegs, app_nil]
      cases e <;> rfl
    · simp only [hh, Bool.false_eq_true, if_false, composeSegs, app_nil_right, seqChunk_eq]
      cases (mkSeq _).compose wide <;> cases e <;> rfl

/-- the run/rest split: `hops = run ++ rest` and `rest` does not start with an ASN -/
theorem spanAsns_spec : ∀ (hops : List Hop),
    hops = (spanAsns hops).1.map Hop.asn ++ (spanAsns hops).2 ∧
      ∀ n r, (spanAsns hops).2 ≠ Hop.asn n :: r
  | [] => by simp [spanAsns]
  | .seg s :: r => by simp [spanAsns]
  | .asn n :: r => by
    obtain ⟨h1, h2⟩ := spanAsns_spec r
    simp only [spanAsns, List.map_cons, List.cons_append, List.cons.injEq, true_and]
    exact ⟨h1, h2⟩

theorem composeLoop_eq (wide : Bool) : ∀ (f : Nat) (hops : List Hop),
    composeLoop wide f hops = composeSegs wide (segsLoop f hops)
  | 0, _ => rfl
  | f + 1, hops => by
    unfold composeLoop segsLoop
    by_cases he : hops.isEmpty = true
    · simp [he, composeSegs]
    · simp only [he, Bool.false_eq_true, if_false]
      rw [composeSegs_append, ← emitRun_eq]
      have hs := (spanAsns_spec hops).2
      generalize (spanAsns hops).2 = tl at hs
      generalize emitRun wide (spanAsns hops).1 = e
      match tl, hs with
      | [], _ => cases e <;> simp [composeSegs, app]
      | .asn n :: r, hs => exact absurd rfl (hs n r)
      | .seg s :: rest, _ =>
        simp only [composeSegs, ← composeLoop_eq wide f rest]
        cases e <;> cases s.compose wide <;> cases composeLoop wide f rest <;> rfl

/-! ### what `Segment::compose` writes -/

theorem encSeg_setFour (w b : Bool) (s : Seg) : encSeg w (s.setFour b) = encSeg w s := rfl

theorem encSegs_map_setFour (w b : Bool) (ss : List Seg) :
    encSegs w (ss.map (Seg.setFour b)) = encSegs w ss := by
  induction ss with
  | nil => rfl
  | cons s r ih => simp [ih, encSeg_setFour]

theorem try16_eq (as : List Nat) :
    try16 as = if as.all (fun a => decide (a ≤ 65535)) = true then .ok (enc16 as) else .err := by
  induction as with
  | nil => rfl
  | cons a r ih =>
    simp only [try16, ih, List.all_cons, Bool.and_eq_true, decide_eq_true_eq, enc16_cons]
    by_cases ha : a ≤ 65535 <;> by_cases hr : (r.all fun a => decide (a ≤ 65535)) = true <;> simp [ha, hr]

theorem Seg.compose_wide (s : Seg) (hl : s.asns.length ≤ 255) :
    s.compose true = .ok (encSeg true s) := by
  simp [Seg.compose, u8Expect, hl, encAsns, encSeg, encAsnsW]

theorem Seg.compose_narrow (s : Seg) (hl : s.asns.length ≤ 255)
    (h2 : s.four = false → ∀ a ∈ s.asns, a < 65536) :
    s.compose false =
      if s.asns.all (fun a => decide (a ≤ 65535)) = true then .ok (encSeg false s) else .err := by
  cases hf : s.four
  · have : (s.asns.all fun a => decide (a ≤ 65535)) = true := by
      simp only [List.all_eq_true, decide_eq_true_eq]
      intro a ha; have := h2 hf a ha; omega
    simp [Seg.compose, u8Expect, hl, hf, this, encSeg, encAsnsW]
  · simp only [Seg.compose, u8Expect, hl, if_true, hf, Bool.not_false, Bool.not_true, Bool.and_false,
      Bool.false_eq_true, if_false, encAsns, try16_eq]
    by_cases hs : (s.asns.all fun a => decide (a ≤ 65535)) = true
    · simp only [hs, if_true, encSeg, encAsnsW]; rfl
    · simp only [hs, Bool.false_eq_true, if_false]

def segsSmall (ss : List Seg) : Bool := ss.all fun s => s.asns.all fun a => decide (a ≤ 65535)

theorem composeSegs_wide : ∀ (ss : List Seg), (∀ s ∈ ss, s.asns.length ≤ 255) →
    composeSegs true ss = .ok (encSegs true ss)
  | [], _ => rfl
  | s :: r, h => by
    simp [composeSegs, Seg.compose_wide s (h s (by simp)),
      composeSegs_wide r (fun x hx => h x (by simp [hx]))]

theorem composeSegs_narrow : ∀ (ss : List Seg), (∀ s ∈ ss, s.asns.length ≤ 255) →
    (∀ s ∈ ss, s.four = false → ∀ a ∈ s.asns, a < 65536) →
    composeSegs false ss = if segsSmall ss = true then .ok (encSegs false ss) else .err
  | [], _, _ => rfl
  | s :: r, h, h2 => by
    have ih := composeSegs_narrow r (fun x hx => h x (by simp [hx])) (fun x hx => h2 x (by simp [hx]))
    simp only [composeSegs, Seg.compose_narrow s (h s (by simp)) (h2 s (by simp)), ih, segsSmall,
      List.all_cons, Bool.and_eq_true, encSegs_cons]
    by_cases h1 : (s.asns.all fun a => decide (a ≤ 65535)) = true <;>
      by_cases h3 : (r.all fun s => s.asns.all fun a => decide (a ≤ 65535)) = true <;>
      simp [h1, h3, app]

/-! ### chunks and runs -/

theorem chunksF_spec : ∀ (f : Nat) (l : List Nat), l.length ≤ f →
    (chunksF f l).flatten = l ∧ ∀ c ∈ chunksF f l, c ≠ [] ∧ c.length ≤ 255
  | 0, l, h => by
    have : l = [] := List.eq_nil_of_length_eq_zero (by omega)
    simp [chunksF, this]
  | f + 1, l, h => by
    unfold chunksF
    by_cases he : l.isEmpty = true
    · have : l = [] := by simpa using he
      simp [this]
    · have hne : l ≠ [] := by simpa using he
      have hpos : 0 < l.length := List.length_pos_iff.mpr hne
      obtain ⟨ih1, ih2⟩ := chunksF_spec f (l.drop 255) (by rw [List.length_drop]; omega)
      simp only [he, Bool.false_eq_true, if_false, List.flatten_cons, ih1, List.take_append_drop,
        List.mem_cons, true_and]
      intro c hc
      rcases hc with rfl | hc
      · constructor
        · intro h0
          have := congrArg List.length h0
          rw [List.length_take] at this
          simp only [List.length_nil] at this; omega
        · rw [List.length_take]; omega
      · exact ih2 c hc

/-- a well-formed AS_SEQUENCE segment as the loop writes it -/
def Seg.isRunSeg (s : Seg) : Prop := s.ty = 2 ∧ s.four = true ∧ s.asns ≠ [] ∧ s.asns.length ≤ 255

theorem runSegs_spec (run : List Nat) :
    (∀ s ∈ runSegs run, s.isRunSeg) ∧ (runSegs run).flatMap (·.asns) = run := by
  unfold runSegs
  by_cases he : run.isEmpty = true
  · have : run = [] := by simpa using he
    simp [this]
  · simp only [he, Bool.false_eq_true, if_false]
    obtain ⟨c1, c2⟩ := chunksF_spec (run.drop (run.length % 255)).length (run.drop (run.length % 255))
      (Nat.le_refl _)
    have hflat : ∀ cs : List (List Nat), (cs.map mkSeq).flatMap (·.asns) = cs.flatten := by
      intro cs; induction cs with
      | nil => rfl
      | cons c r ih => simp [mkSeq, ih]
    constructor
    · intro s hs
      simp only [List.mem_append, List.mem_map] at hs
      rcases hs with hs | ⟨c, hc, rfl⟩
      · by_cases hh : (run.take (run.length % 255)).isEmpty = true
        · simp [hh] at hs
        · simp only [hh, Bool.false_eq_true, if_false, List.mem_singleton] at hs
          subst hs
          refine ⟨rfl, rfl, fun h0 => hh (by simp only [mkSeq] at h0; simp [h0]), ?_⟩
          simp only [mkSeq, List.length_take]
          have := Nat.mod_lt run.length (show 0 < 255 by omega)
          omega
      · exact ⟨rfl, rfl, (c2 c hc).1, (c2 c hc).2⟩
    · rw [List.flatMap_append, hflat, c1]
      by_cases hh : (run.take (run.length % 255)).isEmpty = true
      · have : run.take (run.length % 255) = [] := by simpa using hh
        have h2 := List.take_append_drop (run.length % 255) run
        rw [this] at h2
        simpa [hh] using h2
      · simp [hh, mkSeq]

theorem hopsOfSegs_append (a b : List Seg) : hopsOfSegs (a ++ b) = hopsOfSegs a ++ hopsOfSegs b := by
  simp [hopsOfSegs]

theorem hopsOfSegs_runSegs : ∀ (ss : List Seg), (∀ s ∈ ss, s.isRunSeg) →
    hopsOfSegs ss = (ss.flatMap (·.asns)).map Hop.asn
  | [], _ => rfl
  | s :: r, h => by
    obtain ⟨h1, _, h3, _⟩ := h s (by simp)
    have ih := hopsOfSegs_runSegs r (fun x hx => h x (by simp [hx]))
    simp only [hopsOfSegs] at ih
    simp [hopsOfSegs, hopsOfSeg, h1, h3, ih]

/-! ### the hop paths of the property's quantifier ("over ASNs, AS_SETs and confederation segments")

NOT all the public API can build: a non-empty AS_SEQUENCE held as one
`Hop::Segment` (`From<Vec<Segment>> for HopPath`, `append(Hop::Segment(..))` of
a segment cut out of a wire path) is excluded here and admitted by `WfHopsG`
further down, under which the validity / two-octet / no-panic facts are proved. -/

/-- a `Hop::Segment` as `Segment::new_set / new_confed_sequence /
new_confed_set` build it or as `to_hop_path` yields it (an AS_SEQUENCE-typed
segment hop is then empty); ASNs fit the segment's width; at most 255 ASNs (the
exclusion of K2). -/
def Seg.apiOk (s : Seg) : Bool :=
  (s.ty == 1 || s.ty == 3 || s.ty == 4 || (s.ty == 2 && s.asns.isEmpty)) &&
    decide (s.asns.length ≤ 255) && s.asns.all (fun a => decide (a < asnBound s.four))

def Hop.wf : Hop → Bool
  | .asn n => decide (n < 4294967296)
  | .seg s => s.apiOk

/-- hop path over ASNs, AS_SETs, confederation segments and empty AS_SEQUENCEs
(decidable); narrower than "API-buildable", see `WfHopsG` -/
def WfHops (h : HopPath) : Bool := h.all Hop.wf

/-- the hop with its segment re-read from a four-octet wire path -/
def Hop.norm (four : Bool) : Hop → Hop
  | .asn n => .asn n
  | .seg s => .seg (s.setFour four)

def hopAsns : Hop → List Nat
  | .asn n => [n]
  | .seg s => s.asns

/-- every AS number mentioned in a hop path -/
def asnsOf (h : HopPath) : List Nat := h.flatMap hopAsns

theorem Seg.apiOk_iff {s : Seg} : s.apiOk = true ↔
    (s.ty = 1 ∨ s.ty = 3 ∨ s.ty = 4 ∨ (s.ty = 2 ∧ s.asns = [])) ∧ s.asns.length ≤ 255 ∧
      ∀ a ∈ s.asns, a < asnBound s.four := by
  simp [Seg.apiOk, and_assoc, or_assoc]

theorem asnBound_le (four : Bool) : asnBound four ≤ 4294967296 := by
  cases four <;> simp [asnBound]

theorem hopsOfSegs_map_run (b : Bool) (ss : List Seg) (h : ∀ s ∈ ss, s.isRunSeg) :
    ss.map (Seg.setFour b) = ss.map (Seg.setFour b) ∧
      hopsOfSegs (ss.map (Seg.setFour b)) = (ss.flatMap (·.asns)).map Hop.asn := by
  refine ⟨rfl, ?_⟩
  have h' : ∀ s ∈ ss.map (Seg.setFour true), s.isRunSeg := by
    intro s hs
    simp only [List.mem_map] at hs
    obtain ⟨t, ht, rfl⟩ := hs
    obtain ⟨a, _, c, d⟩ := h t ht
    exact ⟨a, rfl, c, d⟩
  induction ss with
  | nil => rfl
  | cons s r ih =>
    obtain ⟨h1, _, h3, _⟩ := h s (by simp)
    have ih := ih (fun x hx => h x (by simp [hx]))
      (fun x hx => h' x (by simp only [List.map_cons, List.mem_cons]; exact Or.inr hx))
    simp only [hopsOfSegs] at ih
    simp [hopsOfSegs, hopsOfSeg, Seg.setFour, h1, h3, ih]

theorem flatMap_hopAsns_run (run : List Nat) : List.flatMap hopAsns (run.map Hop.asn) = run := by
  induction run with
  | nil => rfl
  | cons a r ih => simp [hopAsns, ih]

/-- what the loop emits for a well-formed hop path -/
theorem segsLoop_spec (b : Bool) : ∀ (f : Nat) (h : List Hop), h.length ≤ f → WfHops h = true →
    (∀ s ∈ segsLoop f h, 1 ≤ s.ty ∧ s.ty ≤ 4 ∧ s.asns.length ≤ 255 ∧
        ∀ a ∈ s.asns, a < asnBound s.four) ∧
      hopsOfSegs ((segsLoop f h).map (Seg.setFour b)) = h.map (Hop.norm b) ∧
      (segsLoop f h).flatMap (·.asns) = asnsOf h
  | 0, h, hf, _ => by
    have : h = [] := List.eq_nil_of_length_eq_zero (by omega)
    subst this; simp [segsLoop, hopsOfSegs, asnsOf]
  | f + 1, h, hf, wf => by
    unfold segsLoop
    by_cases he : h.isEmpty = true
    · have : h = [] := by simpa using he
      subst this; simp [hopsOfSegs, asnsOf]
    · simp only [he, Bool.false_eq_true, if_false]
      obtain ⟨hsplit, hns⟩ := spanAsns_spec h
      generalize (spanAsns h).1 = run at *
      generalize (spanAsns h).2 = tl at *
      subst hsplit
      obtain ⟨r1, r2⟩ := runSegs_spec run
      have hrun : ∀ a ∈ run, a < 4294967296 := by
        intro a ha
        have := (List.all_eq_true.mp wf) (Hop.asn a) (by simp [ha])
        simpa [Hop.wf] using this
      have hrs : ∀ s ∈ runSegs run, 1 ≤ s.ty ∧ s.ty ≤ 4 ∧ s.asns.length ≤ 255 ∧
          ∀ a ∈ s.asns, a < asnBound s.four := by
        intro s hs
        obtain ⟨a1, a2, _, a4⟩ := r1 s hs
        refine ⟨by omega, by omega, a4, ?_⟩
        intro a ha
        have : a ∈ (runSegs run).flatMap (·.asns) := List.mem_flatMap.mpr ⟨s, hs, ha⟩
        rw [r2] at this
        simpa [a2, asnBound] using hrun a this
      have hrh := (hopsOfSegs_map_run b (runSegs run) r1).2
      rw [r2] at hrh
      match tl, hns with
      | [], _ =>
        simp only [List.append_nil]
        refine ⟨hrs, ?_, ?_⟩
        · rw [hrh]; simp [Hop.norm]
        · rw [r2]; simp [asnsOf, flatMap_hopAsns_run]
      | .asn n :: r, hns => exact absurd rfl (hns n r)
      | .seg s :: rest, _ =>
        have hlen : rest.length ≤ f := by simp at hf; omega
        have wfr : WfHops rest = true := by
          simp only [WfHops, List.all_append, List.all_cons, Bool.and_eq_true] at wf
          exact wf.2.2
        have wfs : s.apiOk = true := by
          simp only [WfHops, List.all_append, List.all_cons, Bool.and_eq_true] at wf
          exact wf.2.1
        obtain ⟨i1, i2, i3⟩ := segsLoop_spec b f rest hlen wfr
        obtain ⟨s1, s2, s3⟩ := Seg.apiOk_iff.mp wfs
        refine ⟨?_, ?_, ?_⟩
        · intro x hx
          simp only [List.mem_append, List.mem_cons] at hx
          rcases hx with hx | rfl | hx
          · exact hrs x hx
          · exact ⟨by omega, by omega, s2, s3⟩
          · exact i1 x hx
        · simp only [List.map_append, List.map_cons, hopsOfSegs_append, hrh]
          have : hopsOfSegs (s.setFour b :: (segsLoop f rest).map (Seg.setFour b)) =
              Hop.seg (s.setFour b) :: hopsOfSegs ((segsLoop f rest).map (Seg.setFour b)) := by
            have hne : ¬ (s.ty = 2 ∧ s.asns ≠ []) := by
              rintro ⟨e2, ene⟩
              rcases s1 with e | e | e | ⟨_, e⟩
              · omega
              · omega
              · omega
              · exact ene e
            simp [hopsOfSegs, hopsOfSeg, Seg.setFour, hne]
          rw [this, i2]
          simp [Hop.norm]
        · simp only [List.flatMap_append, List.flatMap_cons, r2, i3]
          simp [asnsOf, hopAsns, flatMap_hopAsns_run]

/-! ### every hop path the public API can build (minus K2) -/

/-- any segment hop that has a wire form: type 1..4 (an AS_SEQUENCE-typed segment
hop may hold ASNs: `AsPath::segments()` + `octets_into` + `Hop::Segment`), at
most 255 ASNs, ASNs fit the width -/
def Seg.anyOk (s : Seg) : Bool :=
  decide (1 ≤ s.ty) && decide (s.ty ≤ 4) && decide (s.asns.length ≤ 255) &&
    s.asns.all (fun a => decide (a < asnBound s.four))

def Hop.wfG : Hop → Bool
  | .asn n => decide (n < 4294967296)
  | .seg s => s.anyOk

def WfHopsG (h : HopPath) : Bool := h.all Hop.wfG

/-- the hops a hop denotes: an AS_SEQUENCE-typed segment hop with ASNs is that
many `Hop::Asn`s -/
def Hop.flat (b : Bool) : Hop → List Hop
  | .asn n => [.asn n]
  | .seg s => hopsOfSeg (s.setFour b)

/-- the flat hop sequence of a hop path -/
def flat (b : Bool) (h : HopPath) : List Hop := h.flatMap (Hop.flat b)

theorem Seg.anyOk_iff {s : Seg} : s.anyOk = true ↔
    1 ≤ s.ty ∧ s.ty ≤ 4 ∧ s.asns.length ≤ 255 ∧ ∀ a ∈ s.asns, a < asnBound s.four := by
  simp [Seg.anyOk, and_assoc]

theorem flat_run (b : Bool) (run : List Nat) (tl : HopPath) :
    flat b (run.map Hop.asn ++ tl) = run.map Hop.asn ++ flat b tl := by
  induction run with
  | nil => rfl
  | cons a r ih =>
    simp only [flat, List.map_cons, List.cons_append, List.flatMap_cons, Hop.flat] at ih ⊢
    rw [ih]; rfl

theorem segsLoop_flat (b : Bool) : ∀ (f : Nat) (h : List Hop), h.length ≤ f → WfHopsG h = true →
    (∀ s ∈ segsLoop f h, 1 ≤ s.ty ∧ s.ty ≤ 4 ∧ s.asns.length ≤ 255 ∧
        ∀ a ∈ s.asns, a < asnBound s.four) ∧
      hopsOfSegs ((segsLoop f h).map (Seg.setFour b)) = flat b h
  | 0, h, hf, _ => by
    have : h = [] := List.eq_nil_of_length_eq_zero (by omega)
    subst this; simp [segsLoop, hopsOfSegs, flat]
  | f + 1, h, hf, wf => by
    unfold segsLoop
    by_cases he : h.isEmpty = true
    · have : h = [] := by simpa using he
      subst this; simp [hopsOfSegs, flat]
    · simp only [he, Bool.false_eq_true, if_false]
      obtain ⟨hsplit, hns⟩ := spanAsns_spec h
      generalize (spanAsns h).1 = run at *
      generalize (spanAsns h).2 = tl at *
      subst hsplit
      obtain ⟨r1, r2⟩ := runSegs_spec run
      have hrun : ∀ a ∈ run, a < 4294967296 := by
        intro a ha
        have := (List.all_eq_true.mp wf) (Hop.asn a) (by simp [ha])
        simpa [Hop.wfG] using this
      have hrs : ∀ s ∈ runSegs run, 1 ≤ s.ty ∧ s.ty ≤ 4 ∧ s.asns.length ≤ 255 ∧
          ∀ a ∈ s.asns, a < asnBound s.four := by
        intro s hs
        obtain ⟨a1, a2, _, a4⟩ := r1 s hs
        refine ⟨by omega, by omega, a4, ?_⟩
        intro a ha
        have : a ∈ (runSegs run).flatMap (·.asns) := List.mem_flatMap.mpr ⟨s, hs, ha⟩
        rw [r2] at this
        simpa [a2, asnBound] using hrun a this
      have hrh := (hopsOfSegs_map_run b (runSegs run) r1).2
      rw [r2] at hrh
      rw [flat_run]
      match tl, hns with
      | [], _ =>
        simp only [List.append_nil]
        exact ⟨hrs, by rw [hrh]; simp [flat]⟩
      | .asn n :: r, hns => exact absurd rfl (hns n r)
      | .seg s :: rest, _ =>
        have hlen : rest.length ≤ f := by simp at hf; omega
        have wfr : WfHopsG rest = true := by
          simp only [WfHopsG, List.all_append, List.all_cons, Bool.and_eq_true] at wf
          exact wf.2.2
        have wfs : s.anyOk = true := by
          simp only [WfHopsG, List.all_append, List.all_cons, Bool.and_eq_true] at wf
          exact wf.2.1
        obtain ⟨i1, i2⟩ := segsLoop_flat b f rest hlen wfr
        refine ⟨?_, ?_⟩
        · intro x hx
          simp only [List.mem_append, List.mem_cons] at hx
          rcases hx with hx | rfl | hx
          · exact hrs x hx
          · exact Seg.anyOk_iff.mp wfs
          · exact i1 x hx
        · simp only [List.map_append, List.map_cons, hopsOfSegs_append, hrh]
          have : hopsOfSegs (s.setFour b :: (segsLoop f rest).map (Seg.setFour b)) =
              hopsOfSeg (s.setFour b) ++ hopsOfSegs ((segsLoop f rest).map (Seg.setFour b)) := by
            simp [hopsOfSegs]
          rw [this, i2]
          simp [flat, Hop.flat]

/-- for every hop path whose segment hops have a wire form, `to_as_path`
succeeds, emits a checked path, and the hops read back are the flat hop
sequence of the original. -/
theorem compose_flat (h : HopPath) (wf : WfHopsG h = true) :
    ∃ w : Bytes, compose true h = .ok w ∧ check true w = .ok () ∧
      hops true w = .ok (flat true h) := by
  obtain ⟨s1, s2⟩ := segsLoop_flat true h.length h (Nat.le_refl _) wf
  have hw : ∀ s ∈ segsLoop h.length h, s.wireOk true = true := by
    intro s hs
    obtain ⟨a1, a2, a3, a4⟩ := s1 s hs
    refine Seg.wireOk_iff.mpr ⟨a1, a2, a3, fun a ha => ?_⟩
    have := a4 a ha
    have := asnBound_le s.four
    simp only [asnBound, if_true]; omega
  refine ⟨encSegs true (segsLoop h.length h), ?_, check_enc true _ hw, ?_⟩
  · rw [compose, composeLoop_eq, composeSegs_wide _ (fun s hs => (s1 s hs).2.2.1)]
  · simp [hops, segments_enc true _ hw, s2]

theorem wfHopsG_of_wfHops (h : HopPath) (wf : WfHops h = true) : WfHopsG h = true := by
  simp only [WfHops, WfHopsG, List.all_eq_true] at wf ⊢
  intro x hx
  have := wf x hx
  cases x with
  | asn n => simpa [Hop.wf, Hop.wfG] using this
  | seg s =>
    simp only [Hop.wf, Hop.wfG] at this ⊢
    obtain ⟨a1, a2, a3⟩ := Seg.apiOk_iff.mp this
    exact Seg.anyOk_iff.mpr ⟨by omega, by omega, a2, a3⟩

theorem flat_of_wfHops (b : Bool) : ∀ (h : HopPath), WfHops h = true → flat b h = h.map (Hop.norm b)
  | [], _ => rfl
  | x :: r, wf => by
    simp only [WfHops, List.all_cons, Bool.and_eq_true] at wf
    have ih := flat_of_wfHops b r (by simpa [WfHops] using wf.2)
    simp only [flat, List.flatMap_cons, List.map_cons] at ih ⊢
    rw [ih]
    cases x with
    | asn n => rfl
    | seg s =>
      obtain ⟨s1, _, _⟩ := Seg.apiOk_iff.mp wf.1
      have hne : ¬ (s.ty = 2 ∧ s.asns ≠ []) := by
        rintro ⟨e2, ene⟩
        rcases s1 with e | e | e | ⟨_, e⟩
        · omega
        · omega
        · omega
        · exact ene e
      simp [Hop.flat, Hop.norm, hopsOfSeg, Seg.setFour, hne]

def allSmall (as : List Nat) : Bool := as.all fun a => decide (a ≤ 65535)

theorem segsSmall_iff (ss : List Seg) : segsSmall ss = allSmall (ss.flatMap (·.asns)) := by
  induction ss with
  | nil => rfl
  | cons s r ih =>
    have : segsSmall (s :: r) = ((s.asns.all fun a => decide (a ≤ 65535)) && segsSmall r) := by
      simp [segsSmall]
    rw [this, ih]
    simp [allSmall, List.all_append]

/-- Everything the two compose loops do on a well-formed hop path, in terms
of one segment list `ss`. -/
theorem compose_spec (h : HopPath) (wf : WfHops h = true) :
    ∃ ss : List Seg,
      compose true h = .ok (encSegs true ss) ∧
      compose false h = (if allSmall (asnsOf h) = true then .ok (encSegs false ss) else .err) ∧
      (∀ s ∈ ss, s.wireOk true = true) ∧
      (allSmall (asnsOf h) = true → ∀ s ∈ ss, s.wireOk false = true) ∧
      (∀ b, hopsOfSegs (ss.map (Seg.setFour b)) = h.map (Hop.norm b)) ∧
      ss.flatMap (·.asns) = asnsOf h := by
  refine ⟨segsLoop h.length h, ?_, ?_, ?_, ?_, ?_, ?_⟩
  · have s1 := (segsLoop_spec true h.length h (Nat.le_refl _) wf).1
    rw [compose, composeLoop_eq, composeSegs_wide _ (fun s hs => (s1 s hs).2.2.1)]
  · obtain ⟨s1, _, s3⟩ := segsLoop_spec true h.length h (Nat.le_refl _) wf
    rw [compose, composeLoop_eq, composeSegs_narrow _ (fun s hs => (s1 s hs).2.2.1), segsSmall_iff, s3]
    intro s hs hf a ha
    have := (s1 s hs).2.2.2 a ha
    simpa [hf, asnBound] using this
  · intro s hs
    obtain ⟨a1, a2, a3, a4⟩ := (segsLoop_spec true h.length h (Nat.le_refl _) wf).1 s hs
    refine Seg.wireOk_iff.mpr ⟨a1, a2, a3, fun a ha => ?_⟩
    have := a4 a ha
    have := asnBound_le s.four
    simp only [asnBound, if_true]; omega
  · intro hsm s hs
    obtain ⟨s1, _, s3⟩ := segsLoop_spec true h.length h (Nat.le_refl _) wf
    obtain ⟨a1, a2, a3, _⟩ := s1 s hs
    refine Seg.wireOk_iff.mpr ⟨a1, a2, a3, fun a ha => ?_⟩
    have hm : a ∈ asnsOf h := by rw [← s3]; exact List.mem_flatMap.mpr ⟨s, hs, ha⟩
    have := (List.all_eq_true.mp hsm) a hm
    simp only [decide_eq_true_eq] at this
    simp only [asnBound, Bool.false_eq_true, if_false]; omega
  · intro b
    exact (segsLoop_spec b h.length h (Nat.le_refl _) wf).2.1
  · exact (segsLoop_spec true h.length h (Nat.le_refl _) wf).2.2

/-! ### equality and hashing across widths -/

/-- what a segment means, whatever the width it is stored in -/
def Seg.sem (s : Seg) : Nat × List Nat := (s.ty, s.asns)

@[simp] theorem Seg.sem_setFour (b : Bool) (s : Seg) : (s.setFour b).sem = s.sem := rfl

theorem segEq_eq (s t : Seg) : segEq s t = decide (s.sem = t.sem) := by
  simp only [segEq, Seg.sem, Prod.mk.injEq]
  by_cases h1 : s.ty = t.ty <;> by_cases h2 : s.asns = t.asns <;> simp [h1, h2]

theorem segsEq_eq : ∀ (ss ts : List Seg), segsEq ss ts = decide (ss.map Seg.sem = ts.map Seg.sem)
  | [], [] => by simp [segsEq]
  | [], _ :: _ => by simp [segsEq]
  | _ :: _, [] => by simp [segsEq]
  | s :: ss, t :: ts => by
    simp only [segsEq, segEq_eq, segsEq_eq ss ts, List.map_cons, List.cons.injEq]
    by_cases h1 : s.sem = t.sem <;> simp [h1]

def Seg.hashWrites (s : Seg) : List HW := HW.u8 s.ty :: HW.u8 s.asns.length :: s.asns.map HW.u32

theorem segsHashKey_eq : ∀ (ss : List Seg), (∀ s ∈ ss, s.asns.length ≤ 255) →
    segsHashKey ss = .ok (ss.flatMap Seg.hashWrites)
  | [], _ => rfl
  | s :: r, h => by
    have hl := h s (by simp)
    simp [segsHashKey, Seg.hashKey, u8Expect, hl, segsHashKey_eq r (fun x hx => h x (by simp [hx])),
      Seg.hashWrites, ofNat_toNat_small hl]

theorem hashWrites_sem {s t : Seg} (h : s.sem = t.sem) : s.hashWrites = t.hashWrites := by
  simp only [Seg.sem, Prod.mk.injEq] at h
  simp [Seg.hashWrites, h.1, h.2]

theorem flatMap_hashWrites_sem : ∀ {ss ts : List Seg}, ss.map Seg.sem = ts.map Seg.sem →
    ss.flatMap Seg.hashWrites = ts.flatMap Seg.hashWrites
  | [], [], _ => rfl
  | [], _ :: _, h => by simp at h
  | _ :: _, [], h => by simp at h
  | s :: ss, t :: ts, h => by
    simp only [List.map_cons, List.cons.injEq] at h
    simp [hashWrites_sem h.1, flatMap_hashWrites_sem h.2]

theorem wireOk_false_true {s : Seg} (h : s.wireOk false = true) : s.wireOk true = true := by
  obtain ⟨a, b, c, d⟩ := Seg.wireOk_iff.mp h
  refine Seg.wireOk_iff.mpr ⟨a, b, c, fun x hx => ?_⟩
  have := d x hx
  simp only [asnBound, Bool.false_eq_true, if_false] at this
  simp only [asnBound, if_true]; omega

/-! ### wire view of checked paths; reading back what compose wrote -/

theorem wfHops_hopsOfSegs (four : Bool) : ∀ (ss : List Seg),
    (∀ s ∈ ss, s.wireOk four = true ∧ s.four = four) → WfHops (hopsOfSegs ss) = true
  | [], _ => rfl
  | s :: r, h => by
    obtain ⟨hw, hf⟩ := h s (by simp)
    obtain ⟨a1, a2, a3, a4⟩ := Seg.wireOk_iff.mp hw
    have ih := wfHops_hopsOfSegs four r (fun x hx => h x (by simp [hx]))
    simp only [WfHops, hopsOfSegs, List.flatMap_cons, List.all_append, Bool.and_eq_true] at ih ⊢
    refine ⟨?_, ih⟩
    unfold hopsOfSeg
    split
    · rename_i hc
      simp only [List.all_map, List.all_eq_true, Function.comp, Hop.wf, decide_eq_true_eq]
      intro a ha
      have := a4 a ha
      have := asnBound_le four
      omega
    · rename_i hc
      simp only [List.all_cons, List.all_nil, Bool.and_true, Hop.wf]
      refine Seg.apiOk_iff.mpr ⟨?_, a3, by rw [hf]; exact a4⟩
      by_cases h2 : s.ty = 2
      · right; right; right
        exact ⟨h2, Classical.not_not.mp (fun hne => hc ⟨h2, hne⟩)⟩
      · omega

theorem map_setFour_id (four : Bool) : ∀ (ss : List Seg), (∀ s ∈ ss, s.four = four) →
    ss.map (Seg.setFour four) = ss
  | [], _ => rfl
  | s :: r, h => by
    have := h s (by simp)
    have ih := map_setFour_id four r (fun x hx => h x (by simp [hx]))
    simp only [List.map_cons, ih, List.cons.injEq, and_true]
    cases s; simp_all [Seg.setFour]

/-- a checked wire path, seen as its segment list -/
theorem wire_view (four : Bool) (w : Bytes) (hc : check four w = .ok ()) :
    ∃ ss : List Seg, (∀ s ∈ ss, s.wireOk four = true ∧ s.four = four) ∧ w = encSegs four ss ∧
      segments four w = .ok ss ∧ hops four w = .ok (hopsOfSegs ss) ∧
      toHopPath four w = .ok (hopsOfSegs ss) := by
  obtain ⟨ss, hss, rfl⟩ := check_sound four w hc
  have hseg : segments four (encSegs four ss) = .ok ss := by
    rw [segments_enc four ss (fun s hs => (hss s hs).1), map_setFour_id four ss (fun s hs => (hss s hs).2)]
  refine ⟨ss, hss, rfl, hseg, ?_, ?_⟩
  · simp [hops, hseg]
  · simp [toHopPath, hc, hops, hseg]

theorem flatMap_asns_setFour (b : Bool) (ss : List Seg) :
    (ss.map (Seg.setFour b)).flatMap (·.asns) = ss.flatMap (·.asns) := by
  induction ss with
  | nil => rfl
  | cons s r ih => simp only [List.map_cons, List.flatMap_cons, ih]; rfl

/-- every segment hop is stored four-octet wide (what `Segment::new_*` build) -/
def AllFour (h : HopPath) : Bool :=
  h.all fun x => match x with
    | .asn _ => true
    | .seg s => s.four

theorem map_norm_allFour : ∀ (h : HopPath), AllFour h = true → h.map (Hop.norm true) = h
  | [], _ => rfl
  | .asn n :: r, h4 => by
    have := map_norm_allFour r (by simpa [AllFour] using h4)
    simp [Hop.norm, this]
  | .seg s :: r, h4 => by
    simp only [AllFour, List.all_cons, Bool.and_eq_true] at h4
    have := map_norm_allFour r (by simpa [AllFour] using h4.2)
    have hs : s.setFour true = s := by
      have := h4.1
      cases s; simp_all [Seg.setFour]
    simp [Hop.norm, this, hs]

theorem allFour_hopsOfSegs : ∀ (ss : List Seg), (∀ s ∈ ss, s.four = true) →
    AllFour (hopsOfSegs ss) = true
  | [], _ => rfl
  | s :: r, h => by
    have ih := allFour_hopsOfSegs r (fun x hx => h x (by simp [hx]))
    simp only [AllFour, hopsOfSegs, List.flatMap_cons, List.all_append, Bool.and_eq_true] at ih ⊢
    refine ⟨?_, ih⟩
    unfold hopsOfSeg
    split
    · simp
    · simp [h s (by simp)]

/-- what `compose` does on a well-formed hop path, read back from the wire -/
theorem compose_read (h : HopPath) (wf : WfHops h = true) :
    ∃ (w : Bytes) (ss : List Seg), compose true h = .ok w ∧ check true w = .ok () ∧
      segments true w = .ok ss ∧ (∀ s ∈ ss, s.asns.length ≤ 255 ∧ 1 ≤ s.ty ∧ s.ty ≤ 4) ∧
      ss.flatMap (·.asns) = asnsOf h ∧ hops true w = .ok (h.map (Hop.norm true)) := by
  obtain ⟨ss, c1, _, c3, _, c5, c6⟩ := compose_spec h wf
  have hseg := segments_enc true ss c3
  refine ⟨encSegs true ss, ss.map (Seg.setFour true), c1, check_enc true ss c3, hseg, ?_, ?_, ?_⟩
  · intro s hs
    obtain ⟨t, ht, rfl⟩ := List.mem_map.mp hs
    obtain ⟨a1, a2, a3, _⟩ := Seg.wireOk_iff.mp (c3 t ht)
    exact ⟨a3, a1, a2⟩
  · rw [← c6, flatMap_asns_setFour]
  · simp [hops, hseg, c5 true]

/-! ### every hop path the public API can build: the general form of `compose_spec`

`WfHopsG` admits every segment hop that has a wire form – also a non-empty
AS_SEQUENCE held as one `Hop::Segment` (`From<Vec<Segment>> for HopPath`,
`Hop::Segment(seg)` + `append`) and two-octet segment hops cut out of a
two-octet wire path. What is read back from the wire is then the *flat* hop
sequence `flat b h`. -/

/-- the AS numbers the loop writes are those of the hop path, whatever the hops -/
theorem segsLoop_asns : ∀ (f : Nat) (h : List Hop), h.length ≤ f →
    (segsLoop f h).flatMap (·.asns) = asnsOf h
  | 0, h, hf => by
    have : h = [] := List.eq_nil_of_length_eq_zero (by omega)
    subst this; simp [segsLoop, asnsOf]
  | f + 1, h, hf => by
    unfold segsLoop
    by_cases he : h.isEmpty = true
    · have : h = [] := by simpa using he
      subst this; simp [asnsOf]
    · simp only [he, Bool.false_eq_true, if_false]
      obtain ⟨hsplit, hns⟩ := spanAsns_spec h
      generalize (spanAsns h).1 = run at *
      generalize (spanAsns h).2 = tl at *
      subst hsplit
      obtain ⟨_, r2⟩ := runSegs_spec run
      match tl, hns with
      | [], _ =>
        simp only [List.append_nil]
        rw [r2]; simp [asnsOf, flatMap_hopAsns_run]
      | .asn n :: r, hns => exact absurd rfl (hns n r)
      | .seg s :: rest, _ =>
        have hlen : rest.length ≤ f := by simp at hf; omega
        have i3 := segsLoop_asns f rest hlen
        simp only [List.flatMap_append, List.flatMap_cons, r2, i3]
        simp [asnsOf, hopAsns, flatMap_hopAsns_run]

/-- Everything the two compose loops do on any hop path whose segment hops have
a wire form, in terms of one segment list `ss`. -/
theorem compose_specG (h : HopPath) (wf : WfHopsG h = true) :
    ∃ ss : List Seg,
      compose true h = .ok (encSegs true ss) ∧
      compose false h = (if allSmall (asnsOf h) = true then .ok (encSegs false ss) else .err) ∧
      (∀ s ∈ ss, s.wireOk true = true) ∧
      (allSmall (asnsOf h) = true → ∀ s ∈ ss, s.wireOk false = true) ∧
      (∀ b, hopsOfSegs (ss.map (Seg.setFour b)) = flat b h) ∧
      ss.flatMap (·.asns) = asnsOf h := by
  have s3 := segsLoop_asns h.length h (Nat.le_refl _)
  have s1 := (segsLoop_flat true h.length h (Nat.le_refl _) wf).1
  refine ⟨segsLoop h.length h, ?_, ?_, ?_, ?_, ?_, s3⟩
  · rw [compose, composeLoop_eq, composeSegs_wide _ (fun s hs => (s1 s hs).2.2.1)]
  · rw [compose, composeLoop_eq, composeSegs_narrow _ (fun s hs => (s1 s hs).2.2.1), segsSmall_iff, s3]
    intro s hs hf a ha
    have := (s1 s hs).2.2.2 a ha
    simpa [hf, asnBound] using this
  · intro s hs
    obtain ⟨a1, a2, a3, a4⟩ := s1 s hs
    refine Seg.wireOk_iff.mpr ⟨a1, a2, a3, fun a ha => ?_⟩
    have := a4 a ha
    have := asnBound_le s.four
    simp only [asnBound, if_true]; omega
  · intro hsm s hs
    obtain ⟨a1, a2, a3, _⟩ := s1 s hs
    refine Seg.wireOk_iff.mpr ⟨a1, a2, a3, fun a ha => ?_⟩
    have hm : a ∈ asnsOf h := by rw [← s3]; exact List.mem_flatMap.mpr ⟨s, hs, ha⟩
    have := (List.all_eq_true.mp hsm) a hm
    simp only [decide_eq_true_eq] at this
    simp only [asnBound, Bool.false_eq_true, if_false]; omega
  · intro b
    exact (segsLoop_flat b h.length h (Nat.le_refl _) wf).2

/-- what `compose` does on any such hop path, read back from the wire -/
theorem compose_readG (h : HopPath) (wf : WfHopsG h = true) :
    ∃ (w : Bytes) (ss : List Seg), compose true h = .ok w ∧ check true w = .ok () ∧
      segments true w = .ok ss ∧ (∀ s ∈ ss, s.asns.length ≤ 255 ∧ 1 ≤ s.ty ∧ s.ty ≤ 4) ∧
      ss.flatMap (·.asns) = asnsOf h ∧ hops true w = .ok (flat true h) := by
  obtain ⟨ss, c1, _, c3, _, c5, c6⟩ := compose_specG h wf
  have hseg := segments_enc true ss c3
  refine ⟨encSegs true ss, ss.map (Seg.setFour true), c1, check_enc true ss c3, hseg, ?_, ?_, ?_⟩
  · intro s hs
    obtain ⟨t, ht, rfl⟩ := List.mem_map.mp hs
    obtain ⟨a1, a2, a3, _⟩ := Seg.wireOk_iff.mp (c3 t ht)
    exact ⟨a3, a1, a2⟩
  · rw [← c6, flatMap_asns_setFour]
  · simp [hops, hseg, c5 true]

/-! ### the flat hop sequence is a normal form -/

theorem hopFlat_normal (b : Bool) (x : Hop) : ∀ y ∈ Hop.flat b x, Hop.flat b y = [y] := by
  cases x with
  | asn n =>
    intro y hy
    simp only [Hop.flat, List.mem_singleton] at hy
    subst hy; rfl
  | seg s =>
    intro y hy
    simp only [Hop.flat, hopsOfSeg] at hy
    split at hy
    · obtain ⟨a, _, rfl⟩ := List.mem_map.mp hy; rfl
    · rename_i hc
      simp only [List.mem_singleton] at hy
      subst hy
      have e : (s.setFour b).setFour b = s.setFour b := rfl
      simp only [Hop.flat, hopsOfSeg, e, hc, if_false]

theorem flat_of_normal (b : Bool) : ∀ (l : List Hop), (∀ y ∈ l, Hop.flat b y = [y]) → flat b l = l
  | [], _ => rfl
  | y :: r, h => by
    have ih := flat_of_normal b r (fun z hz => h z (by simp [hz]))
    simp only [flat, List.flatMap_cons] at ih ⊢
    rw [ih, h y (by simp)]; rfl

/-- flattening twice is flattening once -/
theorem flat_idem (b : Bool) (h : HopPath) : flat b (flat b h) = flat b h := by
  apply flat_of_normal
  intro y hy
  simp only [flat, List.mem_flatMap] at hy
  obtain ⟨x, _, hx⟩ := hy
  exact hopFlat_normal b x y hx

/-- the flat hop sequence of any API-buildable hop path is a hop path over
`Hop::Asn`s, AS_SETs, confederation segments and empty AS_SEQUENCEs, every
segment hop stored four octets wide. -/
theorem wfHops_flat (h : HopPath) (wf : WfHopsG h = true) :
    WfHops (flat true h) = true ∧ AllFour (flat true h) = true := by
  have key : ∀ x ∈ h, ∀ y ∈ Hop.flat true x, Hop.wf y = true ∧
      (match y with | .asn _ => true | .seg s => s.four) = true := by
    intro x hx y hy
    have hw := (List.all_eq_true.mp wf) x hx
    cases x with
    | asn n =>
      simp only [Hop.flat, List.mem_singleton] at hy
      subst hy
      exact ⟨by simpa [Hop.wf, Hop.wfG] using hw, rfl⟩
    | seg s =>
      obtain ⟨a1, a2, a3, a4⟩ := Seg.anyOk_iff.mp (by simpa [Hop.wfG] using hw)
      have hb := asnBound_le s.four
      simp only [Hop.flat, hopsOfSeg] at hy
      split at hy
      · obtain ⟨a, ha, rfl⟩ := List.mem_map.mp hy
        have := a4 a ha
        exact ⟨by simp only [Hop.wf, decide_eq_true_eq]; omega, rfl⟩
      · rename_i hc
        simp only [List.mem_singleton] at hy
        subst hy
        refine ⟨?_, rfl⟩
        simp only [Hop.wf]
        refine Seg.apiOk_iff.mpr ⟨?_, a3, ?_⟩
        · have hc' : ¬ (s.ty = 2 ∧ s.asns ≠ []) := hc
          by_cases h2 : s.ty = 2
          · right; right; right
            exact ⟨h2, Classical.not_not.mp (fun hne => hc' ⟨h2, hne⟩)⟩
          · show s.ty = 1 ∨ s.ty = 3 ∨ s.ty = 4 ∨ _
            omega
        · intro a ha
          have := a4 a ha
          show a < asnBound true
          simp only [asnBound, if_true]; omega
  constructor
  · simp only [WfHops, flat, List.all_eq_true, List.mem_flatMap]
    rintro y ⟨x, hx, hy⟩
    exact (key x hx y hy).1
  · simp only [AllFour, flat, List.all_eq_true, List.mem_flatMap]
    rintro y ⟨x, hx, hy⟩
    exact (key x hx y hy).2

/-- a hop path is its own flat sequence exactly when it has no non-empty
AS_SEQUENCE segment hop and every segment hop is four octets wide. -/
theorem flat_eq_self_iff (h : HopPath) (wf : WfHopsG h = true) :
    flat true h = h ↔ (WfHops h = true ∧ AllFour h = true) := by
  constructor
  · intro e
    have := wfHops_flat h wf
    rwa [e] at this
  · rintro ⟨w, a⟩
    rw [flat_of_wfHops true h w, map_norm_allFour h a]

/-! ### path-selection hop count -/

/-- what one hop contributes to `hop_count_path_selection` -/
def selOf : Hop → Nat
  | .asn _ => 1
  | .seg s => if s.ty = 1 then 1 else if s.ty = 2 then s.asns.length else 0

/-- what one wire segment contributes: an AS_SEQUENCE its ASNs, an AS_SET one,
confederation segments nothing -/
def segSel (s : Seg) : Nat := if s.ty = 1 then 1 else if s.ty = 2 then s.asns.length else 0

theorem foldl_selStep (l : HopPath) : ∀ acc : Nat, l.foldl selStep acc = acc + (l.map selOf).sum := by
  induction l with
  | nil => intro acc; simp
  | cons x r ih =>
    intro acc
    simp only [List.foldl_cons, ih, List.map_cons, List.sum_cons]
    cases x with
    | asn n => simp only [selStep, selOf]; omega
    | seg s =>
      simp only [selStep, selOf]
      by_cases h1 : s.ty = 1
      · simp only [h1, if_true]; omega
      · by_cases h2 : s.ty = 2
        · simp only [h2]; simp; omega
        · simp only [h1, h2, if_false]; omega

theorem hopCountSel_eq (h : HopPath) : hopCountSel h = (h.map selOf).sum := by
  simp [hopCountSel, foldl_selStep]

theorem sum_map_asn (as : List Nat) : ((as.map Hop.asn).map selOf).sum = as.length := by
  induction as with
  | nil => rfl
  | cons a r ih => simp only [List.map_cons, List.sum_cons, ih, selOf, List.length_cons]; omega

theorem sum_selOf_hopsOfSeg (s : Seg) : ((hopsOfSeg s).map selOf).sum = segSel s := by
  unfold hopsOfSeg
  split
  · rename_i hc
    rw [sum_map_asn]
    simp [segSel, hc.1]
  · simp [selOf, segSel]

theorem sum_selOf_append (a b : List Hop) :
    ((a ++ b).map selOf).sum = (a.map selOf).sum + (b.map selOf).sum := by
  induction a with
  | nil => simp
  | cons x r ih => simp only [List.cons_append, List.map_cons, List.sum_cons, ih]; omega

/-- on the hops of a wire path the count is: ASNs of AS_SEQUENCEs + number of AS_SETs -/
theorem hopCountSel_hopsOfSegs (ss : List Seg) :
    hopCountSel (hopsOfSegs ss) = (ss.map segSel).sum := by
  rw [hopCountSel_eq]
  induction ss with
  | nil => rfl
  | cons s r ih =>
    have : hopsOfSegs (s :: r) = hopsOfSeg s ++ hopsOfSegs r := by simp [hopsOfSegs]
    rw [this, sum_selOf_append, sum_selOf_hopsOfSeg, ih]
    simp

/-- a hop path and its flat hop sequence have the same path-selection count -/
theorem hopCountSel_flat (b : Bool) (h : HopPath) : hopCountSel (flat b h) = hopCountSel h := by
  rw [hopCountSel_eq, hopCountSel_eq]
  induction h with
  | nil => rfl
  | cons x r ih =>
    have : flat b (x :: r) = Hop.flat b x ++ flat b r := by simp [flat]
    rw [this, sum_selOf_append, ih]
    simp only [List.map_cons, List.sum_cons]
    congr 1
    cases x with
    | asn n => rfl
    | seg s =>
      simp only [Hop.flat, sum_selOf_hopsOfSeg]
      rfl


/-! ### `Eq` / `Hash` of hop paths -/

theorem Seg.hashKey_eq (s : Seg) (hl : s.asns.length ≤ 255) : s.hashKey = .ok s.hashWrites := by
  simp [Seg.hashKey, u8Expect, hl, Seg.hashWrites, ofNat_toNat_small hl]

def Hop.lenOk : Hop → Bool
  | .asn _ => true
  | .seg s => decide (s.asns.length ≤ 255)

theorem hopEq_hashKey {x y : Hop} (he : hopEq x y = true) (hx : x.lenOk = true) (hy : y.lenOk = true) :
    ∃ k, x.hashKey = .ok k ∧ y.hashKey = .ok k := by
  cases x with
  | asn a =>
    cases y with
    | asn b =>
      have : a = b := by simpa [hopEq] using he
      subst this; exact ⟨_, rfl, rfl⟩
    | seg t => simp [hopEq] at he
  | seg s =>
    cases y with
    | asn b => simp [hopEq] at he
    | seg t =>
      have hs : s.asns.length ≤ 255 := by simpa [Hop.lenOk] using hx
      have ht : t.asns.length ≤ 255 := by simpa [Hop.lenOk] using hy
      have hsem : s.sem = t.sem := by
        have : segEq s t = true := by simpa [hopEq] using he
        rw [segEq_eq] at this
        exact of_decide_eq_true this
      refine ⟨HW.u8 1 :: t.hashWrites, ?_, ?_⟩
      · simp [Hop.hashKey, Seg.hashKey_eq s hs, hashWrites_sem hsem]
      · simp [Hop.hashKey, Seg.hashKey_eq t ht]

theorem hopPathEq_hops : ∀ (h k : List Hop), hopPathEq h k = true →
    h.all Hop.lenOk = true → k.all Hop.lenOk = true →
    h.length = k.length ∧ ∃ key, hopsHashKey h = .ok key ∧ hopsHashKey k = .ok key
  | [], [], _, _, _ => ⟨rfl, [], rfl, rfl⟩
  | [], _ :: _, he, _, _ => by simp [hopPathEq] at he
  | _ :: _, [], he, _, _ => by simp [hopPathEq] at he
  | x :: xs, y :: ys, he, hx, hy => by
    simp only [hopPathEq, Bool.and_eq_true] at he
    simp only [List.all_cons, Bool.and_eq_true] at hx hy
    obtain ⟨k1, a1, a2⟩ := hopEq_hashKey he.1 hx.1 hy.1
    obtain ⟨hl, k2, b1, b2⟩ := hopPathEq_hops xs ys he.2 hx.2 hy.2
    exact ⟨by simp [hl], k1 ++ k2, by simp [hopsHashKey, a1, b1], by simp [hopsHashKey, a2, b2]⟩


end Rc.AsPath
