/-
ONE model of the capability rules: the two independently written models of
`Capability::parse` – `Rc.OpenParse.capContent` (cursor style, used for the BMP parse path, C15)
and `Rc.Open.capContent` (remaining-bytes style, used for `from_octets`/`check` and the
accessors, C03) – accept exactly the same capabilities (`capContent_agree`), and so do
`capParse` / `parseCap` (`capParse_agree`).  On top of that: whatever `OpenMessage::parse`
accepts, `OpenMessage::check` accepts (`openParse_check`), which carries the accessor-totality
theorem of C03 over to the OPENs embedded in a BMP PeerUp.
-/
import Rc.Model.Open
import Rc.Model.OpenParse
import Rc.Lemmas.OpenParse
import Rc.Lemmas.OpenTotal
import Rc.Lemmas.Header

namespace Rc.OpenBridge
open Rc Rc.OpenParse

/-! ### cursor operations in index form -/

theorem u8_lt {d : Bytes} {p : Nat} (h : p < d.length) :
    Cur.u8 ⟨d, p⟩ = .ok (d[p].toNat, ⟨d, p + 1⟩) := by
  simp [Cur.u8, List.getElem?_eq_getElem h]

theorem u8_ge {d : Bytes} {p : Nat} (h : d.length ≤ p) : Cur.u8 ⟨d, p⟩ = .err := by
  simp [Cur.u8, List.getElem?_eq_none h]

theorem adv_le {d : Bytes} {p n : Nat} (h : p + n ≤ d.length) :
    Cur.advance ⟨d, p⟩ n = .ok ⟨d, p + n⟩ := by
  simp [Cur.advance, h]

theorem adv_gt {d : Bytes} {p n : Nat} (h : d.length < p + n) : Cur.advance ⟨d, p⟩ n = .err := by
  simp [Cur.advance]; omega

/-- the shape of `d.drop q` in index form -/
theorem drop_cons {d : Bytes} {q : Nat} {b : UInt8} {r : Bytes} (h : d.drop q = b :: r) :
    ∃ hq : q < d.length, d[q] = b ∧ d.drop (q + 1) = r ∧ r.length = d.length - (q + 1) := by
  have hl : (d.drop q).length = (b :: r).length := by rw [h]
  simp at hl
  have hq : q < d.length := by omega
  have := List.drop_eq_getElem_cons hq
  rw [this] at h
  injection h with h1 h2
  exact ⟨hq, h1, h2, by omega⟩

theorem drop_nil {d : Bytes} {q : Nat} (h : d.drop q = []) : d.length ≤ q := by
  simpa using h

/-! ### the `while pos < start + len { read k }` loops -/

/-- `OpenParse.loopRead` (fuel: bytes remaining + 1) and `Open.readLoop` (fuel: the length
octet) decide the same thing, whatever (sufficient) fuel each is given -/
theorem loop_agree (k : Nat) (hk : 0 < k) (d : Bytes) (start len : Nat) :
    ∀ (f f' p : Nat), start ≤ p → p ≤ d.length → d.length - p < f → start + len - p ≤ f' →
      ((∃ c', loopRead k (start + len) f ⟨d, p⟩ = .ok c') ↔
        Open.readLoop k f' (p - start) len (d.drop p) = true) := by
  intro f
  induction f with
  | zero => intro f' p _ _ h; omega
  | succ f ih =>
    intro f' p hs hp hf hf'
    unfold loopRead
    by_cases hlt : p < start + len
    · simp only [hlt, if_true]
      cases f' with
      | zero => omega
      | succ f' =>
        unfold Open.readLoop
        have hc : p - start < len := by omega
        simp only [hc, if_true, List.length_drop]
        by_cases hfit : p + k ≤ d.length
        · rw [adv_le hfit]
          have : k ≤ d.length - p := by omega
          simp only [this, if_true, List.drop_drop]
          have e : p - start + k = p + k - start := by omega
          rw [e]
          exact ih f' (p + k) (by omega) hfit (by omega) (by omega)
        · rw [adv_gt (by omega)]
          have : ¬ k ≤ d.length - p := by omega
          simp [this]
    · simp only [hlt, if_false]
      have hc : ¬ p - start < len := by omega
      cases f' with
      | zero => simp [Open.readLoop]
      | succ f' => simp [Open.readLoop, hc]

/-! ### the content rules -/

theorem len_drop (d : Bytes) (q : Nat) : (d.drop q).length = d.length - q := by simp

/-- closes the fixed-length / no-content rules -/
macro "cc_simple" : tactic =>
  `(tactic| (try simp only [Cur.advance, len_drop]
             repeat' split
             all_goals simp_all
             all_goals omega))

/-- the loop-shaped rules -/
theorem cc_loop (k : Nat) (hk : 0 < k) (len start : Nat) (d : Bytes) (hp : start + 2 ≤ d.length) :
    (∃ c', loopRead k (start + len) ((⟨d, start + 2⟩ : Cur).remaining + 1) ⟨d, start + 2⟩ = .ok c') ↔
      (if Open.readLoop k len 2 len (d.drop (start + 2)) = true then Outcome.ok () else Outcome.err) = .ok () := by
  have := loop_agree k hk d start len (d.length - (start + 2) + 1) len (start + 2)
    (by omega) hp (by omega) (by omega)
  simp only [Cur.remaining, this, show start + 2 - start = 2 by omega]
  split <;> simp_all

theorem drop_get? (d : Bytes) (q i : Nat) : d[q + i]? = (d.drop q)[i]? := by
  simp [List.getElem?_drop]

theorem u8_some {d : Bytes} {p : Nat} {b : UInt8} (h : d[p]? = some b) :
    Cur.u8 ⟨d, p⟩ = .ok (b.toNat, ⟨d, p + 1⟩) := by
  simp [Cur.u8, h]

/-- AddPath (69): three octets, then a direction octet ≤ 3 -/
theorem cc_addpath (start : Nat) (d : Bytes) (hp : start + 2 ≤ d.length) :
    (∃ c', (match (⟨d, start + 2⟩ : Cur).advance 3 with
          | .ok c => match c.u8 with
            | .ok (sr, c) => if sr > 3 then Outcome.err else .ok c
            | .err => .err | .panic => .panic
          | .err => .err | .panic => .panic) = Outcome.ok c') ↔
    (match d.drop (start + 2) with
      | _ :: _ :: _ :: x :: _ => if decide (x.toNat ≤ 3) = true then Outcome.ok () else Outcome.err
      | _ => Outcome.err) = Outcome.ok () := by
  generalize hb : d.drop (start + 2) = body
  have hl : body.length = d.length - (start + 2) := by rw [← hb, len_drop]
  rcases body with _ | ⟨b0, _ | ⟨b1, _ | ⟨b2, _ | ⟨b3, tl⟩⟩⟩⟩
  case cons.cons.cons.cons =>
    simp at hl
    have e3 : d[start + 2 + 3]? = some b3 := by rw [drop_get?, hb]; rfl
    rw [adv_le (by omega)]
    simp only
    rw [u8_some e3]
    simp only
    repeat' split
    all_goals simp_all
    all_goals omega
  all_goals
    simp at hl
    simp only
    by_cases h3 : start + 2 + 3 ≤ d.length
    · rw [adv_le h3]; simp only; rw [u8_ge (by omega)]; simp
    · rw [adv_gt (by omega)]; simp

/-- (Prestandard)OutboundRouteFiltering (3, 130): four octets, a count `n`, `2n` octets -/
theorem cc_orf (start : Nat) (d : Bytes) (hp : start + 2 ≤ d.length) :
    (∃ c', (match (⟨d, start + 2⟩ : Cur).advance 4 with
          | .ok c => match c.u8 with
            | .ok (n, c) => c.advance (2 * n)
            | .err => .err | .panic => .panic
          | .err => .err | .panic => .panic) = Outcome.ok c') ↔
    (match d.drop (start + 2) with
      | _ :: _ :: _ :: _ :: n :: r => if decide (2 * n.toNat ≤ r.length) = true then Outcome.ok () else Outcome.err
      | _ => Outcome.err) = Outcome.ok () := by
  generalize hb : d.drop (start + 2) = body
  have hl : body.length = d.length - (start + 2) := by rw [← hb, len_drop]
  rcases body with _ | ⟨b0, _ | ⟨b1, _ | ⟨b2, _ | ⟨b3, _ | ⟨n, r⟩⟩⟩⟩⟩
  case cons.cons.cons.cons.cons =>
    simp at hl
    have e4 : d[start + 2 + 4]? = some n := by rw [drop_get?, hb]; rfl
    rw [adv_le (by omega)]
    simp only
    rw [u8_some e4]
    simp only
    by_cases hf : start + 2 + 4 + 1 + 2 * n.toNat ≤ d.length
    · rw [adv_le hf]
      have : 2 * n.toNat ≤ r.length := by omega
      simp [this]
    · rw [adv_gt (by omega)]
      have : ¬ 2 * n.toNat ≤ r.length := by omega
      simp [this]
  all_goals
    simp at hl
    simp only
    by_cases h3 : start + 2 + 4 ≤ d.length
    · rw [adv_le h3]; simp only; rw [u8_ge (by omega)]; simp
    · rw [adv_gt (by omega)]; simp

/-- SoftwareVersion, PathsLimit (75, 76): a length octet `n`, `n` octets -/
theorem cc_lenpfx (start : Nat) (d : Bytes) (hp : start + 2 ≤ d.length) :
    (∃ c', (match (⟨d, start + 2⟩ : Cur).u8 with
          | .ok (l, c) => c.advance l
          | .err => .err | .panic => .panic) = Outcome.ok c') ↔
    (match d.drop (start + 2) with
      | n :: r => if decide (n.toNat ≤ r.length) = true then Outcome.ok () else Outcome.err
      | [] => Outcome.err) = Outcome.ok () := by
  generalize hb : d.drop (start + 2) = body
  have hl : body.length = d.length - (start + 2) := by rw [← hb, len_drop]
  rcases body with _ | ⟨n, r⟩
  · simp at hl
    rw [u8_ge (by omega)]; simp
  · simp at hl
    have e0 : d[start + 2 + 0]? = some n := by rw [drop_get?, hb]; rfl
    rw [u8_some e0]
    simp only
    by_cases hf : start + 2 + 1 + n.toNat ≤ d.length
    · rw [adv_le hf]
      have : n.toNat ≤ r.length := by omega
      simp [this]
    · rw [adv_gt (by omega)]
      have : ¬ n.toNat ≤ r.length := by omega
      simp [this]

/-- FQDN (73): host length `h`, `h` octets, domain length `dl`, `dl` octets -/
theorem cc_fqdn (start : Nat) (d : Bytes) (hp : start + 2 ≤ d.length) :
    (∃ c', (match (⟨d, start + 2⟩ : Cur).u8 with
        | .ok (h, c) =>
          match c.advance h with
          | .ok c =>
            match c.u8 with
            | .ok (dl, c) => c.advance dl
            | .err => .err | .panic => .panic
          | .err => .err | .panic => .panic
        | .err => .err | .panic => .panic) = Outcome.ok c') ↔
    (match d.drop (start + 2) with
      | hl :: r =>
        match takeN hl.toNat r with
        | some (_, dl :: r2) => if decide (dl.toNat ≤ r2.length) = true then Outcome.ok () else Outcome.err
        | _ => Outcome.err
      | [] => Outcome.err) = Outcome.ok () := by
  generalize hb : d.drop (start + 2) = body
  have hlen : body.length = d.length - (start + 2) := by rw [← hb, len_drop]
  rcases body with _ | ⟨h, r⟩
  · simp at hlen
    rw [u8_ge (by omega)]; simp
  · simp at hlen
    have e0 : d[start + 2 + 0]? = some h := by rw [drop_get?, hb]; rfl
    have hr : r = d.drop (start + 2 + 1) := by
      have := congrArg (List.drop 1) hb
      simpa [List.drop_drop] using this.symm
    rw [u8_some e0]
    simp only
    by_cases hf : start + 2 + 1 + h.toNat ≤ d.length
    · rw [adv_le hf]
      simp only [takeN]
      have hle : h.toNat ≤ r.length := by omega
      simp only [hle, if_true]
      generalize hb2 : r.drop h.toNat = body2
      have hb2' : d.drop (start + 2 + 1 + h.toNat) = body2 := by rw [← hb2, hr, List.drop_drop]
      have hlen2 : body2.length = d.length - (start + 2 + 1 + h.toNat) := by rw [← hb2', len_drop]
      rcases body2 with _ | ⟨dl, r2⟩
      · simp at hlen2
        rw [u8_ge (by omega)]; simp
      · simp at hlen2
        have e1 : d[start + 2 + 1 + h.toNat]? = some dl := by
          have := drop_get? d (start + 2 + 1 + h.toNat) 0
          rw [hb2'] at this
          simpa using this
        rw [u8_some e1]
        simp only
        by_cases hf2 : start + 2 + 1 + h.toNat + 1 + dl.toNat ≤ d.length
        · rw [adv_le hf2]
          have : dl.toNat ≤ r2.length := by omega
          simp [this]
        · rw [adv_gt (by omega)]
          have : ¬ dl.toNat ≤ r2.length := by omega
          simp [this]
    · rw [adv_gt (by omega)]
      have hle : ¬ h.toNat ≤ r.length := by omega
      simp [takeN, hle]

theorem cc_multisession (len start : Nat) (d : Bytes) (hp : start + 2 ≤ d.length) :
    (∃ c', (if len = 0 then Outcome.err
        else match (⟨d, start + 2⟩ : Cur).advance 1 with
          | .ok c => (match usub len 1 with
            | some k => c.advance k
            | none => .panic)
          | .err => .err
          | .panic => .panic) = Outcome.ok c') ↔
    (if (len != 0 && decide (len ≤ (d.drop (start + 2)).length)) = true then Outcome.ok () else Outcome.err) =
      Outcome.ok () := by
  rw [len_drop]
  by_cases h0 : len = 0
  · simp [h0]
  · simp only [h0, if_false]
    by_cases h1 : start + 2 + 1 ≤ d.length
    · rw [adv_le h1]
      simp only [usub_some (show 1 ≤ len by omega)]
      by_cases h2 : start + 2 + 1 + (len - 1) ≤ d.length
      · rw [adv_le h2]
        have : len ≤ d.length - (start + 2) := by omega
        simp [h0, this]
      · rw [adv_gt (by omega)]
        have : ¬ len ≤ d.length - (start + 2) := by omega
        simp [this]
    · rw [adv_gt (by omega)]
      have : ¬ len ≤ d.length - (start + 2) := by omega
      simp [this]

theorem capContent_agree (typ len start : Nat) (d : Bytes) (hp : start + 2 ≤ d.length) :
    (∃ c', OpenParse.capContent typ len start ⟨d, start + 2⟩ = .ok c') ↔
      Open.capContent typ len (d.drop (start + 2)) = .ok () := by
  unfold OpenParse.capContent
  split
  all_goals (simp only [Open.capContent])
  case h_1 => cc_simple
  case h_2 => cc_simple
  case h_5 => exact cc_loop 6 (by omega) len start d hp
  case h_6 => cc_simple
  case h_7 => exact cc_loop 4 (by omega) len start d hp
  case h_8 => cc_simple
  case h_10 => cc_simple
  case h_11 => cc_simple
  case h_12 => cc_simple
  case h_13 => exact cc_multisession len start d hp
  case h_14 => exact cc_multisession len start d hp
  case h_16 => cc_simple
  case h_17 => exact cc_loop 7 (by omega) len start d hp
  case h_9 =>
    by_cases h2 : start + 2 + 2 ≤ d.length
    · rw [adv_le h2]
      have := loop_agree 4 (by omega) d start len (d.length - (start + 2) + 1) len (start + 2 + 2)
        (by omega) h2 (by omega) (by omega)
      simp only [Cur.remaining, this, show start + 2 + 2 - start = 4 by omega, len_drop, List.drop_drop]
      have e : 2 ≤ d.length - (start + 2) := by omega
      simp only [e, decide_true, Bool.true_and]
      split <;> simp_all
    · rw [adv_gt (by omega)]
      have e : ¬ 2 ≤ d.length - (start + 2) := by omega
      simp [e]
  case h_3 => exact cc_orf start d hp
  case h_4 => exact cc_orf start d hp
  case h_15 => exact cc_addpath start d hp
  case h_18 => exact cc_fqdn start d hp
  case h_19 => exact cc_lenpfx start d hp
  case h_20 => cc_simple
  case h_21 => cc_simple
  case h_22 => simp

/-! ### `Capability::parse` -/

theorem u8_data {c c' : Cur} {x : Nat} (h : c.u8 = .ok (x, c')) : c'.data = c.data := by
  unfold Cur.u8 at h
  split at h <;> simp at h
  rw [← h.2]

theorem adv_data {c c' : Cur} {n : Nat} (h : c.advance n = .ok c') : c'.data = c.data :=
  (Cur.advance_ok h).1

theorem loopRead_data (k limit : Nat) : ∀ (f : Nat) (c c' : Cur), loopRead k limit f c = .ok c' → c'.data = c.data := by
  intro f
  induction f with
  | zero => intro c c' h; simp [loopRead] at h; rw [h]
  | succ f ih =>
    intro c c' h
    unfold loopRead at h
    split at h
    · split at h
      · rename_i c1 h1
        rw [ih c1 c' h, adv_data h1]
      · simp at h
      · simp at h
    · simp at h; rw [h]

theorem capContent_data {typ len start : Nat} {c c' : Cur} (h : OpenParse.capContent typ len start c = .ok c') :
    c'.data = c.data := by
  have A := @adv_data
  have U := @u8_data
  have L := loopRead_data
  unfold OpenParse.capContent at h
  split at h
  all_goals (repeat' (split at h))
  all_goals (try (simp at h))
  all_goals grind

theorem drop_head? {d : Bytes} {q : Nat} {b : UInt8} {r : Bytes} (h : d.drop q = b :: r) : d[q]? = some b := by
  have := drop_get? d q 0
  rw [h] at this
  simpa using this

theorem seek_data {c : Cur} {p : Nat} {d : Bytes} (hd : c.data = d) (hp : p ≤ d.length) :
    c.seek p = .ok ⟨d, p⟩ := by
  simp [Cur.seek, hd, hp]

/-- `Capability::parse` in the two models: both accept, at the same position, the same
capability, and leave the parser behind the same octets -/
theorem capParse_agree (d : Bytes) (p : Nat) (hp : p ≤ d.length) :
    (∀ c', capParse ⟨d, p⟩ = .ok c' →
      ∃ cap, Open.parseCap (d.drop p) = .ok (cap, d.drop (p + 2 + cap.value.length)) ∧
        c' = ⟨d, p + 2 + cap.value.length⟩ ∧ p + 2 + cap.value.length ≤ d.length) ∧
    (∀ cap r, Open.parseCap (d.drop p) = .ok (cap, r) →
      capParse ⟨d, p⟩ = .ok ⟨d, p + 2 + cap.value.length⟩ ∧ r = d.drop (p + 2 + cap.value.length)) := by
  generalize hb : d.drop p = body
  have hl : body.length = d.length - p := by rw [← hb, len_drop]
  rcases body with _ | ⟨code, _ | ⟨len, body'⟩⟩
  · simp at hl
    constructor
    · intro c' h; unfold capParse at h; simp only at h; rw [u8_ge (by omega)] at h; simp at h
    · intro cap r h; simp [Open.parseCap] at h
  · simp at hl
    have e0 : d[p]? = some code := drop_head? hb
    constructor
    · intro c' h; unfold capParse at h; simp only at h
      rw [u8_some e0] at h; simp only at h
      rw [u8_ge (by omega)] at h; simp at h
    · intro cap r h; simp [Open.parseCap] at h
  · simp at hl
    have e0 : d[p]? = some code := drop_head? hb
    have e1 : d[p + 1]? = some len := by rw [drop_get?, hb]; rfl
    have hb' : d.drop (p + 2) = body' := by
      have := congrArg (List.drop 2) hb
      simpa [List.drop_drop] using this
    have hl' : body'.length = d.length - (p + 2) := by rw [← hb', len_drop]
    have hagree := capContent_agree code.toNat len.toNat p d (by omega)
    rw [hb'] at hagree
    have hnp := capContent_np code.toNat len.toNat p ⟨d, p + 2⟩
    have hnp' := Open.capContent_ne_panic code.toNat len.toNat body'
    have hcp : capParse ⟨d, p⟩ =
        match OpenParse.capContent code.toNat len.toNat p ⟨d, p + 2⟩ with
        | .ok c => (match c.seek p with
          | .ok c => c.advance (2 + len.toNat)
          | .err => .err
          | .panic => .panic)
        | .err => .err
        | .panic => .panic := by
      unfold capParse
      simp only
      rw [u8_some e0]; simp only
      rw [u8_some e1]
      rfl
    rw [hcp]
    simp only [Open.parseCap]
    cases hc : OpenParse.capContent code.toNat len.toNat p ⟨d, p + 2⟩ with
    | panic => exact absurd hc hnp
    | err =>
      have : Open.capContent code.toNat len.toNat body' = .err := by
        cases ho : Open.capContent code.toNat len.toNat body' with
        | ok u => have := hagree.2 ho; simp [hc] at this
        | err => rfl
        | panic => exact absurd ho hnp'
      simp [this]
    | ok c3 =>
      have hd := capContent_data hc
      simp only at hd
      have ho : Open.capContent code.toNat len.toNat body' = .ok () := hagree.1 ⟨c3, hc⟩
      simp only [ho, seek_data hd hp]
      by_cases hf : p + (2 + len.toNat) ≤ d.length
      · rw [adv_le hf]
        have hle : len.toNat ≤ body'.length := by omega
        simp only [takeN, hle, if_true]
        have hv : (body'.take len.toNat).length = len.toNat := by simp; omega
        have hr : body'.drop len.toNat = d.drop (p + 2 + len.toNat) := by rw [← hb', List.drop_drop]
        constructor
        · intro c' h
          simp at h
          refine ⟨⟨code, body'.take len.toNat⟩, ?_, ?_, ?_⟩
          · simp only [hv, hr]
          · simp only [hv]; rw [← h]; congr 1; omega
          · simp only [hv]; omega
        · intro cap r h
          simp at h
          obtain ⟨rfl, rfl⟩ := h
          simp only [hv, hr]
          constructor
          · congr 2; omega
          · trivial
      · rw [adv_gt (by omega)]
        have hle : ¬ len.toNat ≤ body'.length := by omega
        simp [takeN, hle]

/-! ### parameters: what `parse` accepts, `check` accepts -/

/-- the capability loop of `Parameter::parse` accepts only what the loop of `Parameter::check`
accepts (both run on a parser limited to the parameter value `v`) -/
theorem capLoop_check (v : Bytes) :
    ∀ (f q F : Nat), q ≤ v.length → v.length - q < f → v.length - q ≤ F →
      capLoop f ⟨v, q⟩ = .ok () → Open.capsCheck F (v.drop q) = .ok () := by
  intro f
  induction f with
  | zero => intro q F _ h; omega
  | succ f ih =>
    intro q F hq hf hF h
    unfold capLoop at h
    by_cases hlt : q < v.length
    · simp only [hlt, if_true] at h
      cases hc : capParse ⟨v, q⟩ with
      | err => simp [hc] at h
      | panic => simp [hc] at h
      | ok c' =>
        simp only [hc] at h
        obtain ⟨cap, hpc, rfl, hle⟩ := (capParse_agree v q hq).1 c' hc
        cases F with
        | zero => omega
        | succ F' =>
          have hrec := ih (q + 2 + cap.value.length) F' hle (by omega) (by omega) h
          cases hd : v.drop q with
          | nil => have := congrArg List.length hd; simp at this; omega
          | cons a t =>
            rw [hd] at hpc
            simp only [Open.capsCheck, hpc, hrec]
    · have : v.drop q = [] := by simp; omega
      rw [this]
      cases F <;> simp [Open.capsCheck]

/-- `Parameter::parse` accepts only what `Parameter::check` accepts, and consumes the same octets;
`left` is any bound of at least the parameter's size (the optional-parameters field of `check`) -/
theorem paramParse_check (d : Bytes) (p : Nat) (hp : p ≤ d.length) (c' : Cur) (len : Nat)
    (h : paramParse ⟨d, p⟩ = .ok (c', len)) :
    c' = ⟨d, p + 2 + len⟩ ∧ p + 2 + len ≤ d.length ∧
    ∀ left, 2 + len ≤ left →
      Open.paramCheck ((d.drop p).take left) = .ok ((d.drop (p + 2 + len)).take (left - (2 + len))) := by
  generalize hb : d.drop p = body
  have hl : body.length = d.length - p := by rw [← hb, len_drop]
  unfold paramParse at h
  simp only at h
  rcases body with _ | ⟨typ, _ | ⟨lenb, body'⟩⟩
  · simp at hl
    rw [u8_ge (by omega)] at h; simp at h
  · simp at hl
    rw [u8_some (drop_head? hb)] at h; simp only at h
    rw [u8_ge (by omega)] at h; simp at h
  · simp at hl
    have e1 : d[p + 1]? = some lenb := by rw [drop_get?, hb]; rfl
    have hb' : d.drop (p + 2) = body' := by
      have := congrArg (List.drop 2) hb
      simpa [List.drop_drop] using this
    rw [u8_some (drop_head? hb)] at h; simp only at h
    rw [u8_some e1] at h; simp only at h
    -- the capability validation
    split at h
    · rename_i hr
      rw [seek_data rfl hp] at h; simp only at h
      by_cases hf : p + (2 + lenb.toNat) ≤ d.length
      · rw [adv_le hf] at h
        simp at h
        obtain ⟨rfl, rfl⟩ := h
        refine ⟨by congr 1; omega, by omega, ?_⟩
        intro left hleft
        have hle : lenb.toNat ≤ body'.length := by omega
        have htk : (typ :: lenb :: body').take left = typ :: lenb :: body'.take (left - 2) := by
          obtain ⟨k, rfl⟩ : ∃ k, left = k + 2 := ⟨left - 2, by omega⟩
          simp
        rw [htk]
        simp only [Open.paramCheck, takeN]
        have hle2 : lenb.toNat ≤ (body'.take (left - 2)).length := by simp; omega
        simp only [hle2, if_true]
        have hv : (body'.take (left - 2)).take lenb.toNat = body'.take lenb.toNat := by
          rw [List.take_take]; congr 1; omega
        have hrest : (body'.take (left - 2)).drop lenb.toNat =
            (d.drop (p + 2 + lenb.toNat)).take (left - (2 + lenb.toNat)) := by
          rw [List.drop_take, ← hb', List.drop_drop]; congr 1; omega
        rw [hv, hrest]
        by_cases ht : typ.toNat = 2
        · simp only [ht, if_true] at hr ⊢
          rw [adv_le (show p + 1 + 1 + lenb.toNat ≤ d.length by omega)] at hr
          simp only at hr
          have hvl : (body'.take lenb.toNat).length = lenb.toNat := by simp; omega
          have hcl : capLoop (lenb.toNat + 1) ⟨body'.take lenb.toNat, 0⟩ = .ok () := by
            rw [← hb']; exact hr
          have := capLoop_check (body'.take lenb.toNat) (lenb.toNat + 1) 0 (body'.take lenb.toNat).length
            (by omega) (by omega) (by omega) hcl
          simp only [List.drop_zero] at this
          rw [this]
        · simp [ht]
      · rw [adv_gt (by omega)] at h; simp at h
    · simp at h
    · simp at h

/-- the parameter loop of `OpenMessage::parse` (on the whole buffer, with the `opt_param_len`
accounting) accepts only what the loop of `OpenMessage::check` (on a parser limited to the
optional-parameters field) accepts, and ends exactly at the end of that field -/
theorem paramLoop_check (d : Bytes) :
    ∀ (f left p : Nat), p + left ≤ d.length → left < f → ∀ c, paramLoop f left ⟨d, p⟩ = .ok c →
      c = ⟨d, p + left⟩ ∧ ∀ F, left ≤ F → Open.paramsCheck F ((d.drop p).take left) = .ok () := by
  intro f
  induction f with
  | zero => intro left p _ h; omega
  | succ f ih =>
    intro left p hfit hf c h
    unfold paramLoop at h
    by_cases h0 : left = 0
    · subst h0
      simp at h
      refine ⟨by rw [← h]; rfl, ?_⟩
      intro F _
      cases F <;> simp [Open.paramsCheck]
    · simp only [h0, if_false] at h
      cases hpp : paramParse ⟨d, p⟩ with
      | err => simp [hpp] at h
      | panic => simp [hpp] at h
      | ok q =>
        obtain ⟨c', len⟩ := q
        simp only [hpp] at h
        obtain ⟨rfl, hle, hchk⟩ := paramParse_check d p (by omega) c' len hpp
        split at h
        · rename_i hfits
          obtain ⟨hc, hrec⟩ := ih (left - (2 + len)) (p + 2 + len) (by omega) (by omega) c h
          refine ⟨by rw [hc]; congr 1; omega, ?_⟩
          intro F hF
          cases F with
          | zero => omega
          | succ F' =>
            have h1 := hchk left hfits
            have h2 := hrec F' (by omega)
            cases hd : (d.drop p).take left with
            | nil =>
              have := congrArg List.length hd
              simp at this; omega
            | cons a t =>
              rw [hd] at h1
              simp only [Open.paramsCheck, h1, h2]
        · simp at h

/-! ### the whole message -/

theorem allFF_replicate : ∀ (l : Bytes), allFF l = true → l = List.replicate l.length 255
  | [], _ => rfl
  | b :: r, h => by
    simp [allFF] at h
    have := allFF_replicate r h.2
    simp [List.replicate_succ, h.1, ← this]

theorem u16_ok {d : Bytes} {p : Nat} {a b : UInt8} (ha : d[p]? = some a) (hb : d[p + 1]? = some b) :
    Cur.u16 ⟨d, p⟩ = .ok (a.toNat * 256 + b.toNat, ⟨d, p + 2⟩) := by
  simp [Cur.u16, ha, hb]

/-- what `Header::parse` at the start of a buffer establishes -/
theorem headerParse_ok {d : Bytes} {hlen : Nat} {c : Cur} (h : headerParse ⟨d, 0⟩ = .ok (hlen, c)) :
    c = ⟨d, 19⟩ ∧ 19 ≤ d.length ∧ d.take 16 = Open.marker ∧
    ∃ a b, d[16]? = some a ∧ d[17]? = some b ∧ hlen = a.toNat * 256 + b.toNat := by
  unfold headerParse at h
  simp only [Nat.zero_add, List.drop_zero] at h
  by_cases h16 : 16 ≤ d.length
  · simp only [h16, if_true] at h
    by_cases hff : allFF (d.take 16) = true
    · simp only [hff, if_true] at h
      have hm : d.take 16 = Open.marker := by
        have e := allFF_replicate _ hff
        have hmin : min 16 d.length = 16 := by omega
        rw [e]; simp [Open.marker, hmin]
      cases ha : d[16]? with
      | none => simp [Cur.u16, ha] at h
      | some a =>
        cases hb : d[17]? with
        | none => simp [Cur.u16, ha, hb] at h
        | some b =>
          rw [u16_ok ha hb] at h
          simp only at h
          cases ht : d[18]? with
          | none => simp [Cur.u8, ht] at h
          | some t =>
            rw [u8_some ht] at h
            simp at h
            have h18 : 18 < d.length := by
              obtain ⟨w, _⟩ := List.getElem?_eq_some_iff.mp ht; exact w
            exact ⟨h.2.symm, by omega, hm, a, b, rfl, rfl, h.1.symm⟩
    · simp [hff] at h
  · simp [h16] at h

/-- `Header::check` in closed form (sufficient direction) -/
theorem headerCheck_of (m : Bytes) (a b : UInt8) (h19 : 19 ≤ m.length) (hm : m.take 16 = Open.marker)
    (ha : m[16]? = some a) (hb : m[17]? = some b) (hlen : a.toNat * 256 + b.toNat = m.length) :
    Open.headerCheck m = some (m.drop 19) := by
  unfold Open.headerCheck takeN
  have h16 : 16 ≤ m.length := by omega
  simp only [h16, if_true, hm, ne_eq, not_true_eq_false, if_false]
  have ea : m[16] = a := by
    have := List.getElem?_eq_getElem (l := m) (i := 16) (by omega)
    rw [this] at ha; exact Option.some.inj ha
  have eb : m[17] = b := by
    have := List.getElem?_eq_getElem (l := m) (i := 17) (by omega)
    rw [this] at hb; exact Option.some.inj hb
  rw [List.drop_eq_getElem_cons (show 16 < m.length by omega),
      List.drop_eq_getElem_cons (show 16 + 1 < m.length by omega),
      List.drop_eq_getElem_cons (show 16 + 1 + 1 < m.length by omega)]
  simp only [rd16]
  have : m[16].toNat * 256 + m[16 + 1].toNat = m.length := by
    rw [ea, show m[16 + 1] = m[17] from rfl, eb]; exact hlen
  simp [this]

/-- **What `OpenMessage::parse` accepts, `OpenMessage::check` accepts.**  If `parse`, started
at the beginning of `bs` (which may extend beyond the OPEN: the rest of a BMP PeerUp), accepts
and returns `n` octets, then those `n` octets on their own pass `OpenMessage::check` – so
`OpenMessage::from_octets` would have returned the same message, and everything C03 proves of a
checked OPEN holds of it. -/
theorem openParse_check (bs : Bytes) (n : Nat) (h : openParse bs = .ok n) :
    n ≤ bs.length ∧ Open.openCheck (bs.take n) = .ok () := by
  have hle := openParse_le bs n h
  refine ⟨hle, ?_⟩
  unfold openParse at h
  cases hc : openParseCur ⟨bs, 0⟩ with
  | err => simp [hc] at h
  | panic => simp [hc] at h
  | ok cf =>
    simp only [hc] at h
    simp at h
    unfold openParseCur at hc
    simp only at hc
    cases hh : headerParse ⟨bs, 0⟩ with
    | err => simp [hh] at hc
    | panic => simp [hh] at hc
    | ok q =>
      obtain ⟨hlen, c1⟩ := q
      simp only [hh] at hc
      obtain ⟨rfl, h19, hm, a, b, ha, hb, hl⟩ := headerParse_ok hh
      by_cases h28 : 19 + 9 ≤ bs.length
      · rw [adv_le h28] at hc
        simp only at hc
        cases ho : bs[28]? with
        | none => simp [Cur.u8, ho] at hc
        | some oplb =>
          rw [u8_some ho] at hc
          simp only at hc
          have h28' : 28 < bs.length := by
            obtain ⟨w, _⟩ := List.getElem?_eq_some_iff.mp ho; exact w
          split at hc
          · simp at hc
          · rename_i hrem
            simp only [Cur.remaining] at hrem
            have hfit : 29 + oplb.toNat ≤ bs.length := by omega
            cases hp : paramLoop (oplb.toNat + 1) oplb.toNat ⟨bs, 19 + 9 + 1⟩ with
            | err => simp [hp] at hc
            | panic => simp [hp] at hc
            | ok c2 =>
              simp only [hp] at hc
              obtain ⟨rfl, hpc⟩ := paramLoop_check bs (oplb.toNat + 1) oplb.toNat (19 + 9 + 1) (by omega) (by omega) c2 hp
              rw [usub_some (Nat.zero_le _)] at hc
              simp only at hc
              split at hc
              · simp at hc
              · rename_i hlen'
                simp only [Nat.sub_zero] at hlen'
                have hn : hlen = 29 + oplb.toNat := by omega
                rw [seek_data rfl (by omega)] at hc
                simp only at hc
                have hpos : n = hlen := by
                  have := (Cur.advance_ok hc).2.1
                  simp at this; omega
                rw [hpos]
                -- the message on its own
                have hmlen : (bs.take hlen).length = hlen := by simp; omega
                have hget (i : Nat) (hi : i < hlen) : (bs.take hlen)[i]? = bs[i]? := by
                  rw [List.getElem?_take]; simp [hi]
                have hck := headerCheck_of (bs.take hlen) a b (by omega)
                  (by rw [List.take_take]; simpa [show min 16 hlen = 16 by omega] using hm)
                  (by rw [hget 16 (by omega)]; exact ha) (by rw [hget 17 (by omega)]; exact hb)
                  (by rw [hmlen]; omega)
                unfold Open.openCheck
                rw [hck]
                simp only [takeN]
                have h9 : 9 ≤ ((bs.take hlen).drop 19).length := by simp; omega
                simp only [h9, if_true, List.drop_drop]
                have hd28 : (bs.take hlen).drop (19 + 9) = oplb :: (bs.take hlen).drop 29 := by
                  have hlt : 28 < (bs.take hlen).length := by omega
                  rw [List.drop_eq_getElem_cons hlt]
                  congr 1
                  have := hget 28 (by omega)
                  rw [List.getElem?_eq_getElem hlt, ho] at this
                  exact Option.some.inj this
                rw [hd28]
                simp only
                have hps : (bs.take hlen).drop 29 = (bs.drop 29).take oplb.toNat := by
                  rw [List.drop_take]; congr 1; omega
                have hpl : ((bs.drop 29).take oplb.toNat).length = oplb.toNat := by simp; omega
                rw [hps]
                have hle2 : oplb.toNat ≤ ((bs.drop 29).take oplb.toNat).length := by omega
                simp only [hle2, if_true]
                have htk : ((bs.drop 29).take oplb.toNat).take oplb.toNat = (bs.drop 29).take oplb.toNat := by
                  rw [List.take_take]; simp
                have hdr : ((bs.drop 29).take oplb.toNat).drop oplb.toNat = [] := by
                  simp
                rw [htk, hdr, hpl]
                have := hpc oplb.toNat (Nat.le_refl _)
                simp only [show 19 + 9 + 1 = 29 from rfl] at this
                rw [this]
                simp
      · rw [adv_gt (by omega)] at hc; simp at hc

/-! ### the converse: what `check` accepts, `parse` accepts -/

/-- converse of `capLoop_check` -/
theorem capsCheck_capLoop (v : Bytes) :
    ∀ (f q F : Nat), q ≤ v.length → v.length - q < f →
      Open.capsCheck F (v.drop q) = .ok () → capLoop f ⟨v, q⟩ = .ok () := by
  intro f
  induction f with
  | zero => intro q F _ h; omega
  | succ f ih =>
    intro q F hq hf h
    unfold capLoop
    by_cases hlt : q < v.length
    · simp only [hlt, if_true]
      cases hd : v.drop q with
      | nil => have := congrArg List.length hd; simp at this; omega
      | cons a t =>
        rw [hd] at h
        cases F with
        | zero => simp [Open.capsCheck] at h
        | succ F' =>
          simp only [Open.capsCheck] at h
          cases hpc : Open.parseCap (a :: t) with
          | err => simp [hpc] at h
          | panic => simp [hpc] at h
          | ok x =>
            obtain ⟨cap, r⟩ := x
            simp only [hpc] at h
            rw [← hd] at hpc
            obtain ⟨hcp, hr⟩ := (capParse_agree v q hq).2 cap r hpc
            obtain ⟨cap', _, hc', hle⟩ := (capParse_agree v q hq).1 _ hcp
            have hL : cap.value.length = cap'.value.length := by
              have := congrArg Cur.pos hc'
              simp at this; omega
            rw [hcp]
            simp only
            rw [hr] at h
            exact ih (q + 2 + cap.value.length) F' (by omega) (by omega) h
    · simp [hlt]

/-- converse of `paramParse_check` -/
theorem paramCheck_paramParse (d : Bytes) (p left : Nat) (hp : p ≤ d.length) (r : Bytes)
    (h : Open.paramCheck ((d.drop p).take left) = .ok r) :
    ∃ len, 2 + len ≤ left ∧ p + 2 + len ≤ d.length ∧ paramParse ⟨d, p⟩ = .ok (⟨d, p + 2 + len⟩, len) ∧
      r = (d.drop (p + 2 + len)).take (left - (2 + len)) := by
  generalize hb : d.drop p = body at h
  have hl : body.length = d.length - p := by rw [← hb, len_drop]
  rcases body with _ | ⟨typ, _ | ⟨lenb, body'⟩⟩
  · simp [Open.paramCheck] at h
  · cases left with
    | zero => simp [Open.paramCheck] at h
    | succ k => simp [Open.paramCheck] at h
  · have hleft : 2 ≤ left := by
      rcases left with _ | _ | k
      · simp [Open.paramCheck] at h
      · simp [Open.paramCheck] at h
      · omega
    have htk : (typ :: lenb :: body').take left = typ :: lenb :: body'.take (left - 2) := by
      obtain ⟨k, rfl⟩ : ∃ k, left = k + 2 := ⟨left - 2, by omega⟩
      simp
    rw [htk] at h
    simp only [Open.paramCheck, takeN] at h
    by_cases hfit : lenb.toNat ≤ (body'.take (left - 2)).length
    · simp only [hfit, if_true] at h
      simp only [List.length_take] at hfit
      simp at hl
      have hle : lenb.toNat ≤ body'.length := by omega
      have hle2 : 2 + lenb.toNat ≤ left := by omega
      have e1 : d[p + 1]? = some lenb := by rw [drop_get?, hb]; rfl
      have hb' : d.drop (p + 2) = body' := by
        have := congrArg (List.drop 2) hb
        simpa [List.drop_drop] using this
      have hv : (body'.take (left - 2)).take lenb.toNat = body'.take lenb.toNat := by
        rw [List.take_take]; congr 1; omega
      have hrest : (body'.take (left - 2)).drop lenb.toNat =
          (d.drop (p + 2 + lenb.toNat)).take (left - (2 + lenb.toNat)) := by
        rw [List.drop_take, ← hb', List.drop_drop]; congr 1; omega
      rw [hv, hrest] at h
      have hvl : (body'.take lenb.toNat).length = lenb.toNat := by simp; omega
      have hmin : min lenb.toNat body'.length = lenb.toNat := by omega
      simp only [List.length_take, hmin] at h
      refine ⟨lenb.toNat, hle2, by omega, ?_, ?_⟩
      · unfold paramParse
        simp only
        rw [u8_some (drop_head? hb)]; simp only
        rw [u8_some e1]; simp only
        by_cases ht : typ.toNat = 2
        · simp only [ht, if_true] at h ⊢
          rw [adv_le (show p + 1 + 1 + lenb.toNat ≤ d.length by omega)]
          simp only
          cases hcc : Open.capsCheck lenb.toNat (body'.take lenb.toNat) with
          | err => simp [hcc] at h
          | panic => simp [hcc] at h
          | ok u =>
            have := capsCheck_capLoop (body'.take lenb.toNat) (lenb.toNat + 1) 0 lenb.toNat
              (by omega) (by omega) (by simpa using hcc)
            rw [show d.drop (p + 1 + 1) = body' from hb', this]
            simp only
            rw [seek_data rfl hp]; simp only
            rw [adv_le (by omega)]
            simp; omega
        · simp only [ht, if_false]
          rw [seek_data rfl hp]; simp only
          rw [adv_le (by omega)]
          simp; omega
      · by_cases ht : typ.toNat = 2
        · simp only [ht, if_true] at h
          cases hcc : Open.capsCheck lenb.toNat (body'.take lenb.toNat) with
          | err => simp [hcc] at h
          | panic => simp [hcc] at h
          | ok u => simp [hcc] at h; exact h.symm
        · simp [ht] at h; exact h.symm
    · simp only [List.length_take] at hfit h
      rw [if_neg hfit] at h
      cases h

/-- converse of `paramLoop_check` -/
theorem paramsCheck_paramLoop (d : Bytes) :
    ∀ (f left p F : Nat), p + left ≤ d.length → left < f →
      Open.paramsCheck F ((d.drop p).take left) = .ok () → paramLoop f left ⟨d, p⟩ = .ok ⟨d, p + left⟩ := by
  intro f
  induction f with
  | zero => intro left p F _ h; omega
  | succ f ih =>
    intro left p F hfit hf h
    unfold paramLoop
    by_cases h0 : left = 0
    · subst h0; simp
    · simp only [h0, if_false]
      cases hd : (d.drop p).take left with
      | nil =>
        have := congrArg List.length hd
        simp at this; omega
      | cons a t =>
        rw [hd] at h
        cases F with
        | zero => simp [Open.paramsCheck] at h
        | succ F' =>
          simp only [Open.paramsCheck] at h
          cases hpc : Open.paramCheck (a :: t) with
          | err => simp [hpc] at h
          | panic => simp [hpc] at h
          | ok r =>
            simp only [hpc] at h
            rw [← hd] at hpc
            obtain ⟨len, hle, hle2, hpp, rfl⟩ := paramCheck_paramParse d p left (by omega) r hpc
            rw [hpp]
            simp only [hle, if_true]
            have := ih (left - (2 + len)) (p + 2 + len) F' (by omega) (by omega) h
            rw [this]
            congr 2; omega

theorem allFF_marker : allFF Open.marker = true := by decide

/-- converse of `openParse_check`: an OPEN that passes `OpenMessage::check` is accepted by
`OpenMessage::parse` at the start of any buffer that begins with it, which consumes exactly it -/
theorem openCheck_parse (m tail : Bytes) (h : Open.openCheck m = .ok ()) :
    openParse (m ++ tail) = .ok m.length := by
  obtain ⟨t, f9, opl, ps, hb, hf9, hps, hlt, hpc⟩ := Open.openCheck_ok h
  have hmlen : m.length = 29 + ps.length := by
    have := congrArg List.length hb
    simp [Open.header_length, hf9] at this; omega
  -- the octets by position
  have hd : m ++ tail = Open.marker ++ (be16 m.length ++ (t :: (f9 ++ (opl :: (ps ++ tail))))) := by
    conv => lhs; rw [hb]
    simp [Open.header]
  generalize hD : m ++ tail = D at hd
  have hDlen : D.length = m.length + tail.length := by rw [← hD]; simp
  have h16 : D.take 16 = Open.marker := by rw [hd]; simp [Open.marker]
  have hdrop16 : D.drop 16 = be16 m.length ++ (t :: (f9 ++ (opl :: (ps ++ tail)))) := by
    rw [hd]; simp [Open.marker]
  have e16 : D[16]? = some (UInt8.ofNat (m.length / 256)) := by
    have := drop_get? D 16 0; rw [hdrop16] at this; simpa [be16] using this
  have e17 : D[17]? = some (UInt8.ofNat m.length) := by
    have := drop_get? D 16 1; rw [hdrop16] at this; simpa [be16] using this
  have e18 : D[18]? = some t := by
    have := drop_get? D 16 2; rw [hdrop16] at this; simpa [be16] using this
  have e28 : D[28]? = some opl := by
    have := drop_get? D 16 12; rw [hdrop16] at this
    simp [be16, hf9] at this
    simpa using this
  have hdrop29 : D.drop 29 = ps ++ tail := by
    have : D.drop 29 = (D.drop 16).drop 13 := by rw [List.drop_drop]
    rw [this, hdrop16]
    simp [be16, List.drop_append, hf9]
  have hhdr : headerParse ⟨D, 0⟩ = .ok (m.length, ⟨D, 19⟩) := by
    unfold headerParse
    simp only [Nat.zero_add, List.drop_zero]
    have : 16 ≤ D.length := by omega
    simp only [this, if_true, h16, allFF_marker]
    rw [u16_ok e16 e17]; simp only
    rw [u8_some e18]
    simp [UInt8.toNat_ofNat']
    omega
  unfold openParse openParseCur
  simp only
  rw [hhdr]; simp only
  rw [adv_le (by omega)]; simp only
  rw [u8_some e28]; simp only
  have hrem : ¬ opl.toNat > (⟨D, 19 + 9 + 1⟩ : Cur).remaining := by
    simp only [Cur.remaining]; omega
  simp only [hrem, if_false]
  have hpl := paramsCheck_paramLoop D (opl.toNat + 1) opl.toNat (19 + 9 + 1) ps.length (by omega) (by omega)
    (by
      have : (D.drop (19 + 9 + 1)).take opl.toNat = ps := by
        rw [show 19 + 9 + 1 = 29 from rfl, hdrop29, ← hps]; simp
      rw [this]; exact hpc)
  rw [hpl]; simp only
  rw [usub_some (Nat.zero_le _)]; simp only
  have : ¬ (19 + 9 + 1 + opl.toNat - 0 ≠ m.length) := by simp; omega
  simp only [this, if_false]
  rw [seek_data rfl (by omega)]; simp only
  rw [adv_le (by omega)]
  simp

/-- **`OpenMessage::parse` and `OpenMessage::check` accept the same OPENs**: `parse`, started at
the beginning of `bs`, accepts and returns `n` octets exactly when the first `n` octets of `bs`
pass `check`. -/
theorem openParse_iff_check (bs : Bytes) (n : Nat) :
    openParse bs = .ok n ↔ n ≤ bs.length ∧ Open.openCheck (bs.take n) = .ok () := by
  constructor
  · exact openParse_check bs n
  · rintro ⟨hle, h⟩
    have := openCheck_parse (bs.take n) (bs.drop n) h
    rw [List.take_append_drop] at this
    rw [this]; simp; omega

end Rc.OpenBridge
