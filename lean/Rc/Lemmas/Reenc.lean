/-
Lemmas for C07 (Rc/Model/Reenc.lean): the flags octet of the `Unimplemented` /
`Invalid` arms, reading back what the two arms write, what `decAttr` can
return, typed values that come out of the parser.
-/
import Rc.Model.Reenc
import Rc.Thm.C04

namespace Rc.Reenc
open Rc Rc.AsPath Rc.Attr

/-! ### the flags octet -/

theorem rawFlags_short : ∀ f, f < 256 →
    ((f ||| 0x20) &&& 0xEF) < 256 ∧ ((f ||| 0x20) &&& 0xEF) / 128 % 2 = f / 128 % 2 ∧
    ((f ||| 0x20) &&& 0xEF) / 64 % 2 = f / 64 % 2 ∧ ((f ||| 0x20) &&& 0xEF) / 32 % 2 = 1 ∧
    ((f ||| 0x20) &&& 0xEF) / 16 % 2 = 0 ∧ ((f ||| 0x20) &&& 0xEF) % 16 = f % 16 := by
  decide +kernel

theorem rawFlags_long : ∀ f, f < 256 →
    (f ||| 0x20 ||| 0x10) < 256 ∧ (f ||| 0x20 ||| 0x10) / 128 % 2 = f / 128 % 2 ∧
    (f ||| 0x20 ||| 0x10) / 64 % 2 = f / 64 % 2 ∧ (f ||| 0x20 ||| 0x10) / 32 % 2 = 1 ∧
    (f ||| 0x20 ||| 0x10) / 16 % 2 = 1 ∧ (f ||| 0x20 ||| 0x10) % 16 = f % 16 := by
  decide +kernel

/-- optional, transitive and the four low bits as carried; PARTIAL set;
EXTENDED_LEN exactly for values longer than 255 octets -/
theorem rawFlags_bits (f n : Nat) (hf : f < 256) :
    rawFlags f n < 256 ∧ rawFlags f n / 128 % 2 = f / 128 % 2 ∧ rawFlags f n / 64 % 2 = f / 64 % 2 ∧
      rawFlags f n / 32 % 2 = 1 ∧ rawFlags f n / 16 % 2 = (if n > 255 then 1 else 0) ∧
      rawFlags f n % 16 = f % 16 := by
  unfold rawFlags
  by_cases h : n > 255
  · simp only [h, if_true]; exact rawFlags_long f hf
  · simp only [h, if_false]; exact rawFlags_short f hf

theorem rawFlags_toNat (f n : Nat) (hf : f < 256) : (UInt8.ofNat (rawFlags f n)).toNat = rawFlags f n := by
  have := (rawFlags_bits f n hf).1
  simp [UInt8.toNat_ofNat']; omega

theorem rawFlags_ext (f n : Nat) (hf : f < 256) :
    extBit (UInt8.ofNat (rawFlags f n)) = decide (n > 255) := by
  unfold extBit
  rw [rawFlags_toNat f n hf]
  have := (rawFlags_bits f n hf).2.2.2.2.1
  by_cases h : n > 255 <;> simp [h] at this ⊢ <;> omega

/-! ### the two raw arms -/

theorem rawHeader_length (f c n : Nat) : (rawHeader f c n).length = headerLen n := by
  unfold rawHeader headerLen
  split <;> simp

/-- below 65536 octets what the arms write is the attribute as it may arrive
(`Rc.Thm.C04.rawAttr`) with the normalised flags -/
theorem rawHeader_rawAttr (f c : Nat) (v : Bytes) (hf : f < 256) (hv : v.length ≤ 65535) :
    rawHeader f c v.length ++ v =
      Rc.Thm.C04.rawAttr (UInt8.ofNat (rawFlags f v.length)) (UInt8.ofNat c) v ∧
    Rc.Thm.C04.rawFits (UInt8.ofNat (rawFlags f v.length)) v = true := by
  unfold Rc.Thm.C04.rawAttr Rc.Thm.C04.rawFits rawHeader
  rw [rawFlags_ext f _ hf]
  by_cases h : v.length > 255
  · have : min v.length 65535 = v.length := by omega
    simp [h, this]; omega
  · have : min v.length 255 = v.length := by omega
    simp [h, this]; omega

theorem splitAttr_raw' (fl tc : UInt8) (v r : Bytes) (h : Rc.Thm.C04.rawFits fl v = true) :
    splitAttr (Rc.Thm.C04.rawAttr fl tc v ++ r) = some (fl, tc, v, r) := by
  unfold Rc.Thm.C04.rawAttr Rc.Thm.C04.rawFits at *
  by_cases hx : extBit fl = true
  · simp only [hx, if_true, decide_eq_true_eq] at h
    simp only [hx, if_true, List.cons_append, List.append_assoc, splitAttr,
      rd16_be16 v.length (by omega), takeN_append]
  · simp only [hx, Bool.false_eq_true, if_false, decide_eq_true_eq] at h
    have ht : (UInt8.ofNat v.length).toNat = v.length := by simp [UInt8.toNat_ofNat']; omega
    simp only [hx, Bool.false_eq_true, if_false, List.cons_append, splitAttr, rd8, ht, takeN_append]

/-- the independent header walk reads back flags, code and the value octets
unchanged, whatever follows -/
theorem splitAttr_rawHeader (f c : Nat) (v r : Bytes) (hf : f < 256) (hv : v.length ≤ 65535) :
    splitAttr (rawHeader f c v.length ++ v ++ r) =
      some (UInt8.ofNat (rawFlags f v.length), UInt8.ofNat c, v, r) := by
  obtain ⟨e, hfit⟩ := rawHeader_rawAttr f c v hf hv
  rw [e]
  exact splitAttr_raw' _ _ v r hfit

/-! ### what `splitAttr` / `decAttr` return -/

theorem splitAttr_spec {bs : Bytes} {fl tc : UInt8} {v r : Bytes} (h : splitAttr bs = some (fl, tc, v, r)) :
    v.length ≤ 65535 ∧ bs.length = (if extBit fl then 4 else 3) + v.length + r.length ∧
      bs = Rc.Thm.C04.rawAttr fl tc v ++ r ∧ (extBit fl = false → v.length ≤ 255) := by
  match bs, h with
  | a :: b :: rest, h =>
    unfold splitAttr at h
    by_cases hx : extBit a = true
    · simp only [hx, if_true] at h
      match rest, h with
      | x :: y :: r0, h =>
        simp only [rd16] at h
        cases ht : takeN (x.toNat * 256 + y.toNat) r0 with
        | none => simp [ht] at h
        | some p =>
          obtain ⟨v', r'⟩ := p
          simp only [ht, Option.some.injEq, Prod.mk.injEq] at h
          obtain ⟨rfl, rfl, rfl, rfl⟩ := h
          obtain ⟨hl, he⟩ := takeN_length ht
          have := x.toNat_lt; have := y.toNat_lt
          refine ⟨by omega, by simp [hx, he]; omega, ?_, by simp [hx]⟩
          unfold Rc.Thm.C04.rawAttr
          simp only [hx, if_true, hl, be16_eq, he, List.cons_append, List.append_assoc, List.nil_append]
      | [], h => simp [rd16] at h
      | [_], h => simp [rd16] at h
    · simp only [hx, Bool.false_eq_true, if_false] at h
      match rest, h with
      | x :: r0, h =>
        simp only [rd8] at h
        cases ht : takeN x.toNat r0 with
        | none => simp [ht] at h
        | some p =>
          obtain ⟨v', r'⟩ := p
          simp only [ht, Option.some.injEq, Prod.mk.injEq] at h
          obtain ⟨rfl, rfl, rfl, rfl⟩ := h
          obtain ⟨hl, he⟩ := takeN_length ht
          have := x.toNat_lt
          have hxf : extBit a = false := by simpa using hx
          refine ⟨by omega, by simp [hxf, he]; omega, ?_, fun _ => by omega⟩
          unfold Rc.Thm.C04.rawAttr
          simp only [hxf, Bool.false_eq_true, if_false, hl, he, List.cons_append, List.append_assoc,
            List.nil_append, UInt8.ofNat_toNat]
      | [], h => simp [rd8] at h

/-! ### values that come out of the value parsers -/

theorem rd32_spec {v r : Bytes} {n : Nat} (h : rd32 v = some (n, r)) :
    n < 4294967296 ∧ v = be32 n ++ r := by
  match v, h with
  | a :: b :: c :: d :: r0, h =>
    simp only [rd32, Option.some.injEq, Prod.mk.injEq] at h
    obtain ⟨rfl, rfl⟩ := h
    have := a.toNat_lt; have := b.toNat_lt; have := c.toNat_lt; have := d.toNat_lt
    exact ⟨by omega, by rw [be32_eq]; rfl⟩

theorem rd32_some {v : Bytes} (h : 4 ≤ v.length) : ∃ n r, rd32 v = some (n, r) := by
  match v, h with
  | a :: b :: c :: d :: r0, _ => exact ⟨_, _, rfl⟩

theorem dec32O_spec : ∀ (f : Nat) (v : Bytes) (l : List Nat), v.length ≤ f → dec32O v = .ok l →
    l.all u32ok = true ∧ enc32 l = v
  | _, [], l, _, h => by
    simp only [dec32O, Outcome.ok.injEq] at h; subst h; simp
  | 0, _ :: _, _, hf, _ => by simp at hf
  | f + 1, a :: b :: c :: d :: r, l, hf, h => by
    simp only [dec32O] at h
    cases hr : dec32O r with
    | ok l' =>
      simp only [hr, Outcome.ok.injEq] at h
      subst h
      obtain ⟨i1, i2⟩ := dec32O_spec f r l' (by simp at hf; omega) hr
      have := a.toNat_lt; have := b.toNat_lt; have := c.toNat_lt; have := d.toNat_lt
      refine ⟨?_, ?_⟩
      · simp only [List.all_cons, i1, Bool.and_true, u32ok, decide_eq_true_eq]; omega
      · simp only [enc32_cons, be32_eq, i2]; rfl
    | err => simp [hr] at h
    | panic => simp [hr] at h
  | _ + 1, [_], _, _, h => by simp [dec32O] at h
  | _ + 1, [_, _], _, _, h => by simp [dec32O] at h
  | _ + 1, [_, _, _], _, _, h => by simp [dec32O] at h

theorem dec32O_some : ∀ (f : Nat) (v : Bytes), v.length ≤ f → v.length % 4 = 0 → ∃ l, dec32O v = .ok l
  | _, [], _, _ => ⟨[], rfl⟩
  | 0, _ :: _, hf, _ => by simp at hf
  | f + 1, a :: b :: c :: d :: r, hf, hm => by
    obtain ⟨l, hl⟩ := dec32O_some f r (by simp at hf; omega) (by simp at hm; omega)
    exact ⟨(a.toNat * 16777216 + b.toNat * 65536 + c.toNat * 256 + d.toNat) :: l, by simp [dec32O, hl]⟩
  | _ + 1, [_], _, hm => by simp at hm
  | _ + 1, [_, _], _, hm => by simp at hm
  | _ + 1, [_, _, _], _, hm => by simp at hm

theorem chunkO_spec (k : Nat) : ∀ (f : Nat) (v : Bytes) (l : List Bytes), chunkO k f v = .ok l →
    recsOk k l = true ∧ l.flatten = v
  | 0, v, l, h => by
    unfold chunkO at h
    by_cases he : v.isEmpty = true
    · simp only [he, if_true, Outcome.ok.injEq] at h; subst h
      have : v = [] := by simpa using he
      simp [recsOk, this]
    · simp [he] at h
  | f + 1, v, l, h => by
    unfold chunkO at h
    by_cases he : v.isEmpty = true
    · simp only [he, if_true, Outcome.ok.injEq] at h; subst h
      have : v = [] := by simpa using he
      simp [recsOk, this]
    · simp only [he, Bool.false_eq_true, if_false] at h
      cases ht : takeN k v with
      | none => simp [ht] at h
      | some p =>
        obtain ⟨c, r⟩ := p
        simp only [ht] at h
        cases hr : chunkO k f r with
        | ok l' =>
          simp only [hr, Outcome.ok.injEq] at h; subst h
          obtain ⟨i1, i2⟩ := chunkO_spec k f r l' hr
          obtain ⟨hl, hv⟩ := takeN_length ht
          refine ⟨?_, by simp [i2, hv]⟩
          simp only [recsOk, List.all_cons, Bool.and_eq_true, beq_iff_eq] at i1 ⊢
          exact ⟨hl, i1⟩
        | err => simp [hr] at h
        | panic => simp [hr] at h

theorem chunkO_some (k : Nat) (hk : 0 < k) : ∀ (f : Nat) (v : Bytes), v.length ≤ f → v.length % k = 0 →
    ∃ l, chunkO k f v = .ok l
  | 0, v, hf, _ => by
    have : v = [] := List.eq_nil_of_length_eq_zero (by omega)
    subst this; exact ⟨[], by simp [chunkO]⟩
  | f + 1, v, hf, hm => by
    unfold chunkO
    by_cases he : v.isEmpty = true
    · exact ⟨[], by simp [he]⟩
    · have hne : v ≠ [] := by simpa using he
      have hpos : 0 < v.length := List.length_pos_iff.mpr hne
      have hkl : k ≤ v.length := Nat.le_of_dvd hpos (Nat.dvd_of_mod_eq_zero hm)
      have ht : takeN k v = some (v.take k, v.drop k) := by simp [takeN, hkl]
      have hdl : (v.drop k).length = v.length - k := List.length_drop
      obtain ⟨l, hl⟩ := chunkO_some k hk f (v.drop k) (by omega) (by
        rw [hdl]
        have h2 := Nat.sub_mod_eq_zero_of_mod_eq (m := v.length) (n := k) (k := k) (by simp [hm])
        exact h2)
      exact ⟨v.take k :: l, by simp [he, ht, hl]⟩

theorem validate_codes {c : Nat} {four : Bool} {v : Bytes} {b : Bool} (h : validate c four v = some b) :
    c = 1 ∨ c = 2 ∨ c = 3 ∨ c = 4 ∨ c = 5 ∨ c = 6 ∨ c = 7 ∨ c = 8 ∨ c = 9 ∨ c = 10 ∨ c = 16 ∨
      c = 17 ∨ c = 18 ∨ c = 20 ∨ c = 21 ∨ c = 25 ∨ c = 32 ∨ c = 35 ∨ c = 128 ∨ c = 255 := by
  by_cases hc : c = 1 ∨ c = 2 ∨ c = 3 ∨ c = 4 ∨ c = 5 ∨ c = 6 ∨ c = 7 ∨ c = 8 ∨ c = 9 ∨ c = 10 ∨ c = 16 ∨
      c = 17 ∨ c = 18 ∨ c = 20 ∨ c = 21 ∨ c = 25 ∨ c = 32 ∨ c = 35 ∨ c = 128 ∨ c = 255
  · exact hc
  · simp only [not_or] at hc
    simp [validate, hc] at h

theorem canonical_of_validate {c : Nat} {four : Bool} {v : Bytes} {b : Bool} (h : validate c four v = some b) :
    ∃ cf, canonicalFlags c = some cf ∧ (cf = 0x40 ∨ cf = 0x80 ∨ cf = 0xC0) ∧ c < 256 := by
  rcases validate_codes h with h | h | h | h | h | h | h | h | h | h | h | h | h | h | h | h | h | h | h | h <;>
    subst h <;> simp [canonicalFlags]

theorem validate_none_of_canonical {c : Nat} {four : Bool} {v : Bytes} (h : canonicalFlags c = none) :
    validate c four v = none := by
  cases hv : validate c four v with
  | none => rfl
  | some b =>
    obtain ⟨cf, h1, _⟩ := canonical_of_validate hv
    rw [h] at h1; cases h1

private theorem len1 {v : Bytes} (h : v.length = 1) : ∃ a, v = [a] := by
  match v, h with
  | [a], _ => exact ⟨a, rfl⟩
private theorem len4 {v : Bytes} (h : v.length = 4) : ∃ a b c d, v = [a, b, c, d] := by
  match v, h with
  | [a, b, c, d], _ => exact ⟨a, b, c, d, rfl⟩
private theorem len5 {v : Bytes} (h : v.length = 5) : ∃ x a b c d, v = [x, a, b, c, d] := by
  match v, h with
  | [x, a, b, c, d], _ => exact ⟨x, a, b, c, d, rfl⟩
private theorem len8 {v : Bytes} (h : v.length = 8) : ∃ a b c d e f g i, v = [a, b, c, d, e, f, g, i] := by
  match v, h with
  | [a, b, c, d, e, f, g, i], _ => exact ⟨a, b, c, d, e, f, g, i, rfl⟩

private theorem u32_lt (a b c d : UInt8) :
    a.toNat * 16777216 + b.toNat * 65536 + c.toNat * 256 + d.toNat < 4294967296 := by
  have := a.toNat_lt; have := b.toNat_lt; have := c.toNat_lt; have := d.toNat_lt; omega

/-- the six kinds whose value is one 32-bit number -/
private theorem u32_kind (c : Nat) (mk : Nat → TypedAttr) (v : Bytes) (hl : v.length = 4)
    (hp : ∀ w n r, rd32 w = some (n, r) → parseValue c true w = .ok (mk n))
    (hw : ∀ n, WfAttr (mk n) = u32ok n) (hc : ∀ n, (mk n).code = c)
    (hv : ∀ n, composeValue (mk n) = .ok (be32 n)) :
    ∃ a, parseValue c true v = .ok a ∧ WfAttr a = true ∧ a.code = c ∧ composeValue a = .ok v := by
  obtain ⟨a, b, c', d, rfl⟩ := len4 hl
  refine ⟨mk (a.toNat * 16777216 + b.toNat * 65536 + c'.toNat * 256 + d.toNat), hp _ _ [] rfl, ?_, hc _,
    by rw [hv, be32_eq]⟩
  rw [hw]; simp only [u32ok, decide_eq_true_eq]; exact u32_lt a b c' d

/-- what the two AS path kinds say about a validated value -/
def PathView (v : Bytes) (h : HopPath) : Prop :=
  ∃ ss : List Seg, (∀ s ∈ ss, s.wireOk true = true ∧ s.four = true) ∧ v = encSegs true ss ∧ h = hopsOfSegs ss

private theorem path_kind (v : Bytes) (hv : pathValid true v = true) :
    ∃ h, parsePath true v = .ok h ∧ WfHops h = true ∧ AllFour h = true ∧ PathView v h := by
  have hc : check true v = .ok () := by
    unfold pathValid at hv
    cases hcv : check true v with
    | ok u => cases u; rfl
    | err => simp [hcv] at hv
    | panic => simp [hcv] at hv
  obtain ⟨ss, hss, hve, _, hh, _⟩ := wire_view true v hc
  exact ⟨hopsOfSegs ss, by simp [parsePath, hc, hh], wfHops_hopsOfSegs true ss hss,
    allFour_hopsOfSegs ss (fun s hs => (hss s hs).2), ss, hss, hve, rfl⟩

/-- **every value `validate` accepts has a typed reading** (four-octet session):
`parse` succeeds, the value satisfies the type invariants of C04 (`WfAttr`, so
K2 cannot arise from a received attribute), it is of the kind of its code, and
except for the two AS path kinds `compose_value` writes back the very octets
received. -/
theorem typed_spec (c : Nat) (v : Bytes) (hv : validate c true v = some true) :
    ∃ a, parseValue c true v = .ok a ∧ WfAttr a = true ∧ a.code = c ∧
      ((c ≠ 2 ∧ c ≠ 17) → composeValue a = .ok v) ∧
      (c = 2 → ∃ h, a = .asPath h ∧ PathView v h) ∧ (c = 17 → ∃ h, a = .as4Path h ∧ PathView v h) := by
  rcases validate_codes hv with h | h | h | h | h | h | h | h | h | h | h | h | h | h | h | h | h | h | h | h <;>
    subst h
  · -- 1 ORIGIN
    have hl : v.length = 1 := by simpa [validate] using hv
    obtain ⟨a, rfl⟩ := len1 hl
    exact ⟨.origin a.toNat, by simp [parseValue, rd8], by simp [WfAttr, WfAttrW, pathsFour, a.toNat_lt], rfl,
      fun _ => by simp [composeValue], by simp, by simp⟩
  · -- 2 AS_PATH
    have hp : pathValid true v = true := by simpa [validate] using hv
    obtain ⟨h, p1, p2, p3, p4⟩ := path_kind v hp
    exact ⟨.asPath h, by simp [parseValue, p1], by simp [WfAttr, WfAttrW, pathsFour, p2, p3], rfl,
      fun hh => absurd rfl hh.1, fun _ => ⟨h, rfl, p4⟩, by simp⟩
  · -- 3 NEXT_HOP
    have hl : v.length = 4 := by simpa [validate] using hv
    obtain ⟨a, h1, h2, h3, h4⟩ := u32_kind 3 .nextHop v hl (fun w n r h => by simp [parseValue, h])
      (fun n => by simp [WfAttr, WfAttrW, pathsFour]) (fun _ => rfl) (fun _ => rfl)
    exact ⟨a, h1, h2, h3, fun _ => h4, by simp, by simp⟩
  · -- 4 MED
    have hl : v.length = 4 := by simpa [validate] using hv
    obtain ⟨a, h1, h2, h3, h4⟩ := u32_kind 4 .med v hl (fun w n r h => by simp [parseValue, h])
      (fun n => by simp [WfAttr, WfAttrW, pathsFour]) (fun _ => rfl) (fun _ => rfl)
    exact ⟨a, h1, h2, h3, fun _ => h4, by simp, by simp⟩
  · -- 5 LOCAL_PREF
    have hl : v.length = 4 := by simpa [validate] using hv
    obtain ⟨a, h1, h2, h3, h4⟩ := u32_kind 5 .localPref v hl (fun w n r h => by simp [parseValue, h])
      (fun n => by simp [WfAttr, WfAttrW, pathsFour]) (fun _ => rfl) (fun _ => rfl)
    exact ⟨a, h1, h2, h3, fun _ => h4, by simp, by simp⟩
  · -- 6 ATOMIC_AGGREGATE
    have hl : v.length = 0 := by simpa [validate] using hv
    have : v = [] := List.eq_nil_of_length_eq_zero hl
    subst this
    exact ⟨.atomicAggregate, by simp [parseValue], by simp [WfAttr, WfAttrW, pathsFour], rfl,
      fun _ => by simp [composeValue], by simp, by simp⟩
  · -- 7 AGGREGATOR
    have hl : v.length = 8 := by simpa [validate] using hv
    obtain ⟨a, b, c, d, e, f, g, i, rfl⟩ := len8 hl
    refine ⟨.aggregator (a.toNat * 16777216 + b.toNat * 65536 + c.toNat * 256 + d.toNat)
      (e.toNat * 16777216 + f.toNat * 65536 + g.toNat * 256 + i.toNat), by simp [parseValue, rd32], ?_, rfl,
      fun _ => by simp [composeValue, be32_eq], by simp, by simp⟩
    simp only [WfAttr, WfAttrW, pathsFour, u32ok, Bool.and_true, Bool.and_eq_true, decide_eq_true_eq]
    exact ⟨u32_lt a b c d, u32_lt e f g i⟩
  · -- 8 COMMUNITIES
    have hl : v.length % 4 = 0 := by simpa [validate] using hv
    obtain ⟨l, hd⟩ := dec32O_some v.length v (Nat.le_refl _) hl
    obtain ⟨i1, i2⟩ := dec32O_spec v.length v l (Nat.le_refl _) hd
    refine ⟨.communities (l.foldl SCL.add SCL.empty), by simp [parseValue, hd], Rc.Thm.C04.scl_wf l i1, rfl,
      fun _ => ?_, by simp, by simp⟩
    simp [composeValue, (Rc.Thm.C04.scl_bookkeeping l).1, i2]
  · -- 9 ORIGINATOR_ID
    have hl : v.length = 4 := by simpa [validate] using hv
    obtain ⟨a, h1, h2, h3, h4⟩ := u32_kind 9 .originatorId v hl (fun w n r h => by simp [parseValue, h])
      (fun n => by simp [WfAttr, WfAttrW, pathsFour]) (fun _ => rfl) (fun _ => rfl)
    exact ⟨a, h1, h2, h3, fun _ => h4, by simp, by simp⟩
  · -- 10 CLUSTER_LIST
    have hl : v.length % 4 = 0 := by simpa [validate] using hv
    obtain ⟨l, hd⟩ := dec32O_some v.length v (Nat.le_refl _) hl
    obtain ⟨i1, i2⟩ := dec32O_spec v.length v l (Nat.le_refl _) hd
    exact ⟨.clusterList l, by simp [parseValue, hd], by simp [WfAttr, WfAttrW, pathsFour, i1], rfl,
      fun _ => by simp [composeValue, i2], by simp, by simp⟩
  · -- 16 EXTENDED_COMMUNITIES
    have hl : v.length % 8 = 0 := by simpa [validate] using hv
    obtain ⟨l, hd⟩ := chunkO_some 8 (by omega) v.length v (Nat.le_refl _) hl
    obtain ⟨i1, i2⟩ := chunkO_spec 8 v.length v l hd
    exact ⟨.extCommunities l, by simp [parseValue, hd], by simp [WfAttr, WfAttrW, pathsFour, i1], rfl,
      fun _ => by simp [composeValue, i2], by simp, by simp⟩
  · -- 17 AS4_PATH
    have hp : pathValid true v = true := by simpa [validate] using hv
    obtain ⟨h, p1, p2, p3, p4⟩ := path_kind v hp
    exact ⟨.as4Path h, by simp [parseValue, p1], by simp [WfAttr, WfAttrW, pathsFour, p2, p3], rfl,
      fun hh => absurd rfl hh.2, by simp, fun _ => ⟨h, rfl, p4⟩⟩
  · -- 18 AS4_AGGREGATOR
    have hl : v.length = 8 := by simpa [validate] using hv
    obtain ⟨a, b, c, d, e, f, g, i, rfl⟩ := len8 hl
    refine ⟨.as4Aggregator (a.toNat * 16777216 + b.toNat * 65536 + c.toNat * 256 + d.toNat)
      (e.toNat * 16777216 + f.toNat * 65536 + g.toNat * 256 + i.toNat), by simp [parseValue, rd32], ?_, rfl,
      fun _ => by simp [composeValue, be32_eq], by simp, by simp⟩
    simp only [WfAttr, WfAttrW, pathsFour, u32ok, Bool.and_true, Bool.and_eq_true, decide_eq_true_eq]
    exact ⟨u32_lt a b c d, u32_lt e f g i⟩
  · -- 20 CONNECTOR
    have hl : v.length = 4 := by simpa [validate] using hv
    obtain ⟨a, h1, h2, h3, h4⟩ := u32_kind 20 .connector v hl (fun w n r h => by simp [parseValue, h])
      (fun n => by simp [WfAttr, WfAttrW, pathsFour]) (fun _ => rfl) (fun _ => rfl)
    exact ⟨a, h1, h2, h3, fun _ => h4, by simp, by simp⟩
  · -- 21 AS_PATHLIMIT
    have hl : v.length = 5 := by simpa [validate] using hv
    obtain ⟨x, a, b, c, d, rfl⟩ := len5 hl
    refine ⟨.asPathLimit x.toNat (a.toNat * 16777216 + b.toNat * 65536 + c.toNat * 256 + d.toNat),
      by simp [parseValue, rd8, rd32], ?_, rfl, fun _ => by simp [composeValue, be32_eq], by simp, by simp⟩
    simp only [WfAttr, WfAttrW, pathsFour, u32ok, Bool.and_true, Bool.and_eq_true, decide_eq_true_eq]
    exact ⟨x.toNat_lt, u32_lt a b c d⟩
  · -- 25 IPV6_EXTENDED_COMMUNITIES
    have hl : v.length % 20 = 0 := by simpa [validate] using hv
    obtain ⟨l, hd⟩ := chunkO_some 20 (by omega) v.length v (Nat.le_refl _) hl
    obtain ⟨i1, i2⟩ := chunkO_spec 20 v.length v l hd
    exact ⟨.ipv6ExtCommunities l, by simp [parseValue, hd], by simp [WfAttr, WfAttrW, pathsFour, i1], rfl,
      fun _ => by simp [composeValue, i2], by simp, by simp⟩
  · -- 32 LARGE_COMMUNITIES
    have hl : v.length % 12 = 0 := by simpa [validate] using hv
    obtain ⟨l, hd⟩ := chunkO_some 12 (by omega) v.length v (Nat.le_refl _) hl
    obtain ⟨i1, i2⟩ := chunkO_spec 12 v.length v l hd
    exact ⟨.largeCommunities l, by simp [parseValue, hd], by simp [WfAttr, WfAttrW, pathsFour, i1], rfl,
      fun _ => by simp [composeValue, i2], by simp, by simp⟩
  · -- 35 OTC
    have hl : v.length = 4 := by simpa [validate] using hv
    obtain ⟨a, h1, h2, h3, h4⟩ := u32_kind 35 .otc v hl (fun w n r h => by simp [parseValue, h])
      (fun n => by simp [WfAttr, WfAttrW, pathsFour]) (fun _ => rfl) (fun _ => rfl)
    exact ⟨a, h1, h2, h3, fun _ => h4, by simp, by simp⟩
  · -- 128 ATTR_SET
    have hl : 4 ≤ v.length := by simpa [validate] using hv
    obtain ⟨n, r, hr⟩ := rd32_some hl
    obtain ⟨hn, hvr⟩ := rd32_spec hr
    exact ⟨.attrSet n r, by simp [parseValue, hr], by simp [WfAttr, WfAttrW, pathsFour, u32ok, hn], rfl,
      fun _ => by simp [composeValue, hvr], by simp, by simp⟩
  · -- 255 Reserved
    exact ⟨.reserved v, by simp [parseValue], by simp [WfAttr, WfAttrW, pathsFour], rfl,
      fun _ => by simp [composeValue], by simp, by simp⟩

/-! ### one attribute, re-encoded -/

/-- what decoding the re-encoding of an owned attribute yields: the same
attribute; an `Unimplemented` one carries the flags octet that was written -/
def renorm : Decoded → Decoded
  | .unimplemented f c v => .unimplemented (rawFlags f v.length) c v
  | d => d

/-- the AS path attributes of a section re-compose into a value the length
field can express (`Rc.Thm.C07.paths_fit`: always so for sections of at most
43690 octets) -/
def FitsD : Decoded → Prop
  | .typed a => (a.code = 2 ∨ a.code = 17) → ∀ w, composeValue a = .ok w → w.length ≤ 65535
  | _ => True

/-- flags (as a number), code and value octets an independent header walk must
find in the re-encoding of `d` -/
def WireOk (d : Decoded) (fl tc : UInt8) (v : Bytes) : Prop :=
  tc.toNat = codeOf d ∧
  match d with
  | .typed a => composeValue a = .ok v ∧ canonicalFlags tc.toNat = some a.flags ∧
      fl.toNat = a.flags + (if v.length > 255 then 16 else 0)
  | .unimplemented f _ w => v = w ∧ fl.toNat = rawFlags f w.length
  | .invalid f _ w => v = w ∧ fl.toNat = rawFlags f w.length

theorem decAttr_cases {bs r : Bytes} {od : Outcome Decoded} (h : decAttr true bs = .ok (od, r)) :
    ∃ fl tc v, splitAttr bs = some (fl, tc, v, r) ∧
      ((validate tc.toNat true v = some true ∧ od = (match parseValue tc.toNat true v with | .ok a => .ok (.typed a) | _ => .err)) ∨
       (validate tc.toNat true v = some false ∧
          od = .ok (.invalid ((canonicalFlags tc.toNat).getD 0) tc.toNat v)) ∨
       (validate tc.toNat true v = none ∧ od = .ok (.unimplemented fl.toNat tc.toNat v))) := by
  unfold decAttr parseWire at h
  cases hs : splitAttr bs with
  | none => simp [hs] at h
  | some q =>
    obtain ⟨fl, tc, v, r0⟩ := q
    simp only [hs] at h
    refine ⟨fl, tc, v, ?_⟩
    cases hv : validate tc.toNat true v with
    | none =>
      simp only [hv, Outcome.ok.injEq, Prod.mk.injEq] at h
      obtain ⟨rfl, rfl⟩ := h
      exact ⟨rfl, Or.inr (Or.inr ⟨rfl, rfl⟩)⟩
    | some b =>
      cases b with
      | true =>
        simp only [hv, Outcome.ok.injEq, Prod.mk.injEq] at h
        obtain ⟨rfl, rfl⟩ := h
        exact ⟨rfl, Or.inl ⟨rfl, rfl⟩⟩
      | false =>
        simp only [hv, Outcome.ok.injEq, Prod.mk.injEq] at h
        obtain ⟨rfl, rfl⟩ := h
        exact ⟨rfl, Or.inr (Or.inl ⟨rfl, rfl⟩)⟩

private theorem composeHeader_length' (f c n : Nat) : (composeHeader f c n).length = headerLen n := by
  unfold composeHeader headerLen
  split <;> simp

private theorem typed_flags (a : TypedAttr) :
    (a.flags = 0x40 ∨ a.flags = 0x80 ∨ a.flags = 0xC0) ∧ canonicalFlags a.code = some a.flags ∧ a.code < 256 := by
  cases a <;> simp [TypedAttr.flags, TypedAttr.code, canonicalFlags]

/-- **one attribute**: whatever `PathAttributes::next` + `to_owned` return for
the head of a buffer is an owned attribute; composing it succeeds; `compose_len`
is the number of octets written; decoding those octets (whatever follows) gives
the attribute back, and an independent header walk finds the code, the
prescribed flags and the value. -/
theorem reencode_one {bs r : Bytes} {od : Outcome Decoded} (h : decAttr true bs = .ok (od, r)) :
    ∃ d, od = .ok d ∧ (FitsD d →
      ∃ e, encOwned d = .ok e ∧ lenOwned d = .ok e.length ∧ 3 ≤ e.length ∧
        ∀ r', decAttr true (e ++ r') = .ok (.ok (renorm d), r') ∧
          ∃ fl tc v, splitAttr (e ++ r') = some (fl, tc, v, r') ∧ WireOk d fl tc v) := by
  obtain ⟨fl, tc, v, hs, hcase⟩ := decAttr_cases h
  obtain ⟨hv65, _, _, _⟩ := splitAttr_spec hs
  have htc : (UInt8.ofNat tc.toNat) = tc := UInt8.ofNat_toNat
  rcases hcase with ⟨hv, rfl⟩ | ⟨hv, rfl⟩ | ⟨hv, rfl⟩
  · -- typed
    obtain ⟨a, hp, hwf, hcode, hval, _, _⟩ := typed_spec tc.toNat v hv
    refine ⟨.typed a, by simp [hp], fun hfit => ?_⟩
    have hw : WfAttrW a = true := by
      simp only [WfAttr, Bool.and_eq_true] at hwf; exact hwf.1
    obtain ⟨w, c1, c2, c3, c4⟩ := value_spec a hw
    have hfit' : w.length ≤ 65535 := by
      by_cases hpth : tc.toNat = 2 ∨ tc.toNat = 17
      · exact hfit (by rw [hcode]; exact hpth) w c1
      · have := hval (by omega)
        rw [c1] at this
        cases this; exact hv65
    obtain ⟨hf, hcf, hlt⟩ := typed_flags a
    have henc : encAttr a = .ok (composeHeader a.flags a.code w.length ++ w) := by simp [encAttr, c1, c2]
    refine ⟨_, henc, by simp [lenOwned, composeLen, c2, composeHeader_length'], ?_, fun r' => ?_⟩
    · simp only [List.length_append, composeHeader_length', headerLen]; split <;> omega
    · have hsp := splitAttr_composeHeader a.flags a.code w.length w r' hf rfl hfit'
      have hcd : (UInt8.ofNat a.code).toNat = a.code := by simp [UInt8.toNat_ofNat']; omega
      have hnorm : a.norm = a := norm_of_wf a hwf
      refine ⟨?_, _, _, _, by rw [List.append_assoc]; exact hsp, ?_⟩
      · simp only [decAttr, parseWire, List.append_assoc, hsp, hcd, c3, toOwned, c4, hnorm, renorm]
      · refine ⟨by simp [hcd, codeOf], ?_⟩
        simp only [hcd]
        obtain ⟨_, _, e3, e4⟩ := extBit_plain a.flags hf
        refine ⟨c1, hcf, ?_⟩
        by_cases hx : w.length > 255
        · simp only [hx, if_true]; exact e4
        · simp only [hx, if_false]; simpa using e3
  · -- invalid
    obtain ⟨cf, hcf, hcfv, hclt⟩ := canonical_of_validate hv
    refine ⟨_, rfl, fun _ => ?_⟩
    have hf : cf < 256 := by omega
    simp only [hcf, Option.getD_some]
    refine ⟨_, rfl, by simp [lenOwned, rawHeader_length], ?_, fun r' => ?_⟩
    · simp only [List.length_append, rawHeader_length, headerLen]; split <;> omega
    · obtain ⟨e, hfit⟩ := rawHeader_rawAttr cf tc.toNat v hf hv65
      rw [htc] at e
      have hsp := splitAttr_rawHeader cf tc.toNat v r' hf hv65
      rw [htc] at hsp
      refine ⟨?_, _, _, _, hsp, ?_⟩
      · rw [e]
        have := (Rc.Thm.C04.invalid_iff true _ tc v r' cf hfit hcf).1.2 hv
        simpa [renorm] using this
      · exact ⟨rfl, rfl, rawFlags_toNat cf v.length hf⟩
  · -- unimplemented
    refine ⟨_, rfl, fun _ => ?_⟩
    have hf : fl.toNat < 256 := fl.toNat_lt
    refine ⟨_, rfl, by simp [lenOwned, rawHeader_length], ?_, fun r' => ?_⟩
    · simp only [List.length_append, rawHeader_length, headerLen]; split <;> omega
    · obtain ⟨e, hfit⟩ := rawHeader_rawAttr fl.toNat tc.toNat v hf hv65
      rw [htc] at e
      have hsp := splitAttr_rawHeader fl.toNat tc.toNat v r' hf hv65
      rw [htc] at hsp
      have hcn : canonicalFlags tc.toNat = none := by
        cases hc : canonicalFlags tc.toNat with
        | none => rfl
        | some cf =>
          have hv2 : ∃ b, validate tc.toNat true v = some b := by
            by_cases h2 : tc.toNat = 2
            · rw [h2]; exact (Rc.Thm.C04.path_rule true v).2.2.1
            · by_cases h17 : tc.toNat = 17
              · rw [h17]; exact (Rc.Thm.C04.path_rule true v).2.2.2
              · exact ⟨_, Rc.Thm.C04.validate_is_length_rule _ cf true v hc h2 h17⟩
          obtain ⟨b, hb⟩ := hv2
          rw [hv] at hb; cases hb
      refine ⟨?_, _, _, _, hsp, ?_⟩
      · rw [e]
        have := Rc.Thm.C04.unrecognised_is_unimplemented true _ tc v r' hfit hcn
        simpa [renorm, rawFlags_toNat fl.toNat v.length hf] using this
      · exact ⟨rfl, rfl, rawFlags_toNat fl.toNat v.length hf⟩

/-! ### re-composed AS paths fit the length field -/

theorem encSegs_len : ∀ (ss : List Seg),
    (encSegs true ss).length = 2 * ss.length + 4 * (ss.flatMap (·.asns)).length
  | [] => rfl
  | s :: r => by
    have ih := encSegs_len r
    simp only [encSegs_cons, List.length_append, ih, encSeg, List.length_cons, encAsnsW_length, asnSize,
      if_true, List.flatMap_cons]
    omega

theorem nonempty_count : ∀ (ss : List Seg), (∀ s ∈ ss, s.asns ≠ []) → ss.length ≤ (ss.flatMap (·.asns)).length
  | [], _ => by simp
  | s :: r, h => by
    have ih := nonempty_count r (fun x hx => h x (by simp [hx]))
    have : 0 < s.asns.length := List.length_pos_iff.mpr (h s (by simp))
    simp only [List.length_cons, List.flatMap_cons, List.length_append]
    omega

theorem runSegs_len (run : List Nat) : (runSegs run).length ≤ run.length := by
  obtain ⟨r1, r2⟩ := runSegs_spec run
  have := nonempty_count (runSegs run) (fun s hs => (r1 s hs).2.2.1)
  rw [r2] at this
  exact this

theorem segsLoop_len : ∀ (f : Nat) (h : List Hop), (segsLoop f h).length ≤ h.length
  | 0, _ => by simp [segsLoop]
  | f + 1, h => by
    unfold segsLoop
    by_cases he : h.isEmpty = true
    · simp [he]
    · simp only [he, Bool.false_eq_true, if_false]
      obtain ⟨hsplit, hns⟩ := spanAsns_spec h
      have hr := runSegs_len (spanAsns h).1
      have hlen : h.length = (spanAsns h).1.length + (spanAsns h).2.length := by
        have := congrArg List.length hsplit
        simpa using this
      generalize (spanAsns h).1 = run at *
      generalize (spanAsns h).2 = tl at *
      match tl, hns with
      | [], _ => simp only [List.append_nil]; omega
      | .asn n :: r, hns => exact absurd rfl (hns n r)
      | .seg s :: rest, _ =>
        have ih := segsLoop_len f rest
        simp only [List.length_append, List.length_cons] at hlen ⊢
        omega

theorem hopsOfSegs_len : ∀ (ss : List Seg),
    (hopsOfSegs ss).length ≤ ss.length + (ss.flatMap (·.asns)).length ∧
      asnsOf (hopsOfSegs ss) = ss.flatMap (·.asns)
  | [] => by simp [hopsOfSegs, asnsOf]
  | s :: r => by
    obtain ⟨i1, i2⟩ := hopsOfSegs_len r
    have e1 : hopsOfSegs (s :: r) = hopsOfSeg s ++ hopsOfSegs r := by simp [hopsOfSegs]
    have e2 : (s :: r).flatMap (·.asns) = s.asns ++ r.flatMap (·.asns) := by simp
    have e3 : asnsOf (hopsOfSeg s ++ hopsOfSegs r) = asnsOf (hopsOfSeg s) ++ asnsOf (hopsOfSegs r) := by
      simp [asnsOf]
    have k : (hopsOfSeg s).length ≤ 1 + s.asns.length ∧ asnsOf (hopsOfSeg s) = s.asns := by
      unfold hopsOfSeg
      split
      · simp [asnsOf, flatMap_hopAsns_run]
      · simp [asnsOf, hopAsns]
    rw [e1, e2, e3, i2, k.2]
    refine ⟨?_, rfl⟩
    have := k.1
    simp only [List.length_append, List.length_cons]
    omega

/-- an AS path value read from the wire re-composes into at most one and a half
times its length (merging AS_SEQUENCE segments can only save segment headers;
this bound is crude but enough for the length field) -/
theorem path_recompose_len (v : Bytes) (h : HopPath) (hp : PathView v h) (w : Bytes)
    (hw : pathBytes h = .ok w) : w.length ≤ v.length + v.length / 2 := by
  obtain ⟨ss, hss, rfl, rfl⟩ := hp
  have wf := wfHops_hopsOfSegs true ss hss
  have s1 := (segsLoop_spec true (hopsOfSegs ss).length (hopsOfSegs ss) (Nat.le_refl _) wf)
  have hc : compose true (hopsOfSegs ss) = .ok (encSegs true (segsLoop (hopsOfSegs ss).length (hopsOfSegs ss))) := by
    rw [compose, composeLoop_eq, composeSegs_wide _ (fun s hs => (s1.1 s hs).2.2.1)]
  have : w = encSegs true (segsLoop (hopsOfSegs ss).length (hopsOfSegs ss)) := by
    simp only [pathBytes, hc, Outcome.ok.injEq] at hw; exact hw.symm
  subst this
  have l1 := encSegs_len (segsLoop (hopsOfSegs ss).length (hopsOfSegs ss))
  have l2 := encSegs_len ss
  have l3 := segsLoop_len (hopsOfSegs ss).length (hopsOfSegs ss)
  obtain ⟨l4, l5⟩ := hopsOfSegs_len ss
  rw [s1.2.2, l5] at l1
  omega

end Rc.Reenc
