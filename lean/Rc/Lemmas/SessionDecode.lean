/-
Bridging lemmas for the concrete C09 decoder (`Rc/Model/SessionDecode.lean`): its totality,
derived from the totality theorems of C02 (`parse_total`) and C03 (`open_decode_total`,
`open_accessors_total`, `notif_total`, `keepalive_total`), and the agreement of the framing
model's own header step (`Rc.Framing.decodeMsg`) with `Header::parse` as C03 models it.
-/
import Rc.Model.SessionDecode
import Rc.Thm.C02
import Rc.Thm.C03

namespace Rc.SessionDecode
open Rc Rc.Framing

/-- `Message::from_octets(_, Some(config))` never panics: every configuration, every byte string
(C03 `open_decode_total`, `notif_total`, `keepalive_total`; C02 `parse_total`). -/
theorem msgFromOctets_ne_panic (cfg : Upd.Cfg) (bs : Bytes) : msgFromOctets cfg bs ≠ .panic := by
  unfold msgFromOctets
  cases Open.headerParse bs with
  | none => simp
  | some p =>
    obtain ⟨len, t, r⟩ := p
    simp only
    split
    · have := Rc.Thm.C03.open_decode_total bs
      cases h : Open.fromOctets bs <;> simp_all
    · have := Rc.Thm.C02.parse_total cfg bs
      cases h : Upd.parseUpdate cfg bs <;> simp_all
    · have := (Rc.Thm.C03.notif_total bs).1
      cases h : Notif.fromOctets bs <;> simp_all
    · have := Rc.Thm.C03.keepalive_total bs
      cases h : Notif.kaFromOctets bs <;> simp_all
    · have := Rc.Thm.C03.rr_total bs
      cases h : Notif.rrFromOctets bs <;> simp_all
    · simp

/-- what `msgFromOctets` returns is what the per-type decoder accepted -/
theorem msgFromOctets_open {cfg : Upd.Cfg} {bs m : Bytes} (h : msgFromOctets cfg bs = .ok (.open m)) :
    Open.fromOctets bs = .ok m := by
  unfold msgFromOctets at h
  cases hp : Open.headerParse bs with
  | none => simp [hp] at h
  | some p =>
    obtain ⟨len, t, r⟩ := p
    simp only [hp] at h
    split at h
    · cases ho : Open.fromOctets bs <;> simp_all
    · cases ho : Upd.parseUpdate cfg bs <;> simp_all
    · cases ho : Notif.fromOctets bs <;> simp_all
    · cases ho : Notif.kaFromOctets bs <;> simp_all
    · cases ho : Notif.rrFromOctets bs <;> simp_all
    · simp at h

theorem msgFromOctets_notification {cfg : Upd.Cfg} {bs m : Bytes}
    (h : msgFromOctets cfg bs = .ok (.notification m)) : Notif.fromOctets bs = .ok m := by
  unfold msgFromOctets at h
  cases hp : Open.headerParse bs with
  | none => simp [hp] at h
  | some p =>
    obtain ⟨len, t, r⟩ := p
    simp only [hp] at h
    split at h
    · cases ho : Open.fromOctets bs <;> simp_all
    · cases ho : Upd.parseUpdate cfg bs <;> simp_all
    · cases ho : Notif.fromOctets bs <;> simp_all
    · cases ho : Notif.kaFromOctets bs <;> simp_all
    · cases ho : Notif.rrFromOctets bs <;> simp_all
    · simp at h

/-- `identifier()[0..4].try_into().unwrap()` cannot fail once `identifier()` did not -/
theorem idArray_ne_panic (m : Bytes) (h : Open.identifier m ≠ .panic) : idArray m ≠ .panic := by
  have hc : 24 ≤ 28 ∧ 28 ≤ m.length := by
    unfold Open.identifier Open.slice at h
    split at h
    · assumption
    · simp at h
  have hl : ((m.drop 24).take (28 - 24)).length = 4 := by simp; omega
  have hl2 : ((m.drop 24).take 4).length = 4 := by simpa using hl
  simp [idArray, Open.identifier, Open.slice, hc, hl2]

/-- the accessor calls of the OPEN-accepting arms do not panic on an accepted OPEN -/
theorem openFacts_ne_panic (bs m : Bytes) (asn : Nat) (h : Open.fromOctets bs = .ok m) :
    openFacts m asn ≠ .panic := by
  obtain ⟨_, _, _, hh, hi, _, _, _, ha, hf, _, hap, _⟩ := Rc.Thm.C03.open_accessors_total bs m h
  have hid := idArray_ne_panic m hi
  unfold openFacts
  cases h1 : Open.addpathFamiliesVec m <;> try simp_all
  cases h2 : Open.holdtime m <;> try simp_all
  cases h3 : idArray m <;> try simp_all
  cases h4 : Open.myAsn m <;> try simp_all
  cases h5 : Open.fourOctetCapable m <;> simp_all

/-- `handle_msg` and the accessor calls of the arms it reaches do not panic on anything
`Message::from_octets` returned -/
theorem toWire_ne_panic (sc : SessCfg) (bs : Bytes) (m : BgpMsg) (h : msgFromOctets sc.cfg bs = .ok m) :
    toWire sc.asnAllowed m ≠ .panic := by
  cases m with
  | update u => simp [toWire]
  | keepalive k => simp [toWire]
  | routeRefresh r => simp [toWire]
  | «open» o =>
    have ho := msgFromOctets_open h
    have hacc := Rc.Thm.C03.open_accessors_total bs o ho
    have ha : Open.myAsn o ≠ .panic := hacc.2.2.2.2.2.2.2.2.1
    cases e : Open.myAsn o with
    | panic => exact absurd e ha
    | err => simp [toWire, e]
    | ok asn =>
      simp only [toWire, e]
      split
      · simp
      · have := openFacts_ne_panic bs o asn ho
        cases hf : openFacts o asn <;> simp_all
  | notification n =>
    have hn := msgFromOctets_notification h
    have hd := ((Rc.Thm.C03.notif_total bs).2 n hn).2.1
    cases e : Notif.detailsRaw n with
    | panic => exact absurd e hd
    | err => simp [toWire, e]
    | ok p => obtain ⟨c, s⟩ := p; simp [toWire, e]

/-- **The concrete decoder is total**: for every session configuration and every byte string the
composition "`Message::from_octets` with the connection's `SessionConfig`, then the accessors
`handle_msg` / `handle_event` call on the result" returns `Ok` or `Err`, never panics. -/
theorem sessionBody_ne_panic (sc : SessCfg) (f : Bytes) : sessionBody sc f ≠ .panic := by
  unfold sessionBody
  cases h : msgFromOctets sc.cfg f with
  | panic => exact absurd h (msgFromOctets_ne_panic sc.cfg f)
  | err => simp
  | ok m => exact toWire_ne_panic sc f m h

/-! ### the framing model's header step is `Header::parse` -/

theorem marker_eq : Rc.Framing.marker = Open.marker := rfl

/-- `Header::parse` as C03 models it, in closed form -/
theorem headerParse_spec (bs : Bytes) :
    (19 ≤ bs.length ∧ bs.take 16 = Open.marker → ∃ len r, Open.headerParse bs = some (len, bs.getD 18 0, r)) ∧
    (¬ (19 ≤ bs.length ∧ bs.take 16 = Open.marker) → Open.headerParse bs = none) := by
  unfold Open.headerParse takeN
  by_cases h16 : 16 ≤ bs.length
  · simp only [h16, if_true]
    by_cases hm : bs.take 16 = Open.marker
    · simp only [hm, ne_eq, not_true_eq_false, if_false]
      cases hd : bs.drop 16 with
      | nil =>
        have : (bs.drop 16).length = 0 := by rw [hd]; rfl
        simp at this
        simp [rd16]; omega
      | cons a l1 =>
        cases l1 with
        | nil =>
          have : (bs.drop 16).length = 1 := by rw [hd]; rfl
          simp at this
          simp [rd16]; omega
        | cons b l2 =>
          cases l2 with
          | nil =>
            have : (bs.drop 16).length = 2 := by rw [hd]; rfl
            simp at this
            simp [rd16]; omega
          | cons t l3 =>
            have hl : (bs.drop 16).length = 3 + l3.length := by rw [hd]; simp; omega
            have hl' : 19 ≤ bs.length := by simp at hl; omega
            have ht : bs.getD 18 0 = t := by
              have : (bs.drop 16)[2]? = some t := by rw [hd]; rfl
              rw [List.getElem?_drop] at this
              simp [List.getD, this]
            have ht' : t = bs[18]?.getD 0 := by rw [← ht]; simp [List.getD]
            simp [rd16, hl']; exact ht'
    · simp [hm]
  · simp [h16]; omega

/-- **Header agreement**: the header step of the framing model (`Rc.Framing.decodeMsg`: marker,
length ≥ 19, type octet 1..4) followed by the concrete decoder is the concrete decoder – the
framing model and `Message::from_octets` as composed from the C02/C03 models describe the same
function of the frame. -/
theorem decodeMsg_sessionBody (sc : SessCfg) (f : Bytes) :
    decodeMsg (sessionBody sc) f = sessionBody sc f := by
  have hs := headerParse_spec f
  unfold decodeMsg
  by_cases h16 : f.length < 16
  · have : Open.headerParse f = none := hs.2 (by omega)
    simp [h16, sessionBody, msgFromOctets, this]
  · simp only [h16, if_false]
    by_cases hm : f.take 16 ≠ Rc.Framing.marker
    · have : Open.headerParse f = none := hs.2 (by rw [← marker_eq]; intro h; exact hm h.2)
      simp [hm, sessionBody, msgFromOctets, this]
    · simp only [hm, if_false]
      by_cases h18 : f.length < 18
      · have : Open.headerParse f = none := hs.2 (by omega)
        simp [h18, sessionBody, msgFromOctets, this]
      · simp only [h18, if_false]
        by_cases h19 : f.length < 19
        · have : Open.headerParse f = none := hs.2 (by omega)
          simp [h19, sessionBody, msgFromOctets, this]
        · simp only [h19, if_false]
          split
          · rfl
          · rename_i ht
            obtain ⟨len, r, hp⟩ := hs.1 ⟨by omega, by rw [← marker_eq]; simpa using hm⟩
            have e : msgFromOctets sc.cfg f = .err := by
              simp only [msgFromOctets, hp]
              split <;> first | omega | rfl
            simp [sessionBody, e]

end Rc.SessionDecode
