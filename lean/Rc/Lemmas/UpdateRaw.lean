/-
Property C01 on the level of RAW attribute values: what the decoder model
does on the output of the raw reference encoder `encUpdate`
(Rc/Model/UpdateEnc.lean).  These are the parts of `Rc.Thm.C01.decode_encode`;
Rc/Thm/C01.lean restates each of them as a property theorem.
-/
import Rc.Lemmas.UpdateEnc

namespace Rc.Upd
open Rc Rc.Nlri Rc.Attr

/-- well-formed content: NLRI are values of their Rust types that `compose`
accepts (in particular zero host bits – routecore, via `inetnum`, is stricter
than RFC 4271 here), path ids are `u32`s, every attribute length fits its
length field, MP attributes have their fixed octets -/
def WfUpdate (cfg : Cfg) (c : Content) : Prop :=
  NlrisWf .v4u (cfg.rx (1, 1)) c.wd ∧ NlrisWf .v4u (cfg.rx (1, 1)) c.ann ∧
    (∀ a ∈ c.attrs, a.wf = true) ∧ MpOk c.attrs

/-- what `path_attributes()` has to yield for an attribute: flags, type code,
length and the typed / invalid / unimplemented kind its value has under the
implementation's length rules for the session's ASN width -/
def reportAttr (four : Bool) (a : RawAttr) : Outcome Wire := .ok (classify four a.fl a.tc a.v)

/-- RFC 4760 / 4364 / 4659 / 5549 / 8955: the next hop an MP_REACH_NLRI of
family `f` carries in a next-hop field `nh`; `none` = not a legal length -/
def nhSpec (f : Fam) (nh : Bytes) : Option NextHop :=
  match f with
  | .v4u | .v4m | .v4rt | .vpls | .evpn => if nh.length = 4 then some (.unicast nh) else none
  | .v6u =>
    if nh.length = 16 then some (.unicast nh)
    else if nh.length = 32 then some (.ll (nh.take 16) (nh.drop 16)) else none
  | .v6m => if nh.length = 16 then some (.unicast nh) else none
  | .v4mpls | .v6mpls => if nh.length = 4 ∨ nh.length = 16 then some (.unicast nh) else none
  | .v4vpn => if nh.length = 12 then some (.vpn (nh.take 8) (nh.drop 8)) else none
  | .v6vpn => if nh.length = 24 then some (.vpn (nh.take 8) (nh.drop 8)) else none
  | .v4fs | .v6fs => some .empty

end Rc.Upd

namespace Rc.Upd.Raw
open Rc Rc.Nlri Rc.Attr Rc.Upd


/-! ### section structure -/

theorem header_frame (n : Nat) (hn : n < 65536) (rest : Bytes) :
    headerParse (marker ++ (be16 n ++ (2 :: rest))) = .ok (n, 2, rest) := by
  have ht : takeN 16 (marker ++ (be16 n ++ (2 :: rest))) = some (marker, be16 n ++ (2 :: rest)) :=
    takeN_append marker _
  have hm : marker.any (fun b => b != 0xff) = false := by decide
  simp only [headerParse, ht, hm, Bool.false_eq_true, ↓reduceIte, rd16_be16 n hn]

/-- **sections_decoded.** Whatever the three sections hold, as long as each is
acceptable on its own (the conventional NLRI validate under the session's IPv4
unicast ADD-PATH setting, the attributes are a sequence of complete TLVs with
well-formed MP attributes) and the PDU length fits its field, the framed
message is accepted – also with trailing octets after the announced length –
and the decoder's section ranges are exactly the three sections, the per-PDU
parse info is the session's. -/
theorem sections_decoded (cfg : Cfg) (wd attrs ann trail : Bytes) (reach unreach : Option (Nat × Nat))
    (hlen : 19 + 2 + wd.length + 2 + attrs.length + ann.length < 65536)
    (hwd : convValidate (cfg.rx (1, 1)) wd = .ok ())
    (hann : convValidate (cfg.rx (1, 1)) ann = .ok ())
    (hwalk : attrsWalk attrs.length attrs = .ok ())
    (hscan : mpScan attrs.length attrs none none = .ok (reach, unreach)) :
    parseUpdate cfg (frame wd attrs ann ++ trail) =
      .ok { body := be16 wd.length ++ (wd ++ (be16 attrs.length ++ (attrs ++ ann))),
            wd := wd, attrs := attrs, ann := ann, ppi := Ppi.ofCfg cfg reach unreach } := by
  have hh := header_frame (19 + 2 + wd.length + 2 + attrs.length + ann.length) hlen
    (be16 wd.length ++ (wd ++ (be16 attrs.length ++ (attrs ++ ann))) ++ trail)
  have hfr : frame wd attrs ann ++ trail = marker ++ (be16 (19 + 2 + wd.length + 2 + attrs.length + ann.length) ++
      (2 :: (be16 wd.length ++ (wd ++ (be16 attrs.length ++ (attrs ++ ann))) ++ trail))) := by
    simp [frame, List.append_assoc]
  have h1 : rd16 (be16 wd.length ++ (wd ++ (be16 attrs.length ++ (attrs ++ ann))) ++ trail) =
      some (wd.length, wd ++ (be16 attrs.length ++ (attrs ++ (ann ++ trail)))) := by
    have := rd16_be16 wd.length (by omega) (wd ++ (be16 attrs.length ++ (attrs ++ (ann ++ trail))))
    simpa [List.append_assoc] using this
  have h2 : takeN wd.length (wd ++ (be16 attrs.length ++ (attrs ++ (ann ++ trail)))) =
      some (wd, be16 attrs.length ++ (attrs ++ (ann ++ trail))) := takeN_append _ _
  have h3 : rd16 (be16 attrs.length ++ (attrs ++ (ann ++ trail))) = some (attrs.length, attrs ++ (ann ++ trail)) :=
    rd16_be16 _ (by omega) _
  have h4 : takeN attrs.length (attrs ++ (ann ++ trail)) = some (attrs, ann ++ trail) := takeN_append _ _
  have e5 : 19 + 2 + wd.length + 2 + attrs.length + ann.length - 19 - (2 + wd.length + 2 + attrs.length) = ann.length := by
    omega
  have h5 : takeN ann.length (ann ++ trail) = some (ann, trail) := takeN_append _ _
  have hlt : ¬ (19 + 2 + wd.length + 2 + attrs.length + ann.length - 19 < 2 + wd.length + 2 + attrs.length) := by omega
  have h19 : ¬ (19 + 2 + wd.length + 2 + attrs.length + ann.length < 19) := by omega
  have hbody : List.take (19 + 2 + wd.length + 2 + attrs.length + ann.length - 19)
      (be16 wd.length ++ (wd ++ (be16 attrs.length ++ (attrs ++ ann))) ++ trail) =
      be16 wd.length ++ (wd ++ (be16 attrs.length ++ (attrs ++ ann))) := by
    rw [List.take_append_of_le_length (by simp; omega)]
    exact List.take_of_length_le (by simp; omega)
  rw [hfr]
  simp only [parseUpdate, hh, h19, ↓reduceIte, h1, h2, hwd, h3, h4, hwalk, hscan, hlt, e5, h5, hann, hbody]
  simp

/-! ### the whole message: lengths, attribute sequence, conventional NLRI -/

theorem conv_of_validate (ap : Bool) (b : Bytes)
    (h : (if ap then nlriValidate (codecAp .v4u) b else nlriValidate (codec .v4u) b) = .ok ()) :
    convValidate ap b = .ok () := by
  unfold convValidate; exact h

theorem frame_length (w at' a : Bytes) :
    (frame w at' a).length = 19 + 2 + w.length + 2 + at'.length + a.length := by
  simp [frame, marker]; omega

/-- **decode_encode_partial.** For every session configuration (ASN width, any
ADD-PATH map) and every well-formed content whose encoding fits the length
field (65535; the 4096 limit of RFC 4271 is not needed), also when octets
follow the announced length: the message is accepted, and the three lengths,
the conventional withdrawals and announcements with or without path ids, the
attribute sequence (flags, type codes, lengths, typed / invalid / unimplemented
kind and value octets), the ASN width and the per-section ADD-PATH flags the
accessors will use are exactly the content that was encoded.
*Partial*: the typed getters and the MP sections are the separate theorems
below; they are not yet folded into one `Observation` record. -/
theorem decode_encode_partial (cfg : Cfg) (c : Content) (hw : WfUpdate cfg c) :
    ∃ bs, encUpdate cfg c = .ok bs ∧ (bs.length < 65536 → ∀ trail, ∃ m,
      parseUpdate cfg (bs ++ trail) = .ok m ∧
      m.length = bs.length ∧
      (∃ w a, encNlris .v4u (cfg.rx (1, 1)) c.wd = .ok w ∧ encNlris .v4u (cfg.rx (1, 1)) c.ann = .ok a ∧
        m.wd = w ∧ m.ann = a ∧ m.wdLen = w.length) ∧
      m.attrLen = (encRaws c.attrs).length ∧
      m.convWd = (reportNlris .v4u (cfg.rx (1, 1)) c.wd, true) ∧
      m.convAnn = (reportNlris .v4u (cfg.rx (1, 1)) c.ann, true) ∧
      m.pathAttributes = (c.attrs.map (reportAttr cfg.four), true) ∧
      m.attrs = encRaws c.attrs ∧
      m.ppi = Ppi.ofCfg cfg (lastMp 14 c.attrs none) (lastMp 15 c.attrs none)) := by
  obtain ⟨hwd, hann, hattr, hmp⟩ := hw
  obtain ⟨w, hw1, hw2, hw3⟩ := nlris_reported .v4u (cfg.rx (1, 1)) c.wd hwd
  obtain ⟨a, ha1, ha2, ha3⟩ := nlris_reported .v4u (cfg.rx (1, 1)) c.ann hann
  refine ⟨frame w (encRaws c.attrs) a, by simp [encUpdate, hw1, ha1], ?_⟩
  intro hlen trail
  rw [frame_length] at hlen
  have hfuel := encRaws_length_ge c.attrs
  have hwalk := attrsWalk_enc c.attrs hattr (encRaws c.attrs).length hfuel
  have hscan := mpScan_enc c.attrs hattr hmp (encRaws c.attrs).length none none hfuel
  have hp := sections_decoded cfg w (encRaws c.attrs) a trail _ _ hlen (conv_of_validate _ _ hw3)
    (conv_of_validate _ _ ha3) hwalk hscan
  refine ⟨_, hp, ?_, ⟨w, a, hw1, ha1, rfl, rfl, rfl⟩, rfl, ?_, ?_, ?_, rfl, rfl⟩
  · simp only [Msg.length, frame_length]
  · simp only [Msg.convWd, Ppi.ofCfg, hw2]
  · simp only [Msg.convAnn, Ppi.ofCfg, ha2]
  · simp only [Msg.pathAttributes, Ppi.ofCfg]
    exact pa_collect_enc cfg.four c.attrs hattr _ (by omega)

/-! ### typed getters -/

theorem getAttr_report (four : Bool) (code : Nat) : ∀ (l : List RawAttr),
    getAttr (l.map (reportAttr four)) code =
      (firstWith code l).map (fun a => classify four a.fl a.tc a.v) := by
  intro l
  induction l with
  | nil => rfl
  | cons a t ih =>
    have hc : (classify four a.fl a.tc a.v).code = a.tc.toNat := by
      unfold classify; split <;> rfl
    simp only [List.map_cons, reportAttr, getAttr, hc, firstWith]
    split
    · rfl
    · exact ih

/-- **typed_value_reported.** The value octets a typed getter works on are the
value octets of the first attribute of its type in the encoded sequence,
provided that value obeys the type's length rule for the session's ASN width
(otherwise the attribute is surfaced as invalid and the getter answers `None`). -/
theorem typed_value_reported (m : Msg) (l : List RawAttr)
    (hpa : m.pathAttributes.1 = l.map (reportAttr m.ppi.four)) (code : Nat) (a : RawAttr)
    (hfirst : firstWith code l = some a) (hcode : a.tc.toNat = code) :
    m.typedValue code = (if validate code m.ppi.four a.v = some true then some a.v else none) := by
  simp only [Msg.typedValue, Msg.get, hpa, getAttr_report, hfirst, Option.map_some, classify, hcode]
  cases hv : validate code m.ppi.four a.v with
  | none => simp
  | some b => cases b <;> simp

/-- **getters_reported.** ORIGIN, MULTI_EXIT_DISC, LOCAL_PREF, NEXT_HOP,
ATOMIC_AGGREGATE and the four community flavours: the getter returns the encoded
value (as number / address octets / the sequence of fixed-size records). -/
theorem getters_reported (m : Msg) (l : List RawAttr)
    (hpa : m.pathAttributes.1 = l.map (reportAttr m.ppi.four)) :
    (∀ a b, firstWith 1 l = some a → a.tc.toNat = 1 → a.v = [b] → m.origin = .ok (some b.toNat)) ∧
    (∀ a n, firstWith 4 l = some a → a.tc.toNat = 4 → n < 4294967296 → a.v = be32 n → m.med = .ok (some n)) ∧
    (∀ a n, firstWith 5 l = some a → a.tc.toNat = 5 → n < 4294967296 → a.v = be32 n →
      m.localPref = .ok (some n)) ∧
    (∀ a, firstWith 3 l = some a → a.tc.toNat = 3 → a.v.length = 4 → m.convNextHop = .ok (some (.unicast a.v))) ∧
    (m.isAtomicAggregate = (firstWith 6 l).isSome) ∧
    (∀ code k a, (code, k) ∈ [(8, 4), (16, 8), (25, 20), (32, 12)] → firstWith code l = some a →
      a.tc.toNat = code → a.v.length % k = 0 → m.comms code k = some (commItems k a.v)) := by
  refine ⟨?_, ?_, ?_, ?_, ?_, ?_⟩
  · intro a b hf hc hv
    have := typed_value_reported m l hpa 1 a hf hc
    simp only [hv, validate, List.length_singleton, BEq.rfl, ↓reduceIte] at this
    simp [Msg.origin, this, rd8]
  · intro a n hf hc hn hv
    have := typed_value_reported m l hpa 4 a hf hc
    rw [hv] at this
    simp [validate] at this
    simp [Msg.med, this, u32Value, Attr.rd32_be32' n hn, mapO]
  · intro a n hf hc hn hv
    have := typed_value_reported m l hpa 5 a hf hc
    rw [hv] at this
    simp [validate] at this
    simp [Msg.localPref, this, u32Value, Attr.rd32_be32' n hn, mapO]
  · intro a hf hc hl
    have := typed_value_reported m l hpa 3 a hf hc
    simp [validate, hl] at this
    have ht : takeN 4 a.v = some (a.v, []) := by
      have := takeN_append a.v []; rw [hl] at this; simpa using this
    simp [Msg.convNextHop, this, ht]
  · simp only [Msg.isAtomicAggregate, Msg.get, hpa, getAttr_report]
    cases firstWith 6 l <;> rfl
  · intro code k a hmem hf hc hmod
    have := typed_value_reported m l hpa code a hf hc
    have hv : validate code m.ppi.four a.v = some true := by
      simp only [List.mem_cons, Prod.mk.injEq, List.not_mem_nil, or_false] at hmem
      rcases hmem with ⟨rfl, rfl⟩ | ⟨rfl, rfl⟩ | ⟨rfl, rfl⟩ | ⟨rfl, rfl⟩ <;> simp [validate, hmod]
    simp only [hv, ↓reduceIte] at this
    simp [Msg.comms, this]

/-- the community iterators cut the value into its records: for a value that
is the concatenation of `k`-octet records they yield exactly those records -/
theorem comm_records (k : Nat) (hk : 0 < k) : ∀ (recs : List Bytes), (∀ r ∈ recs, r.length = k) →
    ∀ f, recs.length ≤ f → collect (commNext k) f recs.flatten = (recs.map Outcome.ok, true) := by
  intro recs
  induction recs with
  | nil => intro _ f _; cases f <;> simp [collect, commNext]
  | cons r t ih =>
    intro hl f hf
    match f, hf with
    | g + 1, hf =>
      have hr := hl r (by simp)
      have hne : r ++ t.flatten ≠ [] := by
        intro h; simp at h; rw [h.1] at hr; simp at hr; omega
      have ht : takeN k (r ++ t.flatten) = some (r, t.flatten) := by rw [← hr]; exact takeN_append _ _
      have hn : commNext k (r ++ t.flatten) = some (.ok r, t.flatten) := by
        unfold commNext
        split
        · rename_i h; exact absurd h hne
        · rw [ht]
      have := ih (fun x hx => hl x (by simp [hx])) g (by simp at hf; omega)
      simp only [List.flatten_cons, collect, hn, this, List.map_cons]

/-! ### multiprotocol sections -/

theorem nlriTy_famCode (f : Fam) (ap : Bool) : nlriTy (famCode f) ap = .known f ap := by
  simp [nlriTy, famOf_famCode]

theorem mpAttr_enc (m : Msg) (l : List RawAttr) (hm : m.attrs = encRaws l) (hwf : ∀ a ∈ l, a.wf = true)
    (code : Nat) (a : RawAttr) (hf : firstWith code l = some a) (x : (Nat × Nat) × Bytes)
    (hx : afiSafi a.v = some x) : m.mpAttr code = .ok (some x) := by
  have hmem : a ∈ l := by
    clear hm hwf hx
    induction l with
    | nil => simp [firstWith] at hf
    | cons b t ih =>
      simp only [firstWith] at hf
      split at hf
      · simp only [Option.some.injEq] at hf; subst hf; simp
      · simp [ih hf]
  obtain ⟨_, _, hv⟩ := epa_encRaw a (hwf a hmem)
  simp only [Msg.mpAttr, hm, findUnchecked_enc code l hwf _ (encRaws_length_ge l), hf, Option.map_some, hv, hx]

/-- **mp_reach_reported.** If the first MP_REACH_NLRI attribute of the message
was built for family `f` with next hop field `nh` and the NLRI list `nlri`
(encoded with path ids exactly when the message's MP_REACH ADD-PATH flag is
set), then `mp_announcements()` is an iterator of that family's type over
exactly the NLRI octets and yields exactly `nlri`, every item `Ok`; the same
holds for `typed_announcements` of that type when there is no conventional NLRI
or the family is not IPv4 unicast. All 13 families. -/
theorem mp_reach_reported (m : Msg) (l : List RawAttr) (hm : m.attrs = encRaws l)
    (hwf : ∀ a ∈ l, a.wf = true) (a : RawAttr) (hfirst : firstWith 14 l = some a)
    (f : Fam) (nh : Bytes) (hnh : nh.length < 256) (nlri : List (Nat × f.Val))
    (hw : NlrisWf f m.ppi.mpReach nlri) :
    ∃ b, encNlris f m.ppi.mpReach nlri = .ok b ∧ (a.v = reachValue f nh b →
      m.mpAnn = .ok (some (.known f m.ppi.mpReach, b)) ∧
      enumItems (.known f m.ppi.mpReach) b = (reportNlris f m.ppi.mpReach nlri, true) ∧
      ((f ≠ .v4u ∨ m.ann = []) →
        m.typedAnn f m.ppi.mpReach = .ok (some (reportNlris f m.ppi.mpReach nlri, true)))) := by
  obtain ⟨b, hb1, hb2, _⟩ := nlris_reported f m.ppi.mpReach nlri hw
  refine ⟨b, hb1, ?_⟩
  intro hv
  have hx := afiSafi_reach f nh b
  rw [← hv] at hx
  have hattr := mpAttr_enc m l hm hwf 14 a hfirst _ hx
  refine ⟨?_, hb2, ?_⟩
  · simp only [Msg.mpAnn, hattr, skipNextHop_enc nh b hnh, nlriTy_famCode]
  · intro hc
    have hcond : ¬ (f = .v4u ∧ m.ann ≠ []) := by
      rintro ⟨h1, h2⟩
      rcases hc with hc | hc
      · exact hc h1
      · exact h2 hc
    simp only [Msg.typedAnn, hcond, ↓reduceIte, hattr, famOf_famCode, skipNextHop_enc nh b hnh, hb2]

/-- **mp_unreach_reported.** The same for MP_UNREACH_NLRI / `mp_withdrawals()` /
`typed_withdrawals`. -/
theorem mp_unreach_reported (m : Msg) (l : List RawAttr) (hm : m.attrs = encRaws l)
    (hwf : ∀ a ∈ l, a.wf = true) (a : RawAttr) (hfirst : firstWith 15 l = some a)
    (f : Fam) (nlri : List (Nat × f.Val)) (hw : NlrisWf f m.ppi.mpUnreach nlri) :
    ∃ b, encNlris f m.ppi.mpUnreach nlri = .ok b ∧ (a.v = unreachValue f b →
      m.mpWd = .ok (some (.known f m.ppi.mpUnreach, b)) ∧
      enumItems (.known f m.ppi.mpUnreach) b = (reportNlris f m.ppi.mpUnreach nlri, true) ∧
      ((f ≠ .v4u ∨ m.wd = []) →
        m.typedWd f m.ppi.mpUnreach = .ok (some (reportNlris f m.ppi.mpUnreach nlri, true)))) := by
  obtain ⟨b, hb1, hb2, _⟩ := nlris_reported f m.ppi.mpUnreach nlri hw
  refine ⟨b, hb1, ?_⟩
  intro hv
  have hx := afiSafi_unreach f b
  rw [← hv] at hx
  have hattr := mpAttr_enc m l hm hwf 15 a hfirst _ hx
  refine ⟨?_, hb2, ?_⟩
  · simp only [Msg.mpWd, hattr, nlriTy_famCode]
  · intro hc
    have hcond : ¬ (f = .v4u ∧ m.wd ≠ []) := by
      rintro ⟨h1, h2⟩
      rcases hc with hc | hc
      · exact hc h1
      · exact h2 hc
    simp only [Msg.typedWd, hcond, ↓reduceIte, hattr, famOf_famCode, hb2]

/-- the ADD-PATH flag of an MP section is the session's setting for the family
of the (only) attribute of that type: with `decode_encode_partial` this closes
the loop between the encoder's and the decoder's use of path ids -/
theorem mp_flag_of_unique (code : Nat) (l : List RawAttr) (a : RawAttr)
    (huniq : ∀ x ∈ l, x.tc.toNat = code → x = a) (hfirst : firstWith code l = some a) :
    lastMp code l none = (afiSafi a.v).map (·.1) := by
  have key : ∀ (l : List RawAttr) (acc : Option (Nat × Nat)), (∀ x ∈ l, x.tc.toNat = code → x = a) →
      (acc = (afiSafi a.v).map (·.1) ∨ ∃ x ∈ l, x.tc.toNat = code) → lastMp code l acc = (afiSafi a.v).map (·.1) := by
    intro l
    induction l with
    | nil => intro acc _ h; rcases h with h | ⟨x, hx, _⟩; exact h; simp at hx
    | cons b t ih =>
      intro acc hu h
      simp only [lastMp]
      by_cases hb : b.tc.toNat = code
      · have := hu b (by simp) hb
        subst this
        simp only [hb, ↓reduceIte]
        exact ih _ (fun x hx => hu x (by simp [hx])) (.inl rfl)
      · simp only [hb, ↓reduceIte]
        refine ih _ (fun x hx => hu x (by simp [hx])) ?_
        rcases h with h | ⟨x, hx, hxc⟩
        · exact .inl h
        · simp only [List.mem_cons] at hx
          rcases hx with rfl | hx
          · exact absurd hxc hb
          · exact .inr ⟨x, hx, hxc⟩
  refine key l none huniq (.inr ?_)
  clear huniq key
  induction l with
  | nil => simp [firstWith] at hfirst
  | cons b t ih =>
    simp only [firstWith] at hfirst
    split at hfirst
    · rename_i hb; exact ⟨b, by simp, hb⟩
    · obtain ⟨x, hx, hxc⟩ := ih hfirst; exact ⟨x, by simp [hx], hxc⟩

/-! ### next hops -/

theorem takeN_append_ge (k : Nat) (a r : Bytes) (h : k ≤ a.length) :
    takeN k (a ++ r) = some (a.take k, a.drop k ++ r) := by
  unfold takeN
  have : k ≤ (a ++ r).length := by simp; omega
  rw [if_pos this, List.take_append_of_le_length h, List.drop_append_of_le_length h]

theorem takeN_all (a r : Bytes) (k : Nat) (h : a.length = k) : takeN k (a ++ r) = some (a, r) := by
  subst h; exact takeN_append a r

/-- **next_hop_reported.** For every family and every legal next-hop length the
next hop `mp_next_hop()` parses out of an encoded MP_REACH_NLRI value is the
content of the next-hop field (addresses, route distinguisher). -/
theorem next_hop_reported (f : Fam) (nh rest : Bytes) (x : NextHop) (hn : nh.length < 256)
    (hs : nhSpec f nh = some x) : nhParse (some f) (UInt8.ofNat nh.length :: (nh ++ rest)) = .ok x := by
  have hl : (UInt8.ofNat nh.length).toNat = nh.length := by simp [UInt8.toNat_ofNat']; omega
  cases f <;> simp only [nhSpec] at hs <;> simp only [nhParse, hl]
  case v4fs => simp_all
  case v6fs => simp_all
  case v6u =>
    split at hs
    · rename_i h; simp only [Option.some.injEq] at hs; subst hs; simp [h, takeN_all nh rest 16 h]
    · split at hs
      · rename_i h1 h2
        simp only [Option.some.injEq] at hs; subst hs
        have e1 := takeN_append_ge 16 nh rest (by omega)
        have e2 : takeN 16 (nh.drop 16 ++ rest) = some (nh.drop 16, rest) := takeN_all _ _ 16 (by simp; omega)
        simp [h1, h2, e1, e2]
      · cases hs
  case v4vpn =>
    split at hs
    · rename_i h
      simp only [Option.some.injEq] at hs; subst hs
      have e1 := takeN_append_ge 8 nh rest (by omega)
      have e2 : takeN 4 (nh.drop 8 ++ rest) = some (nh.drop 8, rest) := takeN_all _ _ 4 (by simp; omega)
      simp [h, e1, e2]
    · cases hs
  case v6vpn =>
    split at hs
    · rename_i h
      simp only [Option.some.injEq] at hs; subst hs
      have e1 := takeN_append_ge 8 nh rest (by omega)
      have e2 : takeN 16 (nh.drop 8 ++ rest) = some (nh.drop 8, rest) := takeN_all _ _ 16 (by simp; omega)
      simp [h, e1, e2]
    · cases hs
  all_goals
    split at hs
    · rename_i h
      simp only [Option.some.injEq] at hs; subst hs
      first
        | (simp [h, takeN_all nh rest _ h]; done)
        | (rcases h with h | h <;> simp [h, takeN_all nh rest _ h])
    · cases hs

/-! ### End-of-RIB -/

theorem findUnchecked_nil (code f : Nat) : findUnchecked code f [] = .ok none := by
  cases f <;> simp [findUnchecked, uncheckedNext]

/-- **eor_iff.** `is_eor()` answers `Some(family)` in exactly two situations:
the 23-octet UPDATE (IPv4 unicast), or a message without conventional sections
and without an MP_REACH_NLRI attribute whose (first) MP_UNREACH_NLRI – of the
family the answer names, supported or not – holds no octet after AFI/SAFI. -/
theorem eor_iff (m : Msg) (k : Nat × Nat) :
    m.isEor = .ok (some k) ↔
      (m.length = 23 ∧ k = (1, 1)) ∨
      (m.length ≠ 23 ∧ m.wd = [] ∧ m.ann = [] ∧ m.hasMpNlri = .ok false ∧
        ∃ ty, m.mpWd = .ok (some (ty, [])) ∧ k = ty.afiSafi) := by
  unfold Msg.isEor
  by_cases h23 : m.length = 23
  · simp only [h23, ↓reduceIte, Outcome.ok.injEq, Option.some.injEq, true_and, ne_eq, not_true_eq_false,
      false_and, or_false]
    exact eq_comm
  · simp only [h23, ↓reduceIte, false_and, ne_eq, not_false_eq_true, true_and, false_or]
    cases hw : m.mpWd with
    | ok x =>
      cases x with
      | none => simp
      | some p =>
        obtain ⟨ty, bs⟩ := p
        simp only [Outcome.ok.injEq, Option.some.injEq, Prod.mk.injEq]
        by_cases hc : (bs.isEmpty && m.wd.isEmpty && m.ann.isEmpty) = true
        · have hc' : bs = [] ∧ m.wd = [] ∧ m.ann = [] := by
            simpa [Bool.and_eq_true, List.isEmpty_iff, and_assoc] using hc
          obtain ⟨h1, h2, h3⟩ := hc'
          rw [if_pos hc]
          simp only [h2, h3, true_and]
          cases hh : m.hasMpNlri with
          | ok b =>
            cases b with
            | false =>
              simp only [Outcome.ok.injEq, Option.some.injEq, true_and]
              constructor
              · intro h; exact ⟨ty, ⟨rfl, h1⟩, h.symm⟩
              · rintro ⟨ty', ⟨rfl, _⟩, rfl⟩; rfl
            | true => simp
          | err => simp
          | panic => simp
        · simp only [hc, Bool.false_eq_true, ↓reduceIte, Outcome.ok.injEq, reduceCtorEq, false_iff, not_and,
            not_exists]
          intro h2 h3 _ ty' heq
          obtain ⟨rfl, h1⟩ := heq
          exact absurd (by simp [h1, h2, h3]) hc
    | err => simp
    | panic => simp

/-- **eor_no_nlri.** A message that carries NLRI – a non-empty conventional
section, an MP_REACH_NLRI attribute, or an MP_UNREACH_NLRI with at least one
octet of withdrawn routes after AFI/SAFI, of ANY address family (also one
routecore has no NLRI type for) – is never reported as End-of-RIB. For every
message, whatever its bytes. -/
theorem eor_no_nlri (m : Msg) (k : Nat × Nat)
    (h : m.wd ≠ [] ∨ m.ann ≠ [] ∨ m.hasMpNlri = .ok true ∨
      ∃ ty bs, m.mpWd = .ok (some (ty, bs)) ∧ bs ≠ []) :
    m.isEor ≠ .ok (some k) := by
  intro he
  rcases (eor_iff m k).mp he with ⟨h23, _⟩ | ⟨_, hw, ha, hh, ty, hm, _⟩
  · -- a 23-octet message has three empty sections
    have hwd : m.wd = [] := by
      cases hx : m.wd with
      | nil => rfl
      | cons _ _ => simp [Msg.length, hx] at h23; omega
    have han : m.ann = [] := by
      cases hx : m.ann with
      | nil => rfl
      | cons _ _ => simp [Msg.length, hx] at h23; omega
    have hat : m.attrs = [] := by
      cases hx : m.attrs with
      | nil => rfl
      | cons _ _ => simp [Msg.length, hx] at h23; omega
    rcases h with h | h | h | ⟨ty, bs, h, _⟩
    · exact h hwd
    · exact h han
    · simp [Msg.hasMpNlri, hat, findUnchecked_nil] at h
    · simp [Msg.mpWd, Msg.mpAttr, hat, findUnchecked_nil] at h
  · rcases h with h | h | h | ⟨ty', bs', h, hne⟩
    · exact h hw
    · exact h ha
    · rw [hh] at h; cases h
    · rw [hm] at h
      simp only [Outcome.ok.injEq, Option.some.injEq, Prod.mk.injEq] at h
      obtain ⟨_, rfl⟩ := h
      exact hne rfl

/-- the same with "carries NLRI" read off the iterator: an MP_UNREACH_NLRI whose
iterator yields an item (only a supported family's does) holds octets -/
theorem eor_no_nlri_items (m : Msg) (k : Nat × Nat) (ty : NlriTy) (bs : Bytes)
    (hm : m.mpWd = .ok (some (ty, bs))) (hi : (enumItems ty bs).1 ≠ []) : m.isEor ≠ .ok (some k) := by
  refine eor_no_nlri m k (.inr (.inr (.inr ⟨ty, bs, hm, ?_⟩)))
  rintro rfl
  have := (enumItems_spec ty []).2.1
  exact hi (List.eq_nil_of_length_eq_zero (by simpa using this))

/-- **eor_marker_recognised.** The End-of-RIB marker of each of the 13 families
(an UPDATE holding nothing but an MP_UNREACH_NLRI with AFI/SAFI and no
withdrawn routes, RFC 4724) is reported as End-of-RIB of exactly that family,
under every session configuration; the empty UPDATE is IPv4 unicast's. -/
theorem eor_marker_recognised (cfg : Cfg) (f : Fam) (fl : UInt8) (trail : Bytes)
    (hwf : (⟨fl, 15, unreachValue f []⟩ : RawAttr).wf = true) :
    ∃ m, parseUpdate cfg (frame [] (encRaws [⟨fl, 15, unreachValue f []⟩]) [] ++ trail) = .ok m ∧
      m.isEor = .ok (some (famCode f)) := by
  let a : RawAttr := ⟨fl, 15, unreachValue f []⟩
  let c : Content := ⟨[], [a], []⟩
  have hw : WfUpdate cfg c := by
    refine ⟨by simp [NlrisWf, c], by simp [NlrisWf, c], by simpa [c] using hwf, ?_⟩
    intro x hx
    simp only [c, List.mem_singleton] at hx
    subst hx
    refine ⟨by simp [a], fun _ => by simp [a, afiSafi_unreach]⟩
  obtain ⟨bs, hbs, hdec⟩ := decode_encode_partial cfg c hw
  have henil : encNlris .v4u (cfg.rx (1, 1)) [] = .ok [] := by
    cases cfg.rx (1, 1) <;> simp [encNlris, Nlri.encAll]
  have hb : bs = frame [] (encRaws [a]) [] := by
    simp only [encUpdate, c, henil, Outcome.ok.injEq] at hbs
    exact hbs.symm
  subst hb
  have hsmall : (frame [] (encRaws [a]) []).length < 65536 := by
    rw [frame_length]
    simp only [encRaws, List.map_cons, List.map_nil, List.flatten_cons, List.flatten_nil, List.append_nil,
      List.length_nil, a, encRaw, unreachValue]
    split <;> simp
  obtain ⟨m, hm, hlen, ⟨w', a', hw', ha', hmwd, hman, _⟩, _, _, _, _, hattrs, hppi⟩ := hdec hsmall trail
  refine ⟨m, hm, ?_⟩
  have hwd : m.wd = [] := by
    simp only [c, henil, Outcome.ok.injEq] at hw'
    rw [hmwd, ← hw']
  have han : m.ann = [] := by
    simp only [c, henil, Outcome.ok.injEq] at ha'
    rw [hman, ← ha']
  have hattrs' : m.attrs = encRaws [a] := hattrs
  have hfirst15 : firstWith 15 [a] = some a := by simp [firstWith, a]
  have hfirst14 : firstWith 14 [a] = none := by simp [firstWith, a]
  have hwfa : ∀ x ∈ [a], x.wf = true := by simpa using hwf
  have hmw : m.mpWd = .ok (some (.known f m.ppi.mpUnreach, [])) := by
    have hattr := mpAttr_enc m [a] hattrs hwfa 15 a hfirst15 _ (afiSafi_unreach f [])
    simp only [Msg.mpWd, hattr, nlriTy_famCode]
  have hhas : m.hasMpNlri = .ok false := by
    simp only [Msg.hasMpNlri, hattrs', findUnchecked_enc 14 [a] hwfa _ (encRaws_length_ge _), hfirst14,
      Option.map_none, Option.isSome_none]
  have h23 : m.length ≠ 23 := by
    have e : (encRaws [a]).length = (encRaw a).length := by simp [encRaws]
    have e2 : (frame [] (encRaws [a]) []).length = 19 + 2 + 0 + 2 + (encRaw a).length + 0 := by
      rw [frame_length, e]; rfl
    have := encRaw_length_ge a
    rw [hlen, e2]
    omega
  exact (eor_iff m (famCode f)).mpr (.inr ⟨h23, hwd, han, hhas, _, hmw, rfl⟩)

end Rc.Upd.Raw
