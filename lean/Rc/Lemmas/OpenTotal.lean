/-
Totality lemmas for the OPEN model: nothing in `fromOctets` can panic, and
what `openCheck` accepted is exactly what the lazy iterators later walk over.
-/
import Rc.Model.Open
import Rc.Lemmas.Header

namespace Rc.Open
open Rc

theorem capContent_ne_panic (code len : Nat) (body : Bytes) : capContent code len body ≠ .panic := by
  unfold capContent
  simp only
  split <;> (try split) <;> (try split) <;> (try split) <;> simp

theorem parseCap_ne_panic (rest : Bytes) : parseCap rest ≠ .panic := by
  unfold parseCap
  split
  · rename_i code len body
    have := capContent_ne_panic code.toNat len.toNat body
    split
    · split <;> simp
    · simp
    · rename_i h; exact absurd h this
  · simp

theorem capsCheck_ne_panic (fuel : Nat) (rest : Bytes) : capsCheck fuel rest ≠ .panic := by
  induction fuel generalizing rest with
  | zero => cases rest <;> simp [capsCheck]
  | succ n ih =>
    cases rest with
    | nil => simp [capsCheck]
    | cons x xs =>
      unfold capsCheck
      have := parseCap_ne_panic (x :: xs)
      split
      · exact ih _
      · simp
      · rename_i h; exact absurd h this

theorem paramCheck_ne_panic (rest : Bytes) : paramCheck rest ≠ .panic := by
  unfold paramCheck
  split
  · split
    · simp
    · rename_i v r'
      split
      · split
        · simp
        · simp
        · rename_i h; exact absurd h (capsCheck_ne_panic _ _)
      · simp
  · simp

theorem paramsCheck_ne_panic (fuel : Nat) (rest : Bytes) : paramsCheck fuel rest ≠ .panic := by
  induction fuel generalizing rest with
  | zero => cases rest <;> simp [paramsCheck]
  | succ n ih =>
    cases rest with
    | nil => simp [paramsCheck]
    | cons x xs =>
      unfold paramsCheck
      have := paramCheck_ne_panic (x :: xs)
      split
      · exact ih _
      · simp
      · rename_i h; exact absurd h this

theorem openCheck_ne_panic (bs : Bytes) : openCheck bs ≠ .panic := by
  unfold openCheck
  split
  · simp
  · split
    · simp
    · split
      · simp
      · split
        · simp
        · rename_i ps trailing _
          have := paramsCheck_ne_panic ps.length ps
          split
          · split <;> simp
          · simp
          · rename_i h; exact absurd h this

/-! ### what the check guarantees for the iterators -/

/-- the facts about a capability that `my_asn` and `multiprotocol_ids` rely on -/
def GoodCap (c : Cap) : Prop :=
  (c.code.toNat = 65 → c.value.length = 4) ∧ (c.code.toNat = 1 → c.value.length = 4)

theorem parseCap_good {rest r : Bytes} {c : Cap} (h : parseCap rest = .ok (c, r)) :
    GoodCap c ∧ r.length < rest.length := by
  unfold parseCap at h
  split at h
  · rename_i code len body
    split at h
    · rename_i hcc
      split at h
      · rename_i v r' ht
        simp at h
        obtain ⟨rfl, rfl⟩ := h
        have ⟨hv, hb⟩ := takeN_length ht
        refine ⟨⟨?_, ?_⟩, ?_⟩
        · intro h65
          simp only at h65
          simp only
          unfold capContent at hcc
          simp only [h65] at hcc
          split at hcc
          · rename_i hh; simp at hh; omega
          · simp at hcc
        · intro h1
          simp only at h1
          simp only
          unfold capContent at hcc
          simp only [h1] at hcc
          split at hcc
          · rename_i hh; simp at hh; omega
          · simp at hcc
        · simp [hb]; omega
      · simp at h
    · simp at h
    · simp at h
  · simp at h

/-- check and iterator walk the same capabilities -/
theorem capsCheck_iter (fuel : Nat) (rest : Bytes) (h : capsCheck fuel rest = .ok ()) :
    (capsIter fuel rest).2 = false ∧ ∀ c ∈ (capsIter fuel rest).1, GoodCap c := by
  induction fuel generalizing rest with
  | zero =>
    cases rest with
    | nil => simp [capsIter]
    | cons x xs => simp [capsCheck] at h
  | succ n ih =>
    cases rest with
    | nil => simp [capsIter]
    | cons x xs =>
      unfold capsCheck at h
      unfold capsIter
      cases hp : parseCap (x :: xs) with
      | ok p =>
        obtain ⟨c, r⟩ := p
        simp only [hp] at h
        have ⟨i1, i2⟩ := ih r h
        have ⟨g, _⟩ := parseCap_good hp
        simp only
        refine ⟨i1, ?_⟩
        intro c' hc'
        simp at hc'
        rcases hc' with rfl | hc'
        · exact g
        · exact i2 c' hc'
      | err => simp [hp] at h
      | panic => simp [hp] at h

/-- a parameter as the check sees it -/
def GoodParam (q : Param) : Prop :=
  q.typ.toNat = 2 → (capsIter q.value.length q.value).2 = false ∧
    ∀ c ∈ (capsIter q.value.length q.value).1, GoodCap c

theorem paramsCheck_iter (fuel : Nat) (rest : Bytes) (h : paramsCheck fuel rest = .ok ())
    (hf : rest.length ≤ fuel) :
    (paramsIter fuel rest).2 = false ∧ ∀ q ∈ (paramsIter fuel rest).1, GoodParam q := by
  induction fuel generalizing rest with
  | zero =>
    cases rest with
    | nil => simp [paramsIter]
    | cons x xs => simp at hf
  | succ n ih =>
    cases rest with
    | nil => simp [paramsIter]
    | cons x xs =>
      unfold paramsCheck at h
      cases hp : paramCheck (x :: xs) with
      | ok r =>
        simp only [hp] at h
        unfold paramCheck at hp
        match xs, hp with
        | len :: r0, hp =>
          simp only at hp
          cases ht : takeN len.toNat r0 with
          | none => simp [ht] at hp
          | some p =>
            obtain ⟨v, r'⟩ := p
            simp only [ht] at hp
            have ⟨hv, hb⟩ := takeN_length ht
            have hr : r = r' := by
              split at hp
              · split at hp <;> simp at hp; exact hp.symm
              · simp at hp; exact hp.symm
            subst hr
            have hlen : r.length ≤ n := by simp [hb] at hf; omega
            have ⟨i1, i2⟩ := ih r h hlen
            unfold paramsIter
            simp only [ht]
            refine ⟨i1, ?_⟩
            intro q hq
            simp at hq
            rcases hq with rfl | hq
            · intro h2
              simp only at h2
              simp only [h2, if_true] at hp
              cases hcc : capsCheck v.length v with
              | ok u => exact capsCheck_iter _ _ hcc
              | err => simp [hcc] at hp
              | panic => simp [hcc] at hp
            · exact i2 q hq
      | err => simp [hp] at h
      | panic => simp [hp] at h

theorem flatCaps_good (ps : List Param) (h : ∀ q ∈ ps, GoodParam q) :
    (flatCaps ps false).2 = false ∧ ∀ c ∈ (flatCaps ps false).1, GoodCap c := by
  induction ps with
  | nil => simp [flatCaps]
  | cons q qs ih =>
    have hq := h q (by simp)
    have ⟨j1, j2⟩ := ih (fun q' hq' => h q' (by simp [hq']))
    unfold flatCaps
    by_cases h2 : q.typ.toNat = 2
    · have ⟨g1, g2⟩ := hq h2
      simp only [h2, if_true]
      cases hci : capsIter q.value.length q.value with
      | mk cs pc =>
        simp only [hci] at g1 g2
        have g1' : pc = false := g1
        subst g1'
        simp only [Bool.false_eq_true, if_false]
        refine ⟨j1, ?_⟩
        intro c hc
        simp at hc
        rcases hc with hc | hc
        · exact g2 c hc
        · exact j2 c hc
    · simp only [h2, if_false]
      exact ⟨j1, j2⟩

end Rc.Open

namespace Rc.Open
open Rc

/-- layout of an accepted OPEN -/
theorem openCheck_ok {bs : Bytes} (h : openCheck bs = .ok ()) :
    ∃ (t : UInt8) (f9 : Bytes) (opl : UInt8) (ps : Bytes),
      bs = (header bs.length t ++ f9 ++ [opl]) ++ ps ∧ f9.length = 9 ∧ ps.length = opl.toNat ∧
      bs.length < 65536 ∧ paramsCheck ps.length ps = .ok () := by
  unfold openCheck at h
  cases hc : headerCheck bs with
  | none => simp [hc] at h
  | some r =>
    simp only [hc] at h
    obtain ⟨t, hb, hlt, hl⟩ := headerCheck_some hc
    cases h9 : takeN 9 r with
    | none => simp [h9] at h
    | some p =>
      obtain ⟨f9, r1⟩ := p
      simp only [h9] at h
      have ⟨hf9, hr⟩ := takeN_length h9
      cases r1 with
      | nil => simp at h
      | cons opl r2 =>
        simp only at h
        cases hps : takeN opl.toNat r2 with
        | none => simp [hps] at h
        | some p2 =>
          obtain ⟨ps, trailing⟩ := p2
          simp only [hps] at h
          have ⟨hpl, hr2⟩ := takeN_length hps
          cases hpc : paramsCheck ps.length ps with
          | ok u =>
            simp only [hpc] at h
            split at h
            · simp at h
            · rename_i htr
              have : trailing = [] := by
                cases trailing with
                | nil => rfl
                | cons a b => simp at htr
              subst this
              refine ⟨t, f9, opl, ps, ?_, hf9, hpl, hlt, hpc⟩
              conv => lhs; rw [hb, hr, hr2]
              simp
          | err => simp [hpc] at h
          | panic => simp [hpc] at h

theorem idx_of_lt {bs : Bytes} {i : Nat} (h : i < bs.length) : idx bs i = .ok bs[i] := by
  simp [idx, h]

theorem slice_of_le {bs : Bytes} {a b : Nat} (h : a ≤ b ∧ b ≤ bs.length) :
    slice bs a b = .ok ((bs.drop a).take (b - a)) := by
  simp [slice, h]

/-- `parameters()` of an accepted OPEN iterates exactly the bytes the check looped over -/
theorem parameters_of_layout (pre : Bytes) (opl : UInt8) (ps : Bytes) (hpre : pre.length = 28)
    (hps : ps.length = opl.toNat) :
    parameters ((pre ++ [opl]) ++ ps) = .ok (paramsIter ps.length ps) := by
  unfold parameters
  have h29 : takeN 29 ((pre ++ [opl]) ++ ps) = some (pre ++ [opl], ps) := by
    have : (pre ++ [opl]).length = 29 := by simp [hpre]
    rw [← this]; exact takeN_append _ _
  have hi : idx ((pre ++ [opl]) ++ ps) 28 = .ok opl := by
    unfold idx
    rw [List.append_assoc, List.getElem?_append_right (by omega)]
    simp [hpre]
  have ht : takeN opl.toNat ps = some (ps, []) := by
    rw [← hps]; simpa using takeN_append ps []
  simp only [h29, hi, ht]

theorem be32val_of_len {v : Bytes} (h : v.length = 4) : ∃ n, be32val v = .ok n := by
  match v, h with
  | [a, b, c, d], _ => exact ⟨_, rfl⟩

theorem mpLoop_ok (cs : List Cap) (h : ∀ c ∈ cs, GoodCap c) : ∃ l, mpLoop cs false = .ok l := by
  induction cs with
  | nil => exact ⟨[], by simp [mpLoop]⟩
  | cons c cs ih =>
    obtain ⟨l, hl⟩ := ih (fun c' hc' => h c' (by simp [hc']))
    unfold mpLoop
    by_cases h1 : c.code.toNat = 1
    · have hv := (h c (by simp)).2 h1
      match hcv : c.value, hv with
      | [a, b, r, s], _ =>
        simp [h1, mpOne, idx, hl]
    · simp [h1, hl]

theorem apLoop_ne_panic (cs : List Cap) : apLoop cs false ≠ .panic := by
  induction cs with
  | nil => simp [apLoop]
  | cons c cs ih =>
    unfold apLoop
    split
    · split
      · simp
      · split
        · simp
        · simp
        · rename_i h; exact absurd h ih
    · exact ih

theorem lazyFind_noPanic {α} (p : α → Bool) (l : List α) :
    lazyFind p (l, false) = .ok (l.find? p) := by
  unfold lazyFind
  cases h : l.find? p <;> simp [h]

end Rc.Open
