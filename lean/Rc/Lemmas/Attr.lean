/-
Lemmas about the typed path attribute model (Rc/Model/Attr.lean):
well-formedness of values, header split of a composed header, value codecs of
every kind (validate accepts / parse inverts compose_value), the
StandardCommunitiesList bookkeeping.  Reused by C04 and the UPDATE-level
properties.
-/
import Rc.Model.Attr
import Rc.Lemmas.AsPath

namespace Rc.Attr
open Rc Rc.AsPath

/-! ### well-formed values -/

def u32ok (n : Nat) : Bool := decide (n < 4294967296)

/-- every record has the fixed size of its community type (in Rust: `[u8; k]`) -/
def recsOk (k : Nat) (cs : List Bytes) : Bool := cs.all fun c => c.length == k

/-- the invariant `add_community` maintains from `new()` -/
def SCL.wf (l : SCL) : Bool :=
  (l.len == l.cs.length * 4) && (l.extended == decide (l.len > 255)) && l.cs.all u32ok

/-- type invariants of the Rust values (field widths, record sizes, the
`StandardCommunitiesList` invariant) plus, for the two AS path kinds, the hop
paths of C13's quantifier (`WfHops`: excludes K2, a segment hop with more than
255 ASNs, AND a non-empty AS_SEQUENCE held as one segment hop – the latter is
API-buildable and admitted by `WfAttrG` below); segment hops may be stored in
either width. -/
def WfAttrW : TypedAttr → Bool
  | .origin v => decide (v < 256)
  | .asPath h => WfHops h
  | .nextHop a => u32ok a
  | .med n => u32ok n
  | .localPref n => u32ok n
  | .atomicAggregate => true
  | .aggregator a b => u32ok a && u32ok b
  | .communities l => l.wf
  | .originatorId a => u32ok a
  | .clusterList ids => ids.all u32ok
  | .extCommunities cs => recsOk 8 cs
  | .as4Path h => WfHops h
  | .as4Aggregator a b => u32ok a && u32ok b
  | .connector a => u32ok a
  | .asPathLimit ub asn => decide (ub < 256) && u32ok asn
  | .ipv6ExtCommunities cs => recsOk 20 cs
  | .largeCommunities cs => recsOk 12 cs
  | .otc a => u32ok a
  | .attrSet o _ => u32ok o
  | .reserved _ => true

/-- the segment hops of a path attribute are stored four-octet wide (what
`Segment::new_*` and decoding in a four-octet session produce) -/
def pathsFour : TypedAttr → Bool
  | .asPath h => AllFour h
  | .as4Path h => AllFour h
  | _ => true

/-- well-formed value whose AS path segments (if any) are four-octet wide -/
def WfAttr (a : TypedAttr) : Bool := WfAttrW a && pathsFour a

/-- the value with its path segments re-read from a four-octet wire path; Rust's
`==` on `HopPath` does not see the difference (C13 `segEq`). -/
def TypedAttr.norm : TypedAttr → TypedAttr
  | .asPath h => .asPath (h.map (Hop.norm true))
  | .as4Path h => .as4Path (h.map (Hop.norm true))
  | a => a

theorem norm_of_wf (a : TypedAttr) (wf : WfAttr a = true) : a.norm = a := by
  simp only [WfAttr, Bool.and_eq_true] at wf
  cases a <;> first
    | rfl
    | (simp only [TypedAttr.norm, pathsFour] at *; rw [map_norm_allFour _ wf.2])

/-! ### list codecs -/

theorem dec32O_enc32 : ∀ (l : List Nat), l.all u32ok = true → dec32O (enc32 l) = .ok l
  | [], _ => rfl
  | a :: r, h => by
    simp only [List.all_cons, Bool.and_eq_true, u32ok, decide_eq_true_eq] at h
    have ih := dec32O_enc32 r (by simpa [u32ok] using h.2)
    simp only [enc32_cons, be32, List.cons_append, List.nil_append, dec32O, ih, Outcome.ok.injEq,
      List.cons.injEq, and_true]
    simp [UInt8.toNat_ofNat']; omega

theorem flatten_length_recs (k : Nat) : ∀ (cs : List Bytes), recsOk k cs = true →
    cs.flatten.length = cs.length * k
  | [], _ => by simp
  | c :: r, h => by
    simp only [recsOk, List.all_cons, Bool.and_eq_true, beq_iff_eq] at h
    have ih := flatten_length_recs k r (by simpa [recsOk] using h.2)
    simp [ih, h.1, Nat.add_mul]; omega

theorem chunkO_flatten (k : Nat) (hk : 0 < k) : ∀ (cs : List Bytes) (f : Nat),
    recsOk k cs = true → cs.flatten.length ≤ f → chunkO k f cs.flatten = .ok cs
  | [], f, _, _ => by cases f <;> simp [chunkO]
  | c :: r, f, h, hf => by
    simp only [recsOk, List.all_cons, Bool.and_eq_true, beq_iff_eq] at h
    have hc := h.1
    have hlen : (c :: r).flatten.length = k + r.flatten.length := by simp [hc]
    match f, hf with
    | 0, hf => exact absurd hf (by omega)
    | f + 1, hf =>
      have ih := chunkO_flatten k hk r f (by simpa [recsOk] using h.2) (by omega)
      have hne : ((c :: r).flatten).isEmpty = false := by
        cases hx : (c :: r).flatten with
        | nil => rw [hx] at hlen; simp at hlen; omega
        | cons _ _ => rfl
      have ht : takeN k (c ++ r.flatten) = some (c, r.flatten) := by
        rw [← hc]; exact takeN_append _ _
      unfold chunkO
      simp only [hne, Bool.false_eq_true, if_false]
      simp only [List.flatten_cons, ht, ih]

/-! ### StandardCommunitiesList bookkeeping -/

theorem scl_fold : ∀ (cs : List Nat) (l0 : SCL), l0.extended = decide (l0.len > 255) →
    cs.foldl SCL.add l0 =
      ⟨l0.cs ++ cs, l0.len + 4 * cs.length, decide (l0.len + 4 * cs.length > 255)⟩
  | [], l0, h => by cases l0; simp_all
  | c :: r, l0, h => by
    have hadd : (l0.add c).extended = decide ((l0.add c).len > 255) := by
      simp only [SCL.add, h]
      by_cases h1 : l0.len > 255 <;> by_cases h2 : l0.len + 4 > 255 <;> simp [h1, h2] <;> omega
    rw [List.foldl_cons, scl_fold r (l0.add c) hadd]
    simp only [SCL.add, List.append_assoc, List.singleton_append, List.length_cons, SCL.mk.injEq,
      true_and]
    constructor
    · omega
    · congr 1; apply propext; constructor <;> intro <;> omega

/-! ### header -/

theorem extBit_plain (f : Nat) (hf : f = 0x40 ∨ f = 0x80 ∨ f = 0xC0) :
    extBit (UInt8.ofNat f) = false ∧ extBit (UInt8.ofNat (f ||| 0x10)) = true ∧
      (UInt8.ofNat f).toNat = f ∧ (UInt8.ofNat (f ||| 0x10)).toNat = f + 16 := by
  rcases hf with rfl | rfl | rfl <;> decide

/-- the header walk reads back what `compose_header` wrote -/
theorem splitAttr_composeHeader (flags code n : Nat) (v r : Bytes)
    (hf : flags = 0x40 ∨ flags = 0x80 ∨ flags = 0xC0) (hv : v.length = n) (hn : n ≤ 65535) :
    splitAttr (composeHeader flags code n ++ (v ++ r)) =
      some (UInt8.ofNat (if n > 255 then flags ||| 0x10 else flags), UInt8.ofNat code, v, r) := by
  obtain ⟨e1, e2, _, _⟩ := extBit_plain flags hf
  unfold composeHeader
  by_cases hx : n > 255
  · simp only [hx, if_true, List.cons_append, List.nil_append, splitAttr, e2]
    have hmin : min n 65535 = n := by omega
    rw [hmin, rd16_be16 n (by omega)]
    subst hv
    simp only [takeN_append]
  · simp only [hx, if_false, List.cons_append, List.nil_append, splitAttr, e1, Bool.false_eq_true,
      rd8]
    have hmin : min n 255 = n := by omega
    have ht : (UInt8.ofNat n).toNat = n := by simp [UInt8.toNat_ofNat']; omega
    rw [hmin, ht]
    subst hv
    simp only [takeN_append]

/-! ### value codecs, kind by kind -/

theorem rd32_be32' (n : Nat) (h : n < 4294967296) : rd32 (be32 n) = some (n, []) := by
  simpa using rd32_be32 n h []

theorem path_spec (h : HopPath) (hp : WfHops h = true) :
    ∃ w, pathBytes h = .ok w ∧ pathValid true w = true ∧
      parsePath true w = .ok (h.map (Hop.norm true)) := by
  obtain ⟨w, _, c1, c2, _, _, _, c6⟩ := compose_read h hp
  exact ⟨w, by simp [pathBytes, c1], by simp [pathValid, c2], by simp [parsePath, c2, c6]⟩

theorem scl_of_wf (l : SCL) (h : l.wf = true) : l.cs.foldl SCL.add SCL.empty = l := by
  simp only [SCL.wf, Bool.and_eq_true, beq_iff_eq] at h
  rw [scl_fold l.cs SCL.empty (by simp [SCL.empty])]
  obtain ⟨⟨h1, h2⟩, _⟩ := h
  cases l
  simp only [SCL.empty, List.nil_append, Nat.zero_add, SCL.mk.injEq, true_and] at *
  subst h1
  refine ⟨by omega, ?_⟩
  rw [h2]; congr 1; apply propext; constructor <;> intro <;> omega

/-- For every well-formed value (path segments of either width): `compose_value` succeeds, `value_len` is the
number of bytes it writes, the type's `validate` accepts those bytes and its
`parse` returns the value. -/
theorem value_spec (a : TypedAttr) (wf : WfAttrW a = true) :
    ∃ v, composeValue a = .ok v ∧ valueLen a = .ok v.length ∧
      validate a.code true v = some true ∧ parseValue a.code true v = .ok a.norm := by
  cases a with
  | origin v =>
    have hv : v < 256 := by simpa [WfAttrW] using wf
    refine ⟨[UInt8.ofNat v], rfl, rfl, by simp [validate, TypedAttr.code], ?_⟩
    have : (UInt8.ofNat v).toNat = v := by simp [UInt8.toNat_ofNat']; omega
    simp [parseValue, TypedAttr.code, TypedAttr.norm, rd8, this]
  | asPath h =>
    obtain ⟨w, p1, p2, p3⟩ := path_spec h (by simpa [WfAttrW] using wf)
    exact ⟨w, by simp [composeValue, p1], by simp [valueLen, p1],
      by simp [validate, TypedAttr.code, p2], by simp [parseValue, TypedAttr.code, TypedAttr.norm, p3]⟩
  | nextHop n =>
    have hn : n < 4294967296 := by simpa [WfAttrW, u32ok] using wf
    exact ⟨be32 n, rfl, rfl, by simp [validate, TypedAttr.code],
      by simp [parseValue, TypedAttr.code, TypedAttr.norm, rd32_be32' n hn]⟩
  | med n =>
    have hn : n < 4294967296 := by simpa [WfAttrW, u32ok] using wf
    exact ⟨be32 n, rfl, rfl, by simp [validate, TypedAttr.code],
      by simp [parseValue, TypedAttr.code, TypedAttr.norm, rd32_be32' n hn]⟩
  | localPref n =>
    have hn : n < 4294967296 := by simpa [WfAttrW, u32ok] using wf
    exact ⟨be32 n, rfl, rfl, by simp [validate, TypedAttr.code],
      by simp [parseValue, TypedAttr.code, TypedAttr.norm, rd32_be32' n hn]⟩
  | atomicAggregate =>
    exact ⟨[], rfl, rfl, by simp [validate, TypedAttr.code], by simp [parseValue, TypedAttr.code, TypedAttr.norm]⟩
  | aggregator asn addr =>
    have h : asn < 4294967296 ∧ addr < 4294967296 := by simpa [WfAttrW, u32ok] using wf
    exact ⟨be32 asn ++ be32 addr, rfl, rfl, by simp [validate, TypedAttr.code],
      by simp [parseValue, TypedAttr.code, TypedAttr.norm, rd32_be32 asn h.1, rd32_be32' addr h.2]⟩
  | communities l =>
    have hw : l.wf = true := by simpa [WfAttrW] using wf
    have hall : l.cs.all u32ok = true := by
      simp only [SCL.wf, Bool.and_eq_true] at hw; exact hw.2
    exact ⟨enc32 l.cs, rfl, by simp [valueLen], by simp [validate, TypedAttr.code],
      by simp [parseValue, TypedAttr.code, TypedAttr.norm, dec32O_enc32 l.cs hall, scl_of_wf l hw]⟩
  | originatorId n =>
    have hn : n < 4294967296 := by simpa [WfAttrW, u32ok] using wf
    exact ⟨be32 n, rfl, rfl, by simp [validate, TypedAttr.code],
      by simp [parseValue, TypedAttr.code, TypedAttr.norm, rd32_be32' n hn]⟩
  | clusterList ids =>
    have hall : ids.all u32ok = true := by simpa [WfAttrW] using wf
    exact ⟨enc32 ids, rfl, by simp [valueLen], by simp [validate, TypedAttr.code],
      by simp [parseValue, TypedAttr.code, TypedAttr.norm, dec32O_enc32 ids hall]⟩
  | extCommunities cs =>
    have hr : recsOk 8 cs = true := by simpa [WfAttrW] using wf
    have hl := flatten_length_recs 8 cs hr
    exact ⟨cs.flatten, rfl, by simp [valueLen, hl], by simp [validate, TypedAttr.code, hl],
      by simp [parseValue, TypedAttr.code, TypedAttr.norm, -List.length_flatten,
        chunkO_flatten 8 (by omega) cs _ hr (Nat.le_refl _)]⟩
  | as4Path h =>
    obtain ⟨w, p1, p2, p3⟩ := path_spec h (by simpa [WfAttrW] using wf)
    exact ⟨w, by simp [composeValue, p1], by simp [valueLen, p1],
      by simp [validate, TypedAttr.code, p2], by simp [parseValue, TypedAttr.code, TypedAttr.norm, p3]⟩
  | as4Aggregator asn addr =>
    have h : asn < 4294967296 ∧ addr < 4294967296 := by simpa [WfAttrW, u32ok] using wf
    exact ⟨be32 asn ++ be32 addr, rfl, rfl, by simp [validate, TypedAttr.code],
      by simp [parseValue, TypedAttr.code, TypedAttr.norm, rd32_be32 asn h.1, rd32_be32' addr h.2]⟩
  | connector n =>
    have hn : n < 4294967296 := by simpa [WfAttrW, u32ok] using wf
    exact ⟨be32 n, rfl, rfl, by simp [validate, TypedAttr.code],
      by simp [parseValue, TypedAttr.code, TypedAttr.norm, rd32_be32' n hn]⟩
  | asPathLimit ub asn =>
    have h : ub < 256 ∧ asn < 4294967296 := by simpa [WfAttrW, u32ok] using wf
    have : (UInt8.ofNat ub).toNat = ub := by simp [UInt8.toNat_ofNat']; omega
    exact ⟨UInt8.ofNat ub :: be32 asn, rfl, rfl, by simp [validate, TypedAttr.code],
      by simp [parseValue, TypedAttr.code, TypedAttr.norm, rd8, this, rd32_be32' asn h.2]⟩
  | ipv6ExtCommunities cs =>
    have hr : recsOk 20 cs = true := by simpa [WfAttrW] using wf
    have hl := flatten_length_recs 20 cs hr
    exact ⟨cs.flatten, rfl, by simp [valueLen, hl], by simp [validate, TypedAttr.code, hl],
      by simp [parseValue, TypedAttr.code, TypedAttr.norm, -List.length_flatten,
        chunkO_flatten 20 (by omega) cs _ hr (Nat.le_refl _)]⟩
  | largeCommunities cs =>
    have hr : recsOk 12 cs = true := by simpa [WfAttrW] using wf
    have hl := flatten_length_recs 12 cs hr
    exact ⟨cs.flatten, rfl, by simp [valueLen, hl], by simp [validate, TypedAttr.code, hl],
      by simp [parseValue, TypedAttr.code, TypedAttr.norm, -List.length_flatten,
        chunkO_flatten 12 (by omega) cs _ hr (Nat.le_refl _)]⟩
  | otc n =>
    have hn : n < 4294967296 := by simpa [WfAttrW, u32ok] using wf
    exact ⟨be32 n, rfl, rfl, by simp [validate, TypedAttr.code],
      by simp [parseValue, TypedAttr.code, TypedAttr.norm, rd32_be32' n hn]⟩
  | attrSet o attrs =>
    have hn : o < 4294967296 := by simpa [WfAttrW, u32ok] using wf
    exact ⟨be32 o ++ attrs, rfl, by simp [valueLen], by simp [validate, TypedAttr.code],
      by simp [parseValue, TypedAttr.code, TypedAttr.norm, rd32_be32 o hn]⟩
  | reserved raw =>
    exact ⟨raw, rfl, rfl, by simp [validate, TypedAttr.code], by simp [parseValue, TypedAttr.code, TypedAttr.norm]⟩

/-! ### every API-buildable value: AS paths holding any segment hop that has a wire form -/

/-- as `WfAttrW`, but the hop path of AS_PATH / AS4_PATH may be ANY hop path the
public API builds minus K2 (`WfHopsG`): also a non-empty AS_SEQUENCE held as one
`Hop::Segment`, and two-octet segment hops. -/
def WfAttrG : TypedAttr → Bool
  | .asPath h => WfHopsG h
  | .as4Path h => WfHopsG h
  | a => WfAttrW a

/-- the normal form of a value: the hop path of AS_PATH / AS4_PATH replaced by
its flat hop sequence (an AS_SEQUENCE segment hop becomes its ASNs, segment hops
become four octets wide) – the value a receiver sees. Every other kind is its
own normal form. -/
def TypedAttr.normG : TypedAttr → TypedAttr
  | .asPath h => .asPath (flat true h)
  | .as4Path h => .as4Path (flat true h)
  | a => a

theorem wfAttrG_of_wfAttrW (a : TypedAttr) (wf : WfAttrW a = true) : WfAttrG a = true := by
  cases a <;> first
    | exact wf
    | exact wfHopsG_of_wfHops _ (by simpa [WfAttrW] using wf)

theorem normG_eq_norm (a : TypedAttr) (wf : WfAttrW a = true) : a.normG = a.norm := by
  cases a <;> first
    | rfl
    | (simp only [TypedAttr.normG, TypedAttr.norm]
       rw [flat_of_wfHops true _ (by simpa [WfAttrW] using wf)])

theorem normG_idem (a : TypedAttr) : a.normG.normG = a.normG := by
  cases a <;> first
    | rfl
    | simp only [TypedAttr.normG, flat_idem]

theorem normG_code (a : TypedAttr) : a.normG.code = a.code := by cases a <;> rfl

/-- the normal form of an API-buildable value is a value over the hop paths of
C13's quantifier with four-octet segment hops (`WfAttr`). -/
theorem normG_wf (a : TypedAttr) (wf : WfAttrG a = true) : WfAttr a.normG = true := by
  cases a <;> first
    | (simp only [WfAttr, TypedAttr.normG, pathsFour, Bool.and_true]; exact wf)
    | (rename_i h
       obtain ⟨f1, f2⟩ := wfHops_flat h (by simpa [WfAttrG] using wf)
       simp [WfAttr, WfAttrW, TypedAttr.normG, pathsFour, f1, f2])

/-- a value is its own normal form exactly when it is `WfAttr`: no non-empty
AS_SEQUENCE held as one segment hop, segment hops four octets wide. -/
theorem normG_eq_self_iff (a : TypedAttr) (wf : WfAttrG a = true) :
    a.normG = a ↔ WfAttr a = true := by
  constructor
  · intro e
    have := normG_wf a wf
    rwa [e] at this
  · intro w
    have hw : WfAttrW a = true := by
      simp only [WfAttr, Bool.and_eq_true] at w; exact w.1
    rw [normG_eq_norm a hw, norm_of_wf a w]

theorem path_specG (h : HopPath) (hp : WfHopsG h = true) :
    ∃ w, pathBytes h = .ok w ∧ pathValid true w = true ∧
      parsePath true w = .ok (flat true h) := by
  obtain ⟨w, _, c1, c2, _, _, _, c6⟩ := compose_readG h hp
  exact ⟨w, by simp [pathBytes, c1], by simp [pathValid, c2], by simp [parsePath, c2, c6]⟩

/-- `value_spec` for every API-buildable value: `parse` returns the normal form. -/
theorem value_specG (a : TypedAttr) (wf : WfAttrG a = true) :
    ∃ v, composeValue a = .ok v ∧ valueLen a = .ok v.length ∧
      validate a.code true v = some true ∧ parseValue a.code true v = .ok a.normG := by
  cases a with
  | asPath h =>
    obtain ⟨w, p1, p2, p3⟩ := path_specG h (by simpa [WfAttrG] using wf)
    exact ⟨w, by simp [composeValue, p1], by simp [valueLen, p1],
      by simp [validate, TypedAttr.code, p2], by simp [parseValue, TypedAttr.code, TypedAttr.normG, p3]⟩
  | as4Path h =>
    obtain ⟨w, p1, p2, p3⟩ := path_specG h (by simpa [WfAttrG] using wf)
    exact ⟨w, by simp [composeValue, p1], by simp [valueLen, p1],
      by simp [validate, TypedAttr.code, p2], by simp [parseValue, TypedAttr.code, TypedAttr.normG, p3]⟩
  | _ => exact value_spec _ wf


/-! ### the `_ => .err` arms of `parseValue` / `toOwned` never swallow a panic

`parseValue` (codes 2, 17: `match parsePath .. | .ok h => .. | _ => .err`; the
`dec32O` / `chunkO` arms) and `toOwned` (`| _ => .err`) collapse every non-`ok`
outcome of their scrutinee into `.err`. In Rust a panic of `to_hop_path` (the
`expect`s of `PathSegments`) would NOT become an `Err`. The lemmas below show
that none of these scrutinees is ever `.panic`, i.e. the model with the panic
propagated (`| .panic => .panic | .err => .err`) is the same function: in
particular `to_hop_path` after a successful `AsPath::new` cannot panic. -/

theorem parsePath_no_panic (four : Bool) (v : Bytes) : parsePath four v ≠ .panic := by
  unfold parsePath
  cases hc : check four v with
  | ok u =>
    cases u
    obtain ⟨ss, _, _, _, hh, _⟩ := wire_view four v hc
    simp [hh]
  | err => simp
  | panic => simp

theorem dec32O_no_panic : ∀ (v : Bytes), dec32O v ≠ .panic
  | [] => by simp [dec32O]
  | [_] => by simp [dec32O]
  | [_, _] => by simp [dec32O]
  | [_, _, _] => by simp [dec32O]
  | a :: b :: c :: d :: r => by
    have ih := dec32O_no_panic r
    simp only [dec32O]
    cases h : dec32O r with
    | ok l => simp
    | err => simp
    | panic => exact absurd h ih

theorem chunkO_no_panic (k : Nat) : ∀ (f : Nat) (v : Bytes), chunkO k f v ≠ .panic
  | 0, v => by unfold chunkO; split <;> simp
  | f + 1, v => by
    unfold chunkO
    split
    · simp
    · cases ht : takeN k v with
      | none => simp
      | some p =>
        obtain ⟨c, r⟩ := p
        have ih := chunkO_no_panic k f r
        simp only
        cases h : chunkO k f r with
        | ok l => simp
        | err => simp
        | panic => exact absurd h ih


/-! ### Rust's `==` and the stored width of segment hops -/

theorem segEq_setFour (b : Bool) (s : Seg) : segEq (s.setFour b) s = true := by
  simp [segEq, Seg.setFour]

theorem hopPathEq_norm (b : Bool) : ∀ (h : HopPath), hopPathEq (h.map (Hop.norm b)) h = true
  | [] => rfl
  | .asn n :: r => by simp [hopPathEq, hopEq, Hop.norm, hopPathEq_norm b r]
  | .seg s :: r => by simp [hopPathEq, hopEq, Hop.norm, segEq_setFour, hopPathEq_norm b r]

/-- Rust's `==` does not see the re-reading of segment hops four octets wide -/
theorem eqRust_norm (a : TypedAttr) : a.norm.eqRust a = true := by
  cases a <;> first
    | simp [TypedAttr.norm, TypedAttr.eqRust, hopPathEq_norm]
    | simp [TypedAttr.norm, TypedAttr.eqRust]


end Rc.Attr
