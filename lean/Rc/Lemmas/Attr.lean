/-
Lemmas about the typed path attribute model (Rc/Model/Attr.lean):
well-formedness of values, header split of a composed header, value codecs of
every kind (validate accepts / parse inverts compose_value), the
StandardCommunitiesList bookkeeping.  Reused by C04 and the UPDATE-level
properties.
-/
import Rc.Model.Attr
import Rc.Lemmas.AsPath

namespace Rc.Attr
open Rc Rc.AsPath

/-! ### well-formed values -/

def u32ok (n : Nat) : Bool := decide (n < 4294967296)

/-- every record has the fixed size of its community type (in Rust: `[u8; k]`) -/
def recsOk (k : Nat) (cs : List Bytes) : Bool := cs.all fun c => c.length == k

/-- the invariant `add_community` maintains from `new()` -/
def SCL.wf (l : SCL) : Bool :=
  (l.len == l.cs.length * 4) && (l.extended == decide (l.len > 255)) && l.cs.all u32ok

/-- type invariants of the Rust values (field widths, record sizes, the
`StandardCommunitiesList` invariant) plus, for the two AS path kinds, the hop
paths of C13 (`WfHops`, which excludes K2: a segment hop with more than 255
ASNs); segment hops may be stored in either width. -/
def WfAttrW : TypedAttr → Bool
  | .origin v => decide (v < 256)
  | .asPath h => WfHops h
  | .nextHop a => u32ok a
  | .med n => u32ok n
  | .localPref n => u32ok n
  | .atomicAggregate => true
  | .aggregator a b => u32ok a && u32ok b
  | .communities l => l.wf
  | .originatorId a => u32ok a
  | .clusterList ids => ids.all u32ok
  | .extCommunities cs => recsOk 8 cs
  | .as4Path h => WfHops h
  | .as4Aggregator a b => u32ok a && u32ok b
  | .connector a => u32ok a
  | .asPathLimit ub asn => decide (ub < 256) && u32ok asn
  | .ipv6ExtCommunities cs => recsOk 20 cs
  | .largeCommunities cs => recsOk 12 cs
  | .otc a => u32ok a
  | .attrSet o _ => u32ok o
  | .reserved _ => true

/-- the segment hops of a path attribute are stored four-octet wide (what
`Segment::new_*` and decoding in a four-octet session produce) -/
def pathsFour : TypedAttr → Bool
  | .asPath h => AllFour h
  | .as4Path h => AllFour h
  | _ => true

/-- well-formed value whose AS path segments (if any) are four-octet wide -/
def WfAttr (a : TypedAttr) : Bool := WfAttrW a && pathsFour a

/-- the value with its path segments re-read from a four-octet wire path; Rust's
`==` on `HopPath` does not see the difference (C13 `segEq`). -/
def TypedAttr.norm : TypedAttr → TypedAttr
  | .asPath h => .asPath (h.map (Hop.norm true))
  | .as4Path h => .as4Path (h.map (Hop.norm true))
  | a => a

theorem norm_of_wf (a : TypedAttr) (wf : WfAttr a = true) : a.norm = a := by
  simp only [WfAttr, Bool.and_eq_true] at wf
  cases a <;> first
    | rfl
    | (simp only [TypedAttr.norm, pathsFour] at *; rw [map_norm_allFour _ wf.2])

/-! ### list codecs -/

theorem dec32O_enc32 : ∀ (l : List Nat), l.all u32ok = true → dec32O (enc32 l) = .ok l
  | [], _ => rfl
  | a :: r, h => by
    simp only [List.all_cons, Bool.and_eq_true, u32ok, decide_eq_true_eq] at h
    have ih := dec32O_enc32 r (by simpa [u32ok] using h.2)
    simp only [enc32_cons, be32, List.cons_append, List.nil_append, dec32O, ih, Outcome.ok.injEq,
      List.cons.injEq, and_true]
    simp [UInt8.toNat_ofNat']; omega

theorem flatten_length_recs (k : Nat) : ∀ (cs : List Bytes), recsOk k cs = true →
    cs.flatten.length = cs.length * k
  | [], _ => by simp
  | c :: r, h => by
    simp only [recsOk, List.all_cons, Bool.and_eq_true, beq_iff_eq] at h
    have ih := flatten_length_recs k r (by simpa [recsOk] using h.2)
    simp [ih, h.1, Nat.add_mul]; omega

theorem chunkO_flatten (k : Nat) (hk : 0 < k) : ∀ (cs : List Bytes) (f : Nat),
    recsOk k cs = true → cs.flatten.length ≤ f → chunkO k f cs.flatten = .ok cs
  | [], f, _, _ => by cases f <;> simp [chunkO]
  | c :: r, f, h, hf => by
    simp only [recsOk, List.all_cons, Bool.and_eq_true, beq_iff_eq] at h
    have hc := h.1
    have hlen : (c :: r).flatten.length = k + r.flatten.length := by simp [hc]
    match f, hf with
    | 0, hf => exact absurd hf (by omega)
    | f + 1, hf =>
      have ih := chunkO_flatten k hk r f (by simpa [recsOk] using h.2) (by omega)
      have hne : ((c :: r).flatten).isEmpty = false := by
        cases hx : (c :: r).flatten with
        | nil => rw [hx] at hlen; simp at hlen; omega
        | cons _ _ => rfl
      have ht : takeN k (c ++ r.flatten) = some (c, r.flatten) := by
        rw [← hc]; exact takeN_append _ _
      unfold chunkO
      simp only [hne, Bool.false_eq_true, if_false]
      simp only [List.flatten_cons, ht, ih]

/-! ### StandardCommunitiesList bookkeeping -/

theorem scl_fold : ∀ (cs : List Nat) (l0 : SCL), l0.extended = decide (l0.len > 255) →
    cs.foldl SCL.add l0 =
      ⟨l0.cs ++ cs, l0.len + 4 * cs.length, decide (l0.len + 4 * cs.length > 255)⟩
  | [], l0, h => by cases l0; simp_all
  | c :: r, l0, h => by
    have hadd : (l0.add c).extended = decide ((l0.add c).len > 255) := by
      simp only [SCL.add, h]
      by_cases h1 : l0.len > 255 <;> by_cases h2 : l0.len + 4 > 255 <;> simp [h1, h2] <;> omega
    rw [List.foldl_cons, scl_fold r (l0.add c) hadd]
    simp only [SCL.add, List.append_assoc, List.singleton_append, List.length_cons, SCL.mk.injEq,
      true_and]
    constructor
    · omega
    · congr 1; apply propext; constructor <;> intro <;> omega

/-! ### header -/

theorem extBit_plain (f : Nat) (hf : f = 0x40 ∨ f = 0x80 ∨ f = 0xC0) :
    extBit (UInt8.ofNat f) = false ∧ extBit (UInt8.ofNat (f ||| 0x10)) = true ∧
      (UInt8.ofNat f).toNat = f ∧ (UInt8.ofNat (f ||| 0x10)).toNat = f + 16 := by
  rcases hf with rfl | rfl | rfl <;> decide

/-- the header walk reads back what `compose_header` wrote -/
theorem splitAttr_composeHeader (flags code n : Nat) (v r : Bytes)
    (hf : flags = 0x40 ∨ flags = 0x80 ∨ flags = 0xC0) (hv : v.length = n) (hn : n ≤ 65535) :
    splitAttr (composeHeader flags code n ++ (v ++ r)) =
      some (UInt8.ofNat (if n > 255 then flags ||| 0x10 else flags), UInt8.ofNat code, v, r) := by
  obtain ⟨e1, e2, _, _⟩ := extBit_plain flags hf
  unfold composeHeader
  by_cases hx : n > 255
  · simp only [hx, if_true, List.cons_append, List.nil_append, splitAttr, e2]
    have hmin : min n 65535 = n := by omega
    rw [hmin, rd16_be16 n (by omega)]
    subst hv
    simp only [takeN_append]
  · simp only [hx, if_false, List.cons_append, List.nil_append, splitAttr, e1, Bool.false_eq_true,
      rd8]
    have hmin : min n 255 = n := by omega
    have ht : (UInt8.ofNat n).toNat = n := by simp [UInt8.toNat_ofNat']; omega
    rw [hmin, ht]
    subst hv
    simp only [takeN_append]

/-! ### value codecs, kind by kind -/

theorem rd32_be32' (n : Nat) (h : n < 4294967296) : rd32 (be32 n) = some (n, []) := by
  simpa using rd32_be32 n h []

theorem path_spec (h : HopPath) (hp : WfHops h = true) :
    ∃ w, pathBytes h = .ok w ∧ pathValid true w = true ∧
      parsePath true w = .ok (h.map (Hop.norm true)) := by
  obtain ⟨w, _, c1, c2, _, _, _, c6⟩ := compose_read h hp
  exact ⟨w, by simp [pathBytes, c1], by simp [pathValid, c2], by simp [parsePath, c2, c6]⟩

theorem scl_of_wf (l : SCL) (h : l.wf = true) : l.cs.foldl SCL.add SCL.empty = l := by
  simp only [SCL.wf, Bool.and_eq_true, beq_iff_eq] at h
  rw [scl_fold l.cs SCL.empty (by simp [SCL.empty])]
  obtain ⟨⟨h1, h2⟩, _⟩ := h
  cases l
  simp only [SCL.empty, List.nil_append, Nat.zero_add, SCL.mk.injEq, true_and] at *
  subst h1
  refine ⟨by omega, ?_⟩
  rw [h2]; congr 1; apply propext; constructor <;> intro <;> omega

/-- For every well-formed value (path segments of either width): `compose_value` succeeds, `value_len` is the
number of bytes it writes, the type's `validate` accepts those bytes and its
`parse` returns the value. -/
theorem value_spec (a : TypedAttr) (wf : WfAttrW a = true) :
    ∃ v, composeValue a = .ok v ∧ valueLen a = .ok v.length ∧
      validate a.code true v = some true ∧ parseValue a.code true v = .ok a.norm := by
  cases a with
  | origin v =>
    have hv : v < 256 := by simpa [WfAttrW] using wf
    refine ⟨[UInt8.ofNat v], rfl, rfl, by simp [validate, TypedAttr.code], ?_⟩
    have : (UInt8.ofNat v).toNat = v := by simp [UInt8.toNat_ofNat']; omega
    simp [parseValue, TypedAttr.code, TypedAttr.norm, rd8, this]
  | asPath h =>
    obtain ⟨w, p1, p2, p3⟩ := path_spec h (by simpa [WfAttrW] using wf)
    exact ⟨w, by simp [composeValue, p1], by simp [valueLen, p1],
      by simp [validate, TypedAttr.code, p2], by simp [parseValue, TypedAttr.code, TypedAttr.norm, p3]⟩
  | nextHop n =>
    have hn : n < 4294967296 := by simpa [WfAttrW, u32ok] using wf
    exact ⟨be32 n, rfl, rfl, by simp [validate, TypedAttr.code],
      by simp [parseValue, TypedAttr.code, TypedAttr.norm, rd32_be32' n hn]⟩
  | med n =>
    have hn : n < 4294967296 := by simpa [WfAttrW, u32ok] using wf
    exact ⟨be32 n, rfl, rfl, by simp [validate, TypedAttr.code],
      by simp [parseValue, TypedAttr.code, TypedAttr.norm, rd32_be32' n hn]⟩
  | localPref n =>
    have hn : n < 4294967296 := by simpa [WfAttrW, u32ok] using wf
    exact ⟨be32 n, rfl, rfl, by simp [validate, TypedAttr.code],
      by simp [parseValue, TypedAttr.code, TypedAttr.norm, rd32_be32' n hn]⟩
  | atomicAggregate =>
    exact ⟨[], rfl, rfl, by simp [validate, TypedAttr.code], by simp [parseValue, TypedAttr.code, TypedAttr.norm]⟩
  | aggregator asn addr =>
    have h : asn < 4294967296 ∧ addr < 4294967296 := by simpa [WfAttrW, u32ok] using wf
    exact ⟨be32 asn ++ be32 addr, rfl, rfl, by simp [validate, TypedAttr.code],
      by simp [parseValue, TypedAttr.code, TypedAttr.norm, rd32_be32 asn h.1, rd32_be32' addr h.2]⟩
  | communities l =>
    have hw : l.wf = true := by simpa [WfAttrW] using wf
    have hall : l.cs.all u32ok = true := by
      simp only [SCL.wf, Bool.and_eq_true] at hw; exact hw.2
    exact ⟨enc32 l.cs, rfl, by simp [valueLen], by simp [validate, TypedAttr.code],
      by simp [parseValue, TypedAttr.code, TypedAttr.norm, dec32O_enc32 l.cs hall, scl_of_wf l hw]⟩
  | originatorId n =>
    have hn : n < 4294967296 := by simpa [WfAttrW, u32ok] using wf
    exact ⟨be32 n, rfl, rfl, by simp [validate, TypedAttr.code],
      by simp [parseValue, TypedAttr.code, TypedAttr.norm, rd32_be32' n hn]⟩
  | clusterList ids =>
    have hall : ids.all u32ok = true := by simpa [WfAttrW] using wf
    exact ⟨enc32 ids, rfl, by simp [valueLen], by simp [validate, TypedAttr.code],
      by simp [parseValue, TypedAttr.code, TypedAttr.norm, dec32O_enc32 ids hall]⟩
  | extCommunities cs =>
    have hr : recsOk 8 cs = true := by simpa [WfAttrW] using wf
    have hl := flatten_length_recs 8 cs hr
    exact ⟨cs.flatten, rfl, by simp [valueLen, hl], by simp [validate, TypedAttr.code, hl],
      by simp [parseValue, TypedAttr.code, TypedAttr.norm, -List.length_flatten,
        chunkO_flatten 8 (by omega) cs _ hr (Nat.le_refl _)]⟩
  | as4Path h =>
    obtain ⟨w, p1, p2, p3⟩ := path_spec h (by simpa [WfAttrW] using wf)
    exact ⟨w, by simp [composeValue, p1], by simp [valueLen, p1],
      by simp [validate, TypedAttr.code, p2], by simp [parseValue, TypedAttr.code, TypedAttr.norm, p3]⟩
  | as4Aggregator asn addr =>
    have h : asn < 4294967296 ∧ addr < 4294967296 := by simpa [WfAttrW, u32ok] using wf
    exact ⟨be32 asn ++ be32 addr, rfl, rfl, by simp [validate, TypedAttr.code],
      by simp [parseValue, TypedAttr.code, TypedAttr.norm, rd32_be32 asn h.1, rd32_be32' addr h.2]⟩
  | connector n =>
    have hn : n < 4294967296 := by simpa [WfAttrW, u32ok] using wf
    exact ⟨be32 n, rfl, rfl, by simp [validate, TypedAttr.code],
      by simp [parseValue, TypedAttr.code, TypedAttr.norm, rd32_be32' n hn]⟩
  | asPathLimit ub asn =>
    have h : ub < 256 ∧ asn < 4294967296 := by simpa [WfAttrW, u32ok] using wf
    have : (UInt8.ofNat ub).toNat = ub := by simp [UInt8.toNat_ofNat']; omega
    exact ⟨UInt8.ofNat ub :: be32 asn, rfl, rfl, by simp [validate, TypedAttr.code],
      by simp [parseValue, TypedAttr.code, TypedAttr.norm, rd8, this, rd32_be32' asn h.2]⟩
  | ipv6ExtCommunities cs =>
    have hr : recsOk 20 cs = true := by simpa [WfAttrW] using wf
    have hl := flatten_length_recs 20 cs hr
    exact ⟨cs.flatten, rfl, by simp [valueLen, hl], by simp [validate, TypedAttr.code, hl],
      by simp [parseValue, TypedAttr.code, TypedAttr.norm, -List.length_flatten,
        chunkO_flatten 20 (by omega) cs _ hr (Nat.le_refl _)]⟩
  | largeCommunities cs =>
    have hr : recsOk 12 cs = true := by simpa [WfAttrW] using wf
    have hl := flatten_length_recs 12 cs hr
    exact ⟨cs.flatten, rfl, by simp [valueLen, hl], by simp [validate, TypedAttr.code, hl],
      by simp [parseValue, TypedAttr.code, TypedAttr.norm, -List.length_flatten,
        chunkO_flatten 12 (by omega) cs _ hr (Nat.le_refl _)]⟩
  | otc n =>
    have hn : n < 4294967296 := by simpa [WfAttrW, u32ok] using wf
    exact ⟨be32 n, rfl, rfl, by simp [validate, TypedAttr.code],
      by simp [parseValue, TypedAttr.code, TypedAttr.norm, rd32_be32' n hn]⟩
  | attrSet o attrs =>
    have hn : o < 4294967296 := by simpa [WfAttrW, u32ok] using wf
    exact ⟨be32 o ++ attrs, rfl, by simp [valueLen], by simp [validate, TypedAttr.code],
      by simp [parseValue, TypedAttr.code, TypedAttr.norm, rd32_be32 o hn]⟩
  | reserved raw =>
    exact ⟨raw, rfl, rfl, by simp [validate, TypedAttr.code], by simp [parseValue, TypedAttr.code, TypedAttr.norm]⟩

end Rc.Attr
