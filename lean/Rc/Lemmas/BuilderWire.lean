/-
Lemmas for the wire clauses of C06: the octets `finish` writes for a message of
a builder over one of the 26 NLRI types (Rc/Model/BuilderWire.lean) are the
output of C01's reference encoder on the content of the message, so that the
decoder theorems of C01 (Rc/Lemmas/UpdateRaw.lean) and the NLRI round trips of
C05 apply to them.  Nothing here is a property statement.
-/
import Rc.Lemmas.Builder
import Rc.Lemmas.UpdateRaw
import Rc.Lemmas.UpdateMp
import Rc.Model.BuilderWire

namespace Rc.Builder
open Rc Rc.Nlri

/-! ### NLRI lists: `flatMap` of the composer is the list encoder of C05 / C01 -/

private def encOr {α : Type} (c : Codec α) (x : α) : Bytes := okOr (c.enc x)

private theorem encAll_flatMap {α : Type} {c : Codec α} (hl : c.Laws) :
    ∀ (l : List α), (∀ x ∈ l, c.wf x = true) →
      encAll c l = .ok (l.flatMap (encOr c)) ∧ ∀ x ∈ l, (encOr c x).length = c.clen x := by
  intro l
  induction l with
  | nil => intro _; exact ⟨rfl, by simp⟩
  | cons a t ih =>
    intro hw
    obtain ⟨bs, hb, _⟩ := hl.enc_ok a (hw a (by simp))
    obtain ⟨iht, ihl⟩ := ih (fun x hx => hw x (by simp [hx]))
    have hlen := hl.len_eq a bs (hl.wf_inv a (hw a (by simp))) hb
    have ha : encOr c a = bs := by simp [encOr, okOr, hb]
    refine ⟨by simp [encAll, hb, iht, List.flatMap_cons, ha], ?_⟩
    intro x hx
    simp only [List.mem_cons] at hx
    rcases hx with rfl | hx
    · rw [ha, hlen]
    · exact ihl x hx

/-- under C05's well-formedness the octets `compose` writes for the NLRI of a
list, one after the other, are the encoded list, and each NLRI takes the
`compose_len()` octets the splitter counts -/
theorem nlris_flatMap (f : Fam) (ap : Bool) (l : List (NV f)) (hw : Upd.NlrisWf f ap l) :
    Upd.encNlris f ap l = .ok (l.flatMap (nlriEnc f ap)) ∧
      ∀ x ∈ l, (nlriEnc f ap x).length = nlriSz f ap x := by
  cases ap with
  | true =>
    simp only [Upd.NlrisWf, ↓reduceIte] at hw
    obtain ⟨h1, h2⟩ := encAll_flatMap (Nlri.codecAp_laws f) l hw
    refine ⟨?_, ?_⟩
    · simp only [Upd.encNlris, ↓reduceIte, h1]
      rfl
    · intro x hx
      have := h2 x hx
      simpa [nlriEnc, nlriSz, encOr] using this
  | false =>
    simp only [Upd.NlrisWf, Bool.false_eq_true, ↓reduceIte] at hw
    obtain ⟨h1, h2⟩ := encAll_flatMap (Nlri.codec_laws f) (l.map (·.2))
      (by intro n hn; simp only [List.mem_map] at hn; obtain ⟨x, hx, rfl⟩ := hn; exact hw x hx)
    refine ⟨?_, ?_⟩
    · simp only [Upd.encNlris, Bool.false_eq_true, ↓reduceIte, h1, List.flatMap_map]
      rfl
    · intro x hx
      have := h2 x.2 (by simp only [List.mem_map]; exact ⟨x, hx, rfl⟩)
      simpa [nlriEnc, nlriSz, encOr] using this

theorem sumSz_flatMap (f : Fam) (ap : Bool) (l : List (NV f))
    (h : ∀ x ∈ l, (nlriEnc f ap x).length = nlriSz f ap x) :
    (l.flatMap (nlriEnc f ap)).length = sumSz (nlriSz f ap) l := by
  induction l with
  | nil => rfl
  | cons a t ih =>
    simp only [List.flatMap_cons, List.length_append, sumSz_cons]
    rw [h a (by simp), ih (fun x hx => h x (by simp [hx]))]

/-! ### the MP attributes as TLVs -/

theorem reachValue_eq (f : Fam) (ap : Bool) (nhb : NextHop → Bytes) (l : List (NV f)) (nh : NextHop) :
    reachValue (wireOf f ap nhb) l nh = Upd.reachValue f (nhb nh) (l.flatMap (nlriEnc f ap)) := by
  simp [reachValue, Upd.reachValue, wireOf, afiSafiBytes, List.append_assoc]

theorem unreachValue_eq (f : Fam) (ap : Bool) (nhb : NextHop → Bytes) (l : List (NV f)) :
    unreachValue (wireOf f ap nhb) l = Upd.unreachValue f (l.flatMap (nlriEnc f ap)) := by
  simp [unreachValue, Upd.unreachValue, wireOf, afiSafiBytes, List.append_assoc]

theorem extBit_mpFlags (n : Nat) : Attr.extBit (mpFlags n) = decide (n > 255) := by
  unfold mpFlags
  split
  · rename_i h; simp only [h, decide_true]; decide
  · rename_i h; simp only [h, decide_false]; decide

/-- `Attribute::compose` of an MP attribute is the TLV encoding of its value -/
theorem attrHeader_encRaw (tc : UInt8) (v : Bytes) :
    attrHeader tc v.length ++ v = Upd.encRaw { fl := mpFlags v.length, tc := tc, v := v } := by
  unfold attrHeader Upd.encRaw
  simp only [extBit_mpFlags]
  by_cases h : v.length > 255
  · simp [h, mpFlags]
  · simp [h, mpFlags]

theorem mp_wf (tc : UInt8) (v : Bytes) (h : v.length < 65536) :
    ({ fl := mpFlags v.length, tc := tc, v := v } : Upd.RawAttr).wf = true := by
  unfold Upd.RawAttr.wf
  simp only [extBit_mpFlags]
  by_cases h' : v.length > 255
  · simp [h', h]
  · simp [h']; omega

theorem encRaw_mp_length (tc : UInt8) (v : Bytes) :
    (Upd.encRaw { fl := mpFlags v.length, tc := tc, v := v }).length = composedAttr v.length := by
  rw [← attrHeader_encRaw]
  unfold attrHeader composedAttr
  split <;> simp <;> omega

/-! ### the message -/

/-- What is asked of the concrete parts of a message `m` of a builder for NLRI
type (`f`, `ap`): its NLRI are values `compose` accepts (C05's `wf`: exactly what
a parser returns), the next-hop octets have the length `compose_len` counts, the
attribute map composes to well-formed TLVs none of which is MP_REACH_NLRI /
MP_UNREACH_NLRI (`from_attributes_builder` drops those), of the total length the
model's attribute list says. -/
structure MsgWf (f : Fam) (ap : Bool) (nhb : NextHop → Bytes) (others : List Upd.RawAttr)
    (m : Msg (NV f)) : Prop where
  wd : Upd.NlrisWf f ap m.wdList
  ann : Upd.NlrisWf f ap m.annList
  nh : ∀ nh, (nhb nh).length + 1 = nh.composeLen
  others_wf : ∀ a ∈ others, a.wf = true
  others_mp : ∀ a ∈ others, a.tc.toNat ≠ 14 ∧ a.tc.toNat ≠ 15
  attrs : attrsLen m.attrs = (Upd.encRaws others).length

variable {f : Fam} {ap : Bool} {nhb : NextHop → Bytes} {others : List Upd.RawAttr} {m : Msg (NV f)}

theorem MsgWf.reachLen (h : MsgWf f ap nhb others m) {l : List (NV f)} {nh : NextHop} (hm : m.ann = some (l, nh)) :
    (reachValue (wireOf f ap nhb) l nh).length = reachValueLen (nlriSz f ap) l nh ∧
    (l.flatMap (nlriEnc f ap)).length = sumSz (nlriSz f ap) l ∧
    Upd.encNlris f ap l = .ok (l.flatMap (nlriEnc f ap)) := by
  have hl : m.annList = l := by simp [Msg.annList, hm]
  have ha := h.ann
  rw [hl] at ha
  obtain ⟨h1, h2⟩ := nlris_flatMap f ap l ha
  have h3 := sumSz_flatMap f ap l h2
  have h4 := h.nh nh
  refine ⟨?_, h3, h1⟩
  rw [reachValue_eq]
  simp only [Upd.reachValue, List.length_append, be16_length, List.length_cons, h3, reachValueLen]
  omega

theorem MsgWf.unreachLen (h : MsgWf f ap nhb others m) {l : List (NV f)} (hm : m.wd = some l) :
    (unreachValue (wireOf f ap nhb) l).length = unreachValueLen (nlriSz f ap) l ∧
    (l.flatMap (nlriEnc f ap)).length = sumSz (nlriSz f ap) l ∧
    Upd.encNlris f ap l = .ok (l.flatMap (nlriEnc f ap)) := by
  have hl : m.wdList = l := by simp [Msg.wdList, hm]
  have ha := h.wd
  rw [hl] at ha
  obtain ⟨h1, h2⟩ := nlris_flatMap f ap l ha
  have h3 := sumSz_flatMap f ap l h2
  refine ⟨?_, h3, h1⟩
  rw [unreachValue_eq]
  simp only [Upd.unreachValue, List.length_append, be16_length, List.length_cons, h3, unreachValueLen]
  omega

theorem reachAttr_enc (l : List (NV f)) (nh : NextHop) :
    Upd.encRaw (reachAttr f ap nhb l nh) =
      attrHeader 14 (reachValue (wireOf f ap nhb) l nh).length ++ reachValue (wireOf f ap nhb) l nh :=
  (attrHeader_encRaw 14 _).symm

theorem unreachAttr_enc (l : List (NV f)) :
    Upd.encRaw (unreachAttr f ap nhb l) =
      attrHeader 15 (unreachValue (wireOf f ap nhb) l).length ++ unreachValue (wireOf f ap nhb) l :=
  (attrHeader_encRaw 15 _).symm

theorem reachAttr_length (l : List (NV f)) (nh : NextHop) :
    (Upd.encRaw (reachAttr f ap nhb l nh)).length = composedAttr (reachValue (wireOf f ap nhb) l nh).length :=
  encRaw_mp_length 14 _

theorem unreachAttr_length (l : List (NV f)) :
    (Upd.encRaw (unreachAttr f ap nhb l)).length = composedAttr (unreachValue (wireOf f ap nhb) l).length :=
  encRaw_mp_length 15 _

/-- the attribute section `finish` writes is the TLV encoding of `rawAttrs` -/
theorem attrSection_eq (h : MsgWf f ap nhb others m) :
    attrSection (nlriSz f ap) (wireOf f ap nhb) (Upd.encRaws others) m =
      Upd.encRaws (rawAttrs f ap nhb others m) := by
  unfold attrSection rawAttrs
  rcases hm : m.ann with _ | ⟨l, nh⟩ <;> rcases hw : m.wd with _ | w
  · simp [Upd.encRaws]
  · have := (h.unreachLen hw).1
    simp only [List.nil_append, List.cons_append, Upd.encRaws_cons, unreachAttr_enc, this]
  · have := (h.reachLen hm).1
    simp only [List.nil_append, List.append_nil, List.cons_append, Upd.encRaws_cons, reachAttr_enc, this]
  · have h1 := (h.reachLen hm).1
    have h2 := (h.unreachLen hw).1
    simp only [List.nil_append, List.cons_append, Upd.encRaws_cons, reachAttr_enc, unreachAttr_enc,
      h1, h2, List.append_assoc]

/-- ... and has the length the model's `actualAttrLen` counts -/
theorem rawAttrs_length (h : MsgWf f ap nhb others m) :
    (Upd.encRaws (rawAttrs f ap nhb others m)).length = m.actualAttrLen (nlriSz f ap) := by
  unfold rawAttrs Msg.actualAttrLen
  have ho := h.attrs
  have key : ∀ c d : Nat, 2 + 1 + 1 + c + d = 3 + c + 1 + d := by intros; omega
  rcases hm : m.ann with _ | ⟨l, nh⟩ <;> rcases hw : m.wd with _ | w
  · simp [ho]
  · have := (h.unreachLen hw).1
    simp only [List.nil_append, List.cons_append, Upd.encRaws_cons, List.length_append, unreachAttr_length,
      this, unreachValueLen, ho]
    omega
  · have := (h.reachLen hm).1
    simp only [List.nil_append, List.append_nil, List.cons_append, Upd.encRaws_cons, List.length_append,
      reachAttr_length, this, reachValueLen, ho, key]
    omega
  · have h1 := (h.reachLen hm).1
    have h2 := (h.unreachLen hw).1
    simp only [List.nil_append, List.cons_append, Upd.encRaws_cons, List.length_append,
      reachAttr_length, unreachAttr_length, h1, h2, reachValueLen, unreachValueLen, ho, key]
    omega

/-- the two length fields are the lengths of what follows them -/
def FieldsOk (sz : NV f → Nat) (m : Msg (NV f)) : Prop :=
  m.lenField ≤ MAX_PDU ∧ m.lenField = m.actualLen sz ∧ m.attrLenField = m.actualAttrLen sz

/-- **wireImage is the reference encoder.**  The octets of a message are RFC
4271's framing (C01's `frame`) of an empty withdrawn-routes section, the TLV
encoding of `rawAttrs`, and no conventional NLRI. -/
theorem wireBytes_eq_frame (h : MsgWf f ap nhb others m) (hf : FieldsOk (nlriSz f ap) m) :
    wireBytes f ap nhb others m = Upd.frame [] (Upd.encRaws (rawAttrs f ap nhb others m)) [] := by
  obtain ⟨_, h1, h2⟩ := hf
  have hl := rawAttrs_length h
  unfold wireBytes wireImage Upd.frame Upd.marker
  rw [attrSection_eq h, h1, h2]
  unfold Msg.actualLen
  rw [← hl]
  simp only [List.length_nil, List.append_nil, List.nil_append, List.append_assoc, List.cons_append]
  have e : 16 + 2 + 1 + 2 + 2 + (Upd.encRaws (rawAttrs f ap nhb others m)).length =
      19 + 2 + 0 + 2 + (Upd.encRaws (rawAttrs f ap nhb others m)).length + 0 := by omega
  rw [e]

/-! ### what the decoder model reads back -/

theorem firstWith_others (code : Nat) (l : List Upd.RawAttr) (h : ∀ a ∈ l, a.tc.toNat ≠ code) :
    Upd.firstWith code l = none := by
  induction l with
  | nil => rfl
  | cons a t ih =>
    simp only [Upd.firstWith, h a (by simp), ↓reduceIte]
    exact ih (fun x hx => h x (by simp [hx]))

theorem rawAttrs_wf (h : MsgWf f ap nhb others m) (hf : FieldsOk (nlriSz f ap) m) :
    ∀ a ∈ rawAttrs f ap nhb others m, a.wf = true := by
  obtain ⟨hle, h1, _⟩ := hf
  have hl := rawAttrs_length h
  unfold Msg.actualLen MAX_PDU at *
  intro a ha
  unfold rawAttrs at ha hl
  have key : ∀ (tc : UInt8) (v : Bytes) (rest : List Upd.RawAttr) (pre : List Upd.RawAttr),
      (Upd.encRaws (pre ++ ({ fl := mpFlags v.length, tc := tc, v := v } : Upd.RawAttr) :: rest)).length ≤ 4096 →
      ({ fl := mpFlags v.length, tc := tc, v := v } : Upd.RawAttr).wf = true := by
    intro tc v rest pre hlen
    apply mp_wf
    have : (Upd.encRaws (pre ++ ({ fl := mpFlags v.length, tc := tc, v := v } : Upd.RawAttr) :: rest)).length =
        (Upd.encRaws pre).length + (composedAttr v.length + (Upd.encRaws rest).length) := by
      simp [Upd.encRaws, encRaw_mp_length]
    unfold composedAttr at this
    omega
  rcases hm : m.ann with _ | ⟨l, nh⟩ <;> rcases hw : m.wd with _ | w <;>
    simp only [hm, hw, List.nil_append, List.cons_append, List.mem_cons, List.append_nil] at ha hl
  · exact h.others_wf a ha
  · rcases ha with rfl | ha
    · exact key 15 _ others [] (by simp only [List.nil_append]; unfold unreachAttr at hl; omega)
    · exact h.others_wf a ha
  · rcases ha with rfl | ha
    · exact key 14 _ others [] (by simp only [List.nil_append]; unfold reachAttr at hl; omega)
    · exact h.others_wf a ha
  · rcases ha with rfl | rfl | ha
    · exact key 14 _ (unreachAttr f ap nhb w :: others) [] (by simp only [List.nil_append]; unfold reachAttr at hl; omega)
    · exact key 15 _ others [reachAttr f ap nhb l nh] (by simp only [List.cons_append, List.nil_append]; unfold unreachAttr at hl; omega)
    · exact h.others_wf a ha

theorem rawAttrs_mpOk (h : MsgWf f ap nhb others m) : Upd.MpOk (rawAttrs f ap nhb others m) := by
  intro a ha
  unfold rawAttrs at ha
  have hr : ∀ l nh, (14 = 14 → 5 ≤ (reachAttr f ap nhb l nh).v.length ∧
      (Upd.afiSafi (reachAttr f ap nhb l nh).v).isSome = true) := by
    intro l nh _
    simp only [reachAttr, reachValue_eq, Upd.afiSafi_reach, Option.isSome_some, and_true]
    simp [Upd.reachValue]; omega
  have hu : ∀ l, (Upd.afiSafi (unreachAttr f ap nhb l).v).isSome = true := by
    intro l
    simp only [unreachAttr, unreachValue_eq, Upd.afiSafi_unreach, Option.isSome_some]
  have ho : ∀ a ∈ others, (a.tc.toNat = 14 → 5 ≤ a.v.length ∧ (Upd.afiSafi a.v).isSome = true) ∧
      (a.tc.toNat = 15 → (Upd.afiSafi a.v).isSome = true) := by
    intro a ha
    obtain ⟨h1, h2⟩ := h.others_mp a ha
    exact ⟨fun x => absurd x h1, fun x => absurd x h2⟩
  have e14 : ∀ l nh, (reachAttr f ap nhb l nh).tc.toNat = 14 := fun _ _ => rfl
  have e15 : ∀ l, (unreachAttr f ap nhb l).tc.toNat = 15 := fun _ => rfl
  rcases hm : m.ann with _ | ⟨l, nh⟩ <;> rcases hw : m.wd with _ | w <;>
    simp only [hm, hw, List.nil_append, List.cons_append, List.mem_cons, List.append_nil] at ha
  · exact ho a ha
  · rcases ha with rfl | ha
    · exact ⟨fun x => by rw [e15] at x; omega, fun _ => hu w⟩
    · exact ho a ha
  · rcases ha with rfl | ha
    · exact ⟨fun _ => hr l nh rfl, fun x => by rw [e14] at x; omega⟩
    · exact ho a ha
  · rcases ha with rfl | rfl | ha
    · exact ⟨fun _ => hr l nh rfl, fun x => by rw [e14] at x; omega⟩
    · exact ⟨fun x => by rw [e15] at x; omega, fun _ => hu w⟩
    · exact ho a ha

theorem contentOf_wf (cfg : Upd.Cfg) (h : MsgWf f ap nhb others m) (hf : FieldsOk (nlriSz f ap) m) :
    Upd.WfUpdate cfg (contentOf f ap nhb others m) := by
  refine ⟨?_, ?_, rawAttrs_wf h hf, rawAttrs_mpOk h⟩ <;>
    (unfold Upd.NlrisWf contentOf; split <;> simp)

/-- the reference encoder of C01 on the content of a message produces exactly
the octets of the message -/
theorem encUpdate_contentOf (cfg : Upd.Cfg) (h : MsgWf f ap nhb others m) (hf : FieldsOk (nlriSz f ap) m) :
    Upd.encUpdate cfg (contentOf f ap nhb others m) = .ok (wireBytes f ap nhb others m) := by
  rw [wireBytes_eq_frame h hf]
  simp only [Upd.encUpdate, contentOf, Upd.encNlris]
  cases cfg.rx (1, 1) <;> simp [encAll]

/-- first MP_REACH_NLRI / MP_UNREACH_NLRI of the sequence, and the AFI/SAFI the
second attribute loop of the parser records -/
theorem rawAttrs_mp (h : MsgWf f ap nhb others m) :
    (Upd.firstWith 14 (rawAttrs f ap nhb others m) =
      match m.ann with | some (l, nh) => some (reachAttr f ap nhb l nh) | none => none) ∧
    (Upd.firstWith 15 (rawAttrs f ap nhb others m) =
      match m.wd with | some l => some (unreachAttr f ap nhb l) | none => none) ∧
    (Upd.lastMp 14 (rawAttrs f ap nhb others m) none =
      match m.ann with | some _ => some (Upd.famCode f) | none => none) ∧
    (Upd.lastMp 15 (rawAttrs f ap nhb others m) none =
      match m.wd with | some _ => some (Upd.famCode f) | none => none) := by
  have o14 := firstWith_others 14 others (fun a ha => (h.others_mp a ha).1)
  have o15 := firstWith_others 15 others (fun a ha => (h.others_mp a ha).2)
  have l14 := fun acc => Upd.lastMp_none 14 others acc (fun a ha => (h.others_mp a ha).1)
  have l15 := fun acc => Upd.lastMp_none 15 others acc (fun a ha => (h.others_mp a ha).2)
  have e14 : ∀ l nh, (reachAttr f ap nhb l nh).tc.toNat = 14 := fun _ _ => rfl
  have e15 : ∀ l, (unreachAttr f ap nhb l).tc.toNat = 15 := fun _ => rfl
  have ar : ∀ l nh, (Upd.afiSafi (reachAttr f ap nhb l nh).v).map (·.1) = some (Upd.famCode f) := by
    intro l nh; simp only [reachAttr, reachValue_eq, Upd.afiSafi_reach, Option.map_some]
  have au : ∀ l, (Upd.afiSafi (unreachAttr f ap nhb l).v).map (·.1) = some (Upd.famCode f) := by
    intro l; simp only [unreachAttr, unreachValue_eq, Upd.afiSafi_unreach, Option.map_some]
  unfold rawAttrs
  rcases hm : m.ann with _ | ⟨l, nh⟩ <;> rcases hw : m.wd with _ | w <;>
    simp [Upd.firstWith, Upd.lastMp, o14, o15, l14, l15, e14, e15, ar, au]

theorem composeLen_le (nh : NextHop) : nh.composeLen ≤ 33 := by cases nh <;> simp [NextHop.composeLen]

theorem reportNlris_nil (f : Fam) (ap : Bool) : Upd.reportNlris f ap [] = [] := by
  cases ap <;> rfl

theorem anyNlris_nil (f : Fam) (ap : Bool) : Upd.anyNlris f ap [] = [] := by
  cases ap <;> rfl

/-- the facts about a parsed message `u` that the MP accessors depend on -/
structure Parsed (cfg : Upd.Cfg) (f : Fam) (ap : Bool) (nhb : NextHop → Bytes) (others : List Upd.RawAttr)
    (m : Msg (NV f)) (u : Upd.Msg) : Prop where
  attrs : u.attrs = Upd.encRaws (rawAttrs f ap nhb others m)
  ppi : u.ppi = Upd.Ppi.ofCfg cfg (Upd.lastMp 14 (rawAttrs f ap nhb others m) none)
    (Upd.lastMp 15 (rawAttrs f ap nhb others m) none)
  convWd : u.convWd = ([], true)
  convAnn : u.convAnn = ([], true)

variable {cfg : Upd.Cfg} {u : Upd.Msg}

theorem mpAttr_absent (l : List Upd.RawAttr) (hu : u.attrs = Upd.encRaws l) (hwf : ∀ a ∈ l, a.wf = true)
    (code : Nat) (hn : Upd.firstWith code l = none) : u.mpAttr code = .ok none := by
  simp only [Upd.Msg.mpAttr, hu, Upd.findUnchecked_enc code l hwf _ (Upd.encRaws_length_ge l), hn, Option.map_none]

/-- `announcements()`, `announcements_vec()` and `mp_next_hop()` of the parsed message -/
theorem Parsed.ann (hp : Parsed cfg f ap nhb others m u) (hcfg : cfg.rx (Upd.famCode f) = ap)
    (h : MsgWf f ap nhb others m) (hf : FieldsOk (nlriSz f ap) m) :
    u.announcements = .ok (Upd.reportNlris f ap m.annList, true) ∧
    u.annVec = .ok (Upd.anyNlris f ap m.annList) ∧
    (match m.ann with
     | some (_, nh) => ∀ x, Upd.nhSpec f (nhb nh) = some x → u.mpNextHop = .ok (some x)
     | none => u.mpNextHop = .ok none) := by
  have hwf := rawAttrs_wf h hf
  obtain ⟨hfirst, _, hlast, _⟩ := rawAttrs_mp h
  rcases hm : m.ann with _ | ⟨l, nh⟩
  · rw [hm] at hfirst
    have ha := mpAttr_absent _ hp.attrs hwf 14 hfirst
    have hl : m.annList = [] := by simp [Msg.annList, hm]
    simp [Upd.Msg.announcements, Upd.Msg.annVec, Upd.Msg.mpAnn, Upd.Msg.mpNextHop, Upd.Msg.mpNextHopTuple, ha,
      Upd.itemsOfOpt, hp.convAnn, hl, reportNlris_nil, anyNlris_nil, Upd.collectResult, Upd.mapO]
  · rw [hm] at hfirst hlast
    have hl : m.annList = l := by simp [Msg.annList, hm]
    have hR : u.ppi.mpReach = ap := by rw [hp.ppi, hlast]; simpa [Upd.Ppi.ofCfg] using hcfg
    have hnh : (nhb nh).length < 256 := by have := h.nh nh; have := composeLen_le nh; omega
    obtain ⟨_, _, henc⟩ := h.reachLen hm
    have hw : Upd.NlrisWf f u.ppi.mpReach l := by rw [hR, ← hl]; exact h.ann
    obtain ⟨b, hb, hres⟩ := Upd.Raw.mp_reach_reported u _ hp.attrs hwf _ hfirst f (nhb nh) hnh l hw
    rw [hR, henc] at hb
    injection hb with hb
    subst hb
    obtain ⟨h1, h2, _⟩ := hres (by simp only [reachAttr, reachValue_eq])
    rw [hR] at h1 h2
    have hx := Upd.afiSafi_reach f (nhb nh) (l.flatMap (nlriEnc f ap))
    have hattr := Upd.Raw.mpAttr_enc u _ hp.attrs hwf 14 _ hfirst _
      (by simpa only [reachAttr, reachValue_eq] using hx)
    refine ⟨?_, ?_, ?_⟩
    · simp [Upd.Msg.announcements, h1, Upd.itemsOfOpt, h2, hp.convAnn, hl]
    · simp only [Upd.Msg.annVec, h1, Upd.itemsOfOpt, h2, hp.convAnn, hl, List.nil_append]
      rw [Upd.reportNlris_eq]
      exact (Upd.collectResult_ok _ _).mpr rfl
    · intro x hs
      have hpn := Upd.Raw.next_hop_reported f (nhb nh) (0 :: l.flatMap (nlriEnc f ap)) x hnh hs
      simp [Upd.Msg.mpNextHop, Upd.Msg.mpNextHopTuple, hattr, Upd.famOf_famCode, hpn, Upd.mapO]

/-- `withdrawals()` and `withdrawals_vec()` of the parsed message -/
theorem Parsed.wd (hp : Parsed cfg f ap nhb others m u) (hcfg : cfg.rx (Upd.famCode f) = ap)
    (h : MsgWf f ap nhb others m) (hf : FieldsOk (nlriSz f ap) m) :
    u.withdrawals = .ok (Upd.reportNlris f ap m.wdList, true) ∧
    u.wdVec = .ok (Upd.anyNlris f ap m.wdList) := by
  have hwf := rawAttrs_wf h hf
  obtain ⟨_, hfirst, _, hlast⟩ := rawAttrs_mp h
  rcases hm : m.wd with _ | l
  · rw [hm] at hfirst
    have ha := mpAttr_absent _ hp.attrs hwf 15 hfirst
    have hl : m.wdList = [] := by simp [Msg.wdList, hm]
    simp [Upd.Msg.withdrawals, Upd.Msg.wdVec, Upd.Msg.mpWd, ha,
      Upd.itemsOfOpt, hp.convWd, hl, reportNlris_nil, anyNlris_nil, Upd.collectResult]
  · rw [hm] at hfirst hlast
    have hl : m.wdList = l := by simp [Msg.wdList, hm]
    have hR : u.ppi.mpUnreach = ap := by rw [hp.ppi, hlast]; simpa [Upd.Ppi.ofCfg] using hcfg
    obtain ⟨_, _, henc⟩ := h.unreachLen hm
    have hw : Upd.NlrisWf f u.ppi.mpUnreach l := by rw [hR, ← hl]; exact h.wd
    obtain ⟨b, hb, hres⟩ := Upd.Raw.mp_unreach_reported u _ hp.attrs hwf _ hfirst f l hw
    rw [hR, henc] at hb
    injection hb with hb
    subst hb
    obtain ⟨h1, h2, _⟩ := hres (by simp only [unreachAttr, unreachValue_eq])
    rw [hR] at h1 h2
    refine ⟨?_, ?_⟩
    · simp [Upd.Msg.withdrawals, h1, Upd.itemsOfOpt, h2, hp.convWd, hl]
    · simp only [Upd.Msg.wdVec, h1, Upd.itemsOfOpt, h2, hp.convWd, hl, List.nil_append]
      rw [Upd.reportNlris_eq]
      exact (Upd.collectResult_ok _ _).mpr rfl

theorem wireBytes_length (h : MsgWf f ap nhb others m) (hf : FieldsOk (nlriSz f ap) m) :
    (wireBytes f ap nhb others m).length = m.lenField := by
  rw [wireBytes_eq_frame h hf, Upd.Raw.frame_length, rawAttrs_length h, hf.2.1]
  unfold Msg.actualLen
  simp

/-- **the decoder model accepts the octets of a message** and finds the three
sections and the attribute sequence that were written -/
theorem msg_parsed (cfg : Upd.Cfg) (h : MsgWf f ap nhb others m) (hf : FieldsOk (nlriSz f ap) m) :
    ∃ u, Upd.parseUpdate cfg (wireBytes f ap nhb others m) = .ok u ∧ Parsed cfg f ap nhb others m u ∧
      u.length = m.lenField ∧ u.wd = [] ∧ u.ann = [] ∧ u.wdLen = 0 ∧ u.attrLen = m.attrLenField ∧
      u.pathAttributes = ((rawAttrs f ap nhb others m).map (Upd.reportAttr cfg.four), true) := by
  obtain ⟨bs, hbs, hdec⟩ := Upd.Raw.decode_encode_partial cfg _ (contentOf_wf cfg h hf)
  rw [encUpdate_contentOf cfg h hf] at hbs
  injection hbs with hbs
  subst hbs
  have hlen := wireBytes_length h hf
  have hle : m.lenField ≤ 4096 := hf.1
  obtain ⟨u, hp, hl, ⟨w, a, hw, ha, hwd, hann, hwl⟩, hal, hcw, hca, hpa, hattrs, hppi⟩ := hdec (by omega) []
  have hw' : w = [] := by
    simp only [contentOf, Upd.encNlris] at hw
    cases hr : cfg.rx (1, 1) <;> simp [hr, encAll] at hw <;> first | exact hw | exact hw.symm
  have ha' : a = [] := by
    simp only [contentOf, Upd.encNlris] at ha
    cases hr : cfg.rx (1, 1) <;> simp [hr, encAll] at ha <;> first | exact ha | exact ha.symm
  subst hw' ha'
  rw [List.append_nil] at hp
  refine ⟨u, hp, ⟨hattrs, hppi, ?_, ?_⟩, by omega, hwd, hann, by simpa using hwl, ?_, hpa⟩
  · rw [hcw]; simp only [contentOf, Prod.mk.injEq, and_true]; exact reportNlris_nil _ _
  · rw [hca]; simp only [contentOf, Prod.mk.injEq, and_true]; exact reportNlris_nil _ _
  · rw [hal, hf.2.2]; exact rawAttrs_length h

/-! ### which attribute list a produced message holds -/

theorem takeMessage_attrs {N : Type} (sz : N → Nat) (b : B N) {m : Msg N} {rem : Option (B N)}
    (h : takeMessage sz b = (.ok m, rem)) : m.attrs = b.attrs ∨ m.attrs = [] := by
  unfold takeMessage at h
  split at h
  · injection h with h1 _
    exact .inl (intoMessage_ok sz h1).2.2.2.2.2.1
  · split at h
    · injection h with h1 _
      exact .inr (intoMessage_ok sz h1).2.2.2.2.2.1
    · split at h
      · injection h with h1 _
        exact .inl (intoMessage_ok sz h1).2.2.2.2.2.1
      · injection h with h1 _
        cases h1

theorem encRaws_length_sum (l : List Upd.RawAttr) :
    (Upd.encRaws l).length = attrsLen (l.map fun a => (Upd.encRaw a).length) := by
  induction l with
  | nil => rfl
  | cons a t ih => simp [Upd.encRaws_cons, attrsLen, ih] at *

end Rc.Builder
