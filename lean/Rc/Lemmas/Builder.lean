/-
Helper lemmas for C06 (splitter of UpdateBuilder).  Nothing here is a property
statement; the property theorems are in Rc/Thm/C06.lean.
-/
import Rc.Model.Builder

namespace Rc.Builder

variable {N : Type} (sz : N → Nat)

/-! ### sizes -/

@[simp] theorem sumSz_nil : sumSz sz ([] : List N) = 0 := rfl

@[simp] theorem sumSz_cons (x : N) (l : List N) : sumSz sz (x :: l) = sz x + sumSz sz l := by
  simp [sumSz]

theorem sumSz_append (a b : List N) : sumSz sz (a ++ b) = sumSz sz a + sumSz sz b := by
  simp [sumSz]

theorem sumSz_take_le (k : Nat) (l : List N) : sumSz sz (l.take k) ≤ sumSz sz l := by
  have h := sumSz_append sz (l.take k) (l.drop k)
  rw [List.take_append_drop] at h
  omega

theorem sumSz_mem_le {x : N} {l : List N} (h : x ∈ l) : sz x ≤ sumSz sz l := by
  induction l with
  | nil => cases h
  | cons y ys ih =>
    rw [sumSz_cons]
    cases h with
    | head => omega
    | tail _ h' => have := ih h'; omega

theorem sumSz_pos_of_ne_nil (hsz : ∀ n, 1 ≤ sz n) {l : List N} (h : l ≠ []) : 1 ≤ sumSz sz l := by
  cases l with
  | nil => exact absurd rfl h
  | cons x xs => rw [sumSz_cons]; have := hsz x; omega

theorem hdrLen_le (v : Nat) : hdrLen v ≤ 4 := by unfold hdrLen; split <;> omega

theorem hdrLen_ge (v : Nat) : 3 ≤ hdrLen v := by unfold hdrLen; split <;> omega

theorem hdrLen_mono {a b : Nat} (h : a ≤ b) : hdrLen a ≤ hdrLen b := by
  unfold hdrLen; split <;> split <;> omega

theorem unreachLen_mono {a b : List N} (h : sumSz sz a ≤ sumSz sz b) :
    unreachLen sz a ≤ unreachLen sz b := by
  unfold unreachLen unreachValueLen
  have := hdrLen_mono (a := 3 + sumSz sz a) (b := 3 + sumSz sz b) (by omega)
  omega

theorem reachLen_mono {a b : List N} (nh : NextHop) (h : sumSz sz a ≤ sumSz sz b) :
    reachLen sz a nh ≤ reachLen sz b nh := by
  unfold reachLen reachValueLen
  have := hdrLen_mono (a := 2 + 1 + 1 + nh.composeLen + sumSz sz a)
    (b := 2 + 1 + 1 + nh.composeLen + sumSz sz b) (by omega)
  omega

/-- what `compose` writes for an MP attribute is what `compose_len` announced -/
theorem composedAttr_eq (v : Nat) : composedAttr v = hdrLen v + v := by
  unfold composedAttr hdrLen; split <;> omega

/-! ### the split loop -/

theorem splitLoop_some {thr : Nat} {l : List N} {idx acc i : Nat} (hacc : acc ≤ thr)
    (h : splitLoop sz thr l idx acc = some i) :
    idx ≤ i ∧ i < idx + l.length ∧ acc + sumSz sz (l.take (i - idx)) ≤ thr := by
  induction l generalizing idx acc with
  | nil => simp [splitLoop] at h
  | cons x xs ih =>
    simp only [splitLoop] at h
    split at h
    · simp at h; subst h; simp; omega
    · rename_i hle
      have := ih (idx := idx + 1) (acc := acc + sz x) (by omega) h
      obtain ⟨h1, h2, h3⟩ := this
      refine ⟨by omega, by simp; omega, ?_⟩
      have : i - idx = (i - (idx + 1)) + 1 := by omega
      rw [this, List.take_succ_cons, sumSz_cons]
      omega

theorem splitLoop_none {thr : Nat} {l : List N} {idx acc : Nat} (hacc : acc ≤ thr)
    (h : splitLoop sz thr l idx acc = none) : acc + sumSz sz l ≤ thr := by
  induction l generalizing idx acc with
  | nil => simpa using hacc
  | cons x xs ih =>
    simp only [splitLoop] at h
    split at h
    · simp at h
    · have := ih (idx := idx + 1) (acc := acc + sz x) (by omega) h
      rw [sumSz_cons]; omega

/-- the split point of a non-empty list: at least one NLRI, at most all, and
the batch stays within the threshold unless it is a single forced NLRI -/
theorem splitPoint_spec (thr : Nat) {l : List N} (hl : l ≠ []) :
    1 ≤ splitPoint sz thr l ∧ splitPoint sz thr l ≤ l.length ∧
    (sumSz sz (l.take (splitPoint sz thr l)) ≤ thr ∨ splitPoint sz thr l = 1) := by
  have hlen : 1 ≤ l.length := by
    cases l with
    | nil => exact absurd rfl hl
    | cons _ _ => simp
  unfold splitPoint
  cases h : splitLoop sz thr l 0 0 with
  | none =>
    have := splitLoop_none sz (Nat.zero_le _) h
    simp only
    refine ⟨hlen, Nat.le_refl _, Or.inl ?_⟩
    rw [List.take_length]; omega
  | some i =>
    have := splitLoop_some sz (Nat.zero_le _) h
    obtain ⟨_, h2, h3⟩ := this
    simp only
    refine ⟨by omega, by omega, ?_⟩
    by_cases hi : i = 0
    · right; omega
    · left
      have : max i 1 = i := by omega
      rw [this]; simpa using h3

/-! ### lists held by builders and messages -/

theorem nlriCount_eq (b : B N) : nlriCount b = b.wdList.length + b.annList.length := by
  unfold nlriCount B.wdList B.annList
  cases b.wd <;> cases b.ann <;> simp

/-- next hop of a builder / message, if it has an MP_REACH_NLRI part -/
def nhOfAnn : Option (List N × NextHop) → Option NextHop
  | some (_, nh) => some nh
  | none => none

/-! ### into_message -/

theorem optReach_eq (a : Option (List N × NextHop)) :
    optReachLen sz a =
      (match a with
       | some (l, nh) => composedAttr (3 + nh.composeLen + 1 + sumSz sz l)
       | none => 0) := by
  cases a with
  | none => rfl
  | some p =>
    obtain ⟨l, nh⟩ := p
    simp only [optReachLen, reachLen, reachValueLen, composedAttr_eq]
    have : 2 + 1 + 1 + nh.composeLen + sumSz sz l = 3 + nh.composeLen + 1 + sumSz sz l := by omega
    rw [this]

theorem optUnreach_eq (w : Option (List N)) :
    optUnreachLen sz w =
      (match w with
       | some l => composedAttr (3 + sumSz sz l)
       | none => 0) := by
  cases w with
  | none => rfl
  | some l => simp only [optUnreachLen, unreachLen, unreachValueLen, composedAttr_eq]

/-- the attribute bytes written are what the length calculation announced -/
theorem actualAttrLen_eq (m : Msg N) :
    m.actualAttrLen sz = attrsLen m.attrs + optReachLen sz m.ann + optUnreachLen sz m.wd := by
  unfold Msg.actualAttrLen
  have key : ∀ c d : Nat, 2 + 1 + 1 + c + d = 3 + c + 1 + d := by intros; omega
  rcases hm : m.ann with _ | ⟨l, nh⟩ <;> rcases hw : m.wd with _ | w <;>
    simp only [optReachLen, optUnreachLen, reachLen, reachValueLen, unreachLen, unreachValueLen,
      composedAttr_eq, key] <;> omega

/-- everything `into_message` guarantees about a message it returns -/
theorem intoMessage_ok {b : B N} {m : Msg N} (h : intoMessage sz b = .ok m) :
    isValid b = none ∧ calcPduLen sz b ≤ MAX_PDU ∧
    m.lenField = calcPduLen sz b ∧ m.wd = b.wd ∧ m.ann = b.ann ∧ m.attrs = b.attrs ∧
    m.attrLenField = attrsLen b.attrs + optReachLen sz b.ann + optUnreachLen sz b.wd := by
  unfold intoMessage at h
  split at h
  · cases h
  · rename_i hv
    split at h
    · cases h
    · rename_i hle
      unfold finish at h
      simp only at h
      split at h
      · cases h
      · split at h
        · cases h
        · injection h with h
          subst h
          exact ⟨hv, by omega, rfl, rfl, rfl, rfl, rfl⟩

theorem intoMessage_ne_panic (b : B N) : ∀ (_ : intoMessage sz b = .panic), False := by
  intro h
  unfold intoMessage at h
  split at h
  · cases h
  · split at h
    · cases h
    · rename_i hle
      unfold finish at h
      simp only at h
      have h1 : calcPduLen sz b ≤ 4096 := by simpa [MAX_PDU] using hle
      split at h
      · omega
      · split at h
        · rename_i h2
          unfold calcPduLen at h1
          omega
        · cases h

theorem intoMessage_err_iff (b : B N) :
    (∃ e, intoMessage sz b = .err e) ↔ (isValid b ≠ none ∨ calcPduLen sz b > MAX_PDU) := by
  unfold intoMessage
  cases hv : isValid b with
  | some e => simp
  | none =>
    simp only [ne_eq, not_true_eq_false, false_or]
    by_cases hle : calcPduLen sz b > MAX_PDU
    · simp [hle]
    · simp only [hle, if_false, iff_false]
      intro ⟨e, he⟩
      unfold finish at he
      simp only at he
      split at he
      · cases he
      · split at he <;> cases he


/-! ### one step of the splitter -/

def remWd : Option (B N) → List N
  | some b => b.wdList
  | none => []

def remAnn : Option (B N) → List N
  | some b => b.annList
  | none => []

theorem intoRemainder_none {b : B N} (h : intoRemainder b = none) :
    b.wdList = [] ∧ b.annList = [] := by
  unfold intoRemainder at h
  split at h
  · cases h
  · rename_i hn
    simp only [Bool.or_eq_true, not_or, Bool.not_eq_true] at hn
    obtain ⟨h1, h2⟩ := hn
    constructor
    · unfold B.wdList; unfold wdNonEmpty at h1
      cases hw : b.wd with
      | none => rfl
      | some l => rw [hw] at h1; cases l <;> simp_all
    · unfold B.annList; unfold annNonEmpty at h2
      cases ha : b.ann with
      | none => rfl
      | some p => obtain ⟨l, nh⟩ := p; rw [ha] at h2; cases l <;> simp_all

theorem intoRemainder_some {b x : B N} (h : intoRemainder b = some x) :
    x = b ∧ 1 ≤ nlriCount b := by
  unfold intoRemainder at h
  split at h
  · rename_i hn
    injection h with h
    refine ⟨h.symm, ?_⟩
    rw [nlriCount_eq]
    simp only [Bool.or_eq_true] at hn
    cases hn with
    | inl h1 =>
      unfold wdNonEmpty at h1; unfold B.wdList
      cases hw : b.wd with
      | none => rw [hw] at h1; cases h1
      | some l => rw [hw] at h1; cases l <;> simp_all; omega
    | inr h2 =>
      unfold annNonEmpty at h2; unfold B.annList
      cases ha : b.ann with
      | none => rw [ha] at h2; cases h2
      | some p => obtain ⟨l, nh⟩ := p; rw [ha] at h2; cases l <;> simp_all; omega
  · cases h

/-- What one `take_message` step does with the builder's content: `bb` is the
builder whose `into_message` is returned, `rem` the remainder. -/
structure Batch (b bb : B N) (rem : Option (B N)) : Prop where
  wd : bb.wdList ++ remWd rem = b.wdList
  ann : bb.annList ++ remAnn rem = b.annList
  nonempty : 1 ≤ nlriCount b → 1 ≤ nlriCount bb
  rem : ∀ b', rem = some b' → b'.attrs = b.attrs ∧ nhOfAnn b'.ann = nhOfAnn b.ann ∧
    nlriCount b' < nlriCount b ∧ 1 ≤ nlriCount b'
  attrs : bb.annList ≠ [] → bb.attrs = b.attrs ∧ nhOfAnn bb.ann = nhOfAnn b.ann

theorem take_ne_nil {l : List N} {k : Nat} (hk : 1 ≤ k) (hl : l ≠ []) : l.take k ≠ [] := by
  cases l with
  | nil => exact absurd rfl hl
  | cons x xs =>
    cases k with
    | zero => omega
    | succ k => simp

theorem wdStep (b : B N) (w : N) (ws : List N) (k : Nat) (hw : b.wd = some (w :: ws))
    (hk1 : 1 ≤ k) (hk2 : k ≤ (w :: ws).length) :
    Batch b { wd := some ((w :: ws).take k), ann := none, attrs := [] }
      (intoRemainder
        { b with wd := if ((w :: ws).drop k).isEmpty then none else some ((w :: ws).drop k) }) := by
  have htake : ((w :: ws).take k) ≠ [] := take_ne_nil hk1 (by simp)
  have hcount : nlriCount b = (w :: ws).length + b.annList.length := by
    rw [nlriCount_eq]; simp [B.wdList, hw]
  have hbw : b.wdList = w :: ws := by simp [B.wdList, hw]
  generalize hb' : ({ b with wd := if ((w :: ws).drop k).isEmpty then none else some ((w :: ws).drop k) } : B N) = b'
  have h1 : b'.wdList = (w :: ws).drop k := by
    subst hb'
    simp only [B.wdList]
    split
    · rename_i he; simp at he; simp [he]
    · simp
  have h2 : b'.annList = b.annList := by subst hb'; rfl
  have h3 : b'.attrs = b.attrs := by subst hb'; rfl
  have h4 : b'.ann = b.ann := by subst hb'; rfl
  have hsplit : (w :: ws).take k ++ (w :: ws).drop k = w :: ws := List.take_append_drop _ _
  constructor
  · -- wd
    rw [hbw]
    cases hr : intoRemainder b' with
    | none =>
      have := (intoRemainder_none hr).1
      rw [h1] at this
      rw [this] at hsplit
      simpa [remWd, B.wdList] using hsplit
    | some x =>
      have := (intoRemainder_some hr).1
      subst this
      simp only [remWd]
      rw [h1]
      simp [B.wdList]
  · -- ann
    cases hr : intoRemainder b' with
    | none =>
      have := (intoRemainder_none hr).2
      rw [h2] at this
      simp [remAnn, B.annList]
      simpa [B.annList] using this.symm
    | some x =>
      have := (intoRemainder_some hr).1
      subst this
      simp only [remAnn]
      rw [h2]
      simp [B.annList]
  · intro _
    rw [nlriCount_eq]
    simp only [B.wdList, B.annList, Option.getD_some]
    cases hl : (w :: ws).take k with
    | nil => exact absurd hl htake
    | cons _ _ => simp
  · intro x hr
    have := intoRemainder_some hr
    obtain ⟨hx, hpos⟩ := this
    subst hx
    refine ⟨h3, by rw [h4], ?_, hpos⟩
    rw [nlriCount_eq, h1, h2, hcount]
    simp only [List.length_drop]
    omega
  · intro h
    simp [B.annList] at h

theorem annStep (b : B N) (a : N) (as : List N) (nh : NextHop) (k : Nat)
    (hwd : ∀ w ws, b.wd ≠ some (w :: ws)) (ha : b.ann = some (a :: as, nh))
    (hk1 : 1 ≤ k) (hk2 : k ≤ (a :: as).length) :
    Batch b { wd := none, ann := some ((a :: as).take k, nh), attrs := b.attrs }
      (intoRemainder { b with ann := some ((a :: as).drop k, nh) }) := by
  have htake : ((a :: as).take k) ≠ [] := take_ne_nil hk1 (by simp)
  have hwdl : b.wdList = [] := by
    unfold B.wdList
    cases hw : b.wd with
    | none => rfl
    | some l =>
      cases l with
      | nil => rfl
      | cons w ws => exact absurd hw (hwd w ws)
  have hbal : b.annList = a :: as := by simp [B.annList, ha]
  have hcount : nlriCount b = (a :: as).length := by
    rw [nlriCount_eq, hwdl, hbal]; simp
  generalize hb' : ({ b with ann := some ((a :: as).drop k, nh) } : B N) = b'
  have h1 : b'.wdList = [] := by subst hb'; exact hwdl
  have h2 : b'.annList = (a :: as).drop k := by subst hb'; rfl
  have h3 : b'.attrs = b.attrs := by subst hb'; rfl
  have h4 : nhOfAnn b'.ann = nhOfAnn b.ann := by subst hb'; simp [nhOfAnn, ha]
  have hsplit : (a :: as).take k ++ (a :: as).drop k = a :: as := List.take_append_drop _ _
  constructor
  · rw [hwdl]
    cases hr : intoRemainder b' with
    | none => simp [remWd, B.wdList]
    | some x =>
      have := (intoRemainder_some hr).1
      subst this
      simp only [remWd]
      rw [h1]
      simp [B.wdList]
  · rw [hbal]
    cases hr : intoRemainder b' with
    | none =>
      have := (intoRemainder_none hr).2
      rw [h2] at this
      rw [this] at hsplit
      simpa [remAnn, B.annList] using hsplit
    | some x =>
      have := (intoRemainder_some hr).1
      subst this
      simp only [remAnn]
      rw [h2]
      simp [B.annList]
  · intro _
    rw [nlriCount_eq]
    simp only [B.wdList, B.annList, Option.getD_none, List.length_nil, Nat.zero_add]
    cases hl : (a :: as).take k with
    | nil => exact absurd hl htake
    | cons _ _ => simp
  · intro x hr
    have := intoRemainder_some hr
    obtain ⟨hx, hpos⟩ := this
    subst hx
    refine ⟨h3, h4, ?_, hpos⟩
    rw [hcount, nlriCount_eq, h1, h2]
    simp only [List.length_drop, List.length_nil]
    omega
  · intro _
    exact ⟨rfl, by simp [nhOfAnn, ha]⟩

/-- `take_message` either returns `into_message` of a batch builder, or
`PduTooLarge` with no remainder. -/
theorem takeMessage_spec (b : B N) :
    (∃ bb rem, takeMessage sz b = (intoMessage sz bb, rem) ∧ Batch b bb rem) ∨
    takeMessage sz b = (.err .tooLarge, none) := by
  unfold takeMessage
  split
  · -- fits
    left
    refine ⟨b, none, rfl, ?_⟩
    exact ⟨by simp [remWd], by simp [remAnn], id, (by intro b' h; cases h), fun _ => ⟨rfl, rfl⟩⟩
  · split
    · -- withdrawals
      rename_i w ws hw
      left
      have hspec := splitPoint_spec sz 4000 (l := w :: ws) (by simp)
      exact ⟨_, _, rfl, wdStep b w ws _ hw hspec.1 hspec.2.1⟩
    · split
      · -- announcements
        rename_i _ hwd _ a as nh ha
        left
        have hspec := splitPoint_spec sz
          (MAX_PDU - ((16 + 2 + 1 + 2 + 2) + 8 + nh.composeLen + attrsLen b.attrs))
          (l := a :: as) (by simp)
        exact ⟨_, _, rfl, annStep b a as nh _ (fun w ws h => hwd w ws h) ha hspec.1 hspec.2.1⟩
      · right; rfl

end Rc.Builder
