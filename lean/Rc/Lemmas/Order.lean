/-
Comparisons `α → α → Ordering` (Rust: `Ord::cmp`) as strict weak orders, and the
combinators a `then_with` chain is built from.  Used by Thm/C10 and Thm/C11.
Core Lean only.
-/
namespace Rc.Order

variable {α β : Type}

/-- `cmp b a` is always the mirror image of `cmp a b`. -/
def Antisym (cmp : α → α → Ordering) : Prop := ∀ a b, cmp b a = (cmp a b).swap

/-- A comparison is a strict weak order: `lt` is irreflexive and transitive, and
`eq` ("equally preferred") is an equivalence (reflexive by `swap`, symmetric by
`swap`, transitive).  Compatibility of `eq` with `lt` follows (`lt_eq`, `eq_lt`). -/
structure WeakOrd (cmp : α → α → Ordering) : Prop where
  swap : ∀ a b, cmp b a = (cmp a b).swap
  lt_trans : ∀ a b c, cmp a b = .lt → cmp b c = .lt → cmp a c = .lt
  eq_trans : ∀ a b c, cmp a b = .eq → cmp b c = .eq → cmp a c = .eq

namespace WeakOrd
variable {cmp : α → α → Ordering}

theorem refl (h : WeakOrd cmp) (a : α) : cmp a a = .eq := by
  have := h.swap a a
  cases hc : cmp a a <;> simp [hc, Ordering.swap] at this ⊢

theorem gt_iff (h : WeakOrd cmp) {a b : α} : cmp a b = .gt ↔ cmp b a = .lt := by
  rw [h.swap a b]; cases cmp a b <;> simp [Ordering.swap]

theorem eq_symm (h : WeakOrd cmp) {a b : α} (e : cmp a b = .eq) : cmp b a = .eq := by
  rw [h.swap a b, e]; rfl

theorem lt_eq (h : WeakOrd cmp) {a b c : α} (h1 : cmp a b = .lt) (h2 : cmp b c = .eq) : cmp a c = .lt := by
  cases hac : cmp a c with
  | lt => rfl
  | eq =>
    -- a ~ c, c ~ b  ⟹ a ~ b
    have := h.eq_trans a c b hac (h.eq_symm h2)
    rw [h1] at this; cases this
  | gt =>
    -- c < a < b ⟹ c < b, but b ~ c
    have hca : cmp c a = .lt := h.gt_iff.1 hac
    have := h.lt_trans c a b hca h1
    rw [h.eq_symm h2] at this; cases this

theorem eq_lt (h : WeakOrd cmp) {a b c : α} (h1 : cmp a b = .eq) (h2 : cmp b c = .lt) : cmp a c = .lt := by
  cases hac : cmp a c with
  | lt => rfl
  | eq =>
    have := h.eq_trans b a c (h.eq_symm h1) hac
    rw [h2] at this; cases this
  | gt =>
    have hca : cmp c a = .lt := h.gt_iff.1 hac
    have := h.lt_trans b c a h2 hca
    rw [h.eq_symm h1] at this; cases this

/-- "not preferred over" is transitive: `¬ c < b → ¬ b < a → ¬ c < a`. -/
theorem not_lt_trans (h : WeakOrd cmp) {a b c : α} (h1 : cmp c b ≠ .lt) (h2 : cmp b a ≠ .lt) : cmp c a ≠ .lt := by
  intro hca
  cases hcb : cmp c b with
  | lt => exact h1 hcb
  | eq =>
    -- b ~ c < a ⟹ b < a
    exact h2 (h.eq_lt (h.eq_symm hcb) hca)
  | gt =>
    -- b < c < a
    exact h2 (h.lt_trans b c a (h.gt_iff.1 hcb) hca)

theorem antisym (h : WeakOrd cmp) : Antisym cmp := h.swap

/-- numeric key -/
theorem ofNat (f : α → Nat) : WeakOrd (fun a b => compare (f a) (f b)) where
  swap a b := (Nat.compare_swap (f a) (f b)).symm
  lt_trans a b c h1 h2 := by
    rw [Nat.compare_eq_lt] at *; omega
  eq_trans a b c h1 h2 := by
    rw [Nat.compare_eq_eq] at *; omega

/-- reversed (higher is preferred) -/
theorem rev (h : WeakOrd cmp) : WeakOrd (fun a b => cmp b a) where
  swap a b := h.swap b a
  lt_trans a b c h1 h2 := h.lt_trans c b a h2 h1
  eq_trans a b c h1 h2 := h.eq_trans c b a h2 h1

theorem const : WeakOrd (fun (_ _ : α) => Ordering.eq) where
  swap _ _ := rfl
  lt_trans _ _ _ h _ := h
  eq_trans _ _ _ _ _ := rfl

theorem pullback (h : WeakOrd cmp) (f : β → α) : WeakOrd (fun x y => cmp (f x) (f y)) where
  swap x y := h.swap (f x) (f y)
  lt_trans x y z := h.lt_trans (f x) (f y) (f z)
  eq_trans x y z := h.eq_trans (f x) (f y) (f z)

/-- lexicographic combination = Rust's `then_with` -/
theorem andThen {c1 c2 : α → α → Ordering} (h1 : WeakOrd c1) (h2 : WeakOrd c2) :
    WeakOrd (fun a b => (c1 a b).then (c2 a b)) where
  swap a b := by
    show (c1 b a).then (c2 b a) = ((c1 a b).then (c2 a b)).swap
    rw [Ordering.swap_then, ← h1.swap, ← h2.swap]
  lt_trans a b c hab hbc := by
    simp only [Ordering.then_eq_lt] at *
    rcases hab with hab | ⟨hab, hab'⟩ <;> rcases hbc with hbc | ⟨hbc, hbc'⟩
    · exact .inl (h1.lt_trans a b c hab hbc)
    · exact .inl (h1.lt_eq hab hbc)
    · exact .inl (h1.eq_lt hab hbc)
    · exact .inr ⟨h1.eq_trans a b c hab hbc, h2.lt_trans a b c hab' hbc'⟩
  eq_trans a b c hab hbc := by
    simp only [Ordering.then_eq_eq] at *
    exact ⟨h1.eq_trans a b c hab.1 hbc.1, h2.eq_trans a b c hab.2 hbc.2⟩

end WeakOrd

namespace Antisym

theorem ofNat (f : α → Nat) : Antisym (fun a b => compare (f a) (f b)) :=
  fun a b => (Nat.compare_swap (f a) (f b)).symm

theorem rev {cmp : α → α → Ordering} (h : Antisym cmp) : Antisym (fun a b => cmp b a) := fun a b => h b a

theorem const : Antisym (fun (_ _ : α) => Ordering.eq) := fun _ _ => rfl

theorem andThen {c1 c2 : α → α → Ordering} (h1 : Antisym c1) (h2 : Antisym c2) :
    Antisym (fun a b => (c1 a b).then (c2 a b)) := fun a b => by
  show (c1 b a).then (c2 b a) = ((c1 a b).then (c2 a b)).swap
  rw [Ordering.swap_then, ← h1, ← h2]

theorem pullback {cmp : α → α → Ordering} (h : Antisym cmp) (f : β → α) : Antisym (fun x y => cmp (f x) (f y)) :=
  fun x y => h (f x) (f y)

end Antisym

end Rc.Order
