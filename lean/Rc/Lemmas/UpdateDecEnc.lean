/-
Lemmas for `Rc.Thm.C01.decode_encode`, part 4: the encoding of a well-formed
typed content is accepted, and the accepted message's observation is the
expected one – all fields at once.
-/
import Rc.Lemmas.UpdateMp

namespace Rc.Upd
open Rc Rc.Nlri Rc.Attr Rc.AsPath

variable {cfg : Cfg} {c : TContent} {m : Msg}

/-- every field of the observation of a message that is the encoding of `c` -/
theorem Ctx.observe_eq (h : Ctx cfg c m) : observeMsg m = expected cfg c := by
  obtain ⟨l1, l2, l3⟩ := h.lengths
  apply Observation.ext <;> simp only [observeMsg]
  · exact l1
  · exact l2
  · exact l3
  · exact h.pathAttrs
  · exact h.owned
  · exact h.convWd'
  · exact h.convAnn'
  · exact h.mpWd
  · exact h.mpAnn
  · exact h.withdrawals
  · exact h.announcements
  · exact h.wdVec
  · exact h.annVec
  · funext g; exact h.typedWd g
  · funext g; exact h.typedAnn g
  · exact h.afiSafis
  · exact h.isEor
  · exact h.origin
  · exact h.aspath
  · exact h.as4path
  · exact h.convNextHop
  · exact h.mpNextHop
  · exact h.findNextHop
  · exact h.med
  · exact h.localPref
  · exact h.isAtomicAggregate
  · exact h.aggregator
  · exact h.communities
  · exact h.extCommunities
  · exact h.ipv6ExtCommunities
  · exact h.largeCommunities
  · exact h.allCommunities

theorem code14_reach {a : AttrC} (hk : a.kindOk cfg) (hc : a.code = 14) :
    (∃ fl f nh rsv nlri, a = .reach fl f nh rsv nlri) ∨ (∃ fl k nh rsv body, a = .reachU fl k nh rsv body) := by
  cases a with
  | typed fl t => cases t <;> simp [AttrC.code, TypedAttr.code] at hc
  | path fl as4 ss => cases as4 <;> simp [AttrC.code] at hc
  | raw fl tc v => exact absurd hc hk.2.1
  | reach fl f nh rsv nlri => exact .inl ⟨fl, f, nh, rsv, nlri, rfl⟩
  | unreach fl f nlri => simp [AttrC.code] at hc
  | reachU fl k nh rsv body => exact .inr ⟨fl, k, nh, rsv, body, rfl⟩
  | unreachU fl k body => simp [AttrC.code] at hc

theorem code15_unreach {a : AttrC} (hk : a.kindOk cfg) (hc : a.code = 15) :
    (∃ fl f nlri, a = .unreach fl f nlri) ∨ (∃ fl k body, a = .unreachU fl k body) := by
  cases a with
  | typed fl t => cases t <;> simp [AttrC.code, TypedAttr.code] at hc
  | path fl as4 ss => cases as4 <;> simp [AttrC.code] at hc
  | raw fl tc v => exact absurd hc hk.2.2
  | reach fl f nh rsv nlri => simp [AttrC.code] at hc
  | unreach fl f nlri => exact .inl ⟨fl, f, nlri, rfl⟩
  | reachU fl k nh rsv body => simp [AttrC.code] at hc
  | unreachU fl k body => exact .inr ⟨fl, k, body, rfl⟩

/-- the MP attributes of a well-formed content have their fixed octets -/
theorem mpOk_raws (cfg : Cfg) (c : TContent) (hk : ∀ a ∈ c.attrs, a.kindOk cfg) : MpOk (c.raws cfg) := by
  intro r hr
  simp only [TContent.raws, List.mem_map] at hr
  obtain ⟨a, ha, rfl⟩ := hr
  have hka := hk a ha
  simp only [AttrC.rawOf, a.code_toNat]
  constructor
  · intro hc
    rcases code14_reach hka hc with ⟨fl, f, nh, rsv, nlri, rfl⟩ | ⟨fl, k, nh, rsv, body, rfl⟩
    · obtain ⟨b, hb, _⟩ := nlris_reported f (cfg.rx (famCode f)) nlri hka.1
      have hv : (AttrC.reach fl f nh rsv nlri).valueD cfg = mpReachValue (famCode f) nh rsv b := by
        simp [AttrC.valueD, AttrC.value, hb]
      rw [hv]
      refine ⟨by simp [mpReachValue]; omega, by simp [Ctx.afiSafi_reachR]⟩
    · rw [Ctx.reachU_value]
      refine ⟨by simp [mpReachValue]; omega, by simp [afiSafi_mpReach k hka.2.1 hka.2.2.1]⟩
  · intro hc
    rcases code15_unreach hka hc with ⟨fl, f, nlri, rfl⟩ | ⟨fl, k, body, rfl⟩
    · obtain ⟨b, hb, _⟩ := nlris_reported f (cfg.rx (famCode f)) nlri hka
      have hv : (AttrC.unreach fl f nlri).valueD cfg = unreachValue f b := by simp [AttrC.valueD, AttrC.value, hb]
      rw [hv]
      simp [afiSafi_unreach]
    · rw [Ctx.unreachU_value]
      simp [afiSafi_mpUnreach k hka.2.1 hka.2.2]

/-- the encoding of a well-formed typed content exists and – when it fits the
length field, and whatever follows it – is accepted, with the facts `Ctx` lists -/
theorem parse_encoded (cfg : Cfg) (c : TContent) (hw : WfContent cfg c) :
    ∃ bs, encUpdateT cfg c = .ok bs ∧
      (bs.length < 65536 → ∀ trail, ∃ m, parseUpdate cfg (bs ++ trail) = .ok m ∧ Ctx cfg c m) := by
  have hk : ∀ a ∈ c.attrs, a.kindOk cfg := fun a ha => (hw.2.2.1 a ha).1
  have hlow : c.lower cfg = .ok ⟨c.wd, c.raws cfg, c.ann⟩ := by
    simp [TContent.lower, lowerAll_ok cfg c.attrs hk, TContent.raws]
  have hwr : ∀ r ∈ c.raws cfg, r.wf = true := by
    intro r hr
    simp only [TContent.raws, List.mem_map] at hr
    obtain ⟨a, ha, rfl⟩ := hr
    exact (hw.2.2.1 a ha).2
  have hwu : WfUpdate cfg ⟨c.wd, c.raws cfg, c.ann⟩ := ⟨hw.1, hw.2.1, hwr, mpOk_raws cfg c hk⟩
  obtain ⟨bs, hbs, hdec⟩ := Raw.decode_encode_partial cfg _ hwu
  refine ⟨bs, by simp [encUpdateT, hlow, hbs], ?_⟩
  intro hlen trail
  obtain ⟨m, hm, _, ⟨w, a, hw1, ha1, hmw, hma, _⟩, _, hcw, hca, hpa, hat, hppi⟩ := hdec hlen trail
  exact ⟨m, hm, ⟨hw, by rw [hmw]; exact hw1, by rw [hma]; exact ha1, hat, hpa, hppi, hcw, hca⟩⟩

end Rc.Upd
