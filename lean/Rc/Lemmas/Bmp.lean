/- Lemmas about the BMP model: totality of the checks, what an accepted
message guarantees about its length, and totality of the accessors. -/
import Rc.Model.Bmp

namespace Rc.Bmp
open Rc

macro "np_auto" : tactic => `(tactic| ((repeat' (first | split | dsimp only)) <;> simp_all))

/-! ### parser primitives -/

theorem cU8_np (bs : Bytes) (p : Nat) : cU8 bs p ≠ .panic := by unfold cU8; np_auto
theorem cU16_np (bs : Bytes) (p : Nat) : cU16 bs p ≠ .panic := by unfold cU16; np_auto
theorem cU32_np (bs : Bytes) (p : Nat) : cU32 bs p ≠ .panic := by unfold cU32; np_auto
theorem cAdvance_np (n : Nat) (bs : Bytes) (p : Nat) : cAdvance n bs p ≠ .panic := by unfold cAdvance; np_auto

theorem cU8_ok {bs : Bytes} {p v q} (h : cU8 bs p = .ok (v, q)) : q = p + 1 ∧ q ≤ bs.length ∧ v = beAt bs p 1 := by
  unfold cU8 at h; split at h <;> simp at h; omega
theorem cU16_ok {bs : Bytes} {p v q} (h : cU16 bs p = .ok (v, q)) : q = p + 2 ∧ q ≤ bs.length ∧ v = beAt bs p 2 := by
  unfold cU16 at h; split at h <;> simp at h; omega
theorem cU32_ok {bs : Bytes} {p v q} (h : cU32 bs p = .ok (v, q)) : q = p + 4 ∧ q ≤ bs.length ∧ v = beAt bs p 4 := by
  unfold cU32 at h; split at h <;> simp at h; omega
theorem cAdvance_ok {n : Nat} {bs : Bytes} {p q} (h : cAdvance n bs p = .ok q) : q = p + n ∧ q ≤ bs.length := by
  unfold cAdvance at h; split at h <;> simp at h; omega

/-! ### checks never panic -/

theorem commonCheck_np (bs : Bytes) : commonCheck bs ≠ .panic := by
  unfold commonCheck
  have := cU8_np; have := cAdvance_np
  np_auto

theorem pphCheck_np (bs : Bytes) (p : Nat) : pphCheck bs p ≠ .panic := by
  unfold pphCheck
  have := cU8_np; have := cAdvance_np
  np_auto

theorem bothCheck_np (bs : Bytes) : bothCheck bs ≠ .panic := by
  unfold bothCheck
  have := commonCheck_np; have := pphCheck_np
  np_auto

theorem statsLoop_np (bs : Bytes) (n p : Nat) : statsLoop bs n p ≠ .panic := by
  induction n generalizing p with
  | zero => simp [statsLoop]
  | succ n ih =>
    unfold statsLoop
    have := cU16_np; have := cAdvance_np
    np_auto

theorem statsCheck_np (bs : Bytes) : statsCheck bs ≠ .panic := by
  unfold statsCheck
  have := bothCheck_np; have := cU32_np; have := statsLoop_np
  np_auto

theorem tlvLoop_np (bs : Bytes) (f p : Nat) : tlvLoop bs f p ≠ .panic := by
  induction f generalizing p with
  | zero => unfold tlvLoop; np_auto
  | succ f ih =>
    unfold tlvLoop
    have := cU16_np; have := cAdvance_np
    np_auto

theorem tlvCheck_np (bs : Bytes) (p : Nat) : tlvCheck bs p ≠ .panic := tlvLoop_np _ _ _

theorem initiationCheck_np (bs : Bytes) : initiationCheck bs ≠ .panic := by
  unfold initiationCheck
  have := commonCheck_np; have := tlvCheck_np
  np_auto

theorem routeMonitoringCheck_np (bs : Bytes) : routeMonitoringCheck bs ≠ .panic := by
  unfold routeMonitoringCheck
  have := bothCheck_np
  np_auto

/-- what the two embedded-message decoders must satisfy -/
structure Deps.Total (d : Deps) : Prop where
  open_np : ∀ bs, d.openParse bs ≠ .panic
  notif_np : ∀ bs, d.notifParse bs ≠ .panic
  open_le : ∀ bs n, d.openParse bs = .ok n → n ≤ bs.length

theorem peerDownCheck_np (d : Deps) (hd : d.Total) (bs : Bytes) : peerDownCheck d bs ≠ .panic := by
  unfold peerDownCheck
  have := bothCheck_np; have := cU8_np; have := cAdvance_np; have := hd.notif_np
  np_auto

theorem peerUpCheck_np (d : Deps) (hd : d.Total) (bs : Bytes) : peerUpCheck d bs ≠ .panic := by
  unfold peerUpCheck
  have := bothCheck_np; have := cAdvance_np; have := hd.open_np; have := tlvCheck_np
  np_auto

theorem checkKind_np (d : Deps) (hd : d.Total) (k : MsgKind) (bs : Bytes) : checkKind d k bs ≠ .panic := by
  cases k <;> simp only [checkKind]
  · exact routeMonitoringCheck_np bs
  · exact statsCheck_np bs
  · exact peerDownCheck_np d hd bs
  · exact peerUpCheck_np d hd bs
  · exact initiationCheck_np bs
  · exact initiationCheck_np bs
  · exact routeMonitoringCheck_np bs

/-! ### what an accepted header guarantees -/

theorem commonCheck_ok {bs : Bytes} {p : Nat} (h : commonCheck bs = .ok p) : p = 6 ∧ 6 ≤ bs.length := by
  unfold commonCheck at h
  cases h1 : cU8 bs 0 with
  | ok x =>
    obtain ⟨v, p1⟩ := x
    have := cU8_ok h1
    simp only [h1] at h
    split at h
    · simp at h
    · cases h2 : cAdvance 4 bs p1 with
      | ok p2 =>
        have := cAdvance_ok h2
        simp only [h2] at h
        cases h3 : cU8 bs p2 with
        | ok y =>
          obtain ⟨t, p3⟩ := y
          have := cU8_ok h3
          simp only [h3] at h
          split at h
          · simp at h
          · simp at h; omega
        | err => simp [h3] at h
        | panic => simp [h3] at h
      | err => simp [h2] at h
      | panic => simp [h2] at h
  | err => simp [h1] at h
  | panic => simp [h1] at h

theorem pphCheck_ok {bs : Bytes} {p q : Nat} (h : pphCheck bs p = .ok q) : q = p + 42 ∧ q ≤ bs.length := by
  unfold pphCheck at h
  cases h1 : cU8 bs p with
  | ok x =>
    obtain ⟨v, p1⟩ := x
    have := cU8_ok h1
    simp only [h1] at h
    split at h
    · simp at h
    · have := cAdvance_ok h; omega
  | err => simp [h1] at h
  | panic => simp [h1] at h

theorem bothCheck_ok {bs : Bytes} {p : Nat} (h : bothCheck bs = .ok p) : p = 48 ∧ 48 ≤ bs.length := by
  unfold bothCheck at h
  cases h1 : commonCheck bs with
  | ok p1 =>
    have := commonCheck_ok h1
    simp only [h1] at h
    have := pphCheck_ok h
    omega
  | err => simp [h1] at h
  | panic => simp [h1] at h

theorem bothCheck_prefix_len {α} {bs : Bytes} {f : Nat → Outcome α} {a : α}
    (h : (match bothCheck bs with | .ok p => f p | .err => .err | .panic => .panic) = .ok a) :
    bothCheck bs = .ok 48 ∧ 48 ≤ bs.length ∧ f 48 = .ok a := by
  cases hb : bothCheck bs with
  | ok p =>
    obtain ⟨rfl, hl⟩ := bothCheck_ok hb
    simp only [hb] at h
    exact ⟨rfl, hl, h⟩
  | err => simp [hb] at h
  | panic => simp [hb] at h

theorem checkKind_pph_len {d : Deps} {k : MsgKind} {bs : Bytes} (h : checkKind d k bs = .ok ())
    (h1 : k ≠ .initiation) (h2 : k ≠ .termination) : 48 ≤ bs.length := by
  cases k
  · simp only [checkKind, routeMonitoringCheck] at h; exact (bothCheck_prefix_len h).2.1
  · simp only [checkKind, statsCheck] at h; exact (bothCheck_prefix_len h).2.1
  · simp only [checkKind, peerDownCheck] at h; exact (bothCheck_prefix_len h).2.1
  · simp only [checkKind, peerUpCheck] at h; exact (bothCheck_prefix_len h).2.1
  · exact absurd rfl h1
  · exact absurd rfl h2
  · simp only [checkKind, routeMirroringCheck, routeMonitoringCheck] at h; exact (bothCheck_prefix_len h).2.1

/-! ### slices and indices inside bounds -/

theorem idx_ok {bs : Bytes} {i : Nat} (h : i + 1 ≤ bs.length) : idx bs i = .ok (beAt bs i 1) := by
  simp [idx, h]

theorem slice_ok {bs : Bytes} {a b : Nat} (h1 : a ≤ b) (h2 : b ≤ bs.length) :
    slice bs a b = .ok ((bs.drop a).take (b - a)) := by
  simp [slice, h1, h2]

theorem sliceFrom_ok {bs : Bytes} {a : Nat} (h : a ≤ bs.length) : sliceFrom bs a = .ok (bs.drop a) := by
  simp [sliceFrom, h]

theorem rdBE_ok {bs : Bytes} {a n : Nat} (h : a + n ≤ bs.length) : rdBE bs a n = .ok (beAt bs a n) := by
  simp [rdBE, h]

/-! ### accessors of the common and per-peer header -/

theorem common_accessors_np {bs : Bytes} (h : 6 ≤ bs.length) :
    chVersion bs ≠ .panic ∧ chLength bs ≠ .panic ∧ chMsgType bs ≠ .panic ∧ debugLen bs ≠ .panic := by
  refine ⟨by simp [chVersion, idx_ok (bs := bs) (i := 0) (by omega)],
          by simp [chLength, rdBE_ok (bs := bs) (a := 1) (n := 4) (by omega)],
          by simp [chMsgType, idx_ok (bs := bs) (i := 5) (by omega)], ?_⟩
  unfold debugLen
  simp only [chLength, rdBE_ok (bs := bs) (a := 1) (n := 4) (by omega)]
  rw [slice_ok (by omega) (by omega)]
  simp

theorem pph_ok {bs : Bytes} (h : 48 ≤ bs.length) : ∃ p, pph bs = .ok p := by
  unfold pph
  rw [slice_ok (by omega) h]
  generalize hh : List.take (48 - 6) (List.drop 6 bs) = hd
  have hl : hd.length = 42 := by subst hh; simp; omega
  simp only [idx_ok (bs := hd) (i := 0) (by omega), idx_ok (bs := hd) (i := 1) (by omega),
    slice_ok (bs := hd) (a := 2) (b := 10) (by omega) (by omega),
    rdBE_ok (bs := hd) (a := 26) (n := 4) (by omega),
    slice_ok (bs := hd) (a := 30) (b := 34) (by omega) (by omega),
    rdBE_ok (bs := hd) (a := 34) (n := 4) (by omega),
    rdBE_ok (bs := hd) (a := 38) (n := 4) (by omega)]
  have h1 := slice_ok (bs := hd) (a := 10) (b := 26) (by omega) (by omega)
  have h2 := slice_ok (bs := hd) (a := 22) (b := 26) (by omega) (by omega)
  rw [h1, h2]
  by_cases hv : (beAt hd 1 1 / 128 % 2 == 1) = true
  · simp only [hv, if_true]; exact ⟨_, rfl⟩
  · simp only [hv]; exact ⟨_, rfl⟩

/-! ### statistics: what `check` validated is what the iterator reads -/

theorem getStat_ok {bs : Bytes} {p : Nat} (h : p + 4 + beAt bs (p + 2) 2 ≤ bs.length) :
    ∃ s, getStat bs p = .ok (s, p + 4 + beAt bs (p + 2) 2) := by
  unfold getStat
  rw [rdBE_ok (bs := bs) (a := p) (n := 2) (by omega), rdBE_ok (bs := bs) (a := p + 2) (n := 2) (by omega)]
  dsimp only
  split
  · rename_i hc
    rw [rdBE_ok (by omega)]
    dsimp only
    rw [hc.2]
    exact ⟨_, rfl⟩
  · split
    · rename_i hc
      rw [rdBE_ok (by omega)]
      dsimp only
      rw [hc.2]
      exact ⟨_, rfl⟩
    · split
      · rename_i hc
        rw [rdBE_ok (by omega), idx_ok (by omega), rdBE_ok (by omega)]
        dsimp only
        rw [hc.2]
        exact ⟨_, rfl⟩
      · exact ⟨_, rfl⟩

theorem statIter_of_statsLoop {bs : Bytes} (n p : Nat) (h : statsLoop bs n p = .ok ()) :
    ∃ l, statIter bs n p = .ok l ∧ l.length = n := by
  induction n generalizing p with
  | zero => exact ⟨[], by simp [statIter]⟩
  | succ n ih =>
    unfold statsLoop at h
    cases h1 : cAdvance 2 bs p with
    | ok p1 =>
      have e1 := cAdvance_ok h1
      simp only [h1] at h
      cases h2 : cU16 bs p1 with
      | ok x =>
        obtain ⟨len, p2⟩ := x
        have e2 := cU16_ok h2
        simp only [h2] at h
        cases h3 : cAdvance len bs p2 with
        | ok p3 =>
          have e3 := cAdvance_ok h3
          simp only [h3] at h
          obtain ⟨rfl, _⟩ := e1
          obtain ⟨rfl, _, rfl⟩ := e2
          obtain ⟨rfl, _⟩ := e3
          obtain ⟨s, hs⟩ := getStat_ok (bs := bs) (p := p) (by omega)
          obtain ⟨l, hl, hlen⟩ := ih _ h
          refine ⟨s :: l, ?_, by simp [hlen]⟩
          unfold statIter
          simp only [hs]
          have : p + 4 + beAt bs (p + 2) 2 = p + 2 + 2 + beAt bs (p + 2) 2 := by omega
          rw [this, hl]
        | err => simp [h3] at h
        | panic => simp [h3] at h
      | err => simp [h2] at h
      | panic => simp [h2] at h
    | err => simp [h1] at h
    | panic => simp [h1] at h

theorem stats_of_check {bs : Bytes} (h : statsCheck bs = .ok ()) :
    ∃ n l, statsCount bs = .ok n ∧ stats bs = .ok l ∧ l.length = n := by
  unfold statsCheck at h
  cases h1 : bothCheck bs with
  | ok p =>
    obtain ⟨rfl, hl⟩ := bothCheck_ok h1
    simp only [h1] at h
    cases h2 : cU32 bs 48 with
    | ok x =>
      obtain ⟨cnt, p2⟩ := x
      obtain ⟨rfl, hl2, rfl⟩ := cU32_ok h2
      simp only [h2] at h
      obtain ⟨l, hl3, hlen⟩ := statIter_of_statsLoop _ _ h
      refine ⟨_, l, ?_, ?_, hlen⟩
      · simp [statsCount, COFF, rdBE_ok (bs := bs) (a := 48) (n := 4) (by omega)]
      · unfold stats
        simp only [statsCount, COFF, rdBE_ok (bs := bs) (a := 48) (n := 4) (by omega),
          sliceFrom_ok (bs := bs) (a := 48 + 4) (by omega)]
        exact hl3
    | err => simp [h2] at h
    | panic => simp [h2] at h
  | err => simp [h1] at h
  | panic => simp [h1] at h

/-! ### TLV lists: Initiation / PeerUp information, Termination information -/

theorem infoTlvIter_of_tlvLoop {bs : Bytes} (f p : Nat) (hp : p ≤ bs.length) (h : tlvLoop bs f p = .ok ()) :
    ∃ l, infoTlvIter bs f p = .ok l := by
  induction f generalizing p with
  | zero =>
    unfold tlvLoop at h
    split at h
    · exact ⟨[], by simp [infoTlvIter]; omega⟩
    · simp at h
  | succ f ih =>
    unfold tlvLoop at h
    split at h
    · exact ⟨[], by unfold infoTlvIter; simp; omega⟩
    · rename_i hlt
      cases h1 : cAdvance 2 bs p with
      | ok p1 =>
        obtain ⟨rfl, _⟩ := cAdvance_ok h1
        simp only [h1] at h
        cases h2 : cU16 bs (p + 2) with
        | ok x =>
          obtain ⟨len, p2⟩ := x
          obtain ⟨rfl, _, rfl⟩ := cU16_ok h2
          simp only [h2] at h
          cases h3 : cAdvance (beAt bs (p + 2) 2) bs (p + 2 + 2) with
          | ok p3 =>
            obtain ⟨rfl, _⟩ := cAdvance_ok h3
            simp only [h3] at h
            obtain ⟨l, hl⟩ := ih _ (by omega) h
            unfold infoTlvIter
            have hne : ¬ p = bs.length := by omega
            simp only [hne, if_false]
            rw [rdBE_ok (by omega)]
            dsimp only
            rw [slice_ok (by omega) (by omega)]
            dsimp only
            generalize htlv : List.take (p + 4 + beAt bs (p + 2) 2 - p) (List.drop p bs) = tlv
            have htl : tlv.length = 4 + beAt bs (p + 2) 2 := by subst htlv; simp; omega
            have hlen2 : beAt tlv 2 2 = beAt bs (p + 2) 2 := by
              subst htlv
              simp only [beAt, List.drop_take, List.take_take, List.drop_drop]
              congr 2
              omega
            rw [rdBE_ok (by omega), rdBE_ok (a := 2) (n := 2) (by omega), sliceFrom_ok (by omega)]
            dsimp only
            rw [hlen2]
            have : p + (beAt bs (p + 2) 2 + 4) = p + 2 + 2 + beAt bs (p + 2) 2 := by omega
            rw [this, hl]
            exact ⟨_, rfl⟩
          | err => simp [h3] at h
          | panic => simp [h3] at h
        | err => simp [h2] at h
        | panic => simp [h2] at h
      | err => simp [h1] at h
      | panic => simp [h1] at h

theorem termIter_of_tlvLoop {bs : Bytes} (f p : Nat) (hp : p ≤ bs.length) (h : tlvLoop bs f p = .ok ()) :
    ∃ l, termIter bs f p = .ok l := by
  induction f generalizing p with
  | zero =>
    unfold tlvLoop at h
    split at h
    · exact ⟨[], by simp [termIter]; omega⟩
    · simp at h
  | succ f ih =>
    unfold tlvLoop at h
    split at h
    · exact ⟨[], by unfold termIter; simp; omega⟩
    · rename_i hlt
      cases h1 : cAdvance 2 bs p with
      | ok p1 =>
        obtain ⟨rfl, _⟩ := cAdvance_ok h1
        simp only [h1] at h
        cases h2 : cU16 bs (p + 2) with
        | ok x =>
          obtain ⟨len, p2⟩ := x
          obtain ⟨rfl, _, rfl⟩ := cU16_ok h2
          simp only [h2] at h
          cases h3 : cAdvance (beAt bs (p + 2) 2) bs (p + 2 + 2) with
          | ok p3 =>
            obtain ⟨rfl, _⟩ := cAdvance_ok h3
            simp only [h3] at h
            obtain ⟨l, hl⟩ := ih _ (by omega) h
            unfold termIter
            have hne : ¬ p = bs.length := by omega
            simp only [hne, if_false]
            rw [rdBE_ok (by omega), rdBE_ok (by omega)]
            dsimp only
            rw [slice_ok (by omega) (by omega)]
            dsimp only
            have : p + 4 + beAt bs (p + 2) 2 = p + 2 + 2 + beAt bs (p + 2) 2 := by omega
            rw [this, hl]
            exact ⟨_, rfl⟩
          | err => simp [h3] at h
          | panic => simp [h3] at h
        | err => simp [h2] at h
        | panic => simp [h2] at h
      | err => simp [h1] at h
      | panic => simp [h1] at h

end Rc.Bmp
