/- Totality of the OPEN / NOTIFICATION parse path used by BMP (no `.panic`). -/
import Rc.Model.OpenParse

namespace Rc.OpenParse
open Rc

/-- case-split every `match`/`if` (zeta-reducing `let`s that block `split`), then close with the hypotheses -/
macro "np_auto" : tactic => `(tactic| ((repeat' (first | split | dsimp only)) <;> simp_all))

theorem Cur.u8_np (c : Cur) : c.u8 ≠ .panic := by
  unfold Cur.u8; split <;> simp

theorem Cur.u16_np (c : Cur) : c.u16 ≠ .panic := by
  unfold Cur.u16; split <;> simp

theorem Cur.advance_np (c : Cur) (n : Nat) : c.advance n ≠ .panic := by
  unfold Cur.advance; split <;> simp

theorem Cur.seek_np (c : Cur) (n : Nat) : c.seek n ≠ .panic := by
  unfold Cur.seek; split <;> simp

theorem loopRead_np (k limit f : Nat) (c : Cur) : loopRead k limit f c ≠ .panic := by
  induction f generalizing c with
  | zero => simp [loopRead]
  | succ f ih =>
    unfold loopRead
    split
    · have := Cur.advance_np c k
      split <;> simp_all
    · simp

/-- the `usize` subtraction does not underflow when the subtrahend is not larger -/
theorem usub_some {a b : Nat} (h : b ≤ a) : usub a b = some (a - b) := by simp [usub, h]

theorem usub_none {a b : Nat} (h : usub a b = none) : a < b := by
  unfold usub at h; split at h <;> simp at h; omega

/-- every site of `Capability::parse` that can panic (the `0..len-1` of the Multisession arms, an
explicit `usub` in the model) is unreachable: the `len == 0` test precedes it -/
theorem capContent_np (typ len start : Nat) (c : Cur) : capContent typ len start c ≠ .panic := by
  unfold capContent
  have hu8 := Cur.u8_np
  have hadv := Cur.advance_np
  have hloop := loopRead_np
  have hsub : len ≠ 0 → usub len 1 = some (len - 1) := fun h => usub_some (by omega)
  split <;> np_auto

theorem capParse_np (c : Cur) : capParse c ≠ .panic := by
  unfold capParse
  have hu8 := Cur.u8_np
  have hadv := Cur.advance_np
  have hseek := Cur.seek_np
  have hcc := capContent_np
  np_auto

theorem capLoop_np (f : Nat) (c : Cur) : capLoop f c ≠ .panic := by
  induction f generalizing c with
  | zero => simp [capLoop]
  | succ f ih =>
    unfold capLoop
    have := capParse_np c
    np_auto

theorem paramParse_np (c : Cur) : paramParse c ≠ .panic := by
  unfold paramParse
  have hu8 := Cur.u8_np
  have hadv := Cur.advance_np
  have hseek := Cur.seek_np
  have hcl := capLoop_np
  np_auto

theorem paramLoop_np (f left : Nat) (c : Cur) : paramLoop f left c ≠ .panic := by
  induction f generalizing left c with
  | zero => simp [paramLoop]
  | succ f ih =>
    unfold paramLoop
    have := paramParse_np c
    np_auto

theorem headerParse_np (c : Cur) : headerParse c ≠ .panic := by
  unfold headerParse
  have hu8 := Cur.u8_np
  have hu16 := Cur.u16_np
  np_auto

theorem Cur.u8_pos {c c' : Cur} {v : Nat} (h : c.u8 = .ok (v, c')) : c'.pos = c.pos + 1 := by
  unfold Cur.u8 at h; split at h <;> simp at h; rw [← h.2]

theorem Cur.u16_pos {c c' : Cur} {v : Nat} (h : c.u16 = .ok (v, c')) : c'.pos = c.pos + 2 := by
  unfold Cur.u16 at h; split at h <;> simp at h; rw [← h.2]

theorem Cur.advance_pos {c c' : Cur} {n : Nat} (h : c.advance n = .ok c') : c'.pos = c.pos + n := by
  unfold Cur.advance at h; split at h <;> simp at h; rw [← h]

theorem Cur.seek_pos {c c' : Cur} {n : Nat} (h : c.seek n = .ok c') : c'.pos = n := by
  unfold Cur.seek at h; split at h <;> simp at h; rw [← h]

/-- `Parameter::parse` leaves the parser after the parameter: it never moves backwards -/
theorem paramParse_pos {c c' : Cur} {len : Nat} (h : paramParse c = .ok (c', len)) : c.pos ≤ c'.pos := by
  unfold paramParse at h
  dsimp only at h
  repeat' (split at h)
  all_goals (try (simp at h))
  rename_i hs _ c2 ha
  have h1 := Cur.seek_pos hs
  have h2 := Cur.advance_pos ha
  rw [← h.1]; omega

theorem paramLoop_pos (f left : Nat) (c c' : Cur) (h : paramLoop f left c = .ok c') : c.pos ≤ c'.pos := by
  induction f generalizing left c with
  | zero => simp [paramLoop] at h; rw [h]; exact Nat.le_refl _
  | succ f ih =>
    unfold paramLoop at h
    split at h
    · simp at h; rw [h]; exact Nat.le_refl _
    · split at h
      · rename_i c1 len hp
        split at h
        · exact Nat.le_trans (paramParse_pos hp) (ih _ _ h)
        · simp at h
      · simp at h
      · simp at h

theorem headerParse_pos {c c' : Cur} {l : Nat} (h : headerParse c = .ok (l, c')) : c'.pos = c.pos + 19 := by
  unfold headerParse at h
  repeat' (split at h)
  all_goals (try (simp at h))
  rename_i h16 _ _ c3 h8
  have a1 := Cur.u16_pos h16
  have a2 := Cur.u8_pos h8
  simp at a1
  rw [← h.2]; omega

/-- `OpenMessage::parse` never panics: its one panic-capable site, the `usize` subtraction
`end - pos` (open.rs:310, `usub` in the model), is unreachable because every step of the function
moves the parser forwards (`headerParse_pos`, `Cur.advance_pos`, `Cur.u8_pos`, `paramLoop_pos`) -/
theorem openParseCur_np (c : Cur) : openParseCur c ≠ .panic := by
  unfold openParseCur
  have hu8 := Cur.u8_np
  have hadv := Cur.advance_np
  have hseek := Cur.seek_np
  have hh := headerParse_np
  have hp := paramLoop_np
  dsimp only
  repeat' (split)
  all_goals (try (simp_all; done))
  -- the `usub` = none branch
  rename_i _ _ _ hhp _ _ ha _ _ _ hu _ _ _ hpl _ hsub
  have h1 := headerParse_pos hhp
  have h2 := Cur.advance_pos ha
  have h3 := Cur.u8_pos hu
  have h4 := paramLoop_pos _ _ _ _ hpl
  have h5 := usub_none hsub
  omega

/-- `OpenMessage::parse` never panics, for every byte string -/
theorem openParse_np (bs : Bytes) : openParse bs ≠ .panic := by
  unfold openParse
  have := openParseCur_np ⟨bs, 0⟩
  split <;> simp_all

/-- `NotificationMessage::parse` never panics, for every byte string -/
theorem notifParse_np (bs : Bytes) : notifParse bs ≠ .panic := by
  unfold notifParse
  have hh := headerParse_np
  have hadv := Cur.advance_np
  np_auto

theorem Cur.advance_ok {c c' : Cur} {n : Nat} (h : c.advance n = .ok c') :
    c'.data = c.data ∧ c'.pos = c.pos + n ∧ c'.pos ≤ c.data.length := by
  unfold Cur.advance at h
  split at h <;> simp at h
  subst h; simp; omega

theorem Cur.seek_ok {c c' : Cur} {n : Nat} (h : c.seek n = .ok c') : c'.data = c.data ∧ c'.pos = n := by
  unfold Cur.seek at h
  split at h <;> simp at h
  subst h; simp

/-- `OpenMessage::parse` consumes no more than it was given -/
theorem openParse_le (bs : Bytes) (n : Nat) (h : openParse bs = .ok n) : n ≤ bs.length := by
  unfold openParse at h
  cases hc : openParseCur ⟨bs, 0⟩ with
  | ok c =>
    simp only [hc] at h
    simp at h; subst h
    unfold openParseCur at hc
    dsimp only at hc
    repeat' (split at hc)
    all_goals (try (simp at hc))
    rename_i hs
    have h1 := Cur.seek_ok hs
    have h2 := Cur.advance_ok hc
    simp at h1
    rw [h1.1] at h2
    exact h2.2.2
  | err => simp [hc] at h
  | panic => simp [hc] at h

end Rc.OpenParse
