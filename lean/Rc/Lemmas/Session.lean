/-
Lemmas about the whole-session model `Rc/Model/Session.lean`: the key lemma `pump_append`
(`pump (buf ++ c) = feed (pump buf) c`, from `Rc.Framing.parseFrame_append`), the trace of a run as a
fold of `Rc.Fsm.tickStep`, and the totality / C09-view of the concrete wire.
-/
import Rc.Model.Session
import Rc.Lemmas.Framing
import Rc.Lemmas.SessionDecode

namespace Rc.Session
open Rc Rc.Framing

variable {μ κ : Type}

theorem pump_none {w : Wire μ κ} {cfg : Fsm.Cfg} {s : Fsm.St} {k : κ} {buf : Bytes}
    (h : parseFrame (w.dec k) buf = .ok none) : pump w cfg s k buf = ⟨[], [], [], s, k, some buf⟩ := by
  rw [pump]; split <;> simp_all

theorem pump_err {w : Wire μ κ} {cfg : Fsm.Cfg} {s : Fsm.St} {k : κ} {buf : Bytes}
    (h : parseFrame (w.dec k) buf = .err) :
    pump w cfg s k buf =
      ⟨[], [.readErr], [Fsm.tickStep cfg s .readErr], after (Fsm.tickStep cfg s .readErr) s, k, none⟩ := by
  rw [pump]; split <;> simp_all

theorem pump_panic {w : Wire μ κ} {cfg : Fsm.Cfg} {s : Fsm.St} {k : κ} {buf : Bytes}
    (h : parseFrame (w.dec k) buf = .panic) : pump w cfg s k buf = ⟨[], [], [.res .panic], s, k, none⟩ := by
  rw [pump]; split <;> simp_all

theorem pump_some {w : Wire μ κ} {cfg : Fsm.Cfg} {s : Fsm.St} {k : κ} {buf : Bytes} {m : μ} {frame rest : Bytes}
    (h : parseFrame (w.dec k) buf = .ok (some ((m, frame), rest))) :
    pump w cfg s k buf =
      if goesOn (Fsm.tickStep cfg s (.frame (w.inp (m, frame)))) then
        (pump w cfg (after (Fsm.tickStep cfg s (.frame (w.inp (m, frame)))) s)
          (w.upd k s (m, frame) (after (Fsm.tickStep cfg s (.frame (w.inp (m, frame)))) s)) rest).pre
          (m, frame) (.frame (w.inp (m, frame))) (Fsm.tickStep cfg s (.frame (w.inp (m, frame))))
      else ⟨[(m, frame)], [.frame (w.inp (m, frame))], [Fsm.tickStep cfg s (.frame (w.inp (m, frame)))],
            after (Fsm.tickStep cfg s (.frame (w.inp (m, frame)))) s,
            w.upd k s (m, frame) (after (Fsm.tickStep cfg s (.frame (w.inp (m, frame)))) s), none⟩ := by
  rw [pump]; split <;> simp_all

private theorem app_start (s : Fsm.St) (k : κ) (l : Option Bytes) (y : Res μ κ) :
    Res.app ⟨[], [], [], s, k, l⟩ y = y := by
  cases y; simp [Res.app]

private theorem feed_pre (w : Wire μ κ) (cfg : Fsm.Cfg) (x : Res μ κ) (c : Bytes) (f : Frame μ)
    (t : Fsm.TickInput) (r : Fsm.TickResult) :
    feed w cfg (x.pre f t r) c = (feed w cfg x c).pre f t r := by
  unfold feed
  cases hl : x.live with
  | none => simp [Res.pre, hl]
  | some b => simp [Res.pre, Res.app, hl]

/-- KEY LEMMA: the session on `buf ++ c` = the session on `buf`, then one more socket read of `c` -/
theorem pump_append (w : Wire μ κ) (cfg : Fsm.Cfg) (c : Bytes) :
    ∀ (n : Nat) (buf : Bytes) (s : Fsm.St) (k : κ), buf.length ≤ n →
      pump w cfg s k (buf ++ c) = feed w cfg (pump w cfg s k buf) c := by
  intro n
  induction n with
  | zero =>
    intro buf s k hb
    have : parseFrame (w.dec k) buf = .ok none := by unfold parseFrame; simp; omega
    rw [pump_none this]
    simp [feed, app_start]
  | succ n ih =>
    intro buf s k hb
    cases hp : parseFrame (w.dec k) buf with
    | err =>
      have := parseFrame_append (w.dec k) buf c (by simp [hp])
      rw [hp] at this
      rw [pump_err hp, pump_err (by simpa [extend] using this)]; simp [feed]
    | panic =>
      have := parseFrame_append (w.dec k) buf c (by simp [hp])
      rw [hp] at this
      rw [pump_panic hp, pump_panic (by simpa [extend] using this)]; simp [feed]
    | ok o =>
      cases o with
      | none => rw [pump_none hp]; simp [feed, app_start]
      | some fr =>
        obtain ⟨⟨m, frame⟩, rest⟩ := fr
        have hlt := parseFrame_rest_lt hp
        have := parseFrame_append (w.dec k) buf c (by simp [hp])
        rw [hp] at this
        have h2 : parseFrame (w.dec k) (buf ++ c) = .ok (some ((m, frame), rest ++ c)) := by
          simpa [extend] using this
        rw [pump_some hp, pump_some h2]
        split
        · rw [ih rest _ _ (by omega), feed_pre]
        · simp [feed]

theorem start_eq_pump (w : Wire μ κ) (cfg : Fsm.Cfg) (s : Fsm.St) (k : κ) :
    (start s k : Res μ κ) = pump w cfg s k [] :=
  (pump_none (by simp [parseFrame])).symm

theorem foldl_feed_pump (w : Wire μ κ) (cfg : Fsm.Cfg) (s : Fsm.St) (k : κ) :
    ∀ (cs : List Bytes) (b : Bytes),
      cs.foldl (feed w cfg) (pump w cfg s k b) = pump w cfg s k (b ++ cs.flatten) := by
  intro cs
  induction cs with
  | nil => intro b; simp
  | cons c cs ih =>
    intro b
    simp only [List.foldl_cons, List.flatten_cons]
    rw [← pump_append w cfg c _ b s k (Nat.le_refl _), ih, List.append_assoc]

/-- the trace of a run is `tickStep` folded over what `tick` processed (frames, possibly a failed read at
the end), until the first tick that returns `Err` / loses the connection; the session it leaves is the
one that fold leaves -/
theorem pump_spec (w : Wire μ κ) (cfg : Fsm.Cfg) (hdec : ∀ k b, w.dec k b ≠ .panic) :
    ∀ (n : Nat) (buf : Bytes) (s : Fsm.St) (k : κ), buf.length ≤ n →
      (pump w cfg s k buf).trace = liveTicks cfg s (pump w cfg s k buf).inputs ∧
      (pump w cfg s k buf).s = liveFinal cfg s (pump w cfg s k buf).inputs ∧
      (∀ t ∈ (pump w cfg s k buf).inputs, isWireInput t = true) := by
  intro n
  induction n with
  | zero =>
    intro buf s k hb
    have : parseFrame (w.dec k) buf = .ok none := by unfold parseFrame; simp; omega
    rw [pump_none this]; simp [liveTicks, liveFinal]
  | succ n ih =>
    intro buf s k hb
    cases hp : parseFrame (w.dec k) buf with
    | err => rw [pump_err hp]; simp [liveTicks, liveFinal, isWireInput, goesOn, Fsm.tickStep]
    | panic => exact absurd hp (parseFrame_ne_panic' (w.dec k) (hdec k) buf)
    | ok o =>
      cases o with
      | none => rw [pump_none hp]; simp [liveTicks, liveFinal]
      | some fr =>
        obtain ⟨⟨m, frame⟩, rest⟩ := fr
        have hlt := parseFrame_rest_lt hp
        rw [pump_some hp]
        split
        · rename_i hg
          obtain ⟨h1, h2, h3⟩ := ih rest (after (Fsm.tickStep cfg s (.frame (w.inp (m, frame)))) s)
            (w.upd k s (m, frame) (after (Fsm.tickStep cfg s (.frame (w.inp (m, frame)))) s)) (by omega)
          simp only [Res.pre, liveTicks, liveFinal, hg, if_true]
          refine ⟨by rw [h1], h2, ?_⟩
          intro t ht
          simp only [List.mem_cons] at ht
          rcases ht with rfl | ht
          · rfl
          · exact h3 t ht
        · rename_i hg
          simp [liveTicks, liveFinal, hg, isWireInput]

theorem pump_trace (w : Wire μ κ) (cfg : Fsm.Cfg) (hdec : ∀ k b, w.dec k b ≠ .panic)
    (n : Nat) (buf : Bytes) (s : Fsm.St) (k : κ) (h : buf.length ≤ n) :
    (pump w cfg s k buf).trace = liveTicks cfg s (pump w cfg s k buf).inputs :=
  (pump_spec w cfg hdec n buf s k h).1

/-- with a decoder that does not change during the run: the trace is `tickStep` folded over the events of
the frames `drain` cuts from the buffer (a frame each, then the failed read if the stream ends in an
error), until the first tick that returns `Err` / loses the connection -/
theorem pump_trace_const (w : Wire μ κ) (cfg : Fsm.Cfg) (dec : Bytes → Outcome μ) (hc : ∀ k, w.dec k = dec)
    (hdec : ∀ b, dec b ≠ .panic) :
    ∀ (n : Nat) (buf : Bytes) (s : Fsm.St) (k : κ), buf.length ≤ n →
      (pump w cfg s k buf).trace = liveTicks cfg s (tickInputs w.inp (drain dec buf)) := by
  intro n
  induction n with
  | zero =>
    intro buf s k hb
    have h0 : parseFrame dec buf = .ok none := by unfold parseFrame; simp; omega
    have : parseFrame (w.dec k) buf = .ok none := by rw [hc]; exact h0
    rw [pump_none this, drain_none h0]; simp [liveTicks, tickInputs]
  | succ n ih =>
    intro buf s k hb
    cases hp : parseFrame dec buf with
    | err =>
      have : parseFrame (w.dec k) buf = .err := by rw [hc]; exact hp
      rw [pump_err this, drain_err hp]; simp [liveTicks, tickInputs]
    | panic => exact absurd hp (parseFrame_ne_panic' dec hdec buf)
    | ok o =>
      cases o with
      | none =>
        have : parseFrame (w.dec k) buf = .ok none := by rw [hc]; exact hp
        rw [pump_none this, drain_none hp]; simp [liveTicks, tickInputs]
      | some fr =>
        obtain ⟨⟨m, frame⟩, rest⟩ := fr
        have hlt := parseFrame_rest_lt hp
        have hp' : parseFrame (w.dec k) buf = .ok (some ((m, frame), rest)) := by rw [hc]; exact hp
        rw [pump_some hp', drain_some hp]
        have hti : tickInputs w.inp ((m, frame) :: (drain dec rest).1, (drain dec rest).2)
            = .frame (w.inp (m, frame)) :: tickInputs w.inp (drain dec rest) := by
          simp [tickInputs]
        rw [hti]
        split
        · rename_i hg
          simp only [Res.pre, liveTicks, hg, if_true]
          rw [ih rest _ _ (by omega)]
        · rename_i hg
          simp [liveTicks, hg]

/-- `liveTicks` is an initial piece of C08's `runTick` -/
theorem liveTicks_prefix_runTick (cfg : Fsm.Cfg) :
    ∀ (tis : List Fsm.TickInput) (s : Fsm.St), liveTicks cfg s tis <+: Fsm.runTick cfg s tis := by
  intro tis
  induction tis with
  | nil => intro s; simp [liveTicks, Fsm.runTick]
  | cons t rest ih =>
    intro s
    simp only [liveTicks, Fsm.runTick]
    cases hr : Fsm.tickStep cfg s t with
    | noConn => simp [goesOn]
    | res r =>
      cases r with
      | todo => simp [goesOn]
      | panic => simp [goesOn]
      | next s' ok outs =>
        simp only [after]
        split
        · exact List.prefix_cons_inj _ |>.mpr (ih s')
        · simp [List.prefix_cons_inj]

/-! ### the concrete wire -/

open Rc.SessionDecode

/-- the concrete decoder never panics (C02 `parse_total`, C03 `open_decode_total` /
`open_accessors_total` / `notif_total` / `keepalive_total`) -/
theorem sessionWire_ne_panic (k : Upd.Cfg) (f : Bytes) : sessionWire.dec k f ≠ .panic := by
  simp only [sessionWire]
  cases h : msgFromOctets k f with
  | panic => exact absurd h (msgFromOctets_ne_panic k f)
  | err => simp
  | ok m =>
    simp only
    cases m with
    | update u => simp [toInput]
    | keepalive x => simp [toInput]
    | routeRefresh x => simp [toInput]
    | «open» o =>
      have ho := msgFromOctets_open h
      have hacc := Rc.Thm.C03.open_accessors_total f o ho
      have ha : Open.myAsn o ≠ .panic := hacc.2.2.2.2.2.2.2.2.1
      have hh : Open.holdtime o ≠ .panic := hacc.2.2.2.1
      have hap : Open.addpathFamiliesVec o ≠ .panic := hacc.2.2.2.2.2.2.2.2.2.2.2.1
      simp only [toInput]
      cases e1 : Open.myAsn o <;> simp_all
      cases e2 : Open.holdtime o <;> simp_all
      cases e3 : Open.addpathFamiliesVec o <;> simp_all
    | notification n =>
      have hn := msgFromOctets_notification h
      have hd := ((Rc.Thm.C03.notif_total f).2 n hn).2.1
      simp only [toInput]
      cases e : Notif.detailsRaw n with
      | panic => exact absurd e hd
      | err => simp
      | ok p => obtain ⟨c, s⟩ := p; simp

end Rc.Session
