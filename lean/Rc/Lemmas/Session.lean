/-
Lemmas about the whole-session model `Rc/Model/Session.lean`: the key lemma `pump_append`
(`pump (buf ++ c) = feed (pump buf) c`, from `Rc.Framing.parseFrame_append`), the trace of a run as a
fold of `Rc.Fsm.tickStep`, and the totality / C09-view of the concrete wire.
-/
import Rc.Model.Session
import Rc.Lemmas.Framing
import Rc.Lemmas.SessionDecode

namespace Rc.Session
open Rc Rc.Framing

variable {μ κ : Type}

theorem pump_none {w : Wire μ κ} {cfg : Fsm.Cfg} {s : Fsm.St} {k : κ} {buf : Bytes}
    (h : parseFrame (w.dec k) buf = .ok none) : pump w cfg s k buf = ⟨[], [], [], s, k, some buf⟩ := by
  rw [pump]; split <;> simp_all

theorem pump_err {w : Wire μ κ} {cfg : Fsm.Cfg} {s : Fsm.St} {k : κ} {buf : Bytes}
    (h : parseFrame (w.dec k) buf = .err) :
    pump w cfg s k buf =
      ⟨[], [.readErr], [Fsm.tickStep cfg s .readErr], after (Fsm.tickStep cfg s .readErr) s, k, none⟩ := by
  rw [pump]; split <;> simp_all

theorem pump_panic {w : Wire μ κ} {cfg : Fsm.Cfg} {s : Fsm.St} {k : κ} {buf : Bytes}
    (h : parseFrame (w.dec k) buf = .panic) : pump w cfg s k buf = ⟨[], [], [.res .panic], s, k, none⟩ := by
  rw [pump]; split <;> simp_all

theorem pump_some {w : Wire μ κ} {cfg : Fsm.Cfg} {s : Fsm.St} {k : κ} {buf : Bytes} {m : μ} {frame rest : Bytes}
    (h : parseFrame (w.dec k) buf = .ok (some ((m, frame), rest))) :
    pump w cfg s k buf =
      if goesOn (Fsm.tickStep cfg s (.frame (w.inp (m, frame)))) then
        (pump w cfg (after (Fsm.tickStep cfg s (.frame (w.inp (m, frame)))) s)
          (w.upd k s (m, frame) (after (Fsm.tickStep cfg s (.frame (w.inp (m, frame)))) s)) rest).pre
          (m, frame) (.frame (w.inp (m, frame))) (Fsm.tickStep cfg s (.frame (w.inp (m, frame))))
      else ⟨[(m, frame)], [.frame (w.inp (m, frame))], [Fsm.tickStep cfg s (.frame (w.inp (m, frame)))],
            after (Fsm.tickStep cfg s (.frame (w.inp (m, frame)))) s,
            w.upd k s (m, frame) (after (Fsm.tickStep cfg s (.frame (w.inp (m, frame)))) s), none⟩ := by
  rw [pump]; split <;> simp_all

private theorem app_start (s : Fsm.St) (k : κ) (l : Option Bytes) (y : Res μ κ) :
    Res.app ⟨[], [], [], s, k, l⟩ y = y := by
  cases y; simp [Res.app]

private theorem feed_pre (w : Wire μ κ) (cfg : Fsm.Cfg) (x : Res μ κ) (c : Bytes) (f : Frame μ)
    (t : Fsm.TickInput) (r : Fsm.TickResult) :
    feed w cfg (x.pre f t r) c = (feed w cfg x c).pre f t r := by
  unfold feed
  cases hl : x.live with
  | none => simp [Res.pre, hl]
  | some b => simp [Res.pre, Res.app, hl]

/-- KEY LEMMA: the session on `buf ++ c` = the session on `buf`, then one more socket read of `c` -/
theorem pump_append (w : Wire μ κ) (cfg : Fsm.Cfg) (c : Bytes) :
    ∀ (n : Nat) (buf : Bytes) (s : Fsm.St) (k : κ), buf.length ≤ n →
      pump w cfg s k (buf ++ c) = feed w cfg (pump w cfg s k buf) c := by
  intro n
  induction n with
  | zero =>
    intro buf s k hb
    have : parseFrame (w.dec k) buf = .ok none := by unfold parseFrame; simp; omega
    rw [pump_none this]
    simp [feed, app_start]
  | succ n ih =>
    intro buf s k hb
    cases hp : parseFrame (w.dec k) buf with
    | err =>
      have := parseFrame_append (w.dec k) buf c (by simp [hp])
      rw [hp] at this
      rw [pump_err hp, pump_err (by simpa [extend] using this)]; simp [feed]
    | panic =>
      have := parseFrame_append (w.dec k) buf c (by simp [hp])
      rw [hp] at this
      rw [pump_panic hp, pump_panic (by simpa [extend] using this)]; simp [feed]
    | ok o =>
      cases o with
      | none => rw [pump_none hp]; simp [feed, app_start]
      | some fr =>
        obtain ⟨⟨m, frame⟩, rest⟩ := fr
        have hlt := parseFrame_rest_lt hp
        have := parseFrame_append (w.dec k) buf c (by simp [hp])
        rw [hp] at this
        have h2 : parseFrame (w.dec k) (buf ++ c) = .ok (some ((m, frame), rest ++ c)) := by
          simpa [extend] using this
        rw [pump_some hp, pump_some h2]
        split
        · rw [ih rest _ _ (by omega), feed_pre]
        · simp [feed]

theorem start_eq_pump (w : Wire μ κ) (cfg : Fsm.Cfg) (s : Fsm.St) (k : κ) :
    (start s k : Res μ κ) = pump w cfg s k [] :=
  (pump_none (by simp [parseFrame])).symm

theorem foldl_feed_pump (w : Wire μ κ) (cfg : Fsm.Cfg) (s : Fsm.St) (k : κ) :
    ∀ (cs : List Bytes) (b : Bytes),
      cs.foldl (feed w cfg) (pump w cfg s k b) = pump w cfg s k (b ++ cs.flatten) := by
  intro cs
  induction cs with
  | nil => intro b; simp
  | cons c cs ih =>
    intro b
    simp only [List.foldl_cons, List.flatten_cons]
    rw [← pump_append w cfg c _ b s k (Nat.le_refl _), ih, List.append_assoc]

/-- the trace of a run is `tickStep` folded over what `tick` processed (frames, possibly a failed read at
the end), until the first tick that returns `Err` / loses the connection; the session it leaves is the
one that fold leaves -/
theorem pump_spec (w : Wire μ κ) (cfg : Fsm.Cfg) (hdec : ∀ k b, w.dec k b ≠ .panic) :
    ∀ (n : Nat) (buf : Bytes) (s : Fsm.St) (k : κ), buf.length ≤ n →
      (pump w cfg s k buf).trace = liveTicks cfg s (pump w cfg s k buf).inputs ∧
      (pump w cfg s k buf).s = liveFinal cfg s (pump w cfg s k buf).inputs ∧
      (∀ t ∈ (pump w cfg s k buf).inputs, isWireInput t = true) := by
  intro n
  induction n with
  | zero =>
    intro buf s k hb
    have : parseFrame (w.dec k) buf = .ok none := by unfold parseFrame; simp; omega
    rw [pump_none this]; simp [liveTicks, liveFinal]
  | succ n ih =>
    intro buf s k hb
    cases hp : parseFrame (w.dec k) buf with
    | err => rw [pump_err hp]; simp [liveTicks, liveFinal, isWireInput, goesOn, Fsm.tickStep]
    | panic => exact absurd hp (parseFrame_ne_panic' (w.dec k) (hdec k) buf)
    | ok o =>
      cases o with
      | none => rw [pump_none hp]; simp [liveTicks, liveFinal]
      | some fr =>
        obtain ⟨⟨m, frame⟩, rest⟩ := fr
        have hlt := parseFrame_rest_lt hp
        rw [pump_some hp]
        split
        · rename_i hg
          obtain ⟨h1, h2, h3⟩ := ih rest (after (Fsm.tickStep cfg s (.frame (w.inp (m, frame)))) s)
            (w.upd k s (m, frame) (after (Fsm.tickStep cfg s (.frame (w.inp (m, frame)))) s)) (by omega)
          simp only [Res.pre, liveTicks, liveFinal, hg, if_true]
          refine ⟨by rw [h1], h2, ?_⟩
          intro t ht
          simp only [List.mem_cons] at ht
          rcases ht with rfl | ht
          · rfl
          · exact h3 t ht
        · rename_i hg
          simp [liveTicks, liveFinal, hg, isWireInput]

theorem pump_trace (w : Wire μ κ) (cfg : Fsm.Cfg) (hdec : ∀ k b, w.dec k b ≠ .panic)
    (n : Nat) (buf : Bytes) (s : Fsm.St) (k : κ) (h : buf.length ≤ n) :
    (pump w cfg s k buf).trace = liveTicks cfg s (pump w cfg s k buf).inputs :=
  (pump_spec w cfg hdec n buf s k h).1

/-- with a decoder that does not change during the run: the trace is `tickStep` folded over the events of
the frames `drain` cuts from the buffer (a frame each, then the failed read if the stream ends in an
error), until the first tick that returns `Err` / loses the connection -/
theorem pump_trace_const (w : Wire μ κ) (cfg : Fsm.Cfg) (dec : Bytes → Outcome μ) (hc : ∀ k, w.dec k = dec)
    (hdec : ∀ b, dec b ≠ .panic) :
    ∀ (n : Nat) (buf : Bytes) (s : Fsm.St) (k : κ), buf.length ≤ n →
      (pump w cfg s k buf).trace = liveTicks cfg s (tickInputs w.inp (drain dec buf)) := by
  intro n
  induction n with
  | zero =>
    intro buf s k hb
    have h0 : parseFrame dec buf = .ok none := by unfold parseFrame; simp; omega
    have : parseFrame (w.dec k) buf = .ok none := by rw [hc]; exact h0
    rw [pump_none this, drain_none h0]; simp [liveTicks, tickInputs]
  | succ n ih =>
    intro buf s k hb
    cases hp : parseFrame dec buf with
    | err =>
      have : parseFrame (w.dec k) buf = .err := by rw [hc]; exact hp
      rw [pump_err this, drain_err hp]; simp [liveTicks, tickInputs]
    | panic => exact absurd hp (parseFrame_ne_panic' dec hdec buf)
    | ok o =>
      cases o with
      | none =>
        have : parseFrame (w.dec k) buf = .ok none := by rw [hc]; exact hp
        rw [pump_none this, drain_none hp]; simp [liveTicks, tickInputs]
      | some fr =>
        obtain ⟨⟨m, frame⟩, rest⟩ := fr
        have hlt := parseFrame_rest_lt hp
        have hp' : parseFrame (w.dec k) buf = .ok (some ((m, frame), rest)) := by rw [hc]; exact hp
        rw [pump_some hp', drain_some hp]
        have hti : tickInputs w.inp ((m, frame) :: (drain dec rest).1, (drain dec rest).2)
            = .frame (w.inp (m, frame)) :: tickInputs w.inp (drain dec rest) := by
          simp [tickInputs]
        rw [hti]
        split
        · rename_i hg
          simp only [Res.pre, liveTicks, hg, if_true]
          rw [ih rest _ _ (by omega)]
        · rename_i hg
          simp [liveTicks, hg]

/-- `liveTicks` is an initial piece of C08's `runTick` -/
theorem liveTicks_prefix_runTick (cfg : Fsm.Cfg) :
    ∀ (tis : List Fsm.TickInput) (s : Fsm.St), liveTicks cfg s tis <+: Fsm.runTick cfg s tis := by
  intro tis
  induction tis with
  | nil => intro s; simp [liveTicks, Fsm.runTick]
  | cons t rest ih =>
    intro s
    simp only [liveTicks, Fsm.runTick]
    cases hr : Fsm.tickStep cfg s t with
    | noConn => simp [goesOn]
    | res r =>
      cases r with
      | todo => simp [goesOn]
      | panic => simp [goesOn]
      | next s' ok outs =>
        simp only [after]
        split
        · exact List.prefix_cons_inj _ |>.mpr (ih s')
        · simp [List.prefix_cons_inj]

/-! ### the recorded run read back: the link between `okSteps` and the trace, frames on the wire -/

/-- the transitions READ OFF a recorded run - inputs and tick results side by side, the state before each
step taken from the trace itself (the state the previous `tick` left); stops at the first entry that is
not a frame answered `Ok`.  Nothing is recomputed: no `tickStep`, no `handleInput`. -/
def traceSteps : Fsm.St → List Fsm.TickInput → List Fsm.TickResult →
    List (Fsm.St × Fsm.Input × Fsm.St × List Fsm.Out)
  | s, t :: ts, r :: rs =>
    match t, r with
    | .frame i, .res (.next s' true outs) => (s, i, s', outs) :: traceSteps s' ts rs
    | _, _ => []
  | _, _, _ => []

theorem traceSteps_nil_right (s : Fsm.St) (tis : List Fsm.TickInput) : traceSteps s tis [] = [] := by
  cases tis <;> simp [traceSteps]

/-- LINK LEMMA: on a trace that is `liveTicks` of its inputs, the transitions read off the trace are
`okSteps` (the re-computation) -/
theorem traceSteps_liveTicks (cfg : Fsm.Cfg) :
    ∀ (tis : List Fsm.TickInput) (s : Fsm.St), traceSteps s tis (liveTicks cfg s tis) = okSteps cfg s tis := by
  intro tis
  induction tis with
  | nil => intro s; simp [traceSteps, okSteps]
  | cons t rest ih =>
    intro s
    simp only [liveTicks, okSteps]
    cases t with
    | frame i =>
      cases hr : Fsm.tickStep cfg s (.frame i) with
      | noConn => simp [traceSteps]
      | res r =>
        cases r with
        | todo => simp [traceSteps]
        | panic => simp [traceSteps]
        | next s' ok outs =>
          cases ok with
          | false => simp [traceSteps]
          | true =>
            simp only [traceSteps, goesOn, after]
            by_cases hc : s'.conn = true
            · simp [hc, ih]
            · simp [hc, traceSteps_nil_right]
    | _ => simp [traceSteps]

/-- every frame of a recorded run stands on the wire as a complete, well-delimited message that the decoder
IN FORCE WHEN IT WAS READ accepted: the connection's configuration is threaded through `w.upd`, with the
session states taken from the trace (`k`, `s` = configuration / state before the first frame) -/
def FramesDecoded (w : Wire μ κ) : κ → Fsm.St → List (Frame μ) → List Fsm.TickResult → Prop
  | _, _, [], _ => True
  | _, _, _ :: _, [] => False
  | k, s, f :: fs, r :: rs =>
    (19 ≤ f.2.length ∧ lenField f.2 = f.2.length ∧ w.dec k f.2 = .ok f.1) ∧
    FramesDecoded w (w.upd k s f (after r s)) (after r s) fs rs

/-- the connection's configuration after the frames of a recorded run -/
def kAlong (w : Wire μ κ) : κ → Fsm.St → List (Frame μ) → List Fsm.TickResult → κ
  | k, _, [], _ => k
  | k, _, _ :: _, [] => k
  | k, s, f :: fs, r :: rs => kAlong w (w.upd k s f (after r s)) (after r s) fs rs

/-- how a run ends, `rest` = the octets after the last frame handed to `handle_msg`: (1) `read_frame` waits
for more (`rest` is buffered and is no complete frame under the configuration now in force), (2) `rest`
is refused (bad length / marker / decoder error: one more tick, the failed read), (3) the session stopped
on its last frame (`Err`, or the connection was released): `rest` is never looked at.  In every case the
inputs `tick` processed are `w.inp` of the frames, in order. -/
def WireEnd (w : Wire μ κ) (r : Res μ κ) (rest : Bytes) : Prop :=
  (r.live = some rest ∧ parseFrame (w.dec r.k) rest = .ok none ∧
    r.inputs = r.frames.map (fun f => Fsm.TickInput.frame (w.inp f))) ∨
  (r.live = none ∧ parseFrame (w.dec r.k) rest = .err ∧
    r.inputs = r.frames.map (fun f => Fsm.TickInput.frame (w.inp f)) ++ [.readErr]) ∨
  (r.live = none ∧ r.frames ≠ [] ∧ r.inputs = r.frames.map (fun f => Fsm.TickInput.frame (w.inp f)))

/-- `pump` hands over exactly the frames that stand on the wire, each once, in order, each decoded under
the configuration in force when it is read -/
theorem pump_wire (w : Wire μ κ) (cfg : Fsm.Cfg) (hdec : ∀ k b, w.dec k b ≠ .panic) :
    ∀ (n : Nat) (buf : Bytes) (s : Fsm.St) (k : κ), buf.length ≤ n →
      FramesDecoded w k s (pump w cfg s k buf).frames (pump w cfg s k buf).trace ∧
      (pump w cfg s k buf).k = kAlong w k s (pump w cfg s k buf).frames (pump w cfg s k buf).trace ∧
      ∃ rest, buf = ((pump w cfg s k buf).frames.map (·.2)).flatten ++ rest ∧
        WireEnd w (pump w cfg s k buf) rest := by
  intro n
  induction n with
  | zero =>
    intro buf s k hb
    have : parseFrame (w.dec k) buf = .ok none := by unfold parseFrame; simp; omega
    rw [pump_none this]
    exact ⟨trivial, rfl, buf, by simp, Or.inl ⟨rfl, this, rfl⟩⟩
  | succ n ih =>
    intro buf s k hb
    cases hp : parseFrame (w.dec k) buf with
    | err =>
      rw [pump_err hp]
      exact ⟨trivial, rfl, buf, by simp, Or.inr (Or.inl ⟨rfl, hp, rfl⟩)⟩
    | panic => exact absurd hp (parseFrame_ne_panic' (w.dec k) (hdec k) buf)
    | ok o =>
      cases o with
      | none =>
        rw [pump_none hp]
        exact ⟨trivial, rfl, buf, by simp, Or.inl ⟨rfl, hp, rfl⟩⟩
      | some fr =>
        obtain ⟨⟨m, frame⟩, rest⟩ := fr
        have hlt := parseFrame_rest_lt hp
        obtain ⟨h19, hbuf, hlen, hd⟩ := parseFrame_some hp
        have hwf : 19 ≤ frame.length ∧ lenField frame = frame.length ∧ w.dec k frame = .ok m := by
          refine ⟨h19, ?_, hd⟩
          rw [← hlen, hbuf, lenField_append frame rest (by omega)]
        rw [pump_some hp]
        split
        · obtain ⟨hF, hK, rest', hb', hE⟩ := ih rest (after (Fsm.tickStep cfg s (.frame (w.inp (m, frame)))) s)
            (w.upd k s (m, frame) (after (Fsm.tickStep cfg s (.frame (w.inp (m, frame)))) s)) (by omega)
          refine ⟨⟨hwf, hF⟩, hK, rest', ?_, ?_⟩
          · simp only [Res.pre, List.map_cons, List.flatten_cons, List.append_assoc]
            rw [← hb']; exact hbuf
          · rcases hE with ⟨a, b, c⟩ | ⟨a, b, c⟩ | ⟨a, b, c⟩
            · exact Or.inl ⟨a, b, by simp [Res.pre, c]⟩
            · exact Or.inr (Or.inl ⟨a, b, by simp [Res.pre, c]⟩)
            · exact Or.inr (Or.inr ⟨a, by simp [Res.pre], by simp [Res.pre, c]⟩)
        · exact ⟨⟨hwf, trivial⟩, rfl, rest, by simpa using hbuf, Or.inr (Or.inr ⟨rfl, by simp, rfl⟩)⟩

/-- forgetting which configuration was in force: every frame of a recorded run is a complete message that
some configuration met along the run decoded to the value handed over -/
theorem FramesDecoded_mem (w : Wire μ κ) :
    ∀ (fs : List (Frame μ)) (rs : List Fsm.TickResult) (k : κ) (s : Fsm.St), FramesDecoded w k s fs rs →
      ∀ f ∈ fs, ∃ k', 19 ≤ f.2.length ∧ lenField f.2 = f.2.length ∧ w.dec k' f.2 = .ok f.1 := by
  intro fs
  induction fs with
  | nil => intro rs k s _ f hf; simp at hf
  | cons g fs ih =>
    intro rs k s h f hf
    cases rs with
    | nil => exact absurd h (by simp [FramesDecoded])
    | cons r rs =>
      simp only [FramesDecoded] at h
      simp only [List.mem_cons] at hf
      rcases hf with rfl | hf
      · exact ⟨k, h.1⟩
      · exact ih rs _ _ h.2 f hf

/-! ### the concrete wire -/

open Rc.SessionDecode

/-- the concrete decoder never panics (C02 `parse_total`, C03 `open_decode_total` /
`open_accessors_total` / `notif_total` / `keepalive_total`) -/
theorem sessionWire_ne_panic (k : Upd.Cfg) (f : Bytes) : sessionWire.dec k f ≠ .panic := by
  simp only [sessionWire]
  cases h : msgFromOctets k f with
  | panic => exact absurd h (msgFromOctets_ne_panic k f)
  | err => simp
  | ok m =>
    simp only
    cases m with
    | update u => simp [toInput]
    | keepalive x => simp [toInput]
    | routeRefresh x => simp [toInput]
    | «open» o =>
      have ho := msgFromOctets_open h
      have hacc := Rc.Thm.C03.open_accessors_total f o ho
      have ha : Open.myAsn o ≠ .panic := hacc.2.2.2.2.2.2.2.2.1
      have hh : Open.holdtime o ≠ .panic := hacc.2.2.2.1
      have hap : Open.addpathFamiliesVec o ≠ .panic := hacc.2.2.2.2.2.2.2.2.2.2.2.1
      simp only [toInput]
      cases e1 : Open.myAsn o <;> simp_all
      cases e2 : Open.holdtime o <;> simp_all
      cases e3 : Open.addpathFamiliesVec o <;> simp_all
    | notification n =>
      have hn := msgFromOctets_notification h
      have hd := ((Rc.Thm.C03.notif_total f).2 n hn).2.1
      simp only [toInput]
      cases e : Notif.detailsRaw n with
      | panic => exact absurd e hd
      | err => simp
      | ok p => obtain ⟨c, s⟩ := p; simp

/-- the BGP message type (RFC 4271 4.1) an FSM input stands for; 0 for the inputs that are no frame -/
def typeOfInput : Fsm.Input → Nat
  | .msgOpen _ => 1 | .msgUpdate _ => 2 | .msgNotification _ _ => 3 | .msgKeepalive => 4
  | .msgRouteRefresh => 5 | _ => 0

/-- the type `Message::from_octets` dispatched on -/
def typeOfMsg : BgpMsg → Nat
  | .open _ => 1 | .update _ => 2 | .notification _ => 3 | .keepalive _ => 4 | .routeRefresh _ => 5

/-- what `Message::from_octets` returns is decided by the header: marker, 19 octets, and the variant is
the one of the type octet (offset 18), produced by that type's decoder -/
theorem msgFromOctets_type {k : Upd.Cfg} {f : Bytes} {m : BgpMsg} (h : msgFromOctets k f = .ok m) :
    19 ≤ f.length ∧ f.take 16 = Open.marker ∧ (f.getD 18 0).toNat = typeOfMsg m ∧
    (∀ u, m = .update u → Upd.parseUpdate k f = .ok u) ∧
    (∀ o, m = .open o → Open.fromOctets f = .ok o) := by
  have hs := headerParse_spec f
  by_cases hh : 19 ≤ f.length ∧ f.take 16 = Open.marker
  · obtain ⟨len, r, he⟩ := hs.1 hh
    refine ⟨hh.1, hh.2, ?_⟩
    unfold msgFromOctets at h
    rw [he] at h
    simp only at h
    split at h
    all_goals (first | (simp at h; done) | skip)
    all_goals (split at h <;> simp at h <;> subst h <;> simp_all [typeOfMsg])
  · rw [msgFromOctets, hs.2 hh] at h; simp at h

/-- the input the concrete wire gives for a frame carries the frame's type octet -/
theorem sessionWire_dec_type {k : Upd.Cfg} {f : Bytes} {i : Fsm.Input} (h : sessionWire.dec k f = .ok i) :
    19 ≤ f.length ∧ f.take 16 = Open.marker ∧ (f.getD 18 0).toNat = typeOfInput i := by
  simp only [sessionWire] at h
  cases hm : msgFromOctets k f with
  | panic => simp [hm] at h
  | err => simp [hm] at h
  | ok m =>
    obtain ⟨h1, h2, h3, _, _⟩ := msgFromOctets_type hm
    refine ⟨h1, h2, ?_⟩
    rw [h3]
    simp only [hm] at h
    cases m with
    | update u => simp [toInput] at h; subst h; rfl
    | keepalive x => simp [toInput] at h; subst h; rfl
    | routeRefresh x => simp [toInput] at h; subst h; rfl
    | «open» o =>
      simp only [toInput] at h
      split at h <;> try (simp at h; done)
      split at h <;> try (simp at h; done)
      split at h <;> simp at h <;> subst h <;> rfl
    | notification x =>
      simp only [toInput] at h
      split at h <;> simp at h <;> subst h <;> rfl

/-- **which frames the concrete wire calls an UPDATE**: exactly those with a good marker whose type octet
is 2 and which `UpdateMessage::from_octets` accepts under the configuration in force; the name it carries is
the injective code of ITS octets -/
theorem sessionWire_dec_update_iff (k : Upd.Cfg) (f : Bytes) (n : Nat) :
    sessionWire.dec k f = .ok (.msgUpdate n) ↔
      (19 ≤ f.length ∧ f.take 16 = Open.marker ∧ (f.getD 18 0).toNat = 2 ∧ ∃ u, Upd.parseUpdate k f = .ok u) ∧
      n = pduId f := by
  constructor
  · intro h
    have ht := sessionWire_dec_type h
    simp only [sessionWire] at h
    cases hm : msgFromOctets k f with
    | panic => simp [hm] at h
    | err => simp [hm] at h
    | ok m =>
      obtain ⟨_, _, _, hu, _⟩ := msgFromOctets_type hm
      simp only [hm] at h
      cases m with
      | update u =>
        simp [toInput] at h
        exact ⟨⟨ht.1, ht.2.1, ht.2.2, u, hu u rfl⟩, h.symm⟩
      | keepalive x => simp [toInput] at h
      | routeRefresh x => simp [toInput] at h
      | «open» o =>
        simp only [toInput] at h
        split at h <;> try (simp at h; done)
        split at h <;> try (simp at h; done)
        split at h <;> simp at h
      | notification x =>
        simp only [toInput] at h
        split at h <;> simp at h
  · rintro ⟨⟨h19, hmk, ht, u, hu⟩, rfl⟩
    obtain ⟨len, r, he⟩ := (headerParse_spec f).1 ⟨h19, hmk⟩
    simp only [sessionWire, msgFromOctets, he, ht, hu, toInput]

/-- `pduId` is injective: the name of an UPDATE identifies its octets -/
theorem pduId_injective (a b : Bytes) (h : pduId a = pduId b) : a = b := by
  have key : ∀ l : Bytes, pduId l = l.reverse.foldr (fun x acc => acc * 256 + x.toNat) 1 := by
    intro l; simp [pduId, List.foldr_reverse]
  have pos : ∀ l : Bytes, 1 ≤ l.foldr (fun x acc => acc * 256 + x.toNat) 1 := by
    intro l; induction l with
    | nil => simp
    | cons x l ih => simp only [List.foldr_cons]; omega
  have inj : ∀ l₁ l₂ : Bytes, l₁.foldr (fun x acc => acc * 256 + x.toNat) 1 =
      l₂.foldr (fun x acc => acc * 256 + x.toNat) 1 → l₁ = l₂ := by
    intro l₁
    induction l₁ with
    | nil =>
      intro l₂ h
      cases l₂ with
      | nil => rfl
      | cons y l₂ => simp only [List.foldr_cons, List.foldr_nil] at h; have := pos l₂; omega
    | cons x l₁ ih =>
      intro l₂ h
      cases l₂ with
      | nil => simp only [List.foldr_cons, List.foldr_nil] at h; have := pos l₁; omega
      | cons y l₂ =>
        simp only [List.foldr_cons] at h
        have hx := x.toNat_lt; have hy := y.toNat_lt
        have h1 : x.toNat = y.toNat := by omega
        have h2 : l₁.foldr (fun x acc => acc * 256 + x.toNat) 1 = l₂.foldr (fun x acc => acc * 256 + x.toNat) 1 := by omega
        rw [ih l₂ h2, UInt8.toNat_inj.mp h1]
  rw [key, key] at h
  exact List.reverse_inj.mp (inj _ _ h)

/-- a well-formed ROUTE-REFRESH (RFC 2918: 23 octets, any AFI / subtype / SAFI) is `.msgRouteRefresh` for the
concrete wire, under every configuration -/
theorem sessionWire_dec_rr (k : Upd.Cfg) (x : Notif.RouteRefresh) (ha : x.afi < 65536) (hs : x.safi < 256)
    (ht : x.subtype < 256) : sessionWire.dec k (Notif.rrEncode x) = .ok .msgRouteRefresh := by
  have hd := Rc.Thm.C03.rr_decode_encode x ha hs ht
  have hp : Open.headerParse (Notif.rrEncode x) =
      some (23, 5, be16 x.afi ++ [UInt8.ofNat x.subtype, UInt8.ofNat x.safi]) := by
    have := Open.headerParse_header 23 5 (be16 x.afi ++ [UInt8.ofNat x.subtype, UInt8.ofNat x.safi]) (by decide)
    simpa [Notif.rrEncode, List.append_assoc] using this
  simp only [sessionWire, msgFromOctets, hp, show (5 : UInt8).toNat = 5 from rfl, hd, toInput]

end Rc.Session
