/-
Iterator protocol: HOW an iterator is consumed does not matter - for the DEFAULT methods.

The models of routecore's iterators are `next` functions (`commNext`, `nlriNext`, `paNext`,
`ribNext`, ...) and the observers `collect` / `drain` call `next` until it answers `None`.
Rust code may consume the same iterator through `count()`, `last()`, `nth(k)`, `skip(k)`,
`step_by(k)`, `fold`, `by_ref().take(j)` followed by any of these, `peekable()` ...  As long as a
type only implements `next`, all of these are the default methods of `core::iter::Iterator`
(resp. the std adaptors `Skip`, `StepBy`, `Take`, `Peekable` driving the inner iterator through
its `next` / `nth`), and each of them is a function of the `next()` sequence.  This file states
that once, for an arbitrary `next : σ → Option (ι × σ)`:

  `Ends next s l`   – calling `next` from state `s` yields the items `l` and then `None`
  `protocol_of_ends : Ends next s l → Protocol next s l`
                     – count = |l|, last = l.getLast?, fold = foldl, nth k = l[k]? (and the rest after it is
                       l.drop (k+1)), skip k yields l.drop k, step_by (k+1) yields every (k+1)-th item,
                       after j calls of next (by_ref().take(j)) the rest is l.drop j (to which the
                       same applies again), peek-then-count = count.

What this leaves to the differential check: a Rust type may OVERRIDE the default methods
(`size_hint`, `nth`, `count`, `last`, `fold`, ...).  "The overrides agree with the defaults" is
what harness/src/common.rs `iter_protocol` tests on the real code, for every iterator the
properties name; the model side of that token is therefore the constant `proto=ok`.

The definitions mirror library/core/src/iter/traits/iterator.rs (`count`, `last`: `fold`;
`nth`: `advance_by(n)` - stop at the first `None` - then `next()`), adapters/skip.rs
(`Skip::next`: the first call is `iter.nth(n)`), adapters/step_by.rs (`StepBy::next`: the first call
is `iter.next()`, every later one `iter.nth(step - 1)`), adapters/take.rs + by_ref (`advance`).
None of them calls `next` again after it returned `None` (routecore's iterators need not be fused).
-/
import Rc.Base

namespace Rc.IterProto

variable {σ ι : Type}

/-- the `next()` sequence, with fuel: `some l` when `None` is reached within `fuel` calls -/
def seq (next : σ → Option (ι × σ)) : Nat → σ → Option (List ι)
  | 0, _ => none
  | f + 1, s =>
    match next s with
    | none => some []
    | some (i, s') => (seq next f s').map (i :: ·)

/-- calling `next` from `s` yields exactly the items `l`, then `None` -/
def Ends (next : σ → Option (ι × σ)) (s : σ) (l : List ι) : Prop := ∃ f, seq next f s = some l

theorem Ends.nil {next : σ → Option (ι × σ)} {s : σ} (h : next s = none) : Ends next s [] :=
  ⟨1, by simp [seq, h]⟩

theorem Ends.cons {next : σ → Option (ι × σ)} {s s' : σ} {i : ι} {l : List ι}
    (h : next s = some (i, s')) (hl : Ends next s' l) : Ends next s (i :: l) := by
  obtain ⟨f, hf⟩ := hl
  exact ⟨f + 1, by simp [seq, h, hf]⟩

/-- inversion: either the iterator is at its end, or it yields the head and goes on with the tail -/
theorem Ends.inv {next : σ → Option (ι × σ)} {s : σ} {l : List ι} (h : Ends next s l) :
    (next s = none ∧ l = []) ∨ (∃ i s' l', next s = some (i, s') ∧ l = i :: l' ∧ Ends next s' l') := by
  obtain ⟨f, hf⟩ := h
  cases f with
  | zero => simp [seq] at hf
  | succ f =>
    cases hn : next s with
    | none => simp [seq, hn] at hf; exact .inl ⟨rfl, hf⟩
    | some p =>
      obtain ⟨i, s'⟩ := p
      simp only [seq, hn, Option.map_eq_some_iff] at hf
      obtain ⟨l', hl', rfl⟩ := hf
      exact .inr ⟨i, s', l', rfl, rfl, f, hl'⟩

/-- the sequence is a function of the state (whatever fuel reached the end) -/
theorem Ends.unique {next : σ → Option (ι × σ)} {l₁ : List ι} :
    ∀ {s : σ} {l₂ : List ι}, Ends next s l₁ → Ends next s l₂ → l₁ = l₂ := by
  induction l₁ with
  | nil =>
    intro s l₂ h₁ h₂
    rcases h₁.inv with ⟨hn, _⟩ | ⟨i, s', l', hn, hl, _⟩
    · rcases h₂.inv with ⟨_, rfl⟩ | ⟨i, s', l', hn', _, _⟩
      · rfl
      · simp [hn] at hn'
    · cases hl
  | cons a r ih =>
    intro s l₂ h₁ h₂
    rcases h₁.inv with ⟨_, hl⟩ | ⟨i, s', l', hn, hl, he⟩
    · cases hl
    · rcases h₂.inv with ⟨hn', _⟩ | ⟨i₂, s₂, l₂', hn', rfl, he₂⟩
      · simp [hn] at hn'
      · rw [hn] at hn'
        simp only [Option.some.injEq, Prod.mk.injEq] at hn'
        obtain ⟨rfl, rfl⟩ := hn'
        simp only [List.cons.injEq] at hl
        obtain ⟨rfl, rfl⟩ := hl
        rw [ih he he₂]

/-! ### `fold`, `count`, `last`, `collect` (whole-sequence consumers) -/

/-- `Iterator::fold` (default): `while let Some(x) = self.next() { acc = f(acc, x) }` -/
def fold {β : Type} (next : σ → Option (ι × σ)) (g : β → ι → β) : Nat → β → σ → Option β
  | 0, _, _ => none
  | f + 1, b, s =>
    match next s with
    | none => some b
    | some (i, s') => fold next g f (g b i) s'

/-- `Iterator::count` (default): `self.fold(0, |count, _| count + 1)` -/
def count (next : σ → Option (ι × σ)) (f : Nat) (s : σ) : Option Nat :=
  fold next (fun c _ => c + 1) f 0 s

/-- `Iterator::last` (default): `self.fold(None, |_, x| Some(x))` -/
def last (next : σ → Option (ι × σ)) (f : Nat) (s : σ) : Option (Option ι) :=
  fold next (fun _ i => some i) f none s

/-- `collect::<Vec<_>>()` / `for x in it { v.push(x) }` -/
def collectVec (next : σ → Option (ι × σ)) (f : Nat) (s : σ) : Option (List ι) :=
  fold next (fun l i => l ++ [i]) f [] s

theorem fold_eq {β : Type} {next : σ → Option (ι × σ)} (g : β → ι → β) :
    ∀ (f : Nat) (b : β) (s : σ) (l : List ι), seq next f s = some l → fold next g f b s = some (l.foldl g b) := by
  intro f
  induction f with
  | zero => intro b s l h; simp [seq] at h
  | succ f ih =>
    intro b s l h
    cases hn : next s with
    | none => simp [seq, hn] at h; subst h; simp [fold, hn]
    | some p =>
      obtain ⟨i, s'⟩ := p
      simp only [seq, hn, Option.map_eq_some_iff] at h
      obtain ⟨l', hl', rfl⟩ := h
      simp only [fold, hn, List.foldl_cons]
      exact ih _ _ _ hl'

private theorem foldl_count (l : List ι) : ∀ n : Nat, l.foldl (fun c _ => c + 1) n = n + l.length := by
  induction l with
  | nil => intro n; simp
  | cons a r ih => intro n; simp only [List.foldl_cons, List.length_cons, ih]; omega

private theorem foldl_last (l : List ι) : ∀ b : Option ι,
    l.foldl (fun _ i => some i) b = (match l.getLast? with | some x => some x | none => b) := by
  induction l with
  | nil => intro b; simp
  | cons a r ih =>
    intro b
    simp only [List.foldl_cons, ih, List.getLast?_cons]
    cases r.getLast? <;> simp

private theorem foldl_push (l : List ι) : ∀ acc : List ι, l.foldl (fun v i => v ++ [i]) acc = acc ++ l := by
  induction l with
  | nil => intro acc; simp
  | cons a r ih => intro acc; simp [ih]

theorem count_eq {next : σ → Option (ι × σ)} {f : Nat} {s : σ} {l : List ι} (h : seq next f s = some l) :
    count next f s = some l.length := by
  rw [count, fold_eq _ f 0 s l h, foldl_count]; simp

theorem last_eq {next : σ → Option (ι × σ)} {f : Nat} {s : σ} {l : List ι} (h : seq next f s = some l) :
    last next f s = some l.getLast? := by
  rw [last, fold_eq _ f none s l h, foldl_last]
  cases l.getLast? <;> rfl

theorem collectVec_eq {next : σ → Option (ι × σ)} {f : Nat} {s : σ} {l : List ι} (h : seq next f s = some l) :
    collectVec next f s = some l := by
  rw [collectVec, fold_eq _ f [] s l h, foldl_push]; simp

/-! ### `nth` (positional) -/

/-- `Iterator::nth(n)` (default): `advance_by(n)` stops at the first `None` (and `nth` answers `None`
without another call), otherwise one more `next()`.  The state afterwards is returned too. -/
def nth (next : σ → Option (ι × σ)) : Nat → σ → Option ι × σ
  | 0, s =>
    match next s with
    | none => (none, s)
    | some (i, s') => (some i, s')
  | n + 1, s =>
    match next s with
    | none => (none, s)
    | some (_, s') => nth next n s'

theorem nth_eq {next : σ → Option (ι × σ)} : ∀ (k : Nat) (s : σ) (l : List ι), Ends next s l →
    (nth next k s).1 = l[k]? ∧ (k < l.length → Ends next (nth next k s).2 (l.drop (k + 1))) := by
  intro k
  induction k with
  | zero =>
    intro s l h
    rcases h.inv with ⟨hn, rfl⟩ | ⟨i, s', l', hn, rfl, he⟩
    · simp [nth, hn]
    · simp [nth, hn, he]
  | succ k ih =>
    intro s l h
    rcases h.inv with ⟨hn, rfl⟩ | ⟨i, s', l', hn, rfl, he⟩
    · simp [nth, hn]
    · have := ih s' l' he
      simp only [nth, hn, List.getElem?_cons_succ, List.length_cons, List.drop_succ_cons]
      exact ⟨this.1, fun hk => this.2 (by omega)⟩

/-! ### `skip(k)` -/

/-- `Skip::next`: the first call is `iter.nth(n)` (for `n > 0`), later ones `iter.next()` -/
def skipNext (next : σ → Option (ι × σ)) : Nat × σ → Option (ι × (Nat × σ))
  | (0, s) =>
    match next s with
    | none => none
    | some (i, s') => some (i, (0, s'))
  | (n + 1, s) =>
    match nth next (n + 1) s with
    | (some i, s') => some (i, (0, s'))
    | (none, _) => none

private theorem skip_zero {next : σ → Option (ι × σ)} (l : List ι) : ∀ s : σ, Ends next s l →
    Ends (skipNext next) (0, s) l := by
  induction l with
  | nil =>
    intro s h
    rcases h.inv with ⟨hn, _⟩ | ⟨i, s', l', _, hl, _⟩
    · exact Ends.nil (by simp [skipNext, hn])
    · cases hl
  | cons a r ih =>
    intro s h
    rcases h.inv with ⟨_, hl⟩ | ⟨i, s', l', hn, hl, he⟩
    · cases hl
    · simp only [List.cons.injEq] at hl
      obtain ⟨rfl, rfl⟩ := hl
      exact Ends.cons (s' := (0, s')) (by simp [skipNext, hn]) (ih s' he)

theorem skip_eq {next : σ → Option (ι × σ)} (k : Nat) (s : σ) (l : List ι) (h : Ends next s l) :
    Ends (skipNext next) (k, s) (l.drop k) := by
  cases k with
  | zero => simpa using skip_zero l s h
  | succ n =>
    have hn := nth_eq (n + 1) s l h
    by_cases hk : n + 1 < l.length
    · have h1 : (nth next (n + 1) s).1 = some l[n + 1] := by rw [hn.1]; simp [hk]
      have hd : l.drop (n + 1) = l[n + 1] :: l.drop (n + 1 + 1) := (List.drop_eq_getElem_cons hk)
      rw [hd]
      refine Ends.cons (s' := (0, (nth next (n + 1) s).2)) ?_ (skip_zero _ _ (hn.2 hk))
      simp only [skipNext]
      generalize hq : nth next (n + 1) s = q at h1
      obtain ⟨o, s''⟩ := q
      simp only at h1; subst h1; rfl
    · have h1 : (nth next (n + 1) s).1 = none := by rw [hn.1]; simp; omega
      have hd : l.drop (n + 1) = [] := List.drop_eq_nil_of_le (by omega)
      rw [hd]
      refine Ends.nil ?_
      simp only [skipNext]
      generalize hq : nth next (n + 1) s = q at h1
      obtain ⟨o, s''⟩ := q
      simp only at h1; subst h1; rfl

/-! ### `step_by(k + 1)` -/

/-- `StepBy::next` with `step - 1 = k`: the first call is `iter.next()`, later ones `iter.nth(k)` -/
def stepNext (next : σ → Option (ι × σ)) (k : Nat) : Bool × σ → Option (ι × (Bool × σ))
  | (true, s) =>
    match next s with
    | none => none
    | some (i, s') => some (i, (false, s'))
  | (false, s) =>
    match nth next k s with
    | (some i, s') => some (i, (false, s'))
    | (none, _) => none

/-- every `(k + 1)`-th item of a list, starting with the first -/
def stepList (k : Nat) : List ι → List ι
  | [] => []
  | a :: r => a :: stepList k (r.drop k)
termination_by l => l.length
decreasing_by simp only [List.length_drop, List.length_cons]; omega

private theorem step_false {next : σ → Option (ι × σ)} (k : Nat) : ∀ (n : Nat) (l : List ι) (s : σ),
    l.length ≤ n → Ends next s l → Ends (stepNext next k) (false, s) (stepList k (l.drop k)) := by
  intro n
  induction n with
  | zero =>
    intro l s hl h
    have : l = [] := List.eq_nil_of_length_eq_zero (by omega)
    subst this
    have hn := nth_eq k s [] h
    have h1 : (nth next k s).1 = none := by rw [hn.1]; simp
    simp only [List.drop_nil, stepList]
    refine Ends.nil ?_
    simp only [stepNext]
    generalize hq : nth next k s = q at h1
    obtain ⟨o, s''⟩ := q
    simp only at h1; subst h1; rfl
  | succ n ih =>
    intro l s hl h
    have hn := nth_eq k s l h
    by_cases hk : k < l.length
    · have h1 : (nth next k s).1 = some l[k] := by rw [hn.1]; simp [hk]
      have hd : l.drop k = l[k] :: l.drop (k + 1) := List.drop_eq_getElem_cons hk
      rw [hd, stepList]
      have hrest := ih (l.drop (k + 1)) (nth next k s).2 (by simp only [List.length_drop]; omega) (hn.2 hk)
      refine Ends.cons (s' := (false, (nth next k s).2)) ?_ hrest
      simp only [stepNext]
      generalize hq : nth next k s = q at h1
      obtain ⟨o, s''⟩ := q
      simp only at h1; subst h1; rfl
    · have h1 : (nth next k s).1 = none := by rw [hn.1]; simp; omega
      have hd : l.drop k = [] := List.drop_eq_nil_of_le (by omega)
      rw [hd, stepList]
      refine Ends.nil ?_
      simp only [stepNext]
      generalize hq : nth next k s = q at h1
      obtain ⟨o, s''⟩ := q
      simp only at h1; subst h1; rfl

theorem stepBy_eq {next : σ → Option (ι × σ)} (k : Nat) (s : σ) (l : List ι) (h : Ends next s l) :
    Ends (stepNext next k) (true, s) (stepList k l) := by
  rcases h.inv with ⟨hn, rfl⟩ | ⟨i, s', l', hn, rfl, he⟩
  · rw [stepList]; exact Ends.nil (by simp [stepNext, hn])
  · rw [stepList]
    exact Ends.cons (s' := (false, s')) (by simp [stepNext, hn]) (step_false k l'.length l' s' (Nat.le_refl _) he)

/-! ### the rest after `by_ref().take(j)`, `peekable()` -/

/-- `it.by_ref().take(j)` driven to its end: `j` calls of `next` (fewer when `None` comes first);
the items and the state the iterator is left in -/
def advance (next : σ → Option (ι × σ)) : Nat → σ → List ι × σ
  | 0, s => ([], s)
  | j + 1, s =>
    match next s with
    | none => ([], s)
    | some (i, s') => (i :: (advance next j s').1, (advance next j s').2)

theorem advance_eq {next : σ → Option (ι × σ)} : ∀ (j : Nat) (s : σ) (l : List ι), Ends next s l → j ≤ l.length →
    (advance next j s).1 = l.take j ∧ Ends next (advance next j s).2 (l.drop j) := by
  intro j
  induction j with
  | zero => intro s l h _; simpa [advance] using h
  | succ j ih =>
    intro s l h hj
    rcases h.inv with ⟨_, rfl⟩ | ⟨i, s', l', hn, rfl, he⟩
    · simp at hj
    · have := ih s' l' he (by simpa using hj)
      simp only [advance, hn, List.take_succ_cons, List.drop_succ_cons, List.cons.injEq, true_and]
      exact this

/-- `peekable()`: `peek()` is one call of `next` whose answer is kept; `count()` afterwards is
`1 + rest.count()` for a kept `Some`, `0` for a kept `None` - the count of the sequence either way -/
theorem peek_count {next : σ → Option (ι × σ)} {s : σ} {l : List ι} (h : Ends next s l) :
    match next s with
    | none => l.length = 0
    | some (_, s') => ∃ f, (count next f s').map (· + 1) = some l.length := by
  rcases h.inv with ⟨hn, rfl⟩ | ⟨i, s', l', hn, rfl, f, hf⟩
  · simp [hn]
  · simp only [hn]
    exact ⟨f, by simp [count_eq hf]⟩

/-! ### the bundle -/

/-- Every way the default methods (and the std adaptors built on them) consume an iterator whose
`next()` sequence from `s` is `l` observes `l`. -/
structure Protocol (next : σ → Option (ι × σ)) (s : σ) (l : List ι) : Prop where
  /-- `count()` -/
  count : ∃ f, count next f s = some l.length
  /-- `last()` -/
  last : ∃ f, last next f s = some l.getLast?
  /-- `collect()` / `for` -/
  collect : ∃ f, collectVec next f s = some l
  /-- `fold` (hence `for_each`, `sum`, `max_by`, `reduce` ..) -/
  fold : ∀ {β : Type} (g : β → ι → β) (b : β), ∃ f, fold next g f b s = some (l.foldl g b)
  /-- `nth(k)`: the k-th item (`None` beyond the end, found without a call after the first `None`);
  what follows it is the rest of the sequence -/
  nth : ∀ k, (nth next k s).1 = l[k]? ∧ (k < l.length → Ends next (nth next k s).2 (l.drop (k + 1)))
  /-- `skip(k)` -/
  skip : ∀ k, Ends (skipNext next) (k, s) (l.drop k)
  /-- `step_by(k + 1)` -/
  stepBy : ∀ k, Ends (stepNext next k) (true, s) (stepList k l)
  /-- `by_ref().take(j)` yields the first `j` items and leaves an iterator whose sequence is the rest
  (to which all of the above applies again: `protocol_of_ends`) -/
  rest : ∀ j, j ≤ l.length → (advance next j s).1 = l.take j ∧ Ends next (advance next j s).2 (l.drop j)

theorem protocol_of_ends {next : σ → Option (ι × σ)} {s : σ} {l : List ι} (h : Ends next s l) :
    Protocol next s l := by
  obtain ⟨f, hf⟩ := h
  exact {
    count := ⟨f, count_eq hf⟩
    last := ⟨f, last_eq hf⟩
    collect := ⟨f, collectVec_eq hf⟩
    fold := fun g b => ⟨f, fold_eq g f b s l hf⟩
    nth := fun k => nth_eq k s l ⟨f, hf⟩
    skip := fun k => skip_eq k s l ⟨f, hf⟩
    stepBy := fun k => stepBy_eq k s l ⟨f, hf⟩
    rest := fun j hj => advance_eq j s l ⟨f, hf⟩ hj }

/-! ### `next` functions that can panic (`Outcome`-valued models, e.g. `Rc.Mrt.ribNext`) -/

/-- the `next` of a run in which nothing panics: an `Outcome`-valued model `next` read as a plain one
(a non-`ok` answer ends the reading; `ends_of_drain`-style lemmas show it does not occur on the run) -/
def okNext {α : Type} (next : σ → Outcome (Option (α × σ))) : σ → Option (α × σ) := fun s =>
  match next s with
  | .ok r => r
  | _ => none

/-- sanity: a five-item iterator over a list -/
example : Protocol (fun (l : List Nat) => match l with | [] => none | a :: r => some (a, r)) [1, 2, 3, 4, 5] [1, 2, 3, 4, 5] :=
  protocol_of_ends ⟨6, by decide⟩

example : stepList 1 [1, 2, 3, 4, 5] = [1, 3, 5] := by simp [stepList]
example : stepList 2 [1, 2, 3, 4, 5] = [1, 4] := by simp [stepList]

end Rc.IterProto
