/-
C15: the reference encodings of well-formed BMP messages PASS the `check` functions
(`Message::from_octets` accepts them).  Used by the acceptance theorems of Rc/Thm/C15.lean.
-/
import Rc.Lemmas.BmpBytes

namespace Rc.Bmp
open Rc

set_option linter.unusedSimpArgs false
set_option linter.unusedVariables false

/-! ### parser steps on concatenations -/

theorem cU8_at (pre : Bytes) (b : UInt8) (rest : Bytes) :
    cU8 (pre ++ b :: rest) pre.length = .ok (b.toNat, pre.length + 1) := by
  unfold cU8
  have h := beAt_append_right pre (b :: rest) 0 1
  simp only [Nat.add_zero] at h
  rw [h]
  simp [beAt, beNat, List.length_append]

theorem cU16_at (pre : Bytes) (n : Nat) (hn : n < 65536) (rest : Bytes) :
    cU16 (pre ++ (be16 n ++ rest)) pre.length = .ok (n, pre.length + 2) := by
  unfold cU16
  have h := beAt_append_right pre (be16 n ++ rest) 0 2
  simp only [Nat.add_zero] at h
  rw [h]
  have : beAt (be16 n ++ rest) 0 2 = n := by
    simp [beAt, be16, beNat, UInt8.toNat_ofNat']
    omega
  rw [this]
  simp [List.length_append]

theorem cU32_at (pre : Bytes) (n : Nat) (hn : n < 4294967296) (rest : Bytes) :
    cU32 (pre ++ (be32 n ++ rest)) pre.length = .ok (n, pre.length + 4) := by
  unfold cU32
  have h := beAt_append_right pre (be32 n ++ rest) 0 4
  simp only [Nat.add_zero] at h
  rw [h]
  have : beAt (be32 n ++ rest) 0 4 = n := by
    have := beNat_be32 n hn
    simp only [beAt, List.drop_zero]
    rw [List.take_append_of_le_length (by simp), List.take_of_length_le (by simp)]
    exact this
  rw [this]
  simp [List.length_append]

theorem cAdvance_le {n : Nat} {bs : Bytes} {pos : Nat} (h : pos + n ≤ bs.length) :
    cAdvance n bs pos = .ok (pos + n) := by
  simp [cAdvance, h]

/-! ### headers -/

theorem encCommon_length (len typ : Nat) : (encCommon len typ).length = 6 := by
  simp [encCommon]

theorem commonCheck_enc (len typ : Nat) (ht : typ ≤ 6) (rest : Bytes) :
    commonCheck (encCommon len typ ++ rest) = .ok 6 := by
  have h0 : cU8 (encCommon len typ ++ rest) 0 = .ok (3, 1) := by
    have := cU8_at [] 3 (be32 len ++ [UInt8.ofNat typ] ++ rest)
    simpa [encCommon] using this
  have h5 : cU8 (encCommon len typ ++ rest) 5 = .ok (typ, 6) := by
    have := cU8_at ([3] ++ be32 len) (UInt8.ofNat typ) rest
    simp only [List.length_append, List.length_singleton, be32_length] at this
    have e : ([3] ++ be32 len ++ UInt8.ofNat typ :: rest) = encCommon len typ ++ rest := by
      simp [encCommon]
    rw [e] at this
    rw [this]
    simp [UInt8.toNat_ofNat']
    omega
  unfold commonCheck
  rw [h0]
  simp only [ne_eq, not_true_eq_false, if_false]
  rw [cAdvance_le (by simp [encCommon_length, List.length_append]; omega)]
  simp only [Nat.reduceAdd]
  rw [h5]
  simp [ht, Nat.not_lt.mpr ht]

theorem encPph_length (p : Pph) (hp : WfPph p) : (encPph p).length = 42 := by
  obtain ⟨_, _, h3, _, h5, _, h7, _, _⟩ := hp
  unfold encPph
  cases hv : p.v6 <;> simp [hv] at h5 ⊢ <;> simp [List.length_append, h3, h5, h7]

theorem pphCheck_enc (hdr : Bytes) (p : Pph) (hp : WfPph p) (hpt : p.peerType ≤ 3) (rest : Bytes) :
    pphCheck (hdr ++ (encPph p ++ rest)) hdr.length = .ok (hdr.length + 42) := by
  have hl := encPph_length p hp
  have h0 : cU8 (hdr ++ (encPph p ++ rest)) hdr.length = .ok (p.peerType, hdr.length + 1) := by
    have e : encPph p ++ rest = UInt8.ofNat p.peerType ::
        ([UInt8.ofNat p.flags] ++ p.distinguisher
          ++ (if p.v6 then p.address else List.replicate 12 0 ++ p.address)
          ++ be32 p.asn ++ p.bgpId ++ be32 p.tsSec ++ be32 p.tsMicro ++ rest) := by
      simp [encPph]
    rw [e, cU8_at]
    have := hp.1
    simp [UInt8.toNat_ofNat']
    omega
  unfold pphCheck
  rw [h0]
  have : ¬ p.peerType > 3 := by omega
  simp only [this, if_false]
  rw [cAdvance_le (by simp [List.length_append, hl]; omega)]

theorem bothCheck_enc (len typ : Nat) (ht : typ ≤ 6) (p : Pph) (hp : WfPph p) (hpt : p.peerType ≤ 3)
    (rest : Bytes) : bothCheck (encCommon len typ ++ (encPph p ++ rest)) = .ok 48 := by
  unfold bothCheck
  rw [commonCheck_enc len typ ht]
  have := pphCheck_enc (encCommon len typ) p hp hpt rest
  rw [encCommon_length] at this
  exact this

/-! ### type / length / value sequences (statistics, Information TLVs, termination TLVs) -/

/-- `x` is encoded as two octets of type, a two-octet length and that many octets of value -/
def Framed {α} (enc : α → Bytes) (x : α) : Prop :=
  ∃ hd v : Bytes, enc x = hd ++ (be16 v.length ++ v) ∧ hd.length = 2 ∧ v.length < 65536

theorem frame_step (pre hd v rest : Bytes) (h2 : hd.length = 2) (hv : v.length < 65536) :
    cAdvance 2 (pre ++ (hd ++ (be16 v.length ++ v) ++ rest)) pre.length = .ok (pre.length + 2) ∧
    cU16 (pre ++ (hd ++ (be16 v.length ++ v) ++ rest)) (pre.length + 2) = .ok (v.length, pre.length + 4) ∧
    cAdvance v.length (pre ++ (hd ++ (be16 v.length ++ v) ++ rest)) (pre.length + 4)
      = .ok (pre.length + 4 + v.length) := by
  refine ⟨cAdvance_le (by simp [List.length_append]; omega), ?_, cAdvance_le (by simp [List.length_append, h2]; omega)⟩
  have := cU16_at (pre ++ hd) v.length hv (v ++ rest)
  simp only [List.length_append, h2, List.append_assoc] at this
  simp only [List.append_assoc]
  rw [this]

theorem tlvLoop_enc {α} (enc : α → Bytes) (xs : List α) (h : ∀ x ∈ xs, Framed enc x) (pre : Bytes)
    (f : Nat) (hf : xs.length < f) : tlvLoop (pre ++ xs.flatMap enc) f pre.length = .ok () := by
  induction xs generalizing pre f with
  | nil =>
    cases f with
    | zero => simp at hf
    | succ f => simp [tlvLoop]
  | cons x xs ih =>
    cases f with
    | zero => simp at hf
    | succ f =>
      obtain ⟨hd, v, he, h2, hv⟩ := h x (by simp)
      simp only [List.flatMap_cons, he]
      obtain ⟨s1, s2, s3⟩ := frame_step pre hd v (xs.flatMap enc) h2 hv
      unfold tlvLoop
      have hne : ¬ pre.length ≥ (pre ++ (hd ++ (be16 v.length ++ v) ++ xs.flatMap enc)).length := by
        simp [List.length_append, h2]; omega
      simp only [hne, if_false, s1, s2, s3]
      have := ih (fun y hy => h y (by simp [hy])) (pre ++ (hd ++ (be16 v.length ++ v))) f (by simp at hf; omega)
      simp only [List.length_append, h2, be16_length, List.append_assoc] at this
      simp only [List.append_assoc]
      have e : pre.length + 4 + v.length = pre.length + (2 + (2 + v.length)) := by omega
      rw [e]
      exact this

theorem tlvCheck_enc {α} (enc : α → Bytes) (xs : List α) (h : ∀ x ∈ xs, Framed enc x)
    (hl : ∀ x ∈ xs, 1 ≤ (enc x).length) (pre : Bytes) :
    tlvCheck (pre ++ xs.flatMap enc) pre.length = .ok () := by
  unfold tlvCheck
  refine tlvLoop_enc enc xs h pre _ ?_
  have : xs.length ≤ (xs.flatMap enc).length := by
    clear h
    induction xs with
    | nil => simp
    | cons x xs ih =>
      have := hl x (by simp)
      have := ih (fun y hy => hl y (by simp [hy]))
      simp only [List.flatMap_cons, List.length_append, List.length_cons]; omega
  simp only [List.length_append]; omega

theorem statsLoop_enc {α} (enc : α → Bytes) (xs : List α) (h : ∀ x ∈ xs, Framed enc x) (pre rest : Bytes) :
    statsLoop (pre ++ (xs.flatMap enc ++ rest)) xs.length pre.length = .ok () := by
  induction xs generalizing pre with
  | nil => simp [statsLoop]
  | cons x xs ih =>
    obtain ⟨hd, v, he, h2, hv⟩ := h x (by simp)
    simp only [List.flatMap_cons, he, List.length_cons]
    obtain ⟨s1, s2, s3⟩ := frame_step pre hd v (xs.flatMap enc ++ rest) h2 hv
    unfold statsLoop
    simp only [List.append_assoc] at s1 s2 s3 ⊢
    simp only [s1, s2, s3]
    have := ih (fun y hy => h y (by simp [hy])) (pre ++ (hd ++ (be16 v.length ++ v)))
    simp only [List.length_append, h2, be16_length, List.append_assoc] at this
    have e : pre.length + 4 + v.length = pre.length + (2 + (2 + v.length)) := by omega
    rw [e]
    exact this

theorem framed_tlv (t : Nat × Nat × Bytes) (h : WfTlv t) : Framed encTlv t :=
  ⟨be16 t.1, t.2.2, by simp [encTlv], by simp, h.2.2⟩

theorem framed_term (t : TermInfo) (h : WfTerm t) : Framed encTerm t := by
  cases t with
  | customString raw => exact ⟨be16 0, raw, by simp [encTerm], by simp, h⟩
  | reason v => exact ⟨be16 1, be16 v, by simp [encTerm], by simp, by simp⟩
  | undefinedTlv t => exact absurd h (by simp [WfTerm])

theorem framed_stat (s : Stat) (h : WfStat s) : Framed encStat s := by
  cases s with
  | u32 t v => exact ⟨be16 t, be32 v, by simp [encStat], by simp, by simp⟩
  | u64 t v => exact ⟨be16 t, be64 v, by simp [encStat, be64], by simp, by simp [be64]⟩
  | afiSafi t a s v =>
    exact ⟨be16 t, be16 a ++ [UInt8.ofNat s] ++ be64 v, by simp [encStat, be64], by simp, by simp [be64]⟩
  | unimplemented t l =>
    exact ⟨be16 t, List.replicate l 0, by simp [encStat], by simp, by simpa using h.2.1⟩

theorem encTlv_pos (t : Nat × Nat × Bytes) : 1 ≤ (encTlv t).length := by
  simp [encTlv, List.length_append]; omega

theorem encTerm_pos (t : TermInfo) : 1 ≤ (encTerm t).length := by
  cases t <;> simp [encTerm, List.length_append] <;> omega

/-! ### positions inside a concatenation -/

theorem slice_mid (pre x rest : Bytes) (a b : Nat) (ha : pre.length = a) (hb : a + x.length = b) :
    slice (pre ++ (x ++ rest)) a b = .ok x := by
  subst ha hb
  have := slice_shift pre (x ++ rest) 0 x.length
  simp only [Nat.add_zero] at this
  rw [this]
  simp [slice, List.length_append]

theorem rdBE_mid (pre x rest : Bytes) (a n : Nat) (ha : pre.length = a) (hx : x.length = n) :
    rdBE (pre ++ (x ++ rest)) a n = .ok (beNat x) := by
  have := rdBE_enc x rest a n pre ha hx
  simpa only [List.append_assoc] using this

theorem drop_mid (pre rest : Bytes) (a : Nat) (ha : pre.length = a) : (pre ++ rest).drop a = rest := by
  subst ha; simp

end Rc.Bmp
