/-
Lemmas for the NLRI clause of C07: the builder of Rc/Model/Reenc.lean
(`NlBuilder` … `readdPdu`) against the UPDATE decoder model of C01 / C02.

* source side: what `typed_announcements::<_, A>()` / `typed_withdrawals` of the
  decoder model yield is the item list over `typedAnnBytes` / `typedWdBytes`,
  and the re-add loop (`takeNlri`) takes exactly the `Ok` items before the first
  item that is not `Ok`;
* output side: what `finish` writes is the RFC framing (`Rc.Upd.frame`) of
  MP_REACH_NLRI, MP_UNREACH_NLRI and the re-encoded attribute map, which the
  decoder model accepts and reads back (`finish_decodes`).
-/
import Rc.Model.Reenc
import Rc.Lemmas.UpdateMp
import Rc.Lemmas.Nlri

namespace Rc.Reenc
open Rc Rc.Attr Rc.Nlri Rc.Upd

/-! ### views of a decoded message -/

/-- the `Ok` items an iterator yields before its first item that is not `Ok` -/
def okPrefix {α : Type} : List (Outcome α) → List α
  | .ok a :: r => a :: okPrefix r
  | _ => []

/-- the items of `typed_announcements::<_, A>()` (`A` = the NLRI type of family `f`, with
path ids when `ap`); nothing for `Ok(None)` and `Err` -/
def annView (m : Msg) (f : Fam) (ap : Bool) : List (Outcome AnyNlri) :=
  match m.typedAnn f ap with
  | .ok (some (l, _)) => l
  | _ => []

/-- the items of `typed_withdrawals::<_, A>()` -/
def wdView (m : Msg) (f : Fam) (ap : Bool) : List (Outcome AnyNlri) :=
  match m.typedWd f ap with
  | .ok (some (l, _)) => l
  | _ => []

theorem okPrefix_map_ok {α : Type} (l : List α) : okPrefix (l.map Outcome.ok) = l := by
  induction l with
  | nil => rfl
  | cons a r ih => simp [okPrefix, ih]

theorem okPrefix_append_err {α : Type} (l : List α) (t : List (Outcome α)) :
    okPrefix (l.map Outcome.ok ++ .err :: t) = l := by
  induction l with
  | nil => rfl
  | cons a r ih => simp [okPrefix, ih]

theorem okPrefix_map {α β : Type} (g : α → β) (l : List (Outcome α)) :
    okPrefix (l.map (mapO g)) = (okPrefix l).map g := by
  induction l with
  | nil => rfl
  | cons a r ih => cases a <;> simp [okPrefix, mapO, ih]

/-- a list all of whose items are `Ok` is its own `Ok` prefix -/
theorem okPrefix_all {α : Type} (l : List (Outcome α)) (h : ∀ x ∈ l, isOkItem x = true) :
    l = (okPrefix l).map Outcome.ok := by
  induction l with
  | nil => rfl
  | cons a r ih =>
    cases a with
    | ok v => simp only [okPrefix, List.map_cons, List.cons.injEq, true_and]; exact ih (fun x hx => h x (by simp [hx]))
    | err => have := h .err (by simp); simp [isOkItem] at this
    | panic => have := h .panic (by simp); simp [isOkItem] at this

/-! ### the iterator and the validation loop walk the same items -/

theorem collect_nil {α : Type} (c : Codec α) (g : Nat) : (collect (nlriNext c) g []).1 = [] := by
  cases g <;> simp [collect, nlriNext]

/-- what `NlriIter` yields, in terms of `decAll`: the parsed values, then one `Err`
item when the loop stopped at an NLRI that does not parse -/
theorem items_of_decAllFuel {α : Type} (c : Codec α) (hp : Progress c) :
    ∀ (g : Nat) (bs : Bytes) (ns : List α) (e : Bool), bs.length ≤ g → decAllFuel c g bs = .ok (ns, e) →
      ∀ g', bs.length ≤ g' →
        (collect (nlriNext c) g' bs).1 = ns.map Outcome.ok ++ (if e then [] else [.err]) := by
  intro g
  induction g with
  | zero =>
    intro bs ns e hl h g' _
    cases bs with
    | nil =>
      simp only [decAllFuel, Outcome.ok.injEq, Prod.mk.injEq] at h
      obtain ⟨rfl, rfl⟩ := h
      simp [collect_nil]
    | cons b t => simp at hl
  | succ g ih =>
    intro bs ns e hl h g' hg'
    cases bs with
    | nil =>
      simp only [decAllFuel, Outcome.ok.injEq, Prod.mk.injEq] at h
      obtain ⟨rfl, rfl⟩ := h
      simp [collect_nil]
    | cons b t =>
      match g', hg' with
      | k + 1, hg' =>
        simp only [decAllFuel] at h
        cases hd : c.dec (b :: t) with
        | ok p =>
          obtain ⟨n, r⟩ := p
          simp only [hd] at h
          have hr := hp _ _ _ hd
          cases hrec : decAllFuel c g r with
          | ok q =>
            obtain ⟨ns', e'⟩ := q
            simp only [hrec, Outcome.ok.injEq, Prod.mk.injEq] at h
            obtain ⟨rfl, rfl⟩ := h
            have hn : nlriNext c (b :: t) = some (.ok n, r) := by simp only [nlriNext, hd]
            have := ih r ns' e' (by simp at hl hr; omega) hrec k (by simp at hg' hr; omega)
            simp only [collect, hn, this, List.map_cons, List.cons_append]
          | err => simp [hrec] at h
          | panic => simp [hrec] at h
        | err =>
          simp only [hd, Outcome.ok.injEq, Prod.mk.injEq] at h
          obtain ⟨rfl, rfl⟩ := h
          have hn : nlriNext c (b :: t) = some (.err, []) := by simp only [nlriNext, hd]
          simp [collect, hn, collect_nil]
        | panic => simp [hd] at h

theorem items_of_decAll {α : Type} (c : Codec α) (hp : Progress c) (bs : Bytes) (ns : List α) (e : Bool)
    (h : Nlri.decAll c bs = .ok (ns, e)) :
    (nlriItems c bs).1 = ns.map Outcome.ok ++ (if e then [] else [.err]) :=
  items_of_decAllFuel c hp bs.length bs ns e (Nat.le_refl _) h _ (by omega)

/-- every NLRI the validation loop walked over is well formed -/
theorem decAllFuel_wf {α} (c : Codec α) (hwf : ∀ bs n r, c.dec bs = .ok (n, r) → c.wf n = true) :
    ∀ (f : Nat) (bs : Bytes) (ns : List α) (e : Bool), decAllFuel c f bs = .ok (ns, e) →
      ∀ n ∈ ns, c.wf n = true
  | _, [], ns, e, h => by
    simp only [decAllFuel, Outcome.ok.injEq, Prod.mk.injEq] at h
    obtain ⟨rfl, _⟩ := h; simp
  | 0, _ :: _, ns, e, h => by
    simp only [decAllFuel, Outcome.ok.injEq, Prod.mk.injEq] at h
    obtain ⟨rfl, _⟩ := h; simp
  | f + 1, b :: bs, ns, e, h => by
    simp only [decAllFuel] at h
    cases hd : c.dec (b :: bs) with
    | ok p =>
      obtain ⟨n, r⟩ := p
      simp only [hd] at h
      cases hr : decAllFuel c f r with
      | ok q =>
        obtain ⟨ns', e'⟩ := q
        simp only [hr, Outcome.ok.injEq, Prod.mk.injEq] at h
        obtain ⟨rfl, _⟩ := h
        intro x hx
        rcases List.mem_cons.mp hx with rfl | hx
        · exact hwf _ _ _ hd
        · exact decAllFuel_wf c hwf f r ns' e' hr x hx
      | err => simp [hr] at h
      | panic => simp [hr] at h
    | err =>
      simp only [hd, Outcome.ok.injEq, Prod.mk.injEq] at h
      obtain ⟨rfl, _⟩ := h; simp
    | panic => simp [hd] at h

/-- the validation loop has no `Err` of its own: an NLRI that does not parse ends it with the
flag `false` -/
theorem decAllFuel_ne_err {α : Type} (c : Codec α) : ∀ (g : Nat) (bs : Bytes), decAllFuel c g bs ≠ .err := by
  intro g
  induction g with
  | zero => intro bs; cases bs <;> simp [decAllFuel]
  | succ g ih =>
    intro bs
    cases bs with
    | nil => simp [decAllFuel]
    | cons b t =>
      simp only [decAllFuel]
      split
      · rename_i n r hd
        have := ih r
        split <;> simp_all
      · simp
      · simp

/-- the re-add loop over one NLRI section: it never fails, what it takes is well formed, and
it is exactly the `Ok` prefix of what the typed iterator of the decoder model yields -/
theorem takeNlri_spec (f : Fam) (ap : Bool) (bs : Bytes) :
    ∃ l, takeNlri f ap bs = .ok l ∧ NlrisWf f ap l ∧ okPrefix (famItems f ap bs).1 = anyNlris f ap l := by
  cases ap with
  | true =>
    cases hd : Nlri.decAll (codecAp f) bs with
    | ok p =>
      obtain ⟨ns, e⟩ := p
      refine ⟨ns, by simp [takeNlri, readd, hd], ?_, ?_⟩
      · simp only [NlrisWf, ↓reduceIte]
        exact decAllFuel_wf _ (codecAp_dec_wf f) _ _ _ _ hd
      · simp only [famItems, ↓reduceIte, items_of_decAll _ (codecAp_progress f) _ _ _ hd, anyNlris]
        rw [okPrefix_map]
        cases e
        · simp [okPrefix_append_err]
        · simp [okPrefix_map_ok]
    | err => exact absurd hd (decAllFuel_ne_err _ _ _)
    | panic => exact absurd hd (decAllFuel_noPanic (codecAp_noPanic f) _ _)
  | false =>
    cases hd : Nlri.decAll (codec f) bs with
    | ok p =>
      obtain ⟨ns, e⟩ := p
      refine ⟨ns.map fun v => (0, v), by simp [takeNlri, readd, hd, mapO], ?_, ?_⟩
      · simp only [NlrisWf, Bool.false_eq_true, ↓reduceIte, List.mem_map, forall_exists_index, and_imp,
          forall_apply_eq_imp_iff₂]
        exact decAllFuel_wf _ (codec_dec_wf f) _ _ _ _ hd
      · simp only [famItems, Bool.false_eq_true, ↓reduceIte, items_of_decAll _ (codec_progress f) _ _ _ hd, anyNlris]
        rw [okPrefix_map]
        cases e
        · simp [okPrefix_append_err, List.map_map, Function.comp_def]
        · simp [okPrefix_map_ok, List.map_map, Function.comp_def]
    | err => exact absurd hd (decAllFuel_ne_err _ _ _)
    | panic => exact absurd hd (decAllFuel_noPanic (codec_noPanic f) _ _)

/-! ### the typed accessors of the decoder model, over the octets the builder reads -/

theorem typedAnn_bytes (m : Msg) (f : Fam) (ap : Bool) :
    m.typedAnn f ap = mapO (Option.map (famItems f ap)) (typedAnnBytes m f) := by
  unfold Msg.typedAnn typedAnnBytes
  split
  · rfl
  · cases m.mpAttr 14 with
    | ok x =>
      cases x with
      | none => rfl
      | some p =>
        obtain ⟨k, r⟩ := p
        simp only
        split
        · cases skipNextHop r <;> rfl
        · rfl
    | err => rfl
    | panic => rfl

theorem typedWd_bytes (m : Msg) (f : Fam) (ap : Bool) :
    m.typedWd f ap = mapO (Option.map (famItems f ap)) (typedWdBytes m f) := by
  unfold Msg.typedWd typedWdBytes
  split
  · rfl
  · cases m.mpAttr 15 with
    | ok x =>
      cases x with
      | none => rfl
      | some p =>
        obtain ⟨k, r⟩ := p
        simp only
        split <;> rfl
    | err => rfl
    | panic => rfl

theorem annView_bytes (m : Msg) (f : Fam) (ap : Bool) :
    annView m f ap = (match typedAnnBytes m f with | .ok (some bs) => (famItems f ap bs).1 | _ => []) := by
  unfold annView
  rw [typedAnn_bytes]
  cases typedAnnBytes m f with
  | ok x => cases x <;> rfl
  | err => rfl
  | panic => rfl

theorem wdView_bytes (m : Msg) (f : Fam) (ap : Bool) :
    wdView m f ap = (match typedWdBytes m f with | .ok (some bs) => (famItems f ap bs).1 | _ => []) := by
  unfold wdView
  rw [typedWd_bytes]
  cases typedWdBytes m f with
  | ok x => cases x <;> rfl
  | err => rfl
  | panic => rfl

theorem mpAttr_noPanic (m : Msg) (code : Nat) : m.mpAttr code ≠ .panic := by
  unfold Msg.mpAttr
  obtain ⟨h1, h2, h3⟩ := findUnchecked_spec code m.attrs.length m.attrs
  cases hf : findUnchecked code m.attrs.length m.attrs with
  | ok x =>
    cases x with
    | none => simp
    | some e =>
      obtain ⟨_, v, hv, _⟩ := h3 e hf
      simp only [hv]
      split <;> simp
  | err => exact absurd hf h2
  | panic => exact absurd hf h1

theorem typedAnnBytes_noPanic (m : Msg) (f : Fam) : typedAnnBytes m f ≠ .panic := by
  unfold typedAnnBytes
  have := mpAttr_noPanic m 14
  split
  · simp
  · split <;> try simp_all
    split <;> try simp
    split <;> simp

theorem typedWdBytes_noPanic (m : Msg) (f : Fam) : typedWdBytes m f ≠ .panic := by
  unfold typedWdBytes
  have := mpAttr_noPanic m 15
  split
  · simp
  · split <;> try simp_all
    split <;> simp

theorem noPanic_any {l : List (Outcome AnyNlri)} (h : ∀ x ∈ l, x ≠ .panic) :
    l.any isPanicItem = false := by
  rw [List.any_eq_false]
  intro x hx
  have := h x hx
  cases x <;> simp_all [isPanicItem]

/-- the early-out of `add_announcements_from_pdu`: the test never panics, and when the
combined iterator yields nothing the typed iterator of any family yields nothing either -/
theorem countIsZero_ann (m : Msg) :
    ∃ z, countIsZero m.announcements = .ok z ∧ (z = true → ∀ f ap, annView m f ap = []) := by
  unfold Msg.announcements
  have hnp := mpAttr_noPanic m 14
  have hconv := famItems_spec .v4u m.ppi.conv m.ann
  cases hx : m.mpAnn with
  | panic =>
    unfold Msg.mpAnn at hx
    cases h14 : m.mpAttr 14 with
    | ok y =>
      cases y with
      | none => simp [h14] at hx
      | some p => obtain ⟨k, r⟩ := p; simp only [h14] at hx; split at hx <;> cases hx
    | err => simp [h14] at hx
    | panic => exact absurd h14 hnp
  | err => exact ⟨false, rfl, by simp⟩
  | ok x =>
    have hen : ∀ y ∈ (itemsOfOpt x).1, y ≠ .panic := by
      cases x with
      | none => simp [itemsOfOpt]
      | some p => exact (enumItems_spec p.1 p.2).2.2.2
    have hall : ∀ y ∈ (itemsOfOpt x).1 ++ m.convAnn.1, y ≠ .panic := by
      intro y hy
      rcases List.mem_append.mp hy with h | h
      · exact hen y h
      · exact hconv.2.2.2 y h
    refine ⟨((itemsOfOpt x).1 ++ m.convAnn.1).isEmpty, by simp [countIsZero, noPanic_any hall], ?_⟩
    intro hz f ap
    simp only [List.isEmpty_iff, List.append_eq_nil_iff] at hz
    obtain ⟨hz1, hz2⟩ := hz
    have hann : m.ann = [] := (famItems_nil_iff .v4u m.ppi.conv m.ann).mp hz2
    rw [annView_bytes]
    unfold typedAnnBytes
    simp only [hann, ne_eq, not_true_eq_false, and_false, ↓reduceIte]
    unfold Msg.mpAnn at hx
    cases h14 : m.mpAttr 14 with
    | ok y =>
      cases y with
      | none => rfl
      | some p =>
        obtain ⟨k, r⟩ := p
        simp only [h14] at hx ⊢
        cases hs : skipNextHop r with
        | none => simp [hs] at hx
        | some r' =>
          simp only [hs, Outcome.ok.injEq] at hx
          subst hx
          by_cases hk : famOf k = some f
          · simp only [hk, ↓reduceIte]
            simp only [itemsOfOpt, nlriTy, hk] at hz1
            have : r' = [] := (enumItems_known_nil_iff f m.ppi.mpReach r').mp hz1
            subst this
            exact (famItems_nil_iff f ap []).mpr rfl
          · simp [hk]
    | err => rfl
    | panic => rfl

theorem countIsZero_wd (m : Msg) :
    ∃ z, countIsZero m.withdrawals = .ok z ∧ (z = true → ∀ f ap, wdView m f ap = []) := by
  unfold Msg.withdrawals
  have hnp := mpAttr_noPanic m 15
  have hconv := famItems_spec .v4u m.ppi.conv m.wd
  cases hx : m.mpWd with
  | panic =>
    unfold Msg.mpWd at hx
    cases h15 : m.mpAttr 15 with
    | ok y =>
      cases y with
      | none => simp [h15] at hx
      | some p => obtain ⟨k, r⟩ := p; simp [h15] at hx
    | err => simp [h15] at hx
    | panic => exact absurd h15 hnp
  | err => exact ⟨false, rfl, by simp⟩
  | ok x =>
    have hen : ∀ y ∈ (itemsOfOpt x).1, y ≠ .panic := by
      cases x with
      | none => simp [itemsOfOpt]
      | some p => exact (enumItems_spec p.1 p.2).2.2.2
    have hall : ∀ y ∈ (itemsOfOpt x).1 ++ m.convWd.1, y ≠ .panic := by
      intro y hy
      rcases List.mem_append.mp hy with h | h
      · exact hen y h
      · exact hconv.2.2.2 y h
    refine ⟨((itemsOfOpt x).1 ++ m.convWd.1).isEmpty, by simp [countIsZero, noPanic_any hall], ?_⟩
    intro hz f ap
    simp only [List.isEmpty_iff, List.append_eq_nil_iff] at hz
    obtain ⟨hz1, hz2⟩ := hz
    have hwd : m.wd = [] := (famItems_nil_iff .v4u m.ppi.conv m.wd).mp hz2
    rw [wdView_bytes]
    unfold typedWdBytes
    simp only [hwd, ne_eq, not_true_eq_false, and_false, ↓reduceIte]
    unfold Msg.mpWd at hx
    cases h15 : m.mpAttr 15 with
    | ok y =>
      cases y with
      | none => rfl
      | some p =>
        obtain ⟨k, r⟩ := p
        simp only [h15, Outcome.ok.injEq] at hx ⊢
        subst hx
        by_cases hk : famOf k = some f
        · simp only [hk, ↓reduceIte]
          simp only [itemsOfOpt, nlriTy, hk] at hz1
          have : r = [] := (enumItems_known_nil_iff f m.ppi.mpUnreach r).mp hz1
          subst this
          exact (famItems_nil_iff f ap []).mpr rfl
        · simp [hk]
    | err => rfl
    | panic => rfl

/-- **the re-add of the announcements**, on a builder that has no MP_REACH_NLRI builder yet:
it never fails; what it leaves in the builder is exactly the `Ok` prefix of the message's
announcements of the builder's family (well-formed values) - or no MP_REACH_NLRI builder at all
when that prefix is empty -/
theorem addAnn_spec (m : Msg) (f : Fam) (ap : Bool) (b : NlBuilder f) (hb : b.ann = none) :
    ∃ l, NlrisWf f ap l ∧ okPrefix (annView m f ap) = anyNlris f ap l ∧
      addAnnouncementsFromPdu m f ap b = .ok { b with ann := if l.isEmpty then none else some l } := by
  obtain ⟨z, hz, hzero⟩ := countIsZero_ann m
  have hnil : NlrisWf f ap [] := by cases ap <;> simp [NlrisWf]
  have hb' : b = { b with ann := none } := by cases b; simp_all
  unfold addAnnouncementsFromPdu
  rw [hz]
  cases z with
  | true =>
    refine ⟨[], hnil, ?_, by simpa using congrArg Outcome.ok hb'⟩
    rw [hzero rfl f ap]; cases ap <;> rfl
  | false =>
    simp only [hb, mpReachAddFromPdu]
    rw [annView_bytes]
    cases hbts : typedAnnBytes m f with
    | ok x =>
      cases x with
      | none => exact ⟨[], hnil, by cases ap <;> rfl, by simpa using congrArg Outcome.ok hb'⟩
      | some bs =>
        obtain ⟨l, h1, h2, h3⟩ := takeNlri_spec f ap bs
        refine ⟨l, h2, h3, ?_⟩
        simp only [h1, List.nil_append]
        cases hl : l.isEmpty
        · simp
        · simpa using congrArg Outcome.ok hb'
    | err => exact ⟨[], hnil, by cases ap <;> rfl, by simpa using congrArg Outcome.ok hb'⟩
    | panic => exact absurd hbts (typedAnnBytes_noPanic m f)

theorem addWd_spec (m : Msg) (f : Fam) (ap : Bool) (b : NlBuilder f) (hb : b.wd = none) :
    ∃ l, NlrisWf f ap l ∧ okPrefix (wdView m f ap) = anyNlris f ap l ∧
      addWithdrawalsFromPdu m f ap b = .ok { b with wd := if l.isEmpty then none else some l } := by
  obtain ⟨z, hz, hzero⟩ := countIsZero_wd m
  have hnil : NlrisWf f ap [] := by cases ap <;> simp [NlrisWf]
  have hb' : b = { b with wd := none } := by cases b; simp_all
  unfold addWithdrawalsFromPdu
  rw [hz]
  cases z with
  | true =>
    refine ⟨[], hnil, ?_, by simpa using congrArg Outcome.ok hb'⟩
    rw [hzero rfl f ap]; cases ap <;> rfl
  | false =>
    simp only [hb, mpUnreachAddFromPdu]
    rw [wdView_bytes]
    cases hbts : typedWdBytes m f with
    | ok x =>
      cases x with
      | none => exact ⟨[], hnil, by cases ap <;> rfl, by simpa using congrArg Outcome.ok hb'⟩
      | some bs =>
        obtain ⟨l, h1, h2, h3⟩ := takeNlri_spec f ap bs
        refine ⟨l, h2, h3, ?_⟩
        simp only [h1, List.nil_append]
        cases hl : l.isEmpty
        · simp
        · simpa using congrArg Outcome.ok hb'
    | err => exact ⟨[], hnil, by cases ap <;> rfl, by simpa using congrArg Outcome.ok hb'⟩
    | panic => exact absurd hbts (typedWdBytes_noPanic m f)

/-- **the re-add of the announcements on a builder that already has an MP_REACH_NLRI builder**
(update_builder.rs:250 `if let Some(ref mut b) = self.announcements`; request `nlt`): it never
fails and EXTENDS what the builder holds - its own NLRI first, then the `Ok` prefix of the
message's announcements of the builder's family -/
theorem addAnn_ext_spec (m : Msg) (f : Fam) (ap : Bool) (b : NlBuilder f) (l0 : List (Nat × f.Val))
    (hb : b.ann = some l0) :
    ∃ l, NlrisWf f ap l ∧ okPrefix (annView m f ap) = anyNlris f ap l ∧
      addAnnouncementsFromPdu m f ap b = .ok { b with ann := some (l0 ++ l) } := by
  obtain ⟨z, hz, hzero⟩ := countIsZero_ann m
  have hnil : NlrisWf f ap [] := by cases ap <;> simp [NlrisWf]
  have hb' : b = { b with ann := some (l0 ++ []) } := by cases b; simp_all
  unfold addAnnouncementsFromPdu
  rw [hz]
  cases z with
  | true =>
    refine ⟨[], hnil, ?_, by simpa using congrArg Outcome.ok hb'⟩
    rw [hzero rfl f ap]; cases ap <;> rfl
  | false =>
    simp only [hb, mpReachAddFromPdu]
    rw [annView_bytes]
    cases hbts : typedAnnBytes m f with
    | ok x =>
      cases x with
      | none => exact ⟨[], hnil, by cases ap <;> rfl, by simp⟩
      | some bs =>
        obtain ⟨l, h1, h2, h3⟩ := takeNlri_spec f ap bs
        exact ⟨l, h2, h3, by simp only [h1]⟩
    | err => exact ⟨[], hnil, by cases ap <;> rfl, by simp⟩
    | panic => exact absurd hbts (typedAnnBytes_noPanic m f)

/-- the same for the withdrawals (update_builder.rs:277) -/
theorem addWd_ext_spec (m : Msg) (f : Fam) (ap : Bool) (b : NlBuilder f) (l0 : List (Nat × f.Val))
    (hb : b.wd = some l0) :
    ∃ l, NlrisWf f ap l ∧ okPrefix (wdView m f ap) = anyNlris f ap l ∧
      addWithdrawalsFromPdu m f ap b = .ok { b with wd := some (l0 ++ l) } := by
  obtain ⟨z, hz, hzero⟩ := countIsZero_wd m
  have hnil : NlrisWf f ap [] := by cases ap <;> simp [NlrisWf]
  have hb' : b = { b with wd := some (l0 ++ []) } := by cases b; simp_all
  unfold addWithdrawalsFromPdu
  rw [hz]
  cases z with
  | true =>
    refine ⟨[], hnil, ?_, by simpa using congrArg Outcome.ok hb'⟩
    rw [hzero rfl f ap]; cases ap <;> rfl
  | false =>
    simp only [hb, mpUnreachAddFromPdu]
    rw [wdView_bytes]
    cases hbts : typedWdBytes m f with
    | ok x =>
      cases x with
      | none => exact ⟨[], hnil, by cases ap <;> rfl, by simp⟩
      | some bs =>
        obtain ⟨l, h1, h2, h3⟩ := takeNlri_spec f ap bs
        exact ⟨l, h2, h3, by simp only [h1]⟩
    | err => exact ⟨[], hnil, by cases ap <;> rfl, by simp⟩
    | panic => exact absurd hbts (typedWdBytes_noPanic m f)

/-! ### what `finish` writes -/

theorem encAll_length {α : Type} {c : Codec α} (h : c.Laws) : ∀ (ns : List α) (b : Bytes),
    (∀ n ∈ ns, c.wf n = true) → Nlri.encAll c ns = .ok b → clenSum c ns = b.length := by
  intro ns
  induction ns with
  | nil => intro b _ he; simp only [Nlri.encAll, Outcome.ok.injEq] at he; subst he; rfl
  | cons n t ih =>
    intro b hw he
    obtain ⟨a, ha, _⟩ := h.enc_ok n (hw n (by simp))
    obtain ⟨b', hb', _⟩ := h.list_roundtrip t (fun x hx => hw x (by simp [hx]))
    rw [encAll_cons_ok c n t a b' ha hb'] at he
    simp only [Outcome.ok.injEq] at he
    subst he
    have h1 := h.len_eq n a (h.wf_inv n (hw n (by simp))) ha
    have h2 := ih b' (fun x hx => hw x (by simp [hx])) hb'
    simp only [clenSum, List.map_cons, List.sum_cons, List.length_append] at h2 ⊢
    omega

/-- `compose_len()` summed over well-formed NLRI is the number of octets `compose` writes -/
theorem nlriLen_eq (f : Fam) (ap : Bool) (l : List (Nat × f.Val)) (hw : NlrisWf f ap l) (nb : Bytes)
    (he : encNlris f ap l = .ok nb) : nlriLen f ap l = nb.length := by
  cases ap with
  | true =>
    simp only [NlrisWf, ↓reduceIte] at hw
    simp only [encNlris, ↓reduceIte] at he
    simp only [nlriLen, ↓reduceIte]
    exact encAll_length (codecAp_laws f) l nb hw he
  | false =>
    simp only [NlrisWf, Bool.false_eq_true, ↓reduceIte] at hw
    simp only [encNlris, Bool.false_eq_true, ↓reduceIte] at he
    simp only [nlriLen, Bool.false_eq_true, ↓reduceIte]
    exact encAll_length (codec_laws f) _ nb
      (by intro n hn; simp only [List.mem_map] at hn; obtain ⟨x, hx, rfl⟩ := hn; exact hw x hx) he

/-- the MP_REACH_NLRI attribute `finish` writes, as a raw attribute: optional non-transitive,
extended length above 255 value octets, value = RFC 4760 layout with the default next hop -/
def reachRaw (f : Fam) (nb : Bytes) : RawAttr :=
  ⟨if (reachValue f (defaultNextHop f) nb).length > 255 then 0x90 else 0x80, 14, reachValue f (defaultNextHop f) nb⟩

def unreachRaw (f : Fam) (nb : Bytes) : RawAttr :=
  ⟨if (unreachValue f nb).length > 255 then 0x90 else 0x80, 15, unreachValue f nb⟩

theorem defaultNextHop_small (f : Fam) : (defaultNextHop f).length < 256 := by cases f <;> simp [defaultNextHop]

theorem reachValue_length (f : Fam) (nh nb : Bytes) : (reachValue f nh nb).length = 2 + 1 + 1 + nh.length + 1 + nb.length := by
  simp [reachValue]; omega

theorem unreachValue_length (f : Fam) (nb : Bytes) : (unreachValue f nb).length = 3 + nb.length := by
  simp [unreachValue]; omega

theorem encRaw_mp (code : UInt8) (v : Bytes) (hv : v.length < 65536) :
    encRaw ⟨if v.length > 255 then 0x90 else 0x80, code, v⟩ = mpHeader code v.length ++ v := by
  unfold encRaw mpHeader
  by_cases h : v.length > 255
  · have e : extBit (0x90 : UInt8) = true := by decide
    have : min v.length 65535 = v.length := by omega
    simp [h, e, this]
  · have e : extBit (0x80 : UInt8) = false := by decide
    have : min v.length 255 = v.length := by omega
    simp [h, e, this]

theorem mp_wf (code : UInt8) (v : Bytes) (hv : v.length < 65536) :
    (RawAttr.mk (if v.length > 255 then 0x90 else 0x80) code v).wf = true := by
  unfold RawAttr.wf
  by_cases h : v.length > 255
  · have e : extBit (0x90 : UInt8) = true := by decide
    simp [h, e, hv]
  · have e : extBit (0x80 : UInt8) = false := by decide
    simp [h, e]; omega

theorem reachAttr_eq (f : Fam) (ap : Bool) (l : List (Nat × f.Val)) (hw : NlrisWf f ap l) (nb : Bytes)
    (he : encNlris f ap l = .ok nb) :
    reachValueLen f ap l = (reachValue f (defaultNextHop f) nb).length ∧
      ((reachValue f (defaultNextHop f) nb).length < 65536 → reachAttr f ap l = .ok (encRaw (reachRaw f nb))) := by
  have hl := nlriLen_eq f ap l hw nb he
  have h1 : reachValueLen f ap l = (reachValue f (defaultNextHop f) nb).length := by
    rw [reachValue_length]; simp only [reachValueLen, hl]; omega
  refine ⟨h1, ?_⟩
  intro hsz
  have hb : nlriBytes f ap l = .ok nb := he
  simp only [reachAttr, hb, h1, reachRaw, encRaw_mp 14 _ hsz]
  simp [reachValue, afiSafiBytes, List.append_assoc]

theorem unreachAttr_eq (f : Fam) (ap : Bool) (l : List (Nat × f.Val)) (hw : NlrisWf f ap l) (nb : Bytes)
    (he : encNlris f ap l = .ok nb) :
    unreachValueLen f ap l = (unreachValue f nb).length ∧
      ((unreachValue f nb).length < 65536 → unreachAttr f ap l = .ok (encRaw (unreachRaw f nb))) := by
  have hl := nlriLen_eq f ap l hw nb he
  have h1 : unreachValueLen f ap l = (unreachValue f nb).length := by
    rw [unreachValue_length]; simp only [unreachValueLen, hl]
  refine ⟨h1, ?_⟩
  intro hsz
  have hb : nlriBytes f ap l = .ok nb := he
  simp only [unreachAttr, hb, h1, unreachRaw, encRaw_mp 15 _ hsz]
  simp [unreachValue, afiSafiBytes, List.append_assoc]

theorem encRaw_length (a : RawAttr) : (encRaw a).length = (if extBit a.fl then 4 else 3) + a.v.length := by
  unfold encRaw; split <;> simp <;> omega

theorem mpAttrLen_eq (code : UInt8) (v : Bytes) :
    mpAttrLen v.length = (encRaw ⟨if v.length > 255 then 0x90 else 0x80, code, v⟩).length := by
  rw [encRaw_length]
  unfold mpAttrLen headerLen
  by_cases h : v.length > 255
  · have e : extBit (0x90 : UInt8) = true := by decide
    simp [h, e]
  · have e : extBit (0x80 : UInt8) = false := by decide
    simp [h, e]

/-! ### the decoder model on what `finish` wrote -/

theorem firstWith_none (code : Nat) (l : List RawAttr) (h : ∀ a ∈ l, a.tc.toNat ≠ code) : firstWith code l = none := by
  induction l with
  | nil => rfl
  | cons a t ih =>
    simp only [firstWith, h a (by simp), ↓reduceIte]
    exact ih (fun x hx => h x (by simp [hx]))

theorem mpAttr_absent (m : Msg) (l : List RawAttr) (hm : m.attrs = encRaws l) (hwf : ∀ a ∈ l, a.wf = true)
    (code : Nat) (hf : firstWith code l = none) : m.mpAttr code = .ok none := by
  simp only [Msg.mpAttr, hm, findUnchecked_enc code l hwf _ (encRaws_length_ge l), hf, Option.map_none]

theorem convItems_nil (ap : Bool) : famItems .v4u ap [] = ([], true) := by
  cases ap <;> simp [famItems, nlriItems, collect, nlriNext]

theorem convValidate_nil (ap : Bool) : convValidate ap [] = .ok () := by
  cases ap <;> simp [convValidate, nlriValidate, Nlri.decAll, decAllFuel]

theorem view_reach_none (m : Msg) (L : List RawAttr) (hm : m.attrs = encRaws L)
    (hwf : ∀ a ∈ L, a.wf = true) (f : Fam) (ap : Bool) (hfirst : firstWith 14 L = none) (hann : m.ann = []) :
    m.typedAnn f ap = .ok none ∧ m.announcements = .ok ([], true) := by
  have h := mpAttr_absent m L hm hwf 14 hfirst
  refine ⟨by simp [Msg.typedAnn, hann, h], ?_⟩
  simp [Msg.announcements, Msg.mpAnn, h, itemsOfOpt, Msg.convAnn, hann, convItems_nil]

theorem view_unreach_none (m : Msg) (L : List RawAttr) (hm : m.attrs = encRaws L)
    (hwf : ∀ a ∈ L, a.wf = true) (f : Fam) (ap : Bool) (hfirst : firstWith 15 L = none) (hwd : m.wd = []) :
    m.typedWd f ap = .ok none ∧ m.withdrawals = .ok ([], true) := by
  have h := mpAttr_absent m L hm hwf 15 hfirst
  refine ⟨by simp [Msg.typedWd, hwd, h], ?_⟩
  simp [Msg.withdrawals, Msg.mpWd, h, itemsOfOpt, Msg.convWd, hwd, convItems_nil]

/-- the MP attributes `finish` writes in front of the attribute map -/
def mpRaws (f : Fam) (la lw : List (Nat × f.Val)) (na nw : Bytes) : List RawAttr :=
  (if la.isEmpty then [] else [reachRaw f na]) ++ (if lw.isEmpty then [] else [unreachRaw f nw])

theorem frame_nil (S : Bytes) :
    frame [] S [] = List.replicate 16 (0xff : UInt8) ++ (be16 (23 + S.length) ++ (2 :: (be16 0 ++ ([] ++ (be16 S.length ++ (S ++ [])))))) := by
  simp only [frame, marker, List.length_nil, List.nil_append, List.append_nil]
  have : 19 + 2 + 0 + 2 + S.length + 0 = 23 + S.length := by omega
  rw [this]

/-- **`into_message` on a builder that holds re-added NLRI.**  For a builder whose attribute
map composes to a sequence of well-framed attributes other than MP_REACH_NLRI / MP_UNREACH_NLRI
(`raws`), holding the well-formed announcements `la` and withdrawals `lw` of its family (an
empty list = no MP builder), in a session whose ADD-PATH setting for the family is the
builder's NLRI type: if the PDU fits 4096 octets, `into_message` returns a PDU; the decoder
model accepts it in the same session; its conventional sections are empty; its typed and its
session-typed iterators yield exactly `la` / `lw`, every item `Ok`; and its attribute section is
the MP attributes followed by the octets of the attribute map. -/
theorem finish_decodes (cfg : Cfg) (f : Fam) (ap : Bool) (hap : ap = cfg.rx (famCode f))
    (b : NlBuilder f) (raws : List RawAttr)
    (henc : encList b.attrs = .ok (encRaws raws)) (hlen : lenList b.attrs = .ok (encRaws raws).length)
    (hwf : ∀ a ∈ raws, a.wf = true) (hnomp : ∀ a ∈ raws, a.tc.toNat ≠ 14 ∧ a.tc.toNat ≠ 15)
    (la lw : List (Nat × f.Val)) (hla : NlrisWf f ap la) (hlw : NlrisWf f ap lw)
    (hba : b.ann = if la.isEmpty then none else some la) (hbw : b.wd = if lw.isEmpty then none else some lw)
    (hsz : calcPduLen f ap b (encRaws raws).length ≤ 4096) :
    ∃ out m' na nw, nlIntoMessage cfg f ap b = .ok out ∧ parseUpdate cfg out = .ok m' ∧
      m'.wd = [] ∧ m'.ann = [] ∧
      annView m' f ap = reportNlris f ap la ∧ wdView m' f ap = reportNlris f ap lw ∧
      m'.announcements = .ok (reportNlris f ap la, true) ∧ m'.withdrawals = .ok (reportNlris f ap lw, true) ∧
      m'.attrs = encRaws (mpRaws f la lw na nw ++ raws) ∧ out = frame [] m'.attrs [] := by
  obtain ⟨na, hna, _, _⟩ := nlris_reported f ap la hla
  obtain ⟨nw, hnw, _, _⟩ := nlris_reported f ap lw hlw
  obtain ⟨ra1, ra2⟩ := reachAttr_eq f ap la hla na hna
  obtain ⟨ru1, ru2⟩ := unreachAttr_eq f ap lw hlw nw hnw
  -- sizes
  have hAlen : optReachLen f ap b.ann = (encRaws (if la.isEmpty then [] else [reachRaw f na])).length := by
    rw [hba]
    cases la.isEmpty
    · simp only [Bool.false_eq_true, ↓reduceIte, optReachLen, ra1, encRaws_cons, reachRaw]
      rw [mpAttrLen_eq 14]; simp [encRaws]
    · simp [optReachLen, encRaws]
  have hWlen : optUnreachLen f ap b.wd = (encRaws (if lw.isEmpty then [] else [unreachRaw f nw])).length := by
    rw [hbw]
    cases lw.isEmpty
    · simp only [Bool.false_eq_true, ↓reduceIte, optUnreachLen, ru1, encRaws_cons, unreachRaw]
      rw [mpAttrLen_eq 15]; simp [encRaws]
    · simp [optUnreachLen, encRaws]
  have hcalc : calcPduLen f ap b (encRaws raws).length =
      23 + (encRaws (mpRaws f la lw na nw ++ raws)).length := by
    simp only [calcPduLen, hAlen, hWlen, mpRaws, encRaws, List.map_append, List.flatten_append, List.length_append]
    omega
  rw [hcalc] at hsz
  have hS : (encRaws (mpRaws f la lw na nw ++ raws)).length =
      (encRaws (if la.isEmpty then [] else [reachRaw f na])).length +
        (encRaws (if lw.isEmpty then [] else [unreachRaw f nw])).length + (encRaws raws).length := by
    simp only [mpRaws, encRaws, List.map_append, List.flatten_append, List.length_append]
  -- the MP attributes as written
  have hrv : (reachValue f (defaultNextHop f) na).length < 65536 ∨ la.isEmpty = true := by
    cases h : la.isEmpty
    · left
      have : (encRaw (reachRaw f na)).length ≤ (encRaws (mpRaws f la lw na nw ++ raws)).length := by
        have e1 : (encRaws (if la.isEmpty then [] else [reachRaw f na])).length = (encRaw (reachRaw f na)).length := by
          simp [h, encRaws]
        rw [hS, e1]; omega
      rw [encRaw_length] at this
      simp only [reachRaw] at this
      split at this <;> omega
    · right; rfl
  have huv : (unreachValue f nw).length < 65536 ∨ lw.isEmpty = true := by
    cases h : lw.isEmpty
    · left
      have : (encRaw (unreachRaw f nw)).length ≤ (encRaws (mpRaws f la lw na nw ++ raws)).length := by
        have e1 : (encRaws (if lw.isEmpty then [] else [unreachRaw f nw])).length = (encRaw (unreachRaw f nw)).length := by
          simp [h, encRaws]
        rw [hS, e1]; omega
      rw [encRaw_length] at this
      simp only [unreachRaw] at this
      split at this <;> omega
    · right; rfl
  have hA : optAttr (reachAttr f ap) b.ann = .ok (encRaws (if la.isEmpty then [] else [reachRaw f na])) := by
    rw [hba]
    cases h : la.isEmpty
    · rcases hrv with hrv | hrv
      · simp [optAttr, ra2 hrv, encRaws]
      · simp [h] at hrv
    · simp [optAttr, encRaws]
  have hW : optAttr (unreachAttr f ap) b.wd = .ok (encRaws (if lw.isEmpty then [] else [unreachRaw f nw])) := by
    rw [hbw]
    cases h : lw.isEmpty
    · rcases huv with huv | huv
      · simp [optAttr, ru2 huv, encRaws]
      · simp [h] at huv
    · simp [optAttr, encRaws]
  -- `finish`
  have hSeq : encRaws (if la.isEmpty then [] else [reachRaw f na]) ++
      (encRaws (if lw.isEmpty then [] else [unreachRaw f nw]) ++ encRaws raws) = encRaws (mpRaws f la lw na nw ++ raws) := by
    simp only [mpRaws, encRaws, List.map_append, List.flatten_append, List.append_assoc]
  have hfin : nlFinish f ap b = .ok (frame [] (encRaws (mpRaws f la lw na nw ++ raws)) []) := by
    have h1 : ¬ (23 + (encRaws (mpRaws f la lw na nw ++ raws)).length > 65535) := by omega
    have h2 : (encRaws raws).length + (encRaws (if la.isEmpty then [] else [reachRaw f na])).length +
        (encRaws (if lw.isEmpty then [] else [unreachRaw f nw])).length = (encRaws (mpRaws f la lw na nw ++ raws)).length := by
      rw [hS]; omega
    have h3 : ¬ ((encRaws (mpRaws f la lw na nw ++ raws)).length > 65535) := by omega
    simp only [nlFinish, hlen, hcalc, h1, ↓reduceIte, hAlen, hWlen, h2, h3, hA, hW, henc, hSeq, frame_nil]
  -- the list of raw attributes written
  let L := mpRaws f la lw na nw ++ raws
  have hszL : 23 + (encRaws L).length ≤ 4096 := hsz
  have hLwf : ∀ a ∈ L, a.wf = true := by
    intro a ha
    rcases List.mem_append.mp ha with h | h
    · simp only [mpRaws, List.mem_append] at h
      rcases h with h | h
      · cases hl : la.isEmpty
        · simp only [hl, Bool.false_eq_true, ↓reduceIte, List.mem_singleton] at h
          subst h
          rcases hrv with hrv | hrv
          · exact mp_wf 14 _ hrv
          · simp [hl] at hrv
        · simp [hl] at h
      · cases hl : lw.isEmpty
        · simp only [hl, Bool.false_eq_true, ↓reduceIte, List.mem_singleton] at h
          subst h
          rcases huv with huv | huv
          · exact mp_wf 15 _ huv
          · simp [hl] at huv
        · simp [hl] at h
    · exact hwf a h
  have hLmp : MpOk L := by
    intro a ha
    rcases List.mem_append.mp ha with h | h
    · simp only [mpRaws, List.mem_append] at h
      rcases h with h | h
      · cases hl : la.isEmpty
        · simp only [hl, Bool.false_eq_true, ↓reduceIte, List.mem_singleton] at h
          subst h
          refine ⟨fun _ => ⟨?_, ?_⟩, fun h15 => ?_⟩
          · simp only [reachRaw, reachValue_length]; omega
          · simp [reachRaw, afiSafi_reach]
          · simp [reachRaw] at h15
        · simp [hl] at h
      · cases hl : lw.isEmpty
        · simp only [hl, Bool.false_eq_true, ↓reduceIte, List.mem_singleton] at h
          subst h
          refine ⟨fun h14 => ?_, fun _ => ?_⟩
          · simp [unreachRaw] at h14
          · simp [unreachRaw, afiSafi_unreach]
        · simp [hl] at h
    · exact ⟨fun h14 => absurd h14 (hnomp a h).1, fun h15 => absurd h15 (hnomp a h).2⟩
  have hwalk := attrsWalk_enc L hLwf (encRaws L).length (encRaws_length_ge L)
  have hscan := mpScan_enc L hLwf hLmp (encRaws L).length none none (encRaws_length_ge L)
  have hparse := Raw.sections_decoded cfg [] (encRaws L) [] [] _ _ (by simp; omega)
    (convValidate_nil _) (convValidate_nil _) hwalk hscan
  simp only [List.append_nil] at hparse
  have hrep_nil : ∀ (l : List (Nat × f.Val)), l.isEmpty = true → reportNlris f ap l = [] := by
    intro l hl
    have : l = [] := List.isEmpty_iff.mp hl
    subst this; cases ap <;> rfl
  have hreach : ∀ (m' : Msg), m'.attrs = encRaws L → m'.ann = [] →
      m'.ppi.mpReach = (Ppi.ofCfg cfg (lastMp 14 L none) none).mpReach →
      annView m' f ap = reportNlris f ap la ∧ m'.announcements = .ok (reportNlris f ap la, true) := by
    intro m' hm hann hflag
    cases h : la.isEmpty
    · have hfirst : firstWith 14 L = some (reachRaw f na) := by
        simp [L, mpRaws, h, firstWith, reachRaw]
      have huniq : ∀ x ∈ L, x.tc.toNat = 14 → x = reachRaw f na := by
        intro x hx h14
        simp only [L, mpRaws, h, Bool.false_eq_true, ↓reduceIte, List.mem_append, List.mem_singleton] at hx
        rcases hx with (hx | hx) | hx
        · exact hx
        · cases h2 : lw.isEmpty
          · simp only [h2, Bool.false_eq_true, ↓reduceIte, List.mem_singleton] at hx
            subst hx; simp [unreachRaw] at h14
          · simp [h2] at hx
        · exact absurd h14 (hnomp x hx).1
      have hflag' : m'.ppi.mpReach = ap := by
        rw [hflag, Raw.mp_flag_of_unique 14 L _ huniq hfirst]
        simp only [reachRaw, afiSafi_reach, Option.map_some, Ppi.ofCfg, hap]
      obtain ⟨b', hb1, hb2⟩ := Raw.mp_reach_reported m' L hm hLwf _ hfirst f (defaultNextHop f) (defaultNextHop_small f) la
        (by rw [hflag']; exact hla)
      rw [hflag'] at hb1 hb2
      rw [hna] at hb1
      cases hb1
      obtain ⟨h1, h2, h3⟩ := hb2 rfl
      refine ⟨by simp only [annView, h3 (.inr hann)], ?_⟩
      simp only [Msg.announcements, h1, itemsOfOpt, h2, Msg.convAnn, hann, convItems_nil, List.append_nil, Bool.and_true]
    · have hfirst : firstWith 14 L = none := by
        apply firstWith_none
        intro a ha
        simp only [L, mpRaws, h, ↓reduceIte, List.nil_append, List.mem_append] at ha
        rcases ha with ha | ha
        · cases h2 : lw.isEmpty
          · simp only [h2, Bool.false_eq_true, ↓reduceIte, List.mem_singleton] at ha
            subst ha; simp [unreachRaw]
          · simp [h2] at ha
        · exact (hnomp a ha).1
      obtain ⟨h1, h2⟩ := view_reach_none m' L hm hLwf f ap hfirst hann
      rw [hrep_nil la h]
      exact ⟨by simp only [annView, h1], h2⟩
  have hunreach : ∀ (m' : Msg), m'.attrs = encRaws L → m'.wd = [] →
      m'.ppi.mpUnreach = (Ppi.ofCfg cfg none (lastMp 15 L none)).mpUnreach →
      wdView m' f ap = reportNlris f ap lw ∧ m'.withdrawals = .ok (reportNlris f ap lw, true) := by
    intro m' hm hwd hflag
    cases h : lw.isEmpty
    · have hfirst : firstWith 15 L = some (unreachRaw f nw) := by
        cases h1 : la.isEmpty <;> simp [L, mpRaws, h, h1, firstWith, reachRaw, unreachRaw]
      have huniq : ∀ x ∈ L, x.tc.toNat = 15 → x = unreachRaw f nw := by
        intro x hx h15
        simp only [L, mpRaws, h, Bool.false_eq_true, ↓reduceIte, List.mem_append, List.mem_singleton] at hx
        rcases hx with (hx | hx) | hx
        · cases h2 : la.isEmpty
          · simp only [h2, Bool.false_eq_true, ↓reduceIte, List.mem_singleton] at hx
            subst hx; simp [reachRaw] at h15
          · simp [h2] at hx
        · exact hx
        · exact absurd h15 (hnomp x hx).2
      have hflag' : m'.ppi.mpUnreach = ap := by
        rw [hflag, Raw.mp_flag_of_unique 15 L _ huniq hfirst]
        simp only [unreachRaw, afiSafi_unreach, Option.map_some, Ppi.ofCfg, hap]
      obtain ⟨b', hb1, hb2⟩ := Raw.mp_unreach_reported m' L hm hLwf _ hfirst f lw (by rw [hflag']; exact hlw)
      rw [hflag'] at hb1 hb2
      rw [hnw] at hb1
      cases hb1
      obtain ⟨h1, h2, h3⟩ := hb2 rfl
      refine ⟨by simp only [wdView, h3 (.inr hwd)], ?_⟩
      simp only [Msg.withdrawals, h1, itemsOfOpt, h2, Msg.convWd, hwd, convItems_nil, List.append_nil, Bool.and_true]
    · have hfirst : firstWith 15 L = none := by
        apply firstWith_none
        intro a ha
        simp only [L, mpRaws, h, ↓reduceIte, List.append_nil, List.mem_append] at ha
        rcases ha with ha | ha
        · cases h2 : la.isEmpty
          · simp only [h2, Bool.false_eq_true, ↓reduceIte, List.mem_singleton] at ha
            subst ha; simp [reachRaw]
          · simp [h2] at ha
        · exact (hnomp a ha).2
      obtain ⟨h1, h2⟩ := view_unreach_none m' L hm hLwf f ap hfirst hwd
      rw [hrep_nil lw h]
      exact ⟨by simp only [wdView, h1], h2⟩
  refine ⟨_, _, na, nw, ?_, hparse, rfl, rfl, ?_, ?_, ?_, ?_, rfl, rfl⟩
  · have hv : nlIsValid b = true := by
      unfold nlIsValid
      rw [hba, hbw]
      cases h1 : la.isEmpty <;> cases h2 : lw.isEmpty <;> simp_all
    have hnl : ¬ (23 + (encRaws (mpRaws f la lw na nw ++ raws)).length > MAX_PDU) := by simp only [MAX_PDU]; omega
    have hparse' : parseUpdate cfg (frame [] (encRaws (mpRaws f la lw na nw ++ raws)) []) = _ := hparse
    simp only [nlIntoMessage, hv, Bool.not_true, Bool.false_eq_true, ↓reduceIte, hlen, hcalc, hnl, hfin, hparse']
    rfl
  · exact (hreach _ rfl rfl rfl).1
  · exact (hunreach _ rfl rfl rfl).1
  · exact (hreach _ rfl rfl rfl).2
  · exact (hunreach _ rfl rfl rfl).2

end Rc.Reenc
