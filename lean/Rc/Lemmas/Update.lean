/-
Lemmas about the UPDATE model (Rc/Model/Update.lean) used by C01 and C02:
bounded collection of iterators, progress and totality of the 26 NLRI parsers
(missing from Rc/Lemmas/Nlri.lean), the `UncheckedPathAttributes` walk, the
attribute iterator, community iterators.
-/
import Rc.Model.Update
import Rc.Lemmas.Nlri
import Rc.Lemmas.Attr

namespace Rc.Upd
open Rc Rc.Nlri Rc.Attr Rc.Pfx

/-! ### `collect` -/

section collect
variable {σ ι : Type} (next : σ → Option (ι × σ)) (μ : σ → Nat)

/-- an iterator whose every step decreases a measure ends within that many steps -/
theorem collect_ended (hμ : ∀ s i s', next s = some (i, s') → μ s' < μ s) :
    ∀ (fuel : Nat) (s : σ), μ s ≤ fuel → (collect next fuel s).2 = true := by
  intro fuel
  induction fuel with
  | zero =>
    intro s h
    simp only [collect]
    cases hn : next s with
    | none => rfl
    | some p => have := hμ s p.1 p.2 hn; omega
  | succ f ih =>
    intro s h
    simp only [collect]
    cases hn : next s with
    | none => rfl
    | some p =>
      have := hμ s p.1 p.2 hn
      simpa using ih p.2 (by omega)

/-- ... and yields at most that many items -/
theorem collect_length (hμ : ∀ s i s', next s = some (i, s') → μ s' < μ s) :
    ∀ (fuel : Nat) (s : σ), (collect next fuel s).1.length ≤ μ s := by
  intro fuel
  induction fuel with
  | zero => intro s; simp [collect]
  | succ f ih =>
    intro s
    simp only [collect]
    cases hn : next s with
    | none => simp
    | some p =>
      have := hμ s p.1 p.2 hn
      have := ih p.2
      simp only [List.length_cons]
      omega

/-- more fuel than the measure changes nothing (`collect_fuel_enough`) -/
theorem collect_fuel_enough (hμ : ∀ s i s', next s = some (i, s') → μ s' < μ s) :
    ∀ (f f' : Nat) (s : σ), μ s ≤ f → μ s ≤ f' → collect next f s = collect next f' s := by
  intro f
  induction f with
  | zero =>
    intro f' s h _
    have hn : next s = none := by
      cases hn : next s with
      | none => rfl
      | some p => have := hμ s p.1 p.2 hn; omega
    cases f' <;> simp [collect, hn]
  | succ f ih =>
    intro f' s h h'
    cases hn : next s with
    | none => cases f' <;> simp [collect, hn]
    | some p =>
      have hlt := hμ s p.1 p.2 hn
      match f', h' with
      | 0, h' => omega
      | g + 1, h' =>
        simp only [collect, hn]
        rw [ih g p.2 (by omega) (by omega)]

end collect

/-! ### the NLRI parsers make progress and never panic -/

/-- a successful parse consumes at least one octet -/
def Progress {α : Type} (c : Codec α) : Prop :=
  ∀ bs n r, c.dec bs = .ok (n, r) → r.length < bs.length

/-- the parser returns `Ok` or `Err` on every input -/
def NoPanic {α : Type} (c : Codec α) : Prop := ∀ bs, c.dec bs ≠ .panic

theorem parseBody_length {v6 : Bool} {bits : Nat} {bs : Bytes} {p : Pfx} {r : Bytes}
    (h : parseBody v6 bits bs = .ok (p, r)) : r.length ≤ bs.length := by
  unfold parseBody at h
  split at h
  · cases h
  · rename_i a r' ht
    split at h
    · cases h
    · simp only [Outcome.ok.injEq, Prod.mk.injEq] at h
      obtain ⟨_, rfl⟩ := h
      exact takeN_some_length ht

theorem parseBody_noPanic (v6 : Bool) (bits : Nat) (bs : Bytes) : parseBody v6 bits bs ≠ .panic := by
  unfold parseBody
  split
  · simp
  · split <;> simp

theorem parseForLen_length {v6 : Bool} {bits : Nat} {bs : Bytes} {p : Pfx} {r : Bytes}
    (h : parseForLen v6 bits bs = .ok (p, r)) : r.length ≤ bs.length := by
  unfold parseForLen at h
  split at h
  · split at h <;> cases h
  · exact parseBody_length h

theorem parseForLen_noPanic (v6 : Bool) (bits : Nat) (bs : Bytes) : parseForLen v6 bits bs ≠ .panic := by
  unfold parseForLen
  split
  · simp [f2Fixed]
  · exact parseBody_noPanic _ _ _

theorem parseLabels_length {x l r : Bytes} (h : parseLabels x = some (l, r)) : r.length ≤ x.length := by
  obtain ⟨_, rfl⟩ := parseLabels_exact x l r h
  simp

theorem rd16_length {bs r : Bytes} {n : Nat} (h : rd16 bs = some (n, r)) : bs.length = r.length + 2 := by
  match bs, h with
  | a :: b :: t, h => simp [rd16] at h; obtain ⟨_, rfl⟩ := h; simp

theorem rd32_length {bs r : Bytes} {n : Nat} (h : rd32 bs = some (n, r)) : bs.length = r.length + 4 := by
  match bs, h with
  | a :: b :: c :: d :: t, h => simp [rd32] at h; obtain ⟨_, rfl⟩ := h; simp

theorem pfx_progress (v6 : Bool) : Progress (pfxCodec v6) := by
  intro bs n r h
  simp only [pfxCodec, Pfx.parse] at h
  split at h
  · cases h
  · unfold parseForLenChecked at h
    split at h
    · cases h
    · have := parseBody_length h
      simp; omega

theorem pfx_noPanic (v6 : Bool) : NoPanic (pfxCodec v6) := by
  intro bs
  simp only [pfxCodec, Pfx.parse]
  split
  · simp
  · unfold parseForLenChecked
    split
    · simp
    · exact parseBody_noPanic _ _ _

theorem mpls_progress (v6 : Bool) : Progress (mplsCodec v6) := by
  intro bs n r h
  simp only [mplsCodec, decMpls] at h
  split at h
  · cases h
  · split at h
    · cases h
    · rename_i ls r1 hl
      have h1 := parseLabels_length hl
      split at h
      · cases h
      · split at h
        · cases h
        · split at h
          · rename_i p r2 hp
            simp only [Outcome.ok.injEq, Prod.mk.injEq] at h
            obtain ⟨_, rfl⟩ := h
            have := parseForLen_length hp
            simp; omega
          · cases h
          · cases h

theorem mpls_noPanic (v6 : Bool) : NoPanic (mplsCodec v6) := by
  intro bs
  simp only [mplsCodec, decMpls]
  split
  · simp
  · split
    · simp
    · split
      · simp
      · split
        · simp
        · split
          · simp
          · simp
          · rename_i hp; exact absurd hp (parseForLen_noPanic _ _ _)

theorem vpn_progress (v6 : Bool) : Progress (vpnCodec v6) := by
  intro bs n r h
  simp only [vpnCodec, decVpn] at h
  split at h
  · cases h
  · split at h
    · cases h
    · rename_i ls r1 hl
      have h1 := parseLabels_length hl
      split at h
      · cases h
      · split at h
        · cases h
        · split at h
          · cases h
          · rename_i rd r2 hrd
            have h2 := takeN_some_length hrd
            split at h
            · rename_i p r3 hp
              simp only [Outcome.ok.injEq, Prod.mk.injEq] at h
              obtain ⟨_, rfl⟩ := h
              have := parseForLen_length hp
              simp; omega
            · cases h
            · cases h

theorem vpn_noPanic (v6 : Bool) : NoPanic (vpnCodec v6) := by
  intro bs
  simp only [vpnCodec, decVpn]
  split
  · simp
  · split
    · simp
    · split
      · simp
      · split
        · simp
        · split
          · simp
          · split
            · simp
            · simp
            · rename_i hp; exact absurd hp (parseForLen_noPanic _ _ _)

theorem rt_progress : Progress rtCodec := by
  intro bs n r h
  simp only [rtCodec, decRt] at h
  split at h
  · cases h
  · split at h
    · cases h
    · rename_i raw r1 ht
      simp only [Outcome.ok.injEq, Prod.mk.injEq] at h
      obtain ⟨_, rfl⟩ := h
      have := takeN_some_length ht
      simp; omega

theorem rt_noPanic : NoPanic rtCodec := by
  intro bs
  simp only [rtCodec, decRt]
  split
  · simp
  · split <;> simp

theorem fs_progress (v6 : Bool) : Progress (fsCodec v6) := by
  intro bs n r h
  simp only [fsCodec, decFs] at h
  split at h
  · cases h
  · rename_i l1 r0
    split at h
    · cases h
    · rename_i len r' hhdr
      have hr' : r'.length ≤ r0.length := by
        split at hhdr
        · split at hhdr
          · cases hhdr
          · simp only [Option.some.injEq, Prod.mk.injEq] at hhdr
            obtain ⟨_, rfl⟩ := hhdr
            simp
        · simp only [Option.some.injEq, Prod.mk.injEq] at hhdr
          obtain ⟨_, rfl⟩ := hhdr
          simp
      split at h
      · cases h
      · split at h
        · cases h
        · simp only [Outcome.ok.injEq, Prod.mk.injEq] at h
          obtain ⟨_, rfl⟩ := h
          simp; omega

theorem fs_noPanic (v6 : Bool) : NoPanic (fsCodec v6) := by
  intro bs
  simp only [fsCodec, decFs]
  split
  · simp
  · split
    · simp
    · split
      · simp
      · split <;> simp

theorem vpls_progress : Progress vplsCodec := by
  intro bs n r h
  simp only [vplsCodec, decVpls] at h
  split at h
  · cases h
  · rename_i _ r0 h0
    have := rd16_length h0
    split at h
    · cases h
    · rename_i rd r1 hrd
      have := takeN_some_length hrd
      split at h
      · cases h
      · rename_i _ r2 h1
        have := rd16_length h1
        split at h
        · cases h
        · rename_i _ r3 h2
          have := rd16_length h2
          split at h
          · cases h
          · rename_i _ r4 h3
            have := rd16_length h3
            split at h
            · simp only [Outcome.ok.injEq, Prod.mk.injEq] at h
              obtain ⟨_, rfl⟩ := h
              simp at *; omega
            · cases h

theorem vpls_noPanic : NoPanic vplsCodec := by
  intro bs
  simp only [vplsCodec, decVpls]
  repeat' split
  all_goals simp

theorem evpn_progress : Progress evpnCodec := by
  intro bs n r h
  simp only [evpnCodec, decEvpn] at h
  split at h
  · split at h
    · cases h
    · rename_i raw r' ht
      simp only [Outcome.ok.injEq, Prod.mk.injEq] at h
      obtain ⟨_, rfl⟩ := h
      have := takeN_some_length ht
      simp; omega
  · cases h

theorem evpn_noPanic : NoPanic evpnCodec := by
  intro bs
  simp only [evpnCodec, decEvpn]
  split
  · split <;> simp
  · simp

theorem codec_progress (f : Fam) : Progress (codec f) := by
  cases f
  case v4u => exact pfx_progress false
  case v4m => exact pfx_progress false
  case v6u => exact pfx_progress true
  case v6m => exact pfx_progress true
  case v4mpls => exact mpls_progress false
  case v6mpls => exact mpls_progress true
  case v4vpn => exact vpn_progress false
  case v6vpn => exact vpn_progress true
  case v4rt => exact rt_progress
  case v4fs => exact fs_progress false
  case v6fs => exact fs_progress true
  case vpls => exact vpls_progress
  case evpn => exact evpn_progress

theorem codec_noPanic (f : Fam) : NoPanic (codec f) := by
  cases f
  case v4u => exact pfx_noPanic false
  case v4m => exact pfx_noPanic false
  case v6u => exact pfx_noPanic true
  case v6m => exact pfx_noPanic true
  case v4mpls => exact mpls_noPanic false
  case v6mpls => exact mpls_noPanic true
  case v4vpn => exact vpn_noPanic false
  case v6vpn => exact vpn_noPanic true
  case v4rt => exact rt_noPanic
  case v4fs => exact fs_noPanic false
  case v6fs => exact fs_noPanic true
  case vpls => exact vpls_noPanic
  case evpn => exact evpn_noPanic

theorem addpath_progress {α : Type} {c : Codec α} (h : Progress c) : Progress c.addpath := by
  intro bs n r hd
  simp only [Codec.addpath] at hd
  split at hd
  · cases hd
  · rename_i pid r0 hrd
    have := rd32_length hrd
    split at hd
    · rename_i m r1 hdec
      simp only [Outcome.ok.injEq, Prod.mk.injEq] at hd
      obtain ⟨_, rfl⟩ := hd
      have := h _ _ _ hdec
      omega
    · cases hd
    · cases hd

theorem addpath_noPanic {α : Type} {c : Codec α} (h : NoPanic c) : NoPanic c.addpath := by
  intro bs
  simp only [Codec.addpath]
  split
  · simp
  · split
    · simp
    · simp
    · rename_i hp; exact absurd hp (h _)

theorem codecAp_progress (f : Fam) : Progress (codecAp f) := addpath_progress (codec_progress f)
theorem codecAp_noPanic (f : Fam) : NoPanic (codecAp f) := addpath_noPanic (codec_noPanic f)

/-! ### `NlriIter` -/

theorem nlriNext_measure {α : Type} {c : Codec α} (hp : Progress c) :
    ∀ (s : Bytes) (i : Outcome α) (s' : Bytes), nlriNext c s = some (i, s') → s'.length < s.length := by
  intro s i s' h
  unfold nlriNext at h
  split at h
  · cases h
  · rename_i b t
    split at h
    · rename_i n r hd
      simp only [Option.some.injEq, Prod.mk.injEq] at h
      obtain ⟨_, rfl⟩ := h
      exact hp _ _ _ hd
    · simp only [Option.some.injEq, Prod.mk.injEq] at h
      obtain ⟨_, rfl⟩ := h
      simp
    · simp only [Option.some.injEq, Prod.mk.injEq] at h
      obtain ⟨_, rfl⟩ := h
      simp

/-- `true` for `Ok` items -/
def isOkItem {α : Type} : Outcome α → Bool
  | .ok _ => true
  | _ => false

/-- an item that is not `Ok` is the last one -/
def ErrLast {α : Type} : List (Outcome α) → Prop
  | [] => True
  | [_] => True
  | x :: y :: r => isOkItem x = true ∧ ErrLast (y :: r)

theorem errLast_cons_ok {α : Type} (a : α) (l : List (Outcome α)) (h : ErrLast l) : ErrLast (.ok a :: l) := by
  cases l with
  | nil => trivial
  | cons y r => exact ⟨rfl, h⟩

theorem nlriNext_nil {α : Type} (c : Codec α) : nlriNext c [] = none := rfl

theorem nlri_collect_errLast {α : Type} (c : Codec α) :
    ∀ (f : Nat) (bs : Bytes), ErrLast (collect (nlriNext c) f bs).1 := by
  intro f
  induction f with
  | zero => intro bs; simp [collect, ErrLast]
  | succ f ih =>
    intro bs
    simp only [collect]
    cases hn : nlriNext c bs with
    | none => simp [ErrLast]
    | some p =>
      obtain ⟨i, s'⟩ := p
      simp only
      unfold nlriNext at hn
      split at hn
      · cases hn
      · split at hn
        · simp only [Option.some.injEq, Prod.mk.injEq] at hn
          obtain ⟨rfl, rfl⟩ := hn
          exact errLast_cons_ok _ _ (ih _)
        · simp only [Option.some.injEq, Prod.mk.injEq] at hn
          obtain ⟨rfl, rfl⟩ := hn
          cases f <;> simp [collect, nlriNext_nil, ErrLast]
        · simp only [Option.some.injEq, Prod.mk.injEq] at hn
          obtain ⟨rfl, rfl⟩ := hn
          cases f <;> simp [collect, nlriNext_nil, ErrLast]

theorem nlri_collect_noPanic {α : Type} {c : Codec α} (hn : NoPanic c) :
    ∀ (f : Nat) (bs : Bytes), ∀ x ∈ (collect (nlriNext c) f bs).1, x ≠ .panic := by
  intro f
  induction f with
  | zero => intro bs x hx; simp [collect] at hx
  | succ f ih =>
    intro bs x hx
    simp only [collect] at hx
    cases hnx : nlriNext c bs with
    | none => simp [hnx] at hx
    | some p =>
      obtain ⟨i, s'⟩ := p
      simp only [hnx, List.mem_cons] at hx
      rcases hx with rfl | hx
      · unfold nlriNext at hnx
        split at hnx
        · cases hnx
        · split at hnx
          · simp only [Option.some.injEq, Prod.mk.injEq] at hnx; obtain ⟨rfl, _⟩ := hnx; simp
          · simp only [Option.some.injEq, Prod.mk.injEq] at hnx; obtain ⟨rfl, _⟩ := hnx; simp
          · rename_i hp; exact absurd hp (hn _)
      · exact ih _ x hx

theorem nlriItems_ended {α : Type} {c : Codec α} (hp : Progress c) (bs : Bytes) : (nlriItems c bs).2 = true :=
  collect_ended (nlriNext c) List.length (nlriNext_measure hp) _ bs (by omega)

theorem nlriItems_length {α : Type} {c : Codec α} (hp : Progress c) (bs : Bytes) :
    (nlriItems c bs).1.length ≤ bs.length :=
  collect_length (nlriNext c) List.length (nlriNext_measure hp) _ bs

theorem errLast_map {α β : Type} (g : α → β) : ∀ (l : List (Outcome α)), ErrLast l → ErrLast (l.map (mapO g))
  | [], _ => trivial
  | [_], _ => trivial
  | x :: y :: r, h => by
    refine ⟨?_, errLast_map g (y :: r) h.2⟩
    have := h.1
    cases x <;> simp_all [isOkItem, mapO]

theorem mapO_ne_panic {α β : Type} (g : α → β) (x : Outcome α) (h : x ≠ .panic) : mapO g x ≠ .panic := by
  cases x <;> simp_all [mapO]

theorem famItems_spec (f : Fam) (ap : Bool) (bs : Bytes) :
    (famItems f ap bs).2 = true ∧ (famItems f ap bs).1.length ≤ bs.length ∧
      ErrLast (famItems f ap bs).1 ∧ ∀ x ∈ (famItems f ap bs).1, x ≠ .panic := by
  unfold famItems
  cases ap
  · simp only [Bool.false_eq_true, ↓reduceIte]
    refine ⟨nlriItems_ended (codec_progress f) bs, by simpa using nlriItems_length (codec_progress f) bs,
      errLast_map _ _ (nlri_collect_errLast _ _ _), ?_⟩
    intro x hx
    simp only [List.mem_map] at hx
    obtain ⟨y, hy, rfl⟩ := hx
    exact mapO_ne_panic _ _ (nlri_collect_noPanic (codec_noPanic f) _ _ y hy)
  · simp only [↓reduceIte]
    refine ⟨nlriItems_ended (codecAp_progress f) bs, by simpa using nlriItems_length (codecAp_progress f) bs,
      errLast_map _ _ (nlri_collect_errLast _ _ _), ?_⟩
    intro x hx
    simp only [List.mem_map] at hx
    obtain ⟨y, hy, rfl⟩ := hx
    exact mapO_ne_panic _ _ (nlri_collect_noPanic (codecAp_noPanic f) _ _ y hy)

theorem enumItems_spec (ty : NlriTy) (bs : Bytes) :
    (enumItems ty bs).2 = true ∧ (enumItems ty bs).1.length ≤ bs.length ∧
      ErrLast (enumItems ty bs).1 ∧ ∀ x ∈ (enumItems ty bs).1, x ≠ .panic := by
  cases ty with
  | known f ap => exact famItems_spec f ap bs
  | unsupported a s => simp [enumItems, ErrLast]

/-- an NLRI iterator over a non-empty section yields at least one item (an
`Ok` or the `Err` it stops with); over an empty one it yields nothing -/
theorem nlriItems_nil_iff {α : Type} (c : Codec α) (bs : Bytes) : (nlriItems c bs).1 = [] ↔ bs = [] := by
  cases bs with
  | nil => simp [nlriItems, collect, nlriNext]
  | cons x r =>
    simp only [nlriItems, List.length_cons, collect, nlriNext]
    cases c.dec (x :: r) <;> simp

theorem famItems_nil_iff (f : Fam) (ap : Bool) (bs : Bytes) : (famItems f ap bs).1 = [] ↔ bs = [] := by
  unfold famItems
  cases ap
  · simpa using nlriItems_nil_iff (codec f) bs
  · simpa using nlriItems_nil_iff (codecAp f) bs

/-- for a supported family "the MP_UNREACH_NLRI iterator yields nothing" and
"no octets follow AFI/SAFI" are the same thing (for an unsupported one the
iterator yields nothing whatever follows) -/
theorem enumItems_known_nil_iff (f : Fam) (ap : Bool) (bs : Bytes) :
    (enumItems (.known f ap) bs).1 = [] ↔ bs = [] := famItems_nil_iff f ap bs

/-! ### validation never panics -/

theorem decAllFuel_noPanic {α : Type} {c : Codec α} (hn : NoPanic c) :
    ∀ (f : Nat) (bs : Bytes), decAllFuel c f bs ≠ .panic := by
  intro f
  induction f with
  | zero => intro bs; cases bs <;> simp [decAllFuel]
  | succ f ih =>
    intro bs
    cases bs with
    | nil => simp [decAllFuel]
    | cons b t =>
      simp only [decAllFuel]
      split
      · rename_i n r hd
        have := ih r
        split <;> simp_all
      · simp
      · rename_i hp; exact absurd hp (hn _)

theorem convValidate_noPanic (ap : Bool) (bs : Bytes) : convValidate ap bs ≠ .panic := by
  unfold convValidate nlriValidate
  cases ap
  · simp only [Bool.false_eq_true, ↓reduceIte]
    have := decAllFuel_noPanic (codec_noPanic .v4u) bs.length bs
    unfold Nlri.decAll
    split <;> simp_all
  · simp only [↓reduceIte]
    have := decAllFuel_noPanic (codecAp_noPanic .v4u) bs.length bs
    unfold Nlri.decAll
    split <;> simp_all

/-! ### `UncheckedPathAttributes` -/

/-- what `UncheckedPathAttributes::next` hands out is a complete attribute: its
accessors do not panic and agree with the header walk `splitAttr` -/
theorem takeN_eq {n : Nat} {bs a r : Bytes} (h : takeN n bs = some (a, r)) :
    a = bs.take n ∧ r = bs.drop n ∧ n ≤ bs.length := by
  unfold takeN at h
  split at h
  · simp only [Option.some.injEq, Prod.mk.injEq] at h
    obtain ⟨rfl, rfl⟩ := h
    exact ⟨rfl, rfl, by assumption⟩
  · cases h

theorem uncheckedNext_spec {bs e r : Bytes} (h : uncheckedNext bs = some (e, r)) :
    ∃ fl tc v, splitAttr bs = some (fl, tc, v, r) ∧ bs = e ++ r ∧ epaFlags e = .ok fl ∧
      epaCode e = .ok tc ∧ epaLength e = .ok v.length ∧ epaValue e = .ok v := by
  unfold uncheckedNext at h
  split at h
  · rename_i fl tc rest
    split at h
    · rename_i hext
      split at h
      · rename_i a b r0
        split at h
        · rename_i v r' ht
          simp only [Option.some.injEq, Prod.mk.injEq] at h
          obtain ⟨rfl, rfl⟩ := h
          obtain ⟨hl, hs⟩ := takeN_length ht
          refine ⟨fl, tc, v, ?_, by simp [hs], rfl, rfl, ?_, ?_⟩
          · simp only [splitAttr, hext, ↓reduceIte, rd16, ht]
          · simp only [epaLength, epaFlags, hext, ↓reduceIte, hl]
          · simp [epaValue, epaFlags, hext]
        · cases h
      · cases h
    · rename_i hext
      split at h
      · rename_i a r0
        split at h
        · rename_i v r' ht
          simp only [Option.some.injEq, Prod.mk.injEq] at h
          obtain ⟨rfl, rfl⟩ := h
          obtain ⟨hl, hs⟩ := takeN_length ht
          refine ⟨fl, tc, v, ?_, by simp [hs], rfl, rfl, ?_, ?_⟩
          · simp only [splitAttr, hext, Bool.false_eq_true, ↓reduceIte, rd8, ht]
          · simp only [epaLength, epaFlags, hext, Bool.false_eq_true, ↓reduceIte, hl]
          · simp [epaValue, epaFlags, hext]
        · cases h
      · cases h
  · cases h

theorem epaValue_length {e v : Bytes} (h : epaValue e = .ok v) : v.length ≤ e.length := by
  unfold epaValue at h
  split at h
  · split at h
    · split at h
      · simp only [Outcome.ok.injEq] at h; subst h; simp
      · cases h
    · split at h
      · simp only [Outcome.ok.injEq] at h; subst h; simp
      · cases h
  · cases h

theorem findUnchecked_spec (code : Nat) : ∀ (f : Nat) (bs : Bytes),
    findUnchecked code f bs ≠ .panic ∧ findUnchecked code f bs ≠ .err ∧
      ∀ e, findUnchecked code f bs = .ok (some e) →
        e.length ≤ bs.length ∧ ∃ v, epaValue e = .ok v ∧ v.length ≤ e.length := by
  intro f
  induction f with
  | zero => intro bs; simp [findUnchecked]
  | succ f ih =>
    intro bs
    simp only [findUnchecked]
    cases hn : uncheckedNext bs with
    | none => simp
    | some p =>
      obtain ⟨e, r⟩ := p
      obtain ⟨fl, tc, v, _, hbs, _, hc, hlen, hv⟩ := uncheckedNext_spec hn
      simp only [hc]
      have hr : r.length ≤ bs.length := by rw [hbs]; simp
      split
      · refine ⟨by simp, by simp, ?_⟩
        intro e' he'
        simp only [Outcome.ok.injEq, Option.some.injEq] at he'
        subst he'
        exact ⟨by rw [hbs]; simp, v, hv, epaValue_length hv⟩
      · obtain ⟨h1, h2, h3⟩ := ih r
        refine ⟨h1, h2, ?_⟩
        intro e' he'
        obtain ⟨h4, h5⟩ := h3 e' he'
        exact ⟨by omega, h5⟩

theorem mpScan_noPanic : ∀ (f : Nat) (bs : Bytes) (r u : Option (Nat × Nat)), mpScan f bs r u ≠ .panic := by
  intro f
  induction f with
  | zero => intro bs r u; simp [mpScan]
  | succ f ih =>
    intro bs r u
    simp only [mpScan]
    cases hn : uncheckedNext bs with
    | none => simp
    | some p =>
      obtain ⟨e, rest⟩ := p
      obtain ⟨fl, tc, v, _, _, _, hc, hlen, hv⟩ := uncheckedNext_spec hn
      simp only [hc, hlen, hv]
      split
      · split
        · simp
        · split
          · exact ih _ _ _
          · simp
      · split
        · split
          · exact ih _ _ _
          · simp
        · exact ih _ _ _

/-! ### `PathAttributes` -/

theorem paNext_measure (four : Bool) :
    ∀ (s : Bytes) (i : Outcome Wire) (s' : Bytes), paNext four s = some (i, s') → s'.length < s.length := by
  intro s i s' h
  unfold paNext at h
  split at h
  · cases h
  · simp only [Option.some.injEq, Prod.mk.injEq] at h; obtain ⟨_, rfl⟩ := h; simp
  · rename_i fl tc rest
    split at h
    · split at h
      · simp only [Option.some.injEq, Prod.mk.injEq] at h; obtain ⟨_, rfl⟩ := h; simp; omega
      · rename_i n r hrd
        have := rd16_length hrd
        split at h
        · simp only [Option.some.injEq, Prod.mk.injEq] at h; obtain ⟨_, rfl⟩ := h; simp; omega
        · rename_i v r' ht
          have := takeN_some_length ht
          simp only [Option.some.injEq, Prod.mk.injEq] at h; obtain ⟨_, rfl⟩ := h; simp; omega
    · split at h
      · simp only [Option.some.injEq, Prod.mk.injEq] at h; obtain ⟨_, rfl⟩ := h; simp
      · rename_i l r
        split at h
        · simp only [Option.some.injEq, Prod.mk.injEq] at h; obtain ⟨_, rfl⟩ := h; simp; omega
        · rename_i v r' ht
          have := takeN_some_length ht
          simp only [Option.some.injEq, Prod.mk.injEq] at h; obtain ⟨_, rfl⟩ := h; simp; omega

/-- what the attribute iterator yields: never a panic; a typed item carries a
value its type's `validate` accepted -/
def WireOk (four : Bool) : Outcome Wire → Prop
  | .ok (.typed _ c v) => validate c four v = some true
  | .ok _ => True
  | .err => True
  | .panic => False

theorem classify_ok (four : Bool) (fl tc : UInt8) (v : Bytes) : WireOk four (.ok (classify four fl tc v)) := by
  unfold classify
  split <;> simp_all [WireOk]

theorem paNext_ok (four : Bool) {s : Bytes} {i : Outcome Wire} {s' : Bytes} (h : paNext four s = some (i, s')) :
    WireOk four i := by
  unfold paNext at h
  split at h
  · cases h
  · simp only [Option.some.injEq, Prod.mk.injEq] at h; obtain ⟨rfl, _⟩ := h; trivial
  · split at h
    · split at h
      · simp only [Option.some.injEq, Prod.mk.injEq] at h; obtain ⟨rfl, _⟩ := h; trivial
      · split at h
        · simp only [Option.some.injEq, Prod.mk.injEq] at h; obtain ⟨rfl, _⟩ := h; trivial
        · simp only [Option.some.injEq, Prod.mk.injEq] at h; obtain ⟨rfl, _⟩ := h; exact classify_ok _ _ _ _
    · split at h
      · simp only [Option.some.injEq, Prod.mk.injEq] at h; obtain ⟨rfl, _⟩ := h; trivial
      · split at h
        · simp only [Option.some.injEq, Prod.mk.injEq] at h; obtain ⟨rfl, _⟩ := h; trivial
        · simp only [Option.some.injEq, Prod.mk.injEq] at h; obtain ⟨rfl, _⟩ := h; exact classify_ok _ _ _ _

theorem pa_collect_ok (four : Bool) : ∀ (f : Nat) (bs : Bytes), ∀ x ∈ (collect (paNext four) f bs).1, WireOk four x := by
  intro f
  induction f with
  | zero => intro bs x hx; simp [collect] at hx
  | succ f ih =>
    intro bs x hx
    simp only [collect] at hx
    cases hn : paNext four bs with
    | none => simp [hn] at hx
    | some p =>
      obtain ⟨i, s'⟩ := p
      simp only [hn, List.mem_cons] at hx
      rcases hx with rfl | hx
      · exact paNext_ok four hn
      · exact ih _ x hx

theorem getAttr_mem : ∀ (items : List (Outcome Wire)) (code : Nat) (w : Wire),
    getAttr items code = some w → .ok w ∈ items ∧ w.code = code := by
  intro items
  induction items with
  | nil => intro code w h; simp [getAttr] at h
  | cons x r ih =>
    intro code w h
    cases x with
    | ok w' =>
      simp only [getAttr] at h
      split at h
      · simp only [Option.some.injEq] at h; subst h; rename_i hc; exact ⟨by simp, hc⟩
      · obtain ⟨h1, h2⟩ := ih code w h; exact ⟨by simp [h1], h2⟩
    | err => simp only [getAttr] at h; obtain ⟨h1, h2⟩ := ih code w h; exact ⟨by simp [h1], h2⟩
    | panic => simp only [getAttr] at h; obtain ⟨h1, h2⟩ := ih code w h; exact ⟨by simp [h1], h2⟩

/-- the checked iterator and the parse-time walk cut the attribute section at the same places: where
`splitAttr` finds a complete TLV, `PathAttributes::next` yields an `Ok` item and goes on after it
(whatever the ASN width the values are classified under) -/
theorem paNext_of_split (four : Bool) (bs : Bytes) (fl tc : UInt8) (v r : Bytes)
    (h : splitAttr bs = some (fl, tc, v, r)) : paNext four bs = some (.ok (classify four fl tc v), r) := by
  unfold splitAttr at h
  split at h
  · rename_i fl' tc' rest
    unfold paNext
    split at h
    · rename_i he
      simp only [he, ↓reduceIte]
      split at h
      · rename_i n r0 hr
        split at h
        · rename_i v' r' ht
          simp only [Option.some.injEq, Prod.mk.injEq] at h
          obtain ⟨rfl, rfl, rfl, rfl⟩ := h
          simp [hr, ht]
        · cases h
      · cases h
    · rename_i he
      simp only [he]
      split at h
      · rename_i n r0 hr
        split at h
        · rename_i v' r' ht
          simp only [Option.some.injEq, Prod.mk.injEq] at h
          obtain ⟨rfl, rfl, rfl, rfl⟩ := h
          cases rest with
          | nil => simp [rd8] at hr
          | cons l r1 =>
            simp only [rd8, Option.some.injEq, Prod.mk.injEq] at hr
            obtain ⟨rfl, rfl⟩ := hr
            simp [ht]
        · cases h
      · cases h
  · cases h

/-- on a section the parse-time walk accepted, every item of `path_attributes()` is `Ok` -/
theorem pa_collect_all_ok (four : Bool) : ∀ (g f : Nat) (bs : Bytes), attrsWalk f bs = .ok () →
    ∀ x ∈ (collect (paNext four) g bs).1, ∃ w, x = .ok w := by
  intro g
  induction g with
  | zero => intro f bs _ x hx; simp [collect] at hx
  | succ g ih =>
    intro f bs hw x hx
    simp only [collect] at hx
    cases hn : paNext four bs with
    | none => simp [hn] at hx
    | some p =>
      obtain ⟨i, s'⟩ := p
      simp only [hn, List.mem_cons] at hx
      have hne : bs ≠ [] := by
        rintro rfl
        simp [paNext] at hn
      cases f with
      | zero =>
        unfold attrsWalk at hw
        cases bs with
        | nil => exact absurd rfl hne
        | cons _ _ => simp at hw
      | succ f =>
        unfold attrsWalk at hw
        cases bs with
        | nil => exact absurd rfl hne
        | cons b t =>
          simp only [List.isEmpty_cons, Bool.false_eq_true, ↓reduceIte] at hw
          unfold parseWire at hw
          cases hs : splitAttr (b :: t) with
          | none => simp [hs] at hw
          | some q =>
            obtain ⟨fl, tc, v, r⟩ := q
            have hr : attrsWalk f r = .ok () := by
              cases hv : validate tc.toNat true v with
              | none => simpa [hs, hv] using hw
              | some b => cases b <;> simpa [hs, hv] using hw
            have hp := paNext_of_split four (b :: t) fl tc v r hs
            rw [hn] at hp
            simp only [Option.some.injEq, Prod.mk.injEq] at hp
            obtain ⟨rfl, rfl⟩ := hp
            rcases hx with rfl | hx
            · exact ⟨_, rfl⟩
            · exact ih f s' hr x hx

/-- the value a typed getter works on was accepted by its type's `validate`
under the message's own ASN width -/
theorem typedValue_valid (m : Msg) (code : Nat) (v : Bytes) (h : m.typedValue code = some v) :
    validate code m.ppi.four v = some true := by
  unfold Msg.typedValue at h
  split at h
  · rename_i fl c v' hg
    simp only [Option.some.injEq] at h; subst h
    obtain ⟨hm, hc⟩ := getAttr_mem _ _ _ hg
    have := pa_collect_ok m.ppi.four _ _ _ hm
    simp only [Wire.code] at hc
    subst hc
    exact this
  · cases h

/-! ### community iterators -/

theorem commNext_measure (k : Nat) (hk : 0 < k) :
    ∀ (s : Bytes) (i : Outcome Bytes) (s' : Bytes), commNext k s = some (i, s') → s'.length < s.length := by
  intro s i s' h
  unfold commNext at h
  split at h
  · cases h
  · split at h
    · rename_i c r ht
      obtain ⟨hl, hs⟩ := takeN_length ht
      simp only [Option.some.injEq, Prod.mk.injEq] at h; obtain ⟨_, rfl⟩ := h
      rw [hs]; simp; omega
    · simp only [Option.some.injEq, Prod.mk.injEq] at h; obtain ⟨_, rfl⟩ := h; simp

/-- over a value whose length is a multiple of the record size no slice is out of range -/
theorem comm_collect_noPanic (k : Nat) (hk : 0 < k) : ∀ (f : Nat) (bs : Bytes), bs.length % k = 0 →
    ∀ x ∈ (collect (commNext k) f bs).1, x ≠ .panic := by
  intro f
  induction f with
  | zero => intro bs _ x hx; simp [collect] at hx
  | succ f ih =>
    intro bs hmod x hx
    cases bs with
    | nil => simp [collect, commNext] at hx
    | cons b t =>
      have hle : k ≤ (b :: t).length := by
        have h0 : 0 < (b :: t).length := by simp
        exact Nat.le_of_dvd h0 (Nat.dvd_of_mod_eq_zero hmod)
      have ht : takeN k (b :: t) = some ((b :: t).take k, (b :: t).drop k) := by
        unfold takeN; rw [if_pos hle]
      have hnx : commNext k (b :: t) = some (.ok ((b :: t).take k), (b :: t).drop k) := by
        simp only [commNext, ht]
      simp only [collect, hnx, List.mem_cons] at hx
      rcases hx with rfl | hx
      · simp
      · refine ih _ ?_ x hx
        rw [List.length_drop]
        have hd : k ∣ (b :: t).length := Nat.dvd_of_mod_eq_zero hmod
        exact Nat.mod_eq_zero_of_dvd (Nat.dvd_sub hd (Nat.dvd_refl k))

/-! ### `collect::<Result<Vec<_>, _>>()` -/

theorem collectResult_ok {α : Type} : ∀ (l : List (Outcome α)) (v : List α),
    collectResult l = .ok v ↔ l = v.map Outcome.ok := by
  intro l
  induction l with
  | nil => intro v; cases v <;> simp [collectResult]
  | cons x r ih =>
    intro v
    cases x with
    | ok a =>
      simp only [collectResult]
      cases hr : collectResult r with
      | ok l' =>
        have := (ih l').mp hr
        cases v with
        | nil => simp
        | cons b v' =>
          simp only [Outcome.ok.injEq, List.cons.injEq, List.map_cons]
          constructor
          · rintro ⟨rfl, rfl⟩; exact ⟨rfl, this⟩
          · rintro ⟨rfl, h2⟩
            have := (ih v').mpr h2
            rw [hr] at this
            simp only [Outcome.ok.injEq] at this
            exact ⟨rfl, this⟩
      | err =>
        simp only [false_iff, reduceCtorEq]
        intro h
        cases v with
        | nil => simp at h
        | cons b v' =>
          simp only [List.map_cons, List.cons.injEq] at h
          have := (ih v').mpr h.2
          rw [hr] at this; cases this
      | panic =>
        simp only [false_iff, reduceCtorEq]
        intro h
        cases v with
        | nil => simp at h
        | cons b v' =>
          simp only [List.map_cons, List.cons.injEq] at h
          have := (ih v').mpr h.2
          rw [hr] at this; cases this
    | err => cases v <;> simp [collectResult]
    | panic => cases v <;> simp [collectResult]

theorem collectResult_err {α : Type} : ∀ (l : List (Outcome α)), (∀ x ∈ l, x ≠ .panic) →
    (collectResult l = .err ↔ Outcome.err ∈ l) ∧ collectResult l ≠ .panic := by
  intro l
  induction l with
  | nil => intro _; simp [collectResult]
  | cons x r ih =>
    intro hnp
    have ihr := ih (fun y hy => hnp y (by simp [hy]))
    cases x with
    | ok a =>
      simp only [collectResult]
      cases hr : collectResult r with
      | ok l' => simp [hr] at ihr; simp [ihr]
      | err => simp [hr] at ihr; simp [ihr]
      | panic => exact absurd hr ihr.2
    | err => simp [collectResult]
    | panic => exact absurd rfl (hnp .panic (by simp))

/-! ### what acceptance means -/

/-- inversion of `parseUpdate`: every stage an accepted message went through -/
theorem parseUpdate_ok {cfg : Cfg} {bs : Bytes} {m : Msg} (h : parseUpdate cfg bs = .ok m) :
    ∃ hl ty body wl r2 r3 al r4 r5 reach unreach r6,
      headerParse bs = .ok (hl, ty, body) ∧ 19 ≤ hl ∧ ty.toNat = 2 ∧
      rd16 body = some (wl, r2) ∧ takeN wl r2 = some (m.wd, r3) ∧
      convValidate (cfg.rx (1, 1)) m.wd = .ok () ∧
      rd16 r3 = some (al, r4) ∧ takeN al r4 = some (m.attrs, r5) ∧
      attrsWalk m.attrs.length m.attrs = .ok () ∧
      mpScan m.attrs.length m.attrs none none = .ok (reach, unreach) ∧
      2 + wl + 2 + al ≤ hl - 19 ∧ takeN (hl - 19 - (2 + wl + 2 + al)) r5 = some (m.ann, r6) ∧
      convValidate (cfg.rx (1, 1)) m.ann = .ok () ∧
      m.body = body.take (hl - 19) ∧ m.ppi = Ppi.ofCfg cfg reach unreach := by
  unfold parseUpdate at h
  split at h
  · cases h
  · cases h
  · rename_i hl ty body hh
    split at h
    · cases h
    · rename_i h19
      split at h
      · cases h
      · rename_i hty
        split at h
        · cases h
        · rename_i wl r2 h1
          split at h
          · cases h
          · rename_i wd r3 h2
            split at h
            · cases h
            · cases h
            · rename_i hv1
              split at h
              · cases h
              · rename_i al r4 h3
                split at h
                · cases h
                · rename_i attrs r5 h4
                  split at h
                  · cases h
                  · cases h
                  · rename_i hw
                    split at h
                    · cases h
                    · cases h
                    · rename_i reach unreach hs
                      split at h
                      · cases h
                      · rename_i hle
                        split at h
                        · cases h
                        · rename_i ann r6 h5
                          split at h
                          · cases h
                          · cases h
                          · rename_i hv2
                            simp only [Outcome.ok.injEq] at h
                            subst h
                            exact ⟨hl, ty, body, wl, r2, r3, al, r4, r5, reach, unreach, r6, hh, by omega,
                              by simpa using hty, h1, h2, hv1, h3, h4, hw, hs, by omega, h5, hv2, rfl, rfl⟩

end Rc.Upd
