/-
Helper lemmas for C05 (NLRI round trips): generic codec laws, closure under
the ADD-PATH wrapper and under concatenation, and the per-shape round trips.
-/
import Rc.Model.Nlri

namespace Rc.Nlri
open Rc Rc.Pfx

/-! ### prefixes -/

theorem hostZero_zero : ∀ bs : Bytes, hostZero 0 bs = true → bs = List.replicate bs.length 0 := by
  intro bs
  induction bs with
  | nil => intro _; rfl
  | cons b bs ih =>
    intro h
    unfold hostZero at h
    have h' : (b.toNat % 2 ^ 8 == 0 && hostZero 0 bs) = true := by simpa using h
    simp only [Bool.and_eq_true, beq_iff_eq] at h'
    have hb : b = 0 := by
      apply UInt8.toNat_inj.mp
      have := b.toNat_lt
      have h1 := h'.1
      simp at h1 ⊢; omega
    have := ih h'.2
    simp only [List.length_cons, List.replicate_succ, hb]
    rw [← this]

theorem hostZero_take : ∀ (addr : Bytes) (len : Nat), hostZero len addr = true →
    addr.take (bitsToBytes len) ++ List.replicate (addr.length - bitsToBytes len) 0 = addr := by
  intro addr
  induction addr with
  | nil => intro len _; simp
  | cons b bs ih =>
    intro len h
    unfold hostZero at h
    split at h
    · rename_i h8
      have hb : bitsToBytes len = bitsToBytes (len - 8) + 1 := by unfold bitsToBytes; omega
      have := ih (len - 8) h
      simp only [hb, List.take_succ_cons, List.length_cons, Nat.add_sub_add_right, List.cons_append]
      rw [this]
    · rename_i h8
      simp only [Bool.and_eq_true, beq_iff_eq] at h
      have hz := hostZero_zero bs h.2
      by_cases h0 : len = 0
      · subst h0
        have hb : b = 0 := by
          apply UInt8.toNat_inj.mp
          have := b.toNat_lt
          have h1 := h.1
          simp at h1 ⊢; omega
        simp [bitsToBytes, List.replicate_succ, hb, ← hz]
      · have hb : bitsToBytes len = 1 := by unfold bitsToBytes; omega
        simp [hb, ← hz]


theorem Pfx.wf_iff (p : Pfx) : p.wf = true ↔
    p.addr.length = addrLen p.v6 ∧ p.len ≤ 8 * addrLen p.v6 ∧ hostZero p.len p.addr = true := by
  simp [Pfx.wf, and_assoc]

theorem parseBody_compose (p : Pfx) (hw : p.wf = true) (r : Bytes) :
    parseBody p.v6 p.len (p.composeNoLen ++ r) = .ok (p, r) := by
  obtain ⟨hl, hlen, hz⟩ := (Pfx.wf_iff p).mp hw
  have hnb : bitsToBytes p.len ≤ p.addr.length := by unfold bitsToBytes; omega
  have htl : (p.addr.take (bitsToBytes p.len)).length = bitsToBytes p.len := by
    simp [List.length_take]; omega
  have hpad : pad (addrLen p.v6) (p.addr.take (bitsToBytes p.len)) = p.addr := by
    unfold pad
    rw [htl, ← hl]
    exact hostZero_take p.addr p.len hz
  unfold parseBody composeNoLen
  have ht := takeN_append (p.addr.take (bitsToBytes p.len)) r
  rw [htl] at ht
  rw [ht]
  simp only [hpad, Pfx.new, hz, ↓reduceIte]
  have : ¬ (8 * addrLen p.v6 < p.len) := by omega
  simp [this]

theorem bitsToBytes_le (p : Pfx) (hw : p.wf = true) : bitsToBytes p.len ≤ addrLen p.v6 := by
  obtain ⟨hl, hlen, hz⟩ := (Pfx.wf_iff p).mp hw
  unfold bitsToBytes; omega

theorem len_lt_256 (p : Pfx) (hw : p.wf = true) : p.len ≤ 128 := by
  obtain ⟨hl, hlen, hz⟩ := (Pfx.wf_iff p).mp hw
  unfold addrLen at hlen; split at hlen <;> omega

theorem composeNoLen_length (p : Pfx) (hw : p.wf = true) : p.composeNoLen.length = bitsToBytes p.len := by
  obtain ⟨hl, hlen, hz⟩ := (Pfx.wf_iff p).mp hw
  have hnb : bitsToBytes p.len ≤ p.addr.length := by unfold bitsToBytes; omega
  simp [composeNoLen, List.length_take]; omega


/-- What C05 asks of one codec. -/
structure Codec.Laws {α} (c : Codec α) : Prop where
  /-- the announced length is the number of octets written, for every value of the Rust type -/
  len_eq : ∀ n bs, c.inv n = true → c.enc n = .ok bs → bs.length = c.clen n
  /-- well-formed values are values of the Rust type -/
  wf_inv : ∀ n, c.wf n = true → c.inv n = true
  /-- a well-formed value is composed (no panic) into at least one octet -/
  enc_ok : ∀ n, c.wf n = true → ∃ bs, c.enc n = .ok bs ∧ bs ≠ []
  /-- decoding the composed octets, followed by anything, gives the value back and leaves exactly the rest -/
  roundtrip : ∀ n bs r, c.wf n = true → c.enc n = .ok bs → c.dec (bs ++ r) = .ok (n, r)

/-! ### ADD-PATH wrapper -/


theorem Codec.Laws.addpath {α} {c : Codec α} (h : c.Laws) : c.addpath.Laws where
  len_eq := by
    intro n bs hi he
    simp only [Codec.addpath] at hi he ⊢
    split at he <;> try cases he
    rename_i e he'
    have := h.len_eq _ _ hi he'
    simp [this]
  wf_inv := by
    intro n hw
    simp only [Codec.addpath, Bool.and_eq_true] at hw ⊢
    exact h.wf_inv _ hw.2
  enc_ok := by
    intro n hw
    simp only [Codec.addpath, Bool.and_eq_true] at hw ⊢
    obtain ⟨bs, hb, _⟩ := h.enc_ok _ hw.2
    refine ⟨be32 n.1 ++ bs, by simp [hb], by simp [be32]⟩
  roundtrip := by
    intro n bs r hw he
    simp only [Codec.addpath, Bool.and_eq_true, decide_eq_true_eq] at hw he ⊢
    split at he <;> try cases he
    rename_i e he'
    have := h.roundtrip _ _ r hw.2 he'
    rw [List.append_assoc, rd32_be32 _ hw.1]
    simp [this]

/-! ### concatenations (`NlriIter`) -/

theorem encAll_cons_ok {α} (c : Codec α) (n : α) (ns : List α) (a b : Bytes)
    (ha : c.enc n = .ok a) (hb : encAll c ns = .ok b) : encAll c (n :: ns) = .ok (a ++ b) := by
  simp [encAll, ha, hb]

theorem decAllFuel_encAll {α} {c : Codec α} (h : c.Laws) :
    ∀ ns : List α, (∀ n ∈ ns, c.wf n = true) →
      ∃ bs, encAll c ns = .ok bs ∧
        ∀ fuel, bs.length ≤ fuel → decAllFuel c fuel bs = .ok (ns, true) := by
  intro ns
  induction ns with
  | nil => intro _; exact ⟨[], rfl, by intro fuel _; cases fuel <;> rfl⟩
  | cons n ns ih =>
    intro hw
    obtain ⟨a, ha, hne⟩ := h.enc_ok n (hw n (by simp))
    obtain ⟨b, hb, hdec⟩ := ih (fun m hm => hw m (by simp [hm]))
    refine ⟨a ++ b, encAll_cons_ok c n ns a b ha hb, ?_⟩
    intro fuel hf
    have hrt := h.roundtrip n a b (hw n (by simp)) ha
    match a, hne, fuel with
    | x :: a', _, 0 => simp at hf
    | x :: a', _, f + 1 =>
      have hfb : b.length ≤ f := by simp at hf; omega
      simp only [List.cons_append] at hrt ⊢
      simp only [decAllFuel, hrt, hdec f hfb]

/-- `list_roundtrip` for one codec: a concatenation of composed well-formed
values decodes to exactly the original sequence and ends cleanly. -/
theorem Codec.Laws.list_roundtrip {α} {c : Codec α} (h : c.Laws) (ns : List α)
    (hw : ∀ n ∈ ns, c.wf n = true) :
    ∃ bs, encAll c ns = .ok bs ∧ decAll c bs = .ok (ns, true) := by
  obtain ⟨bs, hb, hd⟩ := decAllFuel_encAll h ns hw
  exact ⟨bs, hb, hd _ (Nat.le_refl _)⟩

/-! ### per-shape laws -/

/-- the four prefix families -/
theorem pfxCodec_laws (v6 : Bool) : (pfxCodec v6).Laws where
  len_eq := by
    intro n bs hi he
    simp only [pfxCodec] at hi he ⊢
    cases he
    simp [Pfx.compose, composeNoLen_length n hi, Pfx.composeLen, Nat.add_comm]
  wf_inv := by
    intro n hw
    simp only [pfxCodec, Bool.and_eq_true] at hw ⊢
    exact hw.1
  enc_ok := by
    intro n _
    exact ⟨n.compose, rfl, by simp [Pfx.compose]⟩
  roundtrip := by
    intro n bs r hw he
    simp only [pfxCodec, Bool.and_eq_true, beq_iff_eq] at hw he
    cases he
    obtain ⟨hw, hv⟩ := hw
    subst hv
    have h128 := len_lt_256 n hw
    have hnb := bitsToBytes_le n hw
    simp only [pfxCodec, Pfx.compose, List.cons_append, Pfx.parse, parseForLenChecked]
    have : (UInt8.ofNat n.len).toNat = n.len := by simp [UInt8.toNat_ofNat']; omega
    rw [this]
    have : ¬ (addrLen n.v6 < bitsToBytes n.len) := by omega
    simp only [this, ↓reduceIte]
    exact parseBody_compose n hw r

/-! ### labels -/

theorem parseLabels_append (r : Bytes) : ∀ (x l r' : Bytes), parseLabels x = some (l, r') →
    parseLabels (x ++ r) = some (l, r' ++ r) := by
  intro x
  induction x using parseLabels.induct with
  | case1 a b c t hs =>
    intro l r' h
    simp only [parseLabels, hs, ↓reduceIte, Option.some.injEq, Prod.mk.injEq] at h
    obtain ⟨rfl, rfl⟩ := h
    simp [parseLabels, hs]
  | case2 a b c t hs l0 r0 hrec ih =>
    intro l r' h
    simp only [parseLabels, hs, hrec] at h
    simp only [Bool.false_eq_true, ↓reduceIte, Option.some.injEq, Prod.mk.injEq] at h
    obtain ⟨rfl, rfl⟩ := h
    have := ih l0 r0 hrec
    simp [parseLabels, hs, this]
  | case3 a b c t hs hrec ih =>
    intro l r' h
    simp [parseLabels, hs, hrec] at h
  | case4 x hx =>
    intro l r' h
    match x, hx with
    | [], _ => simp [parseLabels] at h
    | [_], _ => simp [parseLabels] at h
    | [_, _], _ => simp [parseLabels] at h
    | a :: b :: c :: t, hx => exact absurd rfl (hx a b c t)

theorem labelsExact_append (ls r : Bytes) (h : labelsExact ls = true) :
    parseLabels (ls ++ r) = some (ls, r) := by
  have : parseLabels ls = some (ls, []) := by simpa [labelsExact] using h
  simpa using parseLabels_append r ls ls [] this


/-! ### MPLS, MPLS-VPN -/


theorem u8_toNat_ofNat (n : Nat) (h : n ≤ 255) : (UInt8.ofNat n).toNat = n := by
  simp [UInt8.toNat_ofNat']; omega

theorem parseForLen_compose (p : Pfx) (hw : p.wf = true) (r : Bytes) :
    parseForLen p.v6 p.len (p.composeNoLen ++ r) = .ok (p, r) := by
  have hnb := bitsToBytes_le p hw
  have : ¬ (addrLen p.v6 < bitsToBytes p.len) := by omega
  simp only [parseForLen, this, ↓reduceIte]
  exact parseBody_compose p hw r

theorem mplsCodec_laws (v6 : Bool) : (mplsCodec v6).Laws where
  len_eq := by
    intro n bs hi he
    simp only [mplsCodec, encMpls] at hi he ⊢
    split at he <;> cases he
    simp [composeNoLen_length n.pfx hi, mplsLen]; omega
  wf_inv := by
    intro n hw
    simp only [mplsCodec, mplsWf, Bool.and_eq_true] at hw ⊢
    exact hw.1.1.1
  enc_ok := by
    intro n hw
    simp only [mplsCodec, mplsWf, Bool.and_eq_true, decide_eq_true_eq] at hw ⊢
    have : ¬ (255 < u8OrMax (8 * n.labels.length) + n.pfx.len) := by unfold u8OrMax; split <;> omega
    refine ⟨UInt8.ofNat (u8OrMax (8 * n.labels.length) + n.pfx.len) :: (n.labels ++ n.pfx.composeNoLen), ?_, by simp⟩
    simp only [encMpls, this, ↓reduceIte]
  roundtrip := by
    intro n bs r hw he
    simp only [mplsCodec, mplsWf, Bool.and_eq_true, decide_eq_true_eq, beq_iff_eq] at hw he ⊢
    obtain ⟨⟨⟨hp, hv⟩, hl⟩, hb⟩ := hw
    subst hv
    have hu : u8OrMax (8 * n.labels.length) = 8 * n.labels.length := by unfold u8OrMax; split <;> omega
    simp only [encMpls, hu] at he
    have : ¬ (255 < 8 * n.labels.length + n.pfx.len) := by omega
    simp only [this, ↓reduceIte, Outcome.ok.injEq] at he
    subst he
    simp only [List.cons_append, List.append_assoc, decMpls, labelsExact_append _ _ hl,
      u8_toNat_ofNat _ hb]
    have h1 : ¬ (255 < 8 * n.labels.length) := by omega
    have h2 : ¬ (8 * n.labels.length + n.pfx.len < 8 * n.labels.length) := by omega
    simp only [h1, h2, ↓reduceIte, Nat.add_sub_cancel_left, parseForLen_compose n.pfx hp r]

theorem vpnCodec_laws (v6 : Bool) : (vpnCodec v6).Laws where
  len_eq := by
    intro n bs hi he
    simp only [vpnCodec, encVpn, Bool.and_eq_true, beq_iff_eq] at hi he ⊢
    split at he <;> cases he
    simp [composeNoLen_length n.pfx hi.1, vpnLen, hi.2]; omega
  wf_inv := by
    intro n hw
    simp only [vpnCodec, vpnWf, Bool.and_eq_true] at hw ⊢
    exact ⟨hw.1.1.1.1, hw.1.2⟩
  enc_ok := by
    intro n hw
    simp only [vpnCodec, vpnWf, Bool.and_eq_true, decide_eq_true_eq] at hw ⊢
    have : ¬ (255 < u8OrMax (8 * (8 + n.labels.length)) + n.pfx.len) := by unfold u8OrMax; split <;> omega
    refine ⟨UInt8.ofNat (u8OrMax (8 * (8 + n.labels.length)) + n.pfx.len) ::
      (n.labels ++ (n.rd ++ n.pfx.composeNoLen)), ?_, by simp⟩
    simp only [encVpn, this, ↓reduceIte]
  roundtrip := by
    intro n bs r hw he
    simp only [vpnCodec, vpnWf, Bool.and_eq_true, decide_eq_true_eq, beq_iff_eq] at hw he ⊢
    obtain ⟨⟨⟨⟨hp, hv⟩, hl⟩, hrd⟩, hb⟩ := hw
    subst hv
    have hu : u8OrMax (8 * (8 + n.labels.length)) = 8 * (8 + n.labels.length) := by
      unfold u8OrMax; split <;> omega
    simp only [encVpn, hu] at he
    have : ¬ (255 < 8 * (8 + n.labels.length) + n.pfx.len) := by omega
    simp only [this, ↓reduceIte, Outcome.ok.injEq] at he
    subst he
    have ht := takeN_append n.rd (n.pfx.composeNoLen ++ r)
    rw [hrd] at ht
    simp only [List.cons_append, List.append_assoc, decVpn, labelsExact_append _ _ hl,
      u8_toNat_ofNat _ hb]
    have h1 : ¬ (255 < 8 * (8 + n.labels.length)) := by omega
    have h2 : ¬ (8 * (8 + n.labels.length) + n.pfx.len < 8 * (8 + n.labels.length)) := by omega
    simp only [h1, h2, ↓reduceIte, ht, Nat.add_sub_cancel_left, parseForLen_compose n.pfx hp r]



/-! ### route target, EVPN, VPLS -/

theorem rtCodec_laws : rtCodec.Laws where
  len_eq := by
    intro n bs _ he
    simp only [rtCodec, Outcome.ok.injEq] at he ⊢
    subst he
    simp [encRt]; omega
  wf_inv := by intro n _; rfl
  enc_ok := by intro n _; exact ⟨encRt n, rfl, by simp [encRt]⟩
  roundtrip := by
    intro n bs r hw he
    simp only [rtCodec, decide_eq_true_eq, Outcome.ok.injEq] at hw he ⊢
    subst he
    have hu : u8OrMax (8 * n.raw.length) ≤ 255 := by unfold u8OrMax; split <;> omega
    have hb : bitsToBytes (u8OrMax (8 * n.raw.length)) = n.raw.length := by
      unfold bitsToBytes u8OrMax; split <;> omega
    simp only [encRt, List.cons_append, decRt, u8_toNat_ofNat _ hu, hb, takeN_append]

theorem evpnCodec_laws : evpnCodec.Laws where
  len_eq := by
    intro n bs _ he
    simp only [evpnCodec, Outcome.ok.injEq] at he ⊢
    subst he
    simp [encEvpn]; omega
  wf_inv := by intro n _; rfl
  enc_ok := by intro n _; exact ⟨encEvpn n, rfl, by simp [encEvpn]⟩
  roundtrip := by
    intro n bs r hw he
    simp only [evpnCodec, Bool.and_eq_true, decide_eq_true_eq, Outcome.ok.injEq] at hw he ⊢
    subst he
    have hu : u8OrMax n.raw.length = n.raw.length := by unfold u8OrMax; split <;> omega
    have ht : (UInt8.ofNat n.rtype).toNat = n.rtype := u8_toNat_ofNat _ (by omega)
    simp only [encEvpn, List.cons_append, decEvpn, hu, u8_toNat_ofNat _ hw.2, takeN_append, ht]

theorem rd24_be24 (n : Nat) (h : n < 16777216) (r : Bytes) :
    (match be24 n ++ r with
     | a :: b :: c :: r5 => some (a.toNat * 65536 + (b.toNat * 256 + c.toNat), r5)
     | _ => none) = some (n, r) := by
  simp [be24, UInt8.toNat_ofNat']; omega

theorem vplsCodec_laws : vplsCodec.Laws where
  len_eq := by
    intro n bs hi he
    simp only [vplsCodec, Outcome.ok.injEq, beq_iff_eq] at hi he ⊢
    subst he
    simp [encVpls, be24, hi]
  wf_inv := by
    intro n hw
    simp only [vplsCodec, Bool.and_eq_true] at hw ⊢
    exact hw.1.1.1.1
  enc_ok := by intro n _; exact ⟨encVpls n, rfl, by simp [encVpls, be16]⟩
  roundtrip := by
    intro n bs r hw he
    simp only [vplsCodec, Bool.and_eq_true, decide_eq_true_eq, Outcome.ok.injEq, beq_iff_eq] at hw he ⊢
    subst he
    obtain ⟨⟨⟨⟨hrd, h1⟩, h2⟩, h3⟩, h4⟩ := hw
    have ht := takeN_append n.rd (be16 n.veId ++ (be16 n.veOff ++ (be16 n.veSize ++ (be24 n.labelBase ++ r))))
    rw [hrd] at ht
    simp only [encVpls, List.append_assoc, decVpls, rd16_be16 17 (by omega), ht, rd16_be16 _ h1,
      rd16_be16 _ h2, rd16_be16 _ h3]
    simp only [be24, List.cons_append, List.nil_append, UInt8.toNat_ofNat']
    have : n.labelBase / 65536 % 256 * 65536 + (n.labelBase / 256 % 256 * 256 + n.labelBase % 256) = n.labelBase := by omega
    rw [this]


/-! ### FlowSpec -/


theorem takeN_some_append {k : Nat} {t a t' : Bytes} (r : Bytes) (h : takeN k t = some (a, t')) :
    takeN k (t ++ r) = some (a, t' ++ r) := by
  obtain ⟨hl, rfl⟩ := takeN_length h
  rw [List.append_assoc, ← hl]
  exact takeN_append a (t' ++ r)

theorem takeN_some_length {k : Nat} {t a t' : Bytes} (h : takeN k t = some (a, t')) :
    t'.length ≤ t.length := by
  obtain ⟨_, rfl⟩ := takeN_length h
  simp

theorem parseOps_append : ∀ (f : Nat) (x y : Bytes), parseOps f x = some y →
    ∀ f', f ≤ f' → ∀ r, parseOps f' (x ++ r) = some (y ++ r) := by
  intro f
  induction f with
  | zero => intro x y h; simp [parseOps] at h
  | succ f ih =>
    intro x y h f' hf r
    match x, f', hf with
    | [], _, _ => simp [parseOps] at h
    | op :: t, g + 1, hf =>
      simp only [parseOps] at h
      split at h
      · cases h
      · rename_i a t' ht
        simp only [List.cons_append, parseOps, takeN_some_append r ht]
        split at h
        · rename_i hop
          cases h; simp only [hop, ↓reduceIte]
        · rename_i hop
          simp only [hop, ↓reduceIte]
          exact ih t' y h g (by omega) r

theorem parseOps_length : ∀ (f : Nat) (x y : Bytes), parseOps f x = some y → y.length ≤ x.length := by
  intro f
  induction f with
  | zero => intro x y h; simp [parseOps] at h
  | succ f ih =>
    intro x y h
    match x with
    | [] => simp [parseOps] at h
    | op :: t =>
      simp only [parseOps] at h
      split at h
      · cases h
      · rename_i a t' ht
        have := takeN_some_length ht
        split at h
        · cases h; simp; omega
        · have := ih t' y h; simp; omega

theorem parseComponent_append (x y r : Bytes) (h : parseComponent x = some y) :
    parseComponent (x ++ r) = some (y ++ r) := by
  match x with
  | [] => simp [parseComponent] at h
  | t :: rest =>
    simp only [parseComponent] at h
    simp only [List.cons_append, parseComponent]
    split at h
    · rename_i ht
      simp only [ht, ↓reduceIte]
      match rest with
      | [] => simp at h
      | pb :: r1 =>
        simp only at h
        simp only [List.cons_append]
        split at h
        · rename_i h0
          cases h; simp only [h0, ↓reduceIte]
        · rename_i h0
          split at h
          · cases h
          · rename_i h5
            split at h
            · cases h
            · rename_i a r2 htk
              simp only [h0, h5, ↓reduceIte, takeN_some_append r htk]
              split at h
              · rename_i hs
                cases h; simp only [hs, ↓reduceIte, Bool.false_eq_true]
              · cases h
    · rename_i ht
      simp only [ht]
      split at h
      · rename_i hr
        have := parseOps_append rest.length rest y h (rest ++ r).length (by simp) r
        simp only [hr, ↓reduceIte, Bool.false_eq_true]
        exact this
      · cases h

theorem parseComponent_length (x y : Bytes) (h : parseComponent x = some y) : y.length ≤ x.length := by
  match x with
  | [] => simp [parseComponent] at h
  | t :: rest =>
    simp only [parseComponent] at h
    split at h
    · match rest with
      | [] => simp at h
      | pb :: r1 =>
        simp only at h
        split at h
        · cases h; simp; omega
        · split at h
          · cases h
          · split at h
            · cases h
            · rename_i a r2 htk
              have := takeN_some_length htk
              split at h
              · cases h; simp; omega
              · cases h
    · split at h
      · have := parseOps_length _ _ _ h; simp; omega
      · cases h

theorem fsLoop_of_exact : ∀ (f : Nat) (raw : Bytes), fsExact.fsLoopExact f raw = true →
    ∀ f', f ≤ f' → ∀ r, fsLoop f' raw.length (raw ++ r) = true := by
  intro f
  induction f with
  | zero =>
    intro raw h f' _ r
    match raw with
    | [] => cases f' <;> simp [fsLoop]
    | _ :: _ => simp [fsExact.fsLoopExact] at h
  | succ f ih =>
    intro raw h f' hf r
    match raw, f', hf with
    | [], f', _ => cases f' <;> simp [fsLoop]
    | b :: t, g + 1, hf =>
      simp only [fsExact.fsLoopExact] at h
      split at h
      · cases h
      · rename_i y hy
        have hl := parseComponent_length _ _ hy
        have ha := parseComponent_append _ _ r hy
        have := ih y h g (by omega) r
        simp only [List.length_cons] at hl
        simp only [fsLoop, List.length_cons, Nat.add_one_ne_zero, beq_iff_eq, ↓reduceIte, ha,
          List.length_append]
        have e : t.length + 1 - (t.length + 1 + r.length - (y.length + r.length)) = y.length := by omega
        have e' : ¬ (t.length + 1 < t.length + 1 + r.length - (y.length + r.length)) := by omega
        simp only [List.cons_append, List.length_cons, List.length_append] at *
        simp only [e', ↓reduceIte]
        rw [e]; exact this

theorem or_f000 (len : Nat) (h : len < 4096) : 0xf000 ||| len = 0xf000 + len := by
  have := Nat.two_pow_add_eq_or_of_lt (i := 12) (b := len) (by simpa using h) 15
  simpa using this.symm

theorem fsCodec_laws (v6 : Bool) : (fsCodec v6).Laws where
  len_eq := by
    intro n bs _ he
    simp only [fsCodec, Outcome.ok.injEq] at he ⊢
    subst he
    simp only [encFs, fsLen]
    split <;> simp <;> omega
  wf_inv := by intro n _; rfl
  enc_ok := by
    intro n _
    refine ⟨encFs n, rfl, ?_⟩
    simp only [encFs]; split <;> simp [be16]
  roundtrip := by
    intro n bs r hw he
    simp only [fsCodec, fsWf, Bool.and_eq_true, decide_eq_true_eq, Outcome.ok.injEq, beq_iff_eq,
      Bool.or_eq_true] at hw he ⊢
    subst he
    obtain ⟨⟨hafi, hlen⟩, hex⟩ := hw
    have hloop : (!v6 && !fsLoop (n.raw.length + 1) n.raw.length (n.raw ++ r)) = false := by
      cases hex with
      | inl h => simp [h]
      | inr h =>
        have := fsLoop_of_exact _ _ h (n.raw.length + 1) (Nat.le_refl _) r
        simp [this]
    have hval : (⟨if v6 then 2 else 1, n.raw⟩ : Fs) = n := by
      cases n; simp only [Fs.mk.injEq, and_true]; simp only at hafi; exact hafi.symm
    have hnl : ¬ ((n.raw ++ r).length < n.raw.length) := by simp
    simp only [encFs]
    split
    · rename_i h240
      have h1 : 0xf000 ||| (if n.raw.length ≤ 65535 then n.raw.length else 4095) = 0xf000 + n.raw.length := by
        have : n.raw.length ≤ 65535 := by omega
        simp only [this, ↓reduceIte]
        exact or_f000 _ (by omega)
      rw [h1]
      simp only [be16, List.cons_append, List.nil_append, decFs, UInt8.toNat_ofNat']
      have e1 : 240 ≤ (0xf000 + n.raw.length) / 256 % 256 := by omega
      have e2 : ((0xf000 + n.raw.length) / 256 % 256 * 256 + (0xf000 + n.raw.length) % 256) % 4096 = n.raw.length := by omega
      simp only [e1, ↓reduceIte, e2, hnl, hloop, Bool.false_eq_true, List.take_left', List.drop_left', hval]
    · rename_i h240
      have e1 : ¬ (240 ≤ n.raw.length % 256) := by omega
      have e2 : n.raw.length % 256 = n.raw.length := by omega
      simp only [List.cons_append, List.nil_append, decFs, UInt8.toNat_ofNat', e2, h240, ↓reduceIte, hnl,
        hloop, Bool.false_eq_true, List.take_left', List.drop_left', hval]


/-! ### whatever a parser returns is well-formed -/

theorem parseBody_wf (v6 : Bool) (bits : Nat) (bs : Bytes) (p : Pfx) (r : Bytes)
    (hnb : bitsToBytes bits ≤ addrLen v6)
    (h : parseBody v6 bits bs = .ok (p, r)) : p.wf = true ∧ p.v6 = v6 ∧ p.len = bits := by
  unfold parseBody at h
  split at h
  · cases h
  · rename_i a r' ht
    obtain ⟨hl, _⟩ := takeN_length ht
    split at h
    · cases h
    · rename_i p' hp
      simp only [Outcome.ok.injEq, Prod.mk.injEq] at h
      obtain ⟨rfl, rfl⟩ := h
      unfold Pfx.new at hp
      split at hp
      · cases hp
      · rename_i hle
        split at hp
        · rename_i hz
          simp only [Option.some.injEq] at hp
          subst hp
          refine ⟨(Pfx.wf_iff _).mpr ⟨?_, by simpa using Nat.le_of_not_lt hle, hz⟩, rfl, rfl⟩
          simp [pad, hl]; omega
        · cases hp

theorem parseLabels_exact : ∀ (x l r : Bytes), parseLabels x = some (l, r) →
    parseLabels l = some (l, []) ∧ x = l ++ r := by
  intro x
  induction x using parseLabels.induct with
  | case1 a b c t hs =>
    intro l r h
    simp only [parseLabels, hs, ↓reduceIte, Option.some.injEq, Prod.mk.injEq] at h
    obtain ⟨rfl, rfl⟩ := h
    simp [parseLabels, hs]
  | case2 a b c t hs l0 r0 hrec ih =>
    intro l r h
    simp only [parseLabels, hs, hrec, Bool.false_eq_true, ↓reduceIte, Option.some.injEq, Prod.mk.injEq] at h
    obtain ⟨rfl, rfl⟩ := h
    obtain ⟨h1, h2⟩ := ih l0 r0 hrec
    simp [parseLabels, hs, h1, h2]
  | case3 a b c t hs hrec ih =>
    intro l r h
    simp [parseLabels, hs, hrec] at h
  | case4 x hx =>
    intro l r h
    match x, hx with
    | [], _ => simp [parseLabels] at h
    | [_], _ => simp [parseLabels] at h
    | [_, _], _ => simp [parseLabels] at h
    | a :: b :: c :: t, hx => exact absurd rfl (hx a b c t)

theorem parseForLen_wf (v6 : Bool) (bits : Nat) (bs : Bytes) (p : Pfx) (r : Bytes)
    (h : parseForLen v6 bits bs = .ok (p, r)) : p.wf = true ∧ p.v6 = v6 ∧ p.len = bits := by
  unfold parseForLen at h
  split at h
  · split at h <;> cases h
  · rename_i hnb
    exact parseBody_wf v6 bits bs p r (by omega) h

/-- every value a parser returns is well-formed (all families except IPv4 FlowSpec, see below) -/
theorem pfx_dec_wf (v6 : Bool) (bs : Bytes) (n : Pfx) (r : Bytes) (h : (pfxCodec v6).dec bs = .ok (n, r)) :
    (pfxCodec v6).wf n = true := by
  simp only [pfxCodec, Pfx.parse] at h ⊢
  split at h
  · cases h
  · unfold parseForLenChecked at h
    split at h
    · cases h
    · rename_i hnb
      obtain ⟨h1, h2, _⟩ := parseBody_wf v6 _ _ n r (by omega) h
      simp [h1, h2]

theorem mpls_dec_wf (v6 : Bool) (bs : Bytes) (n : Mpls) (r : Bytes) (h : (mplsCodec v6).dec bs = .ok (n, r)) :
    (mplsCodec v6).wf n = true := by
  simp only [mplsCodec, decMpls] at h ⊢
  split at h
  · cases h
  · rename_i b0 r0
    split at h
    · cases h
    · rename_i ls r1 hl
      split at h
      · cases h
      · split at h
        · cases h
        · rename_i h255 hb0
          split at h
          · rename_i p r2 hp
            simp only [Outcome.ok.injEq, Prod.mk.injEq] at h
            obtain ⟨rfl, rfl⟩ := h
            obtain ⟨h1, h2, h3⟩ := parseForLen_wf v6 _ _ p _ hp
            obtain ⟨hex, _⟩ := parseLabels_exact _ _ _ hl
            have := b0.toNat_lt
            simp only [mplsWf, h1, h2, h3, labelsExact, hex, beq_self_eq_true, Bool.and_self, Bool.true_and,
              decide_eq_true_eq]
            omega
          · cases h
          · cases h

theorem vpn_dec_wf (v6 : Bool) (bs : Bytes) (n : Vpn) (r : Bytes) (h : (vpnCodec v6).dec bs = .ok (n, r)) :
    (vpnCodec v6).wf n = true := by
  simp only [vpnCodec, decVpn] at h ⊢
  split at h
  · cases h
  · rename_i b0 r0
    split at h
    · cases h
    · rename_i ls r1 hl
      split at h
      · cases h
      · split at h
        · cases h
        · rename_i h255 hb0
          split at h
          · cases h
          · rename_i rd r2 hrd
            split at h
            · rename_i p r3 hp
              simp only [Outcome.ok.injEq, Prod.mk.injEq] at h
              obtain ⟨rfl, rfl⟩ := h
              obtain ⟨h1, h2, h3⟩ := parseForLen_wf v6 _ _ p _ hp
              obtain ⟨hex, _⟩ := parseLabels_exact _ _ _ hl
              obtain ⟨hrl, _⟩ := takeN_length hrd
              have := b0.toNat_lt
              simp only [vpnWf, h1, h2, h3, labelsExact, hex, hrl, beq_self_eq_true, Bool.and_self, Bool.true_and,
                decide_eq_true_eq]
              omega
            · cases h
            · cases h

theorem rt_dec_wf (bs : Bytes) (n : Rt) (r : Bytes) (h : rtCodec.dec bs = .ok (n, r)) : rtCodec.wf n = true := by
  simp only [rtCodec, decRt] at h ⊢
  split at h
  · cases h
  · rename_i b0 r0
    split at h
    · cases h
    · rename_i raw r1 ht
      simp only [Outcome.ok.injEq, Prod.mk.injEq] at h
      obtain ⟨rfl, rfl⟩ := h
      obtain ⟨hl, _⟩ := takeN_length ht
      have := b0.toNat_lt
      simp only [decide_eq_true_eq, hl, bitsToBytes]; omega

theorem evpn_dec_wf (bs : Bytes) (n : Evpn) (r : Bytes) (h : evpnCodec.dec bs = .ok (n, r)) : evpnCodec.wf n = true := by
  simp only [evpnCodec, decEvpn] at h ⊢
  split at h
  · rename_i t l r0
    split at h
    · cases h
    · rename_i raw r1 ht
      simp only [Outcome.ok.injEq, Prod.mk.injEq] at h
      obtain ⟨rfl, rfl⟩ := h
      obtain ⟨hl, _⟩ := takeN_length ht
      have := t.toNat_lt
      have := l.toNat_lt
      simp only [Bool.and_eq_true, decide_eq_true_eq, hl]; omega
  · cases h

theorem vpls_dec_wf (bs : Bytes) (n : Vpls) (r : Bytes) (h : vplsCodec.dec bs = .ok (n, r)) : vplsCodec.wf n = true := by
  simp only [vplsCodec, decVpls] at h ⊢
  split at h
  · cases h
  · split at h
    · cases h
    · rename_i rd r1 hrd
      split at h
      · cases h
      · rename_i ve r2 h1
        split at h
        · cases h
        · rename_i off r3 h2
          split at h
          · cases h
          · rename_i sz r4 h3
            split at h
            · rename_i a b c r5
              simp only [Outcome.ok.injEq, Prod.mk.injEq] at h
              obtain ⟨rfl, rfl⟩ := h
              obtain ⟨hrl, _⟩ := takeN_length hrd
              have := rd16_lt h1; have := rd16_lt h2; have := rd16_lt h3
              have := a.toNat_lt; have := b.toNat_lt; have := c.toNat_lt
              simp only [hrl, beq_self_eq_true, Bool.true_and, Bool.and_eq_true, decide_eq_true_eq]
              omega
            · cases h


/-! ### FlowSpec: what the parser returns is well-formed -/

/-- `takeN` splits off a prefix -/
theorem takeN_split {k : Nat} {t a t' : Bytes} (h : takeN k t = some (a, t')) : t = a ++ t' ∧ a.length = k := by
  obtain ⟨h1, h2⟩ := takeN_length h; exact ⟨h2, h1⟩

/-- what `parseOps` consumed is a prefix that parses on its own -/
theorem parseOps_local : ∀ (f : Nat) (x y : Bytes), parseOps f x = some y →
    ∃ c, x = c ++ y ∧ parseOps f c = some [] := by
  intro f
  induction f with
  | zero => intro x y h; simp [parseOps] at h
  | succ f ih =>
    intro x y h
    match x with
    | [] => simp [parseOps] at h
    | op :: t =>
      simp only [parseOps] at h
      split at h
      · cases h
      · rename_i a t' ht
        obtain ⟨hs, hl⟩ := takeN_split ht
        split at h
        · rename_i hop
          cases h
          refine ⟨op :: a, by simp [hs], ?_⟩
          have : takeN (opValLen op) a = some (a, []) := by
            have := takeN_append a []; rw [hl] at this; simpa using this
          simp [parseOps, this, hop]
        · rename_i hop
          obtain ⟨c, hc, hp⟩ := ih t' y h
          refine ⟨op :: (a ++ c), by simp [hs, hc], ?_⟩
          have : takeN (opValLen op) (a ++ c) = some (a, c) := by
            have := takeN_append a c; rw [hl] at this; exact this
          simp [parseOps, this, hop, hp]

/-- `length` is always enough fuel -/
theorem parseOps_fuel : ∀ (f : Nat) (x y : Bytes), parseOps f x = some y →
    ∀ f', x.length ≤ f' → parseOps f' x = some y := by
  intro f
  induction f with
  | zero => intro x y h; simp [parseOps] at h
  | succ f ih =>
    intro x y h f' hf
    match x, f', hf with
    | [], _, _ => simp [parseOps] at h
    | op :: t, g + 1, hf =>
      simp only [parseOps] at h ⊢
      split at h
      · cases h
      · rename_i a t' ht
        have hl := takeN_some_length ht
        try simp only [ht]
        split at h
        · rename_i hop; cases h; simp [hop]
        · rename_i hop
          simp only [hop, ↓reduceIte]
          exact ih t' y h g (by simp at hf; omega)

theorem parseComponent_local (x y : Bytes) (h : parseComponent x = some y) :
    ∃ c, x = c ++ y ∧ parseComponent c = some [] := by
  match x with
  | [] => simp [parseComponent] at h
  | t :: rest =>
    simp only [parseComponent] at h
    split at h
    · rename_i ht
      match rest with
      | [] => simp at h
      | pb :: r1 =>
        simp only at h
        split at h
        · rename_i h0
          cases h
          exact ⟨[t, pb], by simp, by simp [parseComponent, ht, h0]⟩
        · rename_i h0
          split at h
          · cases h
          · rename_i h5
            split at h
            · cases h
            · rename_i a r2 htk
              obtain ⟨hs, hl⟩ := takeN_split htk
              split at h
              · rename_i hsome
                cases h
                refine ⟨t :: pb :: a, by simp [hs], ?_⟩
                have : takeN (bitsToBytes pb.toNat) a = some (a, []) := by
                  have := takeN_append a []; rw [hl] at this; simpa using this
                simp [parseComponent, ht, h0, h5, this, hsome]
              · cases h
    · rename_i ht
      split at h
      · rename_i hr
        obtain ⟨c, hc, hp⟩ := parseOps_local _ _ _ h
        refine ⟨t :: c, by simp [hc], ?_⟩
        have := parseOps_fuel _ c [] hp c.length (Nat.le_refl _)
        simp [parseComponent, ht, hr, this]
      · cases h


theorem fsExact_of_loop : ∀ (f need : Nat) (x : Bytes), need ≤ x.length → fsLoop f need x = true →
    ∀ f', need < f' → fsExact.fsLoopExact f' (x.take need) = true := by
  intro f
  induction f with
  | zero =>
    intro need x _ h f' _
    simp only [fsLoop, beq_iff_eq] at h
    subst h
    cases f' <;> simp [fsExact.fsLoopExact]
  | succ f ih =>
    intro need x hle h f' hf
    simp only [fsLoop] at h
    split at h
    · rename_i h0
      simp only [beq_iff_eq] at h0
      subst h0
      cases f' <;> simp [fsExact.fsLoopExact]
    · rename_i h0
      simp only [beq_iff_eq] at h0
      split at h
      · cases h
      · rename_i y hy
        split at h
        · cases h
        · rename_i hused
          obtain ⟨c, hc, hp⟩ := parseComponent_local x y hy
          have hcl : c.length = x.length - y.length := by rw [hc]; simp
          have hcn : c.length ≤ need := by omega
          have hcpos : 0 < c.length := by
            cases c with
            | nil => simp [parseComponent] at hp
            | cons _ _ => simp
          -- x.take need = c ++ y.take (need - |c|)
          have htake : x.take need = c ++ y.take (need - c.length) := by
            rw [hc, List.take_append]
            simp [List.take_of_length_le hcn]
          have hpc : parseComponent (c ++ y.take (need - c.length)) = some (y.take (need - c.length)) := by
            simpa using parseComponent_append c [] (y.take (need - c.length)) hp
          have hyl : need - c.length ≤ y.length := by
            have : x.length = c.length + y.length := by rw [hc]; simp
            omega
          match f', hf with
          | g + 1, hf =>
            rw [htake]
            have hne : c ++ y.take (need - c.length) ≠ [] := by
              cases c with
              | nil => simp at hcpos
              | cons _ _ => simp
            have hrec := ih (need - (x.length - y.length)) y (by omega) h g (by omega)
            rw [← hcl] at hrec
            match hcc : c ++ y.take (need - c.length), hne with
            | b :: t, _ =>
              simp only [fsExact.fsLoopExact]
              rw [← hcc, hpc]
              exact hrec

theorem fs_dec_wf (v6 : Bool) (bs : Bytes) (n : Fs) (r : Bytes) (h : (fsCodec v6).dec bs = .ok (n, r)) :
    (fsCodec v6).wf n = true := by
  simp only [fsCodec, decFs] at h ⊢
  split at h
  · cases h
  · rename_i l1 r0
    split at h
    · cases h
    · rename_i len r' hhdr
      split at h
      · cases h
      · rename_i hlen
        split at h
        · cases h
        · rename_i hloop
          simp only [Outcome.ok.injEq, Prod.mk.injEq] at h
          obtain ⟨rfl, rfl⟩ := h
          have hl4095 : len ≤ 4095 := by
            have := l1.toNat_lt
            split at hhdr
            · split at hhdr
              · cases hhdr
              · simp only [Option.some.injEq, Prod.mk.injEq] at hhdr; omega
            · simp only [Option.some.injEq, Prod.mk.injEq] at hhdr; omega
          have hlr : len ≤ r'.length := by omega
          have htl : (r'.take len).length = len := by simp [List.length_take]; omega
          simp only [fsWf, beq_self_eq_true, Bool.true_and, htl, Bool.and_eq_true, decide_eq_true_eq,
            Bool.or_eq_true]
          refine ⟨hl4095, ?_⟩
          cases v6 with
          | true => exact .inl rfl
          | false =>
            right
            simp only [Bool.not_false, Bool.true_and, Bool.not_eq_true', Bool.not_eq_false] at hloop
            have hloop' : fsLoop (len + 1) len r' = true := by
              cases hh : fsLoop (len + 1) len r' <;> simp_all
            have := fsExact_of_loop (len + 1) len r' hlr hloop' (len + 1) (by omega)
            simpa [fsExact, htl] using this


/-! ### all families -/

theorem codec_laws (f : Fam) : (codec f).Laws := by
  cases f
  case v4u => exact pfxCodec_laws false
  case v4m => exact pfxCodec_laws false
  case v6u => exact pfxCodec_laws true
  case v6m => exact pfxCodec_laws true
  case v4mpls => exact mplsCodec_laws false
  case v6mpls => exact mplsCodec_laws true
  case v4vpn => exact vpnCodec_laws false
  case v6vpn => exact vpnCodec_laws true
  case v4rt => exact rtCodec_laws
  case v4fs => exact fsCodec_laws false
  case v6fs => exact fsCodec_laws true
  case vpls => exact vplsCodec_laws
  case evpn => exact evpnCodec_laws

theorem codecAp_laws (f : Fam) : (codecAp f).Laws := (codec_laws f).addpath

theorem codec_dec_wf (f : Fam) (bs : Bytes) (n : f.Val) (r : Bytes) (h : (codec f).dec bs = .ok (n, r)) :
    (codec f).wf n = true := by
  cases f
  case v4u => exact pfx_dec_wf false bs n r h
  case v4m => exact pfx_dec_wf false bs n r h
  case v6u => exact pfx_dec_wf true bs n r h
  case v6m => exact pfx_dec_wf true bs n r h
  case v4mpls => exact mpls_dec_wf false bs n r h
  case v6mpls => exact mpls_dec_wf true bs n r h
  case v4vpn => exact vpn_dec_wf false bs n r h
  case v6vpn => exact vpn_dec_wf true bs n r h
  case v4rt => exact rt_dec_wf bs n r h
  case v4fs => exact fs_dec_wf false bs n r h
  case v6fs => exact fs_dec_wf true bs n r h
  case vpls => exact vpls_dec_wf bs n r h
  case evpn => exact evpn_dec_wf bs n r h

theorem codecAp_dec_wf (f : Fam) (bs : Bytes) (n : Nat × f.Val) (r : Bytes)
    (h : (codecAp f).dec bs = .ok (n, r)) : (codecAp f).wf n = true := by
  simp only [codecAp, Codec.addpath] at h ⊢
  split at h
  · cases h
  · rename_i pid r0 hrd
    split at h
    · rename_i m r1 hd
      simp only [Outcome.ok.injEq, Prod.mk.injEq] at h
      obtain ⟨rfl, rfl⟩ := h
      have hw := codec_dec_wf f r0 m r1 hd
      have hp : pid < 4294967296 := by
        match bs, hrd with
        | a :: b :: c :: d :: t, hrd =>
          simp only [rd32, Option.some.injEq, Prod.mk.injEq] at hrd
          have := a.toNat_lt; have := b.toNat_lt; have := c.toNat_lt; have := d.toNat_lt
          omega
      simp [hw, hp]
    · cases h
    · cases h

end Rc.Nlri
