/-
Helper lemmas for C14: laws of a comparison function together with its `==`,
closure under lexicographic composition (`Ordering.then`), pull-back along an
injective projection, and the primitive orders (numbers, byte slices, prefixes).
-/
import Rc.Model.NlriOrd
import Rc.Lemmas.Nlri

namespace Rc.NlriOrd
open Rc Rc.Nlri

/-- `cmp` is a total order on the values satisfying `P`, and `eq` is equality there. -/
structure CmpLaws {α : Type} (P : α → Prop) (eq : α → α → Bool) (cmp : α → α → Ordering) : Prop where
  refl : ∀ a, P a → cmp a a = .eq
  eq_of_cmp : ∀ a b, P a → P b → cmp a b = .eq → a = b
  beq_iff : ∀ a b, P a → P b → (eq a b = true ↔ a = b)
  swap : ∀ a b, P a → P b → cmp b a = (cmp a b).swap
  trans_lt : ∀ a b c, P a → P b → P c → cmp a b = .lt → cmp b c = .lt → cmp a c = .lt

theorem then_eq_eq {x y : Ordering} : x.then y = .eq ↔ x = .eq ∧ y = .eq := by
  cases x <;> cases y <;> simp [Ordering.then]

theorem then_eq_lt {x y : Ordering} : x.then y = .lt ↔ x = .lt ∨ (x = .eq ∧ y = .lt) := by
  cases x <;> cases y <;> simp [Ordering.then]

theorem swap_then' (x y : Ordering) : (x.then y).swap = x.swap.then y.swap := by
  cases x <;> cases y <;> rfl

/-- lexicographic composition: first component, then second -/
theorem CmpLaws.lex {α β : Type} {P : α → Prop} {Q : β → Prop} {eqA cmpA eqB cmpB}
    (hA : CmpLaws P eqA cmpA) (hB : CmpLaws Q eqB cmpB) :
    CmpLaws (fun x : α × β => P x.1 ∧ Q x.2) (fun x y => eqA x.1 y.1 && eqB x.2 y.2)
      (fun x y => (cmpA x.1 y.1).then (cmpB x.2 y.2)) where
  refl := by intro a h; simp [hA.refl _ h.1, hB.refl _ h.2, Ordering.then]
  eq_of_cmp := by
    intro a b ha hb h
    obtain ⟨h1, h2⟩ := then_eq_eq.mp h
    exact Prod.ext (hA.eq_of_cmp _ _ ha.1 hb.1 h1) (hB.eq_of_cmp _ _ ha.2 hb.2 h2)
  beq_iff := by
    intro a b ha hb
    simp only [Bool.and_eq_true, hA.beq_iff _ _ ha.1 hb.1, hB.beq_iff _ _ ha.2 hb.2]
    exact ⟨fun h => Prod.ext h.1 h.2, fun h => by subst h; exact ⟨rfl, rfl⟩⟩
  swap := by
    intro a b ha hb
    simp only [swap_then', hA.swap _ _ ha.1 hb.1, hB.swap _ _ ha.2 hb.2]
  trans_lt := by
    intro a b c ha hb hc h1 h2
    rcases then_eq_lt.mp h1 with h1 | ⟨h1, h1'⟩ <;> rcases then_eq_lt.mp h2 with h2 | ⟨h2, h2'⟩
    · exact then_eq_lt.mpr (.inl (hA.trans_lt _ _ _ ha.1 hb.1 hc.1 h1 h2))
    · have := hA.eq_of_cmp _ _ hb.1 hc.1 h2
      exact then_eq_lt.mpr (.inl (this ▸ h1))
    · have := hA.eq_of_cmp _ _ ha.1 hb.1 h1
      exact then_eq_lt.mpr (.inl (this ▸ h2))
    · have e1 := hA.eq_of_cmp _ _ ha.1 hb.1 h1
      have e2 := hA.eq_of_cmp _ _ hb.1 hc.1 h2
      refine then_eq_lt.mpr (.inr ⟨?_, hB.trans_lt _ _ _ ha.2 hb.2 hc.2 h1' h2'⟩)
      rw [e1, e2]; exact hA.refl _ hc.1

/-- pull-back along a projection that is injective on the values of interest -/
theorem CmpLaws.pull {α γ : Type} {P : α → Prop} {eq cmp} (hA : CmpLaws P eq cmp) (f : γ → α)
    (R : γ → Prop) (hR : ∀ c, R c → P (f c)) (hf : ∀ a b, R a → R b → f a = f b → a = b) :
    CmpLaws R (fun a b => eq (f a) (f b)) (fun a b => cmp (f a) (f b)) where
  refl := fun a h => hA.refl _ (hR a h)
  eq_of_cmp := fun a b ha hb h => hf a b ha hb (hA.eq_of_cmp _ _ (hR a ha) (hR b hb) h)
  beq_iff := by
    intro a b ha hb
    rw [hA.beq_iff _ _ (hR a ha) (hR b hb)]
    exact ⟨hf a b ha hb, fun h => h ▸ rfl⟩
  swap := fun a b ha hb => hA.swap _ _ (hR a ha) (hR b hb)
  trans_lt := fun a b c ha hb hc => hA.trans_lt _ _ _ (hR a ha) (hR b hb) (hR c hc)

/-- the same laws for functions that agree on the values of interest -/
theorem CmpLaws.congr {α : Type} {P : α → Prop} {eq cmp eq' cmp'} (hA : CmpLaws P eq cmp)
    (he : ∀ a b, P a → P b → eq' a b = eq a b) (hc : ∀ a b, P a → P b → cmp' a b = cmp a b) :
    CmpLaws P eq' cmp' where
  refl := fun a h => (hc a a h h) ▸ hA.refl a h
  eq_of_cmp := fun a b ha hb h => hA.eq_of_cmp a b ha hb ((hc a b ha hb) ▸ h)
  beq_iff := fun a b ha hb => (he a b ha hb) ▸ hA.beq_iff a b ha hb
  swap := fun a b ha hb => by rw [hc b a hb ha, hc a b ha hb]; exact hA.swap a b ha hb
  trans_lt := fun a b c ha hb hc' h1 h2 => by
    rw [hc a b ha hb] at h1; rw [hc b c hb hc'] at h2; rw [hc a c ha hc']
    exact hA.trans_lt a b c ha hb hc' h1 h2

theorem CmpLaws.mono {α : Type} {P P' : α → Prop} {eq cmp} (hA : CmpLaws P eq cmp)
    (h : ∀ a, P' a → P a) : CmpLaws P' eq cmp where
  refl := fun a ha => hA.refl a (h a ha)
  eq_of_cmp := fun a b ha hb => hA.eq_of_cmp a b (h a ha) (h b hb)
  beq_iff := fun a b ha hb => hA.beq_iff a b (h a ha) (h b hb)
  swap := fun a b ha hb => hA.swap a b (h a ha) (h b hb)
  trans_lt := fun a b c ha hb hc => hA.trans_lt a b c (h a ha) (h b hb) (h c hc)

/-! ### primitive orders -/

theorem natLaws : CmpLaws (fun _ : Nat => True) (fun a b => a == b) (fun a b => compare a b) where
  refl := by intro a _; exact Nat.compare_eq_eq.mpr rfl
  eq_of_cmp := by intro a b _ _ h; exact Nat.compare_eq_eq.mp h
  beq_iff := by intro a b _ _; exact beq_iff_eq
  swap := by intro a b _ _; exact (Nat.compare_swap a b).symm
  trans_lt := by
    intro a b c _ _ _ h1 h2
    rw [Nat.compare_eq_lt] at *; omega

/-- reversed numeric order (`other.len().cmp(&self.len())`) -/
theorem natRevLaws : CmpLaws (fun _ : Nat => True) (fun a b => a == b) (fun a b => compare b a) where
  refl := by intro a _; exact Nat.compare_eq_eq.mpr rfl
  eq_of_cmp := by intro a b _ _ h; exact (Nat.compare_eq_eq.mp h).symm
  beq_iff := by intro a b _ _; exact beq_iff_eq
  swap := by intro a b _ _; exact (Nat.compare_swap b a).symm
  trans_lt := by
    intro a b c _ _ _ h1 h2
    rw [Nat.compare_eq_lt] at *; omega

theorem cmpBytes_refl : ∀ a : Bytes, cmpBytes a a = .eq := by
  intro a; induction a with
  | nil => rfl
  | cons x xs ih => simp [cmpBytes, ih, Nat.compare_eq_eq.mpr rfl, Ordering.then]

theorem cmpBytes_eq : ∀ a b : Bytes, cmpBytes a b = .eq → a = b := by
  intro a
  induction a with
  | nil => intro b h; cases b <;> simp_all [cmpBytes]
  | cons x xs ih =>
    intro b h
    cases b with
    | nil => simp [cmpBytes] at h
    | cons y ys =>
      simp only [cmpBytes] at h
      obtain ⟨h1, h2⟩ := then_eq_eq.mp h
      have := UInt8.toNat_inj.mp (Nat.compare_eq_eq.mp h1)
      rw [this, ih ys h2]

theorem cmpBytes_swap : ∀ a b : Bytes, cmpBytes b a = (cmpBytes a b).swap := by
  intro a
  induction a with
  | nil => intro b; cases b <;> rfl
  | cons x xs ih =>
    intro b
    cases b with
    | nil => rfl
    | cons y ys => simp only [cmpBytes, swap_then', ih ys, Nat.compare_swap]

theorem cmpBytes_trans : ∀ a b c : Bytes, cmpBytes a b = .lt → cmpBytes b c = .lt → cmpBytes a c = .lt := by
  intro a
  induction a with
  | nil =>
    intro b c h1 h2
    cases b with
    | nil => simp [cmpBytes] at h1
    | cons y ys => cases c with
      | nil => simp [cmpBytes] at h2
      | cons z zs => rfl
  | cons x xs ih =>
    intro b c h1 h2
    cases b with
    | nil => simp [cmpBytes] at h1
    | cons y ys =>
      cases c with
      | nil => simp [cmpBytes] at h2
      | cons z zs =>
        simp only [cmpBytes] at h1 h2 ⊢
        rcases then_eq_lt.mp h1 with h1 | ⟨h1, h1'⟩ <;> rcases then_eq_lt.mp h2 with h2 | ⟨h2, h2'⟩
        · exact then_eq_lt.mpr (.inl (by rw [Nat.compare_eq_lt] at *; omega))
        · exact then_eq_lt.mpr (.inl (by rw [Nat.compare_eq_eq] at h2; rw [Nat.compare_eq_lt] at *; omega))
        · exact then_eq_lt.mpr (.inl (by rw [Nat.compare_eq_eq] at h1; rw [Nat.compare_eq_lt] at *; omega))
        · exact then_eq_lt.mpr (.inr ⟨by rw [Nat.compare_eq_eq] at *; omega, ih ys zs h1' h2'⟩)

theorem bytesLaws : CmpLaws (fun _ : Bytes => True) (fun a b => a == b) cmpBytes where
  refl := fun a _ => cmpBytes_refl a
  eq_of_cmp := fun a b _ _ => cmpBytes_eq a b
  beq_iff := fun _ _ _ _ => beq_iff_eq
  swap := fun a b _ _ => cmpBytes_swap a b
  trans_lt := fun a b c _ _ _ => cmpBytes_trans a b c

/-! ### prefixes -/

theorem beVal_lt : ∀ bs : Bytes, Pfx.beVal bs < 256 ^ bs.length := by
  intro bs
  induction bs with
  | nil => simp [Pfx.beVal]
  | cons b bs ih =>
    have hb := b.toNat_lt
    have : b.toNat * 256 ^ bs.length + 256 ^ bs.length ≤ 256 * 256 ^ bs.length := by
      have := Nat.mul_le_mul_right (256 ^ bs.length) (show b.toNat + 1 ≤ 256 by omega)
      rw [Nat.add_mul, Nat.one_mul] at this; exact this
    simp only [Pfx.beVal, List.length_cons, Nat.pow_succ]
    omega

theorem beVal_inj : ∀ a b : Bytes, a.length = b.length → Pfx.beVal a = Pfx.beVal b → a = b := by
  intro a
  induction a with
  | nil => intro b hl _; cases b <;> simp_all
  | cons x xs ih =>
    intro b hl h
    cases b with
    | nil => simp at hl
    | cons y ys =>
      simp only [List.length_cons, Nat.add_right_cancel_iff] at hl
      simp only [Pfx.beVal, hl] at h
      have h1 := beVal_lt xs
      have h2 := beVal_lt ys
      rw [hl] at h1
      have hxy : x.toNat = y.toNat := by
        rcases Nat.lt_trichotomy x.toNat y.toNat with hlt | heq | hgt
        · have := Nat.mul_le_mul_right (256 ^ ys.length) (show x.toNat + 1 ≤ y.toNat by omega)
          rw [Nat.add_mul, Nat.one_mul] at this; omega
        · exact heq
        · have := Nat.mul_le_mul_right (256 ^ ys.length) (show y.toNat + 1 ≤ x.toNat by omega)
          rw [Nat.add_mul, Nat.one_mul] at this; omega
      rw [hxy] at h
      have := ih ys hl (by omega)
      rw [UInt8.toNat_inj.mp hxy, this]

theorem pfxLaws : CmpLaws (fun p : Pfx => p.wf = true) pfxImpl.eq pfxImpl.cmp := by
  have base := ((natLaws.lex natLaws).lex natRevLaws).pull
    (fun p : Pfx => ((p.v6.toNat, pfxMax p), p.len)) (fun p => p.wf = true)
    (fun _ _ => ⟨⟨trivial, trivial⟩, trivial⟩)
    (by
      intro a b ha hb h
      simp only [Prod.mk.injEq] at h
      obtain ⟨⟨h1, h2⟩, h3⟩ := h
      obtain ⟨la, _, _⟩ := (Rc.Nlri.Pfx.wf_iff a).mp ha
      obtain ⟨lb, _, _⟩ := (Rc.Nlri.Pfx.wf_iff b).mp hb
      have hv : a.v6 = b.v6 := by
        cases hva : a.v6 <;> cases hvb : b.v6 <;> simp_all
      have hl : a.addr.length = b.addr.length := by rw [la, lb, hv]
      have hbv : Pfx.beVal a.addr = Pfx.beVal b.addr := by
        simp only [pfxMax, hl, h3] at h2; omega
      have := beVal_inj _ _ hl hbv
      cases a; cases b; simp_all)
  refine base.congr ?_ ?_
  · intro a b ha hb
    apply Bool.eq_iff_iff.mpr
    rw [base.beq_iff a b ha hb]
    simp [pfxImpl]
  · intro a b _ _; rfl


/-! ### the 26 variants -/


abbrev Lawful {α} (o : OrdImpl α) : Prop := CmpLaws (fun a => o.wf a = true) o.eq o.cmp

theorem mplsLaws : Lawful mplsImpl :=
  (pfxLaws.lex bytesLaws).pull (fun m : Mpls => (m.pfx, m.labels)) _ (fun _ h => ⟨h, trivial⟩)
    (by intro a b _ _ h; cases a; cases b; simp_all)

theorem vpnLaws : Lawful vpnImpl :=
  ((pfxLaws.lex bytesLaws).lex bytesLaws).pull (fun m : Vpn => ((m.pfx, m.labels), m.rd)) _
    (fun _ h => ⟨⟨h, trivial⟩, trivial⟩)
    (by intro a b _ _ h; cases a; cases b; simp_all)

theorem rtLaws : Lawful rtImpl :=
  bytesLaws.pull (fun m : Rt => m.raw) _ (fun _ _ => trivial)
    (by intro a b _ _ h; cases a; cases b; simp_all)

theorem afiKey_inj (a b : Nat) (h : afiKey a = afiKey b) : a = b := by
  unfold afiKey at h
  repeat' split at h
  all_goals omega

theorem fsLaws : Lawful fsImpl := by
  have base := (natLaws.lex bytesLaws).pull (fun m : Fs => (afiKey m.afi, m.raw))
    (fun m => fsImpl.wf m = true) (fun _ _ => ⟨trivial, trivial⟩)
    (by
      intro a b _ _ h
      simp only [Prod.mk.injEq] at h
      have := afiKey_inj _ _ h.1
      cases a; cases b; simp_all)
  refine base.congr ?_ ?_
  · intro a b ha hb
    apply Bool.eq_iff_iff.mpr
    rw [base.beq_iff a b ha hb]
    simp only [fsImpl, Bool.and_eq_true, beq_iff_eq]
    constructor
    · intro h; cases a; cases b; simp_all
    · intro h; subst h; exact ⟨rfl, rfl⟩
  · intro a b _ _; rfl

theorem vplsLaws : Lawful vplsImpl :=
  ((((bytesLaws.lex natLaws).lex natLaws).lex natLaws).lex natLaws).pull
    (fun m : Vpls => ((((m.rd, m.veId), m.veOff), m.veSize), m.labelBase)) _
    (fun _ _ => ⟨⟨⟨⟨trivial, trivial⟩, trivial⟩, trivial⟩, trivial⟩)
    (by intro a b _ _ h; cases a; cases b; simp_all)

theorem rtypeKey_inj (a b : Nat) (ha : rtypeValid a = true) (hb : rtypeValid b = true)
    (h : rtypeKey a = rtypeKey b) : a = b := by
  simp only [rtypeValid, Bool.or_eq_true, Bool.and_eq_true, decide_eq_true_eq] at ha hb
  unfold rtypeKey at h
  repeat' split at h
  all_goals omega

theorem evpnLaws : Lawful evpnImpl := by
  have base := (natLaws.lex bytesLaws).pull (fun m : Evpn => (rtypeKey m.rtype, m.raw))
    (fun m => evpnImpl.wf m = true) (fun _ _ => ⟨trivial, trivial⟩)
    (by
      intro a b ha hb h
      simp only [evpnImpl] at ha hb
      simp only [Prod.mk.injEq] at h
      have := rtypeKey_inj _ _ ha hb h.1
      cases a; cases b; simp_all)
  refine base.congr ?_ ?_
  · intro a b ha hb
    apply Bool.eq_iff_iff.mpr
    rw [base.beq_iff a b ha hb]
    simp only [evpnImpl, Bool.and_eq_true, beq_iff_eq]
    constructor
    · intro h; cases a; cases b; simp_all
    · intro h; subst h; exact ⟨rfl, rfl⟩
  · intro a b _ _; rfl

theorem famLaws (f : Fam) : Lawful (famImpl f) := by
  cases f
  case v4u => exact pfxLaws
  case v4m => exact pfxLaws
  case v6u => exact pfxLaws
  case v6m => exact pfxLaws
  case v4mpls => exact mplsLaws
  case v6mpls => exact mplsLaws
  case v4vpn => exact vpnLaws
  case v6vpn => exact vpnLaws
  case v4rt => exact rtLaws
  case v4fs => exact fsLaws
  case v6fs => exact fsLaws
  case vpls => exact vplsLaws
  case evpn => exact evpnLaws

theorem derivedLaws {α} {o : OrdImpl α} (h : Lawful o) : Lawful o.addpathDerived :=
  (natLaws.lex h).mono (fun _ hw => ⟨trivial, hw⟩)

theorem genericLaws {α} {o : OrdImpl α} (h : Lawful o) : Lawful o.addpathGeneric := by
  have base := (h.lex natLaws).pull (fun x : Nat × α => (x.2, x.1))
    (fun x => o.addpathGeneric.wf x = true) (fun _ hw => ⟨hw, trivial⟩)
    (by intro a b _ _ hh; cases a; cases b; simp_all)
  refine base.congr ?_ ?_
  · intro a b _ _
    simp only [OrdImpl.addpathGeneric, Bool.and_comm]
  · intro a b _ _; rfl

theorem famApLaws (f : Fam) : Lawful (famImplAp f) := by
  unfold famImplAp
  split
  · exact derivedLaws (famLaws f)
  · exact genericLaws (famLaws f)


/-! ### the `Nlri` enum -/

theorem idx_inj (f g : Fam) (h : Fam.idx f = Fam.idx g) : f = g := by
  cases f <;> cases g <;> simp [Fam.idx] at h <;> rfl

theorem idx_lt (f : Fam) : Fam.idx f < 13 := by cases f <;> simp [Fam.idx]

theorem typeIdx_eq (a b : AnyNlri) (h : a.typeIdx = b.typeIdx) :
    a.fam = b.fam ∧ a.pid.isSome = b.pid.isSome := by
  unfold AnyNlri.typeIdx at h
  have : Fam.idx a.fam = Fam.idx b.fam := by
    split at h <;> split at h <;> omega
  refine ⟨idx_inj _ _ this, ?_⟩
  rw [this] at h
  cases ha : a.pid.isSome <;> cases hb : b.pid.isSome <;> simp [ha, hb] at h ⊢

@[simp] theorem anyCmp_plain (f : Fam) (v w : f.Val) :
    anyCmp ⟨f, none, v⟩ ⟨f, none, w⟩ = (famImpl f).cmp v w := by simp [anyCmp]
@[simp] theorem anyCmp_ap (f : Fam) (p q : Nat) (v w : f.Val) :
    anyCmp ⟨f, some p, v⟩ ⟨f, some q, w⟩ = (famImplAp f).cmp (p, v) (q, w) := by simp [anyCmp]
@[simp] theorem anyEq_plain (f : Fam) (v w : f.Val) :
    anyEq ⟨f, none, v⟩ ⟨f, none, w⟩ = (famImpl f).eq v w := by simp [anyEq]
@[simp] theorem anyEq_ap (f : Fam) (p q : Nat) (v w : f.Val) :
    anyEq ⟨f, some p, v⟩ ⟨f, some q, w⟩ = (famImplAp f).eq (p, v) (q, w) := by simp [anyEq]

theorem anyCmp_of_ne (a b : AnyNlri) (h : a.typeIdx ≠ b.typeIdx) :
    anyCmp a b = compare a.typeIdx b.typeIdx := by
  obtain ⟨fa, pa, va⟩ := a
  obtain ⟨fb, pb, vb⟩ := b
  unfold anyCmp
  by_cases hf : fa = fb
  · subst hf
    cases pa <;> cases pb <;> simp_all [AnyNlri.typeIdx]
  · simp [hf]

theorem anyEq_of_ne (a b : AnyNlri) (h : a.typeIdx ≠ b.typeIdx) : anyEq a b = false := by
  obtain ⟨fa, pa, va⟩ := a
  obtain ⟨fb, pb, vb⟩ := b
  unfold anyEq
  by_cases hf : fa = fb
  · subst hf
    cases pa <;> cases pb <;> simp_all [AnyNlri.typeIdx]
  · simp [hf]

/-- two values of the same variant -/
inductive Same : AnyNlri → AnyNlri → Prop
  | plain (f : Fam) (v w : f.Val) : Same ⟨f, none, v⟩ ⟨f, none, w⟩
  | ap (f : Fam) (p q : Nat) (v w : f.Val) : Same ⟨f, some p, v⟩ ⟨f, some q, w⟩

theorem same_of_idx (a b : AnyNlri) (h : a.typeIdx = b.typeIdx) : Same a b := by
  obtain ⟨h1, h2⟩ := typeIdx_eq a b h
  obtain ⟨fa, pa, va⟩ := a
  obtain ⟨fb, pb, vb⟩ := b
  simp only at h1 h2
  subst h1
  cases pa <;> cases pb <;> simp at h2
  · exact .plain _ _ _
  · exact .ap _ _ _ _ _

theorem anyWf_ap {f : Fam} {p : Nat} {v : f.Val} (h : anyWf ⟨f, some p, v⟩ = true) :
    (famImplAp f).wf (p, v) = true := by
  unfold famImplAp; split <;> exact h

theorem anyLaws : CmpLaws (fun a => anyWf a = true) anyEq anyCmp where
  refl := by
    intro a ha
    obtain ⟨f, p, v⟩ := a
    cases p with
    | none => simpa using (famLaws f).refl v ha
    | some p => simpa using (famApLaws f).refl (p, v) (anyWf_ap ha)
  eq_of_cmp := by
    intro a b ha hb h
    by_cases hi : a.typeIdx = b.typeIdx
    · cases same_of_idx a b hi with
      | plain f v w =>
        simp only [anyCmp_plain] at h
        rw [(famLaws f).eq_of_cmp v w ha hb h]
      | ap f p q v w =>
        simp only [anyCmp_ap] at h
        have := (famApLaws f).eq_of_cmp (p, v) (q, w) (anyWf_ap ha) (anyWf_ap hb) h
        simp only [Prod.mk.injEq] at this
        rw [this.1, this.2]
    · rw [anyCmp_of_ne a b hi, Nat.compare_eq_eq] at h
      exact absurd h hi
  beq_iff := by
    intro a b ha hb
    by_cases hi : a.typeIdx = b.typeIdx
    · cases same_of_idx a b hi with
      | plain f v w =>
        simp only [anyEq_plain, (famLaws f).beq_iff v w ha hb]
        exact ⟨fun h => by rw [h], fun h => by cases h; rfl⟩
      | ap f p q v w =>
        simp only [anyEq_ap, (famApLaws f).beq_iff (p, v) (q, w) (anyWf_ap ha) (anyWf_ap hb)]
        exact ⟨fun h => by cases h; rfl, fun h => by cases h; rfl⟩
    · simp only [anyEq_of_ne a b hi, Bool.false_eq_true, false_iff]
      intro h; exact hi (by rw [h])
  swap := by
    intro a b ha hb
    by_cases hi : a.typeIdx = b.typeIdx
    · cases same_of_idx a b hi with
      | plain f v w => simpa using (famLaws f).swap v w ha hb
      | ap f p q v w => simpa using (famApLaws f).swap (p, v) (q, w) (anyWf_ap ha) (anyWf_ap hb)
    · rw [anyCmp_of_ne a b hi, anyCmp_of_ne b a (Ne.symm hi)]
      exact (Nat.compare_swap _ _).symm
  trans_lt := by
    intro a b c ha hb hc h1 h2
    have le_of : ∀ x y : AnyNlri, anyCmp x y = .lt → x.typeIdx ≤ y.typeIdx := by
      intro x y h
      by_cases hi : x.typeIdx = y.typeIdx
      · omega
      · rw [anyCmp_of_ne x y hi, Nat.compare_eq_lt] at h; omega
    have l1 := le_of a b h1
    have l2 := le_of b c h2
    by_cases hac : a.typeIdx = c.typeIdx
    · have hab : a.typeIdx = b.typeIdx := by omega
      have hbc : b.typeIdx = c.typeIdx := by omega
      cases same_of_idx a b hab with
      | plain f v w =>
        cases same_of_idx _ c hbc with
        | plain _ _ u =>
          simp only [anyCmp_plain] at h1 h2 ⊢
          exact (famLaws f).trans_lt v w u ha hb hc h1 h2
      | ap f p q v w =>
        cases same_of_idx _ c hbc with
        | ap _ _ r _ u =>
          simp only [anyCmp_ap] at h1 h2 ⊢
          exact (famApLaws f).trans_lt (p, v) (q, w) (r, u) (anyWf_ap ha) (anyWf_ap hb) (anyWf_ap hc) h1 h2
    · rw [anyCmp_of_ne a c hac, Nat.compare_eq_lt]; omega


/-! ### consequences, in the form the property states them -/

theorem CmpLaws.cmp_eq_iff {α} {P : α → Prop} {eq cmp} (h : CmpLaws P eq cmp) (a b : α) (ha : P a) (hb : P b) :
    cmp a b = .eq ↔ eq a b = true :=
  ⟨fun e => (h.beq_iff a b ha hb).mpr (h.eq_of_cmp a b ha hb e),
   fun e => by have := (h.beq_iff a b ha hb).mp e; subst this; exact h.refl a ha⟩

theorem CmpLaws.trans_le {α} {P : α → Prop} {eq cmp} (h : CmpLaws P eq cmp) (a b c : α)
    (ha : P a) (hb : P b) (hc : P c) (h1 : cmp a b ≠ .gt) (h2 : cmp b c ≠ .gt) : cmp a c ≠ .gt := by
  cases e1 : cmp a b with
  | gt => exact absurd e1 h1
  | lt =>
    cases e2 : cmp b c with
    | gt => exact absurd e2 h2
    | lt => rw [h.trans_lt a b c ha hb hc e1 e2]; simp
    | eq => have := h.eq_of_cmp b c hb hc e2; subst this; rw [e1]; simp
  | eq =>
    have := h.eq_of_cmp a b ha hb e1; subst this
    exact h2

theorem CmpLaws.connex {α} {P : α → Prop} {eq cmp} (h : CmpLaws P eq cmp) (a b : α) (ha : P a) (hb : P b) :
    cmp a b ≠ .gt ∨ cmp b a ≠ .gt := by
  rw [h.swap a b ha hb]
  cases cmp a b <;> simp

theorem CmpLaws.antisymm {α} {P : α → Prop} {eq cmp} (h : CmpLaws P eq cmp) (a b : α) (ha : P a) (hb : P b)
    (h1 : cmp a b ≠ .gt) (h2 : cmp b a ≠ .gt) : cmp a b = .eq := by
  rw [h.swap a b ha hb] at h2
  cases e : cmp a b <;> simp_all

end Rc.NlriOrd
