/-
Lemmas about the 19-byte BGP header model (`Rc.Open.headerCheck` / `headerParse`).
-/
import Rc.Model.Open

namespace Rc.Open
open Rc

@[simp] theorem marker_length : marker.length = 16 := rfl

theorem header_length (n : Nat) (t : UInt8) : (header n t).length = 19 := by
  simp [header]

theorem headerCheck_header (n : Nat) (t : UInt8) (rest : Bytes)
    (h : n = 19 + rest.length) (hn : n < 65536) :
    headerCheck (header n t ++ rest) = some rest := by
  unfold headerCheck
  have e : header n t ++ rest = marker ++ (be16 n ++ (t :: rest)) := by simp [header]
  have hl : (header n t ++ rest).length = n := by simp [header_length]; omega
  rw [show takeN 16 (header n t ++ rest) = some (marker, be16 n ++ (t :: rest)) by
    rw [e]; exact takeN_append marker _]
  simp only [ne_eq, not_true_eq_false, ite_false]
  rw [rd16_be16 n hn]
  simp [hl]

theorem headerParse_header (n : Nat) (t : UInt8) (rest : Bytes) (hn : n < 65536) :
    headerParse (header n t ++ rest) = some (n, t, rest) := by
  unfold headerParse
  have e : header n t ++ rest = marker ++ (be16 n ++ (t :: rest)) := by simp [header]
  rw [show takeN 16 (header n t ++ rest) = some (marker, be16 n ++ (t :: rest)) by
    rw [e]; exact takeN_append marker _]
  simp only [ne_eq, not_true_eq_false, ite_false]
  rw [rd16_be16 n hn]

/-- what `headerCheck` accepting means: the input is a header whose length
field equals the number of bytes supplied -/
theorem headerCheck_some {bs r : Bytes} (h : headerCheck bs = some r) :
    ∃ t, bs = header bs.length t ++ r ∧ bs.length < 65536 ∧ bs.length = 19 + r.length := by
  unfold headerCheck at h
  cases h16 : takeN 16 bs with
  | none => simp [h16] at h
  | some p =>
    obtain ⟨m, r1⟩ := p
    simp only [h16] at h
    by_cases hm : m = marker
    · simp only [hm, ne_eq, not_true_eq_false, ite_false] at h
      cases h2 : rd16 r1 with
      | none => simp [h2] at h
      | some q =>
        obtain ⟨len, r2⟩ := q
        simp only [h2] at h
        by_cases hl : len = bs.length
        · simp only [hl, not_true_eq_false, ite_false] at h
          cases r2 with
          | nil => simp at h
          | cons t r3 =>
            simp at h; subst h
            have ⟨_, hb⟩ := takeN_length h16
            have hlt := rd16_lt h2
            match r1, h2 with
            | a :: b :: r1', h2 =>
              simp [rd16] at h2
              obtain ⟨h2a, h2b⟩ := h2
              subst h2b
              refine ⟨t, ?_, by omega, ?_⟩
              · have : be16 len = [a, b] := by
                  simp [be16]
                  constructor
                  · apply UInt8.toNat_inj.mp; simp [UInt8.toNat_ofNat']; have := a.toNat_lt; have := b.toNat_lt; omega
                  · apply UInt8.toNat_inj.mp; simp [UInt8.toNat_ofNat']; have := a.toNat_lt; have := b.toNat_lt; omega
                rw [← hl, hb, hm]; simp [header, this]
              · rw [hb, hm]; simp; omega
        · simp [hl] at h
    · simp [hm] at h

end Rc.Open
