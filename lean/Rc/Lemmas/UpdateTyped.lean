/-
Lemmas for `Rc.Thm.C01.decode_encode`, part 1: one typed attribute – its value
octets in either ASN width are accepted by the type's `validate` and parsed
back to the value by the type's `parse` (C04's `value_spec` for four octets,
C13's `compose_spec` for two-octet AS paths); lists of attributes.
-/
import Rc.Lemmas.UpdateObs

namespace Rc.Upd
open Rc Rc.Nlri Rc.Attr Rc.AsPath

/-! ### width (in)dependence of the per-type rules -/

theorem validate_width (code : Nat) (v : Bytes) (h2 : code ≠ 2) (h7 : code ≠ 7) :
    validate code false v = validate code true v := by
  unfold validate
  simp [h2, h7]

theorem parseValue_width (code : Nat) (v : Bytes) (h2 : code ≠ 2) (h7 : code ≠ 7) :
    parseValue code false v = parseValue code true v := by
  unfold parseValue
  simp [h2, h7]

theorem encSegsW_eq (w : Bool) (ss : List Seg) : encSegsW w ss = encSegs w ss := by
  induction ss with
  | nil => rfl
  | cons s r ih =>
    simp only [encSegsW, List.flatMap_cons, encSegs_cons, encSeg, encAsnsW] at ih ⊢
    rw [← ih]

/-- a segment list of width `w`: accepted by the path `validate` loop of that
width and read back as its hops -/
theorem segs_spec (w : Bool) (ss : List Seg) (hw : ∀ s ∈ ss, s.wireOk w = true) :
    pathValid w (encSegs w ss) = true ∧ parsePath w (encSegs w ss) = .ok (hopsOfWire w ss) := by
  have hc := check_enc w ss hw
  have hs := segments_enc w ss hw
  exact ⟨by simp [pathValid, hc], by simp [parsePath, hc, hops, hs, hopsOfWire]⟩

/-! ### one typed value -/

theorem normW_true (a : TypedAttr) : normW true a = a.norm := by cases a <;> rfl

/-- **typed values in either width.** For every well-formed value of the 20
kinds and both ASN widths: the value octets exist, the type's `validate`
accepts them and the type's `parse` returns the value. -/
theorem typed_spec (four : Bool) (a : TypedAttr) (hw : WfAttrW a = true)
    (hn : four = false → narrowOk a = true) :
    ∃ v, typedValue four a = .ok v ∧ validate a.code four v = some true ∧
      parseValue a.code four v = .ok (normW four a) := by
  obtain ⟨v, h1, _, h3, h4⟩ := value_spec a hw
  cases four with
  | true =>
    refine ⟨v, ?_, h3, by rw [normW_true]; exact h4⟩
    cases a <;> try exact h1
    · -- asPath
      simp only [composeValue, pathBytes] at h1
      simp only [typedValue]
      split at h1 <;> simp_all
    · simp only [composeValue, pathBytes] at h1
      simp only [typedValue]
      split at h1 <;> simp_all
  | false =>
    have hn := hn rfl
    cases a with
    | asPath h =>
      have hwf : WfHops h = true := by simpa [WfAttrW] using hw
      have hsm : allSmall (asnsOf h) = true := by simpa [narrowOk] using hn
      obtain ⟨ss, _, c2, _, c4, c5, _⟩ := compose_spec h hwf
      obtain ⟨p1, p2⟩ := segs_spec false ss (c4 hsm)
      refine ⟨encSegs false ss, by simp [typedValue, c2, hsm], by simp [validate, TypedAttr.code, p1], ?_⟩
      simp [parseValue, TypedAttr.code, p2, normW, hopsOfWire, c5 false]
    | aggregator asn addr =>
      have h : asn < 4294967296 ∧ addr < 4294967296 := by simpa [WfAttrW, u32ok] using hw
      have hs : asn < 65536 := by simpa [narrowOk] using hn
      refine ⟨be16 asn ++ be32 addr, by simp [typedValue], by simp [validate, TypedAttr.code], ?_⟩
      simp [parseValue, TypedAttr.code, normW, rd16_be16 asn hs, rd32_be32' addr h.2]
    | as4Path h =>
      refine ⟨v, ?_, by rw [validate_width _ _ (by simp [TypedAttr.code]) (by simp [TypedAttr.code])]; exact h3,
        by rw [parseValue_width _ _ (by simp [TypedAttr.code]) (by simp [TypedAttr.code])]; exact h4⟩
      simp only [composeValue, pathBytes] at h1
      simp only [typedValue]
      split at h1 <;> simp_all
    | _ =>
      exact ⟨v, h1, by rw [validate_width _ _ (by simp [TypedAttr.code]) (by simp [TypedAttr.code])]; exact h3,
        by rw [parseValue_width _ _ (by simp [TypedAttr.code]) (by simp [TypedAttr.code])]; exact h4⟩

theorem typedCode_lt (a : TypedAttr) : a.code < 256 := by cases a <;> simp [TypedAttr.code]

theorem typedCode_table (a : TypedAttr) : ∃ cf, canonicalFlags a.code = some cf := by
  cases a <;> exact ⟨_, rfl⟩

namespace AttrC

theorem code_lt (a : AttrC) : a.code < 256 := by
  cases a with
  | typed _ t => exact typedCode_lt t
  | path _ as4 _ => cases as4 <;> simp [AttrC.code]
  | raw _ tc _ => exact tc.toNat_lt
  | reach _ _ _ _ _ => simp [AttrC.code]
  | unreach _ _ _ => simp [AttrC.code]
  | reachU _ _ _ _ _ => simp [AttrC.code]
  | unreachU _ _ _ => simp [AttrC.code]

theorem code_toNat (a : AttrC) : (UInt8.ofNat a.code).toNat = a.code := by
  have := a.code_lt
  simp [UInt8.toNat_ofNat']; omega

end AttrC

theorem validate_none (code : Nat) (four : Bool) (v : Bytes) (h : canonicalFlags code = none) :
    validate code four v = none := by
  unfold canonicalFlags at h
  split at h
  · simp at h
  · split at h
    · simp at h
    · split at h
      · simp at h
      · rename_i h1 h2 h3
        unfold validate
        simp only [not_or] at h1 h2 h3
        simp [h1, h2, h3]

/-- **one attribute of a content.** Its value octets exist; for the 20 typed
kinds `validate` accepts them and `parse` gives the value `to_owned()` has to
return, for the others there is no rule (they are surfaced as `Unimplemented`). -/
theorem attr_spec (cfg : Cfg) (a : AttrC) (hk : a.kindOk cfg) :
    a.value cfg = .ok (a.valueD cfg) ∧
      (match a.ownedT cfg with
        | some t => validate a.code cfg.four (a.valueD cfg) = some true ∧
            parseValue a.code cfg.four (a.valueD cfg) = .ok t
        | none => validate a.code cfg.four (a.valueD cfg) = none) := by
  cases a with
  | typed fl t =>
    obtain ⟨v, h1, h2, h3⟩ := typed_spec cfg.four t hk.1 hk.2
    have hv : AttrC.valueD cfg (.typed fl t) = v := by simp [AttrC.valueD, AttrC.value, h1]
    simp only [AttrC.ownedT, hv, AttrC.code]
    exact ⟨by simp [AttrC.value, h1], h2, h3⟩
  | path fl as4 ss =>
    have hv : AttrC.valueD cfg (.path fl as4 ss) = encSegs (as4 || cfg.four) ss := by
      simp [AttrC.valueD, AttrC.value, encSegsW_eq]
    obtain ⟨p1, p2⟩ := segs_spec (as4 || cfg.four) ss hk
    cases as4 with
    | false =>
      simp only [Bool.false_or] at hv p1 p2
      simp only [AttrC.ownedT, hv, AttrC.code, Bool.false_eq_true, ↓reduceIte]
      exact ⟨by simp [AttrC.value, encSegsW_eq], by simp [validate, p1], by simp [parseValue, p2]⟩
    | true =>
      simp only [Bool.true_or] at hv p1 p2
      simp only [AttrC.ownedT, hv, AttrC.code, ↓reduceIte]
      exact ⟨by simp [AttrC.value, encSegsW_eq], by simp [validate, p1], by simp [parseValue, p2]⟩
  | raw fl tc v =>
    simp only [AttrC.ownedT, AttrC.code]
    exact ⟨by simp [AttrC.valueD, AttrC.value], validate_none _ _ _ hk.1⟩
  | reach fl f nh rsv nlri =>
    obtain ⟨b, hb, _⟩ := nlris_reported f (cfg.rx (famCode f)) nlri hk.1
    simp only [AttrC.ownedT, AttrC.code]
    exact ⟨by simp [AttrC.valueD, AttrC.value, hb], by simp [validate]⟩
  | unreach fl f nlri =>
    obtain ⟨b, hb, _⟩ := nlris_reported f (cfg.rx (famCode f)) nlri hk
    simp only [AttrC.ownedT, AttrC.code]
    exact ⟨by simp [AttrC.valueD, AttrC.value, hb], by simp [validate]⟩
  | reachU fl k nh rsv body =>
    simp only [AttrC.ownedT, AttrC.code]
    exact ⟨by simp [AttrC.valueD, AttrC.value], by simp [validate]⟩
  | unreachU fl k body =>
    simp only [AttrC.ownedT, AttrC.code]
    exact ⟨by simp [AttrC.valueD, AttrC.value], by simp [validate]⟩

/-- what `path_attributes()` yields for the attribute and what `to_owned()` makes of it -/
theorem attr_reported (cfg : Cfg) (a : AttrC) (hk : a.kindOk cfg) :
    classify cfg.four (a.rawOf cfg).fl (a.rawOf cfg).tc (a.rawOf cfg).v = a.wire cfg ∧
      toOwned cfg.four (a.wire cfg) = .ok (a.owned cfg) := by
  obtain ⟨_, h2⟩ := attr_spec cfg a hk
  simp only [AttrC.rawOf, classify, a.code_toNat, AttrC.wire, AttrC.owned]
  cases ho : a.ownedT cfg with
  | some t =>
    simp only [ho] at h2
    simp [h2.1, toOwned, h2.2]
  | none =>
    simp only [ho] at h2
    simp [h2, toOwned]

/-! ### the attribute list -/

theorem lowerAll_ok (cfg : Cfg) : ∀ (l : List AttrC), (∀ a ∈ l, a.kindOk cfg) →
    lowerAll cfg l = .ok (l.map (AttrC.rawOf cfg)) := by
  intro l
  induction l with
  | nil => intro _; rfl
  | cons a r ih =>
    intro h
    have h1 := (attr_spec cfg a (h a (by simp))).1
    have h2 := ih (fun x hx => h x (by simp [hx]))
    simp [lowerAll, AttrC.lower, h1, h2, AttrC.rawOf]

theorem firstWith_map (cfg : Cfg) (k : Nat) : ∀ (l : List AttrC),
    firstWith k (l.map (AttrC.rawOf cfg)) = (l.find? (fun a => a.code == k)).map (AttrC.rawOf cfg) := by
  intro l
  induction l with
  | nil => rfl
  | cons a r ih =>
    simp only [List.map_cons, firstWith, List.find?_cons]
    have : (AttrC.rawOf cfg a).tc.toNat = a.code := a.code_toNat
    rw [this]
    by_cases hc : a.code = k
    · simp [hc]
    · have hb : (a.code == k) = false := by simpa using hc
      simp [hc, hb, ih]

end Rc.Upd
