/-
Helper lemmas for C16 (Rc/Thm/C16.lean): well-formedness predicates for the
reference encoder's inputs, and "decode ∘ encode" facts for every layer of
the MRT model.  Core Lean only.
-/
import Rc.Model.Mrt

set_option linter.unusedSimpArgs false
set_option linter.unusedVariables false

namespace Rc.Mrt
open Rc

/-! ### bytes -/

theorem rd8_cons (a : UInt8) (r : Bytes) : rd8 (a :: r) = some (a.toNat, r) := rfl

theorem rd16_short {l : Bytes} (h : l.length < 2) : rd16 l = none := by
  match l, h with
  | [], _ => rfl
  | [_], _ => rfl
  | _ :: _ :: _, h => simp at h; omega

theorem rd32_short {l : Bytes} (h : l.length < 4) : rd32 l = none := by
  match l, h with
  | [], _ => rfl
  | [_], _ => rfl
  | [_, _], _ => rfl
  | [_, _, _], _ => rfl
  | _ :: _ :: _ :: _ :: _, h => simp at h; omega

theorem takeN_short {n : Nat} {l : Bytes} (h : l.length < n) : takeN n l = none := by
  simp [takeN]; omega

theorem takeN_append' {n : Nat} (a r : Bytes) (h : a.length = n) : takeN n (a ++ r) = some (a, r) := by
  subst h; exact takeN_append a r

theorem take_append_ge {k : Nat} (a r : Bytes) (h : a.length ≤ k) :
    (a ++ r).take k = a ++ r.take (k - a.length) := by
  rw [List.take_append, List.take_of_length_le h]

theorem ofNat_toNat_lt {n : Nat} (h : n < 256) : (UInt8.ofNat n).toNat = n := by
  simp [UInt8.toNat_ofNat']; omega

/-! ### drain -/

theorem drain_none {σ α} {next : σ → Outcome (Option (α × σ))} {s : σ} (n : Nat)
    (h : next s = .ok none) : drain next (n + 1) s = .ok [] := by
  simp [drain, h]

theorem drain_some {σ α} {next : σ → Outcome (Option (α × σ))} {s s' : σ} {a : α} {l : List α}
    (n : Nat) (h : next s = .ok (some (a, s'))) (h' : drain next n s' = .ok l) :
    drain next (n + 1) s = .ok (a :: l) := by
  simp [drain, h, h']

/-! ### well-formed content -/

def WfPeer (p : PeerSpec) : Prop :=
  p.bgpId < 4294967296 ∧ (p.addr.length = 4 ∨ p.addr.length = 16) ∧
    p.asn < (if p.as4 then 4294967296 else 65536)

instance (p : PeerSpec) : Decidable (WfPeer p) := by unfold WfPeer; infer_instance

/-- `np` = number of peers in the file's index table -/
def WfEntry (np : Nat) (e : EntrySpec) : Prop :=
  e.peerIdx < np ∧ e.peerIdx < 65536 ∧ e.origTime < 4294967296 ∧ e.attrs.length < 65536

instance (np : Nat) (e : EntrySpec) : Decidable (WfEntry np e) := by unfold WfEntry; infer_instance

def WfTable (np : Nat) (t : TableSpec) : Prop :=
  t.ts < 4294967296 ∧ t.seq < 4294967296 ∧ t.plen ≤ (if t.v6 then 128 else 32) ∧
    t.pbytes.length = (t.plen + 7) / 8 ∧ hostZero t.plen t.pbytes = true ∧
    t.entries.length < 65536 ∧ (∀ e ∈ t.entries, WfEntry np e) ∧
    (encTableBody t).length < 4294967296

instance (np : Nat) (t : TableSpec) : Decidable (WfTable np t) := by unfold WfTable; infer_instance

def WfFile (f : FileSpec) : Prop :=
  f.ts < 4294967296 ∧ f.collector < 4294967296 ∧ f.view.length < 65536 ∧
    f.peers.length < 65536 ∧ (∀ p ∈ f.peers, WfPeer p) ∧
    (encPeerTableBody f).length < 4294967296 ∧ (∀ t ∈ f.tables, WfTable f.peers.length t)

instance (f : FileSpec) : Decidable (WfFile f) := by unfold WfFile; infer_instance

/-! ### CommonHeader -/

theorem parse_encRecord (ts ty sub : Nat) (body rest : Bytes)
    (hts : ts < 4294967296) (hty : ty = 13 ∨ ty = 16) (hsub : sub < 65536)
    (hlen : body.length < 4294967296) :
    CommonHeader.parse (encRecord ts ty sub body ++ rest)
      = .ok (⟨ts, ty, sub, body.length, 0, body⟩, rest) := by
  have hty' : ty < 65536 := by omega
  have h17 : ty ≠ 17 := by omega
  simp [CommonHeader.parse, encRecord, List.append_assoc, rd32_be32, rd16_be16, takeN_append, *]

theorem parse_encRecordEt (ts sub mus : Nat) (body rest : Bytes)
    (hts : ts < 4294967296) (hsub : sub < 65536) (hmus : mus < 4294967296)
    (hlen : body.length + 4 < 4294967296) :
    CommonHeader.parse (encRecordEt ts sub mus body ++ rest)
      = .ok (⟨ts, 17, sub, body.length, mus, body⟩, rest) := by
  simp [CommonHeader.parse, encRecordEt, List.append_assoc, rd32_be32, rd16_be16, takeN_append, *]

/-! ### peer index table -/

theorem parse_encPeer (p : PeerSpec) (rest : Bytes) (h : WfPeer p) :
    PeerEntry.parse (encPeer p ++ rest) = .ok (p.entry, rest) := by
  obtain ⟨hid, haddr, hasn⟩ := h
  cases h4 : p.as4 <;> rcases haddr with ha | ha <;>
    simp [h4, ha] at hasn ⊢ <;>
    simp [PeerEntry.parse, encPeer, rd8_cons, h4, ha, List.append_assoc, rd32_be32, rd16_be16,
      takeN_append', PeerSpec.entry, *]

theorem encPeer_ne_nil (p : PeerSpec) (rest : Bytes) : (encPeer p ++ rest).isEmpty = false := by
  simp [encPeer]

theorem drain_peers (ps : List PeerSpec) (h : ∀ p ∈ ps, WfPeer p) (fuel : Nat)
    (hf : ps.length < fuel) :
    drain peerNext fuel (ps.flatMap encPeer) = .ok (ps.map PeerSpec.entry) := by
  induction ps generalizing fuel with
  | nil =>
    obtain ⟨n, rfl⟩ : ∃ n, fuel = n + 1 := ⟨fuel - 1, by omega⟩
    exact drain_none n (by simp [peerNext])
  | cons p ps ih =>
    obtain ⟨n, rfl⟩ : ∃ n, fuel = n + 1 := ⟨fuel - 1, by omega⟩
    have hp : WfPeer p := h p (by simp)
    have hps : ∀ q ∈ ps, WfPeer q := fun q hq => h q (by simp [hq])
    simp only [List.flatMap_cons, List.map_cons]
    refine drain_some n ?_ (ih hps n (by simp at hf; omega))
    simp [peerNext, encPeer_ne_nil, parse_encPeer _ _ hp]

theorem length_le_flatMap {α} (enc : α → Bytes) (xs : List α) (h : ∀ x ∈ xs, 1 ≤ (enc x).length) :
    xs.length ≤ (xs.flatMap enc).length := by
  induction xs with
  | nil => simp
  | cons x xs ih =>
    have h1 := h x (by simp)
    have h2 := ih (fun y hy => h y (by simp [hy]))
    simp only [List.flatMap_cons, List.length_cons, List.length_append]; omega

theorem encPeer_length_pos (p : PeerSpec) : 1 ≤ (encPeer p).length := by simp [encPeer]

theorem parse_peerTableBody (f : FileSpec) (h : WfFile f) :
    PeerIndexTable.parse (encPeerTableBody f)
      = .ok ⟨f.collector, f.view, f.peers.length, f.peers.flatMap encPeer⟩ := by
  obtain ⟨_, hc, hv, hp, _, _, _⟩ := h
  by_cases hv0 : f.view.length = 0
  · have : f.view = [] := List.eq_nil_of_length_eq_zero hv0
    simp [PeerIndexTable.parse, encPeerTableBody, this, rd32_be32, rd16_be16, *]
  · have : f.view.length > 0 := by omega
    simp [PeerIndexTable.parse, encPeerTableBody, rd32_be32, rd16_be16, takeN_append, *]

/-- `extractPeerIndexTable` in terms of the results of its parts (stated over
an arbitrary byte string so that nothing has to be evaluated). -/
theorem extract_of_parts {bs rest : Bytes} {m : CommonHeader} {pit : PeerIndexTable}
    {peers : List PeerEntry}
    (h : CommonHeader.parse bs = .ok (m, rest)) (h13 : m.msgType = 13) (h1 : m.subtype = 1)
    (hp : PeerIndexTable.parse m.message = .ok pit)
    (hd : drain peerNext (pit.peerEntries.length + 1) pit.peerEntries = .ok peers)
    (hc : peers.length = pit.peerCount) :
    extractPeerIndexTable bs = .ok (peers, rest) := by
  unfold extractPeerIndexTable
  rw [h]
  simp only [h13, h1, hp, hd, hc, if_true]

theorem extract_encFile (f : FileSpec) (h : WfFile f) :
    extractPeerIndexTable (encFile f) = .ok (f.peers.map PeerSpec.entry, encTables f.tables) := by
  have h' := h
  obtain ⟨hts, _, _, _, hps, hlen, _⟩ := h'
  have hd := drain_peers f.peers hps ((f.peers.flatMap encPeer).length + 1)
    (by have := length_le_flatMap encPeer f.peers (fun p _ => encPeer_length_pos p); omega)
  have hh := parse_encRecord f.ts 13 1 (encPeerTableBody f) (encTables f.tables) hts (Or.inl rfl)
    (by omega) hlen
  exact extract_of_parts (bs := encFile f) hh rfl rfl (parse_peerTableBody f h) hd (by simp)

theorem peerIndex_of_parts {bs rest : Bytes} {peers : List PeerEntry}
    (he : extractPeerIndexTable bs = .ok (peers, rest)) : peerIndex bs = .ok peers := by
  unfold peerIndex; rw [he]

/-! ### RIB tables -/

theorem parsePrefix_enc (v6 : Bool) (plen : Nat) (pb r : Bytes)
    (hl : plen ≤ (if v6 then 128 else 32)) (hb : pb.length = (plen + 7) / 8)
    (hz : hostZero plen pb = true) :
    parsePrefix v6 (UInt8.ofNat plen :: (pb ++ r)) = .ok (⟨v6, plen, pb⟩, r) := by
  have h256 : plen < 256 := by split at hl <;> omega
  have hnb : ¬ ((plen + 7) / 8 > (if v6 then 16 else 4)) := by cases v6 <;> simp at hl ⊢ <;> omega
  have hgt : ¬ (plen > (if v6 then 128 else 32)) := by omega
  simp only [parsePrefix, rd8_cons, ofNat_toNat_lt h256, hnb, hgt, if_false, takeN_append' pb r hb, hz,
    if_true]

def TableSpec.hdr (t : TableSpec) : RibEntryHeader :=
  ⟨t.seq, t.pfx, t.entries.length, encEntries t.entries⟩

theorem parse_encTableBody (np : Nat) (t : TableSpec) (h : WfTable np t) :
    RibEntryHeader.parse t.v6 (encTableBody t) = .ok t.hdr := by
  obtain ⟨_, hseq, hpl, hpb, hz, hn, _, _⟩ := h
  simp only [RibEntryHeader.parse, encTableBody, rd32_be32 _ hseq, parsePrefix_enc t.v6 t.plen t.pbytes _ hpl hpb hz,
    rd16_be16 _ hn, TableSpec.hdr, TableSpec.pfx]

theorem parse_encEntry (np : Nat) (e : EntrySpec) (rest : Bytes) (h : WfEntry np e) :
    RibEntry.parse (encEntry e ++ rest) = .ok (⟨e.peerIdx, e.origTime, e.attrs⟩, rest) := by
  obtain ⟨_, hi, ho, ha⟩ := h
  simp only [RibEntry.parse, encEntry, List.append_assoc, rd16_be16 _ hi, rd32_be32 _ ho, rd16_be16 _ ha,
    takeN_append]

theorem encEntry_ne_nil (e : EntrySpec) (rest : Bytes) : (encEntry e ++ rest).isEmpty = false := by
  simp [encEntry, be16]

theorem encEntry_length_pos (e : EntrySpec) : 1 ≤ (encEntry e).length := by simp [encEntry]; omega

theorem encEntries_cons (e : EntrySpec) (es : List EntrySpec) :
    encEntries (e :: es) = encEntry e ++ encEntries es := by simp [encEntries]

theorem encEntries_isEmpty (es : List EntrySpec) : (encEntries es).isEmpty = es.isEmpty := by
  cases es with
  | nil => rfl
  | cons e es => simp [encEntries_cons, encEntry, be16]

theorem encRecord_ne_nil (ts ty sub : Nat) (body rest : Bytes) :
    (encRecord ts ty sub body ++ rest).isEmpty = false := by simp [encRecord, be32]

theorem encTables_cons (t : TableSpec) (ts : List TableSpec) :
    encTables (t :: ts) = encTable t ++ encTables ts := by simp [encTables]

/-- the CommonHeader of a RIB table record -/
def TableSpec.cm (t : TableSpec) : CommonHeader :=
  ⟨t.ts, 13, if t.v6 then 4 else 2, (encTableBody t).length, 0, encTableBody t⟩

theorem parse_encTable (np : Nat) (t : TableSpec) (rest : Bytes) (h : WfTable np t) :
    CommonHeader.parse (encTable t ++ rest) = .ok (t.cm, rest) := by
  obtain ⟨hts, _, _, _, _, _, _, hlen⟩ := h
  exact parse_encRecord t.ts 13 _ (encTableBody t) rest hts (Or.inl rfl) (by split <;> omega) hlen

/-! ### TableDumpIterator / SingleEntryIterator -/

theorem tableNext_of_parts {bs rest : Bytes} {m : CommonHeader} {reh : RibEntryHeader} (v6 : Bool)
    (hne : bs.isEmpty = false) (h : CommonHeader.parse bs = .ok (m, rest)) (h13 : m.msgType = 13)
    (hs : m.subtype = (if v6 then 4 else 2)) (hr : RibEntryHeader.parse v6 m.message = .ok reh) :
    tableNext bs = .ok (some ((v6, reh), rest)) := by
  unfold tableNext
  rw [h]
  cases v6 <;> simp_all

theorem tableNext_encTable (np : Nat) (t : TableSpec) (rest : Bytes) (h : WfTable np t) :
    tableNext (encTable t ++ rest) = .ok (some ((t.v6, t.hdr), rest)) :=
  tableNext_of_parts (m := t.cm) t.v6 (encRecord_ne_nil _ _ _ _ _) (parse_encTable np t rest h) rfl rfl
    (parse_encTableBody np t h)

theorem drain_tables (np : Nat) (ts : List TableSpec) (h : ∀ t ∈ ts, WfTable np t) (fuel : Nat)
    (hf : ts.length < fuel) :
    drain tableNext fuel (encTables ts) = .ok (ts.map fun t => (t.v6, t.hdr)) := by
  induction ts generalizing fuel with
  | nil =>
    obtain ⟨n, rfl⟩ : ∃ n, fuel = n + 1 := ⟨fuel - 1, by omega⟩
    exact drain_none n (by simp [tableNext, encTables])
  | cons t ts ih =>
    obtain ⟨n, rfl⟩ : ∃ n, fuel = n + 1 := ⟨fuel - 1, by omega⟩
    rw [encTables_cons, List.map_cons]
    exact drain_some n (tableNext_encTable np t _ (h t (by simp)))
      (ih (fun q hq => h q (by simp [hq])) n (by simp at hf; omega))

theorem encTable_length_pos (t : TableSpec) : 1 ≤ (encTable t).length := by
  simp [encTable, encRecord]; omega

theorem tables_of_parts {bs rest : Bytes} {peers : List PeerEntry} {ts : List (Bool × RibEntryHeader)}
    (he : extractPeerIndexTable bs = .ok (peers, rest))
    (hd : drain tableNext (rest.length + 1) rest = .ok ts) : tables bs = .ok (peers, ts) := by
  unfold tables
  rw [he]
  simp only [hd]

theorem singleNext_of_parts {p : Prefix} {bs r : Bytes} {re : RibEntry}
    (hne : bs.isEmpty = false) (h : RibEntry.parse bs = .ok (re, r)) :
    singleNext p bs = .ok (some ((p, re.peerIdx, re.attrs), r)) := by
  unfold singleNext
  rw [h]
  simp [hne]

theorem drain_single (np : Nat) (p : Prefix) (es : List EntrySpec) (h : ∀ e ∈ es, WfEntry np e)
    (fuel : Nat) (hf : es.length < fuel) :
    drain (singleNext p) fuel (encEntries es) = .ok (es.map fun e => (p, e.peerIdx, e.attrs)) := by
  induction es generalizing fuel with
  | nil =>
    obtain ⟨n, rfl⟩ : ∃ n, fuel = n + 1 := ⟨fuel - 1, by omega⟩
    exact drain_none n (by simp [singleNext, encEntries])
  | cons e es ih =>
    obtain ⟨n, rfl⟩ : ∃ n, fuel = n + 1 := ⟨fuel - 1, by omega⟩
    rw [encEntries_cons, List.map_cons]
    exact drain_some n
      (singleNext_of_parts (encEntry_ne_nil e _) (parse_encEntry np e _ (h e (by simp))))
      (ih (fun q hq => h q (by simp [hq])) n (by simp at hf; omega))

/-- what `SingleEntryIterator` yields for a table -/
def TableSpec.singles (t : TableSpec) : List SingleItem :=
  t.entries.map fun e => (t.pfx, e.peerIdx, e.attrs)

theorem single_hdr (np : Nat) (t : TableSpec) (h : WfTable np t) : single t.hdr = .ok t.singles := by
  obtain ⟨_, _, _, _, _, _, hes, _⟩ := h
  unfold single
  exact drain_single np t.pfx t.entries hes _
    (by have := length_le_flatMap encEntry t.entries (fun e _ => encEntry_length_pos e)
        simp only [TableSpec.hdr, encEntries]; omega)

theorem mtRun_ok (hs : List (Bool × RibEntryHeader)) (g : Bool × RibEntryHeader → List SingleItem)
    (h : ∀ t ∈ hs, single t.2 = .ok (g t)) : mtRun hs = .ok (hs.flatMap g) := by
  induction hs with
  | nil => rfl
  | cons t ts ih =>
    simp only [mtRun, h t (by simp), ih (fun q hq => h q (by simp [hq])), List.flatMap_cons]

theorem ribEntriesMtSeq_of_parts {bs : Bytes} {peers : List PeerEntry}
    {ts : List (Bool × RibEntryHeader)} (h : tables bs = .ok (peers, ts)) :
    ribEntriesMtSeq bs = mtRun ts := by
  unfold ribEntriesMtSeq; rw [h]

/-! ### RibEntryIterator -/

/-- peer `i` of the index table (total; inside the envelope `i` is in range) -/
def resolve (peers : List PeerEntry) (i : Nat) : PeerEntry := peers.getD i ⟨0, [], 0⟩

theorem resolve_lt {peers : List PeerEntry} {i : Nat} (h : i < peers.length) :
    peers[i]? = some (resolve peers i) := by
  simp [resolve, List.getD, List.getElem?_eq_getElem h]

/-- what `RibEntryIterator` yields for entry `e` of table `t` -/
def ribItem (peers : List PeerEntry) (t : TableSpec) (e : EntrySpec) : RibItem :=
  (t.v6, e.peerIdx, resolve peers e.peerIdx, t.pfx, e.attrs)

/-- `current_table` while the entries `es` of table `t` are still to come -/
def curOf (t : TableSpec) (es : List EntrySpec) : Option RibEntryHeader :=
  if es.isEmpty then none else some { t.hdr with entries := encEntries es }

theorem ribLoad_cur {s : RibIt} {table : RibEntryHeader} (hc : s.cur = some table) :
    ribLoad s = .ok (some s) := by
  unfold ribLoad; rw [hc]

theorem ribLoad_of_parts {s : RibIt} {rest : Bytes} {m : CommonHeader} {reh : RibEntryHeader}
    (v6 : Bool) (hc : s.cur = none) (hne : s.rest.isEmpty = false)
    (h : CommonHeader.parse s.rest = .ok (m, rest)) (h13 : m.msgType = 13)
    (hs : m.subtype = (if v6 then 4 else 2)) (hr : RibEntryHeader.parse v6 m.message = .ok reh) :
    ribLoad s = .ok (some ⟨rest, some reh, some v6⟩) := by
  unfold ribLoad
  rw [hc, h]
  cases v6 <;> simp_all

theorem ribTake_of_parts {peers : List PeerEntry} {s : RibIt} {table : RibEntryHeader} {v6 : Bool}
    {re : RibEntry} {r : Bytes} {peer : PeerEntry}
    (hc : s.cur = some table) (hf : s.fam = some v6)
    (he : RibEntry.parse table.entries = .ok (re, r)) (hp : peers[re.peerIdx]? = some peer) :
    ribTake peers s = .ok (some ((v6, re.peerIdx, peer, table.pfx, re.attrs),
      ⟨s.rest, if r.isEmpty then none else some { table with entries := r }, s.fam⟩)) := by
  unfold ribTake
  rw [hc]
  simp only [he, hp, hf]

theorem ribNextF_succ (peers : List PeerEntry) (f : Nat) (s : RibIt) :
    ribNextF peers (f + 1) s =
      match ribLoad s with
      | .ok none => .ok none
      | .ok (some s') =>
        match s'.cur with
        | none => .panic
        | some table =>
          if table.entries.isEmpty then ribNextF peers f ⟨s'.rest, none, s'.fam⟩
          else ribTake peers s'
      | .err => .err
      | .panic => .panic := rfl

/-- with a current table that has entries, `next` is its second half -/
theorem ribNext_of_cur {peers : List PeerEntry} {s : RibIt} {table : RibEntryHeader}
    (hc : s.cur = some table) (hne : table.entries.isEmpty = false) :
    ribNext peers s = ribTake peers s := by
  unfold ribNext
  rw [ribNextF_succ, ribLoad_cur hc]
  simp [hc, hne]

/-- taking the next entry `e` of the current table -/
theorem ribTake_entry (peers : List PeerEntry) (t : TableSpec) (R : Bytes) (e : EntrySpec)
    (es : List EntrySpec) (he : WfEntry peers.length e) :
    ribTake peers ⟨R, some { t.hdr with entries := encEntries (e :: es) }, some t.v6⟩
      = .ok (some (ribItem peers t e, ⟨R, curOf t es, some t.v6⟩)) := by
  have h1 := ribTake_of_parts (peers := peers)
    (s := ⟨R, some { t.hdr with entries := encEntries (e :: es) }, some t.v6⟩)
    (table := { t.hdr with entries := encEntries (e :: es) }) (v6 := t.v6)
    (re := ⟨e.peerIdx, e.origTime, e.attrs⟩) (r := encEntries es) (peer := resolve peers e.peerIdx)
    rfl rfl (by rw [encEntries_cons]; exact parse_encEntry peers.length e _ he) (resolve_lt he.1)
  rw [h1]
  simp only [encEntries_isEmpty, curOf, ribItem, TableSpec.hdr]

theorem drain_rib_tail (peers : List PeerEntry) (t : TableSpec) (R : Bytes) (l : List RibItem)
    (fuel : Nat) (hl : drain (ribNext peers) fuel ⟨R, none, some t.v6⟩ = .ok l)
    (es : List EntrySpec) (hes : ∀ e ∈ es, WfEntry peers.length e) :
    drain (ribNext peers) (fuel + es.length) ⟨R, curOf t es, some t.v6⟩
      = .ok (es.map (ribItem peers t) ++ l) := by
  induction es with
  | nil => simpa [curOf] using hl
  | cons e es ih =>
    have hcur : curOf t (e :: es) = some { t.hdr with entries := encEntries (e :: es) } := by
      simp [curOf]
    rw [hcur, List.length_cons, ← Nat.add_assoc, List.map_cons, List.cons_append]
    refine drain_some _ ?_ (ih (fun q hq => hes q (by simp [hq])))
    rw [ribNext_of_cur (table := { t.hdr with entries := encEntries (e :: es) }) rfl
      (by simp [encEntries_isEmpty])]
    exact ribTake_entry peers t R e es (hes e (by simp))

/-- number of entries in a list of tables -/
def totalEntries (ts : List TableSpec) : Nat := (ts.map fun t => t.entries.length).sum

/-- what the first `next()` on the tables `ts` (no table current) returns: the first entry of
the first table that has one -/
def nextSpec (peers : List PeerEntry) : List TableSpec → Option (RibItem × RibIt)
  | [] => none
  | t :: ts =>
    match t.entries with
    | [] => nextSpec peers ts
    | e :: es => some (ribItem peers t e, ⟨encTables ts, curOf t es, some t.v6⟩)

theorem ribNextF_tables (peers : List PeerEntry) (ts : List TableSpec)
    (hts : ∀ t ∈ ts, WfTable peers.length t) (fam : Option Bool) (f : Nat) (hf : ts.length < f) :
    ribNextF peers f ⟨encTables ts, none, fam⟩ = .ok (nextSpec peers ts) := by
  induction ts generalizing fam f with
  | nil =>
    obtain ⟨n, rfl⟩ : ∃ n, f = n + 1 := ⟨f - 1, by simp at hf; omega⟩
    rw [ribNextF_succ]
    simp [ribLoad, encTables, nextSpec]
  | cons t ts ih =>
    obtain ⟨n, rfl⟩ : ∃ n, f = n + 1 := ⟨f - 1, by simp at hf; omega⟩
    have ht := hts t (by simp)
    have hload : ribLoad ⟨encTables (t :: ts), none, fam⟩
        = .ok (some ⟨encTables ts, some t.hdr, some t.v6⟩) := by
      rw [encTables_cons]
      exact ribLoad_of_parts (m := t.cm) t.v6 rfl (encRecord_ne_nil _ _ _ _ _)
        (parse_encTable _ t _ ht) rfl rfl (parse_encTableBody _ t ht)
    rw [ribNextF_succ, hload]
    dsimp only
    match hE : t.entries with
    | [] =>
      have h0 : t.hdr.entries.isEmpty = true := by simp [TableSpec.hdr, hE, encEntries]
      simp only [h0, if_true, nextSpec, hE]
      exact ih (fun q hq => hts q (by simp [hq])) _ n (by simp at hf; omega)
    | e :: es =>
      have h0 : t.hdr.entries.isEmpty = false := by
        simp only [TableSpec.hdr, encEntries_isEmpty, hE]; rfl
      have hhdr : t.hdr = { t.hdr with entries := encEntries (e :: es) } := by
        simp [TableSpec.hdr, hE]
      simp only [h0, nextSpec, hE]
      have hes := ht.2.2.2.2.2.2.1
      rw [hE] at hes
      have := ribTake_entry peers t (encTables ts) e es (hes e (by simp))
      rw [← hhdr] at this
      simpa using this

theorem encTables_length_ge (ts : List TableSpec) : ts.length ≤ (encTables ts).length := by
  induction ts with
  | nil => simp [encTables]
  | cons t ts ih =>
    have : 1 ≤ (encTable t).length := by simp [encTable, encRecord]; omega
    simp only [encTables_cons, List.length_append, List.length_cons]; omega

theorem ribNext_tables (peers : List PeerEntry) (ts : List TableSpec)
    (hts : ∀ t ∈ ts, WfTable peers.length t) (fam : Option Bool) :
    ribNext peers ⟨encTables ts, none, fam⟩ = .ok (nextSpec peers ts) := by
  unfold ribNext
  exact ribNextF_tables peers ts hts fam _ (by have := encTables_length_ge ts; simp only; omega)

theorem drain_congr {σ α} {next : σ → Outcome (Option (α × σ))} {s s' : σ} (n : Nat)
    (h : next s = next s') : drain next (n + 1) s = drain next (n + 1) s' := by
  simp only [drain, h]

theorem drain_rib_tables (peers : List PeerEntry) (ts : List TableSpec)
    (hts : ∀ t ∈ ts, WfTable peers.length t) (fam : Option Bool) (fuel : Nat) (hf : 1 ≤ fuel) :
    drain (ribNext peers) (fuel + totalEntries ts) ⟨encTables ts, none, fam⟩
      = .ok (ts.flatMap fun t => t.entries.map (ribItem peers t)) := by
  induction ts generalizing fam with
  | nil =>
    obtain ⟨n, rfl⟩ : ∃ n, fuel = n + 1 := ⟨fuel - 1, by omega⟩
    exact drain_none _ (by rw [ribNext_tables peers [] (by simp)]; rfl)
  | cons t ts ih =>
    have ht := hts t (by simp)
    have hes := ht.2.2.2.2.2.2.1
    have hts' : ∀ q ∈ ts, WfTable peers.length q := fun q hq => hts q (by simp [hq])
    match hE : t.entries with
    | [] =>
      have hfuel : fuel + totalEntries (t :: ts) = fuel + totalEntries ts := by
        simp [totalEntries, hE]
      obtain ⟨n, hn⟩ : ∃ n, fuel + totalEntries ts = n + 1 := ⟨fuel + totalEntries ts - 1, by omega⟩
      rw [hfuel, List.flatMap_cons, hE, List.map_nil, List.nil_append, ← ih hts' fam, hn]
      refine drain_congr n ?_
      rw [ribNext_tables peers (t :: ts) hts, ribNext_tables peers ts hts']
      simp [nextSpec, hE]
    | e :: es =>
      have hstep : ribNext peers ⟨encTables (t :: ts), none, fam⟩
          = .ok (some (ribItem peers t e, ⟨encTables ts, curOf t es, some t.v6⟩)) := by
        rw [ribNext_tables peers (t :: ts) hts]
        simp [nextSpec, hE]
      have hrest := drain_rib_tail peers t (encTables ts) _ (fuel + totalEntries ts)
        (ih hts' (some t.v6)) es
        (by rw [hE] at hes; exact fun q hq => hes q (by simp [hq]))
      have hfuel : fuel + totalEntries (t :: ts) = (fuel + totalEntries ts + es.length) + 1 := by
        simp [totalEntries, hE]; omega
      rw [hfuel, List.flatMap_cons, hE, List.map_cons, List.cons_append]
      exact drain_some _ hstep hrest

theorem totalEntries_le (ts : List TableSpec) : totalEntries ts ≤ (encTables ts).length := by
  induction ts with
  | nil => simp [totalEntries]
  | cons t ts ih =>
    have h1 := length_le_flatMap encEntry t.entries (fun e _ => encEntry_length_pos e)
    have h2 : (encEntries t.entries).length ≤ (encTable t).length := by
      simp [encTable, encRecord, encTableBody, encEntries]; omega
    simp only [totalEntries, List.map_cons, List.sum_cons, encTables_cons, List.length_append] at ih ⊢
    simp only [encEntries] at h2
    omega

theorem ribEntries_of_parts {bs rest : Bytes} {peers : List PeerEntry}
    (he : extractPeerIndexTable bs = .ok (peers, rest)) :
    ribEntries bs = drain (ribNext peers) (rest.length + 1) ⟨rest, none, none⟩ := by
  unfold ribEntries
  rw [he]

/-! ### BGP4MP -/

def asBound (as4 : Bool) : Nat := if as4 then 4294967296 else 65536
def addrLen (v6 : Bool) : Nat := if v6 then 16 else 4

def WfBody : Bgp4Mp → Prop
  | .stateChange as4 pa la ifc v6 p l o n =>
    pa < asBound as4 ∧ la < asBound as4 ∧ ifc < 65536 ∧ p.length = addrLen v6 ∧ l.length = addrLen v6 ∧
      o < 65536 ∧ n < 65536
  | .message as4 pa la ifc v6 p l _ =>
    pa < asBound as4 ∧ la < asBound as4 ∧ ifc < 65536 ∧ p.length = addrLen v6 ∧ l.length = addrLen v6

instance (b : Bgp4Mp) : Decidable (WfBody b) := by cases b <;> (unfold WfBody; infer_instance)

def WfRec (r : RecSpec) : Prop :=
  r.ts < 4294967296 ∧ r.mus < 4294967296 ∧ WfBody r.body ∧ (encBody r.body).length + 4 < 4294967296

instance (r : RecSpec) : Decidable (WfRec r) := by unfold WfRec; infer_instance

theorem parsePeering_enc (as4 : Bool) (pa la ifc : Nat) (v6 : Bool) (p l rest : Bytes)
    (hpa : pa < asBound as4) (hla : la < asBound as4) (hifc : ifc < 65536)
    (hp : p.length = addrLen v6) (hl : l.length = addrLen v6) :
    parsePeering as4 (encPeering as4 pa la ifc v6 p l ++ rest) = .ok ((pa, la, ifc, v6, p, l), rest) := by
  cases as4 <;> cases v6 <;> simp [asBound, addrLen] at hpa hla hp hl <;>
    simp [parsePeering, encPeering, encAs, List.append_assoc, rd32_be32, rd16_be16, takeN_append', *]

theorem parseBody_enc (b : Bgp4Mp) (h : WfBody b) : parseBody (subtypeOf b) (encBody b) = .ok b := by
  cases b with
  | stateChange as4 pa la ifc v6 p l o n =>
    obtain ⟨hpa, hla, hifc, hp, hl, ho, hn⟩ := h
    have h2 : rd16 (be16 n) = some (n, []) := by simpa using rd16_be16 n hn []
    cases as4 <;>
      simp [parseBody, subtypeOf, encBody, parseStateChange, parsePeering_enc _ _ _ _ _ _ _ _ hpa hla hifc hp hl,
        rd16_be16 _ ho, h2]
  | message as4 pa la ifc v6 p l bgp =>
    obtain ⟨hpa, hla, hifc, hp, hl⟩ := h
    cases as4 <;>
      simp [parseBody, subtypeOf, encBody, parseMessage, parsePeering_enc _ _ _ _ _ _ _ _ hpa hla hifc hp hl]

theorem subtypeOf_lt (b : Bgp4Mp) : subtypeOf b < 65536 := by
  cases b with
  | stateChange as4 => cases as4 <;> simp [subtypeOf]
  | message as4 => cases as4 <;> simp [subtypeOf]

/-- the CommonHeader of a BGP4MP record -/
def RecSpec.cm (r : RecSpec) : CommonHeader :=
  if r.et then ⟨r.ts, 17, subtypeOf r.body, (encBody r.body).length, r.mus, encBody r.body⟩
  else ⟨r.ts, 16, subtypeOf r.body, (encBody r.body).length, 0, encBody r.body⟩

theorem parse_encRec (r : RecSpec) (rest : Bytes) (h : WfRec r) :
    CommonHeader.parse (encRec r ++ rest) = .ok (r.cm, rest) := by
  obtain ⟨hts, hmus, _, hlen⟩ := h
  unfold encRec RecSpec.cm
  cases r.et
  · simpa using parse_encRecord r.ts 16 _ (encBody r.body) rest hts (Or.inr rfl) (subtypeOf_lt _) (by omega)
  · simpa using parse_encRecordEt r.ts _ r.mus (encBody r.body) rest hts (subtypeOf_lt _) hmus hlen

theorem encRec_ne_nil (r : RecSpec) (rest : Bytes) : (encRec r ++ rest).isEmpty = false := by
  unfold encRec; cases r.et <;> simp [encRecord, encRecordEt, be32]

theorem encRec_length_pos (r : RecSpec) : 1 ≤ (encRec r).length := by
  unfold encRec; cases r.et <;> simp [encRecord, encRecordEt] <;> omega

theorem encRecs_cons (r : RecSpec) (rs : List RecSpec) : encRecs (r :: rs) = encRec r ++ encRecs rs := by
  simp [encRecs]

theorem msgPoll_of_parts {bs rest : Bytes} {m : CommonHeader} {item : Bgp4Mp} (fuel : Nat)
    (hne : bs.isEmpty = false) (h : CommonHeader.parse bs = .ok (m, rest))
    (ht : m.msgType = 16 ∨ m.msgType = 17) (hb : parseBody m.subtype m.message = .ok item) :
    msgPoll (fuel + 1) bs = .ok (some item, rest) := by
  unfold msgPoll
  rw [h]
  simp only [hne, ht, hb, if_true]
  simp

/-- header error (or nothing left): `None`, and the parser is at its end -/
theorem msgPoll_fuse {bs : Bytes} (fuel : Nat) (h : CommonHeader.parse bs = .err) :
    msgPoll (fuel + 1) bs = .ok (none, []) := by
  unfold msgPoll
  rw [h]
  split
  · rename_i he; simp [List.isEmpty_iff.1 he]
  · rfl

theorem msgPoll_encRec (r : RecSpec) (rest : Bytes) (fuel : Nat) (h : WfRec r) :
    msgPoll (fuel + 1) (encRec r ++ rest) = .ok (some r.body, rest) := by
  refine msgPoll_of_parts (m := r.cm) fuel (encRec_ne_nil r rest) (parse_encRec r rest h) ?_ ?_
  · unfold RecSpec.cm; cases r.et <;> simp
  · have := parseBody_enc r.body h.2.2.1
    unfold RecSpec.cm; cases r.et <;> simpa using this

theorem msgsRun_none {s e : Bytes} (n : Nat) (h : msgPoll (s.length + 1) s = .ok (none, e)) :
    msgsRun (n + 1) s = .ok ([], e) := by
  simp [msgsRun, h]

theorem msgsRun_some {s s' e : Bytes} {a : Bgp4Mp} {l : List Bgp4Mp} (n : Nat)
    (h : msgPoll (s.length + 1) s = .ok (some a, s')) (h' : msgsRun n s' = .ok (l, e)) :
    msgsRun (n + 1) s = .ok (a :: l, e) := by
  simp [msgsRun, h, h']

/-! ### the skip rule -/

/-- a record the message iterator passes over (`continue`): it frames
correctly, and it is either not a BGP4MP record or its body does not parse -/
def Skippable (b : Bytes) : Prop :=
  b.isEmpty = false ∧ ∀ rest, ∃ m, CommonHeader.parse (b ++ rest) = .ok (m, rest) ∧
    ((¬ (m.msgType = 16 ∨ m.msgType = 17)) ∨ parseBody m.subtype m.message = .err)

/-- one record of a mixed file -/
inductive Seg where
  | bgp (r : RecSpec)
  | skip (b : Bytes)

def Seg.enc : Seg → Bytes
  | .bgp r => encRec r
  | .skip b => b

def Seg.Wf : Seg → Prop
  | .bgp r => WfRec r
  | .skip b => Skippable b

def encSegs (ss : List Seg) : Bytes := ss.flatMap Seg.enc

/-- the BGP4MP items of a mixed file, in order -/
def bodiesOf : List Seg → List Bgp4Mp
  | [] => []
  | .bgp r :: ss => r.body :: bodiesOf ss
  | .skip _ :: ss => bodiesOf ss

/-- drop the leading skipped records -/
def splitFirst : List Seg → Option (RecSpec × List Seg)
  | [] => none
  | .bgp r :: ss => some (r, ss)
  | .skip _ :: ss => splitFirst ss

theorem msgPoll_skip {b rest : Bytes} (fuel : Nat) (h : Skippable b) :
    msgPoll (fuel + 1) (b ++ rest) = msgPoll fuel rest := by
  obtain ⟨hne, hp⟩ := h
  obtain ⟨m, hm, hs⟩ := hp rest
  have hne' : (b ++ rest).isEmpty = false := by
    cases b with
    | nil => simp at hne
    | cons x xs => rfl
  rw [msgPoll]
  rw [hm]
  simp only [hne']
  rcases hs with hs | hs
  · simp [hs]
  · by_cases ht : m.msgType = 16 ∨ m.msgType = 17
    · simp [ht, hs]
    · simp [ht]

theorem msgPoll_segs (ss : List Seg) (h : ∀ s ∈ ss, s.Wf) (fuel : Nat) (hf : ss.length < fuel) :
    msgPoll fuel (encSegs ss) =
      match splitFirst ss with
      | none => .ok (none, [])
      | some (r, after) => .ok (some r.body, encSegs after) := by
  induction ss generalizing fuel with
  | nil =>
    obtain ⟨n, rfl⟩ : ∃ n, fuel = n + 1 := ⟨fuel - 1, by omega⟩
    simp [encSegs, splitFirst, msgPoll]
  | cons s ss ih =>
    obtain ⟨n, rfl⟩ : ∃ n, fuel = n + 1 := ⟨fuel - 1, by omega⟩
    have hs := h s (by simp)
    cases s with
    | bgp r =>
      simp only [encSegs, List.flatMap_cons, Seg.enc, splitFirst]
      exact msgPoll_encRec r _ n hs
    | skip b =>
      simp only [encSegs, List.flatMap_cons, Seg.enc, splitFirst]
      rw [msgPoll_skip n hs]
      exact ih (fun q hq => h q (by simp [hq])) n (by simp at hf; omega)

theorem splitFirst_length {ss after : List Seg} {r : RecSpec} (h : splitFirst ss = some (r, after)) :
    after.length < ss.length := by
  induction ss with
  | nil => simp [splitFirst] at h
  | cons s ss ih =>
    cases s with
    | bgp r' => simp [splitFirst] at h; simp [h.2]
    | skip b => simp [splitFirst] at h; have := ih h; simp; omega

theorem bodiesOf_split (ss : List Seg) :
    bodiesOf ss = match splitFirst ss with
      | none => []
      | some (r, after) => r.body :: bodiesOf after := by
  induction ss with
  | nil => rfl
  | cons s ss ih =>
    cases s with
    | bgp r => rfl
    | skip b => simpa [bodiesOf, splitFirst] using ih

theorem Seg.enc_length_pos (s : Seg) (h : s.Wf) : 1 ≤ s.enc.length := by
  cases s with
  | bgp r => exact encRec_length_pos r
  | skip b =>
    obtain ⟨hne, _⟩ := h
    cases b with
    | nil => simp at hne
    | cons x xs => simp [Seg.enc]

theorem msgsRun_segs (k : Nat) : ∀ (ss : List Seg), ss.length ≤ k → (∀ s ∈ ss, s.Wf) →
    ∀ n, (bodiesOf ss).length < n → msgsRun n (encSegs ss) = .ok (bodiesOf ss, []) := by
  induction k with
  | zero =>
    intro ss hk _ n hn
    have : ss = [] := List.eq_nil_of_length_eq_zero (by omega)
    subst this
    obtain ⟨n, rfl⟩ : ∃ m, n = m + 1 := ⟨n - 1, by simp [bodiesOf] at hn; omega⟩
    exact msgsRun_none n (by simp [encSegs, msgPoll])
  | succ k ih =>
    intro ss hk h n hn
    obtain ⟨n, rfl⟩ : ∃ m, n = m + 1 := ⟨n - 1, by omega⟩
    have hlen : ss.length < (encSegs ss).length + 1 := by
      have := length_le_flatMap Seg.enc ss (fun s hs => Seg.enc_length_pos s (h s hs))
      simp only [encSegs]; omega
    have hp := msgPoll_segs ss h _ hlen
    rw [bodiesOf_split] at hn ⊢
    cases hsf : splitFirst ss with
    | none =>
      rw [hsf] at hp
      exact msgsRun_none n hp
    | some p =>
      obtain ⟨r, after⟩ := p
      rw [hsf] at hp hn
      have hl := splitFirst_length hsf
      have hmem : ∀ s ∈ after, s.Wf := by
        intro s hs
        have : ∀ (l : List Seg) (a : List Seg) (r : RecSpec), splitFirst l = some (r, a) → ∀ x ∈ a, x ∈ l := by
          intro l
          induction l with
          | nil => intro a r h; simp [splitFirst] at h
          | cons y ys ihy =>
            intro a r h x hx
            cases y with
            | bgp r' => simp [splitFirst] at h; right; rw [h.2]; exact hx
            | skip b => simp [splitFirst] at h; simp [ihy a r h x hx]
        exact h s (this ss after r hsf s hs)
      exact msgsRun_some n hp (ih after (by omega) hmem n (by simp at hn; omega))

/-- every framed TABLE_DUMP_V2 record is passed over by the message iterator -/
theorem skippable_td2 (ts sub : Nat) (body : Bytes) (hts : ts < 4294967296) (hsub : sub < 65536)
    (hlen : body.length < 4294967296) : Skippable (encRecord ts 13 sub body) := by
  refine ⟨by simp [encRecord, be32], fun rest => ⟨_, parse_encRecord ts 13 sub body rest hts (Or.inl rfl) hsub hlen, ?_⟩⟩
  left; simp

/-- a BGP4MP record whose body does not parse (e.g. unsupported AFI, short
body) is passed over -/
theorem skippable_bad_body (ts sub : Nat) (body : Bytes) (hts : ts < 4294967296) (hsub : sub < 65536)
    (hlen : body.length < 4294967296) (hb : parseBody sub body = .err) :
    Skippable (encRecord ts 16 sub body) := by
  refine ⟨by simp [encRecord, be32], fun rest => ⟨_, parse_encRecord ts 16 sub body rest hts (Or.inr rfl) hsub hlen, ?_⟩⟩
  right; exact hb

/-! ### truncation: a strict prefix of a record is a header error, never a panic -/

theorem rd32_take_short (l : Bytes) {k : Nat} (h : k < 4) : rd32 (l.take k) = none :=
  rd32_short (by simp [List.length_take]; omega)

theorem rd16_take_short (l : Bytes) {k : Nat} (h : k < 2) : rd16 (l.take k) = none :=
  rd16_short (by simp [List.length_take]; omega)

/-- fewer than the 12 header octets -/
theorem parse_take_hdr_short (ts ty sub len : Nat) (tail : Bytes) (hts : ts < 4294967296)
    (hty : ty < 65536) (hsub : sub < 65536) (k : Nat) (hk : k < 12) :
    CommonHeader.parse ((be32 ts ++ (be16 ty ++ (be16 sub ++ (be32 len ++ tail)))).take k) = .err := by
  by_cases h1 : k < 4
  · simp [CommonHeader.parse, rd32_take_short _ h1]
  rw [take_append_ge _ _ (by simp; omega)]
  by_cases h2 : k - 4 < 2
  · simp [CommonHeader.parse, rd32_be32 _ hts, rd16_take_short _ h2]
  rw [take_append_ge _ _ (by simp; omega)]
  by_cases h3 : k - 4 - 2 < 2
  · simp only [CommonHeader.parse, rd32_be32 _ hts, rd16_be16 _ hty, be32_length, be16_length,
      rd16_take_short _ h3]
    split <;> rfl
  rw [take_append_ge _ _ (by simp; omega)]
  have h4 : k - 4 - 2 - 2 < 4 := by omega
  simp only [CommonHeader.parse, rd32_be32 _ hts, rd16_be16 _ hty, rd16_be16 _ hsub, be32_length,
    be16_length, rd32_take_short _ h4]
  split <;> rfl

/-- at least the 12 header octets -/
theorem take_hdr (ts ty sub len : Nat) (tail : Bytes) (k : Nat) (hk : 12 ≤ k) :
    (be32 ts ++ (be16 ty ++ (be16 sub ++ (be32 len ++ tail)))).take k
      = be32 ts ++ (be16 ty ++ (be16 sub ++ (be32 len ++ tail.take (k - 12)))) := by
  rw [take_append_ge _ _ (by simp; omega), take_append_ge _ _ (by simp; omega),
    take_append_ge _ _ (by simp; omega), take_append_ge _ _ (by simp; omega)]
  simp only [be32_length, be16_length]
  congr 5

theorem parse_take_encRecord (ts ty sub : Nat) (body : Bytes) (hts : ts < 4294967296)
    (hty : ty = 13 ∨ ty = 16) (hsub : sub < 65536) (hlen : body.length < 4294967296) (k : Nat)
    (hk : k < (encRecord ts ty sub body).length) :
    CommonHeader.parse ((encRecord ts ty sub body).take k) = .err := by
  unfold encRecord at hk ⊢
  by_cases h12 : k < 12
  · exact parse_take_hdr_short ts ty sub _ _ hts (by omega) hsub k h12
  rw [take_hdr _ _ _ _ _ _ (by omega)]
  have hshort : takeN body.length (body.take (k - 12)) = none :=
    takeN_short (by simp [List.length_take] at hk ⊢; omega)
  have hty' : ty < 65536 := by omega
  have h17 : ty ≠ 17 := by omega
  simp [CommonHeader.parse, rd32_be32, rd16_be16, hshort, *]

theorem parse_take_encRecordEt (ts sub mus : Nat) (body : Bytes) (hts : ts < 4294967296)
    (hsub : sub < 65536) (hmus : mus < 4294967296) (hlen : body.length + 4 < 4294967296) (k : Nat)
    (hk : k < (encRecordEt ts sub mus body).length) :
    CommonHeader.parse ((encRecordEt ts sub mus body).take k) = .err := by
  unfold encRecordEt at hk ⊢
  by_cases h12 : k < 12
  · exact parse_take_hdr_short ts 17 sub _ _ hts (by omega) hsub k h12
  rw [take_hdr _ _ _ _ _ _ (by omega)]
  by_cases h16 : k - 12 < 4
  · simp [CommonHeader.parse, rd32_be32, rd16_be16, rd32_take_short _ h16, *]
  rw [take_append_ge _ _ (by simp; omega)]
  have hshort : takeN body.length (body.take (k - 12 - 4)) = none :=
    takeN_short (by simp [List.length_take] at hk ⊢; omega)
  simp [CommonHeader.parse, rd32_be32, rd16_be16, hshort, *]

theorem parse_take_encRec (r : RecSpec) (h : WfRec r) (k : Nat) (hk : k < (encRec r).length) :
    CommonHeader.parse ((encRec r).take k) = .err := by
  obtain ⟨hts, hmus, _, hlen⟩ := h
  unfold encRec at hk ⊢
  cases het : r.et
  · rw [het] at hk
    exact parse_take_encRecord r.ts 16 _ _ hts (Or.inr rfl) (subtypeOf_lt _) (by omega) k (by simpa using hk)
  · rw [het] at hk
    exact parse_take_encRecordEt r.ts _ r.mus _ hts (subtypeOf_lt _) hmus hlen k (by simpa using hk)

end Rc.Mrt
