/-
Lemmas for C10's glue theorems (Rc/Thm/C10.lean, `route_of_update_spec` ...):

* the bridge between the two models of an AS path attribute value - C17's
  `PaMap.parseSegs / parseSegs2 / toHops / composeHops` (octet strings) and C13's
  `AsPath.check / segments / hops` (numbers): they accept the same octets and
  denote the same hops;
* what C04's `Attr.parseValue` reads from the value a typed attribute of the map
  holds, for the six attribute types path selection looks at.
-/
import Rc.Model.PathSelGlue
import Rc.Lemmas.PaMapPath
import Rc.Lemmas.AsPath
import Rc.Thm.C17

namespace Rc.PathSelGlue
open Rc Rc.PaMap

/-- the AS number four octets stand for -/
def nat4 : Bytes → Nat
  | [a, b, c, d] => a.toNat * 16777216 + b.toNat * 65536 + c.toNat * 256 + d.toNat
  | _ => 0

theorem takeN_none_iff {k : Nat} {bs : Bytes} : takeN k bs = none ↔ bs.length < k := by
  unfold takeN; split <;> simp <;> omega

/-! ### `takeAsns` / `takeAsns2` against `takeN` + `dec32` / `dec16` -/

theorem takeAsns_view : ∀ (n : Nat) (bs : Bytes) (l : List Bytes) (r : Bytes), takeAsns n bs = some (l, r) →
    ∃ v, takeN (n * 4) bs = some (v, r) ∧ AsPath.dec32 v = l.map nat4
  | 0, bs, l, r, h => by
    simp only [takeAsns, Option.some.injEq, Prod.mk.injEq] at h
    obtain ⟨rfl, rfl⟩ := h
    exact ⟨[], by simp [takeN], rfl⟩
  | n + 1, bs, l, r, h => by
    match bs, h with
    | a :: b :: c :: d :: t, h =>
      simp only [takeAsns] at h
      cases hr : takeAsns n t with
      | none => simp [hr] at h
      | some p =>
        obtain ⟨l', r'⟩ := p
        simp only [hr, Option.some.injEq, Prod.mk.injEq] at h
        obtain ⟨rfl, rfl⟩ := h
        obtain ⟨v', hv, hd⟩ := takeAsns_view n t l' r' hr
        obtain ⟨hl, ht⟩ := takeN_length hv
        refine ⟨a :: b :: c :: d :: v', ?_, ?_⟩
        · have e : (n + 1) * 4 = (a :: b :: c :: d :: v').length := by simp [hl]; omega
          rw [e, ht]
          exact takeN_append (a :: b :: c :: d :: v') r'
        · simp [AsPath.dec32, hd, nat4]
    | [], h => simp [takeAsns] at h
    | [_], h => simp [takeAsns] at h
    | [_, _], h => simp [takeAsns] at h
    | [_, _, _], h => simp [takeAsns] at h

theorem takeAsns_none : ∀ (n : Nat) (bs : Bytes), takeAsns n bs = none → takeN (n * 4) bs = none
  | 0, bs, h => by simp [takeAsns] at h
  | n + 1, bs, h => by
    rw [takeN_none_iff]
    match bs, h with
    | a :: b :: c :: d :: t, h =>
      simp only [takeAsns] at h
      cases hr : takeAsns n t with
      | none =>
        have := takeN_none_iff.mp (takeAsns_none n t hr)
        simp; omega
      | some p => simp [hr] at h
    | [], _ => simp
    | [_], _ => simp; omega
    | [_, _], _ => simp; omega
    | [_, _, _], _ => simp; omega

theorem takeAsns2_view : ∀ (n : Nat) (bs : Bytes) (l : List Bytes) (r : Bytes), takeAsns2 n bs = some (l, r) →
    ∃ v, takeN (n * 2) bs = some (v, r) ∧ AsPath.dec16 v = l.map nat4
  | 0, bs, l, r, h => by
    simp only [takeAsns2, Option.some.injEq, Prod.mk.injEq] at h
    obtain ⟨rfl, rfl⟩ := h
    exact ⟨[], by simp [takeN], rfl⟩
  | n + 1, bs, l, r, h => by
    match bs, h with
    | a :: b :: t, h =>
      simp only [takeAsns2] at h
      cases hr : takeAsns2 n t with
      | none => simp [hr] at h
      | some p =>
        obtain ⟨l', r'⟩ := p
        simp only [hr, Option.some.injEq, Prod.mk.injEq] at h
        obtain ⟨rfl, rfl⟩ := h
        obtain ⟨v', hv, hd⟩ := takeAsns2_view n t l' r' hr
        obtain ⟨hl, ht⟩ := takeN_length hv
        refine ⟨a :: b :: v', ?_, ?_⟩
        · have e : (n + 1) * 2 = (a :: b :: v').length := by simp [hl]; omega
          rw [e, ht]
          exact takeN_append (a :: b :: v') r'
        · simp [AsPath.dec16, hd, nat4]
    | [], h => simp [takeAsns2] at h
    | [_], h => simp [takeAsns2] at h

theorem takeAsns2_none : ∀ (n : Nat) (bs : Bytes), takeAsns2 n bs = none → takeN (n * 2) bs = none
  | 0, bs, h => by simp [takeAsns2] at h
  | n + 1, bs, h => by
    rw [takeN_none_iff]
    match bs, h with
    | a :: b :: t, h =>
      simp only [takeAsns2] at h
      cases hr : takeAsns2 n t with
      | none =>
        have := takeN_none_iff.mp (takeAsns2_none n t hr)
        simp; omega
      | some p => simp [hr] at h
    | [], _ => simp
    | [_], _ => simp; omega

/-! ### the two parsers accept the same octets and see the same segments -/

/-- a segment of C17's model as C13's model holds it -/
def segOf (four : Bool) (s : SegB) : AsPath.Seg := ⟨s.1.toNat, four, s.2.map nat4⟩

theorem segTypeOk_iff (t : UInt8) : AsPath.segTypeOk t = true ↔ (1 ≤ t.toNat ∧ t.toNat ≤ 4) := by
  simp [AsPath.segTypeOk]

theorem bridge4 : ∀ (fuel : Nat) (bs : Bytes), bs.length ≤ fuel →
    (∀ ss, parseSegs fuel bs = some ss →
      AsPath.checkF true fuel bs = .ok () ∧ AsPath.segmentsF true fuel bs = .ok (ss.map (segOf true))) ∧
    (parseSegs fuel bs = none → AsPath.checkF true fuel bs = .err)
  | fuel, [], _ => by
    cases fuel <;> simp [parseSegs, AsPath.checkF, AsPath.segmentsF]
  | 0, _ :: _, hl => by simp at hl
  | fuel + 1, [t], _ => by
    simp only [parseSegs, AsPath.checkF]
    refine ⟨fun ss h => (by cases h), fun _ => ?_⟩
    split <;> rfl
  | fuel + 1, t :: n :: r, hl => by
    simp only [parseSegs, AsPath.checkF, AsPath.segmentsF]
    by_cases ht : 1 ≤ t.toNat ∧ t.toNat ≤ 4
    · have hok : AsPath.segTypeOk t = true := (segTypeOk_iff t).mpr ht
      simp only [ht, and_self, if_true, hok, Bool.not_true, Bool.false_eq_true, if_false, AsPath.asnSize]
      cases ha : takeAsns n.toNat r with
      | none =>
        simp only [takeAsns_none _ _ ha]
        exact ⟨fun ss h => (by cases h), fun _ => by first | rfl | trivial⟩
      | some p =>
        obtain ⟨asns, r'⟩ := p
        obtain ⟨v, hv, hd⟩ := takeAsns_view _ _ _ _ ha
        obtain ⟨_, hrr⟩ := takeN_length hv
        have hr' : r'.length ≤ fuel := by
          have : r.length = v.length + r'.length := by rw [hrr]; simp
          simp at hl; omega
        obtain ⟨ih1, ih2⟩ := bridge4 fuel r' hr'
        simp only [hv]
        cases hp : parseSegs fuel r' with
        | none =>
          simp only [ih2 hp]
          exact ⟨fun ss h => (by cases h), fun _ => by first | rfl | trivial⟩
        | some segs =>
          obtain ⟨c1, c2⟩ := ih1 segs hp
          refine ⟨fun ss h => ?_, fun h => by cases h⟩
          simp only [Option.some.injEq] at h
          subst h
          simp [c1, c2, segOf, AsPath.decAsns, hd]
    · have hok : AsPath.segTypeOk t = false := by
        cases h : AsPath.segTypeOk t
        · rfl
        · exact absurd ((segTypeOk_iff t).mp h) ht
      simp only [ht, if_false, hok, Bool.not_false, if_true]
      exact ⟨fun ss h => (by cases h), fun _ => by first | rfl | trivial⟩

theorem bridge2 : ∀ (fuel : Nat) (bs : Bytes), bs.length ≤ fuel →
    (∀ ss, parseSegs2 fuel bs = some ss →
      AsPath.checkF false fuel bs = .ok () ∧ AsPath.segmentsF false fuel bs = .ok (ss.map (segOf false))) ∧
    (parseSegs2 fuel bs = none → AsPath.checkF false fuel bs = .err)
  | fuel, [], _ => by
    cases fuel <;> simp [parseSegs2, AsPath.checkF, AsPath.segmentsF]
  | 0, _ :: _, hl => by simp at hl
  | fuel + 1, [t], _ => by
    simp only [parseSegs2, AsPath.checkF]
    refine ⟨fun ss h => (by cases h), fun _ => ?_⟩
    split <;> rfl
  | fuel + 1, t :: n :: r, hl => by
    simp only [parseSegs2, AsPath.checkF, AsPath.segmentsF]
    by_cases ht : 1 ≤ t.toNat ∧ t.toNat ≤ 4
    · have hok : AsPath.segTypeOk t = true := (segTypeOk_iff t).mpr ht
      simp only [ht, and_self, if_true, hok, Bool.not_true, Bool.false_eq_true, if_false, AsPath.asnSize]
      cases ha : takeAsns2 n.toNat r with
      | none =>
        simp only [takeAsns2_none _ _ ha]
        exact ⟨fun ss h => (by cases h), fun _ => by first | rfl | trivial⟩
      | some p =>
        obtain ⟨asns, r'⟩ := p
        obtain ⟨v, hv, hd⟩ := takeAsns2_view _ _ _ _ ha
        obtain ⟨_, hrr⟩ := takeN_length hv
        have hr' : r'.length ≤ fuel := by
          have : r.length = v.length + r'.length := by rw [hrr]; simp
          simp at hl; omega
        obtain ⟨ih1, ih2⟩ := bridge2 fuel r' hr'
        simp only [hv]
        cases hp : parseSegs2 fuel r' with
        | none =>
          simp only [ih2 hp]
          exact ⟨fun ss h => (by cases h), fun _ => by first | rfl | trivial⟩
        | some segs =>
          obtain ⟨c1, c2⟩ := ih1 segs hp
          refine ⟨fun ss h => ?_, fun h => by cases h⟩
          simp only [Option.some.injEq] at h
          subst h
          simp [c1, c2, segOf, AsPath.decAsns, hd]
    · have hok : AsPath.segTypeOk t = false := by
        cases h : AsPath.segTypeOk t
        · rfl
        · exact absurd ((segTypeOk_iff t).mp h) ht
      simp only [ht, if_false, hok, Bool.not_false, if_true]
      exact ⟨fun ss h => (by cases h), fun _ => by first | rfl | trivial⟩

/-- the width-`four` parser of C17's model -/
def parseSegsW (four : Bool) (v : Bytes) : Option (List SegB) :=
  if four then parseSegs v.length v else parseSegs2 v.length v

theorem bridge (four : Bool) (v : Bytes) :
    (∀ ss, parseSegsW four v = some ss →
      AsPath.check four v = .ok () ∧ AsPath.segments four v = .ok (ss.map (segOf four))) ∧
    (parseSegsW four v = none → AsPath.check four v = .err) := by
  cases four
  · simpa [parseSegsW, AsPath.check, AsPath.segments] using bridge2 v.length v (Nat.le_refl _)
  · simpa [parseSegsW, AsPath.check, AsPath.segments] using bridge4 v.length v (Nat.le_refl _)

/-! ### the same hops -/

/-- a hop of C17's model as path selection sees it -/
def selHopB : PaMap.Hop → PathSel.Hop
  | .asn a => .asn (nat4 a)
  | .seg t asns => .seg t.toNat (asns.map nat4)

theorem hops_same (four : Bool) : ∀ (ss : List SegB),
    (AsPath.hopsOfSegs (ss.map (segOf four))).map selHop = (toHops ss).map selHopB
  | [] => rfl
  | (t, asns) :: r => by
    have ih := hops_same four r
    have e : AsPath.hopsOfSegs (((t, asns) :: r).map (segOf four)) =
        AsPath.hopsOfSeg (segOf four (t, asns)) ++ AsPath.hopsOfSegs (r.map (segOf four)) := by
      simp [AsPath.hopsOfSegs]
    rw [e, List.map_append, ih]
    simp only [toHops, AsPath.hopsOfSeg, segOf]
    have h2 : (t.toNat = 2) ↔ (t = 2) := by
      constructor
      · intro h; exact UInt8.toNat_inj.mp (by simpa using h)
      · intro h; subst h; rfl
    by_cases hc : t = 2 ∧ asns ≠ []
    · obtain ⟨rfl, hne⟩ := hc
      have hne' : asns.map nat4 ≠ [] := by simpa using hne
      have h22 : (2 : UInt8).toNat = 2 := rfl
      simp only [h22, hne, hne', and_self, ne_eq, not_false_eq_true, if_true, List.map_append, List.map_map]
      congr 1
    · have hc' : ¬ (t.toNat = 2 ∧ asns.map nat4 ≠ []) := by
        intro h; exact hc ⟨h2.mp h.1, by simpa using h.2⟩
      simp only [hc, hc', if_false, List.map_cons, List.map_nil, List.cons_append, List.nil_append, selHop, selHopB]

/-! ### the AS_PATH a typed attribute of the map holds -/

theorem typedValueW_path (four : Bool) (v : Bytes) :
    typedValueW four 2 v = (parseSegsW four v).map fun ss => composeHops (toHops ss) [] := by
  cases four
  · simp only [typedValueW, parseSegsW, normAsPath2, Bool.false_eq_true, if_false, if_true]
    cases parseSegs2 v.length v <;> rfl
  · simp only [typedValueW, typedValue, parseSegsW, normAsPath, if_true]
    simp
    cases parseSegs v.length v <;> rfl

theorem parseSegsW_ok (four : Bool) (v : Bytes) (ss : List SegB) (h : parseSegsW four v = some ss) :
    ∀ s ∈ ss, SegOk s := by
  cases four
  · exact parseSegs2_ok _ _ _ (by simpa [parseSegsW] using h)
  · exact parseSegs_ok _ _ _ (by simpa [parseSegsW] using h)

theorem toHopPath_of_segs (four : Bool) (v : Bytes) (ss : List SegB) (h : parseSegsW four v = some ss) :
    AsPath.toHopPath four v = .ok (AsPath.hopsOfSegs (ss.map (segOf four))) := by
  obtain ⟨c1, c2⟩ := (bridge four v).1 ss h
  simp [AsPath.toHopPath, AsPath.hops, c1, c2]

/-- the normal form `compose_value` writes, as segments -/
theorem norm_segs (ss : List SegB) (hs : ∀ s ∈ ss, SegOk s) :
    ∃ S, parseSegsW true (composeHops (toHops ss) []) = some S ∧ toHops S = toHops ss := by
  obtain ⟨s1, s2⟩ := segsOf_spec (toHops ss) [] (toHops_ok ss hs) (by simp)
  have hlen : (segsOf (toHops ss) []).length ≤ (encSegsB (segsOf (toHops ss) [])).length := by
    generalize segsOf (toHops ss) [] = S
    induction S with
    | nil => simp
    | cons a t ih => simp only [encSegsB, List.flatMap_cons, List.length_append, List.length_cons, encSegB] at *; omega
  have hp := parseSegs_enc _ s1 _ hlen
  simp only [List.reverse_nil, List.map_nil, List.nil_append] at s2
  refine ⟨segsOf (toHops ss) [], ?_, s2⟩
  simp only [parseSegsW, if_true]
  rw [composeHops_eq (toHops ss) [], hp]

/-- **the AS_PATH glue**: the value a typed AS_PATH of a map built from an UPDATE holds
(`typedValueW`: read in the session's width, held four octets wide in `to_as_path`'s normal
form) is read back by C04's `parse` to a hop path with the hops C13's `toHopPath` reads from
the octets on the wire in the session's width - up to the storage width of segment hops,
which path selection does not look at. -/
theorem path_glue (four : Bool) (v w : Bytes) (h : typedValueW four 2 v = some w) :
    ∃ h1 h2, AsPath.toHopPath four v = .ok h1 ∧ Attr.parseValue 2 true w = .ok (.asPath h2) ∧
      h2.map selHop = h1.map selHop := by
  rw [typedValueW_path] at h
  cases hp : parseSegsW four v with
  | none => simp [hp] at h
  | some ss =>
    simp only [hp, Option.map_some, Option.some.injEq] at h
    subst h
    obtain ⟨S, hS, hH⟩ := norm_segs ss (parseSegsW_ok four v ss hp)
    have t1 := toHopPath_of_segs four v ss hp
    have t2 := toHopPath_of_segs true _ S hS
    refine ⟨_, AsPath.hopsOfSegs (S.map (segOf true)), t1, ?_, ?_⟩
    · have : Attr.parsePath true (composeHops (toHops ss) []) = AsPath.toHopPath true (composeHops (toHops ss) []) := by
        unfold Attr.parsePath AsPath.toHopPath
        cases AsPath.check true (composeHops (toHops ss) []) <;> rfl
      simp only [Attr.parseValue, this, t2]
      simp
    · rw [hops_same, hops_same, hH]

theorem path_glue_none (four : Bool) (v : Bytes) (h : typedValueW four 2 v = none) :
    AsPath.toHopPath four v = .err := by
  rw [typedValueW_path] at h
  cases hp : parseSegsW four v with
  | none => simp [AsPath.toHopPath, (bridge four v).2 hp]
  | some ss => simp [hp] at h

/-! ### the map built from an UPDATE, under a recognised type code -/

theorem firstWire_code {c : Nat} : ∀ {ws : List Wire} {w : Wire}, firstWire c ws = some w → w.code = c
  | [], _, h => by simp [firstWire] at h
  | x :: xs, w, h => by
    simp only [firstWire] at h
    split at h
    · rename_i hx; cases h; exact hx
    · exact firstWire_code h

theorem get_fromUpdate (u : Update) (c f : Nat) (hf : typeFlags c = some f) :
    PaMap.get c (fromUpdate u) =
      match firstWire c u.attrs with
      | none => none
      | some w => (typedValueW w.four c w.value).map fun v => ⟨.typed, c, f, v⟩ := by
  have hc : ¬ (c = 14 ∨ c = 15) := by
    rintro (rfl | rfl) <;> simp [typeFlags] at hf
  rw [PaMap.get, Rc.Thm.C17.from_update_lookup]
  simp only [hc, if_false]
  cases hw : firstWire c u.attrs with
  | none => rfl
  | some w =>
    have hcode := firstWire_code hw
    simp only [Option.map_some, Option.bind_some, ownedOf, hcode, hf]
    cases typedValueW w.four c w.value <;> simp [fromAttr]

theorem lookup_isSome_fromUpdate (u : Update) (c f : Nat) (hf : typeFlags c = some f) :
    (lookup c (fromUpdate u)).isSome = (firstWire c u.attrs).isSome := by
  have hc : ¬ (c = 14 ∨ c = 15) := by
    rintro (rfl | rfl) <;> simp [typeFlags] at hf
  rw [Rc.Thm.C17.from_update_lookup]
  simp [hc]

/-- `ClusterIds::parse` reads a whole number of four-octet ids -/
theorem dec32O_len : ∀ (k : Nat) (v : Bytes), v.length = 4 * k → ∃ ids, Attr.dec32O v = .ok ids ∧ ids.length = k
  | 0, v, h => by
    have : v = [] := List.eq_nil_of_length_eq_zero (by omega)
    subst this; exact ⟨[], rfl, rfl⟩
  | k + 1, v, h => by
    match v, h with
    | a :: b :: c :: d :: r, h =>
      obtain ⟨ids, h1, h2⟩ := dec32O_len k r (by simp at h; omega)
      exact ⟨(a.toNat * 16777216 + b.toNat * 65536 + c.toNat * 256 + d.toNat) :: ids, by simp [Attr.dec32O, h1], by simp [h2]⟩
    | [], h => simp at h
    | [_], h => simp at h; omega
    | [_, _], h => simp at h; omega
    | [_, _, _], h => simp at h; omega

/-! ### field by field: what the reads find in a map built from an UPDATE -/

theorem typedValueW_len1 (four : Bool) (v : Bytes) :
    typedValueW four 1 v = if v.length = 1 then some v else none := by
  cases four <;> simp [typedValueW, typedValue]

theorem typedValueW_len4 (four : Bool) (c : Nat) (hc : c = 4 ∨ c = 5 ∨ c = 9) (v : Bytes) :
    typedValueW four c v = if v.length = 4 then some v else none := by
  rcases hc with rfl | rfl | rfl <;> cases four <;> simp [typedValueW, typedValue]

theorem typedValueW_cl (four : Bool) (v : Bytes) :
    typedValueW four 10 v = if v.length % 4 = 0 then some v else none := by
  cases four <;> simp [typedValueW, typedValue]

theorem origin_fromUpdate (u : Update) :
    getOrigin (fromUpdate u) = .ok (wireOriginSlot u.attrs).get ∧
    slotOf 1 (fromUpdate u) (wireOriginSlot u.attrs).get = wireOriginSlot u.attrs := by
  have hl := lookup_isSome_fromUpdate u 1 0x40 rfl
  unfold getOrigin getTyped wireOriginSlot slotOf
  rw [get_fromUpdate u 1 0x40 rfl, hl]
  cases hw : firstWire 1 u.attrs with
  | none => simp [PathSel.Slot.get]
  | some w =>
    simp only [typedValueW_len1]
    rcases hv : w.value with _ | ⟨o, _ | ⟨o2, r⟩⟩
    · simp [PathSel.Slot.get]
    · simp [PathSel.Slot.get, Attr.parseValue, Attr.rd8]
    · simp [PathSel.Slot.get]

theorem u32_fromUpdate (u : Update) (c : Nat) (hc : c = 4 ∨ c = 5 ∨ c = 9) :
    getU32 c (fromUpdate u) = .ok (wireU32 c u.attrs) := by
  obtain ⟨f, hf⟩ : ∃ f, typeFlags c = some f := by
    rcases hc with rfl | rfl | rfl <;> exact ⟨_, rfl⟩
  unfold getU32 getTyped wireU32
  rw [get_fromUpdate u c f hf]
  cases hw : firstWire c u.attrs with
  | none => simp
  | some w =>
    simp only [typedValueW_len4 _ c hc]
    rcases hv : w.value with _ | ⟨a, _ | ⟨b, _ | ⟨c', _ | ⟨d, _ | ⟨e, r⟩⟩⟩⟩⟩
    · simp
    · simp
    · simp
    · simp
    · rcases hc with rfl | rfl | rfl <;> simp [Attr.parseValue, rd32]
    · simp

theorem cl_fromUpdate (u : Update) : getClusterLen (fromUpdate u) = .ok (wireClusterLen u.attrs) := by
  unfold getClusterLen getTyped wireClusterLen
  rw [get_fromUpdate u 10 0x80 rfl]
  cases hw : firstWire 10 u.attrs with
  | none => simp
  | some w =>
    simp only [typedValueW_cl]
    by_cases hm : w.value.length % 4 = 0
    · obtain ⟨ids, h1, h2⟩ := dec32O_len (w.value.length / 4) w.value (by omega)
      simp [hm, Attr.parseValue, h1, h2]
    · simp [hm]

theorem path_fromUpdate (u : Update) :
    getPath (fromUpdate u) = .ok (wirePathSlot u.attrs).get ∧
    slotOf 2 (fromUpdate u) (wirePathSlot u.attrs).get = wirePathSlot u.attrs := by
  have hl := lookup_isSome_fromUpdate u 2 0x40 rfl
  unfold getPath getTyped wirePathSlot slotOf
  rw [get_fromUpdate u 2 0x40 rfl, hl]
  cases hw : firstWire 2 u.attrs with
  | none => simp [PathSel.Slot.get]
  | some w =>
    cases ht : typedValueW w.four 2 w.value with
    | none =>
      simp only [ht, Option.map_none, path_glue_none _ _ ht]
      simp [PathSel.Slot.get]
    | some v' =>
      obtain ⟨h1, h2, e1, e2, e3⟩ := path_glue _ _ _ ht
      simp only [ht, Option.map_some, e1, e2, e3]
      simp [PathSel.Slot.get]

/-- every read of `eligible` / `cmp` on the map built from an UPDATE finds what the reference
reading of the attribute section says -/
theorem readRoute_fromUpdate (u : Update) (tb : Tb) :
    readRoute (fromUpdate u) tb = .ok (wireRoute u.attrs tb) := by
  obtain ⟨o1, o2⟩ := origin_fromUpdate u
  obtain ⟨p1, p2⟩ := path_fromUpdate u
  simp only [readRoute, o1, p1, u32_fromUpdate u 5 (Or.inr (Or.inl rfl)), u32_fromUpdate u 4 (Or.inl rfl),
    u32_fromUpdate u 9 (Or.inr (Or.inr rfl)), cl_fromUpdate, o2, p2, wireRoute]

/-! ### totality: the values typed attributes hold -/

/-- a typed attribute holds a value its type's `validate` accepts and `parse` + `compose_value`
reproduce (an image of `compose_value`) -/
def AttrValOk (a : Attr) : Prop := a.kind = .typed → typedValue a.code a.value = some a.value

def ValOk (m : Map) : Prop := ∀ a ∈ m, AttrValOk a

theorem typedValue_keeps (c : Nat) (v w : Bytes) (hc : ¬ (c = 2 ∨ c = 17)) (h : typedValue c v = some w) : w = v := by
  have aux : ∀ (p : Prop) [Decidable p], (if p then some v else none) = some w → w = v := by
    intro p _ h
    split at h
    · exact (Option.some.inj h).symm
    · cases h
  simp only [typedValue, hc, if_false] at h
  by_cases h1 : c = 1
  · rw [if_pos h1] at h; exact aux _ h
  rw [if_neg h1] at h
  by_cases h3 : c = 3 ∨ c = 4 ∨ c = 5 ∨ c = 9 ∨ c = 20 ∨ c = 35
  · rw [if_pos h3] at h; exact aux _ h
  rw [if_neg h3] at h
  by_cases h6 : c = 6
  · rw [if_pos h6] at h; exact aux _ h
  rw [if_neg h6] at h
  by_cases h7 : c = 7 ∨ c = 18
  · rw [if_pos h7] at h; exact aux _ h
  rw [if_neg h7] at h
  by_cases h8 : c = 8 ∨ c = 10
  · rw [if_pos h8] at h; exact aux _ h
  rw [if_neg h8] at h
  by_cases h16 : c = 16
  · rw [if_pos h16] at h; exact aux _ h
  rw [if_neg h16] at h
  by_cases h21 : c = 21
  · rw [if_pos h21] at h; exact aux _ h
  rw [if_neg h21] at h
  by_cases h25 : c = 25
  · rw [if_pos h25] at h; exact aux _ h
  rw [if_neg h25] at h
  by_cases h32 : c = 32
  · rw [if_pos h32] at h; exact aux _ h
  rw [if_neg h32] at h
  by_cases h128 : c = 128
  · rw [if_pos h128] at h; exact aux _ h
  rw [if_neg h128] at h
  exact aux _ h

theorem typedValue_fixed (c : Nat) (v w : Bytes) (h : typedValue c v = some w) : typedValue c w = some w := by
  by_cases hc : c = 2 ∨ c = 17
  · exact Rc.Thm.C17.aspath_normal_form_fixed c hc v w h
  · have := typedValue_keeps c v w hc h
    subst this; exact h

theorem typedValueW_fixed (four : Bool) (c : Nat) (v w : Bytes) (h : typedValueW four c v = some w) :
    typedValue c w = some w := by
  cases four
  · by_cases h2 : c = 2
    · subst h2; exact Rc.Thm.C17.two_octet_aspath v w h
    · by_cases h7 : c = 7
      · subst h7; exact (Rc.Thm.C17.two_octet_aggregator v w h).2.2
      · rw [Rc.Thm.C17.typedValueW_width_free false c v h2 h7] at h
        exact typedValue_fixed c v w h
  · rw [Rc.Thm.C17.typedValueW_four] at h
    exact typedValue_fixed c v w h

theorem ownedOf_valok (w : Wire) : AttrValOk (ownedOf w) := by
  unfold ownedOf
  split
  · split
    · rename_i v hv
      intro _
      exact typedValueW_fixed _ _ _ _ hv
    · intro hk; cases hk
  · intro hk; cases hk

theorem mkTyped_valok {c : Nat} {v : Bytes} {a : Attr} (h : mkTyped c v = some a) : AttrValOk a := by
  unfold mkTyped at h
  split at h
  · rename_i f v' hf hv
    cases h
    intro _
    exact typedValue_fixed c v v' hv
  · cases h

theorem spec_valok {s : Spec} {a : Attr} (h : s.attr = some a) : AttrValOk a := by
  cases s with
  | typed c v => exact mkTyped_valok h
  | unimpl c f v =>
    simp only [Spec.attr] at h
    split at h
    · cases h; intro hk; cases hk
    · cases h
  | invalid c f v =>
    simp only [Spec.attr] at h
    split at h
    · cases h; intro hk; cases hk
    · cases h

theorem mem_ins {x a : Attr} : ∀ {m : Map}, x ∈ ins a m → x = a ∨ x ∈ m
  | [], h => by simp [ins] at h; exact Or.inl h
  | b :: m, h => by
    unfold ins at h
    split at h
    · rcases List.mem_cons.mp h with h | h
      · exact Or.inl h
      · exact Or.inr h
    · split at h
      · rcases List.mem_cons.mp h with h | h
        · exact Or.inl h
        · exact Or.inr (List.mem_cons_of_mem _ h)
      · rcases List.mem_cons.mp h with h | h
        · exact Or.inr (by simp [h])
        · rcases mem_ins h with h | h
          · exact Or.inl h
          · exact Or.inr (List.mem_cons_of_mem _ h)

theorem mem_del {x : Attr} {c : Nat} : ∀ {m : Map}, x ∈ del c m → x ∈ m
  | [], h => by simp [del] at h
  | b :: m, h => by
    unfold del at h
    split at h
    · exact List.mem_cons_of_mem _ h
    · rcases List.mem_cons.mp h with h | h
      · simp [h]
      · exact List.mem_cons_of_mem _ (mem_del h)

theorem valok_ins {a : Attr} {m : Map} (hm : ValOk m) (ha : AttrValOk a) : ValOk (ins a m) := by
  intro x hx
  rcases mem_ins hx with rfl | h
  · exact ha
  · exact hm x h

theorem valok_del {c : Nat} {m : Map} (hm : ValOk m) : ValOk (del c m) :=
  fun x hx => hm x (mem_del hx)

theorem valok_foldl_ins : ∀ (o m : Map), ValOk o → ValOk m → ValOk (o.foldl (fun acc a => ins a acc) m)
  | [], m, _, hm => hm
  | a :: o, m, ho, hm =>
    valok_foldl_ins o (ins a m) (fun x hx => ho x (List.mem_cons_of_mem _ hx)) (valok_ins hm (ho a (by simp)))

theorem valok_fromWire : ∀ (ws : List Wire) (m : Map), ValOk m → ValOk (fromWire ws m)
  | [], m, hm => hm
  | w :: ws, m, hm => by
    unfold fromWire
    split
    · exact valok_fromWire ws m hm
    · split
      · exact valok_fromWire ws m hm
      · exact valok_fromWire ws _ (valok_ins hm (ownedOf_valok w))

theorem valok_empty : ValOk [] := fun _ h => by simp at h

/-- every map `PaMap::from_update_pdu` builds - from ANY attribute list, malformed, repeated and
unknown attributes included - holds well-formed typed values -/
theorem valok_fromUpdate (u : Update) : ValOk (fromUpdate u) := valok_fromWire u.attrs [] valok_empty

/-- the typed attributes an API call hands over are PARSE IMAGES (`AttrValOk`: the value octets parse as
the type and re-compose to themselves).  Narrower than "every value the public API can build": a
directly written `OriginType::Unimplemented(n)`, n <= 2, or a `HopPath` with a non-empty AS_SEQUENCE
held as `Hop::Segment` next to `Hop::Asn`s composes to octets of ANOTHER value and has no `Attr` of
its own (see the header of Rc/Model/PathSelGlue.lean). -/
def OpOk : Op → Prop
  | .set a => AttrValOk a
  | .setFromEnum a => AttrValOk a
  | .add a => AttrValOk a
  | _ => True

theorem valok_step (s : St) (o : Op) (ho : OpOk o) (ha : ValOk s.a) (hb : ValOk s.b) :
    ValOk (step s o).a ∧ ValOk (step s o).b := by
  cases o with
  | set x => exact ⟨valok_ins ha ho, hb⟩
  | setFromEnum x =>
    refine ⟨?_, hb⟩
    simp only [step, setFromEnum]
    cases hk : x.kind
    · exact valok_ins ha ho
    · exact ha
    · exact ha
  | add x => exact ⟨valok_ins ha ho, hb⟩
  | get c => exact ⟨ha, hb⟩
  | remove c => exact ⟨valok_del ha, hb⟩
  | rnt => exact ⟨fun x hx => ha x (List.mem_filter.mp hx).1, hb⟩
  | swap => exact ⟨hb, ha⟩
  | merge => exact ⟨valok_foldl_ins s.b s.a hb ha, valok_empty⟩
  | fromUpdate u => exact ⟨valok_fromUpdate u, hb⟩
  | mergeUpdate u => exact ⟨valok_foldl_ins _ s.a (valok_fromUpdate u) ha, hb⟩

theorem valok_run (ops : List Op) (h : ∀ o ∈ ops, OpOk o) (s : St) (ha : ValOk s.a) (hb : ValOk s.b) :
    ValOk (run s ops).a ∧ ValOk (run s ops).b := by
  induction ops generalizing s with
  | nil => exact ⟨ha, hb⟩
  | cons o ops ih =>
    have := valok_step s o (h o (by simp)) ha hb
    exact ih (fun o' ho' => h o' (by simp [ho'])) (step s o) this.1 this.2

theorem lookup_mem {c : Nat} {a : Attr} : ∀ {m : Map}, lookup c m = some a → a ∈ m ∧ a.code = c
  | [], h => by simp [lookup] at h
  | b :: m, h => by
    unfold lookup at h
    split at h
    · rename_i hb; cases h; exact ⟨by simp, hb⟩
    · exact ⟨List.mem_cons_of_mem _ (lookup_mem h).1, (lookup_mem h).2⟩

/-- what `get::<A>()` returns is a typed attribute of the map with A's code -/
theorem get_some {c : Nat} {m : Map} {a : Attr} (h : PaMap.get c m = some a) :
    a ∈ m ∧ a.kind = .typed ∧ a.code = c := by
  unfold PaMap.get at h
  cases hl : lookup c m with
  | none => simp [hl] at h
  | some b =>
    simp only [hl, Option.bind_some, fromAttr] at h
    split at h
    · rename_i hk; cases h; exact ⟨(lookup_mem hl).1, hk.1, hk.2⟩
    · cases h

/-- C04's `parse` reads every value the length rules accept -/
theorem parse_of_valid (c : Nat) (v : Bytes) (h : typedValue c v = some v) :
    (c = 1 → ∃ o, Attr.parseValue 1 true v = .ok (.origin o)) ∧
    (c = 2 → ∃ p, Attr.parseValue 2 true v = .ok (.asPath p)) ∧
    (c = 4 → ∃ n, Attr.parseValue 4 true v = .ok (.med n)) ∧
    (c = 5 → ∃ n, Attr.parseValue 5 true v = .ok (.localPref n)) ∧
    (c = 9 → ∃ n, Attr.parseValue 9 true v = .ok (.originatorId n)) ∧
    (c = 10 → ∃ ids, Attr.parseValue 10 true v = .ok (.clusterList ids)) := by
  refine ⟨?_, ?_, ?_, ?_, ?_, ?_⟩ <;> intro hc <;> subst hc
  · have hl : v.length = 1 := by
      have := typedValueW_len1 true v
      rw [Rc.Thm.C17.typedValueW_four, h] at this
      by_cases hl : v.length = 1
      · exact hl
      · simp [hl] at this
    match v, hl with
    | [o], _ => exact ⟨o.toNat, by simp [Attr.parseValue, Attr.rd8]⟩
  · have hw : typedValueW true 2 v = some v := by rw [Rc.Thm.C17.typedValueW_four]; exact h
    obtain ⟨_, h2, _, e2, _⟩ := path_glue true v v hw
    exact ⟨h2, e2⟩
  · have hl : v.length = 4 := by
      have := typedValueW_len4 true 4 (by decide) v
      rw [Rc.Thm.C17.typedValueW_four, h] at this
      by_cases hl : v.length = 4
      · exact hl
      · simp [hl] at this
    match v, hl with
    | [a, b, c, d], _ => exact ⟨a.toNat * 16777216 + b.toNat * 65536 + c.toNat * 256 + d.toNat, by simp [Attr.parseValue, rd32]⟩
  · have hl : v.length = 4 := by
      have := typedValueW_len4 true 5 (by decide) v
      rw [Rc.Thm.C17.typedValueW_four, h] at this
      by_cases hl : v.length = 4
      · exact hl
      · simp [hl] at this
    match v, hl with
    | [a, b, c, d], _ => exact ⟨a.toNat * 16777216 + b.toNat * 65536 + c.toNat * 256 + d.toNat, by simp [Attr.parseValue, rd32]⟩
  · have hl : v.length = 4 := by
      have := typedValueW_len4 true 9 (by decide) v
      rw [Rc.Thm.C17.typedValueW_four, h] at this
      by_cases hl : v.length = 4
      · exact hl
      · simp [hl] at this
    match v, hl with
    | [a, b, c, d], _ => exact ⟨a.toNat * 16777216 + b.toNat * 65536 + c.toNat * 256 + d.toNat, by simp [Attr.parseValue, rd32]⟩
  · have hl : v.length % 4 = 0 := by
      have := typedValueW_cl true v
      rw [Rc.Thm.C17.typedValueW_four, h] at this
      by_cases hl : v.length % 4 = 0
      · exact hl
      · simp [hl] at this
    obtain ⟨ids, h1, _⟩ := dec32O_len (v.length / 4) v (by omega)
    exact ⟨ids, by simp [Attr.parseValue, h1]⟩

/-- on a map whose typed values are well formed every read succeeds -/
theorem readRoute_ok (m : Map) (hm : ValOk m) (tb : Tb) : ∃ r, readRoute m tb = .ok r := by
  have key : ∀ c a, PaMap.get c m = some a → typedValue c a.value = some a.value := by
    intro c a hg
    obtain ⟨hmem, hk, hcode⟩ := get_some hg
    have := hm a hmem hk
    rwa [hcode] at this
  have hO : ∃ x, getOrigin m = .ok x := by
    unfold getOrigin getTyped
    cases hg : PaMap.get 1 m with
    | none => exact ⟨none, rfl⟩
    | some a =>
      obtain ⟨o, ho⟩ := (parse_of_valid 1 a.value (key 1 a hg)).1 rfl
      exact ⟨some o, by simp [ho]⟩
  have hP : ∃ x, getPath m = .ok x := by
    unfold getPath getTyped
    cases hg : PaMap.get 2 m with
    | none => exact ⟨none, rfl⟩
    | some a =>
      obtain ⟨p, hp⟩ := (parse_of_valid 2 a.value (key 2 a hg)).2.1 rfl
      exact ⟨some (p.map selHop), by simp [hp]⟩
  have h5 : ∃ x, getU32 5 m = .ok x := by
    unfold getU32 getTyped
    cases hg : PaMap.get 5 m with
    | none => exact ⟨none, rfl⟩
    | some a =>
      obtain ⟨n, hn⟩ := (parse_of_valid 5 a.value (key 5 a hg)).2.2.2.1 rfl
      exact ⟨some n, by simp [hn]⟩
  have h4 : ∃ x, getU32 4 m = .ok x := by
    unfold getU32 getTyped
    cases hg : PaMap.get 4 m with
    | none => exact ⟨none, rfl⟩
    | some a =>
      obtain ⟨n, hn⟩ := (parse_of_valid 4 a.value (key 4 a hg)).2.2.1 rfl
      exact ⟨some n, by simp [hn]⟩
  have h9 : ∃ x, getU32 9 m = .ok x := by
    unfold getU32 getTyped
    cases hg : PaMap.get 9 m with
    | none => exact ⟨none, rfl⟩
    | some a =>
      obtain ⟨n, hn⟩ := (parse_of_valid 9 a.value (key 9 a hg)).2.2.2.2.1 rfl
      exact ⟨some n, by simp [hn]⟩
  have hC : ∃ x, getClusterLen m = .ok x := by
    unfold getClusterLen getTyped
    cases hg : PaMap.get 10 m with
    | none => exact ⟨none, rfl⟩
    | some a =>
      obtain ⟨ids, hi⟩ := (parse_of_valid 10 a.value (key 10 a hg)).2.2.2.2.2 rfl
      exact ⟨some ids.length, by simp [hi]⟩
  obtain ⟨o, ho⟩ := hO
  obtain ⟨p, hp⟩ := hP
  obtain ⟨l, hl⟩ := h5
  obtain ⟨md, hmd⟩ := h4
  obtain ⟨oi, hoi⟩ := h9
  obtain ⟨cl, hcl⟩ := hC
  simp only [readRoute, ho, hp, hl, hmd, hoi, hcl]
  exact ⟨_, rfl⟩

/-- every attribute of an accepted UPDATE carries the AS number width of the session -/
theorem parseUpdate_width (four ap : Bool) (pdu : Bytes) (u : Update) (h : parseUpdate four ap pdu = .ok u) :
    ∀ w ∈ u.attrs, w.four = four := by
  unfold parseUpdate at h
  split at h
  · cases h
  split at h
  · cases h
  split at h
  · cases h
  split at h
  · cases h
  split at h
  · cases h
  split at h
  · cases h
  split at h
  · cases h
  split at h
  · cases h
  · cases h
  split at h
  · cases h
  split at h
  · cases h
  split at h
  · cases h
  rename_i ws hws
  split at h
  · cases h
  simp only [] at h
  split at h
  · cases h
  split at h
  · cases h
  split at h
  · cases h
  · cases h
  · cases h
    exact Rc.Thm.C17.parseWire_width four _ _ _ hws

end Rc.PathSelGlue
