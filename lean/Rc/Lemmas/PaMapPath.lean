/-
Lemmas for C17: the AS path normal form of Rc/Model/PaMap.lean
(`parseSegs` / `parseSegs2` → `toHops` → `composeHops`) is a fixed point of the
four-octet reading: what `HopPath::to_as_path` writes parses, and dissolves into
the same hops.
-/
import Rc.Model.PaMap

namespace Rc.PaMap
open Rc

/-! ### segment lists and their wire form -/

abbrev SegB := UInt8 × List Bytes

/-- RFC 4271 4.3 b: type, count, the AS numbers -/
def encSegB (s : SegB) : Bytes := [s.1, UInt8.ofNat s.2.length] ++ s.2.flatten

def encSegsB (ss : List SegB) : Bytes := ss.flatMap encSegB

/-- a segment `parseSegs` returns: type 1..=4, at most 255 AS numbers of four octets -/
def SegOk (s : SegB) : Prop := 1 ≤ s.1.toNat ∧ s.1.toNat ≤ 4 ∧ s.2.length ≤ 255 ∧ ∀ a ∈ s.2, a.length = 4

theorem takeAsns_flatten : ∀ (l : List Bytes) (rest : Bytes), (∀ a ∈ l, a.length = 4) →
    takeAsns l.length (l.flatten ++ rest) = some (l, rest)
  | [], rest, _ => by simp [takeAsns]
  | a :: l, rest, h => by
    have ha := h a (by simp)
    match a, ha with
    | [x, y, z, w], _ =>
      have := takeAsns_flatten l rest (fun b hb => h b (by simp [hb]))
      simp [takeAsns, this]

theorem parseSegs_enc : ∀ (ss : List SegB), (∀ s ∈ ss, SegOk s) → ∀ fuel, ss.length ≤ fuel →
    parseSegs fuel (encSegsB ss) = some ss
  | [], _, fuel, _ => by cases fuel <;> simp [encSegsB, parseSegs]
  | s :: ss, h, 0, hf => by simp at hf
  | s :: ss, h, fuel + 1, hf => by
    obtain ⟨h1, h4, hl, ha⟩ := h s (by simp)
    have hn : (UInt8.ofNat s.2.length).toNat = s.2.length := by simp [UInt8.toNat_ofNat']; omega
    have ih := parseSegs_enc ss (fun x hx => h x (by simp [hx])) fuel (by simp at hf; omega)
    have ht := takeAsns_flatten s.2 (encSegsB ss) ha
    simp only [encSegsB, List.flatMap_cons, encSegB, List.cons_append, List.nil_append, List.append_assoc] at ih ht ⊢
    simp only [parseSegs, h1, h4, and_self, if_true, hn, ht, ih]

theorem toHops_append (a b : List SegB) : toHops (a ++ b) = toHops a ++ toHops b := by
  induction a with
  | nil => rfl
  | cons s t ih =>
    obtain ⟨ty, asns⟩ := s
    simp only [List.cons_append, toHops]
    split <;> simp [ih]

/-! ### one run of AS numbers -/

/-- the segments `chunks255` writes -/
def chunkSegs : Nat → List Bytes → List SegB
  | 0, _ => []
  | _, [] => []
  | fuel + 1, l => (2, l.take 255) :: chunkSegs fuel (l.drop 255)

/-- the segments `flushRun` writes -/
def runSegs (run : List Bytes) : List SegB :=
  (if run.length % 255 = 0 then [] else [((2 : UInt8), run.take (run.length % 255))]) ++
    chunkSegs run.length (run.drop (run.length % 255))

theorem chunks255_eq : ∀ (fuel : Nat) (l : List Bytes), chunks255 fuel l = encSegsB (chunkSegs fuel l)
  | 0, l => by simp [chunks255, chunkSegs, encSegsB]
  | fuel + 1, [] => by simp [chunks255, chunkSegs, encSegsB]
  | fuel + 1, a :: l => by
    have := chunks255_eq fuel ((a :: l).drop 255)
    simp only [chunks255, chunkSegs, encSegsB, List.flatMap_cons, this, seqSeg, encSegB] at *

theorem flushRun_eq (run : List Bytes) : flushRun run = encSegsB (runSegs run) := by
  simp only [flushRun, runSegs, chunks255_eq]
  split <;> simp [encSegsB, seqSeg, encSegB]

theorem chunkSegs_spec : ∀ (fuel : Nat) (l : List Bytes), l.length ≤ fuel → (∀ a ∈ l, a.length = 4) →
    (∀ s ∈ chunkSegs fuel l, SegOk s) ∧ toHops (chunkSegs fuel l) = l.map Hop.asn
  | 0, l, hl, _ => by
    have : l = [] := List.eq_nil_of_length_eq_zero (by omega)
    subst this; simp [chunkSegs, toHops]
  | fuel + 1, [], _, _ => by simp [chunkSegs, toHops]
  | fuel + 1, a :: l, hl, h4 => by
    have hd : ((a :: l).drop 255).length ≤ fuel := by simp at hl ⊢; omega
    obtain ⟨ih1, ih2⟩ := chunkSegs_spec fuel ((a :: l).drop 255) hd
      (fun x hx => h4 x (List.mem_of_mem_drop hx))
    have hne : (a :: l).take 255 ≠ [] := by simp
    refine ⟨?_, ?_⟩
    · intro s hs
      simp only [chunkSegs, List.mem_cons] at hs
      rcases hs with rfl | hs
      · refine ⟨by show 1 ≤ (2 : UInt8).toNat; decide, by show (2 : UInt8).toNat ≤ 4; decide, by simp <;> omega,
          fun x hx => h4 x (List.mem_of_mem_take hx)⟩
      · exact ih1 s hs
    · simp only [chunkSegs, toHops, hne, ne_eq, not_false_eq_true, and_self, if_true, ih2, ← List.map_append,
        List.take_append_drop]

theorem runSegs_spec (run : List Bytes) (h4 : ∀ a ∈ run, a.length = 4) :
    (∀ s ∈ runSegs run, SegOk s) ∧ toHops (runSegs run) = run.map Hop.asn := by
  obtain ⟨c1, c2⟩ := chunkSegs_spec run.length (run.drop (run.length % 255)) (by simp <;> omega)
    (fun x hx => h4 x (List.mem_of_mem_drop hx))
  unfold runSegs
  by_cases hz : run.length % 255 = 0
  · simp only [hz, if_true, List.nil_append, List.drop_zero] at c1 c2 ⊢
    exact ⟨c1, c2⟩
  · have hlt : run.length % 255 < 255 := Nat.mod_lt _ (by omega)
    have hle : run.length % 255 ≤ run.length := Nat.mod_le _ _
    have hne : run.take (run.length % 255) ≠ [] := by
      intro he
      have := congrArg List.length he
      rw [List.length_take] at this
      simp only [List.length_nil] at this
      omega
    simp only [hz, if_false]
    refine ⟨?_, ?_⟩
    · intro s hs
      simp only [List.cons_append, List.nil_append, List.mem_cons] at hs
      rcases hs with rfl | hs
      · refine ⟨by show 1 ≤ (2 : UInt8).toNat; decide, by show (2 : UInt8).toNat ≤ 4; decide, by simp <;> omega,
          fun x hx => h4 x (List.mem_of_mem_take hx)⟩
      · exact c1 s hs
    · simp only [List.cons_append, List.nil_append, toHops, hne, ne_eq, not_false_eq_true, and_self, if_true, c2,
        ← List.map_append, List.take_append_drop]

/-! ### `composeHops` writes a segment list that dissolves into the same hops -/

/-- hops as `toHops` produces them from parsed segments: four-octet AS numbers, segment hops
of type 1..=4 with at most 255 AS numbers that are not a non-empty AS_SEQUENCE -/
def HopOk : Hop → Prop
  | .asn a => a.length = 4
  | .seg t asns => SegOk (t, asns) ∧ ¬ (t = 2 ∧ asns ≠ [])

/-- the segments `composeHops` writes -/
def segsOf : List Hop → List Bytes → List SegB
  | [], run => runSegs run.reverse
  | .asn a :: r, run => segsOf r (a :: run)
  | .seg t asns :: r, run => runSegs run.reverse ++ (t, asns) :: segsOf r []

theorem composeHops_eq : ∀ (H : List Hop) (run : List Bytes), composeHops H run = encSegsB (segsOf H run)
  | [], run => by simp [composeHops, segsOf, flushRun_eq]
  | .asn a :: r, run => by simp [composeHops, segsOf, composeHops_eq r]
  | .seg t asns :: r, run => by
    simp [composeHops, segsOf, composeHops_eq r, flushRun_eq, encSegsB, encSegB, List.append_assoc]

theorem segsOf_spec : ∀ (H : List Hop) (run : List Bytes), (∀ h ∈ H, HopOk h) → (∀ a ∈ run, a.length = 4) →
    (∀ s ∈ segsOf H run, SegOk s) ∧ toHops (segsOf H run) = run.reverse.map Hop.asn ++ H
  | [], run, _, hr => by
    have := runSegs_spec run.reverse (fun a ha => hr a (List.mem_reverse.mp ha))
    simpa [segsOf] using this
  | .asn a :: r, run, hH, hr => by
    have ha : a.length = 4 := hH (.asn a) (by simp)
    obtain ⟨i1, i2⟩ := segsOf_spec r (a :: run) (fun h hh => hH h (by simp [hh]))
      (by intro x hx; rcases List.mem_cons.mp hx with rfl | hx; exact ha; exact hr x hx)
    exact ⟨i1, by simp [segsOf, i2]⟩
  | .seg t asns :: r, run, hH, hr => by
    obtain ⟨hs, hnorm⟩ : HopOk (.seg t asns) := hH _ (by simp)
    obtain ⟨r1, r2⟩ := runSegs_spec run.reverse (fun a ha => hr a (List.mem_reverse.mp ha))
    obtain ⟨i1, i2⟩ := segsOf_spec r [] (fun h hh => hH h (by simp [hh])) (by simp)
    refine ⟨?_, ?_⟩
    · intro s hs'
      simp only [segsOf, List.mem_append, List.mem_cons] at hs'
      rcases hs' with hs' | rfl | hs'
      · exact r1 s hs'
      · exact hs
      · exact i1 s hs'
    · simp only [segsOf, toHops_append, r2, toHops, hnorm, if_false, i2]
      simp

theorem toHops_ok : ∀ (ss : List SegB), (∀ s ∈ ss, SegOk s) → ∀ h ∈ toHops ss, HopOk h
  | [], _, h, hh => by simp [toHops] at hh
  | (t, asns) :: r, hs, h, hh => by
    have hs0 := hs (t, asns) (by simp)
    have ih := toHops_ok r (fun s hs' => hs s (by simp [hs']))
    simp only [toHops] at hh
    split at hh
    · rcases List.mem_append.mp hh with hh | hh
      · obtain ⟨a, ha, rfl⟩ := List.mem_map.mp hh
        exact hs0.2.2.2 a ha
      · exact ih h hh
    · rename_i hn
      rcases List.mem_cons.mp hh with rfl | hh
      · exact ⟨hs0, hn⟩
      · exact ih h hh

/-- **the normal form is a fixed point**: for segments as `parseSegs` / `parseSegs2` return
them, what `compose_value` writes parses four octets wide and composes to itself -/
theorem normal_form_fixed (ss : List SegB) (hs : ∀ s ∈ ss, SegOk s) :
    normAsPath (composeHops (toHops ss) []) = some (composeHops (toHops ss) []) := by
  obtain ⟨s1, s2⟩ := segsOf_spec (toHops ss) [] (toHops_ok ss hs) (by simp)
  have hlen : (segsOf (toHops ss) []).length ≤ (encSegsB (segsOf (toHops ss) [])).length := by
    generalize segsOf (toHops ss) [] = S
    induction S with
    | nil => simp
    | cons a t ih => simp only [encSegsB, List.flatMap_cons, List.length_append, List.length_cons, encSegB] at *; omega
  have hp := parseSegs_enc _ s1 _ hlen
  simp only [List.reverse_nil, List.map_nil, List.nil_append] at s2
  unfold normAsPath
  rw [composeHops_eq (toHops ss) [], hp]
  show some (composeHops (toHops (segsOf (toHops ss) [])) []) = _
  rw [s2, composeHops_eq]

/-! ### what the two parsers return -/

theorem takeAsns_ok : ∀ (n : Nat) (bs : Bytes) (l : List Bytes) (r : Bytes), takeAsns n bs = some (l, r) →
    l.length = n ∧ ∀ a ∈ l, a.length = 4
  | 0, bs, l, r, h => by simp only [takeAsns, Option.some.injEq, Prod.mk.injEq] at h; obtain ⟨rfl, _⟩ := h; simp
  | n + 1, bs, l, r, h => by
    match bs, h with
    | a :: b :: c :: d :: t, h =>
      simp only [takeAsns] at h
      cases hr : takeAsns n t with
      | none => simp [hr] at h
      | some p =>
        obtain ⟨l', r'⟩ := p
        simp only [hr, Option.some.injEq, Prod.mk.injEq] at h
        obtain ⟨rfl, _⟩ := h
        obtain ⟨i1, i2⟩ := takeAsns_ok n t l' r' hr
        exact ⟨by simp [i1], by intro x hx; rcases List.mem_cons.mp hx with rfl | hx; rfl; exact i2 x hx⟩
    | [], h => simp [takeAsns] at h
    | [_], h => simp [takeAsns] at h
    | [_, _], h => simp [takeAsns] at h
    | [_, _, _], h => simp [takeAsns] at h

theorem takeAsns2_ok : ∀ (n : Nat) (bs : Bytes) (l : List Bytes) (r : Bytes), takeAsns2 n bs = some (l, r) →
    l.length = n ∧ ∀ a ∈ l, a.length = 4
  | 0, bs, l, r, h => by simp only [takeAsns2, Option.some.injEq, Prod.mk.injEq] at h; obtain ⟨rfl, _⟩ := h; simp
  | n + 1, bs, l, r, h => by
    match bs, h with
    | a :: b :: t, h =>
      simp only [takeAsns2] at h
      cases hr : takeAsns2 n t with
      | none => simp [hr] at h
      | some p =>
        obtain ⟨l', r'⟩ := p
        simp only [hr, Option.some.injEq, Prod.mk.injEq] at h
        obtain ⟨rfl, _⟩ := h
        obtain ⟨i1, i2⟩ := takeAsns2_ok n t l' r' hr
        exact ⟨by simp [i1], by intro x hx; rcases List.mem_cons.mp hx with rfl | hx; rfl; exact i2 x hx⟩
    | [], h => simp [takeAsns2] at h
    | [_], h => simp [takeAsns2] at h

theorem parseSegs_ok : ∀ (fuel : Nat) (bs : Bytes) (ss : List SegB), parseSegs fuel bs = some ss → ∀ s ∈ ss, SegOk s
  | fuel, [], ss, h => by cases fuel <;> (simp only [parseSegs, Option.some.injEq] at h; subst h; simp)
  | 0, _ :: _, ss, h => by simp [parseSegs] at h
  | fuel + 1, [_], ss, h => by simp [parseSegs] at h
  | fuel + 1, t :: n :: r, ss, h => by
    simp only [parseSegs] at h
    split at h
    · rename_i ht
      cases ha : takeAsns n.toNat r with
      | none => simp [ha] at h
      | some p =>
        obtain ⟨asns, r'⟩ := p
        simp only [ha] at h
        cases hr : parseSegs fuel r' with
        | none => simp [hr] at h
        | some segs =>
          simp only [hr, Option.some.injEq] at h
          subst h
          obtain ⟨a1, a2⟩ := takeAsns_ok _ _ _ _ ha
          have := n.toNat_lt
          intro s hs
          rcases List.mem_cons.mp hs with rfl | hs
          · exact ⟨ht.1, ht.2, by rw [a1]; omega, a2⟩
          · exact parseSegs_ok fuel r' segs hr s hs
    · cases h

theorem parseSegs2_ok : ∀ (fuel : Nat) (bs : Bytes) (ss : List SegB), parseSegs2 fuel bs = some ss → ∀ s ∈ ss, SegOk s
  | fuel, [], ss, h => by cases fuel <;> (simp only [parseSegs2, Option.some.injEq] at h; subst h; simp)
  | 0, _ :: _, ss, h => by simp [parseSegs2] at h
  | fuel + 1, [_], ss, h => by simp [parseSegs2] at h
  | fuel + 1, t :: n :: r, ss, h => by
    simp only [parseSegs2] at h
    split at h
    · rename_i ht
      cases ha : takeAsns2 n.toNat r with
      | none => simp [ha] at h
      | some p =>
        obtain ⟨asns, r'⟩ := p
        simp only [ha] at h
        cases hr : parseSegs2 fuel r' with
        | none => simp [hr] at h
        | some segs =>
          simp only [hr, Option.some.injEq] at h
          subst h
          obtain ⟨a1, a2⟩ := takeAsns2_ok _ _ _ _ ha
          have := n.toNat_lt
          intro s hs
          rcases List.mem_cons.mp hs with rfl | hs
          · exact ⟨ht.1, ht.2, by rw [a1]; omega, a2⟩
          · exact parseSegs2_ok fuel r' segs hr s hs
    · cases h

end Rc.PaMap
