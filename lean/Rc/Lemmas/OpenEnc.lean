/-
Encoding lemmas for the OPEN model: what the decoder does on encoded
capabilities / parameters.
-/
import Rc.Model.Open
import Rc.Lemmas.Header
import Rc.Lemmas.OpenTotal

namespace Rc.Open
open Rc

theorem readLoop_append (k fuel c len : Nat) (body rest : Bytes)
    (h : readLoop k fuel c len body = true) : readLoop k fuel c len (body ++ rest) = true := by
  induction fuel generalizing c body with
  | zero => simp [readLoop]
  | succ n ih =>
    unfold readLoop at h ⊢
    by_cases hc : c < len
    · simp only [hc, if_true] at h ⊢
      by_cases hk : k ≤ body.length
      · simp only [hk, if_true] at h
        have : k ≤ (body ++ rest).length := by simp; omega
        simp only [this, if_true]
        rw [List.drop_append_of_le_length hk]
        exact ih _ _ h
      · simp [hk] at h
    · simp [hc]

private theorem req_ok {p : Prop} [Decidable p] :
    ((if p then Outcome.ok () else Outcome.err) = Outcome.ok ()) ↔ p := by
  by_cases h : p <;> simp [h]

/-- the content rules only ever read forward: bytes following the value do not
turn an accepted value into a rejected one -/
theorem capContent_append (code len : Nat) (body rest : Bytes)
    (h : capContent code len body = .ok ()) : capContent code len (body ++ rest) = .ok () := by
  unfold capContent at h ⊢
  simp only at h ⊢
  split at h
  all_goals first
    | rfl
    | (simp only [req_ok, Bool.and_eq_true, decide_eq_true_eq, beq_iff_eq, bne_iff_ne, ne_eq,
        List.length_append] at h ⊢
       omega)
    | (simp only [req_ok] at h ⊢
       exact readLoop_append _ _ _ _ _ _ h)
    | (simp only [req_ok, Bool.and_eq_true, decide_eq_true_eq] at h ⊢
       refine ⟨by simp only [List.length_append]; omega, ?_⟩
       rw [List.drop_append_of_le_length h.1]
       exact readLoop_append _ _ _ _ _ _ h.2)
    | (split at h
       · rename_i hl r
         split at h
         · rename_i x dl r2 ht
           simp only [req_ok, decide_eq_true_eq] at h
           have ⟨hx, hr⟩ := takeN_length ht
           have : takeN hl.toNat (r ++ rest) = some (x, dl :: (r2 ++ rest)) := by
             rw [hr, ← hx]; simpa using takeN_append x (dl :: (r2 ++ rest))
           simp only [List.cons_append, this, req_ok, decide_eq_true_eq, List.length_append]
           omega
         · simp at h
       · simp at h)
    | (split at h
       · simp only [req_ok, decide_eq_true_eq] at h
         simp only [List.cons_append, req_ok, decide_eq_true_eq, List.length_append]
         omega
       · simp at h)

/-- a capability the decoder accepts when it stands alone: its value fits the
one-octet length and passes the content rules of its type -/
def WfCap (c : Cap) : Prop :=
  c.value.length ≤ 255 ∧ capContent c.code.toNat c.value.length c.value = .ok ()

instance (c : Cap) : Decidable (WfCap c) := by unfold WfCap; exact inferInstance

theorem toNat_ofNat_le255 {n : Nat} (h : n ≤ 255) : (UInt8.ofNat n).toNat = n := by
  simp [UInt8.toNat_ofNat']; omega

theorem parseCap_enc (c : Cap) (rest : Bytes) (h : WfCap c) :
    parseCap (encCap c ++ rest) = .ok (c, rest) := by
  unfold parseCap encCap
  simp only [List.cons_append, toNat_ofNat_le255 h.1]
  rw [capContent_append _ _ _ _ h.2]
  simp [takeN_append]

theorem encCap_length (c : Cap) : (encCap c).length = 2 + c.value.length := by
  simp [encCap]; omega

theorem capsIter_enc (cs : List Cap) (h : ∀ c ∈ cs, WfCap c) (fuel : Nat)
    (hf : (encCaps cs).length ≤ fuel) :
    capsIter fuel (encCaps cs) = (cs, false) ∧ capsCheck fuel (encCaps cs) = .ok () := by
  induction cs generalizing fuel with
  | nil => cases fuel <;> simp [encCaps, capsIter, capsCheck]
  | cons c cs ih =>
    have hc := h c (by simp)
    have e : encCaps (c :: cs) = encCap c ++ encCaps cs := by simp [encCaps]
    rw [e] at hf ⊢
    have hl := encCap_length c
    cases fuel with
    | zero => rw [List.length_append, hl] at hf; omega
    | succ n =>
      have hne : encCap c ++ encCaps cs = c.code :: (UInt8.ofNat c.value.length :: (c.value ++ encCaps cs)) := by
        simp [encCap]
      have ⟨i1, i2⟩ := ih (fun c' hc' => h c' (by simp [hc'])) n (by rw [List.length_append, hl] at hf; omega)
      constructor
      · rw [hne]; unfold capsIter; rw [← hne, parseCap_enc c _ hc]; simp [i1]
      · rw [hne]; unfold capsCheck; rw [← hne, parseCap_enc c _ hc]; simp [i2]

/-! ### parameters -/

/-- an optional parameter as the sender thinks of it -/
inductive PSpec where
  | caps (cs : List Cap)                 -- a Capabilities parameter (type 2)
  | other (typ : UInt8) (v : Bytes)      -- any other parameter type
  deriving DecidableEq, Repr

def PSpec.toParam : PSpec → Param
  | .caps cs => ⟨2, encCaps cs⟩
  | .other t v => ⟨t, v⟩

def PSpec.capList : PSpec → List Cap
  | .caps cs => cs
  | .other _ _ => []

def allCaps (l : List PSpec) : List Cap := l.flatMap PSpec.capList

def WfPSpec : PSpec → Prop
  | .caps cs => (∀ c ∈ cs, WfCap c) ∧ (encCaps cs).length ≤ 255
  | .other t v => t.toNat ≠ 2 ∧ v.length ≤ 255

theorem paramCheck_enc (p : PSpec) (rest : Bytes) (h : WfPSpec p) :
    paramCheck (encParam p.toParam ++ rest) = .ok rest := by
  cases p with
  | caps cs =>
    obtain ⟨h1, h2⟩ := h
    unfold paramCheck
    simp only [PSpec.toParam, encParam, List.cons_append, toNat_ofNat_le255 h2, takeN_append]
    have : (2 : UInt8).toNat = 2 := rfl
    simp only [this, if_true]
    rw [(capsIter_enc cs h1 _ (Nat.le_refl _)).2]
  | other t v =>
    obtain ⟨h1, h2⟩ := h
    unfold paramCheck
    simp only [PSpec.toParam, encParam, List.cons_append, toNat_ofNat_le255 h2, takeN_append]
    simp [h1]

theorem encParam_length (p : Param) : (encParam p).length = 2 + p.value.length := by
  simp [encParam]; omega

theorem params_enc (l : List PSpec) (h : ∀ p ∈ l, WfPSpec p) (fuel : Nat)
    (hf : (encParams (l.map PSpec.toParam)).length ≤ fuel) :
    paramsIter fuel (encParams (l.map PSpec.toParam)) = (l.map PSpec.toParam, false) ∧
    paramsCheck fuel (encParams (l.map PSpec.toParam)) = .ok () := by
  induction l generalizing fuel with
  | nil => cases fuel <;> simp [encParams, paramsIter, paramsCheck]
  | cons p l ih =>
    have hp := h p (by simp)
    have e : encParams ((p :: l).map PSpec.toParam) =
        encParam p.toParam ++ encParams (l.map PSpec.toParam) := by simp [encParams]
    rw [e] at hf ⊢
    have hl := encParam_length p.toParam
    have hv : p.toParam.value.length ≤ 255 := by
      cases p with
      | caps cs => exact hp.2
      | other t v => exact hp.2
    cases fuel with
    | zero => rw [List.length_append, hl] at hf; omega
    | succ n =>
      have ⟨i1, i2⟩ := ih (fun p' hp' => h p' (by simp [hp'])) n (by rw [List.length_append, hl] at hf; omega)
      have hne : encParam p.toParam ++ encParams (l.map PSpec.toParam) =
          p.toParam.typ :: (UInt8.ofNat p.toParam.value.length ::
            (p.toParam.value ++ encParams (l.map PSpec.toParam))) := by simp [encParam]
      constructor
      · rw [hne]; unfold paramsIter
        simp only [toNat_ofNat_le255 hv, takeN_append, i1]
        simp
      · rw [hne]; unfold paramsCheck; rw [← hne, paramCheck_enc p _ hp]; simp [i2]

theorem flatCaps_enc (l : List PSpec) (h : ∀ p ∈ l, WfPSpec p) :
    flatCaps (l.map PSpec.toParam) false = (allCaps l, false) := by
  induction l with
  | nil => simp [flatCaps, allCaps]
  | cons p l ih =>
    have hp := h p (by simp)
    have ih' := ih (fun p' hp' => h p' (by simp [hp']))
    simp only [List.map_cons]
    unfold flatCaps
    cases p with
    | caps cs =>
      have : (2 : UInt8).toNat = 2 := rfl
      simp only [PSpec.toParam, this, if_true]
      have e := (capsIter_enc cs hp.1 _ (Nat.le_refl _)).1
      simp [e, ih', allCaps, PSpec.capList]
    | other t v =>
      simp only [PSpec.toParam, hp.1, if_false]
      simp [ih', allCaps, PSpec.capList]

end Rc.Open

namespace Rc.Open
open Rc

/-- converse of `openCheck_ok`: anything laid out like an OPEN whose parameter
bytes pass `paramsCheck` is accepted -/
theorem openCheck_layout (t : UInt8) (f9 : Bytes) (opl : UInt8) (ps : Bytes)
    (hf9 : f9.length = 9) (hps : ps.length = opl.toNat)
    (hpc : paramsCheck ps.length ps = .ok ()) :
    openCheck ((header (29 + ps.length) t ++ f9 ++ [opl]) ++ ps) = .ok () := by
  unfold openCheck
  have hlt : ps.length < 256 := by rw [hps]; exact opl.toNat_lt
  have e : (header (29 + ps.length) t ++ f9 ++ [opl]) ++ ps =
      header (29 + ps.length) t ++ (f9 ++ (opl :: ps)) := by simp
  rw [e, headerCheck_header _ _ _ (by simp [hf9]; omega) (by omega)]
  simp only
  rw [← hf9, takeN_append]
  simp only
  rw [← hps]
  have : takeN ps.length ps = some (ps, []) := by simpa using takeN_append ps []
  simp [this, hpc]

theorem idx_header_append' (n : Nat) (t : UInt8) (r : Bytes) (i : Nat) :
    idx (header n t ++ r) (19 + i) = idx r i := by
  unfold idx
  rw [List.getElem?_append_right (by simp [header_length])]
  simp [header_length]

theorem length_header (n : Nat) (hn : n < 65536) (t : UInt8) (r : Bytes) :
    length (header n t ++ r) = .ok n := by
  have hs : slice (header n t ++ r) 0 19 = .ok (header n t) := by
    unfold slice; simp [header_length]
  simp only [length, hs, Outcome.bind_ok]
  have e : header n t = marker ++ (be16 n ++ [t]) := by simp [header]
  have i16 : idx (header n t) 16 = .ok (UInt8.ofNat (n / 256)) := by
    unfold idx; rw [e, List.getElem?_append_right (by simp)]; simp [be16]
  have i17 : idx (header n t) 17 = .ok (UInt8.ofNat n) := by
    unfold idx; rw [e, List.getElem?_append_right (by simp)]; simp [be16]
  simp only [i16, i17, Outcome.bind_ok, Outcome.pure_eq]
  congr 1
  simp [UInt8.toNat_ofNat']; omega

/-! ### what the family accessors compute from a capability list -/

def mpSpec (cs : List Cap) : List (Nat × Nat) :=
  cs.filterMap fun c =>
    if c.code.toNat = 1 then
      match c.value with
      | [a, b, _, s] => some (a.toNat * 256 + b.toNat, s.toNat)
      | _ => none
    else none

theorem mpLoop_spec (cs : List Cap) (h : ∀ c ∈ cs, GoodCap c) : mpLoop cs false = .ok (mpSpec cs) := by
  induction cs with
  | nil => simp [mpLoop, mpSpec]
  | cons c cs ih =>
    have ih' := ih (fun c' hc' => h c' (by simp [hc']))
    unfold mpLoop
    by_cases h1 : c.code.toNat = 1
    · have hv := (h c (by simp)).2 h1
      match hcv : c.value, hv with
      | [a, b, r, s], _ =>
        simp [h1, mpOne, idx, ih', mpSpec, hcv]
    · simp [h1, ih', mpSpec]

/-- every ADD-PATH entry of every ADD-PATH capability, in wire order; `none` if some chunk is malformed -/
def apSpec : List Cap → Option (List (Nat × Nat × Nat))
  | [] => some []
  | c :: cs =>
    if c.code.toNat = 69 then
      match apValue c.value, apSpec cs with
      | some l, some l' => some (l ++ l')
      | _, _ => none
    else apSpec cs

theorem apLoop_ok_spec (cs : List Cap) (l : List (Nat × Nat × Nat)) (h : apSpec cs = some l) :
    apLoop cs false = .ok l := by
  induction cs generalizing l with
  | nil => simp [apSpec] at h; simp [apLoop, h]
  | cons c cs ih =>
    unfold apSpec at h
    unfold apLoop
    by_cases h69 : c.code.toNat = 69
    · simp only [h69, if_true] at h
      cases hv : apValue c.value with
      | none => simp [hv] at h
      | some l1 =>
        cases hs : apSpec cs with
        | none => simp [hv, hs] at h
        | some l2 =>
          simp [hv, hs] at h
          simp [h69, hv, ih l2 hs, h]
    · simp only [h69, if_false] at h
      simp [h69, ih l h]

def encApEntry (e : Nat × Nat × Nat) : Bytes := be16 e.1 ++ [UInt8.ofNat e.2.1, UInt8.ofNat e.2.2]

def WfApEntry (e : Nat × Nat × Nat) : Prop := e.1 < 65536 ∧ e.2.1 < 256 ∧ 1 ≤ e.2.2 ∧ e.2.2 ≤ 3

instance (e : Nat × Nat × Nat) : Decidable (WfApEntry e) := by unfold WfApEntry; exact inferInstance

theorem apValue_enc (es : List (Nat × Nat × Nat)) (h : ∀ e ∈ es, WfApEntry e) :
    apValue (es.flatMap encApEntry) = some es := by
  unfold apValue
  suffices ∀ fuel, (es.flatMap encApEntry).length ≤ fuel →
      (chunks4 fuel (es.flatMap encApEntry)).mapM apChunk = some es from this _ (Nat.le_refl _)
  induction es with
  | nil => intro fuel _; cases fuel <;> simp [chunks4]
  | cons e es ih =>
    intro fuel hf
    obtain ⟨a, s, d⟩ := e
    have ⟨h1, h2, h3, h4⟩ := h (a, s, d) (by simp)
    simp only at h1 h2 h3 h4
    have e4 : encApEntry (a, s, d) = [UInt8.ofNat (a / 256), UInt8.ofNat a, UInt8.ofNat s, UInt8.ofNat d] := by
      simp [encApEntry, be16]
    simp only [List.flatMap_cons, e4] at hf ⊢
    cases fuel with
    | zero => simp at hf
    | succ n =>
      simp only [List.cons_append, List.nil_append, chunks4]
      have ih' := ih (fun e' he' => h e' (by simp [he'])) n (by
        simp only [List.length_append, List.length_cons, List.length_nil] at hf; omega)
      simp only [List.take, List.drop, List.mapM_cons, apChunk]
      simp only [UInt8.toNat_ofNat']
      have hd : d % 2 ^ 8 = d := by omega
      have hs : s % 2 ^ 8 = s := by omega
      have ha : a / 256 % 2 ^ 8 * 256 + a % 2 ^ 8 = a := by omega
      simp [hd, hs, ha, h3, h4, ih']

end Rc.Open
