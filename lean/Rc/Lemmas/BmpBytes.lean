/- Byte-level lemmas for the BMP round-trip theorems. -/
import Rc.Lemmas.Bmp

namespace Rc.Bmp
open Rc

theorem beAt_append_right (a b : Bytes) (off n : Nat) : beAt (a ++ b) (a.length + off) n = beAt b off n := by
  unfold beAt
  have : List.drop (a.length + off) (a ++ b) = List.drop off b := by
    rw [← List.drop_drop]; simp
  rw [this]

theorem beAt_zero_append (a b : Bytes) (n : Nat) (h : n ≤ a.length) : beAt (a ++ b) 0 n = beAt a 0 n := by
  unfold beAt
  simp [List.take_append_of_le_length h]

theorem beNat_one (b : UInt8) : beNat [b] = b.toNat := by simp [beNat]

theorem beNat_be16 (n : Nat) (h : n < 65536) : beNat (be16 n) = n := by
  simp [beNat, be16, UInt8.toNat_ofNat']; omega

theorem beNat_be32 (n : Nat) (h : n < 4294967296) : beNat (be32 n) = n := by
  simp [beNat, be32, UInt8.toNat_ofNat']; omega

theorem foldl_be (b : Bytes) (acc : Nat) :
    b.foldl (fun acc x => acc * 256 + x.toNat) acc = acc * 256 ^ b.length + beNat b := by
  induction b generalizing acc with
  | nil => simp [beNat]
  | cons x b ih =>
    simp only [List.foldl_cons, List.length_cons, beNat]
    rw [ih, ih (0 * 256 + x.toNat)]
    simp [Nat.pow_succ, Nat.add_mul, Nat.mul_assoc, Nat.mul_comm 256]
    omega

theorem beNat_append (a b : Bytes) : beNat (a ++ b) = beNat a * 256 ^ b.length + beNat b := by
  unfold beNat
  rw [List.foldl_append, foldl_be]
  rfl

theorem beNat_be64 (n : Nat) (h : n < 18446744073709551616) : beNat (be64 n) = n := by
  unfold be64
  rw [beNat_append, beNat_be32 _ (by omega)]
  simp only [be32_length]
  have : beNat (be32 n) = n % 4294967296 := by
    simp [beNat, be32, UInt8.toNat_ofNat']; omega
  rw [this]
  omega

theorem len4 {l : Bytes} (h : l.length = 4) : ∃ a b c d, l = [a, b, c, d] := by
  match l, h with
  | [a, b, c, d], _ => exact ⟨a, b, c, d, rfl⟩

theorem len8 {l : Bytes} (h : l.length = 8) : ∃ a b c d e f g i, l = [a, b, c, d, e, f, g, i] := by
  match l, h with
  | [a, b, c, d, e, f, g, i], _ => exact ⟨a, b, c, d, e, f, g, i, rfl⟩

theorem len6 {l : Bytes} (h : l.length = 6) : ∃ a b c d e f, l = [a, b, c, d, e, f] := by
  match l, h with
  | [a, b, c, d, e, f], _ => exact ⟨a, b, c, d, e, f, rfl⟩

theorem len16 {l : Bytes} (h : l.length = 16) :
    ∃ a0 a1 a2 a3 a4 a5 a6 a7 a8 a9 a10 a11 a12 a13 a14 a15,
      l = [a0, a1, a2, a3, a4, a5, a6, a7, a8, a9, a10, a11, a12, a13, a14, a15] := by
  match l, h with
  | [a0, a1, a2, a3, a4, a5, a6, a7, a8, a9, a10, a11, a12, a13, a14, a15], _ =>
    exact ⟨a0, a1, a2, a3, a4, a5, a6, a7, a8, a9, a10, a11, a12, a13, a14, a15, rfl⟩


set_option linter.unusedSimpArgs false
set_option linter.unusedVariables false

def WfPph (p : Pph) : Prop :=
  p.peerType < 256 ∧ p.flags < 256 ∧ p.distinguisher.length = 8 ∧ p.v6 = (p.flags / 128 % 2 == 1) ∧
  p.address.length = (if p.v6 then 16 else 4) ∧ p.asn < 4294967296 ∧ p.bgpId.length = 4 ∧
  p.tsSec < 4294967296 ∧ p.tsMicro < 4294967296

theorem be32_recombine (n : Nat) (h : n < 4294967296) :
    ((n / 16777216 % 256 * 256 + n / 65536 % 256) * 256 + n / 256 % 256) * 256 + n % 256 = n := by omega

theorem pph_enc (hdr rest : Bytes) (p : Pph) (hh : hdr.length = 6) (hp : WfPph p) :
    pph (hdr ++ encPph p ++ rest) = .ok p := by
  obtain ⟨pt, fl, dist, v6, addr, asn, bid, s, us⟩ := p
  obtain ⟨h1, h2, h3, h4, h5, h6, h7, h8, h9⟩ := hp
  simp only at h1 h2 h3 h4 h5 h6 h7 h8 h9
  obtain ⟨c0, c1, c2, c3, c4, c5, rfl⟩ := len6 hh
  obtain ⟨d0, d1, d2, d3, d4, d5, d6, d7, rfl⟩ := len8 h3
  obtain ⟨b0, b1, b2, b3, rfl⟩ := len4 h7
  cases v6 with
  | true =>
    simp only [if_true] at h5
    obtain ⟨a0, a1, a2, a3, a4, a5, a6, a7, a8, a9, a10, a11, a12, a13, a14, a15, rfl⟩ := len16 h5
    simp [pph, encPph, slice, idx, rdBE, beAt, be32, beNat, UInt8.toNat_ofNat']
    have hv : fl / 128 % 2 = 1 := by simpa using h4.symm
    rw [Nat.mod_eq_of_lt h1, Nat.mod_eq_of_lt h2, be32_recombine _ h6, be32_recombine _ h8, be32_recombine _ h9]
    simp [hv]
  | false =>
    simp only [Bool.false_eq_true, if_false] at h5
    obtain ⟨a0, a1, a2, a3, rfl⟩ := len4 h5
    simp [pph, encPph, slice, idx, rdBE, beAt, be32, beNat, UInt8.toNat_ofNat', List.replicate]
    have hv : ¬ fl / 128 % 2 = 1 := by simpa using h4.symm
    rw [Nat.mod_eq_of_lt h1, Nat.mod_eq_of_lt h2, be32_recombine _ h6, be32_recombine _ h8, be32_recombine _ h9]
    simp [hv]

theorem rdBE_shift (pre y : Bytes) (k n : Nat) : rdBE (pre ++ y) (pre.length + k) n = rdBE y k n := by
  unfold rdBE
  rw [beAt_append_right]
  simp only [List.length_append]
  by_cases h : k + n ≤ y.length
  · have : pre.length + k + n ≤ pre.length + y.length := by omega
    simp [h, this]
  · have : ¬ pre.length + k + n ≤ pre.length + y.length := by omega
    simp [h, this]

theorem idx_shift (pre y : Bytes) (k : Nat) : idx (pre ++ y) (pre.length + k) = idx y k := by
  unfold idx
  rw [beAt_append_right]
  simp only [List.length_append]
  by_cases h : k + 1 ≤ y.length
  · have : pre.length + k + 1 ≤ pre.length + y.length := by omega
    simp [h, this]
  · have : ¬ pre.length + k + 1 ≤ pre.length + y.length := by omega
    simp [h, this]

def shiftPos (n : Nat) : Outcome (Stat × Nat) → Outcome (Stat × Nat)
  | .ok (s, q) => .ok (s, n + q)
  | .err => .err
  | .panic => .panic

theorem getStat_shift (pre y : Bytes) (k : Nat) :
    getStat (pre ++ y) (pre.length + k) = shiftPos pre.length (getStat y k) := by
  unfold getStat
  simp only [Nat.add_assoc, rdBE_shift, idx_shift]
  cases rdBE y k 2 <;> cases rdBE y (k + 2) 2 <;> simp [shiftPos]
  rename_i typ len
  split
  · cases rdBE y (k + 4) 4 <;> simp [shiftPos]
  · split
    · cases rdBE y (k + 4) 8 <;> simp [shiftPos]
    · split
      · cases rdBE y (k + 4) 2 <;> cases idx y (k + 6) <;> cases rdBE y (k + 7) 8 <;> simp [shiftPos]
      · simp [shiftPos, Nat.add_assoc]

def WfStat : Stat → Prop
  | .u32 t v => isU32Stat t = true ∧ v < 4294967296
  | .u64 t v => isU64Stat t = true ∧ v < 18446744073709551616
  | .afiSafi t a s v => isAfiSafiStat t = true ∧ a < 65536 ∧ s < 256 ∧ v < 18446744073709551616
  | .unimplemented t l => t < 65536 ∧ l < 65536 ∧ ¬ (isU32Stat t = true ∧ l = 4) ∧ ¬ (isU64Stat t = true ∧ l = 8)
      ∧ ¬ (isAfiSafiStat t = true ∧ l = 11)

theorem rdBE_enc (x rest : Bytes) (k n : Nat) (pre : Bytes) (hk : pre.length = k) (hx : x.length = n) :
    rdBE (pre ++ x ++ rest) k n = .ok (beNat x) := by
  subst hk hx
  rw [List.append_assoc]
  have := rdBE_shift pre (x ++ rest) 0 x.length
  simp only [Nat.add_zero] at this
  rw [this]
  simp [rdBE, beAt]

theorem isU32_lt {t : Nat} (h : isU32Stat t = true) : t < 65536 := by
  simp [isU32Stat] at h; omega
theorem isU64_lt {t : Nat} (h : isU64Stat t = true) : t < 65536 := by
  simp [isU64Stat] at h; omega
theorem isAS_lt {t : Nat} (h : isAfiSafiStat t = true) : t < 65536 := by
  simp [isAfiSafiStat] at h; omega

theorem kinds_disjoint (t : Nat) : ¬ (isU32Stat t = true ∧ isU64Stat t = true) ∧ ¬ (isU32Stat t = true ∧ isAfiSafiStat t = true)
    ∧ ¬ (isU64Stat t = true ∧ isAfiSafiStat t = true) := by
  simp [isU32Stat, isU64Stat, isAfiSafiStat]; omega

theorem be16_recombine (n : Nat) (h : n < 65536) : n / 256 % 256 * 256 + n % 256 = n := by omega

theorem be64_recombine (v : Nat) (h : v < 18446744073709551616) :
    (((((((v / 4294967296 / 16777216 % 256 * 256 + v / 4294967296 / 65536 % 256) * 256 +
      v / 4294967296 / 256 % 256) * 256 + v / 4294967296 % 256) * 256 + v / 16777216 % 256) * 256 +
      v / 65536 % 256) * 256 + v / 256 % 256) * 256 + v % 256) = v := by omega

theorem getStat_enc0 (s : Stat) (rest : Bytes) (h : WfStat s) :
    getStat (encStat s ++ rest) 0 = .ok (s, (encStat s).length) := by
  cases s with
  | u32 t v =>
    obtain ⟨ht, hv⟩ := h
    have htl := isU32_lt ht
    simp [getStat, encStat, rdBE, beAt, be16, be32, beNat, UInt8.toNat_ofNat']
    rw [be16_recombine t htl, be32_recombine v hv]
    simp [ht]
  | u64 t v =>
    obtain ⟨ht, hv⟩ := h
    have htl := isU64_lt ht
    have hn := (kinds_disjoint t).1
    simp [getStat, encStat, rdBE, beAt, be16, be32, be64, beNat, UInt8.toNat_ofNat']
    rw [be16_recombine t htl, be64_recombine v hv]
    simp [ht]
  | afiSafi t a s v =>
    obtain ⟨ht, ha, hs, hv⟩ := h
    have htl := isAS_lt ht
    simp [getStat, encStat, rdBE, idx, beAt, be16, be32, be64, beNat, UInt8.toNat_ofNat']
    rw [be16_recombine t htl, be16_recombine a ha, be64_recombine v hv, Nat.mod_eq_of_lt hs]
    simp [ht]
  | unimplemented t l =>
    obtain ⟨ht, hl, h1, h2, h3⟩ := h
    simp [getStat, encStat, rdBE, beAt, be16, beNat, UInt8.toNat_ofNat']
    rw [be16_recombine t ht, be16_recombine l hl]
    simp [h1, h2, h3]
    omega

theorem getStat_enc (pre rest : Bytes) (s : Stat) (h : WfStat s) :
    getStat (pre ++ (encStat s ++ rest)) pre.length = .ok (s, pre.length + (encStat s).length) := by
  have := getStat_shift pre (encStat s ++ rest) 0
  simp only [Nat.add_zero] at this
  rw [this, getStat_enc0 s rest h]
  rfl

theorem statIter_enc (pre rest : Bytes) (ss : List Stat) (h : ∀ s ∈ ss, WfStat s) :
    statIter (pre ++ (ss.flatMap encStat ++ rest)) ss.length pre.length = .ok ss := by
  induction ss generalizing pre with
  | nil => simp [statIter]
  | cons s ss ih =>
    simp only [List.flatMap_cons, List.length_cons, List.append_assoc]
    unfold statIter
    rw [getStat_enc pre _ s (h s (by simp))]
    dsimp only
    have := ih (pre ++ encStat s) (fun x hx => h x (by simp [hx]))
    simp only [List.append_assoc, List.length_append] at this
    rw [this]

theorem stats_enc (hdr rest : Bytes) (ss : List Stat) (hh : hdr.length = 48)
    (hn : ss.length < 4294967296) (h : ∀ s ∈ ss, WfStat s) :
    statsCount (hdr ++ be32 ss.length ++ ss.flatMap encStat ++ rest) = .ok ss.length ∧
    stats (hdr ++ be32 ss.length ++ ss.flatMap encStat ++ rest) = .ok ss := by
  have hc : statsCount (hdr ++ be32 ss.length ++ ss.flatMap encStat ++ rest) = .ok ss.length := by
    unfold statsCount
    simp only [List.append_assoc]
    have := rdBE_shift hdr (be32 ss.length ++ (ss.flatMap encStat ++ rest)) 0 4
    simp only [hh, Nat.add_zero] at this
    simp only [COFF]
    rw [this]
    have h2 : rdBE (be32 ss.length ++ (List.flatMap encStat ss ++ rest)) 0 4 = .ok (beNat (be32 ss.length)) := by
      simp [rdBE, beAt, be32]
    rw [h2, beNat_be32 _ hn]
  refine ⟨hc, ?_⟩
  unfold stats
  rw [hc]
  rw [sliceFrom_ok (by simp [COFF, hh]; omega)]
  dsimp only
  have := statIter_enc (hdr ++ be32 ss.length) rest ss h
  simp only [List.append_assoc, List.length_append, hh, be32_length] at this
  simp only [List.append_assoc, COFF]
  exact this

theorem slice_shift (pre y : Bytes) (a b : Nat) : slice (pre ++ y) (pre.length + a) (pre.length + b) = slice y a b := by
  unfold slice
  simp only [List.length_append]
  by_cases h : a ≤ b ∧ b ≤ y.length
  · have h' : pre.length + a ≤ pre.length + b ∧ pre.length + b ≤ pre.length + y.length := by omega
    simp only [h, h', and_self, if_true]
    have : List.drop (pre.length + a) (pre ++ y) = List.drop a y := by
      rw [← List.drop_drop]; simp
    rw [this]
    congr 2
    omega
  · have h' : ¬ (pre.length + a ≤ pre.length + b ∧ pre.length + b ≤ pre.length + y.length) := by omega
    simp only [h, h', if_false]

def WfTlv (t : Nat × Nat × Bytes) : Prop := t.1 < 65536 ∧ t.2.1 = t.2.2.length ∧ t.2.2.length < 65536

theorem infoTlvIter_enc (pre : Bytes) (ts : List (Nat × Nat × Bytes)) (f : Nat)
    (hf : ts.length < f) (h : ∀ t ∈ ts, WfTlv t) :
    infoTlvIter (pre ++ ts.flatMap encTlv) f pre.length = .ok ts := by
  induction ts generalizing pre f with
  | nil =>
    cases f with
    | zero => simp at hf
    | succ f => simp [infoTlvIter]
  | cons t ts ih =>
    cases f with
    | zero => simp at hf
    | succ f =>
      obtain ⟨typ, len, v⟩ := t
      obtain ⟨h1, h2, h3⟩ := h (typ, len, v) (by simp)
      simp only at h1 h2 h3
      subst h2
      unfold infoTlvIter
      simp only [List.flatMap_cons, encTlv]
      have hne : ¬ pre.length = (pre ++ (be16 typ ++ be16 v.length ++ v ++ List.flatMap encTlv ts)).length := by
        simp [List.length_append]
      simp only [hne, if_false]
      have e1 := rdBE_shift pre (be16 typ ++ be16 v.length ++ v ++ List.flatMap encTlv ts) 2 2
      rw [e1]
      have e2 : rdBE (be16 typ ++ be16 v.length ++ v ++ List.flatMap encTlv ts) 2 2 = .ok v.length := by
        simp [rdBE, beAt, be16, beNat, UInt8.toNat_ofNat']
        omega
      rw [e2]
      dsimp only
      have e3 := slice_shift pre (be16 typ ++ be16 v.length ++ v ++ List.flatMap encTlv ts) 0 (4 + v.length)
      simp only [Nat.add_zero] at e3
      rw [← Nat.add_assoc] at e3
      rw [e3]
      have e4 : slice (be16 typ ++ be16 v.length ++ v ++ List.flatMap encTlv ts) 0 (4 + v.length)
          = .ok (be16 typ ++ be16 v.length ++ v) := by
        unfold slice
        have : 0 ≤ 4 + v.length ∧ 4 + v.length ≤ (be16 typ ++ be16 v.length ++ v ++ List.flatMap encTlv ts).length := by
          simp [List.length_append]; omega
        simp only [this, and_self, if_true]
        have hl : (be16 typ ++ be16 v.length ++ v).length = 4 + v.length := by simp [List.length_append]; omega
        simp only [List.drop_zero, Nat.sub_zero]
        rw [← hl, List.take_left']
        rfl
      rw [e4]
      dsimp only
      have e5 : rdBE (be16 typ ++ be16 v.length ++ v) 0 2 = .ok typ := by
        simp [rdBE, beAt, be16, beNat, UInt8.toNat_ofNat']
        omega
      have e6 : sliceFrom (be16 typ ++ be16 v.length ++ v) 4 = .ok v := by
        simp [sliceFrom, be16]
      have e5' : rdBE (be16 typ ++ be16 v.length ++ v) 2 2 = .ok v.length := by
        simp [rdBE, beAt, be16, beNat, UInt8.toNat_ofNat']
        omega
      rw [e5, e5', e6]
      dsimp only
      have := ih (pre ++ (be16 typ ++ be16 v.length ++ v)) f (by simp at hf; omega) (fun x hx => h x (by simp [hx]))
      simp only [List.append_assoc, List.length_append, be16_length] at this
      have e7 : pre.length + (v.length + 4) = pre.length + (2 + (2 + v.length)) := by omega
      simp only [List.append_assoc]
      rw [e7, this]

def encTerm : TermInfo → Bytes
  | .customString raw => be16 0 ++ be16 raw.length ++ raw
  | .reason v => be16 1 ++ be16 2 ++ be16 v
  | .undefinedTlv t => be16 t ++ be16 0

def WfTerm : TermInfo → Prop
  | .customString raw => raw.length < 65536
  | .reason v => v < 65536
  | .undefinedTlv _ => False

theorem termItem_enc (t : TermInfo) (h : WfTerm t) :
    ∃ typ len v, encTerm t = be16 typ ++ be16 len ++ v ∧ typ < 65536 ∧ len = v.length ∧ len < 65536 ∧
      (if typ = 0 then TermInfo.customString v else if len = 2 then TermInfo.reason (beNat v) else TermInfo.undefinedTlv typ) = t := by
  cases t with
  | customString raw => exact ⟨0, raw.length, raw, rfl, by omega, rfl, h, by simp⟩
  | reason v => exact ⟨1, 2, be16 v, rfl, by omega, rfl, by omega, by simp [beNat_be16 v h]⟩
  | undefinedTlv t => exact absurd h (by simp [WfTerm])

theorem termIter_enc (pre : Bytes) (ts : List TermInfo) (f : Nat)
    (hf : ts.length < f) (h : ∀ t ∈ ts, WfTerm t) :
    termIter (pre ++ ts.flatMap encTerm) f pre.length = .ok ts := by
  induction ts generalizing pre f with
  | nil =>
    cases f with
    | zero => simp at hf
    | succ f => simp [termIter]
  | cons t ts ih =>
    cases f with
    | zero => simp at hf
    | succ f =>
      obtain ⟨typ, len, v, he, h1, h2, h3, hitem⟩ := termItem_enc t (h t (by simp))
      subst h2
      unfold termIter
      simp only [List.flatMap_cons, he]
      have hne : ¬ pre.length = (pre ++ (be16 typ ++ be16 v.length ++ v ++ List.flatMap encTerm ts)).length := by
        simp [List.length_append]
      simp only [hne, if_false]
      have e0 := rdBE_shift pre (be16 typ ++ be16 v.length ++ v ++ List.flatMap encTerm ts) 0 2
      simp only [Nat.add_zero] at e0
      have e1 := rdBE_shift pre (be16 typ ++ be16 v.length ++ v ++ List.flatMap encTerm ts) 2 2
      rw [e0, e1]
      have e2 : rdBE (be16 typ ++ be16 v.length ++ v ++ List.flatMap encTerm ts) 2 2 = .ok v.length := by
        simp [rdBE, beAt, be16, beNat, UInt8.toNat_ofNat']
        omega
      have e5 : rdBE (be16 typ ++ be16 v.length ++ v ++ List.flatMap encTerm ts) 0 2 = .ok typ := by
        simp [rdBE, beAt, be16, beNat, UInt8.toNat_ofNat']
        omega
      rw [e2, e5]
      dsimp only
      have e3 := slice_shift pre (be16 typ ++ be16 v.length ++ v ++ List.flatMap encTerm ts) 4 (4 + v.length)
      rw [← Nat.add_assoc] at e3
      rw [e3]
      have e4 : slice (be16 typ ++ be16 v.length ++ v ++ List.flatMap encTerm ts) 4 (4 + v.length) = .ok v := by
        unfold slice
        have : 4 ≤ 4 + v.length ∧ 4 + v.length ≤ (be16 typ ++ be16 v.length ++ v ++ List.flatMap encTerm ts).length := by
          simp [List.length_append]; omega
        simp only [this, and_self, if_true]
        have : List.drop 4 (be16 typ ++ be16 v.length ++ v ++ List.flatMap encTerm ts) = v ++ List.flatMap encTerm ts := by
          simp [be16]
        rw [this]
        simp
      rw [e4]
      dsimp only
      have := ih (pre ++ (be16 typ ++ be16 v.length ++ v)) f (by simp at hf; omega) (fun x hx => h x (by simp [hx]))
      simp only [List.append_assoc, List.length_append, be16_length] at this
      have e7 : pre.length + 4 + v.length = pre.length + (2 + (2 + v.length)) := by omega
      simp only [List.append_assoc]
      rw [e7, this, hitem]

theorem length_le_flatMap {α} (f : α → Bytes) (l : List α) (h : ∀ x, 1 ≤ (f x).length) :
    l.length ≤ (l.flatMap f).length := by
  induction l with
  | nil => simp
  | cons x l ih =>
    simp only [List.flatMap_cons, List.length_append, List.length_cons]
    have := h x
    omega

end Rc.Bmp
