/-
Model side of the C01 / C02 line protocol (see harness/src/props/c02.rs, where
the observation function shared by both properties lives):

  upd CFG HEX     CFG = `4` | `2` followed by `,AFI.SAFI.D` items (D = r | s | b: the
                  `add_addpath` calls in order); HEX = the octets offered to
                  `UpdateMessage::from_octets`
  reply           err | panic | ok GROUP | GROUP | ...   (one `name=value` per accessor group;
                  a group is `panic` when an accessor in it panicked, a list ends in
                  `+hang` when its iterator did not end within the bound)

  enc CFG WD ATTRS ANN   an abstract content with TYPED attributes, encoded by the reference
                  encoder `encUpdateT` the C01 theorems speak about (the harness answers with
                  its own Rust reference encoder: the two are compared octet by octet)
                  WD, ANN = `-` | ITEM{;ITEM}      ITEM = the `,`-joined tokens of C05 (`pid=N,` first
                                                   when a path id is given)
                  ATTRS   = `-` | ATTR{|ATTR}      FL = flags octet (decimal)
                    t~FL~VALUE        typed value in C04's request text (`med:5`, `aspath:a1,a2`, ...)
                    p~FL~CODE~SEGS    AS_PATH (2) / AS4_PATH (17) as wire segments `TY:ASN.ASN{,..}` | `-`
                    r~FL~CODE~HEX     attribute of an unrecognised type
                    m~FL~FAM~NH~ITEMS MP_REACH_NLRI     (FAM = Rust name of the family, NH hex)
                    m~FL~FAM~NH~ITEMS~RSV   the same with the reserved octet RSV (decimal) instead of 0
                    u~FL~FAM~ITEMS    MP_UNREACH_NLRI
                    M~FL~AFI.SAFI~NH~RSV~HEX   MP_REACH_NLRI of any (AFI, SAFI) code points (meant for the
                                      unsupported ones): next-hop field, reserved octet, opaque octets
                    U~FL~AFI.SAFI~HEX MP_UNREACH_NLRI of any (AFI, SAFI) with opaque octets
  reply           ok HEX | err | panic
-/
import Rc.Model.UpdateObs
import Rc.Drv.C04
import Rc.Drv.C05

namespace Rc.Drv.C01
open Rc Rc.Nlri Rc.Attr Rc.Upd

def parseDir (s : String) : Option Dir :=
  if s == "r" then some .receive else if s == "s" then some .send else if s == "b" then some .both else none

def decNat (s : String) : Option Nat :=
  if s.isEmpty || s.length > 6 || !s.toList.all Char.isDigit then none else s.toNat?

def parseCfg (s : String) : Option Cfg :=
  match s.splitOn "," with
  | w :: items =>
    match Rc.Drv.C13.parseW w with
    | none => none
    | some four =>
      let es := items.mapM fun it =>
        match it.splitOn "." with
        | [a, b, d] =>
          match decNat a, decNat b, parseDir d with
          | some a, some b, some d => if a < 65536 && b < 256 then some ((a, b), d) else none
          | _, _, _ => none
        | _ => none
      es.map fun l => ⟨four, l⟩
  | [] => none

def famName (f : Fam) : String :=
  match Rc.Drv.C05.famNames.find? (fun x => x.2 == f) with
  | some (n, _) => n
  | none => "?"

def afiSafiName (k : Nat × Nat) : String :=
  match famOf k with
  | some f => famName f
  | none => s!"U{k.1}.{k.2}"

def tyName : NlriTy → String
  | .known f ap => famName f ++ (if ap then "Addpath" else "")
  | .unsupported a s => s!"U{a}.{s}"

def commas (s : String) : String := s.replace " " ","

def showAny : AnyNlri → String
  | .plain f v => commas ((Rc.Drv.C05.famIo f).shw v)
  | .ap f pid v => commas ((Rc.Drv.C05.famIo f).addpath.shw (pid, v))

/-- items joined by `;`, `E` for an `Err` item; `none` when an item is a panic -/
def showItems {α : Type} (sh : α → String) (r : List (Outcome α) × Bool) : Option String :=
  if r.1.any (fun x => match x with | .panic => true | _ => false) then none
  else
    let ss := r.1.map fun x => match x with
      | .ok a => sh a
      | _ => "E"
    let body := if ss.isEmpty then "-" else String.intercalate ";" ss
    some (if r.2 then body else body ++ "+hang")

def orPanic (x : Option String) : String := x.getD "panic"

def showOptIter (x : Outcome (Option (NlriTy × Bytes))) : String :=
  match x with
  | .ok none => "none"
  | .ok (some (ty, bs)) =>
    match showItems showAny (enumItems ty bs) with
    | some s => s!"{tyName ty}:{s}"
    | none => "panic"
  | .err => "err"
  | .panic => "panic"

def showChain (x : Outcome (List (Outcome AnyNlri) × Bool)) : String :=
  match x with
  | .ok r => orPanic (showItems showAny r)
  | .err => "err"
  | .panic => "panic"

def showVec (x : Outcome (List AnyNlri)) : String :=
  match x with
  | .ok l => "ok:" ++ (if l.isEmpty then "-" else String.intercalate ";" (l.map showAny))
  | .err => "err"
  | .panic => "panic"

def allTypes : List (Fam × Bool) :=
  (Rc.Drv.C05.famNames.map fun x => [(x.2, false), (x.2, true)]).flatten

def showTyped (get : Fam → Bool → Outcome (Option (List (Outcome AnyNlri) × Bool))) : String :=
  let parts := allTypes.filterMap fun (f, ap) =>
    let name := tyName (.known f ap)
    match get f ap with
    | .ok none => none
    | .ok (some r) => some s!"{name}:{orPanic (showItems showAny r)}"
    | .err => some s!"{name}:err"
    | .panic => some s!"{name}:panic"
  if parts.any (fun p => p.endsWith ":panic") then "panic"
  else if parts.isEmpty then "-" else String.intercalate "&" parts

def showOptTy (x : Option NlriTy) : String :=
  match x with
  | some t => tyName t
  | none => "-"

def showNh : NextHop → String
  | .unicast a => s!"uni:{hexOrDash a}"
  | .ll a b => s!"ll:{hexOrDash a}:{hexOrDash b}"
  | .vpn rd a => s!"vpn:{hexOrDash rd}:{hexOrDash a}"
  | .empty => "empty"

def showOO {α : Type} (sh : α → String) (x : Outcome (Option α)) : String :=
  match x with
  | .ok none => "-"
  | .ok (some a) => sh a
  | .err => "err"
  | .panic => "panic"

def showPath (x : Bytes × AsPath.HopPath) : String := s!"{hexOrDash x.1}:{Rc.Drv.C13.showHops x.2}"

/-- `hops()`, `segments()` and the segments' `asns()` of a returned `AsPath`, each
driven to its end: the three counts (C02 `hops_bounded`: each is at most the number of value octets) -/
def showPathIter (four : Bool) (x : Outcome (Option (Bytes × AsPath.HopPath))) : String :=
  match x with
  | .ok none => "-"
  | .ok (some (v, h)) =>
    match AsPath.segments four v with
    | .ok ss => s!"{h.length}.{ss.length}.{(ss.map fun sg => sg.asns.length).sum}"
    | _ => "panic"
  | .err => "err"
  | .panic => "panic"

def showComms (x : Option (List (Outcome Bytes) × Bool)) : String :=
  match x with
  | none => "none"
  | some r => orPanic (showItems hexOrDash r)

def showAttrItem (four : Bool) (w : Wire) : String :=
  s!"{w.flags}:{w.code}:{w.len}:{Rc.Drv.C04.showDecoded (toOwned four w)}"

def fnhFams : List (Nat × Nat) := (Rc.Drv.C05.famNames.map fun x => famCode x.2) ++ [(99, 9)]

def showOptIterO (x : Outcome (Option (NlriTy × Items))) : String :=
  match x with
  | .ok none => "none"
  | .ok (some (ty, r)) =>
    match showItems showAny r with
    | some s => s!"{tyName ty}:{s}"
    | none => "panic"
  | .err => "err"
  | .panic => "panic"

/-- the reply is printed from the `Observation` record the C01 theorem
`decode_encode` is about (`tw` / `ta` additionally show `typed_*::<T>` for all 26
NLRI types `T`, `pcap` is C02's) -/
def observe (m : Msg) : String :=
  let o := observeMsg m
  let g (n v : String) := s!"{n}={v}"
  String.intercalate " | " [
    g "len" s!"{o.length},{o.wdLen},{o.attrLen}",
    g "pcap" (match m.pcap with | .ok b => hexOrDash b | _ => "panic"),
    g "attrs" (orPanic (showItems (fun (x : Wire × Outcome Decoded) =>
        s!"{x.1.flags}:{x.1.code}:{x.1.len}:{Rc.Drv.C04.showDecoded x.2}")
      ((o.attrs.1.zip o.owned).map (fun x => match x.1 with
        | .ok w => .ok (w, x.2)
        | .err => .err
        | .panic => .panic), o.attrs.2))),
    g "cw" (orPanic (showItems showAny o.convWd)),
    g "ca" (orPanic (showItems showAny o.convAnn)),
    g "mw" (showOptIterO o.mpWd),
    g "ma" (showOptIterO o.mpAnn),
    g "w" (showChain o.withdrawals),
    g "a" (showChain o.announcements),
    g "wv" (showVec o.wdVec),
    g "av" (showVec o.annVec),
    g "tw" (showTyped m.typedWd),
    g "ta" (showTyped m.typedAnn),
    g "fams" (match o.afiSafis with
      | .ok (a, b, c, d) => s!"{showOptTy a},{showOptTy b},{showOptTy c},{showOptTy d}"
      | _ => "panic"),
    g "eor" (showOO afiSafiName o.isEor),
    g "origin" (showOO toString o.origin),
    g "aspath" (showOO showPath o.aspath),
    g "as4path" (showOO showPath o.as4path),
    g "pit" s!"{showPathIter m.ppi.four o.aspath}/{showPathIter true o.as4path}",
    g "cnh" (showOO showNh o.convNextHop),
    g "mnh" (showOO showNh o.mpNextHop),
    g "fnh" (
      let rs := fnhFams.map fun k => (k, o.findNextHop k)
      if rs.any (fun x => match x.2 with | .panic => true | _ => false) then "panic"
      else
        let parts := rs.filterMap fun (k, r) => match r with
          | .ok nh => some s!"{afiSafiName k}:{showNh nh}"
          | _ => none
        if parts.isEmpty then "-" else String.intercalate "&" parts),
    g "med" (showOO toString o.med),
    g "lp" (showOO toString o.localPref),
    g "atomic" (Rc.Drv.C13.bstr o.isAtomicAggregate),
    g "aggr" (showOO (fun (x : Nat × Bytes) => s!"{x.1}:{hexOrDash x.2}") o.aggregator),
    g "comm" (showComms o.communities),
    g "ext" (showComms o.extCommunities),
    g "v6ext" (showComms o.ipv6ExtCommunities),
    g "large" (showComms o.largeCommunities),
    g "all" (showOO (fun (l : List Bytes) => String.intercalate ";" (l.map hexOrDash)) o.allCommunities),
    -- the harness' iterator-protocol verdict (harness/src/common.rs iter_protocol): the model's iterators
    -- are `next` sequences, every default consumption of which observes the same list
    -- (Rc/Lemmas/IterProto.lean), so the model's answer is the constant
    g "proto" "ok"]

def upd (c hx : String) : String :=
    match parseCfg c, bytesOfHex hx with
    | some cfg, some bs =>
      match parseUpdate cfg bs with
      | .ok m => "ok " ++ observe m
      | .err => "err"
      | .panic => "panic"
    | _, _ => "bad-op"

/-! ### the `enc` op: abstract typed content -> octets of the reference encoder -/

def famOfName (s : String) : Option Fam := (Rc.Drv.C05.famNames.find? (·.1 == s)).map (·.2)

/-- one NLRI item: `,`-joined C05 tokens, `pid=N` first when a path id is given -/
def readItem (f : Fam) (s : String) : Option (Nat × f.Val) :=
  let toks := s.splitOn ","
  match toks with
  | t :: rest =>
    match Rc.Drv.C05.kvNat "pid" t with
    | some p => if p < 4294967296 then ((Rc.Drv.C05.famIo f).read rest).map fun v => (p, v) else none
    | none => ((Rc.Drv.C05.famIo f).read toks).map fun v => (0, v)
  | [] => none

def readItems (f : Fam) (s : String) : Option (List (Nat × f.Val)) :=
  if s == "-" then some [] else (s.splitOn ";").mapM (readItem f)

def readFlags (s : String) : Option UInt8 :=
  match decNat s with
  | some n => if n < 256 then some (UInt8.ofNat n) else none
  | none => none

def readSeg (s : String) : Option AsPath.Seg :=
  match s.splitOn ":" with
  | [t, as] =>
    match decNat t, Rc.Drv.C13.parseAsns as with
    | some ty, some l => if ty < 256 then some ⟨ty, true, l⟩ else none
    | _, _ => none
  | _ => none

def readSegs (s : String) : Option (List AsPath.Seg) :=
  if s == "-" then some [] else (s.splitOn ",").mapM readSeg

/-- `AFI.SAFI` in decimal -/
def readKey (s : String) : Option (Nat × Nat) :=
  match s.splitOn "." with
  | [a, b] =>
    match decNat a, decNat b with
    | some a, some b => if a < 65536 && b < 256 then some (a, b) else none
    | _, _ => none
  | _ => none

def readAttr (s : String) : Option AttrC :=
  match s.splitOn "~" with
  | ["t", fl, v] =>
    match readFlags fl, Rc.Drv.C04.parseValueText v with
    | some fl, some a => some (.typed fl a)
    | _, _ => none
  | ["p", fl, code, segs] =>
    match readFlags fl, readSegs segs with
    | some fl, some ss =>
      if code == "2" then some (.path fl false ss) else if code == "17" then some (.path fl true ss) else none
    | _, _ => none
  | ["r", fl, code, hx] =>
    match readFlags fl, readFlags code, bytesOfHex hx with
    | some fl, some tc, some v => some (.raw fl tc v)
    | _, _, _ => none
  | ["m", fl, fam, nh, items] =>
    match readFlags fl, famOfName fam, bytesOfHex nh with
    | some fl, some f, some nh => (readItems f items).map fun l => .reach fl f nh 0 l
    | _, _, _ => none
  | ["m", fl, fam, nh, items, rsv] =>
    match readFlags fl, famOfName fam, bytesOfHex nh, readFlags rsv with
    | some fl, some f, some nh, some rsv => (readItems f items).map fun l => .reach fl f nh rsv l
    | _, _, _, _ => none
  | ["M", fl, k, nh, rsv, body] =>
    match readFlags fl, readKey k, bytesOfHex nh, readFlags rsv, bytesOfHex body with
    | some fl, some k, some nh, some rsv, some body => some (.reachU fl k nh rsv body)
    | _, _, _, _, _ => none
  | ["U", fl, k, body] =>
    match readFlags fl, readKey k, bytesOfHex body with
    | some fl, some k, some body => some (.unreachU fl k body)
    | _, _, _ => none
  | ["u", fl, fam, items] =>
    match readFlags fl, famOfName fam with
    | some fl, some f => (readItems f items).map fun l => .unreach fl f l
    | _, _ => none
  | _ => none

def readAttrs (s : String) : Option (List AttrC) :=
  if s == "-" then some [] else (s.splitOn "|").mapM readAttr

def enc (c wd attrs ann : String) : String :=
  match parseCfg c, readItems .v4u wd, readAttrs attrs, readItems .v4u ann with
  | some cfg, some w, some at', some a =>
    match encUpdateT cfg ⟨w, at', a⟩ with
    | .ok bs => "ok " ++ hexOrDash bs
    | .err => "err"
    | .panic => "panic"
  | _, _, _, _ => "bad-op"

/-- the two extra tokens of a C01 `upd` request (hash, expected observation)
are for the harness' oracle only -/
def handle (ws : List String) : String :=
  match ws with
  | ["upd", c, hx] => upd c hx
  | ["upd", c, hx, _, _] => upd c hx
  | ["enc", c, wd, attrs, ann] => enc c wd attrs ann
  | _ => "bad-op"

end Rc.Drv.C01
