/-
Model side of the C01 / C02 line protocol (see harness/src/props/c02.rs, where
the observation function shared by both properties lives):

  upd CFG HEX     CFG = `4` | `2` followed by `,AFI.SAFI.D` items (D = r | s | b: the
                  `add_addpath` calls in order); HEX = the octets offered to
                  `UpdateMessage::from_octets`
  reply           err | panic | ok GROUP | GROUP | ...   (one `name=value` per accessor group;
                  a group is `panic` when an accessor in it panicked, a list ends in
                  `+hang` when its iterator did not end within the bound)
-/
import Rc.Model.Update
import Rc.Drv.C04
import Rc.Drv.C05

namespace Rc.Drv.C01
open Rc Rc.Nlri Rc.Attr Rc.Upd

def parseDir (s : String) : Option Dir :=
  if s == "r" then some .receive else if s == "s" then some .send else if s == "b" then some .both else none

def decNat (s : String) : Option Nat :=
  if s.isEmpty || s.length > 6 || !s.toList.all Char.isDigit then none else s.toNat?

def parseCfg (s : String) : Option Cfg :=
  match s.splitOn "," with
  | w :: items =>
    match Rc.Drv.C13.parseW w with
    | none => none
    | some four =>
      let es := items.mapM fun it =>
        match it.splitOn "." with
        | [a, b, d] =>
          match decNat a, decNat b, parseDir d with
          | some a, some b, some d => if a < 65536 && b < 256 then some ((a, b), d) else none
          | _, _, _ => none
        | _ => none
      es.map fun l => ⟨four, l⟩
  | [] => none

def famName (f : Fam) : String :=
  match Rc.Drv.C05.famNames.find? (fun x => x.2 == f) with
  | some (n, _) => n
  | none => "?"

def afiSafiName (k : Nat × Nat) : String :=
  match famOf k with
  | some f => famName f
  | none => s!"U{k.1}.{k.2}"

def tyName : NlriTy → String
  | .known f ap => famName f ++ (if ap then "Addpath" else "")
  | .unsupported a s => s!"U{a}.{s}"

def commas (s : String) : String := s.replace " " ","

def showAny : AnyNlri → String
  | .plain f v => commas ((Rc.Drv.C05.famIo f).shw v)
  | .ap f pid v => commas ((Rc.Drv.C05.famIo f).addpath.shw (pid, v))

/-- items joined by `;`, `E` for an `Err` item; `none` when an item is a panic -/
def showItems {α : Type} (sh : α → String) (r : List (Outcome α) × Bool) : Option String :=
  if r.1.any (fun x => match x with | .panic => true | _ => false) then none
  else
    let ss := r.1.map fun x => match x with
      | .ok a => sh a
      | _ => "E"
    let body := if ss.isEmpty then "-" else String.intercalate ";" ss
    some (if r.2 then body else body ++ "+hang")

def orPanic (x : Option String) : String := x.getD "panic"

def showOptIter (x : Outcome (Option (NlriTy × Bytes))) : String :=
  match x with
  | .ok none => "none"
  | .ok (some (ty, bs)) =>
    match showItems showAny (enumItems ty bs) with
    | some s => s!"{tyName ty}:{s}"
    | none => "panic"
  | .err => "err"
  | .panic => "panic"

def showChain (x : Outcome (List (Outcome AnyNlri) × Bool)) : String :=
  match x with
  | .ok r => orPanic (showItems showAny r)
  | .err => "err"
  | .panic => "panic"

def showVec (x : Outcome (List AnyNlri)) : String :=
  match x with
  | .ok l => "ok:" ++ (if l.isEmpty then "-" else String.intercalate ";" (l.map showAny))
  | .err => "err"
  | .panic => "panic"

def allTypes : List (Fam × Bool) :=
  (Rc.Drv.C05.famNames.map fun x => [(x.2, false), (x.2, true)]).flatten

def showTyped (get : Fam → Bool → Outcome (Option (List (Outcome AnyNlri) × Bool))) : String :=
  let parts := allTypes.filterMap fun (f, ap) =>
    let name := tyName (.known f ap)
    match get f ap with
    | .ok none => none
    | .ok (some r) => some s!"{name}:{orPanic (showItems showAny r)}"
    | .err => some s!"{name}:err"
    | .panic => some s!"{name}:panic"
  if parts.any (fun p => p.endsWith ":panic") then "panic"
  else if parts.isEmpty then "-" else String.intercalate "&" parts

def showOptTy (x : Option NlriTy) : String :=
  match x with
  | some t => tyName t
  | none => "-"

def showNh : NextHop → String
  | .unicast a => s!"uni:{hexOrDash a}"
  | .ll a b => s!"ll:{hexOrDash a}:{hexOrDash b}"
  | .vpn rd a => s!"vpn:{hexOrDash rd}:{hexOrDash a}"
  | .empty => "empty"

def showOO {α : Type} (sh : α → String) (x : Outcome (Option α)) : String :=
  match x with
  | .ok none => "-"
  | .ok (some a) => sh a
  | .err => "err"
  | .panic => "panic"

def showPath (x : Bytes × AsPath.HopPath) : String := s!"{hexOrDash x.1}:{Rc.Drv.C13.showHops x.2}"

def showComms (x : Option (List (Outcome Bytes) × Bool)) : String :=
  match x with
  | none => "none"
  | some r => orPanic (showItems hexOrDash r)

def showAttrItem (four : Bool) (w : Wire) : String :=
  s!"{w.flags}:{w.code}:{w.len}:{Rc.Drv.C04.showDecoded (toOwned four w)}"

def fnhFams : List (Nat × Nat) := (Rc.Drv.C05.famNames.map fun x => famCode x.2) ++ [(99, 9)]

def observe (m : Msg) : String :=
  let g (n v : String) := s!"{n}={v}"
  String.intercalate " | " [
    g "len" s!"{m.length},{m.wdLen},{m.attrLen}",
    g "pcap" (match m.pcap with | .ok b => hexOrDash b | _ => "panic"),
    g "attrs" (orPanic (showItems (showAttrItem m.ppi.four) m.pathAttributes)),
    g "cw" (orPanic (showItems showAny m.convWd)),
    g "ca" (orPanic (showItems showAny m.convAnn)),
    g "mw" (showOptIter m.mpWd),
    g "ma" (showOptIter m.mpAnn),
    g "w" (showChain m.withdrawals),
    g "a" (showChain m.announcements),
    g "wv" (showVec m.wdVec),
    g "av" (showVec m.annVec),
    g "tw" (showTyped m.typedWd),
    g "ta" (showTyped m.typedAnn),
    g "fams" (match m.afiSafis with
      | .ok (a, b, c, d) => s!"{showOptTy a},{showOptTy b},{showOptTy c},{showOptTy d}"
      | _ => "panic"),
    g "eor" (showOO afiSafiName m.isEor),
    g "origin" (showOO toString m.origin),
    g "aspath" (showOO showPath m.aspath),
    g "as4path" (showOO showPath m.as4path),
    g "cnh" (showOO showNh m.convNextHop),
    g "mnh" (showOO showNh m.mpNextHop),
    g "fnh" (
      let rs := fnhFams.map fun k => (k, m.findNextHop k)
      if rs.any (fun x => match x.2 with | .panic => true | _ => false) then "panic"
      else
        let parts := rs.filterMap fun (k, r) => match r with
          | .ok nh => some s!"{afiSafiName k}:{showNh nh}"
          | _ => none
        if parts.isEmpty then "-" else String.intercalate "&" parts),
    g "med" (showOO toString m.med),
    g "lp" (showOO toString m.localPref),
    g "atomic" (Rc.Drv.C13.bstr m.isAtomicAggregate),
    g "aggr" (showOO (fun (x : Nat × Bytes) => s!"{x.1}:{hexOrDash x.2}") m.aggregator),
    g "comm" (showComms m.communities),
    g "ext" (showComms m.extCommunities),
    g "v6ext" (showComms m.ipv6ExtCommunities),
    g "large" (showComms m.largeCommunities),
    g "all" (showOO (fun (l : List Bytes) => String.intercalate ";" (l.map hexOrDash)) m.allCommunities)]

def upd (c hx : String) : String :=
    match parseCfg c, bytesOfHex hx with
    | some cfg, some bs =>
      match parseUpdate cfg bs with
      | .ok m => "ok " ++ observe m
      | .err => "err"
      | .panic => "panic"
    | _, _ => "bad-op"

/-- the two extra tokens of a C01 request (hash, expected observation) are
for the harness' oracle only -/
def handle (ws : List String) : String :=
  match ws with
  | ["upd", c, hx] => upd c hx
  | ["upd", c, hx, _, _] => upd c hx
  | _ => "bad-op"

end Rc.Drv.C01
