import Rc.Base
import Rc.Model.Open
import Rc.Model.Negotiate
namespace Rc.Drv.C12
open Rc Rc.Negotiate

def famLt (a b : Fam) : Bool := a.1 < b.1 || (a.1 == b.1 && a.2 < b.2)

def insertSorted (f : Fam) : List Fam → List Fam
  | [] => [f]
  | g :: r => if f == g then g :: r else if famLt f g then f :: g :: r else g :: insertSorted f r

def sortDedup (l : List Fam) : List Fam := l.foldl (fun acc f => insertSorted f acc) []

def watch : List Fam := [(1, 1), (1, 2), (2, 1), (2, 2), (1, 128), (25, 70)]

def watched (extra : List Fam) : List Fam :=
  watch ++ (sortDedup extra).filter (fun f => !watch.contains f)

def showCfg (c : Config) (keys : List Fam) (fams : List Fam) : String :=
  let ents := (sortDedup keys).filterMap fun f => (c.get f).map fun d => s!"{f.1}/{f.2}:{d.code}"
  let cfg := if ents.isEmpty then "-" else ",".intercalate ents
  let rx := String.ofList (fams.map fun f => if c.rx f then '1' else '0')
  s!"four={if c.four then 1 else 0} cfg={cfg} rx={rx}"

/-- decode an OPEN with the C03 model; `none` = rejected or ADD-PATH list unreadable -/
def openInfo (bs : Bytes) : Option (OpenInfo × List (Nat × Nat × Nat)) :=
  match Open.fromOctets bs with
  | .ok m =>
    match Open.fourOctetCapable m, Open.addpathFamiliesVec m with
    | .ok four, .ok ap =>
      let l := ap.filterMap fun (a, s, d) => (Dir.ofCode d).map fun dd => ((a, s), dd)
      some (⟨four, l⟩, ap)
    | _, _ => none
  | _ => none

def parseFams (s : String) : Option (List Fam) :=
  if s == "-" then some [] else
  (s.splitOn ",").mapM fun e =>
    match e.splitOn "." with
    | [a, b] => do
      let a ← a.toNat?
      let b ← b.toNat?
      if a < 65536 ∧ b < 256 then some (a, b) else none
    | _ => none

def handle (ws : List String) : String :=
  match ws with
  | ["neg", l, p, g] =>
    match bytesOfHex l, bytesOfHex p, (if g == "0" then some false else if g == "1" then some true else none) with
    | some lb, some pb, some legacy =>
      (match openInfo lb, openInfo pb with
       | some (li, _), some (pi, _) =>
         let keys := li.ap.map (·.1) ++ pi.ap.map (·.1)
         let fams := watched keys
         let h := helper li pi
         let b := bmpConfig li pi
         let (pc, inc) := pphConfig li pi legacy
         s!"H {showCfg h keys fams} | B {showCfg b keys fams} | P {showCfg pc keys fams} incons={if inc then 1 else 0}"
       | _, _ => "err")
    | _, _, _ => "bad-op"
  | ["live", f, p] | ["live-delay", f, p] =>   -- both copies of the negotiation code (OpenSent / Active+DelayOpen)
    match parseFams f, bytesOfHex p with
    | some cf, some pb =>
      (match openInfo pb with
       | some (pi, _) =>
         let keys := cf ++ pi.ap.map (·.1)
         let fams := watched keys
         let c := liveConfig cf pi
         let loc := liveLocal cf
         let sentap := if loc.ap.isEmpty then "-" else ",".intercalate (loc.ap.map fun (f, d) => s!"{f.1}/{f.2}/{d.code}")
         let probe := if c.rx (1, 1) then "pathid" else "plain"
         let asp := if c.four then "as4" else "as2"
         s!"L {showCfg c keys fams} sent4={if loc.four then 1 else 0} sentap={sentap} probe={probe} aspath={asp}"
       | none => "err")
    | _, _ => "bad-op"
  | _ => "bad-op"

end Rc.Drv.C12
