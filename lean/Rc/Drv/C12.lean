import Rc.Base
import Rc.Model.Open
import Rc.Model.Negotiate
namespace Rc.Drv.C12
open Rc Rc.Negotiate

def famLt (a b : Fam) : Bool := a.1 < b.1 || (a.1 == b.1 && a.2 < b.2)

def insertSorted (f : Fam) : List Fam → List Fam
  | [] => [f]
  | g :: r => if f == g then g :: r else if famLt f g then f :: g :: r else g :: insertSorted f r

def sortDedup (l : List Fam) : List Fam := l.foldl (fun acc f => insertSorted f acc) []

def watch : List Fam := [(1, 1), (1, 2), (2, 1), (2, 2), (1, 128), (25, 70)]

def watched (extra : List Fam) : List Fam :=
  watch ++ (sortDedup extra).filter (fun f => !watch.contains f)

def showCfg (c : Config) (keys : List Fam) (fams : List Fam) : String :=
  let ents := (sortDedup keys).filterMap fun f => (c.get f).map fun d => s!"{f.1}/{f.2}:{d.code}"
  let cfg := if ents.isEmpty then "-" else ",".intercalate ents
  let rx := String.ofList (fams.map fun f => if c.rx f then '1' else '0')
  s!"four={if c.four then 1 else 0} cfg={cfg} rx={rx}"

/-- decode an OPEN with the C03 model: `none` = `from_octets` rejects it (or an accessor panics);
otherwise `four_octet_capable()` and `addpath_families_vec()` (`ap = none` = `Err`) -/
def openRd (bs : Bytes) : Option OpenRd :=
  match Open.fromOctets bs with
  | .ok m =>
    match Open.fourOctetCapable m, Open.addpathFamiliesVec m with
    | .ok four, .ok ap =>
      some ⟨four, some (ap.filterMap fun (a, s, d) => (Dir.ofCode d).map fun dd => ((a, s), dd))⟩
    | .ok four, .err => some ⟨four, none⟩
    | _, _ => none
  | _ => none

def famsOf (o : OpenRd) : List Fam := match o.ap with | some l => l.map (·.1) | none => []

/-- the OPEN `Session::send_open` builds for the harness's configuration (AS 65001, hold time 90,
id 10.0.0.1, protocols 1/1 and 2/1, ADD-PATH SendReceive for `cf`), through the C03 model of
`OpenBuilder::finish` (u8 sums: `.panic` = known finding K4) -/
def sentOpen (cf : List Fam) : Outcome Bytes :=
  Open.finish ⟨65001, 90, [10, 0, 0, 1],
    [Open.fourOctetCapBytes 65001, Open.mpCapBytes 1 1, Open.mpCapBytes 2 1],
    cf.map fun (a, s) => (a, s, 3)⟩

/-- `sent4=… sentap=…` as the harness reads them off the OPEN that was sent -/
def showSent (bs : Bytes) : Option String :=
  match Open.fourOctetCapable bs, Open.addpathFamiliesVec bs with
  | .ok four, .ok ap =>
    let sentap := if ap.isEmpty then "-" else ",".intercalate (ap.map fun (a, s, d) => s!"{a}/{s}/{d}")
    some s!"sent4={if four then 1 else 0} sentap={sentap}"
  | .ok four, .err => some s!"sent4={if four then 1 else 0} sentap=E"
  | _, _ => none

def parseFams (s : String) : Option (List Fam) :=
  if s == "-" then some [] else
  (s.splitOn ",").mapM fun e =>
    match e.splitOn "." with
    | [a, b] => do
      let a ← a.toNat?
      let b ← b.toNat?
      if a < 65536 ∧ b < 256 then some (a, b) else none
    | _ => none

/-- one negotiation of a live session with the peer OPEN `pb`; `sentFirst`: the session's OPEN
went out before the peer's arrives (OpenSent) – otherwise (Active+DelayOpen) it is sent from the
accepting arm, after the ADD-PATH list was read -/
def liveReply (sentFirst : Bool) (cf : List Fam) (pb : Bytes) : String :=
  match openRd pb with
  | some pi =>
    match (if sentFirst || pi.ap.isSome then sentOpen cf else .ok []) with
    | .ok sb =>
      let sent := if !sentFirst && pi.ap.isNone then some "sent4=9 sentap=no-open" else showSent sb
      (match sent, liveConfigE cf pi with
       | some sent, none => s!"L inject-err {sent}"
       | some sent, some c =>
         let keys := cf ++ famsOf pi
         let fams := watched keys
         let probe := if c.rx (1, 1) then "pathid" else "plain"
         let asp := if c.four then "as4" else "as2"
         s!"L {showCfg c keys fams} {sent} probe={probe} aspath={asp}"
       | none, _ => "panic")
    | _ => "panic"
  | none => "err"

def handle (ws : List String) : String :=
  match ws with
  | ["neg", l, p, g] =>
    match bytesOfHex l, bytesOfHex p, (if g == "0" || g == "3" then some false else if g == "1" || g == "2" then some true else none) with
    | some lb, some pb, some legacy =>
      (match openRd lb, openRd pb with
       | some li, some pi =>
         let keys := famsOf li ++ famsOf pi
         let fams := watched keys
         let h := helperE li pi
         let b := bmpConfigE li pi
         let (pc, inc) := pphConfigE li pi legacy
         s!"H {showCfg h keys fams} | B {showCfg b keys fams} | P {showCfg pc keys fams} incons={if inc then 1 else 0}"
       | _, _ => "err")
    | _, _, _ => "bad-op"
  | ["fdm", x, dx, y, dy] =>
    match parseFams x, dx.toNat?.bind Dir.ofCode, parseFams y, dy.toNat?.bind Dir.ofCode with
    | some [fx], some a, some [fy], some b =>
      (match famDirMerge (fx, a) (fy, b) with
       | none => "none"
       | some (f, d) => s!"{f.1}/{f.2}:{d.code}")
    | _, _, _, _ => "bad-op"
  | ["live2", f, p1, p2] =>
    -- one Session, two connections: the second negotiation starts from a fresh Connection
    -- (`SessionConfig::modern()`, empty ADD-PATH table) and replaces `Session.negotiated`, so it is
    -- the single-connection negotiation of pair #2; the first only decides whether we get there
    match parseFams f, bytesOfHex p1, bytesOfHex p2 with
    | some cf, some pb1, some pb2 =>
      (match openRd pb1, openRd pb2 with
       | some pi1, some _ =>
         (match sentOpen cf with
          | .ok _ =>
            -- `liveSecond cf pi1 pi2`: refused first OPEN = nothing; else the negotiation of pair #2 alone
            if (liveConfigE cf pi1).isNone then "L2 first-err" else liveReply true cf pb2
          | _ => "panic")
       | _, _ => "err")
    | _, _, _ => "bad-op"
  | [op, f, p] =>
    if op != "live" && op != "live-delay" then "bad-op" else   -- both copies of the negotiation code (OpenSent / Active+DelayOpen)
    match parseFams f, bytesOfHex p with
    | some cf, some pb => liveReply (op == "live") cf pb
    | _, _ => "bad-op"
  | _ => "bad-op"

end Rc.Drv.C12
