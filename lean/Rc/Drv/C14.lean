/-
Model side of the C14 line protocol (see harness/src/props/c14.rs):

  cmp V A B                 two NLRI of variant V (wire bytes), typed ==, cmp, partial_cmp, Hash
                            -> eq=B cmp=O rev=O hash=same|diff pcmp=ok xbuf=ok | err
  tri V A B C               -> ab=O bc=O ac=O eqab=B eqbc=B eqac=B | err
  any VA A VB B             the same through the `Nlri` enum, variants may differ
  anytri VA A VB B VC C
  vcmp V TOKENS / TOKENS    two values of variant V given field by field (the `val` tokens of
                            C05, built through serde in the harness – also values no parser
                            returns: a foreign `afi`, label octets that are not whole labels,
                            the non-normalised route type `Unimplemented(1..=5)`), typed and
                            through the enum -> eq=B cmp=O rev=O hash=same|diff pcmp=ok
  vtri V TOKENS / TOKENS / TOKENS   -> ab=O bc=O ac=O eqab=B eqbc=B eqac=B
-/
import Rc.Model.NlriOrd
import Rc.Drv.C05

namespace Rc.Drv.C14
open Rc Rc.Nlri Rc.NlriOrd

def ordStr : Ordering → String
  | .lt => "lt" | .eq => "eq" | .gt => "gt"

/-- parse one NLRI of a variant into the enum value -/
def decAny (v : String) (h : String) : Outcome AnyNlri :=
  match C05.variantOf v, bytesOfHex h with
  | some (f, false), some bs =>
    match (codec f).dec bs with
    | .ok (n, _) => .ok ⟨f, none, n⟩
    | .err => .err
    | .panic => .panic
  | some (f, true), some bs =>
    match (codecAp f).dec bs with
    | .ok ((p, n), _) => .ok ⟨f, some p, n⟩
    | .err => .err
    | .panic => .panic
  | _, _ => .err

def pair (a b : AnyNlri) : String :=
  s!"eq={anyEq a b} cmp={ordStr (anyCmp a b)} rev={ordStr (anyCmp b a)} hash={if anyHashKey a == anyHashKey b then "same" else "diff"}"

def triple (a b c : AnyNlri) : String :=
  s!"ab={ordStr (anyCmp a b)} bc={ordStr (anyCmp b c)} ac={ordStr (anyCmp a c)} eqab={anyEq a b} eqbc={anyEq b c} eqac={anyEq a c}"

/-- split a token list at the `/` tokens -/
def splitSlash (ws : List String) : List (List String) :=
  ws.foldr (fun w acc => if w == "/" then [] :: acc else
    match acc with
    | g :: gs => (w :: g) :: gs
    | [] => [[w]]) [[]]

/-- one value given as `val` tokens; `none` = unreadable or not buildable (`bad-op`) -/
def readAny (v : String) (toks : List String) : Option AnyNlri :=
  match C05.variantOf v with
  | some (f, false) =>
    match (C05.famIo f).read toks with
    | some n => if (C05.famIo f).buildable n then some ⟨f, none, n⟩ else none
    | none => none
  | some (f, true) =>
    match (C05.famIo f).addpath.read toks with
    | some (p, n) => if (C05.famIo f).addpath.buildable (p, n) then some ⟨f, some p, n⟩ else none
    | none => none
  | none => none

def known (v : String) : Bool := (C05.variantOf v).isSome
def okHex (h : String) : Bool := (bytesOfHex h).isSome

def handle (ws : List String) : String :=
  match ws with
  | ["cmp", v, a, b] =>
    if !known v || !okHex a || !okHex b then "bad-op" else
    match decAny v a, decAny v b with
    | .ok x, .ok y => pair x y ++ " pcmp=ok xbuf=ok"
    | .panic, _ => "panic"
    | _, .panic => "panic"
    | _, _ => "err"
  | ["tri", v, a, b, c] =>
    if !known v || !okHex a || !okHex b || !okHex c then "bad-op" else
    match decAny v a, decAny v b, decAny v c with
    | .ok x, .ok y, .ok z => triple x y z
    | .panic, _, _ => "panic"
    | _, .panic, _ => "panic"
    | _, _, .panic => "panic"
    | _, _, _ => "err"
  | ["any", va, a, vb, b] =>
    if !known va || !known vb || !okHex a || !okHex b then "bad-op" else
    match decAny va a, decAny vb b with
    | .ok x, .ok y => pair x y
    | .panic, _ => "panic"
    | _, .panic => "panic"
    | _, _ => "err"
  | ["anytri", va, a, vb, b, vc, c] =>
    if !known va || !known vb || !known vc || !okHex a || !okHex b || !okHex c then "bad-op" else
    match decAny va a, decAny vb b, decAny vc c with
    | .ok x, .ok y, .ok z => triple x y z
    | .panic, _, _ => "panic"
    | _, .panic, _ => "panic"
    | _, _, .panic => "panic"
    | _, _, _ => "err"
  | "vcmp" :: v :: rest =>
    match (splitSlash rest).map (readAny v) with
    | [some x, some y] => pair x y ++ " pcmp=ok"
    | _ => "bad-op"
  | "vtri" :: v :: rest =>
    match (splitSlash rest).map (readAny v) with
    | [some x, some y, some z] => triple x y z
    | _ => "bad-op"
  | _ => "bad-op"

end Rc.Drv.C14
