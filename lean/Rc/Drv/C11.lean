import Rc.Model.PathSel
import Rc.Model.Select
import Rc.Drv.C10
import Rc.Model.PathSelGlue
namespace Rc.Drv.C11
open Rc Rc.PathSel Rc.Select Rc.Drv.C10

/-- the `Ord` of `OrdRoute<OS>` on constructed routes; a panic cannot happen
there (Thm/C10 `cmp_constructed`), it is mapped to `.eq` only to keep this total -/
def ordOf (s : Strat) (a b : Route) : Ordering :=
  match cmp s a b with
  | .ok o => o
  | _ => .eq

def oi : Option Nat → String
  | some n => toString n
  | none => "-"

def insertAll {α : Type} (x : α) : List α → List (List α)
  | [] => [[x]]
  | y :: ys => (x :: y :: ys) :: (insertAll x ys).map (y :: ·)

def perms {α : Type} : List α → List (List α)
  | [] => [[]]
  | x :: xs => (perms xs).flatMap (insertAll x)

/-- a candidate: the route record `cmp` reads and - for a candidate given as a received UPDATE
(u-token, see Rc/Drv/C10.lean) - the content `inner()` returns: the attribute map and the
tie-breaker record.  The content of a candidate given as a route record is the record. -/
abbrev Item := Route × Option (PaMap.Map × PathSelGlue.Tb)

def selLine (s : Strat) (rs : List Item) : String :=
    let c := fun (x y : Item) => ordOf s x.1 y.1
    let (pb, pk) := bestBackupPosition c id rs
    let sb := (best (fun (x y : Item × Nat) => c x.1 y.1) rs.zipIdx).map (·.2)
    let g := generic (fun (x y : Item × Nat) => c x.1 y.1) rs.zipIdx
    s!"pos={oi pb},{oi pk} val={oi pb},{oi pk} best={oi sb} gen={oi (g.best.map (·.2))},{oi (g.backup.map (·.2))}"

def permLine (s : Strat) (rs : List Item) : String :=
    let c := fun (x y : Item) => ordOf s x.1 y.1
    let arr := rs.toArray
    let idxs := List.range rs.length
    let outs := (perms idxs).filterMap fun p =>
      let cand := p.filterMap (arr[·]?)
      let (b, k) := bestBackupPosition c id cand
      match b with
      | none => none
      | some b => some (p.getD b 0, match k with | some k => p.getD k 0 + 1 | none => 0)
    let sorted := (outs.mergeSort fun x y => x.1 < y.1 || (x.1 == y.1 && x.2 ≤ y.2)).eraseDups
    if sorted.isEmpty then "none"
    else " ".intercalate (sorted.map fun (b, k) => s!"{b}/{if k == 0 then "-" else toString (k - 1)}")

/-- the candidates of a `sel` / `selperm` line: all given as route records or all given as received
UPDATEs (a line that mixes them is not a request).  `.inl reply`: some UPDATE was not accepted
(`rej`), some route refused by `try_new` (`refused`), or a panic. -/
def items (toks : List String) : Option (String ⊕ List Item) :=
  match C10.allSome (toks.map parseCand) with
  | none => none
  | some cs =>
    let isPdu := fun (c : C10.Cand) => match c with | .pdu .. => true | .abs _ => false
    if cs.any isPdu && !cs.all isPdu then none
    else
      let bs := cs.map buildCand
      let st := bs.map candStatus
      if st.contains "panic" then some (.inl "panic")
      else if st.contains "rej" then some (.inl "rej")
      else if st.contains "refused" then some (.inl "refused")
      else some (.inr (bs.filterMap fun b => match b with
        | some ⟨.ok r, k⟩ => some (r, k)
        | _ => none))

def handle (ws : List String) : String :=
  match ws with
  | "sel" :: s :: rest =>
    match items rest, parseStrat s with
    | some (.inl r), some _ => r
    | some (.inr rs), some s => selLine s rs
    | _, _ => "bad-op"
  | "selperm" :: s :: rest =>
    if rest.length > 6 then "bad-op"
    else match items rest, parseStrat s with
    | some (.inl r), some _ => r
    | some (.inr rs), some s => permLine s rs
    | _, _ => "bad-op"
  | "gen" :: rest =>
    match C10.allSome (rest.map fun x => natOf x.toList u32max) with
    | some xs =>
      let g := generic (fun (a b : Nat) => compare a b) xs
      s!"{oi g.best},{oi g.backup}"
    | none => "bad-op"
  | _ => "bad-op"

end Rc.Drv.C11
