import Rc.Model.Codepoint
import Rc.Gen.Codepoints
namespace Rc.Drv.C18
open Rc Rc.Codepoint

def findTable (nm : String) : Option TypeEnum := Gen.typeenums.find? (·.name == nm)

def afisafiName (i : Nat) : String := Id.run do
  let mut k := 0
  for (_, an, ss) in Gen.afisafiNames do
    for (_, sn) in ss do
      if k == i then return an ++ sn
      k := k + 1
  return "?"

def showAfiSafi : AfiSafi → String
  | .known i => afisafiName i
  | .unsupported a s => s!"Unsupported({a},{s})"

def showNlriType : NlriType → String
  | .known i b => afisafiName i ++ (if b then "Addpath" else "")
  | .unsupported a s => s!"Unsupported({a},{s})"

def ecTable : TypeEnum := Gen.typeenums.getD Gen.errorCodeTable ⟨"", 0, [], [], [], []⟩
def mtTable : TypeEnum := Gen.typeenums.getD Gen.msgTypeTable ⟨"", 0, [], [], [], []⟩

def optNat : Option Nat → String
  | some n => toString n
  | none => "none"

def tryFrom (vs : List String) (frm to : List (Nat × Nat)) (n : Nat) : String :=
  match assoc frm n with
  | some i => s!"{vs.getD i "?"} {optNat (assoc to i)}"
  | none => "err"

def sweep (lo hi : Nat) : String := Id.run do
  let mut named := 0
  let mut rtFail := 0
  let mut bytesFail := 0
  for a in [lo:hi+1] do
    for s in [0:256] do
      let x := afisafiFrom Gen.afisafiPairs a s
      match x with
      | .known _ => named := named + 1
      | _ => pure ()
      if afisafiTo Gen.afisafiPairs x != some (a, s) then rtFail := rtFail + 1
      if afisafiBytes Gen.afisafiPairs x != some (be16 a ++ [UInt8.ofNat s]) then bytesFail := bytesFail + 1
  return s!"named={named} roundtrip_fail={rtFail} bytes_fail={bytesFail}"

def handleDetails (c s : String) : String :=
    match c.toNat?, s.toNat? with
    | some c, some s =>
      if c ≥ 256 ∨ s ≥ 256 then "bad-op" else
      match details ecTable Gen.detailsArms c s with
      | none => "none"
      | some d =>
        let raw := match detailsRaw ecTable Gen.rawArms d with
          | some (a, b) => s!"{a} {b}"
          | none => "none"
        s!"{Gen.detailsVariants.getD d.variant "?"} {raw}"
    | _, _ => "bad-op"

/-- insertion sort of strings (the table list is short) -/
def insertStr (x : String) : List String → List String
  | [] => [x]
  | y :: r => if x < y then x :: y :: r else y :: insertStr x r

def handleTe (nm n : String) : String :=
  match findTable nm, n.toNat? with
  | some t, some k =>
    if k < 2 ^ t.width then
      let v := fromInt t k
      s!"{showVariant t v} {optNat (toInt t v)}"
    else "bad-op"
  | _, _ => "bad-op"

def handle (ws : List String) : String :=
  match ws with
  | ["tables"] =>
    -- the tables the translator found in the source, `name/width`, sorted: must be the list the harness enumerates
    ",".intercalate ((Gen.typeenums.map fun t => s!"{t.name}/{t.width}").foldr insertStr [])
  | ["te", nm, n] =>
    match findTable nm, n.toNat? with
    | some t, some k =>
      if k < 2 ^ t.width then
        let v := fromInt t k
        s!"{showVariant t v} {optNat (toInt t v)}"
      else "bad-op"
    | _, _ => "bad-op"
  -- the number as a decoder that carries it reports it: the model of those decoders is the bare conversion
  | ["via", "mrtstate", n] => if (n.toNat?.getD 65536) < 65536 then handleTe "bgp.fsm.state_machine.State" n else "bad-op"
  | ["via", "captype", n] => if (n.toNat?.getD 256) < 256 then handleTe "bgp.message.open.CapabilityType" n else "bad-op"
  | ["afisafi", a, s] =>
    match a.toNat?, s.toNat? with
    | some a, some s =>
      let x := afisafiFrom Gen.afisafiPairs a s
      let back := match afisafiTo Gen.afisafiPairs x with
        | some (a', s') => s!"{a'} {s'}"
        | none => "none"
      let bs := match afisafiBytes Gen.afisafiPairs x with
        | some b => hexOfBytes b
        | none => "none"
      let nt0 := nlriTypeFrom x false
      let nt1 := nlriTypeFrom x true
      s!"{showAfiSafi x} {back} {bs} {showNlriType nt0} {showNlriType nt1} {showAfiSafi (nlriTypeAfiSafi nt0)} {showAfiSafi (nlriTypeAfiSafi nt1)}"
    | _, _ => "bad-op"
  | ["afisafi-sweep", lo, hi] =>
    match lo.toNat?, hi.toNat? with
    | some lo, some hi => sweep lo hi
    | _, _ => "bad-op"
  | ["msgtype", n] =>
    match n.toNat? with
    | some k => showVariant mtTable (msgTypeOf Gen.msgTypeArms k)
    | none => "bad-op"
  | ["apdir", n] =>
    match n.toNat? with
    | some k => tryFrom Gen.apdirVariants Gen.apdirFrom Gen.apdirTo k
    | none => "bad-op"
  | ["segtype", n] =>
    match n.toNat? with
    | some k => tryFrom Gen.segtypeVariants Gen.segtypeFrom Gen.segtypeTo k
    | none => "bad-op"
  | ["details", c, s, d] =>
    -- a NOTIFICATION carrying data: the data does not take part in details()/raw()
    match bytesOfHex d with
    | some dd => if dd.length > 4000 then "bad-op" else handleDetails c s
    | none => "bad-op"
  | ["details", c, s] => handleDetails c s
  | _ => "bad-op"

end Rc.Drv.C18
