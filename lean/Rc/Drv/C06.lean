import Rc.Model.Builder
/-
Model side of the C06 line protocol (see harness/src/props/c06.rs):
  `<op> <fam> wd <W> ann <A> nh <kind> attrs <len>`
NLRI are their encoded sizes (`N := Nat`, `sz := id`).
-/
namespace Rc.Drv.C06
open Rc Rc.Builder

inductive Fam | v4u | v6u | v4ua | v6ua | v6fs | v4m | v6m | v4mpls
  deriving DecidableEq

def famOf : String → Option Fam
  | "v4u" => some .v4u | "v6u" => some .v6u | "v4ua" => some .v4ua
  | "v6ua" => some .v6ua | "v6fs" => some .v6fs
  | "v4m" => some .v4m | "v6m" => some .v6m | "v4mpls" => some .v4mpls | _ => none

def sizeOk (f : Fam) (s : Nat) : Bool :=
  match f with
  | .v4u | .v4m => 1 ≤ s && s ≤ 5
  | .v6u | .v6m => 1 ≤ s && s ≤ 17
  | .v4mpls => 4 ≤ s && s ≤ 32
  | .v4ua => 5 ≤ s && s ≤ 9
  | .v6ua => 5 ≤ s && s ≤ 21
  | .v6fs => (1 ≤ s && s ≤ 240) || (242 ≤ s && s ≤ 4097)

def num (s : String) : Option Nat :=
  let cs := s.toList
  if cs.isEmpty || cs.length > 7 || !cs.all Char.isDigit then none
  else some (cs.foldl (fun a c => a * 10 + (c.toNat - 48)) 0)

def tok (f : Fam) (t : String) : Option (List Nat) :=
  match t.splitOn "x" with
  | [a] => match num a with
    | some s => if sizeOk f s then some [s] else none
    | none => none
  | [a, b] => match num a, num b with
    | some s, some n => if sizeOk f s && n != 0 then some (List.replicate n s) else none
    | _, _ => none
  | _ => none

def toks (f : Fam) : List String → Option (List Nat)
  | [] => some []
  | t :: ts => match tok f t, toks f ts with
    | some a, some b => some (a ++ b)
    | _, _ => none

/-- the family default stands for "`set_nexthop` not called" -/
def nhOf (f : Fam) : String → Option NextHopArg
  | "-" => some (.known (match f with
      | .v4u | .v4ua | .v4m | .v4mpls => .v4
      | .v6u | .v6ua | .v6m => .v6
      | .v6fs => .empty))
  | "v4" => some (.known .v4) | "m4" => some (.known .v4) | "v6" => some (.known .v6)
  | "ll" => some (.known .ll) | "ll2" => some (.known .ll)
  | "vpn4" => some (.known .vpn4) | "vpn6" => some (.known .vpn6) | "empty" => some (.known .empty)
  | "unimpl" => some .unimplemented
  | _ => none

/-- tokens up to the first "ann" -/
def upToAnn : List String → List String → Option (List String × List String)
  | [], _ => none
  | t :: ts, acc => if t == "ann" then some (acc.reverse, ts) else upToAnn ts (t :: acc)

/-- `some (op, none)`: the next hop was refused by `set_nexthop` -/
def parse (ws : List String) : Option (String × Option (B Nat)) :=
  match ws with
  | op :: fam :: "wd" :: rest =>
    match famOf fam, upToAnn rest [] with
    | some f, some (wt, after) =>
      match after.reverse with
      | len :: "attrs" :: k :: "nh" :: atRev =>
        let at_ := atRev.reverse
        if wt.isEmpty || at_.isEmpty then none else
        let wd : Option (Option (List Nat)) :=
          if wt == ["-"] then some none
          -- `e`: `add_withdrawals_from_pdu` of a PDU without NLRI of this family. Since the C07
          -- repair of K7 it leaves the builder as it was (no empty MP_UNREACH builder behind).
          else if wt == ["e"] then some none
          else (toks f wt).map some
        let ann : Option (List Nat) := if at_ == ["-"] then some [] else toks f at_
        match wd, ann, nhOf f k, num len with
        | some wd, some ann, some nh, some al =>
          if al == 1 || al == 2 then none else
          if op != "split" && op != "iter" && op != "take" && op != "single" then none else
          let b0 : B Nat := { wd := wd, ann := none, attrs := if al == 0 then [] else [al] }
          -- set_nexthop (if a next hop is given), then the announcements
          match (if k == "-" then some b0 else setMpNexthop b0 nh) with
          | none => some (op, none)
          | some b1 =>
            let nhk := match nh with
              | .known x => x
              | .unimplemented => NextHop.empty
            let annB : Option (List Nat × NextHop) :=
              match b1.ann with
              | some (_, x) => some (ann, x)
              | none => if ann.isEmpty then none else some (ann, nhk)
            some (op, some { b1 with ann := annB })
        | _, _, _, _ => none
      | _ => none
    | _, _ => none
  | _ => none

def errName : Err → String
  | .tooLarge => "toolarge"
  | .emptyReach => "emptyreach"
  | .emptyUnreach => "emptyunreach"

def desc (m : Msg Nat) : String :=
  let nh := match m.ann with
    | some (_, nh) => nh.composeLen
    | none => 0
  s!"{m.lenField}:{m.wdList.length}:{m.annList.length}:{attrsLen m.attrs}:{nh}:{m.attrLenField}"

def item : Res (Msg Nat) → String
  | .ok m => desc m
  | .err e => s!"E:{errName e}"
  | .panic => "PANIC"

def join (l : List String) : String := " ".intercalate l

def handle (ws : List String) : String :=
  match parse ws with
  | none => "bad-op"
  | some (_, none) => "err nexthop"
  | some (op, some b) =>
    let bound := nlriCount b + 2
    match op with
    | "split" =>
      -- the harness first pulls the iterator under the same bound
      match pduIter id bound (some b) with
      | none => "hang"
      | some rs =>
        if rs.any (fun r => match r with | .panic => true | _ => false) then "panic" else
        match intoMessages id bound b with
        | .ok ms => s!"ok {ms.length} {join (ms.map desc)}"
        | .err e => s!"err {errName e}"
        | .panic => "panic"
        | .outOfFuel => "hang"
    | "iter" =>
      match pduIter id bound (some b) with
      | none => "hang"
      | some rs =>
        if rs.any (fun r => match r with | .panic => true | _ => false) then "panic" else
        s!"{rs.length} {join (rs.map item)}"
    | "take" =>
      match takeMessage id b with
      | (.panic, _) => "panic"
      | (r, rem) => s!"{item r} {if rem.isSome then "some" else "none"}"
    | "single" =>
      match intoMessage id b with
      | .panic => "panic"
      | r => item r
    | _ => "bad-op"

end Rc.Drv.C06
