import Rc.Model.Builder
/-
Model side of the C06 line protocol (see harness/src/props/c06.rs):
  `<op> <fam> wd <W> ann <A> nh <kind> attrs <len>`
NLRI are their encoded sizes (`N := Nat`, `sz := id`).
-/
namespace Rc.Drv.C06
open Rc Rc.Builder

/-- the 13 families -/
inductive Base | v4u | v4m | v4mpls | v4vpn | v4rt | v4fs | v6u | v6m | v6mpls | v6vpn | v6fs | vpls | evpn
  deriving DecidableEq

/-- an NLRI type: a family with (`ap`) or without path ids -/
structure Fam where
  b : Base
  ap : Bool

def baseOf : String → Option Base
  | "v4u" => some .v4u | "v4m" => some .v4m | "v4mpls" => some .v4mpls | "v4vpn" => some .v4vpn
  | "v4rt" => some .v4rt | "v4fs" => some .v4fs
  | "v6u" => some .v6u | "v6m" => some .v6m | "v6mpls" => some .v6mpls | "v6vpn" => some .v6vpn
  | "v6fs" => some .v6fs | "vpls" => some .vpls | "evpn" => some .evpn | _ => none

/-- a family name, or a family name followed by `a` (ADD-PATH variant) -/
def famOf (s : String) : Option Fam :=
  match baseOf s with
  | some b => some ⟨b, false⟩
  | none =>
    match s.toList.reverse with
    | 'a' :: r =>
      match baseOf (String.ofList r.reverse) with
      | some b => some ⟨b, true⟩
      | none => none
    | _ => none

/-- the encoded sizes an NLRI of the family can have (`compose_len()`), without the path id:
prefix families 1 + 0..4 / 0..16 octets; labelled: length octet, 3-octet labels, prefix (at most
255 bits); VPN: plus the 8-octet route distinguisher; route target 0..96 bits; FlowSpec one or
two length octets (no 240-octet body with one, no one-octet IPv4 component list); VPLS 2 + 17;
EVPN type, length, up to 255 octets -/
def baseSizeOk (b : Base) (s : Nat) : Bool :=
  match b with
  | .v4u | .v4m => 1 ≤ s && s ≤ 5
  | .v6u | .v6m => 1 ≤ s && s ≤ 17
  | .v4mpls | .v6mpls => 4 ≤ s && s ≤ 32
  | .v4vpn | .v6vpn => 12 ≤ s && s ≤ 32
  | .v4rt => s == 1 || (5 ≤ s && s ≤ 13)
  | .v4fs => s == 1 || (3 ≤ s && s ≤ 240) || (242 ≤ s && s ≤ 4097)
  | .v6fs => (1 ≤ s && s ≤ 240) || (242 ≤ s && s ≤ 4097)
  | .vpls => s == 19
  | .evpn => 2 ≤ s && s ≤ 257

def sizeOk (f : Fam) (s : Nat) : Bool :=
  if f.ap then 4 < s && baseSizeOk f.b (s - 4) else baseSizeOk f.b s

def num (s : String) : Option Nat :=
  let cs := s.toList
  if cs.isEmpty || cs.length > 7 || !cs.all Char.isDigit then none
  else some (cs.foldl (fun a c => a * 10 + (c.toNat - 48)) 0)

def tok (f : Fam) (t : String) : Option (List Nat) :=
  match t.splitOn "x" with
  | [a] => match num a with
    | some s => if sizeOk f s then some [s] else none
    | none => none
  | [a, b] => match num a, num b with
    | some s, some n => if sizeOk f s && n != 0 then some (List.replicate n s) else none
    | _, _ => none
  | _ => none

def toks (f : Fam) : List String → Option (List Nat)
  | [] => some []
  | t :: ts => match tok f t, toks f ts with
    | some a, some b => some (a ++ b)
    | _, _ => none

/-- the family default stands for "`set_nexthop` not called" (nexthop.rs:25 `NextHop::new(A::afi_safi())`) -/
def defaultNh (f : Fam) : NextHop :=
  match f.b with
  | .v4u | .v4mpls | .v4rt | .vpls | .evpn => .v4
  | .v4m => .m4
  | .v6u | .v6mpls => .v6
  | .v6m => .m6
  | .v4vpn => .vpn4
  | .v6vpn => .vpn6
  | .v4fs | .v6fs => .empty

/-- what a next-hop token stands for: BEFORE the announcements are added the argument of
`set_nexthop` (if it is called) and whether `set_nexthop_ll_addr` follows; AFTER them the same two -/
structure NhPlan where
  pre : Option NextHopArg := none
  preLl : Bool := false
  post : Option NextHopArg := none
  postLl : Bool := false

def nhOf : String → Option NhPlan
  | "-" => some {}
  | "v4" => some { pre := some (.known .v4) } | "m4" => some { pre := some (.known .m4) }
  | "v6" => some { pre := some (.known .v6) } | "m6" => some { pre := some (.known .m6) }
  | "ll" => some { pre := some (.known .ll) }
  | "ll2" => some { pre := some (.known .v6), preLl := true }
  | "ll3" => some { preLl := true }
  | "v4ll" => some { pre := some (.known .v4), preLl := true }
  | "m6ll" => some { pre := some (.known .m6), preLl := true }
  | "vpn4" => some { pre := some (.known .vpn4) } | "vpn6" => some { pre := some (.known .vpn6) }
  | "empty" => some { pre := some (.known .empty) }
  | "unimpl" => some { pre := some .unimplemented }
  | "pll" => some { postLl := true }
  | "pv6" => some { post := some (.known .v6) }
  | "pv6ll" => some { post := some (.known .v6), postLl := true }
  | _ => none

/-- `<len>`, or `<len>+mp14` / `<len>+mp15` / `<len>+mp`: the attribute map additionally holds a raw
(Unimplemented) copy of MP_REACH_NLRI / MP_UNREACH_NLRI / both.  `from_attributes_builder` drops
these (fix C06-0006), so the builder is the one of `<len>` alone. -/
def attrsOf (s : String) : Option Nat :=
  match s.splitOn "+" with
  | [a] => num a
  | [a, x] => if x == "mp14" || x == "mp15" || x == "mp" then num a else none
  | _ => none

/-- tokens up to the first "ann" -/
def upToAnn : List String → List String → Option (List String × List String)
  | [], _ => none
  | t :: ts, acc => if t == "ann" then some (acc.reverse, ts) else upToAnn ts (t :: acc)

/-- `some (op, none)`: the next hop was refused by `set_nexthop` -/
def parse (ws : List String) : Option (String × Option (B Nat)) :=
  match ws with
  | op :: fam :: "wd" :: rest =>
    match famOf fam, upToAnn rest [] with
    | some f, some (wt, after) =>
      match after.reverse with
      | len :: "attrs" :: k :: "nh" :: atRev =>
        let at_ := atRev.reverse
        if wt.isEmpty || at_.isEmpty then none else
        let wd : Option (Option (List Nat)) :=
          if wt == ["-"] then some none
          -- `e`: `add_withdrawals_from_pdu` of a PDU without NLRI of this family. Since the C07
          -- repair of K7 it leaves the builder as it was (no empty MP_UNREACH builder behind).
          else if wt == ["e"] then some none
          else (toks f wt).map some
        let ann : Option (List Nat) := if at_ == ["-"] then some [] else toks f at_
        match wd, ann, nhOf k, attrsOf len with
        | some wd, some ann, some pl, some al =>
          if al == 1 || al == 2 then none else
          if op != "split" && op != "iter" && op != "take" && op != "single" then none else
          let b0 : B Nat := { wd := wd, ann := none, attrs := if al == 0 then [] else [al] }
          let step (b : B Nat) (arg : Option NextHopArg) (ll : Bool) : Option (B Nat) :=
            match (match arg with | none => some b | some a => setMpNexthop b a) with
            | none => none
            | some b => if ll then setNexthopLl b else some b
          -- set_nexthop (if a next hop is given), set_nexthop_ll_addr (if asked), the announcements
          -- (`add_announcement`: the family's default next hop if there is no MP_REACH builder yet),
          -- then the same two calls again if the token asks for them after the announcements
          match step b0 pl.pre pl.preLl with
          | none => some (op, none)
          | some b1 =>
            let annB : Option (List Nat × NextHop) :=
              match b1.ann with
              | some (_, x) => some (ann, x)
              | none => if ann.isEmpty then none else some (ann, defaultNh f)
            match step { b1 with ann := annB } pl.post pl.postLl with
            | none => some (op, none)
            | some b2 => some (op, some b2)
        | _, _, _, _ => none
      | _ => none
    | _, _ => none
  | _ => none

def errName : Err → String
  | .tooLarge => "toolarge"
  | .emptyReach => "emptyreach"
  | .emptyUnreach => "emptyunreach"

def desc (m : Msg Nat) : String :=
  let nh := match m.ann with
    | some (_, nh) => nh.composeLen
    | none => 0
  s!"{m.lenField}:{m.wdList.length}:{m.annList.length}:{attrsLen m.attrs}:{nh}:{m.attrLenField}"

/-- the property only says "an error": which `ComposeError` it is stays out of the reply -/
def item : Res (Msg Nat) → String
  | .ok m => desc m
  | .err _ => "E"
  | .panic => "PANIC"

def join (l : List String) : String := " ".intercalate l

def handle (ws : List String) : String :=
  match parse ws with
  | none => "bad-op"
  | some (_, none) => "err nexthop"
  | some (op, some b) =>
    let bound := nlriCount b + 2
    match op with
    | "split" =>
      -- the harness first pulls the iterator under the same bound
      match pduIter id bound (some b) with
      | none => "hang"
      | some rs =>
        if rs.any (fun r => match r with | .panic => true | _ => false) then "panic" else
        match intoMessages id bound b with
        | .ok ms => s!"ok {ms.length} {join (ms.map desc)}"
        | .err _ => "err"
        | .panic => "panic"
        | .outOfFuel => "hang"
    | "iter" =>
      match pduIter id bound (some b) with
      | none => "hang"
      | some rs =>
        if rs.any (fun r => match r with | .panic => true | _ => false) then "panic" else
        s!"{rs.length} {join (rs.map item)}"
    | "take" =>
      match takeMessage id b with
      | (.panic, _) => "panic"
      | (r, rem) => s!"{item r} {if rem.isSome then "some" else "none"}"
    | "single" =>
      match intoMessage id b with
      | .panic => "panic"
      | r => item r
    | _ => "bad-op"

end Rc.Drv.C06
