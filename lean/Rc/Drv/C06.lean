import Rc.Model.BuilderWire
/-
Model side of the C06 line protocol (see harness/src/props/c06.rs):
  `<op> <fam> wd <W> ann <A> nh <kind> attrs <len>`
Size-only lines: NLRI are their encoded sizes (`N := Nat`, `sz := id`).
Value-carrying lines (every NLRI token is `=<hex>` or `=<hex>x<count>`, the octets of the NLRI
with its path id): the builder model runs over the values of the NLRI type (`N := NV f`, the
codecs of property C05, `sz := nlriSz` = `compose_len`), and every message in the reply ends in a
digest of `wireBytes`, the octets the model says `finish` writes - the instantiation the theorems
`emitted_pdu_decodes` / `emitted_pdu_content` / `end_to_end_conservation` of Rc/Thm/C06.lean are
about. The harness appends the same digest of the real octets.
-/
namespace Rc.Drv.C06
open Rc Rc.Builder

/-- the 13 families -/
inductive Base | v4u | v4m | v4mpls | v4vpn | v4rt | v4fs | v6u | v6m | v6mpls | v6vpn | v6fs | vpls | evpn
  deriving DecidableEq

/-- an NLRI type: a family with (`ap`) or without path ids -/
structure Fam where
  b : Base
  ap : Bool

def baseOf : String → Option Base
  | "v4u" => some .v4u | "v4m" => some .v4m | "v4mpls" => some .v4mpls | "v4vpn" => some .v4vpn
  | "v4rt" => some .v4rt | "v4fs" => some .v4fs
  | "v6u" => some .v6u | "v6m" => some .v6m | "v6mpls" => some .v6mpls | "v6vpn" => some .v6vpn
  | "v6fs" => some .v6fs | "vpls" => some .vpls | "evpn" => some .evpn | _ => none

/-- a family name, or a family name followed by `a` (ADD-PATH variant) -/
def famOf (s : String) : Option Fam :=
  match baseOf s with
  | some b => some ⟨b, false⟩
  | none =>
    match s.toList.reverse with
    | 'a' :: r =>
      match baseOf (String.ofList r.reverse) with
      | some b => some ⟨b, true⟩
      | none => none
    | _ => none

/-- the encoded sizes an NLRI of the family can have (`compose_len()`), without the path id:
prefix families 1 + 0..4 / 0..16 octets; labelled: length octet, 3-octet labels, prefix (at most
255 bits); VPN: plus the 8-octet route distinguisher; route target 0..96 bits; FlowSpec one or
two length octets (no 240-octet body with one, no one-octet IPv4 component list); VPLS 2 + 17;
EVPN type, length, up to 255 octets -/
def baseSizeOk (b : Base) (s : Nat) : Bool :=
  match b with
  | .v4u | .v4m => 1 ≤ s && s ≤ 5
  | .v6u | .v6m => 1 ≤ s && s ≤ 17
  | .v4mpls | .v6mpls => 4 ≤ s && s ≤ 32
  | .v4vpn | .v6vpn => 12 ≤ s && s ≤ 32
  | .v4rt => s == 1 || (5 ≤ s && s ≤ 13)
  | .v4fs => s == 1 || (3 ≤ s && s ≤ 240) || (242 ≤ s && s ≤ 4097)
  | .v6fs => (1 ≤ s && s ≤ 240) || (242 ≤ s && s ≤ 4097)
  | .vpls => s == 19
  | .evpn => 2 ≤ s && s ≤ 257

def sizeOk (f : Fam) (s : Nat) : Bool :=
  if f.ap then 4 < s && baseSizeOk f.b (s - 4) else baseSizeOk f.b s

def num (s : String) : Option Nat :=
  let cs := s.toList
  if cs.isEmpty || cs.length > 7 || !cs.all Char.isDigit then none
  else some (cs.foldl (fun a c => a * 10 + (c.toNat - 48)) 0)

def tok (f : Fam) (t : String) : Option (List Nat) :=
  match t.splitOn "x" with
  | [a] => match num a with
    | some s => if sizeOk f s then some [s] else none
    | none => none
  | [a, b] => match num a, num b with
    | some s, some n => if sizeOk f s && n != 0 then some (List.replicate n s) else none
    | _, _ => none
  | _ => none

def toks (f : Fam) : List String → Option (List Nat)
  | [] => some []
  | t :: ts => match tok f t, toks f ts with
    | some a, some b => some (a ++ b)
    | _, _ => none

/-- the family default stands for "`set_nexthop` not called" (nexthop.rs:25 `NextHop::new(A::afi_safi())`) -/
def defaultNh (f : Fam) : NextHop :=
  match f.b with
  | .v4u | .v4mpls | .v4rt | .vpls | .evpn => .v4
  | .v4m => .m4
  | .v6u | .v6mpls => .v6
  | .v6m => .m6
  | .v4vpn => .vpn4
  | .v6vpn => .vpn6
  | .v4fs | .v6fs => .empty

/-- what a next-hop token stands for: BEFORE the announcements are added the argument of
`set_nexthop` (if it is called) and whether `set_nexthop_ll_addr` follows; AFTER them the same two -/
structure NhPlan where
  pre : Option NextHopArg := none
  preLl : Bool := false
  post : Option NextHopArg := none
  postLl : Bool := false
  /-- which IPv6 address the harness passes as the global next hop: 0 = 2001:db8::1, 1 = the IPv4-mapped
  ::ffff:10.0.0.1 (token suffix `@m`), 2 = the IPv4-compatible ::10.0.0.1 (`@c`).  The builder writes the
  sixteen octets it was given, whatever they denote (round-6 seed: `to_canonical()` in `set_mp_nexthop`). -/
  av : Nat := 0

def nhOf0 : String → Option NhPlan
  | "-" => some {}
  | "v4" => some { pre := some (.known .v4) } | "m4" => some { pre := some (.known .m4) }
  | "v6" => some { pre := some (.known .v6) } | "m6" => some { pre := some (.known .m6) }
  | "ll" => some { pre := some (.known .ll) }
  | "ll2" => some { pre := some (.known .v6), preLl := true }
  | "llx" => some { pre := some (.known .ll), preLl := true }   -- Ipv6LL(a, old) then set_nexthop_ll_addr: Ipv6LL(a, new)
  | "ll3" => some { preLl := true }
  | "v4ll" => some { pre := some (.known .v4), preLl := true }
  | "m6ll" => some { pre := some (.known .m6), preLl := true }
  | "vpn4" => some { pre := some (.known .vpn4) } | "vpn6" => some { pre := some (.known .vpn6) }
  | "empty" => some { pre := some (.known .empty) }
  | "unimpl" => some { pre := some .unimplemented }
  | "pll" => some { postLl := true }
  | "pv6" => some { post := some (.known .v6) }
  | "pv6ll" => some { post := some (.known .v6), postLl := true }
  | _ => none

/-- `<token>`, `<token>@m`, `<token>@c` (address variant of the IPv6 global next hop) -/
def nhOf (s : String) : Option NhPlan :=
  match s.splitOn "@" with
  | [t] => nhOf0 t
  | [t, "m"] => (nhOf0 t).map (fun p => { p with av := 1 })
  | [t, "c"] => (nhOf0 t).map (fun p => { p with av := 2 })
  | _ => none

/-- `<len>`, or `<len>+mp14` / `<len>+mp15` / `<len>+mp`: the attribute map additionally holds a raw
(Unimplemented) copy of MP_REACH_NLRI / MP_UNREACH_NLRI / both.  `from_attributes_builder` drops
these (fix C06-0006), so the builder is the one of `<len>` alone. -/
def attrsOf (s : String) : Option Nat :=
  match s.splitOn "+" with
  | [a] => num a
  | [a, x] => if x == "mp14" || x == "mp15" || x == "mp" then num a else none
  | _ => none

/-- tokens up to the first "ann" -/
def upToAnn : List String → List String → Option (List String × List String)
  | [], _ => none
  | t :: ts, acc => if t == "ann" then some (acc.reverse, ts) else upToAnn ts (t :: acc)

/-- a parsed request: `b = none`: the next hop was refused by `set_nexthop` -/
structure Req (N : Type) where
  op : String
  fam : Fam
  pl : NhPlan
  al : Nat
  b : Option (B N)

/-- the request line over NLRI of type `N` read by `tk` -/
def parseG {N : Type} (tk : Fam → List String → Option (List N)) (attrList : Nat → List Nat) (ws : List String) :
    Option (Req N) :=
  match ws with
  | op :: fam :: "wd" :: rest =>
    match famOf fam, upToAnn rest [] with
    | some f, some (wt, after) =>
      match after.reverse with
      | len :: "attrs" :: k :: "nh" :: atRev =>
        let at_ := atRev.reverse
        if wt.isEmpty || at_.isEmpty then none else
        let wd : Option (Option (List N)) :=
          if wt == ["-"] then some none
          -- `e`: `add_withdrawals_from_pdu` of a PDU without NLRI of this family. Since the C07
          -- repair of K7 it leaves the builder as it was (no empty MP_UNREACH builder behind).
          else if wt == ["e"] then some none
          else (tk f wt).map some
        let ann : Option (List N) := if at_ == ["-"] then some [] else tk f at_
        match wd, ann, nhOf k, attrsOf len with
        | some wd, some ann, some pl, some al =>
          if al == 1 || al == 2 then none else
          if op != "split" && op != "iter" && op != "take" && op != "single" then none else
          let b0 : B N := { wd := wd, ann := none, attrs := attrList al }
          let step (b : B N) (arg : Option NextHopArg) (ll : Bool) : Option (B N) :=
            match (match arg with | none => some b | some a => setMpNexthop b a) with
            | none => none
            | some b => if ll then setNexthopLl b else some b
          -- set_nexthop (if a next hop is given), set_nexthop_ll_addr (if asked), the announcements
          -- (`add_announcement`: the family's default next hop if there is no MP_REACH builder yet),
          -- then the same two calls again if the token asks for them after the announcements
          match step b0 pl.pre pl.preLl with
          | none => some ⟨op, f, pl, al, none⟩
          | some b1 =>
            let annB : Option (List N × NextHop) :=
              match b1.ann with
              | some (_, x) => some (ann, x)
              | none => if ann.isEmpty then none else some (ann, defaultNh f)
            match step { b1 with ann := annB } pl.post pl.postLl with
            | none => some ⟨op, f, pl, al, none⟩
            | some b2 => some ⟨op, f, pl, al, some b2⟩
        | _, _, _, _ => none
      | _ => none
    | _, _ => none
  | _ => none

/-! ### value-carrying lines: the concrete parts -/

def toFam : Base → Rc.Nlri.Fam
  | .v4u => .v4u | .v4m => .v4m | .v4mpls => .v4mpls | .v4vpn => .v4vpn | .v4rt => .v4rt | .v4fs => .v4fs
  | .v6u => .v6u | .v6m => .v6m | .v6mpls => .v6mpls | .v6vpn => .v6vpn | .v6fs => .v6fs
  | .vpls => .vpls | .evpn => .evpn

/-- the NLRI with these octets: what the NLRI type's parser makes of them (all of them), if
composing that gives the octets back -/
def nlriOfBytes (F : Rc.Nlri.Fam) (ap : Bool) (bs : Bytes) : Option (NV F) :=
  let v : Option (NV F) :=
    if ap then
      match (Rc.Nlri.codecAp F).dec bs with
      | .ok (x, []) => some x
      | _ => none
    else
      match (Rc.Nlri.codec F).dec bs with
      | .ok (x, []) => some (0, x)
      | _ => none
  match v with
  | some x => if nlriEnc F ap x == bs && nlriSz F ap x == bs.length then some x else none
  | none => none

/-- `=<hex>` | `=<hex>x<count>` -/
def vtok (F : Rc.Nlri.Fam) (ap : Bool) (t : String) : Option (List (NV F)) :=
  match t.toList with
  | '=' :: r =>
    let one (h : String) : Option (NV F) :=
      if h.length > 8400 || !h.toList.all (fun c => c.isDigit || ('a' ≤ c && c ≤ 'f')) then none else
      match bytesOfHex h with
      | some bs => if bs.isEmpty then none else nlriOfBytes F ap bs
      | none => none
    match (String.ofList r).splitOn "x" with
    | [h] => (one h).map fun x => [x]
    | [h, n] => match one h, num n with
      | some x, some n => if n != 0 then some (List.replicate n x) else none
      | _, _ => none
    | _ => none
  | _ => none

def vtoks (F : Rc.Nlri.Fam) (ap : Bool) : List String → Option (List (NV F))
  | [] => some []
  | t :: ts => match vtok F ap t, vtoks F ap ts with
    | some a, some b => some (a ++ b)
    | _, _ => none

def V4NH : Bytes := [10, 0, 0, 1]
def V6NH : Bytes := [0x20, 0x01, 0x0d, 0xb8, 0, 0, 0, 0, 0, 0, 0, 0, 0, 0, 0, 1]
def LLNH : Bytes := [0xfe, 0x80, 0, 0, 0, 0, 0, 0, 0, 0, 0, 0, 0, 0, 0, 1]
def RDNH : Bytes := [0, 1, 0, 2, 0, 3, 0, 4]

/-- the address octets of the next hop the builder holds after the calls of the plan: the
addresses the harness passes where `set_nexthop` was called, the all-zero next hop of
`NextHop::new` (nexthop.rs:25) otherwise; the link-local address of `set_nexthop_ll_addr` -/
def V6MAPPED : Bytes := [0, 0, 0, 0, 0, 0, 0, 0, 0, 0, 0xff, 0xff, 10, 0, 0, 1]
def V6COMPAT : Bytes := [0, 0, 0, 0, 0, 0, 0, 0, 0, 0, 0, 0, 10, 0, 0, 1]

def nhBytes (pl : NhPlan) (nh : NextHop) : Bytes :=
  let explicit := pl.pre.isSome || pl.post.isSome
  let z (n : Nat) : Bytes := List.replicate n 0
  let V6NH : Bytes := if pl.av == 1 then V6MAPPED else if pl.av == 2 then V6COMPAT else V6NH
  match nh with
  | .v4 | .m4 => if explicit then V4NH else z 4
  | .v6 | .m6 => if explicit then V6NH else z 16
  | .ll => (if explicit then V6NH else z 16) ++ LLNH
  | .vpn4 => if explicit then RDNH ++ V4NH else z 12
  | .vpn6 => if explicit then RDNH ++ V6NH else z 24
  | .empty => []

/-- how the harness makes up an attribute set of `len` octets (c06.rs `attr_plan`):
(ORIGIN?, LOCAL_PREF?, number of standard communities, size of the filler attribute) -/
def attrPlan (len : Nat) : Bool × Bool × Nat × Nat :=
  let repr (f : Nat) : Bool := f == 0 || (3 ≤ f && f ≤ 258) || f ≥ 260
  let commBytes (c : Nat) : Nat := if c == 0 then 0 else if 4 * c > 255 then 4 + 4 * c else 3 + 4 * c
  if len == 0 then (false, false, 0, 0) else
  let c := if len ≥ 100 then min ((len / 2 - 4) / 4) 400 else 0
  let cands : List (Bool × Bool × Nat) := [(true, true, c), (true, true, 0), (true, false, 0), (false, false, 0)]
  let rec go : List (Bool × Bool × Nat) → Bool × Bool × Nat × Nat
    | [] => (false, false, 0, len)
    | (o, l, c) :: r =>
      let fixed := (if o then 4 else 0) + (if l then 7 else 0) + commBytes c
      if len ≥ fixed + 3 && repr (len - fixed) then (o, l, c, len - fixed)
      else if len == fixed then (o, l, c, 0)
      else go r
  go cands

/-- the TLVs the attribute map of the request composes to, in type-code order: ORIGIN IGP,
LOCAL_PREF 100, COMMUNITIES 65000:i, an unrecognised optional transitive attribute (type 250,
which `UnimplementedPathAttribute::compose` marks Partial) -/
def attrTlvs (len : Nat) : List Upd.RawAttr :=
  let (o, l, c, fill) := attrPlan len
  (if o then [⟨0x40, 1, [0]⟩] else [])
  ++ (if l then [⟨0x40, 5, [0, 0, 0, 100]⟩] else [])
  ++ (if c > 0 then
        [⟨if 4 * c > 255 then 0xd0 else 0xc0, 8,
          (List.range c).flatMap fun i => [0xfd, 0xe8, UInt8.ofNat (i / 256), UInt8.ofNat i]⟩]
      else [])
  ++ (if fill > 0 then
        if fill ≥ 260 then [⟨0xf0, 250, (List.range (fill - 4)).map fun j => UInt8.ofNat (j * 3)⟩]
        else [⟨0xe0, 250, (List.range (fill - 3)).map fun j => UInt8.ofNat (j * 3)⟩]
      else [])

def fnv32 (bs : Bytes) : UInt32 := bs.foldl (fun h b => (h ^^^ b.toUInt32) * 16777619) 2166136261
def sum32 (bs : Bytes) : UInt32 := bs.foldl (fun s b => s + b.toUInt32) 0

/-- short messages in full, longer ones as FNV-1a and octet sum (both mod 2^32) -/
def digest (bs : Bytes) : String :=
  if bs.length ≤ 96 then s!"h{hexOfBytes bs}" else s!"d{(fnv32 bs).toNat}.{(sum32 bs).toNat}"

def errName : Err → String
  | .tooLarge => "toolarge"
  | .emptyReach => "emptyreach"
  | .emptyUnreach => "emptyunreach"

def desc {N : Type} (extra : Msg N → String) (m : Msg N) : String :=
  let nh := match m.ann with
    | some (_, nh) => nh.composeLen
    | none => 0
  s!"{m.lenField}:{m.wdList.length}:{m.annList.length}:{attrsLen m.attrs}:{nh}:{m.attrLenField}{extra m}"

/-- the property only says "an error": which `ComposeError` it is stays out of the reply -/
def item {N : Type} (extra : Msg N → String) : Res (Msg N) → String
  | .ok m => desc extra m
  | .err _ => "E"
  | .panic => "PANIC"

def join (l : List String) : String := " ".intercalate l

def run {N : Type} (sz : N → Nat) (extra : Msg N → String) (op : String) (b : B N) : String :=
  let bound := nlriCount b + 2
  match op with
  | "split" =>
    -- the harness first pulls the iterator under the same bound
    match pduIter sz bound (some b) with
    | none => "hang"
    | some rs =>
      if rs.any (fun r => match r with | .panic => true | _ => false) then "panic" else
      match intoMessages sz bound b with
      | .ok ms => s!"ok {ms.length} {join (ms.map (desc extra))}"
      | .err _ => "err"
      | .panic => "panic"
      | .outOfFuel => "hang"
  | "iter" =>
    match pduIter sz bound (some b) with
    | none => "hang"
    | some rs =>
      if rs.any (fun r => match r with | .panic => true | _ => false) then "panic" else
      s!"{rs.length} {join (rs.map (item extra))}"
  | "take" =>
    match takeMessage sz b with
    | (.panic, _) => "panic"
    | (r, rem) => s!"{item extra r} {if rem.isSome then "some" else "none"}"
  | "single" =>
    match intoMessage sz b with
    | .panic => "panic"
    | r => item extra r
  | _ => "bad-op"

/-- a value-carrying line: some NLRI token starts with `=` -/
def isConcrete (ws : List String) : Bool := ws.any fun t => t.startsWith "="

def handle (ws : List String) : String :=
  if isConcrete ws then
    match ws with
    | _ :: fam :: _ =>
      match famOf fam with
      | none => "bad-op"
      | some f =>
        let F := toFam f.b
        -- the model's attribute list: the composed length of each attribute of the map
        match parseG (N := NV F) (fun _ => vtoks F f.ap) (fun al => (attrTlvs al).map fun a => (Upd.encRaw a).length) ws with
        | none => "bad-op"
        | some ⟨_, _, _, _, none⟩ => "err nexthop"
        | some ⟨op, _, pl, al, some b⟩ =>
          let others := attrTlvs al
          run (nlriSz F f.ap) (fun m => ":" ++ digest (wireBytes F f.ap (nhBytes pl) (msgOthers others m) m)) op b
    | _ => "bad-op"
  else
    match parseG (N := Nat) toks (fun al => if al == 0 then [] else [al]) ws with
    | none => "bad-op"
    | some ⟨_, _, _, _, none⟩ => "err nexthop"
    | some ⟨op, _, _, _, some b⟩ => run id (fun _ => "") op b

end Rc.Drv.C06
