/-
Model side of the C05 line protocol (see harness/src/props/c05.rs):

  dec V HEX            one `NlriParse::parse`            -> ok used=K VAL | err | panic
  rt  V HEX            parse, compose, compose_len, parse the composed bytes
                       -> ok VAL | enc=HEX clen=N | re=ok used=K VAL   (or re=err)
  val V TOKENS bits=B  a value given field by field (built through serde in the
                       harness), composed and parsed back
                       -> ok enc=HEX clen=N | re=...
  cat V N HEX          `NlriIter` over HEX up to the first Err, every item composed,
                       the concatenation iterated again
                       -> ok n=K end=BOOL vals=V1;V2 | enc=HEX clen=SUM | re=same|diff

V is the Rust name of the variant (`Ipv4MplsUnicast`, `Ipv4MplsUnicastAddpath`, ...).
-/
import Rc.Model.Nlri

namespace Rc.Drv.C05
open Rc Rc.Nlri

/-- printing and reading of one family's values as `k=v` tokens -/
structure Io (α : Type) where
  shw : α → String
  read : List String → Option α
  /-- can the value be built at all (through serde) – otherwise `bad-op` -/
  buildable : α → Bool
  /-- the total bit length `compose` puts into the length octet (MPLS families), else 0 -/
  bits : α → Nat

def kv (k : String) (tok : String) : Option String :=
  let kc := (k ++ "=").toList
  let tc := tok.toList
  if kc.isPrefixOf tc then some (String.ofList (tc.drop kc.length)) else none

def kvNat (k tok : String) : Option Nat := (kv k tok).bind (·.toNat?)
def kvHex (k tok : String) : Option Bytes := (kv k tok).bind bytesOfHex

def showPfx (p : Pfx) : String := s!"p={p.len}/{hexOrDash p.addr}"

def readPfx (tok : String) : Option Pfx :=
  match kv "p" tok with
  | none => none
  | some s =>
    match s.splitOn "/" with
    | [l, h] =>
      match l.toNat?, bytesOfHex h with
      | some len, some addr =>
        if addr.length == 4 then some ⟨false, len, addr⟩
        else if addr.length == 16 then some ⟨true, len, addr⟩
        else none
      | _, _ => none
    | _ => none

def pfxIo (v6 : Bool) : Io Pfx where
  shw := showPfx
  read
    | [t] => readPfx t
    | _ => none
  buildable p := p.wf && (p.v6 == v6)
  bits _ := 0

def mplsIo (v6 : Bool) : Io Mpls where
  shw m := s!"{showPfx m.pfx} l={hexOrDash m.labels}"
  read
    | [tp, tl] => match readPfx tp, kvHex "l" tl with
      | some p, some l => some ⟨p, l⟩
      | _, _ => none
    | _ => none
  buildable m := m.pfx.wf && (m.pfx.v6 == v6)
  bits m := 8 * m.labels.length + m.pfx.len

def vpnIo (v6 : Bool) : Io Vpn where
  shw m := s!"{showPfx m.pfx} l={hexOrDash m.labels} rd={hexOrDash m.rd}"
  read
    | [tp, tl, tr] => match readPfx tp, kvHex "l" tl, kvHex "rd" tr with
      | some p, some l, some rd => some ⟨p, l, rd⟩
      | _, _, _ => none
    | _ => none
  buildable m := m.pfx.wf && (m.pfx.v6 == v6) && (m.rd.length == 8)
  bits m := 8 * (8 + m.labels.length) + m.pfx.len

def rtIo : Io Rt where
  shw n := s!"raw={hexOrDash n.raw}"
  read
    | [t] => (kvHex "raw" t).map Rt.mk
    | _ => none
  buildable _ := true
  bits _ := 0

def fsIo (_v6 : Bool) : Io Fs where
  shw n := s!"afi={n.afi} raw={hexOrDash n.raw}"
  read
    | [ta, tr] => match kvNat "afi" ta, kvHex "raw" tr with
      | some a, some r => some ⟨a, r⟩
      | _, _ => none
    | _ => none
  buildable n := decide (n.afi < 65536)
  bits _ := 0

def vplsIo : Io Vpls where
  shw n := s!"rd={hexOrDash n.rd} ve={n.veId} off={n.veOff} size={n.veSize} lb={n.labelBase}"
  read
    | [t1, t2, t3, t4, t5] =>
      match kvHex "rd" t1, kvNat "ve" t2, kvNat "off" t3, kvNat "size" t4, kvNat "lb" t5 with
      | some rd, some a, some b, some c, some d => some ⟨rd, a, b, c, d⟩
      | _, _, _, _, _ => none
    | _ => none
  buildable n := (n.rd.length == 8) && decide (n.veId < 65536) && decide (n.veOff < 65536) &&
    decide (n.veSize < 65536) && decide (n.labelBase < 16777216)
  bits _ := 0

def evpnIo : Io Evpn where
  shw n := s!"t={n.rtype} raw={hexOrDash n.raw}"
  read
    | [t1, t2] => match kvNat "t" t1, kvHex "raw" t2 with
      | some t, some r => some ⟨t, r⟩
      | _, _ => none
    | _ => none
  buildable n := rtypeValid n.rtype
  bits _ := 0

def Io.addpath {α} (io : Io α) : Io (Nat × α) where
  shw x := s!"pid={x.1} {io.shw x.2}"
  read
    | t :: ts => match kvNat "pid" t, io.read ts with
      | some p, some n => some (p, n)
      | _, _ => none
    | [] => none
  buildable x := decide (x.1 < 4294967296) && io.buildable x.2
  bits x := io.bits x.2

def famIo : (f : Fam) → Io f.Val
  | .v4u => pfxIo false
  | .v4m => pfxIo false
  | .v6u => pfxIo true
  | .v6m => pfxIo true
  | .v4mpls => mplsIo false
  | .v6mpls => mplsIo true
  | .v4vpn => vpnIo false
  | .v6vpn => vpnIo true
  | .v4rt => rtIo
  | .v4fs => fsIo false
  | .v6fs => fsIo true
  | .vpls => vplsIo
  | .evpn => evpnIo

def famNames : List (String × Fam) := [
  ("Ipv4Unicast", .v4u), ("Ipv4Multicast", .v4m), ("Ipv4MplsUnicast", .v4mpls),
  ("Ipv4MplsVpnUnicast", .v4vpn), ("Ipv4RouteTarget", .v4rt), ("Ipv4FlowSpec", .v4fs),
  ("Ipv6Unicast", .v6u), ("Ipv6Multicast", .v6m), ("Ipv6MplsUnicast", .v6mpls),
  ("Ipv6MplsVpnUnicast", .v6vpn), ("Ipv6FlowSpec", .v6fs),
  ("L2VpnVpls", .vpls), ("L2VpnEvpn", .evpn)]

/-- variant name -> (family, addpath?) -/
def variantOf (s : String) : Option (Fam × Bool) :=
  match famNames.find? (·.1 == s) with
  | some (_, f) => some (f, false)
  | none =>
    match famNames.find? (fun x => x.1 ++ "Addpath" == s) with
    | some (_, f) => some (f, true)
    | none => none

def reStr {α} (c : Codec α) (io : Io α) (bs : Bytes) : Option String :=
  match c.dec bs with
  | .ok (n, r) => some s!"re=ok used={bs.length - r.length} {io.shw n}"
  | .err => some "re=err"
  | .panic => none

def opDec {α} (c : Codec α) (io : Io α) (bs : Bytes) : String :=
  match c.dec bs with
  | .ok (n, r) => s!"ok used={bs.length - r.length} {io.shw n}"
  | .err => "err"
  | .panic => "panic"

def opRt {α} (c : Codec α) (io : Io α) (bs : Bytes) : String :=
  match c.dec bs with
  | .err => "err"
  | .panic => "panic"
  | .ok (n, _) =>
    match c.enc n with
    | .ok e =>
      match reStr c io e with
      | some re => s!"ok {io.shw n} | enc={hexOrDash e} clen={c.clen n} | {re}"
      | none => "panic"
    | _ => "panic"

def opVal {α} (c : Codec α) (io : Io α) (toks : List String) : String :=
  match toks.reverse with
  | tb :: rev =>
    match io.read rev.reverse, kvNat "bits" tb with
    | some n, some b =>
      if !io.buildable n || b != io.bits n then "bad-op"
      else match c.enc n with
        | .ok e =>
          match reStr c io e with
          | some re => s!"ok enc={hexOrDash e} clen={c.clen n} | {re}"
          | none => "panic"
        | _ => "panic"
    | _, _ => "bad-op"
  | [] => "bad-op"

def opCat {α} [DecidableEq α] (c : Codec α) (io : Io α) (bs : Bytes) : String :=
  match decAll c bs with
  | .ok (ns, e) =>
    match encAll c ns with
    | .ok out =>
      match decAll c out with
      | .panic => "panic"
      | re =>
        let vals := if ns.isEmpty then "-" else String.intercalate ";" (ns.map io.shw)
        let clen := (ns.map c.clen).foldl (· + ·) 0
        let same := decide (re = .ok (ns, true))
        s!"ok n={ns.length} end={e} vals={vals} | enc={hexOrDash out} clen={clen} | re={if same then "same" else "diff"}"
    | _ => "panic"
  | _ => "panic"

def run {α} [DecidableEq α] (c : Codec α) (io : Io α) (op : String) (args : List String) : String :=
  match op, args with
  | "dec", [h] => match bytesOfHex h with
    | some bs => opDec c io bs
    | none => "bad-op"
  | "rt", [h] => match bytesOfHex h with
    | some bs => opRt c io bs
    | none => "bad-op"
  | "val", toks => opVal c io toks
  -- a `cat` listing ends in the harness' iterator-protocol verdict on NlriIter (harness/src/common.rs
  -- iter_protocol); the model's iterator is a `next` sequence, every default consumption of which
  -- observes `collect` (Rc/Lemmas/IterProto.lean): constant `proto=ok`
  | "cat", [_, h] => match bytesOfHex h with
    | some bs => let r := opCat c io bs; if r.startsWith "ok" then r ++ " proto=ok" else r
    | none => "bad-op"
  | _, _ => "bad-op"

instance (f : Fam) : DecidableEq f.Val := by
  cases f <;> (simp only [Fam.Val]; infer_instance)

def handle (ws : List String) : String :=
  match ws with
  | op :: v :: args =>
    match variantOf v with
    | some (f, false) => run (codec f) (famIo f) op args
    | some (f, true) => run (codecAp f) (famIo f).addpath op args
    | none => "bad-op"
  | _ => "bad-op"

end Rc.Drv.C05
