import Rc.Model.Attr
import Rc.Drv.C13
/-! C04 line protocol (model side).

value   origin:N | aspath:H | nexthop:N | med:N | localpref:N | atomic | aggregator:ASN:ADDR |
        communities:C.C.C | originator:N |
        clusterlist:N.N | extcomm:HEX.HEX | as4path:H | as4aggregator:ASN:ADDR | connector:N |
        aspathlimit:UB:ASN | ipv6extcomm:HEX.HEX | largecomm:HEX.HEX | otc:N | attrset:ASN:HEX | reserved:HEX
        (H = hop path as in C13; 32-bit numbers in decimal; records in hex)
requests  enc VALUE | dec W HEX | decall W HEX | msg HEX
-/
namespace Rc.Drv.C04
open Rc Rc.AsPath Rc.Attr Rc.Drv.C13

def showNats (l : List Nat) : String := String.intercalate "." (l.map toString)
def showRecs (l : List Bytes) : String := String.intercalate "." (l.map hexOfBytes)

def showValue : TypedAttr → String
  | .origin v => s!"origin:{v}"
  | .asPath h => s!"aspath:{showHops h}"
  | .nextHop a => s!"nexthop:{a}"
  | .med n => s!"med:{n}"
  | .localPref n => s!"localpref:{n}"
  | .atomicAggregate => "atomic"
  | .aggregator asn addr => s!"aggregator:{asn}:{addr}"
  | .communities l => s!"communities:{showNats l.cs}"
  | .originatorId a => s!"originator:{a}"
  | .clusterList ids => s!"clusterlist:{showNats ids}"
  | .extCommunities cs => s!"extcomm:{showRecs cs}"
  | .as4Path h => s!"as4path:{showHops h}"
  | .as4Aggregator asn addr => s!"as4aggregator:{asn}:{addr}"
  | .connector a => s!"connector:{a}"
  | .asPathLimit ub asn => s!"aspathlimit:{ub}:{asn}"
  | .ipv6ExtCommunities cs => s!"ipv6extcomm:{showRecs cs}"
  | .largeCommunities cs => s!"largecomm:{showRecs cs}"
  | .otc asn => s!"otc:{asn}"
  | .attrSet o attrs => s!"attrset:{o}:{hexOrDash attrs}"
  | .reserved raw => s!"reserved:{hexOrDash raw}"

def showDecoded : Outcome Decoded → String
  | .ok (.typed a) => s!"typed:{showValue a}"
  | .ok (.unimplemented f c v) => s!"unimpl:{f}:{c}:{hexOrDash v}"
  | .ok (.invalid f c v) => s!"invalid:{f}:{c}:{hexOrDash v}"
  | _ => "owned-err"

def parseU32 (s : String) : Option Nat := parseAsn s
def parseU8 (s : String) : Option Nat :=
  match s.toNat? with
  | some n => if n < 256 then some n else none
  | none => none

def parseNats (s : String) : Option (List Nat) :=
  if s.isEmpty then some [] else (s.splitOn ".").mapM parseU32

def parseRecs (k : Nat) (s : String) : Option (List Bytes) :=
  if s.isEmpty then some [] else
    (s.splitOn ".").mapM fun h =>
      match bytesOfHex h with
      | some b => if b.length = k then some b else none
      | none => none

def parseValueText (s : String) : Option TypedAttr :=
  match s.splitOn ":" with
  | ["origin", n] => (parseU8 n).map .origin
  | "aspath" :: rest => (parseHops (String.intercalate ":" rest)).map .asPath
  | ["nexthop", n] => (parseU32 n).map .nextHop
  | ["med", n] => (parseU32 n).map .med
  | ["localpref", n] => (parseU32 n).map .localPref
  | ["atomic"] => some .atomicAggregate
  | ["aggregator", a, b] => do let a ← parseU32 a; let b ← parseU32 b; pure (.aggregator a b)
  | ["communities", cs] => (parseNats cs).map fun l => .communities (l.foldl SCL.add SCL.empty)
  | ["originator", n] => (parseU32 n).map .originatorId
  | ["clusterlist", l] => (parseNats l).map .clusterList
  | ["extcomm", l] => (parseRecs 8 l).map .extCommunities
  | "as4path" :: rest => (parseHops (String.intercalate ":" rest)).map .as4Path
  | ["as4aggregator", a, b] => do let a ← parseU32 a; let b ← parseU32 b; pure (.as4Aggregator a b)
  | ["connector", n] => (parseU32 n).map .connector
  | ["aspathlimit", a, b] => do let a ← parseU8 a; let b ← parseU32 b; pure (.asPathLimit a b)
  | ["ipv6extcomm", l] => (parseRecs 20 l).map .ipv6ExtCommunities
  | ["largecomm", l] => (parseRecs 12 l).map .largeCommunities
  | ["otc", n] => (parseU32 n).map .otc
  | ["attrset", a, h] => do let a ← parseU32 a; let h ← bytesOfHex h; pure (.attrSet a h)
  | ["reserved", h] => (bytesOfHex h).map .reserved
  | _ => none

def handle (ws : List String) : String :=
  match ws with
  | ["enc", v] =>
    match parseValueText v with
    | none => "bad-op"
    | some a =>
      match encAttr a, composeLen a with
      | .ok bs, .ok n =>
        match decAttr true bs with
        | .ok (d, r) =>
          let same := match d with
            | .ok (.typed a') => r.isEmpty && a'.eqRust a      -- Rust `back == pa`
            | _ => false
          s!"ok {hexOrDash bs} len={n} dec={showDecoded d} same={bstr same}"
        | _ => s!"ok {hexOrDash bs} len={n} dec=err same=false"
      | _, _ => "panic"
  | ["dec", w, hx] =>
    match parseW w, bytesOfHex hx with
    | some four, some bs =>
      match decAttr four bs with
      | .ok (d, r) =>
        let re := match d with
          | .ok (.typed a) =>
            match encAttr a with
            | .ok b => hexOrDash b
            | _ => "panic"
          | _ => "-"
        s!"ok {showDecoded d} rest={r.length} re={re}"
      | .err => "err"
      | .panic => "panic"
    | _, _ => "bad-op"
  | ["decall", w, hx] =>
    match parseW w, bytesOfHex hx with
    | some four, some bs =>
      match decAll four bs.length bs with
      | .ok l => "ok " ++ (if l.isEmpty then "-" else String.intercalate "|" (l.map showDecoded))
      | .err => "err"
      | .panic => "panic"
    | _, _ => "bad-op"
  | ["msg", hx] =>
    match bytesOfHex hx with
    | some bs =>
      if bs.length > 4000 then "bad-op" else
      match attrSection bs with
      | .ok _ => "ok"
      | .err => "err"
      | .panic => "panic"
    | none => "bad-op"
  | _ => "bad-op"

end Rc.Drv.C04
