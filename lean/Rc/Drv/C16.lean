/-
C16 driver: the model side of the line protocol (see harness/src/props/c16.rs
for the request grammar).  Nothing here is proved; it only parses request
lines, runs `Rc.Mrt` and prints canonical listings.
-/
import Rc.Model.Mrt
namespace Rc.Drv.C16
open Rc Rc.Mrt

def splitList (s : String) (sep : String) : List String :=
  if s.isEmpty then [] else s.splitOn sep

def bit? (s : String) : Option Bool :=
  if s == "0" then some false else if s == "1" then some true else none

/-! ### spec parsers -/

def parsePeerSpec (s : String) : Option PeerSpec :=
  match s.splitOn "," with
  | [id, addr, asn, as4] => do
    let id ← id.toNat?
    let addr ← bytesOfHex addr
    let asn ← asn.toNat?
    let as4 ← bit? as4
    some ⟨id, addr, asn, as4⟩
  | _ => none

def parseEntrySpec (s : String) : Option EntrySpec :=
  match s.splitOn ":" with
  | [idx, ot, attrs] => do
    let idx ← idx.toNat?
    let ot ← ot.toNat?
    let attrs ← bytesOfHex attrs
    some ⟨idx, ot, attrs⟩
  | _ => none

def parseTableSpec (s : String) : Option TableSpec :=
  match s.splitOn "," with
  | [ts, seq, v6, plen, pb, es] => do
    let ts ← ts.toNat?
    let seq ← seq.toNat?
    let v6 ← bit? v6
    let plen ← plen.toNat?
    let pb ← bytesOfHex pb
    let es ← (splitList es "+").mapM parseEntrySpec
    some ⟨ts, seq, v6, plen, pb, es⟩
  | _ => none

def parseFileSpec (s : String) : Option FileSpec :=
  match s.splitOn ";" with
  | [ts, coll, view, peers, tabs] => do
    let ts ← ts.toNat?
    let coll ← coll.toNat?
    let view ← bytesOfHex view
    let peers ← (splitList peers "|").mapM parsePeerSpec
    let tabs ← (splitList tabs "|").mapM parseTableSpec
    some ⟨ts, coll, view, peers, tabs⟩
  | _ => none

def parseRecSpec (s : String) : Option RecSpec :=
  match s.splitOn "," with
  | [ts, et, mus, kind, pa, la, ifc, v6, p, l, o, n, bgp] => do
    let ts ← ts.toNat?
    let et ← bit? et
    let mus ← mus.toNat?
    let kind ← kind.toNat?
    let pa ← pa.toNat?
    let la ← la.toNat?
    let ifc ← ifc.toNat?
    let v6 ← bit? v6
    let p ← bytesOfHex p
    let l ← bytesOfHex l
    let o ← o.toNat?
    let n ← n.toNat?
    let bgp ← bytesOfHex bgp
    if kind = 0 then some ⟨ts, et, mus, .stateChange false pa la ifc v6 p l o n⟩
    else if kind = 5 then some ⟨ts, et, mus, .stateChange true pa la ifc v6 p l o n⟩
    else if kind = 1 then some ⟨ts, et, mus, .message false pa la ifc v6 p l bgp⟩
    else if kind = 4 then some ⟨ts, et, mus, .message true pa la ifc v6 p l bgp⟩
    else none
  | _ => none

def parseRecsSpec (s : String) : Option (List RecSpec) :=
  if s == "-" then some [] else (splitList s "|").mapM parseRecSpec

/-! ### canonical printing -/

def padTo (n : Nat) (b : Bytes) : Bytes := b ++ List.replicate (n - b.length) 0

def prefixStr (p : Prefix) : String :=
  s!"{if p.v6 then 6 else 4}/{p.len}/{hexOfBytes (padTo (if p.v6 then 16 else 4) p.bytes)}"

def peerStr (p : PeerEntry) : String :=
  s!"{hexOfBytes (be32 p.bgpId)}/{hexOfBytes p.addr}/{p.asn}"

def famStr (v6 : Bool) : String := if v6 then "6" else "4"

def ribItemStr : RibItem → String
  | (fam, idx, peer, pfx, attrs) =>
    s!"{famStr fam},{idx},{peerStr peer},{prefixStr pfx},{hexOrDash attrs}"

def peerAt (peers : List PeerEntry) (i : Nat) : String :=
  match peers[i]? with
  | some p => peerStr p
  | none => "nopeer"

def singleItemStr (peers : List PeerEntry) : SingleItem → String
  | (pfx, idx, attrs) => s!"{prefixStr pfx},{idx},{peerAt peers idx},{hexOrDash attrs}"

def rawItemStr : SingleItem → String
  | (pfx, idx, attrs) => s!"{prefixStr pfx},{idx},{hexOrDash attrs}"

def tableStr (t : Bool × RibEntryHeader) : String :=
  s!"T,{famStr t.1},{t.2.seq},{prefixStr t.2.pfx},{t.2.entryCount}"

def msgStr : Bgp4Mp → String
  | .stateChange as4 pa la ifc v6 p l o n =>
    s!"{if as4 then "sc4" else "sc"},{pa},{la},{ifc},{if v6 then 2 else 1},{hexOfBytes p},{hexOfBytes l},{o},{n}"
  | .message as4 pa la ifc v6 p l bgp =>
    s!"{if as4 then "m4" else "m"},{pa},{la},{ifc},{if v6 then 2 else 1},{hexOfBytes p},{hexOfBytes l},{hexOrDash bgp}"

def listing (items : List String) : String :=
  items.foldl (fun acc s => acc ++ " " ++ s) s!"ok {items.length}"

def outcomeStr {α} (o : Outcome α) (f : α → String) : String :=
  match o with
  | .ok a => f a
  | .err => "err"
  | .panic => "panic"

def encTok (same : Option Bool) : String :=
  match same with
  | none => " enc=na"
  | some true => " enc=same"
  | some false => " enc=diff"

/-- spec `-` = no content claim; otherwise the spec must parse -/
def withFileSpec (spec : String) (bs : Bytes) (k : Option Bool → String) : String :=
  if spec == "-" then k none
  else
    match parseFileSpec spec with
    | some f => k (some (encFile f == bs))
    | none => "bad-op"

def withRecsSpec (spec : String) (bs : Bytes) (k : Option Bool → String) : String :=
  if spec == "-" then k none
  else
    match parseRecsSpec spec with
    | some rs => k (some (encRecs rs == bs))
    | none => "bad-op"

/-- (tables, then each table's entries) as tokens -/
def tablesTokens (peers : List PeerEntry) :
    List (Bool × RibEntryHeader) → Outcome (List String)
  | [] => .ok []
  | t :: ts =>
    match single t.2 with
    | .ok es =>
      match tablesTokens peers ts with
      | .ok r => .ok (tableStr t :: (es.map (fun e => "E," ++ singleItemStr peers e) ++ r))
      | .err => .err
      | .panic => .panic
    | .err => .err
    | .panic => .panic

/-- `messages()` to the first `None`, then two more calls of `next`
(n = None, s = Some) -/
def msgsReply (bs : Bytes) (e : Option Bool) : String :=
  match msgsRun (bs.length + 1) bs with
  | .err => "err"
  | .panic => "panic"
  | .ok (items, s0) =>
    match msgPoll (s0.length + 1) s0 with
    | .ok (r1, s1) =>
      match msgPoll (s1.length + 1) s1 with
      | .ok (r2, _) =>
        let c := fun (r : Option Bgp4Mp) => if r.isSome then "s" else "n"
        listing (items.map msgStr) ++ " then=" ++ c r1 ++ c r2 ++ encTok e
      | _ => "panic"
    | _ => "panic"

def strLe (a b : String) : Bool := !(b < a)

def threadsOk (s : String) : Bool := ["all", "1", "2", "3", "4", "5", "7", "8", "12", "16"].contains s

def repsOk (s : String) : Bool :=
  match s.toNat? with
  | some n => 1 ≤ n && n ≤ 50
  | none => false

def handle0 (ws : List String) : String :=
  match ws with
  | ["hdr", hx] =>
    match bytesOfHex hx with
    | none => "bad-op"
    | some bs =>
      outcomeStr (CommonHeader.parse bs) fun (m, rest) =>
        s!"ok {m.msgType} {m.subtype} {m.length} {rest.length}"
  | ["peers", hx] =>
    match bytesOfHex hx with
    | none => "bad-op"
    | some bs => outcomeStr (peerIndex bs) fun ps => listing (ps.map peerStr)
  | ["single", fam, hx] =>
    match bit? fam, bytesOfHex hx with
    | some v6, some bs =>
      match RibEntryHeader.parse v6 bs with
      | .err => "err"
      | .panic => "panic"
      | .ok reh =>
        outcomeStr (single reh) fun es => listing (tableStr (v6, reh) :: es.map rawItemStr)
    | _, _ => "bad-op"
  | ["rib", hx, spec] =>
    match bytesOfHex hx with
    | none => "bad-op"
    | some bs =>
      withFileSpec spec bs fun e =>
        outcomeStr (ribEntries bs) fun items => listing (items.map ribItemStr) ++ encTok e
  | ["tables", hx, spec] =>
    match bytesOfHex hx with
    | none => "bad-op"
    | some bs =>
      withFileSpec spec bs fun e =>
        match tables bs with
        | .err => "err"
        | .panic => "panic"
        | .ok (peers, ts) =>
          outcomeStr (tablesTokens peers ts) fun toks =>
            listing (s!"P,{peers.length}" :: toks) ++ encTok e
  | ["mt", th, reps, hx, spec] =>
    match threadsOk th && repsOk reps, bytesOfHex hx with
    | true, some bs =>
      withFileSpec spec bs fun e =>
        match ribEntriesMtSeq bs, peerIndex bs with
        | .ok items, .ok peers =>
          listing ((items.map (singleItemStr peers)).mergeSort strLe) ++ encTok e
        | _, _ => "panic"
    | _, _ => "bad-op"
  | ["msgs", hx, spec] =>
    match bytesOfHex hx with
    | none => "bad-op"
    | some bs =>
      withRecsSpec spec bs fun e => msgsReply bs e
  | ["skip", hx, spec] =>
    match bytesOfHex hx, parseRecsSpec spec with
    | some bs, some _ => msgsReply bs none
    | _, _ => "bad-op"
  | ["trunc", k, hx, spec] =>
    match k.toNat?, bytesOfHex hx with
    | some k, some bs =>
      if k ≤ bs.length then
        withRecsSpec spec bs fun e => msgsReply (bs.take k) e
      else "bad-op"
    | _, _ => "bad-op"
  | _ => "bad-op"

/-- Listings of the sequential iterators (`single`, `rib`, `tables`, `msgs`, `skip`, `trunc`) end in the
harness' iterator-protocol verdict (harness/src/common.rs `iter_protocol`: count / last / nth / skip /
step_by / size_hint / by_ref-then-rest / peekable on the real iterators).  The model's iterators are
`next` functions; every default consumption of one observes its `collect` list
(Rc/Lemmas/IterProto.lean, instantiated for `ribNext` in Rc/Thm/C16.lean), so the model's answer is
the constant `proto=ok`. -/
def handle (ws : List String) : String :=
  let r := handle0 ws
  match ws with
  | op :: _ =>
    if ["single", "rib", "tables", "msgs", "skip", "trunc"].contains op && r.startsWith "ok" then r ++ " proto=ok" else r
  | [] => r

end Rc.Drv.C16
