/-
Model side of the C02 line protocol: the same request (`upd CFG HEX`) and the
same observation as C01 (see Rc/Drv/C01.lean); C02 feeds it malformed input.
-/
import Rc.Drv.C01

namespace Rc.Drv.C02

def handle (ws : List String) : String := Rc.Drv.C01.handle ws

end Rc.Drv.C02
