import Rc.Model.Framing
import Rc.Model.SessionDecode
import Rc.Drv.C01
namespace Rc.Drv.C09
open Rc Rc.Framing Rc.SessionDecode

/-! Model side of the C09 line protocol (see harness/src/props/c09.rs for the ops). -/

def num? (s : String) : Option Nat :=
  if s.isEmpty || s.length > 6 then none else s.toNat?

def parseLens (s : String) (total : Nat) : Option (List Nat) :=
  if s == "-" then (if total == 0 then some [] else none)
  else
    match (s.splitOn ",").mapM num? with
    | some v => if v.foldl (· + ·) 0 == total then some v else none
    | none => none

/-- `off:len:v,...` -> (frame bytes, verdict) -/
def parseTable (s : String) (stream : Bytes) : Option (List (Bytes × Char)) :=
  if s == "-" then some []
  else
    (s.splitOn ",").mapM fun e =>
      match e.splitOn ":" with
      | [o, l, v] =>
        match num? o, num? l, v.toList with
        | some o, some l, [c] =>
          if "epkunvABCr".toList.contains c && o + l ≤ stream.length then
            some ((stream.drop o).take l, c)
          else none
        | _, _, _ => none
      | _ => none

/-- the abstract per-type decoders, instantiated from the verdict table of the request -/
def bodyOf (tbl : List (Bytes × Char)) (f : Bytes) : Outcome WireMsg :=
  match tbl.find? (fun e => e.1 == f) with
  | some (_, c) =>
    if c == 'k' then .ok .keepalive
    else if c == 'u' then .ok .update
    else if c == 'n' then .ok (.notification false)
    else if c == 'v' then .ok (.notification true)
    else if c == 'A' then .ok (.open true true)
    else if c == 'B' then .ok (.open false true)
    else if c == 'C' then .ok (.open true false)
    else if c == 'r' then .ok .routeRefresh
    else if c == 'p' then .panic
    else .err
  | none => .err

/-- the session the harness builds: `SessionConfig::modern()`, remote AS 65002 -/
def defaultSc : SessCfg := ⟨modern, fun a => a == 65002⟩

/-- the `<table>` argument: `*` = the model decides every frame itself with the concrete
decoders (`Rc.SessionDecode.sessionBody`), anything else = the verdict table of the request -/
def bodyOfArg (t : String) (stream : Bytes) : Option (Bytes → Outcome WireMsg) :=
  if t == "*" then some (sessionBody defaultSc)
  else (parseTable t stream).map bodyOf

def chunksOf : Bytes → List Nat → List Bytes
  | _, [] => []
  | s, n :: ns => s.take n :: chunksOf (s.drop n) ns

structure RunRes where
  frames : List Bytes
  «end» : Outcome Nat
  at_ : List Nat
  errAt : Option Nat

def runChunks (dec : Bytes → Outcome WireMsg) (stream : Bytes) (lens : List Nat) : RunRes :=
  let (st, at_, ea) := feedAt dec 0 ([], .ok []) [] none (chunksOf stream lens)
  { frames := st.1.map (·.2),
    «end» := match st.2 with | .ok b => .ok b.length | .err => .err | .panic => .panic,
    at_ := at_, errAt := ea }

def joinC (l : List String) : String := if l.isEmpty then "-" else ",".intercalate l

def showFrames (fs : List Bytes) : String := joinC (fs.map hexOfBytes)
def showEnd : Outcome Nat → String
  | .ok n => s!"rest:{n}"
  | .err => "err"
  | .panic => "panic"
def showAt (r : RunRes) : String :=
  joinC (r.at_.map toString ++ (match r.errAt with | some i => [s!"!{i}"] | none => []))

def isPanic (r : RunRes) : Bool := match r.«end» with | .panic => true | _ => false

def showRun (r : RunRes) : String :=
  if isPanic r then "panic" else s!"{showFrames r.frames} {showEnd r.«end»} {showAt r}"

def atHash (r : RunRes) : Nat :=
  let h := r.at_.foldl (fun h x => (h * 31 + x + 1) % 1000000007) 7
  match r.errAt with
  | some i => (h * 37 + i + 1) % 1000000007
  | none => h

structure Acc where
  n : Nat := 0
  same : Nat := 0
  h : Nat := 0
  diff : Option String := none
  panicked : Bool := false

def endEq : Outcome Nat → Outcome Nat → Bool
  | .ok a, .ok b => a == b
  | .err, .err => true
  | .panic, .panic => true
  | _, _ => false

def step (dec : Bytes → Outcome WireMsg) (stream : Bytes) (base : RunRes) (a : Acc) (lens : List Nat) : Acc :=
  let r := runChunks dec stream lens
  let eq := r.frames == base.frames && endEq r.«end» base.«end»
  { n := a.n + 1,
    same := if eq then a.same + 1 else a.same,
    h := (a.h * 1000003 + atHash r) % 1000000007,
    diff := if !eq && a.diff.isNone then
        some s!"{joinC (lens.map toString)}=>{showFrames r.frames}/{showEnd r.«end»}" else a.diff,
    panicked := a.panicked || isPanic r }

def lensOfMask (n mask : Nat) : List Nat := Id.run do
  let mut lens : Array Nat := #[]
  let mut cur := 1
  for i in [0:n-1] do
    if (mask >>> i) % 2 == 1 then
      lens := lens.push cur
      cur := 1
    else cur := cur + 1
  return (lens.push cur).toList

def multi (dec : Bytes → Outcome WireMsg) (stream : Bytes) (op : String) : String := Id.run do
  let n := stream.length
  let base := runChunks dec stream [n]
  let mut a : Acc := {}
  if op == "split2" then
    for k in [1:n] do a := step dec stream base a [k, n - k]
  else if op == "split3" then
    for x in [1:n] do
      for y in [x+1:n] do a := step dec stream base a [x, y - x, n - y]
  else
    if n > 0 then
      for mask in [0:2^(n-1)] do a := step dec stream base a (lensOfMask n mask)
  if isPanic base || a.panicked then return "panic"
  let d := match a.diff with | some d => s!" diff={d}" | none => ""
  return s!"{showFrames base.frames} {showEnd base.«end»} n={a.n} same={a.same} h={a.h}{d}"

def hashBytes (b : Bytes) : Nat := b.foldl (fun h x => (h * 31 + x.toNat) % 4294967296) 0

def showSlice (b : Bytes) : String :=
  if b.length ≤ 48 then s!"some:{b.length}:{hexOrDash b}" else s!"some:{b.length}:#{hashBytes b}"

def runRm (k : Nat) (stream : Bytes) : String :=
  let rs := readMessages 8 { data := stream, partialCopy := k != 0 } (List.replicate 4096 0)
  if rs.any (fun o => match o with | .panic => true | _ => false) then "panic"
  else " ".intercalate (rs.map fun o => match o with
    | .ok (some f) => showSlice f
    | .ok none => "none"
    | .err => "err"
    | .panic => "panic")

def stOfNat : Nat → Option St
  | 1 => some .idle | 2 => some .connect | 3 => some .active | 4 => some .openSent
  | 5 => some .openConfirm | 6 => some .established | 7 => some .unimplemented | _ => none
def natOfSt : St → Nat
  | .idle => 1 | .connect => 2 | .active => 3 | .openSent => 4
  | .openConfirm => 5 | .established => 6 | .unimplemented => 7

def kindOf : String → Option WireMsg
  | "open" => some (.open true true)
  | "open-badas" => some (.open false true)
  | "open-badaddpath" => some (.open true false)
  | "update" => some .update
  | "notification" => some (.notification false)
  | "notification-vererr" => some (.notification true)
  | "keepalive" => some .keepalive
  | "routerefresh" => some .routeRefresh
  | _ => none

def showOut : Out → String
  | .open => "O" | .keepalive => "K" | .notif c s => s!"N{c}.{s}"
def showOuts (l : List Out) : String := joinC (l.map showOut)
def b01 (b : Bool) : String := if b then "1" else "0"

def runHm (st : St) (d : Bool) (m : WireMsg) : String :=
  match handleMsg { st := st, delayOpen := d, conn := true } m with
  | .todo => "panic"
  | .panic => "panic"
  | .done ok s outs =>
    s!"{if ok then "ok" else "err"} {natOfSt s.st} d={b01 s.delayOpen} conn={b01 s.conn} outs={showOuts outs}"

def runE2e (body : Bytes → Outcome WireMsg) (st : St) (d : Bool) (stream : Bytes) : String :=
  let (ticks, fin) := sessionRun body 24 { st := st, delayOpen := d, conn := true } stream
  if ticks.any (fun t => match t with | .panic => true | _ => false) then "panic"
  else
    let ts := ticks.map fun t => match t with
      | .handled true s _ _ => s!"ok:{natOfSt s.st}"
      | .handled false s _ _ => s!"err:{natOfSt s.st}"
      | .readErr => "err:2"
      | .eof => "ok:2"
      | .panic => "panic"
    let outs := ticks.flatMap fun t => match t with | .handled _ _ o _ => o | _ => []
    s!"{",".intercalate ts} conn={b01 fin.conn} outs={showOuts outs}"

/-- what the session sends to the application while handling message `m` (cut from `frame`) in
state `s` (session.rs `handle_msg` and the OPEN-accepting arms): an UPDATE is forwarded only when
Established, a NOTIFICATION always, `SessionNegotiated` when an OPEN is accepted -/
def appEvents (s : Sess) (m : WireMsg) (frame : Bytes) : List String :=
  match m with
  | .update => if s.st == .established then [s!"U:{frame.length}:{hashBytes frame}"] else []
  | .notification _ => [s!"N:{(frame.getD 19 0).toNat}.{(frame.getD 20 0).toNat}"]
  | .open a b =>
    let accepting := (s.delayOpen && (s.st == .connect || s.st == .active)) || (!s.delayOpen && s.st == .openSent)
    if accepting && a && b && s.conn then ["S"] else []
  | _ => []

/-- `e2ec`: the run of `sessionRun` (every octet the peer sends is eventually buffered; by the
chunking theorems the way it arrives and a command handled in between change nothing), with what
reaches the application recorded.  The transitions are `tickMsg`'s; `parseFrame` is consulted
only to name the frame a tick handled. -/
def runE2ec (body : Bytes → Outcome WireMsg) : Nat → Sess → Bytes → List String → List Out → String
  | 0, s, _, app, outs => s!"app={joinC app} end=ok st={natOfSt s.st} conn={b01 s.conn} outs={showOuts outs} same=1"
  | n + 1, s, buf, app, outs =>
    let fin (app : List String) («end» : String) (s : Sess) (outs : List Out) : String :=
      s!"app={joinC app} end={«end»} st={natOfSt s.st} conn={b01 s.conn} outs={showOuts outs} same=1"
    match tickMsg body s buf with
    | .panic => "panic"
    | .readErr => fin app "err" { s with st := .connect, conn := false } outs
    | .eof => fin (app ++ ["L"]) "ok" { s with st := .connect, conn := false } outs
    | .handled ok s' o rest =>
      let ev := match parseFrame (decodeMsg body) buf with
        | .ok (some ((m, frame), _)) => appEvents s m frame
        | _ => []
      if !ok then fin (app ++ ev) "err" s' (outs ++ o)
      else if s'.conn then runE2ec body n s' rest (app ++ ev) (outs ++ o)
      else fin (app ++ ev) "ok" s' (outs ++ o)

def asn? (s : String) : Option Nat :=
  if s.isEmpty || s.length > 10 || !s.toList.all Char.isDigit then none
  else match s.toNat? with
    | some n => if n < 4294967296 then some n else none
    | none => none

def showAp (l : List (Nat × Nat × Nat)) : String :=
  joinC (l.map fun (a, s, d) => s!"{a}/{s}/{d}")

/-- `dec`: one frame through `Message::from_octets` + the accessors of `handle_msg`, decided by
the model from the bytes alone.  The verdict is what `decodeMsg (sessionBody sc)` says (the
function the `_concrete` theorems are about); for an OPEN the values the arms copy out are
printed as well. -/
def runDec (sc : SessCfg) (f : Bytes) : String :=
  match decodeMsg (sessionBody sc) f with
  | .panic => "panic"
  | .err => "err"
  | .ok .keepalive => "k"
  | .ok .update => "u"
  | .ok .routeRefresh => "r"
  | .ok (.notification v) => if v then "v" else "n"
  | .ok (.open a b) =>
    match msgFromOctets sc.cfg f with
    | .ok (.open m) =>
      match Open.myAsn m with
      | .ok asn =>
        if !a then s!"B asn={asn}"
        else if !b then s!"C asn={asn}"
        else
          match openFacts m asn with
          | .ok x => s!"A asn={x.asn} hold={x.hold} id={hexOrDash x.id} four={b01 x.four} ap={showAp x.addpath}"
          | _ => "?"
      | _ => "?"
    | _ => "?"

def handle (ws : List String) : String :=
  match ws with
  | ["dec", c, a, h] =>
    match Rc.Drv.C01.parseCfg c, asn? a, bytesOfHex h with
    | some cfg, some asn, some f => runDec ⟨cfg, fun x => x == asn⟩ f
    | _, _, _ => "bad-op"
  | ["feed", s, lens, t] =>
    match bytesOfHex s with
    | some s =>
      match parseLens lens s.length, bodyOfArg t s with
      | some lens, some body => showRun (runChunks (decodeMsg body) s lens)
      | _, _ => "bad-op"
    | none => "bad-op"
  | ["bytewise", s, t] =>
    match bytesOfHex s with
    | some s =>
      match bodyOfArg t s with
      | some body => showRun (runChunks (decodeMsg body) s (List.replicate s.length 1))
      | none => "bad-op"
    | none => "bad-op"
  | [op, s, t] =>
    if op == "split2" || op == "split3" || op == "parts" then
      match bytesOfHex s with
      | some s =>
        match bodyOfArg t s with
        | some body =>
          if op == "parts" && s.length > 22 then "bad-op"
          else multi (decodeMsg body) s op
        | none => "bad-op"
      | none => "bad-op"
    else if op == "rm" then
      match s.toNat?, bytesOfHex t with
      | some k, some st => if k > 100000 then "bad-op" else runRm k st
      | _, _ => "bad-op"
    else "bad-op"
  | ["hm", st, d, kind] =>
    match st.toNat? >>= stOfNat, d.toNat?, kindOf kind with
    | some st, some d, some m => if d > 1 then "bad-op" else runHm st (d == 1) m
    | _, _, _ => "bad-op"
  | ["e2ec", st, d, s, lens, t] =>
    match st.toNat? >>= stOfNat, d.toNat?, bytesOfHex s with
    | some st, some d, some s =>
      match parseLens lens s.length, bodyOfArg t s with
      | some lens, some body =>
        if d > 1 || lens.isEmpty then "bad-op"
        else runE2ec body 48 { st := st, delayOpen := d == 1, conn := true } s [] []
      | _, _ => "bad-op"
    | _, _, _ => "bad-op"
  | ["e2e", st, d, s, t] =>
    match st.toNat? >>= stOfNat, d.toNat?, bytesOfHex s with
    | some st, some d, some s =>
      match bodyOfArg t s with
      | some body => if d > 1 then "bad-op" else runE2e body st (d == 1) s
      | none => "bad-op"
    | _, _, _ => "bad-op"
  | ["e2ed", st, d, s, t] =>
    -- like e2e, but the application has dropped its command sender (as when the session runs under
    -- `Session::process()`), and `tick()` is called twice more after the run has ended.  A closed
    -- command channel only disables the command arm of `select!`; once the connection is gone the frame
    -- arm is disabled too and `tick()` waits on the timer arms: it neither returns nor panics (`pend`).
    match st.toNat? >>= stOfNat, d.toNat?, bytesOfHex s with
    | some st, some d, some s =>
      match bodyOfArg t s with
      | some body =>
        if d > 1 then "bad-op" else
        let r := runE2e body st (d == 1) s
        if r == "panic" then r else r ++ " after=pend,pend"
      | none => "bad-op"
    | _, _, _ => "bad-op"
  | _ => "bad-op"

end Rc.Drv.C09
