import Rc.Base
import Rc.Model.Open
import Rc.Model.Notif
namespace Rc.Drv.C03
open Rc Rc.Open

def joinWith (sep : String) (l : List String) : String :=
  if l.isEmpty then "-" else sep.intercalate l

def showO {α} (f : α → String) : Outcome α → String
  | .ok a => f a
  | .err => "E"
  | .panic => "P"

def lowerHex (s : String) : Bool := s.toList.all (fun c => !(c ≥ 'A' ∧ c ≤ 'Z'))

def hexArg (s : String) : Option Bytes := if lowerHex s then bytesOfHex s else none

def isAscii (bs : Bytes) : Bool := bs.all (· < 0x80)

def openReply (bs : Bytes) : String :=
  match fromOctets bs with
  | .err => "err"
  | .panic => "panic"
  | .ok m =>
    let len := showO toString (length m)
    let ver := showO (fun (v : UInt8) => toString v.toNat) (version m)
    let asn := showO toString (myAsn m)
    let ht := showO toString (holdtime m)
    let id := showO hexOrDash (identifier m)
    let opl := showO (fun (v : UInt8) => toString v.toNat) (optParmLen m)
    let params := showO (fun ps => joinWith "," (ps.map fun (p : Param) => toString p.typ.toNat))
      (parameters m >>= collect)
    let caps := showO (fun cs => joinWith "," (cs.map fun (c : Cap) => s!"{c.code.toNat}:{hexOrDash c.value}"))
      (capabilities m >>= collect)
    let four := showO (fun b => if b then "1" else "0") (fourOctetCapable m)
    let mp := showO (fun l => joinWith "," (l.map fun (a, s) => s!"{a}/{s}")) (multiprotocolIds m)
    let ap := showO (fun l => joinWith "," (l.map fun (a, s, d) => s!"{a}/{s}/{d}")) (addpathFamiliesVec m)
    -- get_software_version: only presence (and that it does not panic) – the property does not
    -- list this accessor's value
    let sw := showO (fun (o : Option Bytes) => match o with
        | none => "none"
        | some _ => "some") (softwareVersion m)
    s!"ok len={len} ver={ver} asn={asn} ht={ht} id={id} opl={opl} params={params} caps={caps} four={four} mp={mp} ap={ap} sw={sw}"

def notifReply (bs : Bytes) : String :=
  match Notif.fromOctets bs with
  | .err => "err"
  | .panic => "panic"
  | .ok m =>
    let len := showO toString (Notif.length m)
    let code := showO (fun (v : UInt8) => toString v.toNat) (Notif.code m)
    let raw := showO (fun (p : UInt8 × UInt8) => s!"{p.1.toNat}.{p.2.toNat}") (Notif.detailsRaw m)
    let data := showO (fun o => match o with | none => "none" | some d => hexOrDash d) (Notif.data m)
    s!"ok len={len} code={code} raw={raw} data={data}"

def splitList (s : String) (sep : String) : List String := if s == "-" then [] else s.splitOn sep

def parseNats (s : String) : Option (List Nat) := (s.splitOn ".").mapM String.toNat?

structure BOpen where
  b : Builder
  capbytes : Nat

def parseBOpen (ws : List String) : Option Builder :=
  match ws with
  | [asn, ht, id, four, mp, ap, caps, cb] => do
    let asn ← asn.toNat?
    let ht ← ht.toNat?
    if asn ≥ 4294967296 ∨ ht ≥ 65536 then none
    let id ← hexArg id
    if id.length ≠ 4 then none
    let fourCaps ← (if four == "-" then some [] else do
      let a ← four.toNat?
      if a ≥ 4294967296 then none
      some [fourOctetCapBytes a])
    let mps ← (splitList mp ",").mapM (fun e => do
      match ← parseNats e with
      | [a, s] => if a < 65536 ∧ s < 256 then some (mpCapBytes a s) else none
      | _ => none)
    let aps ← (splitList ap ",").mapM (fun e => do
      match ← parseNats e with
      | [a, s, d] => if a < 65536 ∧ s < 256 ∧ 1 ≤ d ∧ d ≤ 3 then some (a, s, d) else none
      | _ => none)
    let raws ← (splitList caps "/").mapM (fun e => do
      let c ← hexArg e
      if c.isEmpty then none else some c)
    let b : Builder := ⟨asn, ht, id, fourCaps ++ mps ++ raws, aps⟩
    let total := (b.caps.map List.length).sum + (if aps.isEmpty then 0 else 2 + 4 * aps.length)
    if cb != s!"capbytes={total}" then none
    some b
  | _ => none

def u8Arg (s : String) : Option UInt8 := do
  let n ← s.toNat?
  if n < 256 then some (UInt8.ofNat n) else none

def handle (ws : List String) : String :=
  match ws with
  -- an accepted OPEN's reply ends in the harness' iterator-protocol verdict (harness/src/common.rs
  -- iter_protocol on parameters() / capabilities() / multiprotocol_ids()); the model's iterators are `next`
  -- sequences whose default consumptions all observe `collect` (Rc/Lemmas/IterProto.lean): constant `ok`
  | ["open", h] => match hexArg h with
    | some b => let r := openReply b; if r.startsWith "ok " then r ++ " proto=ok" else r
    | none => "bad-op"
  | ["notif", h] => match hexArg h with | some b => notifReply b | none => "bad-op"
  | ["ka", h] =>
    match hexArg h with
    | some b => (match Notif.kaFromOctets b with | .ok _ => "ok" | .err => "err" | .panic => "panic")
    | none => "bad-op"
  | ["rr", h] =>
    match hexArg h with
    | some b =>
      (match Notif.rrFromOctets b with
       | .ok r => s!"ok afi={r.afi} safi={r.safi} sub={r.subtype}"
       | .err => "err" | .panic => "panic")
    | none => "bad-op"
  | ["msg", h] =>
    match hexArg h with
    | some b =>
      (match Notif.msgFromOctets b with
       | .ok (k, m) =>
         let kn := match k with | .open => "open" | .notification => "notification" | .keepalive => "keepalive" | .routeRefresh => "routerefresh"
         let l := showO toString (Open.length m)
         let t := showO (fun (v : UInt8) => toString v.toNat) (Notif.msgType m)
         s!"ok {kn} len={l} type={t}"
       | .err => "err" | .panic => "panic")
    | none => "bad-op"
  | "bopen" :: rest =>
    match parseBOpen rest with
    | some b => (match finish b with | .ok bs => s!"ok {hexOrDash bs}" | .err => "err" | .panic => "panic")
    | none => "bad-op"
  | "bopent" :: n :: rest =>
    -- `OpenBuilder::from_target` on a Vec that already holds n octets: the target is emptied
    -- first (`target.truncate(0)`, as KeepaliveBuilder does), so the result is that of `bopen`
    match n.toNat?, parseBOpen rest with
    | some k, some b =>
      if k ≤ 4096 ∧ toString k = n then
        (match finish b with | .ok bs => s!"ok {hexOrDash bs}" | .err => "err" | .panic => "panic")
      else "bad-op"
    | _, _ => "bad-op"
  | ["bnotif", c, s, d] =>
    match u8Arg c, u8Arg s with
    | some c, some s =>
      let data : Option (Option Bytes) := if d == "none" then some none else (hexArg d).map some
      (match data with
       | none => "bad-op"
       | some dd =>
         match Notif.build c s dd with
         | .ok bs => s!"ok {hexOrDash bs}" | .err => "err" | .panic => "panic")
    | _, _ => "bad-op"
  | ["bnotifn", c, s, n, f] =>
    match u8Arg c, u8Arg s, n.toNat?, u8Arg f with
    | some c, some s, some n, some f =>
      if n > 200000 then "bad-op" else
      (match Notif.build c s (some (List.replicate n f)) with
       | .ok bs =>
         let tailOk := bs.length == 21 + n && (bs.drop 21).all (· == f)
         s!"ok len={bs.length} head={hexOrDash (bs.take 21)} tail_ok={if tailOk then 1 else 0}"
       | .err => "err" | .panic => "panic")
    | _, _, _, _ => "bad-op"
  | ["bka"] => s!"ok {hexOrDash Notif.kaBuild}"
  | _ => "bad-op"

end Rc.Drv.C03
