import Rc.Model.PathSel
import Rc.Model.PathSelGlue
namespace Rc.Drv.C10
open Rc Rc.PathSel

/-! route syntax of the line protocol (see harness/src/props/c10.rs) -/

/-- strict decimal: digits only, 1..=39 of them, value at most `max` -/
def natOf (cs : List Char) (max : Nat) : Option Nat :=
  if cs.isEmpty || cs.length > 39 || !cs.all Char.isDigit then none
  else
    let v := cs.foldl (fun n c => n * 10 + (c.toNat - 48)) 0
    if v ≤ max then some v else none

/-- Rust's `str::split(c)`: always at least one piece -/
def splitCh (c : Char) (cs : List Char) : List (List Char) :=
  let rec go (cs : List Char) (cur : List Char) (acc : List (List Char)) : List (List Char) :=
    match cs with
    | [] => (cur.reverse :: acc).reverse
    | x :: xs => if x == c then go xs [] (cur.reverse :: acc) else go xs (x :: cur) acc
  go cs [] []

def u32max : Nat := 4294967295

def optU32 (cs : List Char) : Option (Option Nat) :=
  if cs == ['-'] then some none else (natOf cs u32max).map some

/-- an optional-attribute field: `-` absent, `!` the type code holds an Invalid attribute (`PaMap::get`
finds nothing, so the value is `none`; the flag goes into the route's never-read content), or a number -/
def slotU32 (cs : List Char) (max : Nat) : Option (Option Nat × Bool) :=
  if cs == ['!'] then some (none, true)
  else if cs == ['-'] then some (none, false)
  else (natOf cs max).map fun v => (some v, false)

def allSome {α : Type} : List (Option α) → Option (List α)
  | [] => some []
  | none :: _ => none
  | some a :: r => (allSome r).map (a :: ·)

def parseHop (cs : List Char) : Option Hop :=
  match cs with
  | [] => none
  | c :: rest =>
    if c.isDigit then (natOf cs u32max).map Hop.asn
    else
      -- lower case: the same segment with two-octet AS numbers (the width is not route content)
      let two := c == 's' || c == 'q' || c == 'c' || c == 'd'
      let c := c.toUpper
      let ty := if c == 'S' then 1 else if c == 'Q' then 2 else if c == 'C' then 3 else if c == 'D' then 4 else 0
      if ty == 0 then none
      else
        let asns := if rest.isEmpty then some [] else allSome ((splitCh '+' rest).map (natOf · u32max))
        match asns with
        | none => none
        | some as =>
          if as.length > 255 then none
          else if two && as.any (· > 65535) then none
          else some (Hop.seg ty as)

def parsePath (cs : List Char) : Option (Slot (List Hop)) :=
  if cs == ['-'] then some .absent
  else if cs == ['!'] then some .bogus
  else if cs == ['e'] then some (.val [])
  else
    match allSome ((splitCh '.' cs).map parseHop) with
    | none => none
    | some hs => if hs.length > 400 then none else some (.val hs)

def parseRoute (s : String) : Option Route :=
  match splitCh ',' s.toList with
  | [src, dop, lp, path, origin, med, lasn, oid, bgpid, cl, peer, extra] => do
    let ibgp ← if src == ['e'] then some false else if src == ['i'] then some true else none
    let dop ← optU32 dop
    let (lp, lpBogus) ← slotU32 lp u32max
    let path ← parsePath path
    -- `U<n>`: `Origin(OriginType::Unimplemented(n))` written out directly.  Its origin number (`u8::from`) is n, which
    -- is all `try_new` / `cmp` read (step b compares the numbers, fix F36); that it is another Rust value than
    -- `OriginType::from(n)` for n <= 2 is content the comparison never reads (kept in `extra`)
    let (origin, originRaw) := match origin with
      | 'U' :: rest => (rest, true)
      | o => (o, false)
    let origin ← if originRaw then (natOf origin 255).map Slot.val
                 else if origin == ['-'] then some Slot.absent else if origin == ['!'] then some Slot.bogus
                 else (natOf origin 255).map Slot.val
    let (med, medBogus) ← slotU32 med u32max
    let lasn ← natOf lasn u32max
    let (oid, oidBogus) ← slotU32 oid u32max
    let bgpid ← natOf bgpid u32max
    let (cl, clBogus) ← slotU32 cl 64
    let (v6, addr) ← match splitCh ':' peer with
      | [['4'], a] => (natOf a u32max).map (false, ·)
      | [['6'], a] => (natOf a (2 ^ 128 - 1)).map (true, ·)
      | _ => none
    let extra ← natOf extra u32max
    -- `Unimplemented(n)` for n > 2 is `OriginType::from(n)`: the same value
    let originRaw := originRaw && (match origin with | .val o => o ≤ 2 | _ => false)
    -- Invalid attributes under the optional type codes are content the comparison never reads
    let extra := extra + 4294967296 * (lpBogus.toNat + 2 * medBogus.toNat + 4 * oidBogus.toNat + 8 * clBogus.toNat + 16 * originRaw.toNat)
    pure { ibgp := ibgp, dop := dop, localPref := lp, path := path, origin := origin, med := med, localAsn := lasn,
           originatorId := oid, bgpId := bgpid, clusterLen := cl, peerV6 := v6, peerAddr := addr, extra := extra }
  | _ => none

def parseStrat (s : String) : Option Strat :=
  if s == "skipmed" then some .skipMed else if s == "rfc4271" then some .rfc4271 else none

/-- the line protocol says `ok` / `refused` only: the property does not speak about the reason -/
def showRefusal : Option Refusal → String
  | none => "ok"
  | some _ => "refused"

def showOrd : Ordering → String
  | .lt => "lt"
  | .eq => "eq"
  | .gt => "gt"

def showOut (x : Outcome String) : String :=
  match x with
  | .ok s => s
  | .err => "err"
  | .panic => "panic"

def cmpLine (s : Strat) (rs : List Route) : String :=
  if rs.any (fun r => (tryNew r).isSome) then
    "refused " ++ " ".intercalate (rs.map fun r => showRefusal (tryNew r))
  else
    match rs with
    | [a, b] => showOut do
        let ab ← cmp s a b
        let same ← eq s a b
        let ba ← cmp s b a
        let pc ← cmp s a b
        pure s!"{showOrd ab} {if same then "same" else "diff"} {showOrd ba} {showOrd pc}"
    | [a, b, c] => showOut do
        let ab ← cmp s a b
        let bc ← cmp s b c
        let ac ← cmp s a c
        pure s!"{showOrd ab} {showOrd bc} {showOrd ac}"
    | _ => "bad-op"

/-! ### candidates given as a received UPDATE (see harness/src/props/c10.rs, "u-tokens")

`u<sess>,<pdu hex>,<src>,<dop>,<lasn>,<bgpid>,<peer>`: the octets of an UPDATE, the session it was
received in (`<sess>`: empty = four-octet AS numbers, `2` = two-octet, `a` / `2a` = the same with
ADD-PATH, as C17's PDU tokens) and the tie-breaker record.  The route is what
`UpdateMessage::from_octets` → `PaMap::from_update_pdu` → `OrdRoute::try_new` make of it:
`PathSelGlue.routeOfPdu`. -/

inductive Cand where
  | abs (r : Route)
  | pdu (four ap : Bool) (p : Bytes) (tb : PathSelGlue.Tb)

def parseSess (cs : List Char) : Option (Bool × Bool) :=
  if cs == ['u'] then some (true, false)
  else if cs == ['u', '2'] then some (false, false)
  else if cs == ['u', 'a'] then some (true, true)
  else if cs == ['u', '2', 'a'] then some (false, true)
  else none

def parseCand (s : String) : Option Cand :=
  match splitCh ',' s.toList with
  | [sess, hex, src, dop, lasn, bgpid, peer] => do
    let (four, ap) ← parseSess sess
    let p ← bytesOfHex (String.ofList hex)
    let ibgp ← if src == ['e'] then some false else if src == ['i'] then some true else none
    let dop ← optU32 dop
    let lasn ← natOf lasn u32max
    let bgpid ← natOf bgpid u32max
    let (v6, addr) ← match splitCh ':' peer with
      | [['4'], a] => (natOf a u32max).map (false, ·)
      | [['6'], a] => (natOf a (2 ^ 128 - 1)).map (true, ·)
      | _ => none
    pure (.pdu four ap p { ibgp := ibgp, dop := dop, localAsn := lasn, bgpId := bgpid, peerV6 := v6, peerAddr := addr })
  | _ => (parseRoute s).map Cand.abs

/-- a candidate as the selection sees it: the outcome of `try_new` and, for a candidate given as a
PDU, the content of the route (attribute map + tie-breakers); `none` = the UPDATE was not accepted -/
structure Built where
  route : Outcome Route
  content : Option (PaMap.Map × PathSelGlue.Tb)

def buildCand : Cand → Option Built
  | .abs r => some ⟨if (tryNew r).isNone then .ok r else .err, none⟩
  | .pdu four ap p tb =>
    match PaMap.parseUpdate four ap p with
    | .ok u => some ⟨PathSelGlue.routeOfPaMap (PaMap.fromUpdate u) tb, some (PaMap.fromUpdate u, tb)⟩
    | .err => none
    | .panic => some ⟨.panic, none⟩

def candStatus : Option Built → String
  | none => "rej"
  | some ⟨.ok _, _⟩ => "ok"
  | some ⟨.err, _⟩ => "refused"
  | some ⟨.panic, _⟩ => "panic"

def okRoutes (bs : List (Option Built)) : List Route :=
  bs.filterMap fun b => match b with
    | some ⟨.ok r, _⟩ => some r
    | _ => none

def ucmpLine (s : Strat) (cs : List Cand) : String :=
  let bs := cs.map buildCand
  let st := bs.map candStatus
  if st.contains "panic" then "panic"
  else if st.contains "rej" then "rej " ++ " ".intercalate (st.map fun x => if x == "rej" then "1" else "0")
  else if st.contains "refused" then "refused " ++ " ".intercalate st
  else cmpLine s (okRoutes bs)

def handle (ws : List String) : String :=
  match ws with
  | ["try", s, r] =>
    match parseRoute r, parseStrat s with
    | some r, some _ => showRefusal (tryNew r)
    | _, _ => "bad-op"
  | ["wire-malformed", s, src] =>
    match parseRoute (src ++ ",-,-,!,!,-,65000,-,5,-,4:1,0"), parseStrat s with
    | some r, some _ => showRefusal (tryNew r)
    | _, _ => "bad-op"
  | ["cmp", s, a, b] =>
    match parseRoute a, parseRoute b, parseStrat s with
    | some a, some b, some s => cmpLine s [a, b]
    | _, _, _ => "bad-op"
  | ["tri", s, a, b, c] =>
    match parseRoute a, parseRoute b, parseRoute c, parseStrat s with
    | some a, some b, some c, some s => cmpLine s [a, b, c]
    | _, _, _, _ => "bad-op"
  | ["utry", s, a] =>
    match parseCand a, parseStrat s with
    | some a, some _ =>
      let st := candStatus (buildCand a)
      st
    | _, _ => "bad-op"
  | ["ucmp", s, a, b] =>
    match parseCand a, parseCand b, parseStrat s with
    | some a, some b, some s => ucmpLine s [a, b]
    | _, _, _ => "bad-op"
  | ["utri", s, a, b, c] =>
    match parseCand a, parseCand b, parseCand c, parseStrat s with
    | some a, some b, some c, some s => ucmpLine s [a, b, c]
    | _, _, _, _ => "bad-op"
  | ["hops", p] =>
    match parsePath p.toList with
    | some (.val hs) =>
      let n := match neighbor hs with
        | some a => toString a
        | none => "-"
      s!"{hopCount hs} {n}"
    | _ => "bad-op"
  | _ => "bad-op"

end Rc.Drv.C10
