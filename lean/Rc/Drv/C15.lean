import Rc.Model.Bmp
import Rc.Model.OpenParse
namespace Rc.Drv.C15
open Rc Rc.Bmp

def deps : Deps := { openParse := Rc.OpenParse.openParse, notifParse := Rc.OpenParse.notifParse }

def showO {α} (f : α → String) : Outcome α → String
  | .ok a => f a
  | .err => "err"
  | .panic => "panic"

def joinWith (sep : String) : List String → String
  | [] => ""
  | [x] => x
  | x :: r => x ++ sep ++ joinWith sep r

def showPph (p : Pph) : String :=
  let ts := match timestamp p with
    | some (s, us) => s!"{s}.{us}"
    | none => "min"
  s!"{p.peerType}:{p.flags}:{hexOrDash p.distinguisher}:{hexOrDash p.address}:{p.asn}:{hexOrDash p.bgpId}:{ts}"

def showStat : Stat → String
  | .u32 t v => s!"u32:{t}:{v}"
  | .u64 t v => s!"u64:{t}:{v}"
  | .afiSafi t a s v => s!"as:{t}:{a}:{s}:{v}"
  | .unimplemented t l => s!"un:{t}:{l}"

def showTlvs (l : List (Nat × Nat × Bytes)) : String :=
  "[" ++ joinWith ";" (l.map fun (t, n, v) => s!"{t}:{n}:{hexOrDash v}") ++ "]"

def showTerm : TermInfo → String
  | .customString raw => if raw.all (·.toNat < 128) then s!"s:{raw.length}" else "s:*"
  | .reason v => s!"r:{v}"
  | .undefinedTlv t => s!"r:{t}"

def head (bs : Bytes) : String :=
  let ch := match chVersion bs, chLength bs, chMsgType bs with
    | .ok v, .ok l, .ok t => s!"{v},{l},{t}"
    | _, _, _ => "panic"
  let dbg := showO (fun _ => "ok") (debugLen bs)
  s!"ch={ch} dbg={dbg}"

def observe (bs : Bytes) : String :=
  match fromOctets deps bs with
  | .err => "err"
  | .panic => "panic"
  | .ok k =>
    let h := head bs
    let p := showO showPph (pph bs)
    match k with
    | .routeMonitoring => s!"RM {h} pph={p}"
    | .statisticsReport =>
      let s := match statsCount bs, stats bs with
        | .ok n, .ok l => s!"{n}:[{joinWith ";" (l.map showStat)}]"
        | _, _ => "panic"
      s!"SR {h} pph={p} stats={s}"
    | .peerDown =>
      let r := showO toString (peerDownReason bs)
      let f := showO (fun o => match o with | some v => toString v | none => "none") (peerDownFsm bs)
      let n := showO (fun o => match o with | some b => hexOrDash b | none => "none") (peerDownNotification deps bs)
      s!"PD {h} pph={p} reason={r} fsm={f} notif={n}"
    | .peerUp =>
      match peerUp deps bs with
      | .ok u =>
        s!"PU {h} pph={p} local={hexOrDash u.localAddr}:{u.localPort}:{u.remotePort} sent={hexOrDash u.openSent} rcvd={hexOrDash u.openRcvd} pair=same tlvs={showTlvs u.tlvs} cfg=ok"
      | _ => s!"PU {h} pph={p} panic"
    | .initiation => s!"IN {h} tlvs={showO showTlvs (initiationTlvs bs)}"
    | .termination =>
      s!"TM {h} info={showO (fun l => "[" ++ joinWith ";" (l.map showTerm) ++ "]") (terminationInfo bs)}"
    | .routeMirroring => s!"MI {h} pph={p}"

def handle (ws : List String) : String :=
  match ws with
  | ["bmp", h] =>
    match bytesOfHex h with
    | some bs => observe bs
    | none => "bad-op"
  | _ => "bad-op"

end Rc.Drv.C15
