import Rc.Model.Bmp
import Rc.Model.BmpEmbedded
import Rc.Model.OpenParse
import Rc.Drv.C01
namespace Rc.Drv.C15
open Rc Rc.Bmp

def deps : Deps := { openParse := Rc.OpenParse.openParse, notifParse := Rc.OpenParse.notifParse }

def showO {α} (f : α → String) : Outcome α → String
  | .ok a => f a
  | .err => "err"
  | .panic => "panic"

def joinWith (sep : String) : List String → String
  | [] => ""
  | [x] => x
  | x :: r => x ++ sep ++ joinWith sep r

def showPph (p : Pph) : String :=
  let ts := match timestamp p with
    | some (s, us) => s!"{s}.{us}"
    | none => "min"
  s!"{p.peerType}:{p.flags}:{hexOrDash p.distinguisher}:{hexOrDash p.address}:{p.asn}:{hexOrDash p.bgpId}:{ts}"

def showStat : Stat → String
  | .u32 t v => s!"u32:{t}:{v}"
  | .u64 t v => s!"u64:{t}:{v}"
  | .afiSafi t a s v => s!"as:{t}:{a}:{s}:{v}"
  | .unimplemented t l => s!"un:{t}:{l}"

def showTlvs (l : List (Nat × Nat × Bytes)) : String :=
  "[" ++ joinWith ";" (l.map fun (t, n, v) => s!"{t}:{n}:{hexOrDash v}") ++ "]"

def showTerm : TermInfo → String
  | .customString raw => if raw.all (·.toNat < 128) then s!"s:{hexOrDash raw}" else "s:*"
  | .reason v => s!"r:{v}"
  | .undefinedTlv t => s!"r:{t}"

def head (bs : Bytes) : String :=
  let ch := match chVersion bs, chLength bs, chMsgType bs with
    | .ok v, .ok l, .ok t => s!"{v},{l},{t}"
    | _, _, _ => "panic"
  let dbg := showO (fun _ => "ok") (debugLen bs)
  s!"ch={ch} dbg={dbg}"

def b01 (b : Bool) : String := if b then "1" else "0"

/-- one embedded OPEN of a PeerUp as the configuration accessors see it -/
def showOpenCfg (c : OpenCfg) : String :=
  let ap := match c.addpath with | some l => toString l.length | none => "E"
  s!"{c.asn}.{b01 c.four}.{ap}.{c.mp.length}"

/-- the embedded UPDATE of a RouteMonitoring message: the C01/C02 observation of
`parseUpdate cfg` on the bytes after the per-peer header -/
def showRmUpdate (cfg : Upd.Cfg) (bs : Bytes) : String :=
  match rmUpdate cfg bs with
  | .ok m => "ok " ++ Rc.Drv.C01.observe m
  | .err => "err"
  | .panic => "panic"

def observeFull0 (cfg : Upd.Cfg) (bs : Bytes) : String :=
  match fromOctets deps bs with
  | .err => "err"
  | .panic => "panic"
  | .ok k =>
    let h := head bs
    let p := showO showPph (pph bs)
    match k with
    | .routeMonitoring =>
      -- `same=1`: theorem `route_monitoring_update_same` (the embedded UPDATE decodes as on its own)
      s!"RM {h} pph={p} same=1 upd={showRmUpdate cfg bs}"
    | .statisticsReport =>
      let s := match statsCount bs, stats bs with
        | .ok n, .ok l => s!"{n}:[{joinWith ";" (l.map showStat)}]"
        | _, _ => "panic"
      s!"SR {h} pph={p} stats={s}"
    | .peerDown =>
      let r := showO toString (peerDownReason bs)
      let f := showO (fun o => match o with | some v => toString v | none => "none") (peerDownFsm bs)
      let n := showO (fun o => match o with | some b => hexOrDash b | none => "none") (peerDownNotification deps bs)
      s!"PD {h} pph={p} reason={r} fsm={f} notif={n}"
    | .peerUp =>
      match peerUp deps bs with
      | .ok u =>
        let c := match peerUpConfig deps bs with
          | .ok (a, b) => s!"ok:{showOpenCfg a}/{showOpenCfg b}"
          | .err => "err"
          | .panic => "panic"
        s!"PU {h} pph={p} local={hexOrDash u.localAddr}:{u.localPort}:{u.remotePort} sent={hexOrDash u.openSent} rcvd={hexOrDash u.openRcvd} pair=same tlvs={showTlvs u.tlvs} cfg={c}"
      | _ => s!"PU {h} pph={p} panic"
    | .initiation => s!"IN {h} tlvs={showO showTlvs (initiationTlvs bs)}"
    | .termination =>
      s!"TM {h} info={showO (fun l => "[" ++ joinWith ";" (l.map showTerm) ++ "]") (terminationInfo bs)}"
    | .routeMirroring => s!"MI {h} pph={p}"

/-- the embedded PDU of a PeerUp (either OPEN) / PeerDown (reason 1 or 3) carries another BGP type
octet than OPEN (1) / NOTIFICATION (3) – same positional rule as the harness (`embedded_type_wrong`) -/
def embeddedTypeWrong (bs : Bytes) : Bool :=
  if bs.length < 6 then false else
  let byteAt := fun (i : Nat) => (bs.getD i 0).toNat
  if byteAt 5 = 3 then
    if bs.length < 68 + 19 then false
    else if byteAt (68 + 18) ≠ 1 then true
    else
      let l1 := byteAt (68 + 16) * 256 + byteAt (68 + 17)
      decide (bs.length ≥ 68 + l1 + 19) && byteAt (68 + l1 + 18) ≠ 1
  else if byteAt 5 = 2 then
    decide (bs.length ≥ 49 + 19) && (byteAt 48 = 1 || byteAt 48 = 3) && byteAt (49 + 18) ≠ 3
  else false

def containsSub (s sub : String) : Bool := (s.splitOn sub).length > 1

/-- the observation, followed by the harness' iterator-protocol verdict of the message's own iterators
(stats(), information_tlvs(), information(), parameters() / capabilities() / multiprotocol_ids() of the
embedded OPENs: harness/src/common.rs `iter_protocol`) unless an accessor group panicked.  The model's
iterators are `next` sequences, every default consumption of which observes `collect`
(Rc/Lemmas/IterProto.lean): the model's answer is the constant `proto=ok`. -/
def observeFull (cfg : Upd.Cfg) (bs : Bytes) : String :=
  let r := observeFull0 cfg bs
  if r == "err" || r == "panic" || containsSub r "=panic" || r.endsWith " panic" then r else r ++ " proto=ok"

/-- `unspec`: on a message whose embedded PDU has the wrong BGP type (not well-formed; the property
does not say whether it is accepted) only the class is printed – unless something panicked -/
def observe (cfg : Upd.Cfg) (bs : Bytes) : String :=
  let r := observeFull cfg bs
  if embeddedTypeWrong bs && r != "panic" && !containsSub r "=panic" && !r.endsWith " panic" then "unspec" else r

def showFramed : FrameCheck → String
  | .complete l => s!"ok:{l}"
  | .incomplete => "incomplete"
  | .illegalSize => "illegal"

def handle (ws : List String) : String :=
  match ws with
  | ["bmpchk", h] =>
    match bytesOfHex h with
    | some bs => showO showFramed (msgCheck bs)
    | none => "bad-op"
  | ["bmp", h] | ["bmpwf", h] =>
    match bytesOfHex h with
    | some bs => observe ⟨true, []⟩ bs
    | none => "bad-op"
  | ["bmp", h, c] | ["bmpwf", h, c] =>
    match bytesOfHex h, Rc.Drv.C01.parseCfg c with
    | some bs, some cfg => observe cfg bs
    | _, _ => "bad-op"
  | _ => "bad-op"

end Rc.Drv.C15
