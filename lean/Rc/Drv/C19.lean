import Rc.Model.Community
namespace Rc.Drv.C19
open Rc Rc.Community

/-- request texts are the hex of their UTF-8 bytes (`-` = empty); invalid UTF-8 is `bad-op` -/
def textOfHex (h : String) : Option Text :=
  match bytesOfHex h with
  | none => none
  | some bs =>
    match String.fromUTF8? (ByteArray.mk bs.toArray) with
    | some s => some s.toList
    | none => none

def hexOfText (t : Text) : String := hexOrDash (String.ofList t).toUTF8.data.toList

def optNat : Option Nat → String
  | some n => toString n
  | none => "none"

def b01 (x : Bool) : String := if x then "1" else "0"

def showOutBytes : Outcome Bytes → String
  | .ok r => "ok:" ++ hexOrDash r
  | .err => "err"
  | .panic => "panic"

def showOutComm : Outcome Comm → String
  | .ok (.standard r) => "S:" ++ hexOrDash r
  | .ok (.extended r) => "E:" ++ hexOrDash r
  | .ok (.large r) => "L:" ++ hexOrDash r
  | .ok (.ipv6Extended r) => "V:" ++ hexOrDash r
  | .err => "err"
  | .panic => "panic"

def showWk : Wk → String
  | .named i => match wkRows[i]? with
    | some r => String.ofList r.var
    | none => "?"
  | .unrecognized n => s!"Unrecognized({n})"

def showExtType : ExtType → String
  | .transitiveTwoOctetSpecific => "TransitiveTwoOctetSpecific"
  | .transitiveIp4Specific => "TransitiveIp4Specific"
  | .transitiveFourOctetSpecific => "TransitiveFourOctetSpecific"
  | .transitiveOpaque => "TransitiveOpaque"
  | .nonTransitiveTwoOctetSpecific => "NonTransitiveTwoOctetSpecific"
  | .nonTransitiveIp4Specific => "NonTransitiveIp4Specific"
  | .nonTransitiveFourOctetSpecific => "NonTransitiveFourOctetSpecific"
  | .nonTransitiveOpaque => "NonTransitiveOpaque"
  | .otherType t => s!"OtherType({t})"

def showExtSub : ExtSub → String
  | .routeTarget => "RouteTarget"
  | .routeOrigin => "RouteOrigin"
  | .otherSubType s => s!"OtherSubType({s})"

/-- text, flavour parser on the text, enum parser on the text -/
def textTriple (d : Outcome Text) (p : Text → Outcome Bytes) : String :=
  match d with
  | .ok t => s!"text={hexOfText t} back={showOutBytes (p t)} eback={showOutComm (parseAny t)}"
  | .err => "text=err back=- eback=-"
  | .panic => "text=panic back=- eback=-"

def withRaw (h : String) (len : Nat) (f : Bytes → String) : String :=
  match bytesOfHex h with
  | some raw => if raw.length = len then f raw else "bad-op"
  | none => "bad-op"

def withText (h : String) (f : Text → String) : String :=
  match textOfHex h with
  | some t => f t
  | none => "bad-op"

def handle (ws : List String) : String :=
  match ws with
  | ["std", h] => withRaw h 4 fun raw =>
      let towk := match toWellknown raw with
        | some wk => showWk wk
        | none => "none"
      s!"u32={stdU32 raw} wk={b01 (isWellknown raw)} res={b01 (isReserved raw)} priv={b01 (isPrivate raw)} asn={optNat (stdAsn raw)} tag={optNat (stdTag raw)} towk={towk} {textTriple (displayStd raw) parseStd}"
  | ["ext", h] => withRaw h 8 fun raw =>
      let (t, s) := extTypes raw
      let ip := match extIp4 raw with
        | some ip => hexOrDash ip
        | none => "none"
      s!"type={showExtType t} sub={showExtSub s} trans={b01 (extIsTransitive raw)} as2={optNat (extAs2 raw)} as4={optNat (extAs4 raw)} ip4={ip} an2={optNat (extAn2 raw)} an4={optNat (extAn4 raw)} {textTriple (displayExt raw) parseExt}"
  | ["lrg", h] => withRaw h 12 fun raw =>
      s!"g={lrgGlobal raw} l1={lrgLocal1 raw} l2={lrgLocal2 raw} {textTriple (.ok (displayLarge raw)) parseLarge}"
  | ["v6", h] => withRaw h 20 fun raw =>
      let tt := match displayV6 raw with
        | some t => textTriple (.ok t) parseV6
        | none => "text=rt6 back=- eback=-"
      s!"trans={b01 (v6IsTransitive raw)} an2={v6An2 raw} {tt}"
  | ["raw", h] =>
    match bytesOfHex h with
    | some raw =>
      match Comm.ofRaw raw with
      | some c => showOutComm (.ok c) ++ " " ++ hexOrDash c.raw
      | none => "bad-op"
    | none => "bad-op"
  | ["wk", n] =>
    match n.toNat? with
    | some n =>
      if n < 65536 then
        let w := Wk.fromU16 n
        s!"{showWk w} u32={w.toU32} text={hexOfText w.display}"
      else "bad-op"
    | none => "bad-op"
  | ["pwk", h] => withText h fun t =>
      match Wk.parse t with
      | some w => s!"ok {showWk w} {w.toU32}"
      | none => "err"
  | ["pstd", h] => withText h fun t => showOutBytes (parseStd t)
  | ["pext", h] => withText h fun t => showOutBytes (parseExt t)
  | ["plrg", h] => withText h fun t => showOutBytes (parseLarge t)
  | ["pv6", h] => withText h fun t => showOutBytes (parseV6 t)
  | ["pany", h] => withText h fun t => showOutComm (parseAny t)
  | ["pip4", h] => withText h fun t =>
      match parseIp4 t with
      | some ip => "ok:" ++ hexOrDash ip
      | none => "err"
  | ["pnum", kind, h] => withText h fun t =>
      let r := match kind with
        | "d16" => some (parseDecU16 t)
        | "d32" => some (parseDecU32 t)
        | "x32" => some (parseHexU32 t)
        | "x64" => some (parseHexU64 t)
        | _ => none
      match r with
      | some (some v) => s!"ok {v}"
      | some none => "err"
      | none => "bad-op"
  -- all scalar values: which non-ASCII ones lower-case to pure ASCII (assumption of `lowerChar`)
  | ["lowercheck"] => "212a"
  -- internal sweep of the implementation's own to_string -> from_str over [lo, hi):
  -- the model's answer is what theorems std_text / enum_text_std / partition / asn_tag_decompose say
  | ["sweep", lo, hi] =>
    match lo.toNat?, hi.toNat? with
    | some lo, some hi => if lo ≤ hi ∧ hi ≤ 4294967296 then s!"n={hi - lo} fail=0 first=none" else "bad-op"
    | _, _ => "bad-op"
  | _ => "bad-op"

end Rc.Drv.C19
