import Rc.Model.Reenc
import Rc.Model.Update
/-! C07 line protocol (model side).

requests
  re <attrs>                    the attribute section of an UPDATE without NLRI; the PDU is
                                 `mkPdu [] attrs []` (at most 65535 octets, else bad-op)
  re2 <attrs> / re2w <attrs>    the same in a two-octet session; `re2w`: the section holds an attribute
                                 whose encoding depends on the AS number width (`hasWidthDependent`),
                                 `re2`: it holds none (otherwise bad-op)
  nl <fam> <wd> <ann> <attrs>   an UPDATE carrying the NLRI octets `wd` / `ann` of one family:
                                 fam = c4 (IPv4 unicast in the conventional sections) or one of the 13
                                 families v4u v4m v4mpls v4vpn v4rt v4fs v6u v6m v6mpls v6vpn v6fs vpls
                                 evpn (MP_UNREACH_NLRI / MP_REACH_NLRI, next hop octets 0x01), with the
                                 suffix `a` in a session that has ADD-PATH for the family (path ids in
                                 the NLRI, builder of the ADD-PATH NLRI type); `attrs` must not hold
                                 attributes 14 / 15
  nl2 <fam> <wd> <ann> <attrs>  the same in a two-octet session (`SessionConfig::legacy()`); `attrs` must
                                 hold no attribute whose encoding depends on the AS number width
  nlx <fam> <wd> <attrs> <ann>  the three sections of an UPDATE as given (MP attributes of any family allowed),
                                 re-added by a builder of `fam` (not c4) in a four-octet session
  nlt <fam> <wd> <ann> <attrs>  as `nl`, the message re-added TWICE by one builder (`readdTwicePdu`: the second
                                 round extends the MP builders the first one created)
  (nl / nl2 / nlx / nlt: a source PDU of more than 65535 octets is bad-op)
replies
  re:  rej | panic | ok D<hex>#<sum compose_len> M<hex>#<bytes_len> B<pdu hex>
       (Derr / Merr / Berr for a route that returns an error)
  nl:  rej | panic | err | ok w=<hex> a=<hex> o=<hex> r=<hex> u=<hex> d=<len>.<fnv32>.<sum32>
       (NLRI octets inside MP_UNREACH / MP_REACH of the built PDU, its other attributes, what `finish` wrote in
       front of the NLRI of MP_REACH_NLRI / MP_UNREACH_NLRI - header, AFI/SAFI, next hop, reserved octet - and
       a digest of the whole PDU)
-/
namespace Rc.Drv.C07
open Rc Rc.Attr Rc.Reenc

def strictHex (s : String) : Option Bytes :=
  if s == "-" then some []
  else if s.toList.all (fun c => ('0' ≤ c ∧ c ≤ '9') ∨ ('a' ≤ c ∧ c ≤ 'f')) then bytesOfHexAux s.toList []
  else none

def showRoute (tag : String) (bs : Outcome Bytes) (n : Outcome Nat) : Option String :=
  match bs, n with
  | .panic, _ => none
  | _, .panic => none
  | .ok b, .ok k => some s!"{tag}{hexOrDash b}#{k}"
  | _, _ => some s!"{tag}err"

/-- `two = none`: four-octet session; `some w`: two-octet session and the line claims (`w`) a
width-dependent attribute -/
def handleRe (two : Option Bool) (attrs : Bytes) : String :=
  let four := two.isNone
  let pdu := mkPdu [] attrs []
  -- `UpdateMessage::from_octets` has no 4096-octet rule: accepted up to what the length field can say
  if pdu.length > 65535 then "bad-op" else
  if (match two with | some w => hasWidthDependent attrs.length attrs != w | none => false) then "bad-op" else
  -- `UpdateMessage::from_octets`: the attributes are validated with `PduParseInfo::default()`
  -- whatever the session (update.rs:945), so acceptance does not depend on the width
  match parsePdu pdu with
  | .err => "rej"
  | .panic => "panic"
  | .ok _ =>
    let d : Option String :=
      match ownedListW four attrs with
      | .ok ds => showRoute "D" (encList ds) (lenList ds)
      | .err => some "Derr"
      | .panic => none
    let m : Option String :=
      match mapOfW four attrs with
      | .ok mp => showRoute "M" (encList mp) (lenList mp)
      | .err => some "Merr"
      | .panic => none
    let b : Option String :=
      match viaBuilderW four attrs with
      | .ok p => some s!"B{hexOfBytes p}"
      | .err => some "Berr"
      | .panic => none
    match d, m, b with
    | some d, some m, some b => s!"ok {d} {m} {b}"
    | _, _, _ => "panic"

structure FamInfo where
  fam : Rc.Nlri.Fam
  conv : Bool
  ap : Bool
  afi : Nat
  safi : Nat
  /-- octets of the family's default next hop (`NextHop::new`, nexthop.rs:25) -/
  nh : Nat

def baseOf (s : String) : Option (Rc.Nlri.Fam × Nat) :=
  if s = "v4u" then some (.v4u, 4) else if s = "v4m" then some (.v4m, 4)
  else if s = "v4mpls" then some (.v4mpls, 4) else if s = "v4vpn" then some (.v4vpn, 12)
  else if s = "v4rt" then some (.v4rt, 4) else if s = "v4fs" then some (.v4fs, 0)
  else if s = "v6u" then some (.v6u, 16) else if s = "v6m" then some (.v6m, 16)
  else if s = "v6mpls" then some (.v6mpls, 16) else if s = "v6vpn" then some (.v6vpn, 24)
  else if s = "v6fs" then some (.v6fs, 0)
  else if s = "vpls" then some (.vpls, 4) else if s = "evpn" then some (.evpn, 4)
  else none

def famOf (s : String) : Option FamInfo :=
  let mk (f : Rc.Nlri.Fam) (nh : Nat) (conv ap : Bool) : FamInfo :=
    ⟨f, conv, ap, (Rc.Upd.famCode f).1, (Rc.Upd.famCode f).2, nh⟩
  if s = "c4" then some (mk .v4u 4 true false)
  else if s = "c4a" then some (mk .v4u 4 true true)
  else
    match baseOf s with
    | some (f, nh) => some (mk f nh false false)
    | none =>
      match s.toList.reverse with
      | 'a' :: r =>
        match baseOf (String.ofList r.reverse) with
        | some (f, nh) => some (mk f nh false true)
        | none => none
      | _ => none

/-- an MP attribute as the harness frames it: optional non-transitive, extended
length above 255 octets -/
def mpAttr (code : Nat) (v : Bytes) : Bytes :=
  if v.length > 255 then [0x90, UInt8.ofNat code] ++ be16 v.length ++ v
  else [0x80, UInt8.ofNat code, UInt8.ofNat v.length] ++ v

/-- does a TLV walk (stopping at the first framing error) meet code 14 or 15? -/
def hasMp : Nat → Bytes → Bool
  | 0, _ => false
  | f + 1, bs =>
    match splitAttr bs with
    | none => false
    | some (_, tc, _, r) => tc.toNat == 14 || tc.toNat == 15 || hasMp f r

/-- the PDU of an `nl` / `nl2` request, as the harness builds it -/
def nlPdu (fi : FamInfo) (wd ann attrs : Bytes) : Bytes :=
  if fi.conv then mkPdu wd attrs ann
  else
    mkPdu []
      ((if ann.isEmpty then [] else
        mpAttr 14 (be16 fi.afi ++ [UInt8.ofNat fi.safi, UInt8.ofNat fi.nh] ++ List.replicate fi.nh 1 ++ [0] ++ ann)) ++
      (if wd.isEmpty then [] else mpAttr 15 (be16 fi.afi ++ [UInt8.ofNat fi.safi] ++ wd)) ++ attrs) []

/-- the harness's `cut_built`: NLRI octets of MP_UNREACH_NLRI / MP_REACH_NLRI and the other
attributes (re-framed as they were) of a built PDU; `none` = not of that shape -/
def cutAttrs : Nat → Bytes → Option (Bytes × Bytes × Bytes × Bytes × Bytes)
  | 0, bs => if bs.isEmpty then some ([], [], [], [], []) else none
  | g + 1, bs =>
    if bs.isEmpty then some ([], [], [], [], []) else
    match splitAttr bs with
    | none => none
    | some (fl, tc, v, r) =>
      -- the attribute header as it was framed
      let head : Bytes := if extBit fl then fl :: tc :: be16 v.length else [fl, tc, UInt8.ofNat v.length]
      match cutAttrs g r with
      | none => none
      | some (w, a, o, mr, mu) =>
        if tc.toNat = 14 then
          match v with
          | _ :: _ :: _ :: nh :: rest =>
            if rest.length < nh.toNat + 1 then none
            else some (w, rest.drop (nh.toNat + 1) ++ a, o, head ++ v.take (5 + nh.toNat) ++ mr, mu)
          | _ => none
        else if tc.toNat = 15 then
          if v.length < 3 then none else some (v.drop 3 ++ w, a, o, mr, head ++ v.take 3 ++ mu)
        else
          some (w, a, head ++ v ++ o, mr, mu)

def fnv32 (bs : Bytes) : UInt32 := bs.foldl (fun h b => (h ^^^ b.toUInt32) * 16777619) 2166136261
def sum32 (bs : Bytes) : UInt32 := bs.foldl (fun s b => s + b.toUInt32) 0
/-- length, FNV-1a and octet sum of the whole PDU (the harness prints the same of the real octets) -/
def digest (bs : Bytes) : String := s!"{bs.length}.{(fnv32 bs).toNat}.{(sum32 bs).toNat}"

def cutBuilt (pdu : Bytes) : Option (Bytes × Bytes × Bytes × Bytes × Bytes) :=
  match pdu.drop 19 with
  | 0 :: 0 :: x :: y :: attrs =>
    if pdu.length ≠ 23 + (x.toNat * 256 + y.toNat) then none else cutAttrs attrs.length attrs
  | _ => none

/-- `four = false`: the two-octet session of the `nl2` lines (`SessionConfig::legacy()`), whose
attributes must not depend on the AS number width (K9 is judged on the `re2w` lines) -/
def handleReadd (four twice : Bool) (fi : FamInfo) (pdu : Bytes) : String :=
  -- `UpdateMessage::from_octets` has no 4096-octet rule: accepted up to what the length field can say
  if pdu.length > 65535 then "bad-op" else
  -- `SessionConfig::modern()` / `legacy()`, plus `add_addpath_rxtx(family)` for the `a` families
  let cfg : Rc.Upd.Cfg := ⟨four, if fi.ap then [((fi.afi, fi.safi), .both)] else []⟩
  match Rc.Upd.parseUpdate cfg pdu with
  | .err => "rej"
  | .panic => "panic"
  | .ok m =>
    -- the builder is of the NLRI type of the family, with path ids in an ADD-PATH session
    -- `nlt`: `add_announcements_from_pdu` + `add_withdrawals_from_pdu` a second time on the same builder
    match (if twice then readdTwicePdu cfg m fi.fam fi.ap else readdPdu cfg m fi.fam fi.ap) with
    | .panic => "panic"
    | .err => "err"
    | .ok out =>
      match cutBuilt out with
      | some (w, a, o, mr, mu) =>
        s!"ok w={hexOrDash w} a={hexOrDash a} o={hexOrDash o} r={hexOrDash mr} u={hexOrDash mu} d={digest out}"
      | none => s!"ok undecodable {hexOfBytes out}"

def handleNl (four twice : Bool) (fi : FamInfo) (wd ann attrs : Bytes) : String :=
  if hasMp attrs.length attrs then "bad-op" else
  if !four && hasWidthDependent attrs.length attrs then "bad-op" else
  handleReadd four twice fi (nlPdu fi wd ann attrs)

def handle (ws : List String) : String :=
  match ws with
  | ["re", a] =>
    match strictHex a with
    | some attrs => handleRe none attrs
    | none => "bad-op"
  | ["re2", a] =>
    match strictHex a with
    | some attrs => handleRe (some false) attrs
    | none => "bad-op"
  | ["re2w", a] =>
    match strictHex a with
    | some attrs => handleRe (some true) attrs
    | none => "bad-op"
  | ["nl", f, w, a, t] =>
    match famOf f, strictHex w, strictHex a, strictHex t with
    | some fi, some wd, some ann, some attrs => handleNl true false fi wd ann attrs
    | _, _, _, _ => "bad-op"
  | ["nlt", f, w, a, t] =>
    match famOf f, strictHex w, strictHex a, strictHex t with
    | some fi, some wd, some ann, some attrs => handleNl true true fi wd ann attrs
    | _, _, _, _ => "bad-op"
  | ["nlx", f, w, t, a] =>
    match famOf f, strictHex w, strictHex t, strictHex a with
    | some fi, some wd, some attrs, some ann => if fi.conv then "bad-op" else handleReadd true false fi (mkPdu wd attrs ann)
    | _, _, _, _ => "bad-op"
  | ["nl2", f, w, a, t] =>
    match famOf f, strictHex w, strictHex a, strictHex t with
    | some fi, some wd, some ann, some attrs => handleNl false false fi wd ann attrs
    | _, _, _, _ => "bad-op"
  | _ => "bad-op"

end Rc.Drv.C07
