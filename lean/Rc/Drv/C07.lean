import Rc.Model.Reenc
import Rc.Model.Update
/-! C07 line protocol (model side).

requests
  re <attrs>                    the attribute section of an UPDATE without NLRI; the PDU is
                                 `mkPdu [] attrs []` (at most 65535 octets, else bad-op)
  re2 <attrs> / re2w <attrs>    the same in a two-octet session; `re2w`: the section holds an attribute
                                 whose encoding depends on the AS number width (`hasWidthDependent`),
                                 `re2`: it holds none (otherwise bad-op)
  nl <fam> <wd> <ann> <attrs>   an UPDATE carrying the NLRI octets `wd` / `ann` of one family:
                                 fam = c4 (IPv4 unicast in the conventional sections) or one of the 13
                                 families v4u v4m v4mpls v4vpn v4rt v4fs v6u v6m v6mpls v6vpn v6fs vpls
                                 evpn (MP_UNREACH_NLRI / MP_REACH_NLRI, next hop octets 0x01), with the
                                 suffix `a` in a session that has ADD-PATH for the family (path ids in
                                 the NLRI, builder of the ADD-PATH NLRI type); `attrs` must not hold
                                 attributes 14 / 15
replies
  re:  rej | panic | ok D<hex>#<sum compose_len> M<hex>#<bytes_len> B<pdu hex>
       (Derr / Merr / Berr for a route that returns an error)
  nl:  rej | panic | err | ok w=<hex> a=<hex> o=<hex>   (NLRI octets inside MP_UNREACH / MP_REACH of
       the built PDU, and its other attributes)
-/
namespace Rc.Drv.C07
open Rc Rc.Attr Rc.Reenc

def strictHex (s : String) : Option Bytes :=
  if s == "-" then some []
  else if s.toList.all (fun c => ('0' ≤ c ∧ c ≤ '9') ∨ ('a' ≤ c ∧ c ≤ 'f')) then bytesOfHexAux s.toList []
  else none

def showRoute (tag : String) (bs : Outcome Bytes) (n : Outcome Nat) : Option String :=
  match bs, n with
  | .panic, _ => none
  | _, .panic => none
  | .ok b, .ok k => some s!"{tag}{hexOrDash b}#{k}"
  | _, _ => some s!"{tag}err"

/-- `two = none`: four-octet session; `some w`: two-octet session and the line claims (`w`) a
width-dependent attribute -/
def handleRe (two : Option Bool) (attrs : Bytes) : String :=
  let four := two.isNone
  let pdu := mkPdu [] attrs []
  -- `UpdateMessage::from_octets` has no 4096-octet rule: accepted up to what the length field can say
  if pdu.length > 65535 then "bad-op" else
  if (match two with | some w => hasWidthDependent attrs.length attrs != w | none => false) then "bad-op" else
  -- `UpdateMessage::from_octets`: the attributes are validated with `PduParseInfo::default()`
  -- whatever the session (update.rs:945), so acceptance does not depend on the width
  match parsePdu pdu with
  | .err => "rej"
  | .panic => "panic"
  | .ok _ =>
    let d : Option String :=
      match ownedListW four attrs with
      | .ok ds => showRoute "D" (encList ds) (lenList ds)
      | .err => some "Derr"
      | .panic => none
    let m : Option String :=
      match mapOfW four attrs with
      | .ok mp => showRoute "M" (encList mp) (lenList mp)
      | .err => some "Merr"
      | .panic => none
    let b : Option String :=
      match viaBuilderW four attrs with
      | .ok p => some s!"B{hexOfBytes p}"
      | .err => some "Berr"
      | .panic => none
    match d, m, b with
    | some d, some m, some b => s!"ok {d} {m} {b}"
    | _, _, _ => "panic"

structure FamInfo where
  fam : Rc.Nlri.Fam
  conv : Bool
  ap : Bool
  afi : Nat
  safi : Nat
  /-- octets of the family's default next hop (`NextHop::new`, nexthop.rs:25) -/
  nh : Nat

def baseOf (s : String) : Option (Rc.Nlri.Fam × Nat) :=
  if s = "v4u" then some (.v4u, 4) else if s = "v4m" then some (.v4m, 4)
  else if s = "v4mpls" then some (.v4mpls, 4) else if s = "v4vpn" then some (.v4vpn, 12)
  else if s = "v4rt" then some (.v4rt, 4) else if s = "v4fs" then some (.v4fs, 0)
  else if s = "v6u" then some (.v6u, 16) else if s = "v6m" then some (.v6m, 16)
  else if s = "v6mpls" then some (.v6mpls, 16) else if s = "v6vpn" then some (.v6vpn, 24)
  else if s = "v6fs" then some (.v6fs, 0)
  else if s = "vpls" then some (.vpls, 4) else if s = "evpn" then some (.evpn, 4)
  else none

def famOf (s : String) : Option FamInfo :=
  let mk (f : Rc.Nlri.Fam) (nh : Nat) (conv ap : Bool) : FamInfo :=
    ⟨f, conv, ap, (Rc.Upd.famCode f).1, (Rc.Upd.famCode f).2, nh⟩
  if s = "c4" then some (mk .v4u 4 true false)
  else if s = "c4a" then some (mk .v4u 4 true true)
  else
    match baseOf s with
    | some (f, nh) => some (mk f nh false false)
    | none =>
      match s.toList.reverse with
      | 'a' :: r =>
        match baseOf (String.ofList r.reverse) with
        | some (f, nh) => some (mk f nh false true)
        | none => none
      | _ => none

/-- an MP attribute as the harness frames it: optional non-transitive, extended
length above 255 octets -/
def mpAttr (code : Nat) (v : Bytes) : Bytes :=
  if v.length > 255 then [0x90, UInt8.ofNat code] ++ be16 v.length ++ v
  else [0x80, UInt8.ofNat code, UInt8.ofNat v.length] ++ v

/-- does a TLV walk (stopping at the first framing error) meet code 14 or 15? -/
def hasMp : Nat → Bytes → Bool
  | 0, _ => false
  | f + 1, bs =>
    match splitAttr bs with
    | none => false
    | some (_, tc, _, r) => tc.toNat == 14 || tc.toNat == 15 || hasMp f r

/-- re-added NLRI of one section: composed octets and summed `compose_len` -/
def nlSideC {α} (c : Rc.Nlri.Codec α) (bs : Bytes) : Outcome (Bytes × Nat) :=
  match readd c bs with
  | .ok ns =>
    match Rc.Nlri.encAll c ns with
    | .ok e => .ok (e, clenSum c ns)
    | .err => .err
    | .panic => .panic
  | .err => .err
  | .panic => .panic

/-- the builder's NLRI type decides whether path ids are read (`typed_announcements::<_, A>`,
update.rs:437, does not consult the session) -/
def nlSide (f : Rc.Nlri.Fam) (ap : Bool) (bs : Bytes) : Outcome (Bytes × Nat) :=
  if ap then nlSideC (Rc.Nlri.codecAp f) bs else nlSideC (Rc.Nlri.codec f) bs

def handleNl (fi : FamInfo) (wd ann attrs : Bytes) : String :=
  if hasMp attrs.length attrs then "bad-op" else
  let sec : Bytes :=
    if fi.conv then attrs
    else
      (if ann.isEmpty then [] else
        mpAttr 14 (be16 fi.afi ++ [UInt8.ofNat fi.safi, UInt8.ofNat fi.nh] ++ List.replicate fi.nh 1 ++ [0] ++ ann)) ++
      (if wd.isEmpty then [] else mpAttr 15 (be16 fi.afi ++ [UInt8.ofNat fi.safi] ++ wd)) ++ attrs
  let pdu := if fi.conv then mkPdu wd sec ann else mkPdu [] sec []
  if pdu.length > 4096 then "bad-op" else
  -- an ADD-PATH session: `SessionConfig::modern()` + `add_addpath_rxtx(family)`; the conventional
  -- sections are then validated with path ids (update.rs:924, 1000: `Rc.Upd.parseUpdate`)
  let accepted : Outcome Unit :=
    if fi.ap then Rc.Upd.mapO (fun _ => ()) (Rc.Upd.parseUpdate ⟨true, [((fi.afi, fi.safi), .both)]⟩ pdu)
    else Rc.Upd.mapO (fun _ => ()) (parsePdu pdu)
  match accepted with
  | .err => "rej"
  | .panic => "panic"
  | .ok _ =>
    match mapOf sec with
    | .panic => "panic"
    | .err => "err"
    | .ok m =>
      match nlSide fi.fam fi.ap ann, nlSide fi.fam fi.ap wd, lenList m, encList m with
      | .panic, _, _, _ => "panic"
      | _, .panic, _, _ => "panic"
      | _, _, .panic, _ => "panic"
      | _, _, _, .panic => "panic"
      | .ok (a, na), .ok (w, nw), .ok ml, .ok o =>
        if nlPduLen ml fi.nh na nw > MAX_PDU then "err"
        else s!"ok w={hexOrDash w} a={hexOrDash a} o={hexOrDash o}"
      | _, _, _, _ => "err"

def handle (ws : List String) : String :=
  match ws with
  | ["re", a] =>
    match strictHex a with
    | some attrs => handleRe none attrs
    | none => "bad-op"
  | ["re2", a] =>
    match strictHex a with
    | some attrs => handleRe (some false) attrs
    | none => "bad-op"
  | ["re2w", a] =>
    match strictHex a with
    | some attrs => handleRe (some true) attrs
    | none => "bad-op"
  | ["nl", f, w, a, t] =>
    match famOf f, strictHex w, strictHex a, strictHex t with
    | some fi, some wd, some ann, some attrs => handleNl fi wd ann attrs
    | _, _, _, _ => "bad-op"
  | _ => "bad-op"

end Rc.Drv.C07
