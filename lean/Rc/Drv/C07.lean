import Rc.Model.Reenc
/-! C07 line protocol (model side).

requests
  re <attrs>                    the attribute section of an UPDATE without NLRI; the PDU is
                                 `mkPdu [] attrs []` (at most 4096 octets, else bad-op)
  nl <fam> <wd> <ann> <attrs>   an UPDATE carrying the NLRI octets `wd` / `ann` of one family:
                                 fam = c4 (IPv4 unicast in the conventional sections) or
                                 v4u v4m v6u v6m v6fs (MP_UNREACH_NLRI / MP_REACH_NLRI, next hop
                                 octets 0x01); `attrs` must not hold attributes 14 / 15
replies
  re:  rej | panic | ok D<hex>#<sum compose_len> M<hex>#<bytes_len> B<pdu hex>
       (Derr / Merr / Berr for a route that returns an error)
  nl:  rej | panic | err | ok w=<hex> a=<hex> o=<hex>   (NLRI octets inside MP_UNREACH / MP_REACH of
       the built PDU, and its other attributes)
-/
namespace Rc.Drv.C07
open Rc Rc.Attr Rc.Reenc

def strictHex (s : String) : Option Bytes :=
  if s == "-" then some []
  else if s.toList.all (fun c => ('0' ≤ c ∧ c ≤ '9') ∨ ('a' ≤ c ∧ c ≤ 'f')) then bytesOfHexAux s.toList []
  else none

def showRoute (tag : String) (bs : Outcome Bytes) (n : Outcome Nat) : Option String :=
  match bs, n with
  | .panic, _ => none
  | _, .panic => none
  | .ok b, .ok k => some s!"{tag}{hexOrDash b}#{k}"
  | _, _ => some s!"{tag}err"

def handleRe (attrs : Bytes) : String :=
  let pdu := mkPdu [] attrs []
  if pdu.length > 4096 then "bad-op" else
  match parsePdu pdu with
  | .err => "rej"
  | .panic => "panic"
  | .ok _ =>
    let d : Option String :=
      match ownedList attrs with
      | .ok ds => showRoute "D" (encList ds) (lenList ds)
      | .err => some "Derr"
      | .panic => none
    let m : Option String :=
      match mapOf attrs with
      | .ok mp => showRoute "M" (encList mp) (lenList mp)
      | .err => some "Merr"
      | .panic => none
    let b : Option String :=
      match viaBuilder attrs with
      | .ok p => some s!"B{hexOfBytes p}"
      | .err => some "Berr"
      | .panic => none
    match d, m, b with
    | some d, some m, some b => s!"ok {d} {m} {b}"
    | _, _, _ => "panic"

structure FamInfo where
  fam : Rc.Nlri.Fam
  conv : Bool
  afi : Nat
  safi : Nat
  nh : Nat

def famOf (s : String) : Option FamInfo :=
  if s = "c4" then some ⟨.v4u, true, 1, 1, 4⟩
  else if s = "v4u" then some ⟨.v4u, false, 1, 1, 4⟩
  else if s = "v4m" then some ⟨.v4m, false, 1, 2, 4⟩
  else if s = "v6u" then some ⟨.v6u, false, 2, 1, 16⟩
  else if s = "v6m" then some ⟨.v6m, false, 2, 2, 16⟩
  else if s = "v6fs" then some ⟨.v6fs, false, 2, 133, 0⟩
  else none

/-- an MP attribute as the harness frames it: optional non-transitive, extended
length above 255 octets -/
def mpAttr (code : Nat) (v : Bytes) : Bytes :=
  if v.length > 255 then [0x90, UInt8.ofNat code] ++ be16 v.length ++ v
  else [0x80, UInt8.ofNat code, UInt8.ofNat v.length] ++ v

/-- does a TLV walk (stopping at the first framing error) meet code 14 or 15? -/
def hasMp : Nat → Bytes → Bool
  | 0, _ => false
  | f + 1, bs =>
    match splitAttr bs with
    | none => false
    | some (_, tc, _, r) => tc.toNat == 14 || tc.toNat == 15 || hasMp f r

/-- re-added NLRI of one section: composed octets and summed `compose_len` -/
def nlSide (f : Rc.Nlri.Fam) (bs : Bytes) : Outcome (Bytes × Nat) :=
  match readd (Rc.Nlri.codec f) bs with
  | .ok ns =>
    match Rc.Nlri.encAll (Rc.Nlri.codec f) ns with
    | .ok e => .ok (e, clenSum (Rc.Nlri.codec f) ns)
    | .err => .err
    | .panic => .panic
  | .err => .err
  | .panic => .panic

def handleNl (fi : FamInfo) (wd ann attrs : Bytes) : String :=
  if hasMp attrs.length attrs then "bad-op" else
  let sec : Bytes :=
    if fi.conv then attrs
    else
      (if ann.isEmpty then [] else
        mpAttr 14 (be16 fi.afi ++ [UInt8.ofNat fi.safi, UInt8.ofNat fi.nh] ++ List.replicate fi.nh 1 ++ [0] ++ ann)) ++
      (if wd.isEmpty then [] else mpAttr 15 (be16 fi.afi ++ [UInt8.ofNat fi.safi] ++ wd)) ++ attrs
  let pdu := if fi.conv then mkPdu wd sec ann else mkPdu [] sec []
  if pdu.length > 4096 then "bad-op" else
  match parsePdu pdu with
  | .err => "rej"
  | .panic => "panic"
  | .ok _ =>
    match mapOf sec with
    | .panic => "panic"
    | .err => "err"
    | .ok m =>
      match nlSide fi.fam ann, nlSide fi.fam wd, lenList m, encList m with
      | .panic, _, _, _ => "panic"
      | _, .panic, _, _ => "panic"
      | _, _, .panic, _ => "panic"
      | _, _, _, .panic => "panic"
      | .ok (a, na), .ok (w, nw), .ok ml, .ok o =>
        if nlPduLen ml fi.nh na nw > MAX_PDU then "err"
        else s!"ok w={hexOrDash w} a={hexOrDash a} o={hexOrDash o}"
      | _, _, _, _ => "err"

def handle (ws : List String) : String :=
  match ws with
  | ["re", a] =>
    match strictHex a with
    | some attrs => handleRe attrs
    | none => "bad-op"
  | ["nl", f, w, a, t] =>
    match famOf f, strictHex w, strictHex a, strictHex t with
    | some fi, some wd, some ann, some attrs => handleNl fi wd ann attrs
    | _, _, _, _ => "bad-op"
  | _ => "bad-op"

end Rc.Drv.C07
