import Rc.Model.Timer
namespace Rc.Drv.C20
open Rc Rc.Timer

/-! Model side of the C20 line protocol: `seq <interval_s> <op>,<op>,...` (see harness/src/props/c20.rs). -/

def num? (s : String) : Option Nat :=
  if s.isEmpty || s.length > 7 then none else s.toNat?

/-- `Ar<d>` / `Ax<d>` / `As<d>`: advance and call reset / stop / start before the interval task
has run (`Op.advThen`); `q`: the probe. -/
def callOf (c : Char) : Option Call :=
  if c == 's' then some .start else if c == 'r' then some .reset else if c == 'x' then some .stop else none

def parseOp (t : String) : Option (List Op) :=
  if t == "s" then some [.start]
  else if t == "r" then some [.reset]
  else if t == "x" then some [.stop]
  else if t == "q" then some [.probe]
  else
    match t.toList with
    | 'a' :: r => (num? (String.ofList r)).map fun d => [.advance d]
    | 'w' :: r => (num? (String.ofList r)).map fun d => [.await d]
    | 'A' :: 'r' :: r => (num? (String.ofList r)).map fun d => [.advThen d .reset]
    | 'A' :: 'x' :: r => (num? (String.ofList r)).map fun d => [.advThen d .stop]
    | 'A' :: 's' :: r => (num? (String.ofList r)).map fun d => [.advThen d .start]
    | ['B', a, b] => (callOf a).bind fun a => (callOf b).map fun b => [.burst2 a b]
    | ['B', a, b, c] => (callOf a).bind fun a => (callOf b).bind fun b => (callOf c).map fun c => [.burst3 a b c]
    | _ => none

def parseOps (s : String) : Option (List Op) :=
  if s == "-" then some [] else ((s.splitOn ",").mapM parseOp).map List.flatten

def showObs : Option Obs → String
  | some (.tick v a) => s!"t{v}@{a}"
  | some (.timeout a) => s!"n@{a}"
  | some (.probe r p a) => s!"q{if r then 1 else 0}{if p then 1 else 0}{a}"
  | none => "pre"

def handle (ws : List String) : String :=
  match ws with
  | ["seq", i, ops] =>
    match i.toNat?, parseOps ops with
    | some i, some ops =>
      if i > 100000 then "bad-op"
      else
        let toks := (runMarked true (init (i * 1000)) false ops).map showObs
        if toks.isEmpty then "-" else " ".intercalate toks
    | _, _ => "bad-op"
  | _ => "bad-op"

end Rc.Drv.C20
