import Rc.Model.Timer
namespace Rc.Drv.C20
open Rc Rc.Timer

/-! Model side of the C20 line protocol: `seq <interval_s> <op>,<op>,...` (see harness/src/props/c20.rs). -/

def num? (s : String) : Option Nat :=
  if s.isEmpty || s.length > 7 then none else s.toNat?

/-- `Ar<d>` / `Ax<d>` / `As<d>`: advance and call reset / stop / start before the interval task
has run. For the model this is `advance d` followed by the call: with fix F17 (`biased` selects)
the interval task lets the reset / stop win and ends in the state the model reaches. -/
def parseOp (t : String) : Option (List Op) :=
  if t == "s" then some [.start]
  else if t == "r" then some [.reset]
  else if t == "x" then some [.stop]
  else
    match t.toList with
    | 'a' :: r => (num? (String.ofList r)).map fun d => [.advance d]
    | 'w' :: r => (num? (String.ofList r)).map fun d => [.await d]
    | 'A' :: 'r' :: r => (num? (String.ofList r)).map fun d => [.advance d, .reset]
    | 'A' :: 'x' :: r => (num? (String.ofList r)).map fun d => [.advance d, .stop]
    | 'A' :: 's' :: r => (num? (String.ofList r)).map fun d => [.advance d, .start]
    | _ => none

def parseOps (s : String) : Option (List Op) :=
  if s == "-" then some [] else ((s.splitOn ",").mapM parseOp).map List.flatten

def showObs : Obs → String
  | .tick v a => s!"t{v}@{a}"
  | .timeout a => s!"n@{a}"

def handle (ws : List String) : String :=
  match ws with
  | ["seq", i, ops] =>
    match i.toNat?, parseOps ops with
    | some i, some ops =>
      if i == 0 || i > 100000 then "bad-op"
      else
        let (obs, cut) := runPrefix true (init (i * 1000)) ops
        let toks := obs.map showObs ++ (if cut then ["pre"] else [])
        if toks.isEmpty then "-" else " ".intercalate toks
    | _, _ => "bad-op"
  | _ => "bad-op"

end Rc.Drv.C20
