/-
C08 driver: the model side of the line protocol (format: harness/src/props/c08.rs).
  h <cfg> <init> <step> ...
-/
import Rc.Model.Fsm
namespace Rc.Drv.C08
open Rc Rc.Fsm

/-- the two AS numbers the harness configuration accepts -/
def allowed : List Nat := [65001, 4200000001]

def bit (c : Char) : Option Bool :=
  if c == '0' then some false else if c == '1' then some true else none

/-- decimal number without sign or leading zeros, at most `maxLen` digits, `≤ max` -/
def num (s : String) (max : Nat) : Option Nat :=
  let cs := s.toList
  if cs.isEmpty || cs.length > 10 then none
  else if !(cs.all Char.isDigit) then none
  else if cs.length > 1 && cs.head? == some '0' then none
  else match s.toNat? with
    | some n => if n ≤ max then some n else none
    | none => none

def parseCfg (s : String) : Option Cfg :=
  match s.toList with
  | 'd' :: d :: 'n' :: n :: 'p' :: p :: 'x' :: x :: 'a' :: a :: 'h' :: hs =>
    match bit d, bit n, bit p, bit x, bit a with
    | some d, some n, some p, some x, some a =>
      if hs.length > 5 then none else
      match num (String.ofList hs) 65535 with
      | some h => some ⟨d, n, p, x, if a then [4] else [], h, allowed⟩
      | none => none
    | _, _, _, _, _ => none
  | _ => none

def stateOfDigit (c : Char) : Option State :=
  match c with
  | '1' => some .idle | '2' => some .connect | '3' => some .active
  | '4' => some .openSent | '5' => some .openConfirm | '6' => some .established
  | _ => none

def parseInit (s : String) : Option St :=
  if s == "-" then some St.fresh else
  match s.toList with
  | [st, ':', a, b, c, d, e] =>
    match stateOfDigit st, bit a, bit b, bit c, bit d, bit e with
    | some st, some a, some b, some c, some d, some e => some ⟨st, a, b, c, d, 0, e, none⟩
    | _, _, _, _, _, _ => none
  | _ => none

def parseAp : List Char → Option (List (Nat × Nat))
  | [] => some []
  | f :: d :: rest =>
    if (f == '4' || f == '6') && (d == '0' || d == '1' || d == '2' || d == '3') then
      match parseAp rest with
      | some l => some ((f.toNat - 48, d.toNat - 48) :: l)
      | none => none
    else none
  | _ => none

def parseOpen (ps : List String) : Option OpenInfo :=
  match ps with
  | [a, h, ap] =>
    match num a 4294967295, num h 65535 with
    | some a, some h =>
      if ap == "-" then some ⟨a, h, []⟩
      else if ap.length == 0 || ap.length > 16 then none
      else match parseAp ap.toList with
        | some l => some ⟨a, h, l⟩
        | none => none
    | _, _ => none
  | _ => none

def simpleEvent (k : Nat) : Option Event :=
  match k with
  | 0 => some .manualStart | 1 => some .manualStop | 2 => some .automaticStart
  | 3 => some .manualStartPassive | 4 => some .automaticStartPassive
  | 5 => some .connectRetryTimerExpires | 6 => some .holdTimerExpires
  | 7 => some .keepaliveTimerExpires | 8 => some .delayOpenTimerExpires
  | 9 => some .tcpCrAcked | 10 => some .tcpConnectionConfirmed | 11 => some .tcpConnectionFails
  | 13 => some .bgpHeaderErr | 14 => some .bgpOpenMsgErr | 15 => some .notifMsgVerErr
  | 16 => some .notifMsg | 17 => some .keepaliveMsg | 18 => some .updateMsg | 19 => some .updateMsgErr
  | _ => none

def parseStep (s : String) : Option Input :=
  let ps := s.splitOn ":"
  match ps with
  | [] => none
  | head :: args =>
    match head.toList with
    | 'e' :: ks =>
      match num (String.ofList ks) 20 with
      | some 12 => (parseOpen args).map fun o => .ev (.bgpOpen o)
      | some 20 => (parseOpen args).map fun o => .ev (.bgpOpenDelay o)
      | some k => if args.isEmpty then (simpleEvent k).map .ev else none
      | none => none
    | _ =>
      if head == "mO" then (parseOpen args).map .msgOpen
      else if head == "mK" && args.isEmpty then some .msgKeepalive
      else if head == "mU" then
        match args with
        | [n] => (num n 200).map .msgUpdate
        | _ => none
      else if head == "mN" then
        match args with
        | [c, s] => match num c 255, num s 255 with
          | some c, some s => some (.msgNotification c s)
          | _, _ => none
        | _ => none
      else if head == "mR" && args.isEmpty then some .msgRouteRefresh
      else if head == "aS" && args.isEmpty then some .apiStart
      else if head == "aC" && args.isEmpty then some .apiConn
      else if head == "aA" && args.isEmpty then some .attach
      else none

def parseSteps : List String → Option (List Input)
  | [] => some []
  | s :: rest =>
    match parseStep s, parseSteps rest with
    | some i, some l => some (i :: l)
    | _, _ => none

def b01 (b : Bool) : String := if b then "1" else "0"

def showState : State → String
  | .idle => "Idle" | .connect => "Connect" | .active => "Active"
  | .openSent => "OpenSent" | .openConfirm => "OpenConfirm" | .established => "Established"

def showAp (ap : List (Nat × Nat)) : String :=
  if ap.isEmpty then "-" else String.join (ap.map fun p => s!"{p.1}{p.2}")

def showNeg (sep : String) (n : Neg) : String := s!"h{n.hold}{sep}as{n.asn}{sep}ap{showAp n.ap}"

def joinOr (l : List String) : String := if l.isEmpty then "-" else ",".intercalate l

def showResult : StepResult → String
  | .todo => "todo"
  | .panic => "panic"
  | .next s ok outs =>
    let pdus := outs.filterMap fun
      | .pduOpen h => some s!"O{h}"
      | .pduKeepalive => some "K"
      | .pduNotification c sc => some s!"N{c}.{sc}"
      | _ => none
    let app := outs.filterMap fun
      | .appNegotiated n => some ("G" ++ showNeg "_" n)
      | .appUpdate n => some s!"U{23 + 4 * n}"
      | .appNotification c sc => some s!"N{c}.{sc}"
      | .appConnectionLost => some "L"
      | _ => none
    let neg := match s.neg with
      | some n => showNeg "/" n
      | none => "-"
    s!"{showState s.state} {if ok then "ok" else "err"} {b01 s.crt}{b01 s.hold}{b01 s.ka}{b01 s.dop} {s.counter} {b01 s.conn} {neg} {joinOr pdus} {joinOr app}"

def msgOfToken (s : String) : Option Input :=
  match s.toList with
  | 'w' :: rest =>
    match parseStep (String.ofList ('m' :: rest)) with
    | some .msgRouteRefresh => none
    | r => r
  | _ => none

/-- A tick-line step: one `tick()` of the model, or a burst `bU:<k>:<n>`: the peer writes `k` UPDATEs back
to back and `tick()` runs once per UPDATE (while the connection lasts and no tick fails); the
application reads late, which the model - like the real `send().await` - does not let lose anything.
The burst is literally `k` model ticks; their outputs are concatenated into one record. -/
inductive DTick where
  | one (t : TickInput)
  | burst (k n : Nat)

def parseBurst (s : String) : Option DTick :=
  match s.splitOn ":" with
  | ["bU", k, n] =>
    match num k 12, num n 200 with
    | some k, some n => if k < 2 then none else some (.burst k n)
    | _, _ => none
  | _ => none

def parseTickSteps : List String → Option (List DTick)
  | [] => some []
  | s :: rest =>
    let one : Option DTick :=
      if s == "c" then some (.one .closed)
      else if s == "cD" then some (.one .cmdDisconnect)
      else if s == "cK" then some (.one .cmdKeepalive)
      else if s.startsWith "bU:" then parseBurst s
      else if s.startsWith "w" then (msgOfToken s).map (fun m => .one (.frame m))
      else (parseStep s).map (fun i => .one (.direct i))
    match one, parseTickSteps rest with
    | some i, some l => some (i :: l)
    | _, _ => none

def burstRun (cfg : Cfg) (n : Nat) : Nat → St → List Out → TickResult
  | 0, s, acc => .res (.next s true acc)
  | k + 1, s, acc =>
    match tickStep cfg s (.frame (.msgUpdate n)) with
    | .res (.next s' ok outs) =>
      if !ok || !s'.conn || k == 0 then .res (.next s' ok (acc ++ outs))
      else burstRun cfg n k s' (acc ++ outs)
    | r => r

def dtickStep (cfg : Cfg) (s : St) : DTick → TickResult
  | .one t => tickStep cfg s t
  | .burst k n => if !s.conn then .noConn else burstRun cfg n k s []

def runDTick (cfg : Cfg) : St → List DTick → List TickResult
  | _, [] => []
  | s, i :: rest =>
    match dtickStep cfg s i with
    | .res (.next s' ok outs) => .res (.next s' ok outs) :: runDTick cfg s' rest
    | r => [r]

def showTick : TickResult → String
  | .noConn => "noconn"
  | .res r => showResult r

def handle (ws : List String) : String :=
  match ws with
  | "t" :: cfg :: steps =>
    if steps.isEmpty then "bad-op" else
    match parseCfg cfg, parseTickSteps steps with
    | some cfg, some ins => " ; ".intercalate ((runDTick cfg St.fresh ins).map showTick)
    | _, _ => "bad-op"
  | "h" :: cfg :: init :: steps =>
    if steps.isEmpty then "bad-op" else
    match parseCfg cfg, parseInit init, parseSteps steps with
    | some cfg, some s, some ins => " ; ".intercalate ((runHist cfg s ins).map showResult)
    | _, _, _ => "bad-op"
  | _ => "bad-op"

end Rc.Drv.C08
