/-
C08 driver: the model side of the line protocol (format: harness/src/props/c08.rs).
  h <cfg> <init> <step> ...
  t <cfg> <step> ...
  s <cfg> <init> <stream> <lens> <c|->   the whole receive path: `Rc.Session.feedAll` with the concrete decoders
-/
import Rc.Model.Fsm
import Rc.Model.Session
namespace Rc.Drv.C08
open Rc Rc.Fsm

/-- the two AS numbers the harness configuration accepts -/
def allowed : List Nat := [65001, 4200000001]

def bit (c : Char) : Option Bool :=
  if c == '0' then some false else if c == '1' then some true else none

/-- decimal number without sign or leading zeros, at most `maxLen` digits, `≤ max` -/
def num (s : String) (max : Nat) : Option Nat :=
  let cs := s.toList
  if cs.isEmpty || cs.length > 10 then none
  else if !(cs.all Char.isDigit) then none
  else if cs.length > 1 && cs.head? == some '0' then none
  else match s.toNat? with
    | some n => if n ≤ max then some n else none
    | none => none

def parseCfg (s : String) : Option Cfg :=
  match s.toList with
  | 'd' :: d :: 'n' :: n :: 'p' :: p :: 'x' :: x :: 'a' :: a :: 'h' :: hs =>
    match bit d, bit n, bit p, bit x, bit a with
    | some d, some n, some p, some x, some a =>
      if hs.length > 5 then none else
      match num (String.ofList hs) 65535 with
      | some h => some ⟨d, n, p, x, if a then [4] else [], h, allowed⟩
      | none => none
    | _, _, _, _, _ => none
  | _ => none

def stateOfDigit (c : Char) : Option State :=
  match c with
  | '1' => some .idle | '2' => some .connect | '3' => some .active
  | '4' => some .openSent | '5' => some .openConfirm | '6' => some .established
  | _ => none

def parseInit (s : String) : Option St :=
  if s == "-" then some St.fresh else
  match s.toList with
  | [st, ':', a, b, c, d, e] =>
    match stateOfDigit st, bit a, bit b, bit c, bit d, bit e with
    | some st, some a, some b, some c, some d, some e => some ⟨st, a, b, c, d, 0, e, none⟩
    | _, _, _, _, _, _ => none
  | _ => none

def parseAp : List Char → Option (List (Nat × Nat))
  | [] => some []
  | f :: d :: rest =>
    if (f == '4' || f == '6') && (d == '0' || d == '1' || d == '2' || d == '3') then
      match parseAp rest with
      | some l => some ((f.toNat - 48, d.toNat - 48) :: l)
      | none => none
    else none
  | _ => none

/-- `f<field>`: the value of the two-octet My-AS field when it is given separately (the four-octet
capability then carries `<asn>`) -/
def parseField (s : String) : Option Nat :=
  match s.toList with
  | 'f' :: ds => num (String.ofList ds) 65535
  | _ => none

/-- `<asn>:<hold>:<ap>[:f<field>]`.  mirrors `OpenMessage::my_asn` (src/bgp/message/open.rs:93): the AS
number of the Four-Octet AS Number capability when the OPEN carries one, else the two-octet field.
In the request syntax `<asn>` IS the capability value whenever a capability is present (asn > 65535 or
`f<field>` given) and the field value otherwise, so the peer's AS is `<asn>` in every case and
`<field>` never reaches the FSM. -/
def parseOpen (ps : List String) : Option OpenInfo :=
  match ps with
  | [a, h, ap, f] =>
    match parseField f with
    | some _ => parseOpen3 a h ap
    | none => none
  | [a, h, ap] => parseOpen3 a h ap
  | _ => none
where
  parseOpen3 (a h ap : String) : Option OpenInfo :=
    match num a 4294967295, num h 65535 with
    | some a, some h =>
      if ap == "-" then some ⟨a, h, []⟩
      else if ap.length == 0 || ap.length > 16 then none
      else match parseAp ap.toList with
        | some l => some ⟨a, h, l⟩
        | none => none
    | _, _ => none

def simpleEvent (k : Nat) : Option Event :=
  match k with
  | 0 => some .manualStart | 1 => some .manualStop | 2 => some .automaticStart
  | 3 => some .manualStartPassive | 4 => some .automaticStartPassive
  | 5 => some .connectRetryTimerExpires | 6 => some .holdTimerExpires
  | 7 => some .keepaliveTimerExpires | 8 => some .delayOpenTimerExpires
  | 9 => some .tcpCrAcked | 10 => some .tcpConnectionConfirmed | 11 => some .tcpConnectionFails
  | 13 => some .bgpHeaderErr | 14 => some .bgpOpenMsgErr | 15 => some .notifMsgVerErr
  | 16 => some .notifMsg | 17 => some .keepaliveMsg | 18 => some .updateMsg | 19 => some .updateMsgErr
  | _ => none

def parseStep (s : String) : Option Input :=
  let ps := s.splitOn ":"
  match ps with
  | [] => none
  | head :: args =>
    match head.toList with
    | 'e' :: ks =>
      match num (String.ofList ks) 20 with
      | some 12 => (parseOpen args).map fun o => .ev (.bgpOpen o)
      | some 20 => (parseOpen args).map fun o => .ev (.bgpOpenDelay o)
      | some k => if args.isEmpty then (simpleEvent k).map .ev else none
      | none => none
    | _ =>
      if head == "mO" then (parseOpen args).map .msgOpen
      else if head == "mK" && args.isEmpty then some .msgKeepalive
      else if head == "mU" then
        match args with
        | [n] => (num n 200).map .msgUpdate
        | _ => none
      else if head == "mN" then
        match args with
        | [c, s] => match num c 255, num s 255 with
          | some c, some s => some (.msgNotification c s)
          | _, _ => none
        | _ => none
      else if head == "mR" && args.isEmpty then some .msgRouteRefresh
      else if head == "aS" && args.isEmpty then some .apiStart
      else if head == "aC" && args.isEmpty then some .apiConn
      else if head == "aA" && args.isEmpty then some .attach
      else none

def parseSteps : List String → Option (List Input)
  | [] => some []
  | s :: rest =>
    match parseStep s, parseSteps rest with
    | some i, some l => some (i :: l)
    | _, _ => none

def b01 (b : Bool) : String := if b then "1" else "0"

def showState : State → String
  | .idle => "Idle" | .connect => "Connect" | .active => "Active"
  | .openSent => "OpenSent" | .openConfirm => "OpenConfirm" | .established => "Established"

def showAp (ap : List (Nat × Nat)) : String :=
  if ap.isEmpty then "-" else String.join (ap.map fun p => s!"{p.1}{p.2}")

def showNeg (sep : String) (n : Neg) : String := s!"h{n.hold}{sep}as{n.asn}{sep}ap{showAp n.ap}"

def joinOr (l : List String) : String := if l.isEmpty then "-" else ",".intercalate l

def showResultWith (upd : Nat → String) : StepResult → String
  | .todo => "todo"
  | .panic => "panic"
  | .next s ok outs =>
    let pdus := outs.filterMap fun
      | .pduOpen h => some s!"O{h}"
      | .pduKeepalive => some "K"
      | .pduNotification c sc => some s!"N{c}.{sc}"
      | _ => none
    let app := outs.filterMap fun
      | .appNegotiated n => some ("G" ++ showNeg "_" n)
      | .appUpdate n => some (upd n)
      | .appNotification c sc => some s!"N{c}.{sc}"
      | .appConnectionLost => some "L"
      | _ => none
    let neg := match s.neg with
      | some n => showNeg "/" n
      | none => "-"
    s!"{showState s.state} {if ok then "ok" else "err"} {b01 s.crt}{b01 s.hold}{b01 s.ka}{b01 s.dop} {s.counter} {b01 s.conn} {neg} {joinOr pdus} {joinOr app}"

/-- `mU:<n>` is an UPDATE with `n` withdrawals: 23 + 4n octets -/
def showResult : StepResult → String := showResultWith fun n => s!"U{23 + 4 * n}"

def msgOfToken (s : String) : Option Input :=
  match s.toList with
  | 'w' :: rest =>
    parseStep (String.ofList ('m' :: rest))   -- `wR`: deliverable since the repair of K13
  | _ => none

/-- A tick-line step: one `tick()` of the model, or a burst `bU:<k>:<n>`: the peer writes `k` UPDATEs back
to back and `tick()` runs once per UPDATE (while the connection lasts and no tick fails); the
application reads late, which the model - like the real `send().await` - does not let lose anything.
The burst is literally `k` model ticks; their outputs are concatenated into one record. -/
inductive DTick where
  | one (t : TickInput)
  | burst (k n : Nat)

def parseBurst (s : String) : Option DTick :=
  match s.splitOn ":" with
  | ["bU", k, n] =>
    match num k 12, num n 200 with
    | some k, some n => if k < 2 then none else some (.burst k n)
    | _, _ => none
  | _ => none

def burstRun (cfg : Cfg) (n : Nat) : Nat → St → List Out → TickResult
  | 0, s, acc => .res (.next s true acc)
  | k + 1, s, acc =>
    match tickStep cfg s (.frame (.msgUpdate n)) with
    | .res (.next s' ok outs) =>
      if !ok || !s'.conn || k == 0 then .res (.next s' ok (acc ++ outs))
      else burstRun cfg n k s' (acc ++ outs)
    | r => r

def dtickStep (cfg : Cfg) (s : St) : DTick → TickResult
  | .one t => tickStep cfg s t
  | .burst k n => if !s.conn then .noConn else burstRun cfg n k s []

def showTick : TickResult → String
  | .noConn => "noconn"
  | .res r => showResult r

/-- capacity of the `pdu_out` queue the harness gives the session -/
def pduCap : Nat := 64

/-- `q<room>`: from now on the application leaves only `room` free slots in `pdu_out` at the start
of every step -/
def parseRoom (s : String) : Option Nat :=
  match s.toList with
  | 'q' :: ds => num (String.ofList ds) pduCap
  | _ => none

def roomRecord (s : St) : String := showResult (.next s true [])

/-- `W<d>` (1..60): `d` seconds pass on the paused clock while the session is not polled -/
def parseWait (s : String) : Option Nat :=
  match s.toList with
  | 'W' :: ds => (num (String.ofList ds) 60).bind fun d => if d == 0 then none else some d
  | _ => none

/-- `pB:<hex>` (1..64 octets): the peer writes raw octets that do not make a whole frame -/
def parseRaw (s : String) : Option Bytes :=
  match s.splitOn ":" with
  | ["pB", h] =>
    if h == "-" then none else
    match bytesOfHex h with
    | some b => if b.isEmpty || b.length > 64 then none else some b
    | none => none
  | _ => none

/-- the octets the `pB` steps of a line write never let `parse_frame` decide: after each of them
`Rc.Framing.parseFrame` answers "need more octets" on what was written so far (whatever the decoder);
at most 5 such steps; with a second connection (`aA`) on the line at most 17 octets in all -/
def rawOk (steps : List String) : Bool :=
  let reconnect := steps.any (· == "aA")
  let rec go : List String → Bytes → Nat → Bool
    | [], _, _ => true
    | w :: rest, acc, n =>
      match parseRaw w with
      | some b =>
        let acc := acc ++ b
        (match Rc.Framing.parseFrame (fun _ => (Outcome.err : Outcome Unit)) acc with
          | .ok none => true | _ => false) && n < 5 && (!reconnect || acc.length ≤ 17) && go rest acc (n + 1)
      | none => go rest acc n
  go steps [] 0

/-- a tick of one of the three polled timers is queued already -/
def dueNow (c : Clock) : Bool :=
  [c.ka, c.hold, c.dop].any fun d => match d with | some t => t ≤ c.now | none => false

/-- what of a step's output reaches the outgoing queue (`send_pdu` = `try_send`) -/
def queued (room : Nat) : StepResult → StepResult
  | .next s ok outs => .next s ok (accepted room outs)
  | r => r

/-- one `h` line: session state, clock of the three polled timers, free slots of `pdu_out`.  `none` (the
whole line is `bad-op`) also when a step that is reached resets the hold timer while two of its ticks are
outstanding (`Rc.Fsm.staleInput`: the second one survives the reset, `Clock` cannot say so); c08.rs refuses
exactly the same lines (`reset_with_two_ticks`).  The timer events of `T` never reset the hold timer
(`Rc.Thm.C08.timer_events_never_reset_hold`). -/
def runHistQ (cfg : Cfg) : St → Clock → Nat → List String → Option (List String)
  | _, _, _, [] => some []
  | s, c, room, w :: rest =>
    match parseRoom w with
    | some r => (runHistQ cfg s c r rest).map (roomRecord s :: ·)
    | none =>
      if w.startsWith "q" then none
      else if w == "T" || ((parseRaw w).isSome && dueNow c) then
        -- `Session::tick()` with nothing pending but the timers (paused clock); the record ends with the clock
        match tickTimer cfg s c with
        | .idle => if parseStepsOk rest then some ["idle"] else none
        | .tie => if parseStepsOk rest then some ["tie"] else none
        | .fired _ (.next s' ok outs) c' =>
          (runHistQ cfg s' c' room rest).map ((showResult (queued room (.next s' ok outs)) ++ s!" @{c'.now}") :: ·)
        | .fired _ r _ => if parseStepsOk rest then some [showResult r] else none
      else if (parseRaw w).isSome then
        -- `pB:<hex>`: the octets reach the connection's receive buffer, `read_frame` goes on waiting (`rawOk`): no
        -- frame, no event; the timer branches of `tick()` do not look at the buffer (Rc/Model/Fsm.lean `tickTimer`)
        (runHistQ cfg s c room rest).map ((roomRecord s ++ s!" @{c.now}") :: ·)
      else if (parseWait w).isSome then
        -- `W<d>`: the paused clock moves `d` seconds, the session is not polled
        let c' := clockWait c ((parseWait w).getD 0)
        (runHistQ cfg s c' room rest).map ((roomRecord s ++ s!" @{c'.now}") :: ·)
      else
      match parseStep w with
      | none => none
      | some i =>
        if staleInput cfg s c i then none else
        match handleInput cfg s i with
        | .next s' ok outs =>
          (runHistQ cfg s' (clockInput cfg s c i) room rest).map (showResult (queued room (.next s' ok outs)) :: ·)
        | r => if (parseStepsOk rest) then some [showResult r] else none
where
  parseStepsOk : List String → Bool
    | [] => true
    | w :: rest => ((parseRoom w).isSome || w == "T" || (parseWait w).isSome || (parseRaw w).isSome || (!(w.startsWith "q") && (parseStep w).isSome)) && parseStepsOk rest

def parseTickStep1 (s : String) : Option DTick :=
  if s == "c" then some (.one .closed)
  else if s == "cM" || s == "wX" then some (.one .readErr)
  else if s == "cD" then some (.one .cmdDisconnect)
  else if s == "cK" then some (.one .cmdKeepalive)
  else if s == "cDr" then some (.one (.cmdDisconnectWith (some .rejected)))
  else if s == "cDc" then some (.one (.cmdDisconnectWith (some .reconfiguration)))
  else if s == "cDd" then some (.one (.cmdDisconnectWith (some .deconfigured)))
  else if s == "cDh" then some (.one (.cmdDisconnectWith (some .holdTimerExpired)))
  else if s == "cDo" then some (.one (.cmdDisconnectWith none))
  else if s.startsWith "bU:" then parseBurst s
  else if s.startsWith "w" then (msgOfToken s).map (fun m => .one (.frame m))
  else if s.startsWith "q" then none
  else (parseStep s).map (fun i => .one (.direct i))

def runDTickQ (cfg : Cfg) : St → Nat → List String → Option (List String)
  | _, _, [] => some []
  | s, room, w :: rest =>
    match parseRoom w with
    | some r => (runDTickQ cfg s r rest).map (roomRecord s :: ·)
    | none =>
      match parseTickStep1 w with
      | none => none
      | some i =>
        match dtickStep cfg s i with
        | .res (.next s' ok outs) => (runDTickQ cfg s' room rest).map (showResult (queued room (.next s' ok outs)) :: ·)
        | r => if parseTickOk rest then some [showTick r] else none
where
  parseTickOk : List String → Bool
    | [] => true
    | w :: rest => ((parseRoom w).isSome || (parseTickStep1 w).isSome) && parseTickOk rest


/-! ### `s` lines: octets -> frames -> decoded messages -> FSM (Rc/Model/Session.lean) -/

def parseLens (s : String) (total : Nat) : Option (List Nat) :=
  match (s.splitOn ",").mapM (fun x => num x 20000) with
  | some v => if v.any (· == 0) || v.length > 80 || v.foldl (· + ·) 0 != total then none else some v
  | none => none

def chunksOf : Bytes → List Nat → List Bytes
  | _, [] => []
  | s, n :: ns => s.take n :: chunksOf (s.drop n) ns

/-- one record per `tick()` that returned; an UPDATE handed to the application is shown by the length of
its frame (the j-th tick handled the j-th frame) -/
def showSessTrace : List TickResult → List (Rc.Framing.Frame Input) → List String
  | [], _ => []
  | .noConn :: rest, fs => "noconn" :: showSessTrace rest fs.tail
  | .res r :: rest, fs =>
    showResultWith (fun _ => s!"U{(fs.head?.map (·.2.length)).getD 0}") r :: showSessTrace rest fs.tail

/-- the session the harness builds for an `s` line: the connection's `SessionConfig` starts as
`SessionConfig::modern()` (`Connection::for_read_half`) -/
def runSess (cfg : Cfg) (s : St) (stream : Bytes) (lens : List Nat) (close : Bool) : String :=
  if !s.conn then "- ## same=1" else
  let r := Rc.Session.feedAll Rc.Session.sessionWire cfg s Rc.SessionDecode.modern (chunksOf stream lens)
  let recs := showSessTrace r.trace r.frames
  -- the peer closes: `read_frame` reads 0 octets: `Ok(None)` on an empty buffer, else "connection reset by peer"
  let recs := match close, r.live with
    | true, some buf =>
      if r.s.conn then recs ++ [showTick (tickStep cfg r.s (if buf.isEmpty then .closed else .readErr))] else recs
    | _, _ => recs
  -- `same=1`: Rc.Thm.C09.session_chunking_invariant
  s!"{if recs.isEmpty then "-" else " ; ".intercalate recs} ## same=1"

def handle (ws : List String) : String :=
  match ws with
  | ["s", cfg, init, stream, lens, cl] =>
    match parseCfg cfg, parseInit init, bytesOfHex stream with
    | some cfg, some s, some st =>
      if st.isEmpty || st.length > 20000 || (cl != "c" && cl != "-") then "bad-op" else
      match parseLens lens st.length with
      | some lens => runSess cfg s st lens (cl == "c")
      | none => "bad-op"
    | _, _, _ => "bad-op"
  | "t" :: cfg :: steps =>
    if steps.isEmpty then "bad-op" else
    match parseCfg cfg with
    | some cfg =>
      match runDTickQ cfg St.fresh pduCap steps with
      | some l => " ; ".intercalate l
      | none => "bad-op"
    | none => "bad-op"
  | "h" :: cfg :: init :: steps =>
    if steps.isEmpty then "bad-op" else
    match parseCfg cfg, parseInit init with
    | some cfg, some s =>
      if !rawOk steps then "bad-op" else
      match runHistQ cfg s (Clock.ofSt cfg s) pduCap steps with
      | some l => " ; ".intercalate l
      | none => "bad-op"
    | _, _ => "bad-op"
  | _ => "bad-op"

end Rc.Drv.C08
