import Rc.Model.AsPath
/-! C13 line protocol (model side).

hop path  `-` | hop{,hop}      hop = `a<asn>` | `s<ty>/<w>:<asn>{.<asn>}` (`s1/4:` = empty set)
requests  compose H | compose16 H | count H | hprepend H ASN N | hpeq H H
          (H: API-constructible hops only: `s<1|3|4>/4:` of any length = Segment::new_*; any other
           `s<1..4>/<2|4>:` = a segment cut out of a wire path of that width: at most 255 ASNs, ASNs fit the width)
          wire W HEX | prepend W HEX ASN N | eq W1 HEX1 W2 HEX2      (W = 2 | 4)
replies that list hops / segments end in `proto=ok`: the harness' iterator-protocol verdict
(harness/src/common.rs iter_protocol) on hops() / segments() / asns(); the model's iterators are `next`
sequences, all default consumptions of which observe the same list (Rc/Lemmas/IterProto.lean)
-/
namespace Rc.Drv.C13
open Rc Rc.AsPath

def showAsns (as : List Nat) : String := String.intercalate "." (as.map toString)

def showSeg (s : Seg) : String := s!"s{s.ty}/{if s.four then 4 else 2}:{showAsns s.asns}"

def showHop : Hop → String
  | .asn n => s!"a{n}"
  | .seg s => showSeg s

def showList (xs : List String) : String := if xs.isEmpty then "-" else String.intercalate "," xs

def showHops (h : HopPath) : String := showList (h.map showHop)
def showSegs (ss : List Seg) : String := showList (ss.map showSeg)

def parseAsn (s : String) : Option Nat :=
  match s.toNat? with
  | some n => if n < 4294967296 then some n else none
  | none => none

def parseAsns (s : String) : Option (List Nat) :=
  if s.isEmpty then some [] else (s.splitOn ".").mapM parseAsn

/-- request-side hops: only what the public API can construct -/
def parseHop (s : String) : Option Hop :=
  match s.toList with
  | 'a' :: r => (parseAsn (String.ofList r)).map Hop.asn
  | 's' :: t :: '/' :: wc :: ':' :: r =>
    let ty := t.toNat - 48
    let four? : Option Bool := if wc = '4' then some true else if wc = '2' then some false else none
    match four?, parseAsns (String.ofList r) with
    | some four, some as =>
      if four ∧ (ty = 1 ∨ ty = 3 ∨ ty = 4) then some (Hop.seg ⟨ty, true, as⟩)     -- Segment::new_*
      else if 1 ≤ ty ∧ ty ≤ 4 ∧ as.length ≤ 255 ∧ (four ∨ as.all (fun a => decide (a ≤ 65535))) then
        some (Hop.seg ⟨ty, four, as⟩)                                               -- cut out of a wire path
      else none
    | _, _ => none
  | _ => none

def parseHops (s : String) : Option HopPath :=
  if s == "-" then some [] else (s.splitOn ",").mapM parseHop

def parseW (s : String) : Option Bool :=
  if s == "4" then some true else if s == "2" then some false else none

def showOB : Outcome Bytes → String
  | .ok b => hexOrDash b
  | .err => "err"
  | .panic => "panic"

def bstr (b : Bool) : String := if b then "true" else "false"

def hashEq (f1 : Bool) (b1 : Bytes) (f2 : Bool) (b2 : Bytes) : String :=
  match hashKey f1 b1, hashKey f2 b2 with
  | .ok a, .ok b => bstr (a == b)
  | _, _ => "panic"

def handle (ws : List String) : String :=
  match ws with
  | ["compose", h] =>
    match parseHops h with
    | none => "bad-op"
    | some h =>
      match compose true h with
      | .ok bs =>
        let chk := match check true bs with | .ok _ => "ok" | _ => "err"
        match hops true bs with
        | .ok hs => s!"ok {hexOrDash bs} chk={chk} hops={showHops hs} proto=ok"
        | _ => "panic"
      | .err => "err"
      | .panic => "panic"
  | ["compose16", h] =>
    match parseHops h with
    | none => "bad-op"
    | some h =>
      match compose false h with
      | .ok b16 =>
        match compose true h with
        | .ok b32 =>
          let chk := match check false b16 with | .ok _ => "ok" | _ => "err"
          let eq := match pathEq false b16 true b32 with | .ok b => bstr b | _ => "panic"
          match hops false b16 with
          | .ok hs => s!"ok {hexOrDash b16} chk={chk} eq={eq} hasheq={hashEq false b16 true b32} hops={showHops hs} proto=ok"
          | _ => "panic"
        | _ => "panic"
      | .err => "err"
      | .panic => "panic"
  | ["count", h] =>
    match parseHops h with
    | none => "bad-op"
    | some h => s!"ok {hopCount h} {hopCountSel h}"
  | ["hpeq", h1, h2] =>
    -- `HopPath == HopPath` (derived, `Hop::eq` element-wise) and whether the two hash alike
    match parseHops h1, parseHops h2 with
    | some a, some b =>
      let he := match hopPathHashKey a, hopPathHashKey b with
        | .ok x, .ok y => bstr (x == y)
        | _, _ => "panic"
      s!"ok {bstr (hopPathEq a b)} {he}"
    | _, _ => "bad-op"
  | ["hprepend", h, a, n] =>
    -- HopPath::prepend_n(asn, n) on an API-built hop path, then to_as_path + hops()
    match parseHops h, parseAsn a, n.toNat? with
    | some h, some a, some n =>
      if n > 2000 then "bad-op" else
      match compose true (List.replicate n (Hop.asn a) ++ h) with
      | .ok bs =>
        match hops true bs with
        | .ok hs => s!"ok {hexOrDash bs} hops={showHops hs} proto=ok"
        | _ => "panic"
      | .err => "err"
      | .panic => "panic"
    | _, _, _ => "bad-op"
  | ["wire", w, hx] =>
    match parseW w, bytesOfHex hx with
    | some four, some bs =>
      match check four bs with
      | .ok _ =>
        match segments four bs, toHopPath four bs with
        | .ok ss, .ok hs =>
          s!"ok segs={showSegs ss} hops={showHops hs} back32={showOB (compose true hs)} back16={showOB (compose false hs)} count={hopCountSel hs} single={bstr (isSingleSequence four bs)} proto=ok"
        | _, _ => "panic"
      | _ => "err"
    | _, _ => "bad-op"
  | ["prepend", w, hx, a, n] =>
    match parseW w, bytesOfHex hx, parseAsn a, n.toNat? with
    | some four, some bs, some a, some n =>
      match check four bs with
      | .ok _ =>
        match prepend four bs a n with
        | .ok r =>
          match hops true r with
          | .ok hs => s!"ok {hexOrDash r} hops={showHops hs} proto=ok"
          | _ => "panic"
        | .err => "err"
        | .panic => "panic"
      | _ => "err"
    | _, _, _, _ => "bad-op"
  | ["eq", w1, h1, w2, h2] =>
    match parseW w1, bytesOfHex h1, parseW w2, bytesOfHex h2 with
    | some f1, some b1, some f2, some b2 =>
      match check f1 b1, check f2 b2 with
      | .ok _, .ok _ =>
        match pathEq f1 b1 f2 b2 with
        | .ok e => s!"ok {bstr e} {hashEq f1 b1 f2 b2}"
        | _ => "panic"
      | _, _ => "err"
    | _, _, _, _ => "bad-op"
  | _ => "bad-op"

end Rc.Drv.C13
