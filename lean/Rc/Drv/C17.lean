import Rc.Model.PaMap
import Rc.Model.Update
/-
Model side of the C17 line protocol (see harness/src/props/c17.rs).  Tokens that take a PDU
(`fu mu own wfu`) may carry a session suffix: `2` = two-octet session (`SessionConfig::legacy()`),
`a` = ADD-PATH (rx + tx) for all 13 families, `2a` = both; none = `SessionConfig::modern()`.
-/
namespace Rc.Drv.C17
open Rc Rc.PaMap

def kindLetter : Kind → String
  | .typed => "t" | .unimpl => "u" | .invalid => "i"

def showAttr (a : Attr) : String := kindLetter a.kind ++ hexOfBytes (compose a)

def showRet : Option Attr → String
  | some a => showAttr a
  | none => "-"

def showMap (m : Map) : String :=
  ";".intercalate (m.map fun a => s!"{a.code}={showAttr a}") ++ s!"#{bytesLen m}"

def parseSpec : List String → Option Attr
  | ["t", c, v] =>
    match c.toNat?, bytesOfHex v with
    | some c, some v => (Spec.typed c v).attr
    | _, _ => none
  | ["u", c, f, v] =>
    match c.toNat?, bytesOfHex f, bytesOfHex v with
    | some c, some [f], some v => (Spec.unimpl c f.toNat v).attr
    | _, _, _ => none
  | ["i", c, f, v] =>
    match c.toNat?, bytesOfHex f, bytesOfHex v with
    | some c, some [f], some v => (Spec.invalid c f.toNat v).attr
    | _, _, _ => none
  | _ => none

def typedCode (s : String) : Option Nat :=
  match s.toNat? with
  | some c => if (typeFlags c).isSome then some c else none
  | none => none

def showOwnList (l : List (Nat × Attr)) : String :=
  ";".intercalate (l.map fun (c, a) => s!"{c}={showAttr a}")

def typedCodes : List Nat := [1, 2, 3, 4, 5, 6, 7, 8, 9, 10, 16, 17, 18, 20, 21, 25, 32, 35, 128, 255]

/-- `fu`, `fu2`, `fua`, `fu2a` → (four-octet?, ADD-PATH?) -/
def sessOf (base tok : String) : Option (Bool × Bool) :=
  if tok = base then some (true, false)
  else if tok = base ++ "2" then some (false, false)
  else if tok = base ++ "a" then some (true, true)
  else if tok = base ++ "2a" then some (false, true)
  else none

/-- the three PDU consumers of a `pm` line -/
def pmPdu (s : St) (kind : String) (four ap : Bool) (p : Bytes) : Outcome (St × String) :=
  match parseUpdate four ap p with
  | .err => .ok (s, (if kind = "fu" then "F" else if kind = "mu" then "U" else "O") ++ "rej")
  | .panic => .panic
  | .ok u =>
    if kind = "fu" then
      let m := fromUpdate u; .ok ({ s with a := m }, s!"Fok|{showMap m}")
    else if kind = "mu" then
      let m := (mergeUpsert s.a (fromUpdate u)).1; .ok ({ s with a := m }, s!"Uok|{showMap m}")
    else
      let m := fromUpdate u
      let own := typedCodes.filterMap fun c => (ownedGet c u.attrs).map fun a => (c, a)
      let mp := typedCodes.filterMap fun c => (get c m).map fun a => (c, a)
      .ok (s, s!"O{showOwnList own}/{showOwnList mp}")

/-- one token of a `pm` line: new state and reply, `none` = bad-op, `some none` = panic -/
def pmTok (s : St) (tok : String) : Option (Outcome (St × String)) :=
  match tok.splitOn ":" with
  | ["set", c, v] =>
    match c.toNat?, bytesOfHex v with
    | some c, some v =>
      match mkTyped c v with
      | some a => let (m, r) := set a s.a; some (.ok ({ s with a := m }, s!"S{showRet r}|{showMap m}"))
      | none => none
    | _, _ => none
  | "sfe" :: spec =>
    match parseSpec spec with
    | some a => let (m, r) := setFromEnum a s.a; some (.ok ({ s with a := m }, s!"E{showRet r}|{showMap m}"))
    | none => none
  | "add" :: spec =>
    match parseSpec spec with
    | some a => let (m, r) := addAttribute a s.a; some (.ok ({ s with a := m }, s!"A{showRet r}|{showMap m}"))
    | none => none
  | ["get", c] =>
    match typedCode c with
    | some c => some (.ok (s, s!"G{showRet (get c s.a)}"))
    | none => none
  | ["rm", c] =>
    match typedCode c with
    | some c => let (m, r) := remove c s.a; some (.ok ({ s with a := m }, s!"R{showRet r}|{showMap m}"))
    | none => none
  | ["rnt"] => let m := removeNonTransitives s.a; some (.ok ({ s with a := m }, s!"N|{showMap m}"))
  | ["sw"] => some (.ok (⟨s.b, s.a⟩, s!"W|{showMap s.b}"))
  | ["mg"] => let (a, b) := mergeUpsert s.a s.b; some (.ok (⟨a, b⟩, s!"M{b.length}|{showMap a}"))
  | [k, p] =>
    let kind : Option (String × (Bool × Bool)) :=
      match sessOf "fu" k, sessOf "mu" k, sessOf "own" k with
      | some x, _, _ => some ("fu", x)
      | _, some x, _ => some ("mu", x)
      | _, _, some x => some ("own", x)
      | _, _, _ => none
    match kind, bytesOfHex p with
    | some (kind, (four, ap)), some p => some (pmPdu s kind four ap p)
    | _, _ => none
  | _ => none

def runToks {σ} (f : σ → String → Option (Outcome (σ × String))) : σ → List String → List String → String
  | _, [], acc => " ".intercalate acc.reverse
  | s, t :: ts, acc =>
    match f s t with
    | none => "bad-op"
    | some .panic => "panic"
    | some .err => "err"
    | some (.ok (s', r)) => runToks f s' ts (r :: acc)

/-! workshop lines -/

def showNh : Option NextHop → String
  | some nh => s!"{nh.tag}.{hexOrDash nh.raw}"
  | none => "-"

def showWs (w : Workshop) : String := s!"nh={showNh w.nexthop}|{showMap w.attrs}"

def flavourLetter (f : Nat) : String :=
  if f = 0 then "s" else if f = 1 then "e" else if f = 2 then "v" else "l"

def showComms (cs : List Community) : String :=
  if cs.isEmpty then "-" else ",".intercalate (cs.map fun c => flavourLetter c.flavour ++ hexOrDash c.raw)

def parseComm (s : String) : Option Community :=
  match s.toList with
  | k :: r =>
    let f : Option Nat := if k = 's' then some 0 else if k = 'e' then some 1 else if k = 'v' then some 2
      else if k = 'l' then some 3 else none
    match f, bytesOfHex (String.ofList r) with
    | some f, some raw => let c : Community := ⟨f, raw⟩; if c.wf then some c else none
    | _, _ => none
  | [] => none

def parseComms (s : String) : Option (List Community) :=
  if s = "-" then some [] else (s.splitOn ",").mapM parseComm

def nhLen (tag : Nat) : Option Nat :=
  if tag = 0 then some 4 else if tag = 1 then some 16 else if tag = 2 then some 32
  else if tag = 3 then some 12 else if tag = 4 then some 24 else if tag = 5 then some 0 else none

/-- does the first NLRI of the MP_REACH value after AFI/SAFI parse as the workshop's NLRI type
(`typed_announcements::<_, N>().next()`: `NextHop::skip`, one reserved byte, `N::parse`; `N` is the
ADD-PATH type of the family in an ADD-PATH session)? -/
def mpFirstNlri (f : Rc.Nlri.Fam) (ap : Bool) (bs : Bytes) : Outcome Bool :=
  match bs with
  | [] => .ok false
  | l :: r =>
    match takeN (l.toNat + 1) r with
    | none => .ok false
    | some (_, nl) =>
      if nl.isEmpty then .ok false
      else if ap then
        match (Rc.Nlri.codecAp f).dec nl with
        | .ok _ => .ok true
        | .err => .ok false
        | .panic => .panic
      else
        match (Rc.Nlri.codec f).dec nl with
        | .ok _ => .ok true
        | .err => .ok false
        | .panic => .panic

def wsTok (w : Workshop) (tok : String) : Option (Outcome (Workshop × String)) :=
  match tok.splitOn ":" with
  | ["set", c, v] =>
    match c.toNat?, bytesOfHex v with
    | some c, some v =>
      if isWorkshopScalar c then
        match mkTyped c v with
        | some a => let w' := w.setAttr a; some (.ok (w', s!"S|{showWs w'}"))
        | none => none
      else none
    | _, _ => none
  | ["get", c] =>
    match c.toNat? with
    | some c => if isWorkshopScalar c then some (.ok (w, s!"G{showRet (w.getAttr c)}")) else none
    | none => none
  | ["setc", l] =>
    match parseComms l with
    | some cs => let w' := w.setCommunities cs; some (.ok (w', s!"C|{showWs w'}"))
    | none => none
  | ["getc"] =>
    match w.getCommunities with
    | some cs => some (.ok (w, s!"c{showComms cs}"))
    | none => some (.ok (w, "cnone"))
  | ["nh", t, h] =>
    match t.toNat?, bytesOfHex h with
    | some t, some raw =>
      if nhLen t = some raw.length then
        let (w', old) := w.setNexthop ⟨t, raw⟩
        some (.ok (w', s!"H{showNh old}|{showWs w'}"))
      else none
    | _, _ => none
  | "add" :: spec =>
    match parseSpec spec with
    | some a =>
      let (m, r) := addAttribute a w.attrs
      let w' := { w with attrs := m }
      some (.ok (w', s!"A{showRet r}|{showWs w'}"))
    | none => none
  | ["rm", c] =>
    match typedCode c with
    | some c =>
      let (m, r) := remove c w.attrs
      let w' := { w with attrs := m }
      some (.ok (w', s!"R{showRet r}|{showWs w'}"))
    | none => none
  | [k, mode, p] =>
    match sessOf "wfu" k, bytesOfHex p with
    | some (four, ap), some p =>
      if mode = "c" ∨ mode = "m" then
        match parseUpdate four ap p with
        | .err => some (.ok (w, "Urej"))
        | .panic => some .panic
        | .ok u =>
          -- (is there a first NLRI of the workshop's type?, is that type IPv4 unicast?)
          let have_ : Outcome (Bool × Bool) :=
            if mode = "c" then .ok (u.nlri ≠ [], true)
            else match firstWire 14 u.attrs with
              | some mw =>
                match mw.value with
                | a :: b :: s :: r =>
                  match Rc.Upd.famOf (a.toNat * 256 + b.toNat, s.toNat) with
                  | some f =>
                    -- `typed_announcements` hands out the conventional section when `N` is IPv4
                    -- unicast and it is not empty (update.rs:445); it was validated when the PDU was parsed
                    if f = .v4u ∧ u.nlri ≠ [] then .ok (true, true)
                    else Rc.Upd.mapO (fun x => (x, decide (f = .v4u))) (mpFirstNlri f ap r)
                  | none => .ok (false, false)
                | _ => .ok (false, false)
              | none => .ok (false, false)
          match have_ with
          | .panic => some .panic
          | .err => some .err
          | .ok (false, _) => some (.ok (w, "Unonlri"))
          | .ok (true, v4u) =>
            match Workshop.fromUpdate v4u u with
            | some w' => some (.ok (w', s!"Uok|{showWs w'}"))
            | none => some (.ok (w, "Uerr"))
      else none
    | _, _ => none
  | _ => none

def handle (ws : List String) : String :=
  match ws with
  | "pm" :: toks => runToks pmTok ⟨[], []⟩ toks []
  | "ws" :: toks => runToks wsTok Workshop.new toks []
  | _ => "bad-op"

end Rc.Drv.C17
