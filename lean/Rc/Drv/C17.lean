import Rc.Model.PaMap
namespace Rc.Drv.C17
open Rc Rc.PaMap

def kindLetter : Kind → String
  | .typed => "t" | .unimpl => "u" | .invalid => "i"

def showAttr (a : Attr) : String := kindLetter a.kind ++ hexOfBytes (compose a)

def showRet : Option Attr → String
  | some a => showAttr a
  | none => "-"

def showMap (m : Map) : String :=
  ";".intercalate (m.map fun a => s!"{a.code}={showAttr a}") ++ s!"#{bytesLen m}"

def parseSpec : List String → Option Attr
  | ["t", c, v] =>
    match c.toNat?, bytesOfHex v with
    | some c, some v => (Spec.typed c v).attr
    | _, _ => none
  | ["u", c, f, v] =>
    match c.toNat?, bytesOfHex f, bytesOfHex v with
    | some c, some [f], some v => (Spec.unimpl c f.toNat v).attr
    | _, _, _ => none
  | ["i", c, f, v] =>
    match c.toNat?, bytesOfHex f, bytesOfHex v with
    | some c, some [f], some v => (Spec.invalid c f.toNat v).attr
    | _, _, _ => none
  | _ => none

def typedCode (s : String) : Option Nat :=
  match s.toNat? with
  | some c => if (typeFlags c).isSome then some c else none
  | none => none

def showOwnList (l : List (Nat × Attr)) : String :=
  ";".intercalate (l.map fun (c, a) => s!"{c}={showAttr a}")

def typedCodes : List Nat := [1, 2, 3, 4, 5, 6, 7, 8, 9, 10, 16, 17, 18, 20, 21, 25, 32, 35, 128, 255]

/-- one token of a `pm` line: new state and reply, `none` = bad-op, `some none` = panic -/
def pmTok (s : St) (tok : String) : Option (Outcome (St × String)) :=
  match tok.splitOn ":" with
  | ["set", c, v] =>
    match c.toNat?, bytesOfHex v with
    | some c, some v =>
      match mkTyped c v with
      | some a => let (m, r) := set a s.a; some (.ok ({ s with a := m }, s!"S{showRet r}|{showMap m}"))
      | none => none
    | _, _ => none
  | "sfe" :: spec =>
    match parseSpec spec with
    | some a => let (m, r) := setFromEnum a s.a; some (.ok ({ s with a := m }, s!"E{showRet r}|{showMap m}"))
    | none => none
  | "add" :: spec =>
    match parseSpec spec with
    | some a => let (m, r) := addAttribute a s.a; some (.ok ({ s with a := m }, s!"A{showRet r}|{showMap m}"))
    | none => none
  | ["get", c] =>
    match typedCode c with
    | some c => some (.ok (s, s!"G{showRet (get c s.a)}"))
    | none => none
  | ["rm", c] =>
    match typedCode c with
    | some c => let (m, r) := remove c s.a; some (.ok ({ s with a := m }, s!"R{showRet r}|{showMap m}"))
    | none => none
  | ["rnt"] => let m := removeNonTransitives s.a; some (.ok ({ s with a := m }, s!"N|{showMap m}"))
  | ["sw"] => some (.ok (⟨s.b, s.a⟩, s!"W|{showMap s.b}"))
  | ["mg"] => let (a, b) := mergeUpsert s.a s.b; some (.ok (⟨a, b⟩, s!"M{b.length}|{showMap a}"))
  | ["fu", p] =>
    match bytesOfHex p with
    | some p =>
      match parseUpdate p with
      | .ok u => let m := fromUpdate u; some (.ok ({ s with a := m }, s!"Fok|{showMap m}"))
      | .err => some (.ok (s, "Frej"))
      | .panic => some .panic
    | none => none
  | ["mu", p] =>
    match bytesOfHex p with
    | some p =>
      match parseUpdate p with
      | .ok u => let m := (mergeUpsert s.a (fromUpdate u)).1; some (.ok ({ s with a := m }, s!"Uok|{showMap m}"))
      | .err => some (.ok (s, "Urej"))
      | .panic => some .panic
    | none => none
  | ["own", p] =>
    match bytesOfHex p with
    | some p =>
      match parseUpdate p with
      | .ok u =>
        let m := fromUpdate u
        let own := typedCodes.filterMap fun c => (ownedGet c u.attrs).map fun a => (c, a)
        let mp := typedCodes.filterMap fun c => (get c m).map fun a => (c, a)
        some (.ok (s, s!"O{showOwnList own}/{showOwnList mp}"))
      | .err => some (.ok (s, "Orej"))
      | .panic => some .panic
    | none => none
  | _ => none

def runToks {σ} (f : σ → String → Option (Outcome (σ × String))) : σ → List String → List String → String
  | _, [], acc => " ".intercalate acc.reverse
  | s, t :: ts, acc =>
    match f s t with
    | none => "bad-op"
    | some .panic => "panic"
    | some .err => "err"
    | some (.ok (s', r)) => runToks f s' ts (r :: acc)

/-! workshop lines -/

def showNh : Option NextHop → String
  | some nh => s!"{nh.tag}.{hexOrDash nh.raw}"
  | none => "-"

def showWs (w : Workshop) : String := s!"nh={showNh w.nexthop}|{showMap w.attrs}"

def flavourLetter (f : Nat) : String :=
  if f = 0 then "s" else if f = 1 then "e" else if f = 2 then "v" else "l"

def showComms (cs : List Community) : String :=
  if cs.isEmpty then "-" else ",".intercalate (cs.map fun c => flavourLetter c.flavour ++ hexOrDash c.raw)

def parseComm (s : String) : Option Community :=
  match s.toList with
  | k :: r =>
    let f : Option Nat := if k = 's' then some 0 else if k = 'e' then some 1 else if k = 'v' then some 2
      else if k = 'l' then some 3 else none
    match f, bytesOfHex (String.ofList r) with
    | some f, some raw => let c : Community := ⟨f, raw⟩; if c.wf then some c else none
    | _, _ => none
  | [] => none

def parseComms (s : String) : Option (List Community) :=
  if s = "-" then some [] else (s.splitOn ",").mapM parseComm

def nhLen (tag : Nat) : Option Nat :=
  if tag = 0 then some 4 else if tag = 1 then some 16 else if tag = 2 then some 32 else none

/-- the first NLRI of the MP_REACH value after AFI/SAFI parses (`NextHop::skip`, one
reserved byte, `parse_prefix`) -/
def mpFirstNlri (afi : Nat) (bs : Bytes) : Outcome Bool :=
  match bs with
  | [] => .ok false
  | l :: r =>
    match takeN (l.toNat + 1) r with
    | none => .ok false
    | some (_, nl) =>
      match nl with
      | [] => .ok false
      | b :: rest =>
        let bits := b.toNat
        let nb := (bits + 7) / 8
        let maxb := if afi = 1 then 4 else 16
        if maxb < nb then .panic
        else match takeN nb rest with
          | none => .ok false
          | some (p, _) =>
            if bits % 8 = 0 then .ok true
            else match p.getLast? with
              | some x => .ok (x.toNat % (2 ^ (8 - bits % 8)) = 0)
              | none => .ok true

def wsTok (w : Workshop) (tok : String) : Option (Outcome (Workshop × String)) :=
  match tok.splitOn ":" with
  | ["set", c, v] =>
    match c.toNat?, bytesOfHex v with
    | some c, some v =>
      if isWorkshopScalar c then
        match mkTyped c v with
        | some a => let w' := w.setAttr a; some (.ok (w', s!"S|{showWs w'}"))
        | none => none
      else none
    | _, _ => none
  | ["get", c] =>
    match c.toNat? with
    | some c => if isWorkshopScalar c then some (.ok (w, s!"G{showRet (w.getAttr c)}")) else none
    | none => none
  | ["setc", l] =>
    match parseComms l with
    | some cs => let w' := w.setCommunities cs; some (.ok (w', s!"C|{showWs w'}"))
    | none => none
  | ["getc"] =>
    match w.getCommunities with
    | some cs => some (.ok (w, s!"c{showComms cs}"))
    | none => some (.ok (w, "cnone"))
  | ["nh", t, h] =>
    match t.toNat?, bytesOfHex h with
    | some t, some raw =>
      if nhLen t = some raw.length then
        let (w', old) := w.setNexthop ⟨t, raw⟩
        some (.ok (w', s!"H{showNh old}|{showWs w'}"))
      else none
    | _, _ => none
  | "add" :: spec =>
    match parseSpec spec with
    | some a =>
      let (m, r) := addAttribute a w.attrs
      let w' := { w with attrs := m }
      some (.ok (w', s!"A{showRet r}|{showWs w'}"))
    | none => none
  | ["rm", c] =>
    match typedCode c with
    | some c =>
      let (m, r) := remove c w.attrs
      let w' := { w with attrs := m }
      some (.ok (w', s!"R{showRet r}|{showWs w'}"))
    | none => none
  | ["wfu", mode, p] =>
    match bytesOfHex p with
    | some p =>
      if mode = "c" ∨ mode = "m" then
        match parseUpdate p with
        | .err => some (.ok (w, "Urej"))
        | .panic => some .panic
        | .ok u =>
          let have_ : Outcome Bool :=
            if mode = "c" then .ok (u.nlri ≠ [])
            else match firstWire 14 u.attrs with
              | some mw =>
                match mw.value with
                | a :: b :: s :: r =>
                  let afi := a.toNat * 256 + b.toNat
                  let safi := s.toNat
                  if (afi = 2 ∧ (safi = 1 ∨ safi = 2)) ∨ (afi = 1 ∧ safi = 2) then mpFirstNlri afi r
                  else .ok false
                | _ => .ok false
              | none => .ok false
          match have_ with
          | .panic => some .panic
          | .err => some .err
          | .ok false => some (.ok (w, "Unonlri"))
          | .ok true =>
            match Workshop.fromUpdate (mode = "c") u with
            | some w' => some (.ok (w', s!"Uok|{showWs w'}"))
            | none => some (.ok (w, "Uerr"))
      else none
    | none => none
  | _ => none

def handle (ws : List String) : String :=
  match ws with
  | "pm" :: toks => runToks pmTok ⟨[], []⟩ toks []
  | "ws" :: toks => runToks wsTok Workshop.new toks []
  | _ => "bad-op"

end Rc.Drv.C17
