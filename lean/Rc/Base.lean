/-
Shared wire-level library: bytes, outcomes (ok / err / panic), big-endian
integers, hex I/O for the line protocol.  Core Lean only (no Mathlib, no Std
imports) so that the driver links as a native executable.
-/

namespace Rc

abbrev Bytes := List UInt8

/-- Result of running a piece of modelled Rust code.  `err` stands for any
`Err(_)` return (ParseError / ComposeError ...), `panic` for any unwinding
(`unwrap` on `None`/`Err`, slice index out of range, arithmetic overflow in the
test profile, `todo!`, `unreachable!`). -/
inductive Outcome (α : Type) where
  | ok (a : α)
  | err
  | panic
  deriving Repr, DecidableEq

namespace Outcome

@[inline] def bind {α β} (x : Outcome α) (f : α → Outcome β) : Outcome β :=
  match x with
  | .ok a => f a
  | .err => .err
  | .panic => .panic

instance : Monad Outcome where
  pure := .ok
  bind := Outcome.bind

@[simp] theorem bind_ok {α β} (a : α) (f : α → Outcome β) : (Outcome.ok a >>= f) = f a := rfl
@[simp] theorem bind_err {α β} (f : α → Outcome β) : ((Outcome.err : Outcome α) >>= f) = .err := rfl
@[simp] theorem bind_panic {α β} (f : α → Outcome β) : ((Outcome.panic : Outcome α) >>= f) = .panic := rfl
@[simp] theorem pure_eq {α} (a : α) : (pure a : Outcome α) = .ok a := rfl

/-- `unwrap` of a Rust `Result`/`Option`: an error becomes a panic. -/
def unwrap {α} : Outcome α → Outcome α
  | .ok a => .ok a
  | _ => .panic

def isOk {α} : Outcome α → Bool
  | .ok _ => true
  | _ => false

def toOption {α} : Outcome α → Option α
  | .ok a => some a
  | _ => none

end Outcome

/-! ### big-endian integers -/

def be16 (n : Nat) : Bytes := [UInt8.ofNat (n / 256), UInt8.ofNat n]
def be32 (n : Nat) : Bytes :=
  [UInt8.ofNat (n / 16777216), UInt8.ofNat (n / 65536), UInt8.ofNat (n / 256), UInt8.ofNat n]

def rd16 : Bytes → Option (Nat × Bytes)
  | a :: b :: r => some (a.toNat * 256 + b.toNat, r)
  | _ => none

def rd32 : Bytes → Option (Nat × Bytes)
  | a :: b :: c :: d :: r =>
      some (a.toNat * 16777216 + b.toNat * 65536 + c.toNat * 256 + d.toNat, r)
  | _ => none

theorem rd16_be16 (n : Nat) (h : n < 65536) (r : Bytes) : rd16 (be16 n ++ r) = some (n, r) := by
  simp [rd16, be16, UInt8.toNat_ofNat']; omega

theorem rd32_be32 (n : Nat) (h : n < 4294967296) (r : Bytes) :
    rd32 (be32 n ++ r) = some (n, r) := by
  simp [rd32, be32, UInt8.toNat_ofNat']; omega

@[simp] theorem be16_length (n : Nat) : (be16 n).length = 2 := rfl
@[simp] theorem be32_length (n : Nat) : (be32 n).length = 4 := rfl

theorem rd16_lt {bs : Bytes} {n r} (h : rd16 bs = some (n, r)) : n < 65536 := by
  match bs, h with
  | a :: b :: _, h =>
    simp [rd16] at h
    have := a.toNat_lt; have := b.toNat_lt; omega

/-- `splitAt` that fails when fewer than `n` bytes remain (`Parser::parse_octets`
/ `advance` / slicing with a checked bound). -/
def takeN (n : Nat) (bs : Bytes) : Option (Bytes × Bytes) :=
  if n ≤ bs.length then some (bs.take n, bs.drop n) else none

theorem takeN_append (a r : Bytes) : takeN a.length (a ++ r) = some (a, r) := by
  simp [takeN]

theorem takeN_length {n : Nat} {bs a r : Bytes} (h : takeN n bs = some (a, r)) :
    a.length = n ∧ bs = a ++ r := by
  unfold takeN at h
  split at h
  · simp at h; obtain ⟨rfl, rfl⟩ := h; simp; omega
  · simp at h

/-- the compiled form of `takeN`: one pass over the `n` octets taken instead of
measuring the whole remaining input on every call (the definition's
`n ≤ bs.length` made every item-by-item decoder of the compiled driver quadratic
in the section length).  Compiler-only replacement, justified by
`takeN_eq_takeNFast`; the logical definition and every proof about it are
untouched. -/
def takeNFast.go : Nat → Bytes → Bytes → Option (Bytes × Bytes)
  | 0, acc, r => some (acc.reverse, r)
  | _ + 1, _, [] => none
  | n + 1, acc, b :: r => go n (b :: acc) r

def takeNFast (n : Nat) (bs : Bytes) : Option (Bytes × Bytes) := takeNFast.go n [] bs

theorem takeNFast.go_eq : ∀ (n : Nat) (acc bs : Bytes),
    takeNFast.go n acc bs = (takeN n bs).map fun p => (acc.reverse ++ p.1, p.2) := by
  intro n
  induction n with
  | zero => intro acc bs; simp [takeNFast.go, takeN]
  | succ n ih =>
    intro acc bs
    cases bs with
    | nil => simp [takeNFast.go, takeN]
    | cons b r =>
      rw [takeNFast.go, ih]
      simp only [takeN, List.length_cons, Nat.add_le_add_iff_right]
      split <;> simp

@[csimp] theorem takeN_eq_takeNFast : @takeN = @takeNFast := by
  funext n bs
  simp [takeNFast, takeNFast.go_eq]
/-! ### hex I/O (driver only; nothing is proved about it) -/

def hexDigit (n : Nat) : Char :=
  if n < 10 then Char.ofNat (48 + n) else Char.ofNat (87 + n)

def hexOfBytes (bs : Bytes) : String :=
  String.ofList (bs.flatMap fun b => [hexDigit (b.toNat / 16), hexDigit (b.toNat % 16)])

def hexVal (c : Char) : Option Nat :=
  if '0' ≤ c ∧ c ≤ '9' then some (c.toNat - 48)
  else if 'a' ≤ c ∧ c ≤ 'f' then some (c.toNat - 87)
  else if 'A' ≤ c ∧ c ≤ 'F' then some (c.toNat - 55)
  else none

def bytesOfHexAux : List Char → Bytes → Option Bytes
  | [], acc => some acc.reverse
  | [_], _ => none
  | a :: b :: r, acc =>
    match hexVal a, hexVal b with
    | some x, some y => bytesOfHexAux r (UInt8.ofNat (x * 16 + y) :: acc)
    | _, _ => none

/-- "-" denotes the empty byte string in the line protocol. -/
def bytesOfHex (s : String) : Option Bytes :=
  if s == "-" then some [] else bytesOfHexAux s.toList []

def hexOrDash (bs : Bytes) : String := if bs.isEmpty then "-" else hexOfBytes bs

end Rc
