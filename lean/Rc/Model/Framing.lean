/-
C09 model: BGP stream framing.

* `parseFrame`  mirrors `Connection::parse_frame`  (src/bgp/fsm/session.rs, after fix F12)
* `drain`/`feed`/`feedAll` mirror the `read_frame` loop: after every socket read the
  session calls `parse_frame` until it answers `None`
* `decodeMsg`   mirrors `Message::from_octets` (src/bgp/message/mod.rs:96): `Header::parse`
  (marker, length, type) is modelled concretely, the per-type decoders
  (`OpenMessage/UpdateMessage/NotificationMessage/KeepaliveMessage/RouteRefreshMessage::from_octets`
  and the OPEN accessors the FSM calls) are ONE ABSTRACT FUNCTION `body` – C01..C03 are about them
* `readMessage` mirrors the blocking reader `read_message` (src/bgp/message/mod.rs:146,
  after fix F11) with its fixed 4096-byte buffer
* `handleMsg`   mirrors `Session::handle_msg` + the arms of `Session::handle_event` a
  wire-derived event can reach (after fixes F23, F23b), `tickMsg`/`sessionRun` the message
  branch of `Session::tick`.  Since the unification with C08 it is no transcription of its own:
  it CALLS `Rc.Fsm.arm` / `Rc.Fsm.exec` (the C08 model of `handle_event`) and projects the result
  to the three things this file looks at (state, DelayOpenTimer running, connection present) -
  `Rc.Thm.C09.framing_step_is_fsm_step` states the agreement with `Rc.Fsm.handleInput` for every
  configuration and every C08 session state, `framing_table_is_fsm_arm` that the table this file
  used to spell out is the same function.

Core Lean only (the driver links this file).
-/
import Rc.Base
import Rc.Model.Fsm

namespace Rc.Framing
open Rc

/-! ### parse_frame -/

/-! ### the literals of `Connection::parse_frame` (session.rs) and `read_message` (message/mod.rs)

Named so that `Rc.Thm.C09.model_constants_agree` can tie THESE names - the ones the model functions below use - to
`Rc/Gen/Constants.lean`, which the pre step of `./check C09` regenerates from the source.  Editing a value here
or a literal in the source breaks that theorem.  They are scoped NOTATIONS for numerals, not `abbrev`s: `omega`
treats a reducible constant as an opaque atom, a notation elaborates to the numeral itself, so every proof about
`parseFrame` / `readMessage` sees literals while the source of the model has one place per value. -/

/-- `buf.set_position(16)` / `[buf[16], buf[17]]`: offset of the 2-octet length field (after the marker) -/
scoped notation "LEN_OFF" => (16 : Nat)
/-- `buf.remaining() >= 16 + 2` of `parse_frame`: marker + length -/
scoped notation "PF_PEEK" => (18 : Nat)
/-- `if len < 19 { return Err(..) }` of `parse_frame` (repair F12) -/
scoped notation "PF_MIN" => (19 : Nat)
/-- `(len as usize) - 18` of `parse_frame` -/
scoped notation "PF_SUB" => (18 : Nat)
/-- `read_exact(&mut buf[..18])` of `read_message`: octets read before the length is looked at -/
scoped notation "RM_FIRST" => (18 : Nat)
/-- `if len < 19` of `read_message` (repair F11) -/
scoped notation "RM_MIN" => (19 : Nat)
/-- `if len > 4096` of `read_message` (repair F11) -/
scoped notation "RM_MAX" => (4096 : Nat)
/-- `buf: &mut [u8; 4096]` of `read_message`: the length every caller's buffer has -/
scoped notation "RM_BUF" => (4096 : Nat)

/-- `buf.set_position(16); buf.get_u16()` on a buffer that holds at least 18 bytes. -/
def lenField (buf : Bytes) : Nat := (buf.getD LEN_OFF 0).toNat * 256 + (buf.getD (LEN_OFF + 1) 0).toNat

/-- `a - b` on `usize` with overflow checks on (test profile): `none` is the panic
"attempt to subtract with overflow". -/
def checkedSub (a b : Nat) : Option Nat := if b ≤ a then some (a - b) else none

/-- A frame handed to the FSM: decoded value and the raw bytes it was cut from. -/
abbrev Frame (μ : Type) := μ × Bytes

/-- mirrors src/bgp/fsm/session.rs `Connection::parse_frame`.
`dec` is `BgpMsg::from_octets(b, Some(&self.session_config))`.
Result: `ok none` = need more bytes, `ok (some (frame, rest))` = one frame cut, `rest` is the
buffer after `self.buffer.advance(len)`, `err` = `Err(ParseError)`. -/
def parseFrame {μ : Type} (dec : Bytes → Outcome μ) (buf : Bytes) :
    Outcome (Option (Frame μ × Bytes)) :=
  if buf.length < PF_PEEK then .ok none            -- `if buf.remaining() >= 16 + 2`
  else
    let len := lenField buf
    if len < PF_MIN then .err                      -- fix F12: `if len < 19 { return Err(..) }`
    else
      match checkedSub len PF_SUB with             -- `(len as usize) - 18`
      | none => .panic
      | some need =>
        if need ≤ buf.length - PF_PEEK then        -- `buf.remaining() >= need` (position is 18)
          match takeN len buf with                 -- `&buf.into_inner()[..len.into()]`
          | none => .panic
          | some (frame, rest) =>
            match dec frame with                   -- `BgpMsg::from_octets(b, ..)?`
            | .ok m => .ok (some ((m, frame), rest))   -- `self.buffer.advance(len.into())`
            | .err => .err
            | .panic => .panic
        else .ok none

theorem parseFrame_some {μ : Type} {dec : Bytes → Outcome μ} {buf : Bytes} {m : μ}
    {frame rest : Bytes} (h : parseFrame dec buf = .ok (some ((m, frame), rest))) :
    19 ≤ frame.length ∧ buf = frame ++ rest ∧ lenField buf = frame.length ∧ dec frame = .ok m := by
  unfold parseFrame at h
  split at h
  · simp at h
  · simp only at h
    split at h
    · simp at h
    · split at h
      · simp at h
      · split at h
        · split at h
          · simp at h
          · rename_i f r ht
            have hl := takeN_length ht
            split at h
            · rename_i m' hd
              simp at h
              obtain ⟨⟨rfl, rfl⟩, rfl⟩ := h
              refine ⟨by omega, hl.2, hl.1.symm, hd⟩
            · simp at h
            · simp at h
        · simp at h

/-- the buffer strictly shrinks when a frame is cut (termination of the drain loop) -/
theorem parseFrame_rest_lt {μ : Type} {dec : Bytes → Outcome μ} {buf : Bytes} {m : μ}
    {frame rest : Bytes} (h : parseFrame dec buf = .ok (some ((m, frame), rest))) :
    rest.length < buf.length := by
  have := parseFrame_some h
  have h2 : buf.length = frame.length + rest.length := by rw [this.2.1]; simp
  omega

/-! ### the read_frame loop -/

/-- State of a run: frames delivered so far, and how the stream stands:
`ok buf` = still reading with `buf` buffered, `err` = the session ended with an error,
`panic` = the session task panicked. -/
abbrev Run (μ : Type) := List (Frame μ) × Outcome Bytes

/-- Repeated `parse_frame` on the buffer until it answers `None` or fails: what the session
extracts between two socket reads. -/
def drain {μ : Type} (dec : Bytes → Outcome μ) (buf : Bytes) : Run μ :=
  match h : parseFrame dec buf with
  | .ok none => ([], .ok buf)
  | .err => ([], .err)
  | .panic => ([], .panic)
  | .ok (some ((m, frame), rest)) =>
    have : rest.length < buf.length := parseFrame_rest_lt h
    let r := drain dec rest
    ((m, frame) :: r.1, r.2)
termination_by buf.length

/-- One socket read of `chunk` (`tcp_in.read_buf(&mut self.buffer)`), then drain.
After an error or a panic nothing more is read. -/
def feed {μ : Type} (dec : Bytes → Outcome μ) (st : Run μ) (chunk : Bytes) : Run μ :=
  match st.2 with
  | .ok buf => let r := drain dec (buf ++ chunk); (st.1 ++ r.1, r.2)
  | _ => st

/-- The whole session on a given sequence of reads, starting with an empty buffer. -/
def feedAll {μ : Type} (dec : Bytes → Outcome μ) (chunks : List Bytes) : Run μ :=
  chunks.foldl (feed dec) ([], .ok [])

/-- `feed` with the chunk index at which every frame was delivered (for the correspondence
run only: delivery must be prompt). -/
def feedAt {μ : Type} (dec : Bytes → Outcome μ) :
    Nat → Run μ → List Nat → Option Nat → List Bytes → Run μ × List Nat × Option Nat
  | _, st, at_, ea, [] => (st, at_, ea)
  | i, st, at_, ea, c :: cs =>
    match st.2 with
    | .ok _ =>
      let st' := feed dec st c
      let k := st'.1.length - st.1.length
      let ea' := match st'.2 with | .ok _ => ea | _ => some i
      feedAt dec (i + 1) st' (at_ ++ List.replicate k i) ea' cs
    | _ => (st, at_, ea)

/-! ### Message::from_octets -/

/-- What the FSM needs to know of a decoded message. `open asAllowed addpathOk`:
`config.remote_asn_allowed(open.my_asn())`, `open.addpath_families_vec().is_ok()`. -/
inductive WireMsg where
  | open (asAllowed addpathOk : Bool)
  | update
  | notification (verErr : Bool)   -- version error (2/1) raises NotifMsgVerErr, any other NotifMsg
  | keepalive
  | routeRefresh
  deriving Repr, DecidableEq

def marker : Bytes := List.replicate 16 255

/-- mirrors src/bgp/message/mod.rs:96 `Message::from_octets`:
`Header::parse` = `Marker::check` (16 bytes, all 0xff), `parse_u16_be`, `parse_u8`,
`seek(pos)`, `parse_octets(19)`; then dispatch on the type byte: 1..4 and, since the repair of K13
(`fix: Message::from_octets decodes a ROUTE-REFRESH`), 5 go to their decoders, everything unknown is
`Err(ParseError::Unsupported)`. `body` stands for the five per-type decoders. -/
def decodeMsg (body : Bytes → Outcome WireMsg) (f : Bytes) : Outcome WireMsg :=
  if f.length < 16 then .err                       -- parse_buf(&mut [0u8; 16])? : ShortInput
  else if f.take 16 ≠ marker then .err             -- "invalid BGP marker"
  else if f.length < 18 then .err                  -- parse_u16_be()?
  else if f.length < 19 then .err                  -- parse_u8()?   (then seek + parse_octets(19): same bound)
  else
    let t := (f.getD 18 0).toNat
    if t = 1 ∨ t = 2 ∨ t = 3 ∨ t = 4 ∨ t = 5 then body f
    else .err                                      -- Unimplemented(t) => Unsupported

/-! ### read_message (blocking reader) -/

/-- A `std::io::Read`: the bytes still to come; `partialCopy` distinguishes the default
`read_exact` (loops over `read`, copies what there is before failing with UnexpectedEof)
from the `&[u8]` specialisation (copies nothing and empties the slice when it is too short). -/
structure Reader where
  data : Bytes
  partialCopy : Bool

/-- overwrite `buf[off .. off + d.length]` with `d` (caller guarantees the range fits) -/
def blit (buf : Bytes) (off : Nat) (d : Bytes) : Bytes :=
  buf.take off ++ d ++ buf.drop (off + d.length)

/-- `bytes.read_exact(&mut buf[off..off+n])`: (succeeded, reader after, buffer after) -/
def readExact (r : Reader) (buf : Bytes) (off n : Nat) : Bool × Reader × Bytes :=
  if n ≤ r.data.length then
    (true, { r with data := r.data.drop n }, blit buf off (r.data.take n))
  else if r.partialCopy then
    (false, { r with data := [] }, blit buf off r.data)
  else
    (false, { r with data := [] }, buf)

/-- mirrors src/bgp/message/mod.rs:146 `read_message` (after fix F11). `buf` is the caller's
`[u8; 4096]`. Result: `ok none` = `Ok(None)` (EOF inside the first 18 bytes),
`ok (some frame)` = `Ok(Some(&buf[..len]))`, `err` = `Err(_)`; plus reader and buffer after. -/
def readMessage (r : Reader) (buf : Bytes) : Outcome (Option Bytes) × Reader × Bytes :=
  if buf.length < RM_FIRST then (.panic, r, buf)   -- `&mut buf[..18]` (never: the type is [u8; 4096])
  else
    let (ok1, r1, b1) := readExact r buf 0 RM_FIRST
    if !ok1 then (.ok none, r1, b1)                -- UnexpectedEof => Ok(None)
    else
      let len := lenField b1                       -- u16::from_be_bytes([buf[16], buf[17]])
      if len < RM_MIN then (.err, r1, b1)          -- fix F11
      else if len > RM_MAX then (.err, r1, b1)     -- fix F11
      else if ¬ (RM_FIRST ≤ len ∧ len ≤ b1.length) then (.panic, r1, b1)   -- `&mut buf[18..len]`
      else
        let (_, r2, b2) := readExact r1 b1 RM_FIRST (len - RM_FIRST)   -- `let _ = bytes.read_exact(..)`
        (.ok (some (b2.take len)), r2, b2)         -- `Ok(Some(&buf[..len]))`

/-- repeated `read_message` on one reader and one buffer, at most `n` calls (driver) -/
def readMessages : Nat → Reader → Bytes → List (Outcome (Option Bytes))
  | 0, _, _ => []
  | n + 1, r, buf =>
    match readMessage r buf with
    | (.ok (some f), r', b') => .ok (some f) :: readMessages n r' b'
    | (o, _, _) => [o]

/-! ### the FSM as seen from the wire -/

inductive St where
  | idle | connect | active | openSent | openConfirm | established | unimplemented
  deriving Repr, DecidableEq

/-- PDUs the session sends in reply (`pdu_out_tx`) -/
inductive Out where
  | open | keepalive | notif (code sub : Nat)
  deriving Repr, DecidableEq

/-- the part of a `Session` the wire-driven transitions read or write -/
structure Sess where
  st : St
  delayOpen : Bool      -- `delay_open_timer.is_running()`
  conn : Bool           -- `connection.is_some()`
  deriving Repr, DecidableEq

inductive HRes where
  | todo                                   -- a `todo!()` arm: panics "not yet implemented"
  | panic                                  -- `.unwrap()` on a missing connection
  | done (ok : Bool) (s : Sess) (outs : List Out)
  deriving Repr, DecidableEq

/-! #### the C08 model of `handle_event`, seen through `Sess`

`Rc.Fsm.State` has the six RFC states; `State::Unimplemented(_)` (the catch-all of `typeenum!`,
never constructed by the session code but reachable through the `verif_set_state` hook) exists only
here.  `Rc.Fsm.St` carries four timer flags, the connect-retry counter and the negotiated
configuration; the arms a received message can reach read only `state`, `delay_open_timer.is_running()`
and `connection.is_some()` of them, which is what `Sess` keeps. -/

def St.toFsm : St → Option Fsm.State
  | .idle => some .idle | .connect => some .connect | .active => some .active
  | .openSent => some .openSent | .openConfirm => some .openConfirm | .established => some .established
  | .unimplemented => none

def St.ofFsm : Fsm.State → St
  | .idle => .idle | .connect => .connect | .active => .active
  | .openSent => .openSent | .openConfirm => .openConfirm | .established => .established

/-- the PDU a C08 output is (what goes to the application channel is not a PDU) -/
def Out.ofFsm : Fsm.Out → Option Out
  | .pduOpen _ => some .open
  | .pduKeepalive => some .keepalive
  | .pduNotification c s => some (.notif c s)
  | _ => none

/-- what this file sees of a C08 session state -/
def Sess.ofFsm (s : Fsm.St) : Sess := ⟨St.ofFsm s.state, s.dop, s.conn⟩

/-- a C08 session state with the given view (the fields `Sess` does not keep are those of a fresh
session; `Rc.Thm.C09.exec_view` shows that they do not influence the view of the result) -/
def Sess.lift (s : Sess) (st : Fsm.State) : Fsm.St := ⟨st, false, false, false, s.delayOpen, 0, s.conn, none⟩

/-- a configuration to run `Rc.Fsm.arm` / `Rc.Fsm.exec` with: the arms of the six message events read
none of its fields (`Rc.Thm.C09.arm_msg_ctx`), and none of them reaches the view of the result -/
def wireCfg : Fsm.Cfg := ⟨false, false, false, false, [], 0, []⟩

/-- the event kind `Session::handle_msg` (session.rs:485) raises for a decoded message:
OPEN: BgpOpenWithDelayOpenTimerRunning if `self.delay_open_timer.is_running()` else BgpOpen;
KEEPALIVE: KeepaliveMsg; UPDATE: UpdateMsg; NOTIFICATION: NotifMsgVerErr for OPEN Message Error /
Unsupported Version Number, else NotifMsg; ROUTE-REFRESH raises no event ("not doing anything") -/
def kindOfWire (dop : Bool) : WireMsg → Option Fsm.Kind
  | .open a b => some (if dop then .bgpOpenDelay a b else .bgpOpen a b)
  | .update => some .updateMsg
  | .notification v => some (if v then .notifMsgVerErr else .notifMsg)
  | .keepalive => some .keepaliveMsg
  | .routeRefresh => none

/-- mirrors `Session::handle_msg` (session.rs:485) composed with `Session::handle_event` for the
six events a received message can raise: the event kind is `kindOfWire`, the arm is C08's
`Rc.Fsm.arm`, its statements are interpreted by C08's `Rc.Fsm.exec`.
`(S::Unimplemented(_), _) => set_state(Idle)` is the first arm of `handle_event`. -/
def handleMsg (s : Sess) (m : WireMsg) : HRes :=
  match kindOfWire s.delayOpen m with
  | none => .done true s []                         -- ROUTE-REFRESH: `handle_event` is not called
  | some k =>
    match s.st.toFsm with
    | none => .done true { s with st := .idle } []  -- "Unimplemented state, resetting to Idle"
    | some st =>
      match Fsm.arm (Fsm.ctxOf wireCfg (s.lift st)) st k with
      | .todo => .todo
      | .panic => .panic
      | .run acts ok =>
        let r := Fsm.exec wireCfg Fsm.defaultOpen (s.lift st) acts
        .done ok (Sess.ofFsm r.1) (r.2.filterMap Out.ofFsm)

/-- outcome of one turn of the message branch of `Session::tick` -/
inductive Tick where
  | panic                                  -- the session task panics
  | readErr                                -- read_frame failed: tick returns Err, connection dropped, state Connect
  | eof                                    -- Ok(None): ConnectionLost to the application, state Connect
  | handled (ok : Bool) (s : Sess) (outs : List Out) (rest : Bytes)
  deriving Repr, DecidableEq

/-- the `Ok(Some(m))` arm of the frame branch of `Session::tick` (session.rs:289): `handle_msg`, and
`set_state(State::Connect); return Err` when it failed (= the `.frame` case of `Rc.Fsm.tickStep`,
`Rc.Thm.C09.framing_tick_is_fsm_tick`) -/
def tickHandle (s : Sess) (m : WireMsg) (rest : Bytes) : Tick :=
  match handleMsg s m with
  | .todo => .panic
  | .panic => .panic
  | .done true s' outs => .handled true s' outs rest
  | .done false s' outs => .handled false { s' with st := .connect } outs rest

/-- mirrors the `maybe_read_frame` branch of `Session::tick` (session.rs:334) when every byte
the peer will ever send is in `buf` and the peer then closes: `read_frame` = `parse_frame`,
else EOF (`Ok(None)` on an empty buffer, "connection reset by peer" otherwise). -/
def tickMsg (body : Bytes → Outcome WireMsg) (s : Sess) (buf : Bytes) : Tick :=
  match parseFrame (decodeMsg body) buf with
  | .panic => .panic
  | .err => .readErr
  | .ok none => if buf.isEmpty then .eof else .readErr
  | .ok (some ((m, _), rest)) => tickHandle s m rest

/-- `Session::process` on the message branch: tick until an error, EOF or a dropped
connection. Result: the ticks, final session. -/
def sessionRun (body : Bytes → Outcome WireMsg) : Nat → Sess → Bytes → List Tick × Sess
  | 0, s, _ => ([], s)
  | n + 1, s, buf =>
    match tickMsg body s buf with
    | .handled true s' outs rest =>
      if s'.conn then
        let r := sessionRun body n s' rest
        (.handled true s' outs rest :: r.1, r.2)
      else ([.handled true s' outs rest], s')
    | .handled false s' outs rest => ([.handled false s' outs rest], s')
    | .readErr => ([.readErr], { s with st := .connect, conn := false })
    | .eof => ([.eof], { s with st := .connect, conn := false })
    | .panic => ([.panic], s)

end Rc.Framing
